import LhasaV.Lemmas.ReaderWorkPresentBase
import LhasaV.Model.Lh1
/-!
# The -lh1- decoder is `Present`: its source position stays inside the data physically present

`Lh1.dec` changes its input source only through `Src.read` (via `Bits.readBit`, `readBits`, `peek`
in `walk`, `readOffset`, `read`), which never passes the physical end.  All the tree-maintenance
functions leave the `bits` field alone.  (Structure of `HonestLh1`, relation `PLe` for `SrcLe`.)

Device: `Post P p x` = "if `x` returns `a`, then `P` holds of the bit reader `p a` inside `a`".
With `P := (· = b)` it is a frame statement, with `P := Le a` it is "the source is inside every bound
`a` was inside".
-/
namespace LhasaV.ReaderPresent
open LhasaV LhasaV.Lh1

/-! ## the generic device -/

/-- the bit reader inside a returned value -/
def P1 (s : St) : Bits := s.bits
def P2 {γ : Type} (a : γ × St) : Bits := a.2.bits
def P3 {γ δ : Type} (a : γ × δ × St) : Bits := a.2.2.bits

/-- if `x` returns `a`, the bit reader `p a` in the result satisfies `P` -/
def Post {β : Type} (P : Bits → Prop) (p : β → Bits) (x : Res β) : Prop := ∀ a, x = .ok a → P (p a)

section
variable {α β γ δ : Type} {P : Bits → Prop} {p : β → Bits}

theorem post_fail : Post P p (.fail : Res β) := by intro a h; cases h
theorem post_fault {w : String} : Post P p (.fault w : Res β) := by intro a h; cases h
theorem post_ok {a : β} (h : P (p a)) : Post P p (.ok a) := by intro b e; cases e; exact h
theorem post_pure {a : β} (h : P (p a)) : Post P p (pure a) := post_ok h

theorem post_bind_any {x : Res α} {f : α → Res β} (hf : ∀ a, Post P p (f a)) :
    Post P p (x >>= f) := by
  intro b e
  obtain ⟨a, _, e2⟩ := Res.bind_eq_ok.mp e
  exact hf a b e2

theorem post_bind_of {q : α → Bits} {x : Res α} {f : α → Res β}
    (hx : Post P q x) (hf : ∀ a, P (q a) → Post P p (f a)) : Post P p (x >>= f) := by
  intro b e
  obtain ⟨a, e1, e2⟩ := Res.bind_eq_ok.mp e
  exact hf a (hx a e1) b e2

theorem post_bind1 {x : Res St} {f : St → Res β}
    (hx : Post P P1 x) (hf : ∀ a, P (P1 a) → Post P p (f a)) : Post P p (x >>= f) :=
  post_bind_of hx hf

theorem post_bind2 {x : Res (γ × St)} {f : γ × St → Res β}
    (hx : Post P P2 x) (hf : ∀ a, P (P2 a) → Post P p (f a)) : Post P p (x >>= f) :=
  post_bind_of hx hf

theorem post_bind3 {x : Res (γ × δ × St)} {f : γ × δ × St → Res β}
    (hx : Post P P3 x) (hf : ∀ a, P (P3 a) → Post P p (f a)) : Post P p (x >>= f) :=
  post_bind_of hx hf

theorem post_elim {x : Res β} {a : β} (h : Post P p x) (e : x = .ok a) : P (p a) := h a e
end

attribute [irreducible] Post

/-- frame lemmas of the model functions, registered one by one below -/
syntax "kfun" : tactic
macro_rules | `(tactic| kfun) => `(tactic| fail "kfun: no frame lemma applies")

macro "kstep" : tactic => `(tactic| first
  | exact post_fail
  | exact post_fault
  | (apply post_ok; assumption)
  | (apply post_pure; assumption)
  | kfun
  | apply post_bind1
  | apply post_bind3
  | apply post_bind2
  | apply post_bind_any
  | intro _
  | (dsimp only)
  | split)

/-! ## frame lemmas: the tree-maintenance functions never touch `bits` -/
section
variable {P : Bits → Prop}

attribute [local irreducible] getNode getA

theorem setNode_post {s : St} (site : String) (i : Nat) (n : Node) (h : P s.bits) :
    Post P P1 (setNode s site i n) := by
  unfold setNode
  repeat' kstep
macro_rules | `(tactic| kfun) => `(tactic| (apply setNode_post; assumption))
attribute [local irreducible] setNode

theorem setLeafNode_post {s : St} (site : String) (i v : Nat) (h : P s.bits) :
    Post P P1 (setLeafNode s site i v) := by
  unfold setLeafNode
  repeat' kstep
macro_rules | `(tactic| kfun) => `(tactic| (apply setLeafNode_post; assumption))
attribute [local irreducible] setLeafNode

theorem setGroupLeader_post {s : St} (site : String) (i v : Nat) (h : P s.bits) :
    Post P P1 (setGroupLeader s site i v) := by
  unfold setGroupLeader
  repeat' kstep
macro_rules | `(tactic| kfun) => `(tactic| (apply setGroupLeader_post; assumption))
attribute [local irreducible] setGroupLeader

theorem allocGroup_post {s : St} (h : P s.bits) : Post P P2 (allocGroup s) := by
  unfold allocGroup
  repeat' kstep
macro_rules | `(tactic| kfun) => `(tactic| (apply allocGroup_post; assumption))
attribute [local irreducible] allocGroup

theorem freeGroup_post {s : St} (g : Nat) (h : P s.bits) : Post P P1 (freeGroup s g) := by
  unfold freeGroup
  repeat' kstep
macro_rules | `(tactic| kfun) => `(tactic| (apply freeGroup_post; assumption))
attribute [local irreducible] freeGroup

theorem initLeaves_post (lg : Nat) : ∀ (k i ni : Nat) (s : St), P s.bits →
    Post P P1 (initLeaves lg k i ni s) := by
  intro k
  induction k with
  | zero => intro i ni s h; unfold initLeaves; repeat' kstep
  | succ k ih =>
    intro i ni s h
    unfold initLeaves
    repeat' first | (apply ih; assumption) | kstep
macro_rules | `(tactic| kfun) => `(tactic| (apply initLeaves_post; assumption))
attribute [local irreducible] initLeaves

theorem initBranches_post : ∀ (k child : Nat) (s : St), P s.bits →
    Post P P1 (initBranches k child s) := by
  intro k
  induction k with
  | zero => intro child s h; unfold initBranches; repeat' kstep
  | succ k ih =>
    intro child s h
    unfold initBranches
    repeat' first | (apply ih; assumption) | kstep
macro_rules | `(tactic| kfun) => `(tactic| (apply initBranches_post; assumption))
attribute [local irreducible] initBranches

theorem initOffsetTable_post {s : St} (h : P s.bits) : Post P P1 (initOffsetTable s) := by
  unfold initOffsetTable
  repeat' kstep
macro_rules | `(tactic| kfun) => `(tactic| (apply initOffsetTable_post; assumption))
attribute [local irreducible] initOffsetTable

theorem init_post (src : Src) (h : P { src := src }) : Post P P1 (Lh1.init src) := by
  unfold Lh1.init
  dsimp only
  apply post_bind2
  · apply allocGroup_post
    exact h
  intro a ha
  repeat' kstep

theorem fixLinks_post {s : St} (idx : Nat) (h : P s.bits) : Post P P1 (fixLinks s idx) := by
  unfold fixLinks
  repeat' kstep
macro_rules | `(tactic| kfun) => `(tactic| (apply fixLinks_post; assumption))
attribute [local irreducible] fixLinks

theorem makeGroupLeader_post {s : St} (ni : Nat) (h : P s.bits) :
    Post P P2 (makeGroupLeader s ni) := by
  unfold makeGroupLeader
  repeat' kstep
macro_rules | `(tactic| kfun) => `(tactic| (apply makeGroupLeader_post; assumption))
attribute [local irreducible] makeGroupLeader

theorem incrementNodeFreq_post {s : St} (ni : Nat) (h : P s.bits) :
    Post P P1 (incrementNodeFreq s ni) := by
  unfold incrementNodeFreq
  repeat' kstep
macro_rules | `(tactic| kfun) => `(tactic| (apply incrementNodeFreq_post; assumption))
attribute [local irreducible] incrementNodeFreq

theorem gatherLeaves_post : ∀ (k i leaf : Nat) (s : St), P s.bits →
    Post P P1 (gatherLeaves k i leaf s) := by
  intro k
  induction k with
  | zero => intro i leaf s h; unfold gatherLeaves; repeat' kstep
  | succ k ih =>
    intro i leaf s h
    unfold gatherLeaves
    repeat' first | (apply ih; assumption) | kstep
macro_rules | `(tactic| kfun) => `(tactic| (apply gatherLeaves_post; assumption))
attribute [local irreducible] gatherLeaves

theorem placeLeaf_post {s : St} (i leaf : Int) (h : P s.bits) : Post P P1 (placeLeaf s i leaf) := by
  unfold placeLeaf
  repeat' kstep
macro_rules | `(tactic| kfun) => `(tactic| (apply placeLeaf_post; assumption))
attribute [local irreducible] placeLeaf

theorem placeWhileClose_post : ∀ (k : Nat) (i leaf child : Int) (s : St), P s.bits →
    Post P P3 (placeWhileClose k i leaf child s) := by
  intro k
  induction k with
  | zero => intro i leaf child s h; unfold placeWhileClose; repeat' kstep
  | succ k ih =>
    intro i leaf child s h
    unfold placeWhileClose
    repeat' first | (apply ih; assumption) | kstep
macro_rules | `(tactic| kfun) => `(tactic| (apply placeWhileClose_post; assumption))
attribute [local irreducible] placeWhileClose

theorem placeWhileLighter_post : ∀ (k : Nat) (i leaf : Int) (freq : Nat) (s : St), P s.bits →
    Post P P3 (placeWhileLighter k i leaf freq s) := by
  intro k
  induction k with
  | zero => intro i leaf freq s h; unfold placeWhileLighter; repeat' kstep
  | succ k ih =>
    intro i leaf freq s h
    unfold placeWhileLighter
    repeat' first | (apply ih; assumption) | kstep
macro_rules | `(tactic| kfun) => `(tactic| (apply placeWhileLighter_post; assumption))
attribute [local irreducible] placeWhileLighter

theorem rebuildLoop_post : ∀ (k : Nat) (i leaf child : Int) (s : St), P s.bits →
    Post P P1 (rebuildLoop k i leaf child s) := by
  intro k
  induction k with
  | zero => intro i leaf child s h; unfold rebuildLoop; repeat' kstep
  | succ k ih =>
    intro i leaf child s h
    unfold rebuildLoop
    repeat' first | (apply ih; assumption) | kstep
macro_rules | `(tactic| kfun) => `(tactic| (apply rebuildLoop_post; assumption))
attribute [local irreducible] rebuildLoop

theorem regroup_post : ∀ (k i group : Nat) (s : St), P s.bits →
    Post P P1 (regroup k i group s) := by
  intro k
  induction k with
  | zero => intro i group s h; unfold regroup; repeat' kstep
  | succ k ih =>
    intro i group s h
    unfold regroup
    repeat' first | (apply ih; assumption) | kstep
macro_rules | `(tactic| kfun) => `(tactic| (apply regroup_post; assumption))
attribute [local irreducible] regroup

theorem reconstructTree_post {s : St} (h : P s.bits) : Post P P1 (reconstructTree s) := by
  unfold reconstructTree
  repeat' kstep
macro_rules | `(tactic| kfun) => `(tactic| (apply reconstructTree_post; assumption))
attribute [local irreducible] reconstructTree

theorem climb_post : ∀ (k ni : Nat) (s : St), P s.bits → Post P P1 (climb k ni s) := by
  intro k
  induction k with
  | zero => intro ni s h; unfold climb; repeat' kstep
  | succ k ih =>
    intro ni s h
    unfold climb
    repeat' first | (apply ih; assumption) | kstep
macro_rules | `(tactic| kfun) => `(tactic| (apply climb_post; assumption))
attribute [local irreducible] climb

theorem incrementForCode_post {s : St} (code : Nat) (h : P s.bits) :
    Post P P1 (incrementForCode s code) := by
  unfold incrementForCode
  repeat' kstep
macro_rules | `(tactic| kfun) => `(tactic| (apply incrementForCode_post; assumption))
attribute [local irreducible] incrementForCode

/-! ## the three functions that read input -/

/-- the bit reader `r` sits on a source reached from `a` by reads only -/
def Le (a : Src) (r : Bits) : Prop := PLe a r.src

theorem le_readBit {a : Src} {r : Bits} (h : Le a r) : Le a r.readBit.2 := PLe.trans h (readBit_le r)
theorem le_readBits {a : Src} {r : Bits} (n : Nat) (h : Le a r) : Le a (r.readBits n).2 :=
  PLe.trans h (readBits_le r n)
theorem le_peek {a : Src} {r : Bits} (n : Nat) (h : Le a r) : Le a (r.peek n).2 :=
  PLe.trans h (peek_le r n)

theorem walk_post (a : Src) : ∀ (k ni : Nat) (s : St), Le a s.bits → Post (Le a) P2 (walk k ni s) := by
  intro k
  induction k with
  | zero => intro ni s h; unfold walk; repeat' kstep
  | succ k ih =>
    intro ni s h
    unfold walk
    repeat' first
      | (apply ih; exact le_readBit (by assumption))
      | (apply post_pure; exact le_readBit (by assumption))
      | kstep
attribute [local irreducible] walk

theorem readOffset_post (a : Src) (s : St) (h : Le a s.bits) : Post (Le a) P2 (readOffset s) := by
  unfold readOffset
  repeat' first
    | (apply post_pure; exact le_peek _ (by assumption))
    | (apply post_pure; exact le_readBits _ (le_readBits _ (le_peek _ (by assumption))))
    | kstep
attribute [local irreducible] readOffset

theorem read_post (a : Src) (s : St) (h : Le a s.bits) : Post (Le a) P2 (Lh1.read s) := by
  unfold Lh1.read
  repeat' first
    | (apply walk_post; assumption)
    | (apply readOffset_post; assumption)
    | kstep

end

/-! ## the statements in plain form -/

/-- `Lh1.init` puts the given source, untouched, into the state -/
theorem init_src {src : Src} {s : St} (e : Lh1.init src = .ok s) : s.bits.src = src := by
  have h : s.bits = { src := src } := post_elim (P := (· = { src := src })) (init_post src rfl) e
  rw [h]

/-- one `read` moves the source only by reads -/
theorem read_le {s s' : St} {o : List UInt8} (e : Lh1.read s = .ok (o, s')) :
    PLe s.bits.src s'.bits.src :=
  post_elim (read_post s.bits.src s (PLe.refl _)) e

/-- the wrapper of `Lh1.dec` around an arbitrary `init` / `read` pair: stated with `init` and `read`
abstract, so that checking it never evaluates the (closed, computable) term `Lh1.init src` -/
theorem present_wrap (i : Src → Res St) (r : St → Res (List UInt8 × St))
    (hi : ∀ src s, i src = .ok s → s.bits.src = src)
    (hr : ∀ s o s', r s = .ok (o, s') → PLe s.bits.src s'.bits.src) :
   Present { σ := Res St, init := i,
             read := fun rs => match rs with
               | .ok s => (r s) >>= fun r => .ok (r.1, .ok r.2)
               | .fail => .fail
               | .fault w => .fault w,
             src := fun rs => match rs with
               | .ok s => s.bits.src
               | _ => { data := #[] } } where
  init := by
    intro N src h
    dsimp only
    generalize hx : i src = x
    cases x with
    | ok s => dsimp only; rw [hi src s hx]; exact h
    | fail => exact ⟨Nat.le_refl _, Nat.zero_le _⟩
    | fault w => exact ⟨Nat.le_refl _, Nat.zero_le _⟩
  read := by
    intro N st o st' e h
    dsimp only at e h
    cases st with
    | ok s =>
      dsimp only at e
      obtain ⟨p, e1, e2⟩ := Res.bind_eq_ok.mp e
      obtain ⟨o1, s1⟩ := p
      cases e2
      exact hr s _ s1 e1 N h
    | fail => cases e
    | fault w => cases e

theorem present_lh1 : Present Lh1.dec :=
  present_wrap Lh1.init Lh1.read (fun _ _ e => init_src e) (fun _ _ _ e => read_le e)

end LhasaV.ReaderPresent
