import LhasaV.Lemmas.ExtractTree11
/-!
# C06 (part 12): the extraction loop on a well-formed archive

`Denotes fuel s es`: along the run of `extractLoop fuel s`, the archive behind the reader denotes
the entries `es` — whenever `lha_reader_next_file` advances the basic reader, the header it
finds denotes the next entry of the list (or the stream ends when the list does), and a regular
file decodes to the entry's contents with a good length/CRC verdict.  Nothing is assumed about
which entry the reader *presents*: the re-presentation of directories is the reader's own doing.

`loop_final`: under that hypothesis, from a state that satisfies the loop invariant, the loop
ends with every entry in its final form.
-/
namespace LhasaV.ExtractTree
open LhasaV LhasaV.Header LhasaV.Extract LhasaV.GlobFs LhasaV.Contain
open Reader

/-- the archive behind the reader denotes the entries `es` (along the run, see above) -/
def Denotes : Nat → Extract.St → List Entry → Prop
  | 0, _, _ => True
  | fuel+1, s, es =>
    s.aborted = false →
    ∃ oc rd', Reader.next s.rd = .ok (oc, rd') ∧
      ((s.rd.currType = .start ∨ s.rd.currType = .normal) → Pending rd'.basic.curr es) ∧
      ∀ c, oc = some c →
        (rd'.currType = .normal → ∀ p data perms mtime tl, es = .file p data perms mtime :: tl →
          (Reader.openDecoder rd').1 = true ∧ (Reader.extract rd' true).1 = (true, data)) ∧
        Denotes fuel (extractArchivedFile { s with rd := rd' } c.h)
          (if rd'.currType = .normal then es.tail else es)

/-- the end of a successful run: every entry of `all` in its final form, no directory open -/
structure Final (fs0 : Fs.St) (all : List Entry) (s : Extract.St) : Prop where
  aborted : s.aborted = false
  result : s.result = true
  fs : FsInv fs0 all [] s.fs

theorem tail_basic (u : Reader.St) : (nextDeferred (nextPop u)).basic = u.basic := by
  unfold nextDeferred nextPop
  repeat' split
  all_goals rfl

theorem stackRel_cons {ds : List HObj} {d : Entry} {stk : List Entry} (h : StackRel ds (d :: stk)) :
    ∃ top rs, ds = top :: rs ∧ HdrOf d top.h ∧ StackRel rs stk := by
  cases ds with
  | nil => exact h.elim
  | cons top rs => exact ⟨top, rs, rfl, h.1, h.2⟩

theorem stackRel_nil {ds : List HObj} (h : StackRel ds []) : ds = [] := by
  cases ds with
  | nil => rfl
  | cons top rs => exact h.elim

theorem matches_nofilter (o : Opts) (h : Hdr) (hf : o.filters = []) :
    Glob.matchesFilter o.filters h = true := by
  rw [hf]; simp [Glob.matchesFilter]

theorem CoreInv.with_rd {fs0 : Fs.St} {done stk rest : List Entry} {s : Extract.St}
    (h : CoreInv fs0 done stk rest s) (rd : Reader.St) : CoreInv fs0 done stk rest { s with rd := rd } :=
  ⟨h.aborted, h.result, h.opts, h.fs, h.ok, h.wf⟩

/-- one iteration of the loop, given what `next` returned -/
def loopCont (n : Nat) (s : Extract.St) (oc : Option HObj) (rd' : Reader.St) : Extract.St :=
  match oc with
  | none => { s with rd := rd' }
  | some c => extractLoop n (extractArchivedFile { s with rd := rd' } c.h)

theorem extractLoop_step (n : Nat) (s : Extract.St) (oc : Option HObj) (rd' : Reader.St)
    (ha : s.aborted = false) (hn : Reader.next s.rd = .ok (oc, rd')) (hf : s.opts.filters = []) :
    extractLoop (n + 1) s = loopCont n s oc rd' := by
  rw [extractLoop, if_neg (by rw [ha]; simp), hn]
  cases oc with
  | none => rfl
  | some c =>
    simp only [loopCont, matches_nofilter s.opts c.h hf, Bool.not_true, Bool.false_eq_true, if_false]

/-- **the loop**: from the invariant to the final state -/
theorem loop_final (fs0 : Fs.St) (ha : Access fs0) :
    ∀ (fuel : Nat) (s : Extract.St) (done stk rest : List Entry),
      2 * rest.length + stk.length + 1 ≤ fuel → LoopInv fs0 done stk rest s →
      Denotes fuel s rest → Final fs0 (done ++ rest) (extractLoop fuel s) := by
  intro fuel
  induction fuel with
  | zero => intro s done stk rest hf; omega
  | succ n ih =>
    intro s done stk rest hf hi hden
    obtain ⟨oc, rd', hn, hpend, hcont⟩ := hden hi.core.aborted
    rw [extractLoop_step n s oc rd' hi.core.aborted hn hi.core.opts.nf]
    have hne : s.rd.currType ≠ .eof := by
      rcases hi.rd.ty with h | h | h <;> rw [h] <;> simp
    obtain ⟨u, hrd', hoc, hupol, hudef, hustk, hubc⟩ := next_pol hn hne
    rw [hi.rd.policy] at hupol
    rw [hi.rd.deferred] at hudef
    have hbasic : rd'.basic = u.basic := by rw [hrd']; exact tail_basic u
    -- the basic reader's current header is the next entry
    have hp : Pending u.basic.curr rest := by
      by_cases ht : s.rd.currType = .start ∨ s.rd.currType = .normal
      · rw [← hbasic]; exact hpend ht
      · rw [hubc ht]
        apply hi.rd.pending
        rcases hi.rd.ty with h | h | h
        · exact absurd (Or.inl h) ht
        · exact absurd (Or.inr h) ht
        · exact h
    -- the two ways to go on
    have go_close : ∀ (d : Entry) (stk' : List Entry) (top : HObj) (rs : List HObj),
        stk = d :: stk' → u.dirStack = top :: rs → HdrOf d top.h → StackRel rs stk' →
        endOfTopDir u = true → (∀ e tl, rest = e :: tl → ¬ d.path <+: e.dirPart) →
        Final fs0 (done ++ rest) (loopCont n s oc rd') := by
      intro d stk' top rs hs hds hh hsr he hout
      subst hs
      have hR := pop_fake u top rs hds he
      rw [← hrd'] at hR
      have hoc' : oc = some top := by rw [hoc, hR]
      subst hoc'
      show Final fs0 _ (extractLoop n (extractArchivedFile { s with rd := rd' } top.h))
      have hstep := step_close { s with rd := rd' } top (hi.core.with_rd rd') ha
        (by rw [hR]; exact hupol) (by rw [hR]; exact hudef) (by rw [hR]) (by rw [hR])
        hh (by rw [hR]; exact hsr) (by rw [hbasic]; exact hp)
        hout
      have hd2 := (hcont top rfl).2
      rw [show rd'.currType = .fakeDir by rw [hR]] at hd2
      simp only [reduceCtorEq, if_false] at hd2
      exact ih _ done stk' rest (by simp at hf; omega) hstep hd2
    have go_new : ∀ (e : Entry) (tl : List Entry) (inp : HObj),
        rest = e :: tl → u.basic.curr = some inp → HdrOf e inp.h →
        endOfTopDir u = false → (∀ d tl', stk = d :: tl' → d.path <+: e.dirPart) →
        Final fs0 (done ++ rest) (loopCont n s oc rd') := by
      intro e tl inp hr hb hh he hin
      subst hr
      have hR := pop_normal u he inp hb
      rw [← hrd'] at hR
      have hoc' : oc = some inp := by rw [hoc, hR]
      subst hoc'
      show Final fs0 _ (extractLoop n (extractArchivedFile { s with rd := rd' } inp.h))
      have hty' : rd'.currType = .normal := by rw [hR]
      obtain ⟨hdec, hd2⟩ := hcont inp rfl
      have hstep := step_new { s with rd := rd' } inp (hi.core.with_rd rd') ha
        (by rw [hR]; exact hupol) (by rw [hR]; exact hudef)
        (by rw [hR]; show StackRel u.dirStack stk; rw [hustk]; exact hi.rd.stack)
        hty' (by rw [hR]) hh hin
        (fun p data perms mtime hfile => hdec hty' p data perms mtime tl (by rw [hfile]))
      rw [hty'] at hd2
      simp only [if_true, List.tail_cons] at hd2
      have := ih _ (done ++ [e]) _ tl (by
        simp only [List.length_cons] at hf
        cases e.isDir <;> simp <;> omega) hstep hd2
      simpa using this
    -- which one it is
    cases hstk : stk with
    | cons d stk' =>
      have hsr := hi.rd.stack
      rw [hstk] at hsr
      obtain ⟨top, rs, hds, hh, hsr'⟩ := stackRel_cons hsr
      rw [← hustk] at hds
      obtain ⟨hdd, hdir⟩ := hi.core.ok.sub d (by rw [hstk]; simp)
      have hkd : EntryOk d := hi.core.ok.ok d hdd
      cases hrest : rest with
      | nil =>
        rw [hrest] at hp
        exact hrest ▸ go_close d stk' top rs hstk hds hh hsr' (endOfTopDir_none u top rs hds hp)
          (fun e tl h => by rw [hrest] at h; cases h)
      | cons e tl =>
        rw [hrest] at hp
        obtain ⟨inp, hb, hhe⟩ := hp
        have hke : EntryOk e := by
          have := hi.core.wf
          rw [hrest] at this
          exact this.1
        have hiff := (endOfTopDir_some u hupol top rs hds inp hb).trans
          (outside_iff hhe hh hke hkd hdir)
        by_cases hout : d.path <+: e.dirPart
        · have he : endOfTopDir u = false := by
            cases h : endOfTopDir u with
            | false => rfl
            | true => exact absurd hout (hiff.1 h)
          exact hrest ▸ go_new e tl inp hrest hb hhe he (fun d' tl' h => by
            rw [hstk] at h; cases h; exact hout)
        · exact hrest ▸ go_close d stk' top rs hstk hds hh hsr' (hiff.2 hout)
            (fun e' tl' h => by rw [hrest] at h; cases h; exact hout)
    | nil =>
      have hsr := hi.rd.stack
      rw [hstk] at hsr
      have hds : u.dirStack = [] := by rw [hustk]; exact stackRel_nil hsr
      have he := endOfTopDir_nil u hds
      cases hrest : rest with
      | cons e tl =>
        rw [hrest] at hp
        obtain ⟨inp, hb, hhe⟩ := hp
        exact hrest ▸ go_new e tl inp hrest hb hhe he (fun d' tl' h => by rw [hstk] at h; cases h)
      | nil =>
        rw [hrest] at hp
        have hR := pop_eof u he hp hudef
        rw [← hrd'] at hR
        have hoc' : oc = none := by rw [hoc, hR]
        subst hoc'
        simp only [List.append_nil]
        have hfs := hi.core.fs
        rw [hstk] at hfs
        exact ⟨hi.core.aborted, hi.core.result, hfs⟩

end LhasaV.ExtractTree
