import LhasaV.Lemmas.ExtractTreeOw9
/-!
# C06 — an archived file replaces an existing one only under the overwrite policy in force

Umbrella for `ExtractTreeOw1` … `ExtractTreeOw9` (namespace `LhasaV.ExtractTree`).  `ExtractTree1–16`
and `ExtractTreeOpt1–14` prove the tree theorems for an EMPTY extraction directory; here the
directory already holds regular files, at top-level names of file members of the archive or at other
names, and the overwrite policy decides (model: `Extract.run`, i.e. `existsKind` /
`confirmOverwrite` / `readAnswer` of `Model/Extract.lean`).

1. **File system** (`Ow1`): `lha_arch_fopen` over an existing regular file = `unlink` (`Removed`) +
   creation: `file_over_created` has the shape of `entry_created`.
2. **Invariant** (`Ow2`, `Ow4`): `FsInvO` = `FsInv` with "nothing else below the extraction directory"
   replaced by "everything else is as it was at the start"; `CoreInvO` / `LoopInvO` carry the policy in
   force and the unread answer lines.
3. **Specification of the policy** (`Ow3`), independent of the model: `lines`, `reply`, `askOne`,
   `plan`; `confirm_follows_spec`: `Extract.confirmOverwrite` follows `askOne` on answer streams that
   are empty or end in a newline and never have 64 unusable lines in a row.
4. **Steps and loop** (`Ow4`–`Ow6`): `step_close_o`, `step_write_o` (new place, or over an old file
   after a "yes"), `step_keep_o` (after a "no"), abort at end of input; `loop_final_o`.
5. **Theorems** (`Ow7`, `Ow8`): `run_tree_overwrite`, `extract_tree_ow`; `ow_entry`, `ow_elsewhere`
   (entry by entry / other paths); `preDirB_sound` (decidable hypothesis); on bytes
   `extract_archiveWith_ow`, `extract_archiveOf_ow`; `owPlan_empty`, `plan_all`, `plan_skip`.
6. **Non-vacuity and the model outside the domain** (`Ow9`): `ex_ny`, `ex_a`, `ex_s`, `ex_zy`,
   `ex_eof`, `ex_all`; `#guard`s incl. the three places where `Extract` is not `prompt_user`.

Domain: pre-existing objects are regular files directly in the extraction directory.  A
pre-existing file deeper down implies a pre-existing directory, for which the archive's directory
entry is ignored (`extract_dir_existing`): a different theorem, left out.  A pre-existing file at
the place of a LINK member is replaced without asking (`lha_arch_symlink` unlinks; `fileThenLink` in
`ExtractTreeOptCheck`), at the place of a DIRECTORY member the `mkdir` fails: both excluded by
`PreDir.clash`.
-/
