import LhasaV.Lemmas.ArchiveOs6
/-!
# C06, archives as bytes, level-0 headers (part 7): the normalisation stage, `archive0`

`normalise_entry0`: what `lha_file_header_read` makes of the level-0 fields of an entry — the
base-header name is split at its last '/' (`split_header_filename`), the Unix area supplies OS type
'U', the time, the permissions; a link is recognised by its mode and split at '|'.
`memberOk_0`: the level-0 scheme is sound; **`extract_archive_level0`**: the end-to-end theorem.
-/
set_option linter.unusedSimpArgs false
namespace LhasaV.ArchiveOs
open LhasaV LhasaV.Header LhasaV.Extract LhasaV.GlobFs LhasaV.Contain LhasaV.ExtractTree
open LhasaV.ExtractTree.Sample LhasaV.Spec.HeaderEnc LhasaV.ArchiveOf LhasaV.ArchivePack

/-- the three bytes "-pm": level-0 headers of PMarc members carry no Unix area (the parser ignores it) -/
def pmPrefix : Bytes := [0x2d, 0x70, 0x6d]

theorem pmPrefix_eq : "-pm".toUTF8.toList = pmPrefix := by decide +kernel

theorem lhd_not_pm : lhdM.take 3 ≠ pmPrefix := by decide

/-- the header a level-0 field assignment with a name denotes before post-processing -/
theorem typed0 (mk : Nat → Nat) (f : Fields) (hl : f.level = 0) (hname : f.name ≠ [])
    (hpm : f.method.take 3 ≠ pmPrefix) :
    typed mk f = applyArea (splitFilename
      { level := 0, method := f.method, compressedLength := f.clen, length := f.length, crc := f.crc,
        raw := rawOf f, timestamp := mk f.time, osType := 0, filename := some (cstr (slashes f.name)) }) f.area := by
  unfold typed
  rw [pmPrefix_eq]
  simp [hl, hname, hpm]

theorem presented_zero (os : Nat) (m : Bytes) : presented 0 os m = m := by
  unfold presented
  rw [if_neg (by rintro ⟨h, _⟩; cases h)]

theorem bsl_ne_nil {s : Bytes} (h : s ≠ []) : bsl s ≠ [] := by
  intro h0
  have := bsl_length s
  rw [h0] at this
  exact h (List.eq_nil_of_length_eq_zero this.symm)

/-- the second half of the normalisation stage leaves a level-0 header with the Unix area alone -/
theorem post_level0 (h : Hdr) (hl : h.level = 0) (ho : h.osType = 0x55) (hf : h.extraFlags = 3)
    (hcol : h.path.map PathFix.collapse = h.path) :
    post5 (post4 (post3 (post2 (post1 h)))) = .ok h := by
  rw [post_simple h (by simp [hasFlag, hf, Gen.flagOs9Perms]) (by simp [hasFlag, hf, Gen.flagCommonCrc])
    (by rw [ho]; decide) (by rw [ho]; intro hd; exact absurd hd (by decide)) hcol,
    show presented h.level h.osType h.method = h.method by rw [hl, presented_zero]]

theorem normalise_dir0 (pk : Packer) (mk : Nat → Nat) (p : Fs.Path) (perms : Option Nat) (t : Nat)
    (hk : EntryOk (.dir p perms t)) (he : EntryEnc (.dir p perms t)) (h0 : Entry0 (.dir p perms t)) :
    normalise mk (fields0 pk (.dir p perms t)) = .ok (hdr0 pk (.dir p perms t)) := by
  have hs := stored_name _ hk he h0
  have hnn := bsl_ne_nil (fullName_ne _ hk)
  obtain ⟨_, _, _, hpf⟩ := he
  obtain ⟨hsome, _, _⟩ := h0
  obtain ⟨q, rfl⟩ := Option.isSome_iff_exists.1 hsome
  have hne : p ≠ [] := hk.ne
  have hn : ∀ c ∈ p, Name c := hk.names
  have hq : q &&& 0o170000 ≠ 0o120000 := hpf.2 rfl
  have ht : typed mk (fields0 pk (.dir p (some q) t)) = hdr0 pk (.dir p (some q) t) := by
    rw [typed0 mk _ rfl hnn lhd_not_pm]
    simp only [fields0] at hs ⊢
    rw [hs, splitFilename_link _ p [] (fun b hb => by cases hb) (by simp [fullName])]
    simp [applyArea, unixArea, hdr0, hne, fields0]
  have hpre : postPre (hdr0 pk (.dir p (some q) t)) = .ok (hdr0 pk (.dir p (some q) t)) := by
    unfold postPre hdr0
    simp [methodIs, lhdM_eq2, lh0_eq2, lhd_ne_lh0, hasFlag, hq, Gen.flagUnixPerms]
  unfold normalise
  rw [ht, postProcess_eq, hpre, Res.ok_bind, post_level0 _ rfl rfl rfl
    (by show Option.map PathFix.collapse (some (joinDir p)) = some (joinDir p)
        simp [collapse_joinDir p hn])]

theorem normalise_file0 (pk : Packer) (mk : Nat → Nat) (p : Fs.Path) (data : Bytes) (perms : Option Nat) (t : Nat)
    (hk : EntryOk (.file p data perms t)) (he : EntryEnc (.file p data perms t))
    (h0 : Entry0 (.file p data perms t)) (hnd : (pk.pack data).1 ≠ lhdM)
    (hpm : (pk.pack data).1.take 3 ≠ pmPrefix) :
    normalise mk (fields0 pk (.file p data perms t)) = .ok (hdr0 pk (.file p data perms t)) := by
  have hs := stored_name _ hk he h0
  have hnn := bsl_ne_nil (fullName_ne _ hk)
  obtain ⟨hsome, _, _⟩ := h0
  obtain ⟨q, rfl⟩ := Option.isSome_iff_exists.1 hsome
  have hmd : ((pk.pack data).1 == lhdM) = false := by
    rw [beq_eq_false_iff_ne]; exact hnd
  have hne : p ≠ [] := hk.ne
  have hn : ∀ c ∈ p, Name c := hk.names
  have hdl : ∀ c ∈ p.dropLast, Name c := fun c hc => hn c (List.dropLast_subset _ hc)
  have hlast : p.getLast?.getD [] ∈ p := by
    rw [List.getLast?_eq_some_getLast hne]; exact List.getLast_mem hne
  have ht : typed mk (fields0 pk (.file p data (some q) t)) = hdr0 pk (.file p data (some q) t) := by
    rw [typed0 mk _ rfl hnn hpm]
    simp only [fields0] at hs ⊢
    rw [hs, splitFilename_link _ p.dropLast (p.getLast?.getD []) (hn _ hlast).1 (by simp [fullName])]
    simp [applyArea, unixArea, hdr0, pathOf, fields0]
  have hpre : postPre (hdr0 pk (.file p data (some q) t)) = .ok (hdr0 pk (.file p data (some q) t)) := by
    unfold postPre hdr0
    simp [methodIs, lhdM_eq2, hmd]
  unfold normalise
  rw [ht, postProcess_eq, hpre, Res.ok_bind, post_level0 _ rfl rfl rfl (pathOf_collapse _ hdl)]

theorem normalise_link0 (pk : Packer) (mk : Nat → Nat) (p : Fs.Path) (tg : Bytes)
    (hk : EntryOk (.link p tg)) (he : EntryEnc (.link p tg)) (h0 : Entry0 (.link p tg)) :
    normalise mk (fields0 pk (.link p tg)) = .ok (hdr0 pk (.link p tg)) := by
  have hs := stored_name _ hk he h0
  have hnn := bsl_ne_nil (fullName_ne _ hk)
  obtain ⟨hpl, _, htg⟩ := he
  have hne : p ≠ [] := hk.ne
  have hn : ∀ c ∈ p, Name c := hk.names
  have hdl : ∀ c ∈ p.dropLast, Name c := fun c hc => hn c (List.dropLast_subset _ hc)
  have hpdl : ∀ c ∈ p.dropLast, PlainName c := fun c hc => hpl c (List.dropLast_subset _ hc)
  have hlast : p.getLast?.getD [] ∈ p := by
    rw [List.getLast?_eq_some_getLast hne]; exact List.getLast_mem hne
  have hns : NoSlash (p.getLast?.getD [] ++ [0x7c] ++ tg) := by
    intro b hb
    simp only [List.mem_append, List.mem_singleton] at hb
    rcases hb with (hb | hb) | hb
    · exact (hn _ hlast).1 b hb
    · subst hb; decide
    · exact (htg b hb).2
  have ht : typed mk (fields0 pk (.link p tg)) =
      { hdr0 pk (.link p tg) with
        symlinkTarget := none, filename := some (p.getLast?.getD [] ++ [0x7c] ++ tg) } := by
    rw [typed0 mk _ rfl hnn lhd_not_pm]
    simp only [fields0] at hs ⊢
    rw [hs, splitFilename_link _ p.dropLast (p.getLast?.getD [] ++ [0x7c] ++ tg) hns (by simp [fullName])]
    simp [applyArea, unixArea, hdr0, pathOf, fields0]
  have hpre : postPre { hdr0 pk (.link p tg) with
        symlinkTarget := none, filename := some (p.getLast?.getD [] ++ [0x7c] ++ tg) } =
      .ok (hdr0 pk (.link p tg)) := by
    have hps := parseSymlink_link { hdr0 pk (.link p tg) with
        symlinkTarget := none, filename := some (p.getLast?.getD [] ++ [0x7c] ++ tg) } p.dropLast
      (p.getLast?.getD []) tg hpdl (hn _ hlast).1 (hpl _ hlast) rfl rfl
    unfold postPre
    simp only [hdr0, List.append_assoc, List.singleton_append] at hps ⊢
    simp [methodIs, lhdM_eq2, lh0_eq2, lhd_ne_lh0, hasFlag, Gen.flagUnixPerms, hps]
  unfold normalise
  rw [ht, postProcess_eq, hpre, Res.ok_bind, post_level0 _ rfl rfl rfl (pathOf_collapse _ hdl)]

/-! ## the scheme -/

/-- **the packer's output for `data` is a level-0 member the library decodes back to `data`**:
`ArchiveOf.PackOk`, a 32-bit compressed size, and not a `-pm?-` method (whose level-0 headers the
parser reads without the Unix area) -/
structure PackOk0 (pk : Packer) (data : Bytes) : Prop where
  sig : SigOk (pk.pack data).1
  notDir : (pk.pack data).1 ≠ lhdM
  notPm : (pk.pack data).1.take 3 ≠ pmPrefix
  clen : (pk.pack data).2.length < 4294967296
  decodes : ∃ d info, decoderFor (mname (pk.pack data).1) = some d ∧
    decoderInfo (mname (pk.pack data).1) = some info ∧
    Wrap.avail d.total data.length (.ok (d.init { data := (pk.pack data).2.toArray })) = data

theorem packOk0_of_packOk {pk : Packer} {data : Bytes} (h : PackOk pk data)
    (hpm : (pk.pack data).1.take 3 ≠ pmPrefix) : PackOk0 pk data :=
  ⟨h.sig, h.notDir, hpm, by have := h.clen; omega, h.decodes⟩

def FilePack0 (pk : Packer) : Entry → Prop
  | .file _ data _ _ => PackOk0 pk data
  | _ => True

/-- the packer handles the data of every file of the list, at level 0 -/
def Packs0 (pk : Packer) (es : List Entry) : Prop := ∀ e ∈ es, FilePack0 pk e

/-- the level-0 member scheme -/
def scheme0 (pk : Packer) : Scheme := { fields := fields0 pk, data := dataOf pk, hdr := hdr0 pk }

/-- **the level-0 archive builder**: LHarc-style headers with the Unix extended area -/
def archive0 (pk : Packer) (es : List Entry) : Array UInt8 := archiveS (scheme0 pk) es

theorem permsOf_flags3 (h : Hdr) (q : Nat) (h1 : h.extraFlags = 3) (h2 : h.unixPerms = q) : permsOf h = some q := by
  unfold permsOf hasFlag
  rw [h1, h2]
  simp [Gen.flagUnixPerms]

/-- **the level-0 scheme is sound for every level-0 encodable entry** -/
theorem memberOk_0 (pk : Packer) (mk : Nat → Nat) (e : Entry) (hk : EntryOk e) (he : EntryEnc e) (h0 : Entry0 e)
    (hpk : FilePack0 pk e) : MemberOk (scheme0 pk) mk e where
  sig := by
    cases e with
    | dir _ _ _ => exact lhdM_sig
    | file _ data _ _ => exact hpk.sig
    | link _ _ => exact lhdM_sig
  shape := encode_shape0 pk e
  read := fun rest =>
    HeaderRT.header_roundtrip_ok mk _
      (fields0_wf pk hk he h0 (by
        cases e with
        | dir _ _ _ => trivial
        | file _ data _ _ => exact ⟨hpk.sig.1, hpk.clen⟩
        | link _ _ => trivial)) rest _
      (by
        cases e with
        | dir p perms t => exact normalise_dir0 pk mk p perms t hk he h0
        | file p data perms t => exact normalise_file0 pk mk p data perms t hk he h0 hpk.notDir hpk.notPm
        | link p tg => exact normalise_link0 pk mk p tg hk he h0)
  denotes := by
    show HdrOf e (hdr0 pk e)
    cases e with
    | dir p perms t =>
      obtain ⟨q, rfl⟩ := Option.isSome_iff_exists.1 h0.1
      exact ⟨rfl, rfl, lhdM_eq, rfl, permsOf_flags3 _ q rfl rfl, rfl⟩
    | file p data perms t =>
      obtain ⟨q, rfl⟩ := Option.isSome_iff_exists.1 h0.1
      refine ⟨pathOf_getD _, rfl, ?_, rfl, permsOf_flags3 _ q rfl rfl, rfl⟩
      show (pk.pack data).1 ≠ "-lhd-".toUTF8.toList
      rw [← lhdM_eq]; exact hpk.notDir
    | link p tg => exact ⟨pathOf_getD _, rfl, lhdM_eq, rfl⟩
  clen := by cases e <;> rfl
  os := by cases e <;> exact (show (0x55 : Nat) ≠ 0x6d by decide)
  file := by
    intro p data perms t h
    have h' : e = .file p data perms t := h
    subst h'
    exact ⟨rfl, rfl, hpk.decodes⟩

/-- **Extraction reproduces every level-0 encodable tree.**  For every packer that is sound at
level 0 and EVERY well-formed tree that is encodable (`Encodable`) and meets the level-0 conditions
(`Encodable0`: recorded permissions, no '\', stored names of at most 221 bytes): `lha x` on the
bytes `archive0 pk es` — LHarc-style level-0 headers written by the C05 header encoder, the whole
path in the base header, the Unix extended area carrying time and permissions — into an empty
directory, as root or ordinary user, succeeds and leaves exactly the tree (contents, modes, exact
Unix times, link targets, directory metadata); nothing outside changes. -/
theorem extract_archive_level0 (pk : Packer) (es : List Entry) (hwf : WellFormed es) (henc : Encodable es)
    (h0 : Encodable0 es) (hpk : Packs0 pk es) (o : Opts) (fs : Fs.St) (answers : Bytes) (ho : OptsOk o)
    (hfs : EmptyDir fs) (ha : Access fs) : Reproduces (archive0 pk es) es o fs answers := by
  have hok : AllOk (scheme0 pk) Header.dosTimeUTC es := fun e he =>
    memberOk_0 pk _ e (entryOk_of_wf hwf e he) (henc e he) (h0 e he) (hpk e he)
  have hid : es.map (scheme0 pk).den = es := by
    show es.map id = es
    simp
  have := extract_archiveS (scheme0 pk) es (by rw [hid]; exact hwf) hok o fs answers ho hfs ha
  rw [hid] at this
  exact this

/-- … and the archive denotes the tree -/
theorem archive0_denotes (pk : Packer) (es : List Entry) (hwf : WellFormed es) (henc : Encodable es)
    (h0 : Encodable0 es) (hpk : Packs0 pk es) (o : Opts) (fs : Fs.St) (answers : Bytes) :
    Denotes (runFuel (archive0 pk es)) (runInit (archive0 pk es) o fs answers) es := by
  have hok : AllOk (scheme0 pk) Header.dosTimeUTC es := fun e he =>
    memberOk_0 pk _ e (entryOk_of_wf hwf e he) (henc e he) (h0 e he) (hpk e he)
  have hid : es.map (scheme0 pk).den = es := by
    show es.map id = es
    simp
  have := archiveS_denotes (scheme0 pk) es hok o fs answers
  rw [hid] at this
  exact this

theorem packs0_of (pk : Packer) (P : Bytes → Prop) (h : ∀ data, P data → PackOk0 pk data)
    (es : List Entry) (hs : FilesSat P es) : Packs0 pk es := by
  intro e he
  have := hs e he
  cases e with
  | dir _ _ _ => trivial
  | link _ _ => trivial
  | file p data perms t => exact h data this

/-- the nine non-PMarc methods at level 0 -/
theorem extract_archive_level0_method (m : Method) (hm : m ≠ .pm1 ∧ m ≠ .pm2) (es : List Entry)
    (hwf : WellFormed es) (henc : Encodable es) (h0 : Encodable0 es) (hfit : FilesSat m.fits es)
    (o : Opts) (fs : Fs.St) (answers : Bytes) (ho : OptsOk o) (hfs : EmptyDir fs) (ha : Access fs) :
    Reproduces (archive0 (m.packer false) es) es o fs answers := by
  refine extract_archive_level0 (m.packer false) es hwf henc h0
    (packs0_of _ m.fits (fun data hd => packOk0_of_packOk (packOk_method m false data hd) ?_) es hfit)
    o fs answers ho hfs ha
  rw [(m.packer_name false data).1]
  revert hm
  cases m <;> decide

end LhasaV.ArchiveOs
