import LhasaV.Lemmas.Wrap
/-!
Properties of the decoder read wrapper (`lha_decoder_read`, `lha_decoder_monitor`,
`check_progress_callback`) — property C14 — for EVERY inner decoder step `rd`.
-/
namespace LhasaV.Wrap

variable {σ : Type} (rd : σ → List Byte × σ)

/-! ## 1. Frame lemmas for `fill` -/

/-- `fill` changes only `inner`, `pending`, `failed`: all other fields are untouched. -/
theorem fill_frame (n : Nat) (s : St σ) :
    (fill rd n s).2.pos = s.pos ∧ (fill rd n s).2.length = s.length ∧
    (fill rd n s).2.crc = s.crc ∧ (fill rd n s).2.blockSize = s.blockSize ∧
    (fill rd n s).2.monitored = s.monitored ∧ (fill rd n s).2.nextBlock = s.nextBlock ∧
    (fill rd n s).2.totalBlocks = s.totalBlocks := by
  fun_induction fill rd n s with
  | case1 s => simp
  | case2 need s h1 h2 => simp
  | case3 need s h1 h2 h3 => simp
  | case4 need s h1 h2 h3 h4 => simp
  | case5 need s h1 h2 h3 h4 r ih => simpa [r] using ih

/-- `fill` does not move the stream position. -/
@[simp] theorem fill_pos (n : Nat) (s : St σ) : (fill rd n s).2.pos = s.pos :=
  (fill_frame rd n s).1
/-- `fill` does not change the declared stream length. -/
@[simp] theorem fill_length (n : Nat) (s : St σ) : (fill rd n s).2.length = s.length :=
  (fill_frame rd n s).2.1
/-- `fill` does not touch the CRC register. -/
@[simp] theorem fill_crc (n : Nat) (s : St σ) : (fill rd n s).2.crc = s.crc :=
  (fill_frame rd n s).2.2.1
/-- `fill` does not change the block size. -/
@[simp] theorem fill_blockSize (n : Nat) (s : St σ) : (fill rd n s).2.blockSize = s.blockSize :=
  (fill_frame rd n s).2.2.2.1
/-- `fill` does not attach or detach the progress monitor. -/
@[simp] theorem fill_monitored (n : Nat) (s : St σ) : (fill rd n s).2.monitored = s.monitored :=
  (fill_frame rd n s).2.2.2.2.1
/-- `fill` does not change the next block number to report. -/
@[simp] theorem fill_nextBlock (n : Nat) (s : St σ) : (fill rd n s).2.nextBlock = s.nextBlock :=
  (fill_frame rd n s).2.2.2.2.2.1
/-- `fill` does not change the total block count. -/
@[simp] theorem fill_totalBlocks (n : Nat) (s : St σ) :
    (fill rd n s).2.totalBlocks = s.totalBlocks :=
  (fill_frame rd n s).2.2.2.2.2.2

/-! ## Auxiliary facts about `fill` and `rest` -/

/-- A short `fill` (fewer bytes than asked) leaves the wrapper failed with an empty buffer. -/
theorem fill_short (n : Nat) (s : St σ) (h : (fill rd n s).1.length < n) :
    (fill rd n s).2.failed = true ∧ (fill rd n s).2.pending = [] := by
  fun_induction fill rd n s with
  | case1 s => simp at h
  | case2 need s h1 h2 =>
    simp only [List.length_take] at h
    refine ⟨h2, ?_⟩
    simp only [List.drop_eq_nil_iff]; omega
  | case3 need s h1 h2 h3 =>
    simp only [List.length_take] at h; omega
  | case4 need s h1 h2 h3 h4 => simp
  | case5 need s h1 h2 h3 h4 r ih =>
    simp only [List.length_append] at h
    exact ih (by simp only [r] at h ⊢; omega)

example : ∃ s : St Unit, (fill (fun u => ([], u)) 3 s).1.length < 3 :=
  ⟨{ inner := (), length := 5, blockSize := 1 }, by simp [fill]⟩

/-- `rest` only looks at `inner`, `pending`, `failed`. -/
theorem rest_congr (k : Nat) (s t : St σ) (hi : s.inner = t.inner) (hp : s.pending = t.pending)
    (hf : s.failed = t.failed) : rest rd k s = rest rd k t := by
  simp [rest, hi, hp, hf]

example : ∃ s t : St Unit, s.inner = t.inner ∧ s.pending = t.pending ∧ s.failed = t.failed :=
  ⟨{ inner := (), length := 5, blockSize := 1 }, { inner := (), length := 7, blockSize := 2 },
    rfl, rfl, rfl⟩

/-- Once failed with an empty buffer nothing more is deliverable. -/
theorem rest_dead (k : Nat) (s : St σ) (hf : s.failed = true) (hp : s.pending = []) :
    rest rd k s = [] := by
  simp [rest, hf, hp]

example : ∃ s : St Unit, s.failed = true ∧ s.pending = [] :=
  ⟨{ inner := (), failed := true, length := 5, blockSize := 1 }, rfl, rfl⟩

/-- If `fill n` came up short, asking for more (`m ≥ n`) would have delivered the same bytes. -/
theorem rest_of_short (n m : Nat) (s : St σ) (h : (fill rd n s).1.length < n) (hm : n ≤ m) :
    rest rd m s = (fill rd n s).1 := by
  obtain ⟨j, rfl⟩ := Nat.exists_eq_add_of_le hm
  have ⟨hf, hp⟩ := fill_short rd n s h
  rw [rest_split, rest_dead rd j _ hf hp, List.append_nil]

example : ∃ (n m : Nat) (s : St Unit), (fill (fun u => ([], u)) n s).1.length < n ∧ n ≤ m :=
  ⟨3, 4, { inner := (), length := 5, blockSize := 1 }, by simp [fill], by decide⟩

/-- The clamp of `lha_decoder_read` is a `min`. -/
theorem need_eq (k : Nat) (s : St σ) :
    (if s.pos + k > s.length then s.length - s.pos else k) = min k (s.length - s.pos) := by
  split <;> omega

/-! ## Field-by-field description of one `read` -/

/-- The bytes returned by `read` are those of the clamped `fill`. -/
theorem read_out (k : Nat) (s : St σ) :
    (read rd k s).1.1 = (fill rd (min k (s.length - s.pos)) s).1 := by
  unfold read; simp only [need_eq]; split <;> rfl

/-- `read` leaves `inner` as the clamped `fill` left it. -/
theorem read_inner (k : Nat) (s : St σ) :
    (read rd k s).2.inner = (fill rd (min k (s.length - s.pos)) s).2.inner := by
  unfold read; simp only [need_eq]; split <;> rfl

/-- `read` leaves `pending` as the clamped `fill` left it. -/
theorem read_pending (k : Nat) (s : St σ) :
    (read rd k s).2.pending = (fill rd (min k (s.length - s.pos)) s).2.pending := by
  unfold read; simp only [need_eq]; split <;> rfl

/-- `read` leaves `failed` as the clamped `fill` left it. -/
theorem read_failed (k : Nat) (s : St σ) :
    (read rd k s).2.failed = (fill rd (min k (s.length - s.pos)) s).2.failed := by
  unfold read; simp only [need_eq]; split <;> rfl

/-- `read` never changes the declared length. -/
@[simp] theorem read_length (k : Nat) (s : St σ) : (read rd k s).2.length = s.length := by
  unfold read; simp only [need_eq]; split <;> simp [checkProgress]

/-- `read` never changes the block size. -/
@[simp] theorem read_blockSize (k : Nat) (s : St σ) :
    (read rd k s).2.blockSize = s.blockSize := by
  unfold read; simp only [need_eq]; split <;> simp [checkProgress]

/-- `read` never attaches or detaches the monitor. -/
@[simp] theorem read_monitored (k : Nat) (s : St σ) :
    (read rd k s).2.monitored = s.monitored := by
  unfold read; simp only [need_eq]; split <;> simp [checkProgress]

/-- `read` never changes the total block count. -/
@[simp] theorem read_totalBlocks (k : Nat) (s : St σ) :
    (read rd k s).2.totalBlocks = s.totalBlocks := by
  unfold read; simp only [need_eq]; split <;> simp [checkProgress]

/-! ## 2. No read returns more than asked -/

/-- No read returns more bytes than were asked for. -/
theorem read_le_asked (k : Nat) (s : St σ) : (read rd k s).1.1.length ≤ k := by
  rw [read_out]
  exact Nat.le_trans (fill_len rd _ s) (Nat.min_le_left _ _)

/-- No read returns more bytes than remain below the declared length. -/
theorem read_le_remaining (k : Nat) (s : St σ) :
    (read rd k s).1.1.length ≤ s.length - s.pos := by
  rw [read_out]
  exact Nat.le_trans (fill_len rd _ s) (Nat.min_le_right _ _)

/-! ## 3. Position and CRC bookkeeping of one read -/

/-- The stream position advances by exactly the number of bytes returned. -/
theorem read_pos (k : Nat) (s : St σ) :
    (read rd k s).2.pos = s.pos + (read rd k s).1.1.length := by
  unfold read; simp only [need_eq]; split <;> simp [checkProgress]

/-- The CRC register is updated with exactly the bytes returned. -/
theorem read_crc (k : Nat) (s : St σ) :
    (read rd k s).2.crc = Crc.buf s.crc (read rd k s).1.1 := by
  unfold read; simp only [need_eq]; split <;> simp [checkProgress]

/-! ## 4. The declared length is never exceeded -/

/-- A read never moves the position past the declared length, and never changes that length. -/
theorem read_within (k : Nat) (s : St σ) (h : s.pos ≤ s.length) :
    (read rd k s).2.pos ≤ s.length ∧ (read rd k s).2.length = s.length := by
  refine ⟨?_, read_length rd k s⟩
  have := read_le_remaining rd k s
  rw [read_pos]; omega

example : ∃ s : St Unit, s.pos ≤ s.length :=
  ⟨{ inner := (), length := 5, blockSize := 1 }, by decide⟩

/-! ## 5. The stream theorem with the length clamp -/

/-- Well-formedness of a wrapper state: the position is within the declared length.
Every state `{ inner := i, length := n, blockSize := b }` made by `lha_decoder_new` has it. -/
def Ok (s : St σ) : Prop := s.pos ≤ s.length

/-- The initial state built by `lha_decoder_new` is well formed. -/
theorem ok_init (i : σ) (n b : Nat) : Ok ({ inner := i, length := n, blockSize := b } : St σ) :=
  Nat.zero_le _

/-- `read` preserves well-formedness. -/
theorem read_ok (k : Nat) (s : St σ) (h : Ok s) : Ok (read rd k s).2 := by
  have := read_within rd k s h
  unfold Ok; omega

example : ∃ s : St Unit, Ok s := ⟨{ inner := (), length := 5, blockSize := 1 }, ok_init () 5 1⟩

/-- A schedule of reads never changes the declared length. -/
@[simp] theorem reads_length (ks : List Nat) (s : St σ) : (reads rd ks s).2.length = s.length := by
  induction ks generalizing s with
  | nil => rfl
  | cons k ks ih => simp only [reads, ih, read_length]

/-- A schedule of reads never changes the block size. -/
@[simp] theorem reads_blockSize (ks : List Nat) (s : St σ) :
    (reads rd ks s).2.blockSize = s.blockSize := by
  induction ks generalizing s with
  | nil => rfl
  | cons k ks ih => simp only [reads, ih, read_blockSize]

/-- A schedule of reads never attaches or detaches the monitor. -/
@[simp] theorem reads_monitored (ks : List Nat) (s : St σ) :
    (reads rd ks s).2.monitored = s.monitored := by
  induction ks generalizing s with
  | nil => rfl
  | cons k ks ih => simp only [reads, ih, read_monitored]

/-- A schedule of reads never changes the total block count. -/
@[simp] theorem reads_totalBlocks (ks : List Nat) (s : St σ) :
    (reads rd ks s).2.totalBlocks = s.totalBlocks := by
  induction ks generalizing s with
  | nil => rfl
  | cons k ks ih => simp only [reads, ih, read_totalBlocks]

/-- A schedule of reads never moves the position past the declared length. -/
theorem reads_within (ks : List Nat) (s : St σ) (h : s.pos ≤ s.length) :
    (reads rd ks s).2.pos ≤ s.length ∧ (reads rd ks s).2.length = s.length := by
  refine ⟨?_, reads_length rd ks s⟩
  induction ks generalizing s with
  | nil => exact h
  | cons k ks ih =>
    have hw := read_within rd k s h
    have := ih (read rd k s).2 (by rw [hw.2]; exact hw.1)
    simp only [reads]; rw [hw.2] at this; exact this

example : ∃ s : St Unit, s.pos ≤ s.length :=
  ⟨{ inner := (), length := 5, blockSize := 1 }, by decide⟩

/-- **Stream theorem.** Whatever the schedule (zeros allowed), the concatenation of the bytes
returned is the first `min (Σ ks) (length − pos)` deliverable bytes.  No invariant on
`failed`/`pending` is needed: only `pos ≤ length`. -/
theorem reads_stream (ks : List Nat) (s : St σ) (h : s.pos ≤ s.length) :
    (reads rd ks s).1.1 = rest rd (min ks.sum (s.length - s.pos)) s := by
  induction ks generalizing s with
  | nil => simp [reads, rest]
  | cons k ks ih =>
    have hw := read_within rd k s h
    simp only [reads, List.sum_cons]
    rw [ih (read rd k s).2 (by rw [hw.2]; exact hw.1)]
    rw [read_length, read_pos, read_out]
    rw [rest_congr rd _ (read rd k s).2 (fill rd (min k (s.length - s.pos)) s).2
      (read_inner rd k s) (read_pending rd k s) (read_failed rd k s)]
    generalize hn : min k (s.length - s.pos) = n
    have hl := fill_len rd n s
    by_cases hlt : (fill rd n s).1.length < n
    · have ⟨hf, hp⟩ := fill_short rd n s hlt
      rw [rest_dead rd _ _ hf hp, List.append_nil, rest_of_short rd n _ s hlt (by omega)]
    · have e : (fill rd n s).1.length = n := by omega
      rw [e, ← rest_split]; congr 1; omega

example : ∃ s : St Unit, s.pos ≤ s.length :=
  ⟨{ inner := (), length := 5, blockSize := 1 }, by decide⟩

/-! ## 6. Corollaries -/

/-- **Split invariance.** Two schedules asking for the same total return the same bytes. -/
theorem split_invariant (ks ks' : List Nat) (s : St σ) (h : s.pos ≤ s.length)
    (hs : ks.sum = ks'.sum) : (reads rd ks s).1.1 = (reads rd ks' s).1.1 := by
  rw [reads_stream rd ks s h, reads_stream rd ks' s h, hs]

example : ∃ (ks ks' : List Nat) (s : St Unit), s.pos ≤ s.length ∧ ks.sum = ks'.sum :=
  ⟨[1, 0, 2], [3], { inner := (), length := 5, blockSize := 1 }, by decide, by decide⟩

/-- `rest k` never has more than `k` bytes. -/
theorem rest_length_le (k : Nat) (s : St σ) : (rest rd k s).length ≤ k := by
  rw [← fill_out]; exact fill_len rd k s

/-- A schedule never returns more than the declared length allows. -/
theorem reads_exact (ks : List Nat) (s : St σ) (h : s.pos ≤ s.length) :
    ((reads rd ks s).1.1).length ≤ s.length - s.pos := by
  rw [reads_stream rd ks s h]
  exact Nat.le_trans (rest_length_le rd _ s) (Nat.min_le_right _ _)

example : ∃ s : St Unit, s.pos ≤ s.length :=
  ⟨{ inner := (), length := 5, blockSize := 1 }, by decide⟩

/-- A schedule never returns more than was asked for in total. -/
theorem reads_le_sum (ks : List Nat) (s : St σ) (h : s.pos ≤ s.length) :
    ((reads rd ks s).1.1).length ≤ ks.sum := by
  rw [reads_stream rd ks s h]
  exact Nat.le_trans (rest_length_le rd _ s) (Nat.min_le_left _ _)

example : ∃ s : St Unit, s.pos ≤ s.length :=
  ⟨{ inner := (), length := 5, blockSize := 1 }, by decide⟩

/-- One maximal read agrees with any schedule whose sum reaches `length - pos`. -/
theorem reads_eq_single (ks : List Nat) (s : St σ) (h : s.pos ≤ s.length)
    (hk : s.length - s.pos ≤ ks.sum) :
    (reads rd ks s).1.1 = (read rd (s.length - s.pos) s).1.1 := by
  rw [reads_stream rd ks s h, read_out, fill_out, Nat.min_self, Nat.min_eq_right hk]

example : ∃ (ks : List Nat) (s : St Unit), s.pos ≤ s.length ∧ s.length - s.pos ≤ ks.sum :=
  ⟨[1, 0, 7], { inner := (), length := 5, blockSize := 1 }, by decide, by decide⟩

/-! ## 7. Reported length and CRC -/

/-- `lha_crc16_buf` over a concatenation is two successive calls. -/
theorem crc_buf_append (c : BitVec 16) (a b : List UInt8) :
    Crc.buf (Crc.buf c a) b = Crc.buf c (a ++ b) := by
  simp [Crc.buf, List.foldl_append]

/-- The reported length is the number of bytes returned and the reported CRC is the CRC of
exactly those bytes (no hypothesis on the state at all). -/
theorem reads_crc_len (ks : List Nat) (s : St σ) :
    (reads rd ks s).2.crc = Crc.buf s.crc (reads rd ks s).1.1 ∧
    (reads rd ks s).2.pos = s.pos + (reads rd ks s).1.1.length := by
  induction ks generalizing s with
  | nil => simp [reads, Crc.buf]
  | cons k ks ih =>
    obtain ⟨h1, h2⟩ := ih (read rd k s).2
    simp only [reads]
    rw [h1, h2, read_crc, read_pos, crc_buf_append, List.length_append]
    exact ⟨rfl, by omega⟩

/-! ## 8. The progress monitor -/

/-- `⌈x / bs⌉` as the C computes it: `(x + bs - 1) / bs`. -/
abbrev ceilDiv (x bs : Nat) : Nat := (x + bs - 1) / bs

/-- `⌈· / bs⌉` is monotone (for every `bs`, including 0). -/
theorem ceilDiv_mono {x y : Nat} (bs : Nat) (h : x ≤ y) : ceilDiv x bs ≤ ceilDiv y bs :=
  Nat.div_le_div_right (by omega)

example : ∃ x y : Nat, x ≤ y := ⟨1, 2, by decide⟩

/-- Two adjacent runs of consecutive numbers glue into one. -/
theorem range'_glue (a b c : Nat) (h1 : a ≤ b) (h2 : b ≤ c) :
    List.range' a (b - a) ++ List.range' b (c - b) = List.range' a (c - a) := by
  obtain ⟨m, rfl⟩ := Nat.exists_eq_add_of_le h1
  obtain ⟨n, rfl⟩ := Nat.exists_eq_add_of_le h2
  have e1 : a + m - a = m := by omega
  have e2 : a + m + n - (a + m) = n := by omega
  have e3 : a + m + n - a = m + n := by omega
  rw [e1, e2, e3, List.range'_append_1]

example : ∃ a b c : Nat, a ≤ b ∧ b ≤ c := ⟨1, 2, 3, by decide, by decide⟩

/-- Progress calls of one read on a monitored state: the block numbers from `nextBlock` up to
`⌈pos'/bs⌉` where `pos'` is the position after the read (`blockSize > 0` is not needed). -/
theorem read_calls (k : Nat) (s : St σ) (hm : s.monitored = true) :
    (read rd k s).1.2 =
      List.range' s.nextBlock
        (((read rd k s).2.pos + s.blockSize - 1) / s.blockSize + 1 - s.nextBlock) := by
  unfold read; simp only [need_eq]; split
  · simp [checkProgress]
  · rename_i hc; simp [hm] at hc

example : ∃ s : St Unit, s.monitored = true :=
  ⟨{ inner := (), length := 5, blockSize := 1, monitored := true }, rfl⟩

/-- `nextBlock` after one read on a monitored state. -/
theorem read_nextBlock (k : Nat) (s : St σ) (hm : s.monitored = true) :
    (read rd k s).2.nextBlock =
      max s.nextBlock (((read rd k s).2.pos + s.blockSize - 1) / s.blockSize + 1) := by
  unfold read; simp only [need_eq]; split
  · simp [checkProgress]
  · rename_i hc; simp [hm] at hc

example : ∃ s : St Unit, s.monitored = true :=
  ⟨{ inner := (), length := 5, blockSize := 1, monitored := true }, rfl⟩

/-- Without a monitor a read makes no progress calls and leaves `nextBlock` alone. -/
theorem read_unmonitored (k : Nat) (s : St σ) (hm : s.monitored = false) :
    (read rd k s).1.2 = [] ∧ (read rd k s).2.nextBlock = s.nextBlock := by
  unfold read; simp only [need_eq]; split
  · rename_i hc; simp [hm] at hc
  · simp

example : ∃ s : St Unit, s.monitored = false :=
  ⟨{ inner := (), length := 5, blockSize := 1 }, rfl⟩

/-- Without a monitor a whole schedule makes no progress calls and leaves `nextBlock` alone. -/
theorem reads_unmonitored (ks : List Nat) (s : St σ) (hm : s.monitored = false) :
    (reads rd ks s).1.2 = [] ∧ (reads rd ks s).2.nextBlock = s.nextBlock := by
  induction ks generalizing s with
  | nil => simp [reads]
  | cons k ks ih =>
    obtain ⟨a1, a2⟩ := read_unmonitored rd k s hm
    obtain ⟨b1, b2⟩ := ih (read rd k s).2 (by rw [read_monitored]; exact hm)
    simp only [reads]; rw [a1, b1, b2, a2]; exact ⟨rfl, rfl⟩

example : ∃ s : St Unit, s.monitored = false :=
  ⟨{ inner := (), length := 5, blockSize := 1 }, rfl⟩

/-- `lha_decoder_monitor` on a state that has not reported yet calls back with
`0, 1, …, ⌈pos/bs⌉`: it starts at 0. -/
theorem monitor_calls (s : St σ) (hn : s.nextBlock = 0) :
    (monitor s).1 = List.range' 0 (ceilDiv s.pos s.blockSize + 1) := by
  simp [monitor, checkProgress, hn]

example : ∃ s : St Unit, s.nextBlock = 0 := ⟨{ inner := (), length := 5, blockSize := 1 }, rfl⟩

/-- The state after `lha_decoder_monitor`: monitor attached, `totalBlocks = ⌈length/bs⌉`,
`nextBlock` raised to `⌈pos/bs⌉ + 1`; nothing else changes. -/
theorem monitor_state (s : St σ) :
    (monitor s).2 = { s with monitored := true, totalBlocks := ceilDiv s.length s.blockSize,
                             nextBlock := max s.nextBlock (ceilDiv s.pos s.blockSize + 1) } := by
  simp [monitor, checkProgress]

/-- `lha_decoder_monitor` sets `totalBlocks = ⌈length/bs⌉`. -/
theorem monitor_totalBlocks (s : St σ) :
    (monitor s).2.totalBlocks = (s.length + s.blockSize - 1) / s.blockSize := by
  rw [monitor_state]

/-- The position never decreases along a schedule. -/
theorem reads_pos_mono (ks : List Nat) (s : St σ) : s.pos ≤ (reads rd ks s).2.pos := by
  rw [(reads_crc_len rd ks s).2]; omega

/-- The invariant of a monitored run: every block up to `⌈pos/bs⌉` has been reported. -/
def Mon (s : St σ) : Prop := s.monitored = true ∧ s.nextBlock = ceilDiv s.pos s.blockSize + 1

/-- `lha_decoder_monitor` on a fresh state establishes the monitored-run invariant. -/
theorem monitor_mon (s : St σ) (hn : s.nextBlock = 0) : Mon (monitor s).2 := by
  rw [monitor_state]; simp [Mon, hn]

example : ∃ s : St Unit, s.nextBlock = 0 := ⟨{ inner := (), length := 5, blockSize := 1 }, rfl⟩

/-- `read` preserves the monitored-run invariant. -/
theorem read_mon (k : Nat) (s : St σ) (h : Mon s) : Mon (read rd k s).2 := by
  obtain ⟨hm, hb⟩ := h
  refine ⟨by rw [read_monitored]; exact hm, ?_⟩
  have hmono := ceilDiv_mono s.blockSize (show s.pos ≤ (read rd k s).2.pos by rw [read_pos]; omega)
  rw [read_nextBlock rd k s hm, read_blockSize, hb]
  simp only [ceilDiv] at hmono ⊢; omega

example : ∃ s : St Unit, Mon s :=
  ⟨(monitor { inner := (), length := 5, blockSize := 1 }).2, monitor_mon _ rfl⟩

/-- On a monitored run a schedule reports exactly the blocks from `nextBlock` up to `⌈pos'/bs⌉`
(`pos'` the final position), each once and in order; the invariant is kept. -/
theorem reads_calls (ks : List Nat) (s : St σ) (h : Mon s) :
    (reads rd ks s).1.2 =
      List.range' s.nextBlock (ceilDiv (reads rd ks s).2.pos s.blockSize + 1 - s.nextBlock) ∧
    Mon (reads rd ks s).2 := by
  induction ks generalizing s with
  | nil => obtain ⟨hm, hb⟩ := h; simp [reads, hb, Mon, hm]
  | cons k ks ih =>
    have h1 := read_mon rd k s h
    obtain ⟨i1, i2⟩ := ih (read rd k s).2 h1
    refine ⟨?_, i2⟩
    simp only [reads]
    rw [i1, read_calls rd k s h.1, h1.2, read_blockSize, h.2]
    have m1 := ceilDiv_mono s.blockSize (show s.pos ≤ (read rd k s).2.pos by rw [read_pos]; omega)
    have m2 := ceilDiv_mono s.blockSize (reads_pos_mono rd ks (read rd k s).2)
    exact range'_glue _ _ _ (by simp only [ceilDiv] at m1 ⊢; omega)
      (by simp only [ceilDiv] at m2 ⊢; omega)

example : ∃ s : St Unit, Mon s :=
  ⟨(monitor { inner := (), length := 5, blockSize := 1 }).2, monitor_mon _ rfl⟩

/-- **Monitor, then reads.**  Attach the monitor to a state that has not reported yet, then run
any schedule: the callback sees `0, 1, …, ⌈p/bs⌉` one by one, `p` the final position. -/
theorem monitor_reads_calls (ks : List Nat) (s0 : St σ) (hn : s0.nextBlock = 0) :
    (monitor s0).1 ++ (reads rd ks (monitor s0).2).1.2 =
      List.range' 0 (ceilDiv (reads rd ks (monitor s0).2).2.pos s0.blockSize + 1) := by
  have hM := monitor_mon s0 hn
  rw [(reads_calls rd ks _ hM).1, monitor_calls s0 hn, hM.2]
  have e : (monitor s0).2.blockSize = s0.blockSize := by rw [monitor_state]
  have p : (monitor s0).2.pos = s0.pos := by rw [monitor_state]
  have m := ceilDiv_mono s0.blockSize (reads_pos_mono rd ks (monitor s0).2)
  rw [e, p] at *
  have := range'_glue 0 (ceilDiv s0.pos s0.blockSize + 1)
    (ceilDiv (reads rd ks (monitor s0).2).2.pos s0.blockSize + 1) (Nat.zero_le _) (by omega)
  simpa using this

example : ∃ s : St Unit, s.nextBlock = 0 := ⟨{ inner := (), length := 5, blockSize := 1 }, rfl⟩

/-- The last block number reported is `⌈p/bs⌉`, `p` the final position. -/
theorem monitor_reads_last (ks : List Nat) (s0 : St σ) (hn : s0.nextBlock = 0) :
    ((monitor s0).1 ++ (reads rd ks (monitor s0).2).1.2).getLast? =
      some (ceilDiv (reads rd ks (monitor s0).2).2.pos s0.blockSize) := by
  rw [monitor_reads_calls rd ks s0 hn, List.getLast?_range']; simp

example : ∃ s : St Unit, s.nextBlock = 0 := ⟨{ inner := (), length := 5, blockSize := 1 }, rfl⟩

/-- `⌈p/bs⌉ = ⌈L/bs⌉` for `p ≤ L`, `bs > 0`, exactly when `L` is at most `p` rounded up to a
multiple of `bs`, i.e. when `p` lies in the last block. -/
theorem ceilDiv_eq_iff (p L bs : Nat) (hp : p ≤ L) (hb : 0 < bs) :
    ceilDiv p bs = ceilDiv L bs ↔ L ≤ ceilDiv p bs * bs := by
  have mono := ceilDiv_mono bs hp
  simp only [ceilDiv] at *
  constructor
  · intro e
    rw [e]
    have h1 := Nat.div_add_mod (L + bs - 1) bs
    have h2 := Nat.mod_lt (L + bs - 1) hb
    rw [Nat.mul_comm] at h1
    omega
  · intro hle
    have h2 : (L + bs - 1) / bs < (p + bs - 1) / bs + 1 := by
      rw [Nat.div_lt_iff_lt_mul hb, Nat.add_mul]; omega
    omega

example : ∃ p L bs : Nat, p ≤ L ∧ 0 < bs := ⟨1, 2, 4, by decide, by decide⟩

/-- **Monitor, then reads: the whole picture.**  For a fresh state (`nextBlock = 0`,
`pos ≤ length`, `blockSize > 0`; `monitored = false` is not needed) with final position `p`:
the calls are `0, …, ⌈p/bs⌉`; `totalBlocks = ⌈length/bs⌉`; the last block reported never exceeds
`totalBlocks`; it equals `totalBlocks` when `p = length`; and in general it equals `totalBlocks`
iff `length ≤ ⌈p/bs⌉ * bs` (the final position lies in the last block) — `p = length` is
sufficient but NOT necessary, see `last_block_not_iff`. -/
theorem monitor_reads (ks : List Nat) (s0 : St σ) (hn : s0.nextBlock = 0)
    (hp : s0.pos ≤ s0.length) (hb : 0 < s0.blockSize) :
    (monitor s0).1 ++ (reads rd ks (monitor s0).2).1.2 =
      List.range' 0 (ceilDiv (reads rd ks (monitor s0).2).2.pos s0.blockSize + 1) ∧
    (monitor s0).2.totalBlocks = ceilDiv s0.length s0.blockSize ∧
    (reads rd ks (monitor s0).2).2.totalBlocks = ceilDiv s0.length s0.blockSize ∧
    (reads rd ks (monitor s0).2).2.pos ≤ s0.length ∧
    ceilDiv (reads rd ks (monitor s0).2).2.pos s0.blockSize ≤ (monitor s0).2.totalBlocks ∧
    ((reads rd ks (monitor s0).2).2.pos = s0.length →
      ceilDiv (reads rd ks (monitor s0).2).2.pos s0.blockSize = (monitor s0).2.totalBlocks) ∧
    (ceilDiv (reads rd ks (monitor s0).2).2.pos s0.blockSize = (monitor s0).2.totalBlocks ↔
      s0.length ≤ ceilDiv (reads rd ks (monitor s0).2).2.pos s0.blockSize * s0.blockSize) := by
  have hT : (monitor s0).2.totalBlocks = ceilDiv s0.length s0.blockSize := by rw [monitor_state]
  have hL : (monitor s0).2.length = s0.length := by rw [monitor_state]
  have hP : (monitor s0).2.pos = s0.pos := by rw [monitor_state]
  have hw := (reads_within rd ks (monitor s0).2 (by rw [hL, hP]; exact hp)).1
  rw [hL] at hw
  refine ⟨monitor_reads_calls rd ks s0 hn, hT, by rw [reads_totalBlocks, hT], hw, ?_, ?_, ?_⟩
  · rw [hT]; exact ceilDiv_mono _ hw
  · intro e; rw [hT, e]
  · rw [hT]; exact ceilDiv_eq_iff _ _ _ hw hb

example : ∃ s : St Unit, s.nextBlock = 0 ∧ s.pos ≤ s.length ∧ 0 < s.blockSize :=
  ⟨{ inner := (), length := 5, blockSize := 1 }, rfl, by decide, by decide⟩

/-- With `blockSize = 1` the naive clause does hold: last block `= totalBlocks` iff `p = length`. -/
theorem monitor_reads_bs1 (ks : List Nat) (s0 : St σ) (hb : s0.blockSize = 1) :
    ceilDiv (reads rd ks (monitor s0).2).2.pos s0.blockSize = (monitor s0).2.totalBlocks ↔
      (reads rd ks (monitor s0).2).2.pos = s0.length := by
  rw [monitor_state]; simp [ceilDiv, hb]

example : ∃ s : St Unit, s.blockSize = 1 := ⟨{ inner := (), length := 5, blockSize := 1 }, rfl⟩

/-- Counterexample to "last block = totalBlocks iff final pos = length": `length = 2`,
`blockSize = 4`, inner decoder yielding one byte per call, schedule `[1]`.  The run stops at
`pos = 1 ≠ 2 = length`, yet the last block reported is `1 = totalBlocks`. -/
def cexState : St Unit := { inner := (), length := 2, blockSize := 4 }
/-- inner decoder of the counterexample: one byte `7` per call -/
def cexRd : Unit → List Byte × Unit := fun u => ([7], u)

#eval ((monitor cexState).1 ++ (reads cexRd [1] (monitor cexState).2).1.2,
       (reads cexRd [1] (monitor cexState).2).2.pos, cexState.length,
       (monitor cexState).2.totalBlocks)   -- ([0, 1], 1, 2, 1)

/-- The counterexample, proved: last block `= totalBlocks` although `pos ≠ length`. -/
theorem last_block_not_iff :
    ¬ (ceilDiv (reads cexRd [1] (monitor cexState).2).2.pos cexState.blockSize
          = (monitor cexState).2.totalBlocks →
        (reads cexRd [1] (monitor cexState).2).2.pos = cexState.length) := by
  have hp : (reads cexRd [1] (monitor cexState).2).2.pos = 1 := by
    simp [reads, read_pos, read_out, fill_out, monitor_state, cexState, rest, avail, cexRd]
  rw [hp]; decide

/-- **Reads, then monitor, then reads.**  If the monitor is attached only after a prefix `ks1`
of (unmonitored) reads, the prefix makes no calls and the callback still sees
`0, 1, …, ⌈p/bs⌉` in order, `p` the final position. -/
theorem prefix_monitor_reads_calls (ks1 ks2 : List Nat) (s0 : St σ) (hn : s0.nextBlock = 0)
    (hm : s0.monitored = false) :
    (reads rd ks1 s0).1.2 = [] ∧
    (reads rd ks1 s0).1.2 ++ (monitor (reads rd ks1 s0).2).1 ++
        (reads rd ks2 (monitor (reads rd ks1 s0).2).2).1.2 =
      List.range' 0
        (ceilDiv (reads rd ks2 (monitor (reads rd ks1 s0).2).2).2.pos s0.blockSize + 1) := by
  obtain ⟨u1, u2⟩ := reads_unmonitored rd ks1 s0 hm
  refine ⟨u1, ?_⟩
  rw [u1, List.nil_append, monitor_reads_calls rd ks2 _ (by rw [u2]; exact hn), reads_blockSize]

example : ∃ s : St Unit, s.nextBlock = 0 ∧ s.monitored = false :=
  ⟨{ inner := (), length := 5, blockSize := 1 }, rfl, rfl⟩

/-- The prefix version of `monitor_reads`: same clauses about `totalBlocks` and the last block. -/
theorem prefix_monitor_reads (ks1 ks2 : List Nat) (s0 : St σ) (hn : s0.nextBlock = 0)
    (hm : s0.monitored = false) (hp : s0.pos ≤ s0.length) (hb : 0 < s0.blockSize) :
    (monitor (reads rd ks1 s0).2).2.totalBlocks = ceilDiv s0.length s0.blockSize ∧
    (reads rd ks2 (monitor (reads rd ks1 s0).2).2).2.pos ≤ s0.length ∧
    ((reads rd ks2 (monitor (reads rd ks1 s0).2).2).2.pos = s0.length →
      ceilDiv (reads rd ks2 (monitor (reads rd ks1 s0).2).2).2.pos s0.blockSize =
        (monitor (reads rd ks1 s0).2).2.totalBlocks) ∧
    (ceilDiv (reads rd ks2 (monitor (reads rd ks1 s0).2).2).2.pos s0.blockSize =
        (monitor (reads rd ks1 s0).2).2.totalBlocks ↔
      s0.length ≤
        ceilDiv (reads rd ks2 (monitor (reads rd ks1 s0).2).2).2.pos s0.blockSize *
          s0.blockSize) := by
  obtain ⟨_, u2⟩ := reads_unmonitored rd ks1 s0 hm
  obtain ⟨w1, w2⟩ := reads_within rd ks1 s0 hp
  have := monitor_reads rd ks2 (reads rd ks1 s0).2 (by rw [u2]; exact hn)
    (by rw [w2]; exact w1) (by rw [reads_blockSize]; exact hb)
  rw [reads_blockSize, reads_length] at this
  exact ⟨this.2.1, this.2.2.2.1, this.2.2.2.2.2.1, this.2.2.2.2.2.2⟩

example : ∃ s : St Unit,
    s.nextBlock = 0 ∧ s.monitored = false ∧ s.pos ≤ s.length ∧ 0 < s.blockSize :=
  ⟨{ inner := (), length := 5, blockSize := 1 }, rfl, rfl, by decide, by decide⟩

end LhasaV.Wrap
