import LhasaV.Lemmas.Lh1Defs
/-! the regrouping part of `reconstruct_tree` establishes the group invariant on any sorted table. -/
namespace LhasaV.Lh1
open LhasaV.Res

/-- views after writing only the `group` field of node `i` -/
theorem rg_views {s s' : St} {i v : Nat} (hi : i < s.nodes.size)
    (hn : s'.nodes = s.nodes.setIfInBounds i { nd s i with group := v }) :
    lf s' = lf s ∧ ch s' = ch s ∧ pa s' = pa s ∧ fr s' = fr s ∧
      ∀ j, gp s' j = if j = i then v else gp s j := by
  have h : ∀ j, nd s' j = if j = i then { nd s i with group := v } else nd s j := by
    intro j; simp only [nd, hn]; exact getD_set _ _ _ _ _ hi
  refine ⟨?_, ?_, ?_, ?_, ?_⟩
  · funext j; simp only [lf, h]; split
    · next e => subst e; rfl
    · rfl
  · funext j; simp only [ch, h]; split
    · next e => subst e; rfl
    · rfl
  · funext j; simp only [pa, h]; split
    · next e => subst e; rfl
    · rfl
  · funext j; simp only [fr, h]; split
    · next e => subst e; rfl
    · rfl
  · intro j; simp only [gp, h]; split
    · rfl
    · rfl

theorem rg_leaders_succ (f : Nat → Nat) (i : Nat) :
    leaders f (i + 1) = leaders f i + (if i = 0 ∨ f (i - 1) ≠ f i then 1 else 0) := by
  simp [leaders, cntP]

/-- loop invariant of `regroup`, over the prefix `0 .. i-1` -/
structure rg_Inv (s0 s : St) (i g : Nat) : Prop where
  base : Base s
  hlf : lf s = lf s0
  hch : ch s = ch s0
  hpa : pa s = pa s0
  hfr : fr s = fr s0
  hln : ln s = ln s0
  fgid : ∀ j, j < 627 → fg s j = j
  ng : s.numGroups = leaders (fr s0) i
  eqv : ∀ a b, a < i → b < i → (gp s a = gp s b ↔ fr s0 a = fr s0 b)
  lt : ∀ a, a < i → gp s a < s.numGroups
  ldr : ∀ a, a < i → fr s0 (gl s (gp s a)) = fr s0 a ∧
    ∀ j, j < i → fr s0 j = fr s0 a → gl s (gp s a) ≤ j
  cur : g = gp s (i - 1)

/-- node `i` joins the group of node `i-1` -/
theorem rg_step_same {s0 s s' : St} {i g : Nat} (I : rg_Inv s0 s i g) (hs : Sorted (fr s0))
    (hi1 : 1 ≤ i) (hi : i < 627) (hf : fr s0 i = fr s0 (i - 1))
    (hn : s'.nodes = s.nodes.setIfInBounds i { nd s i with group := gp s (i - 1) })
    (h2 : s'.leafNodes = s.leafNodes) (h3 : s'.groups = s.groups)
    (h4 : s'.groupLeader = s.groupLeader) (h5 : s'.ring = s.ring) (h6 : s'.pos = s.pos)
    (h7 : s'.bits = s.bits) (h8 : s'.offsetLookup = s.offsetLookup)
    (h9 : s'.offsetLengths = s.offsetLengths) (h10 : s'.numGroups = s.numGroups) :
    rg_Inv s0 s' (i + 1) g := by
  have hsz : i < s.nodes.size := by rw [I.base.nodes]; exact hi
  obtain ⟨v1, v2, v3, v4, v5⟩ := rg_views hsz hn
  have hgl : gl s' = gl s := by funext j; simp [gl, h4]
  have hfg : fg s' = fg s := by funext j; simp [fg, h3]
  have hln : ln s' = ln s := by funext j; simp [ln, h2]
  have hprev : ∀ a, a < i → fr s0 (i - 1) ≤ fr s0 a := fun a ha => hs.le (by omega) (by omega)
  have hcur := I.cur
  refine { base := I.base.congr (by rw [hn, Array.size_setIfInBounds]) (by rw [h2]) (by rw [h3])
             (by rw [h4]) h5 h6 h7 h8 h9,
           hlf := v1.trans I.hlf, hch := v2.trans I.hch, hpa := v3.trans I.hpa,
           hfr := v4.trans I.hfr, hln := hln.trans I.hln,
           fgid := by rw [hfg]; exact I.fgid, ng := ?_, eqv := ?_, lt := ?_, ldr := ?_, cur := ?_ }
  · rw [h10, I.ng, rg_leaders_succ]
    have : ¬ (i = 0 ∨ fr s0 (i - 1) ≠ fr s0 i) := by omega
    simp [this]
  · intro a b ha hb
    rw [v5 a, v5 b]
    by_cases ea : a = i <;> by_cases eb : b = i
    · subst ea; subst eb; simp
    · subst ea
      have := I.eqv (a - 1) b (by omega) (by omega)
      simp only [if_pos, eb, if_false]; rw [hf]; exact this
    · subst eb
      have := I.eqv a (b - 1) (by omega) (by omega)
      simp only [if_pos, ea, if_false]; rw [hf]; exact this
    · simp only [ea, eb, if_false]; exact I.eqv a b (by omega) (by omega)
  · intro a ha
    rw [v5 a, h10]
    by_cases ea : a = i
    · simp only [ea, if_pos]; exact I.lt (i - 1) (by omega)
    · simp only [ea, if_false]; exact I.lt a (by omega)
  · intro a ha
    rw [v5 a, hgl]
    by_cases ea : a = i
    · subst ea
      simp only [if_pos]
      have h1 := I.ldr (a - 1) (by omega)
      refine ⟨by rw [hf]; exact h1.1, ?_⟩
      intro j hj hja
      by_cases ej : j = a
      · have := h1.2 (a - 1) (by omega) rfl
        omega
      · exact h1.2 j (by omega) (by rw [hja, hf])
    · simp only [ea, if_false]
      have h1 := I.ldr a (by omega)
      refine ⟨h1.1, ?_⟩
      intro j hj hja
      by_cases ej : j = i
      · have := h1.2 a (by omega) rfl
        omega
      · exact h1.2 j (by omega) hja
  · rw [v5 (i + 1 - 1)]
    have : i + 1 - 1 = i := by omega
    rw [this]; simp only [if_pos]; exact hcur

/-- node `i` opens a new group -/
theorem rg_step_new {s0 s s' : St} {i g : Nat} (I : rg_Inv s0 s i g) (hs : Sorted (fr s0))
    (hi1 : 1 ≤ i) (hi : i < 627) (hf : fr s0 i ≠ fr s0 (i - 1))
    (hn : s'.nodes = s.nodes.setIfInBounds i { nd s i with group := fg s s.numGroups })
    (h2 : s'.leafNodes = s.leafNodes) (h3 : s'.groups = s.groups)
    (h4 : s'.groupLeader = s.groupLeader.setIfInBounds (fg s s.numGroups) i)
    (h5 : s'.ring = s.ring) (h6 : s'.pos = s.pos)
    (h7 : s'.bits = s.bits) (h8 : s'.offsetLookup = s.offsetLookup)
    (h9 : s'.offsetLengths = s.offsetLengths) (h10 : s'.numGroups = s.numGroups + 1) :
    rg_Inv s0 s' (i + 1) (fg s s.numGroups) := by
  have hsz : i < s.nodes.size := by rw [I.base.nodes]; exact hi
  have hng : s.numGroups < 627 := by
    have := leaders_le (fr s0) i
    have := I.ng
    omega
  have hv : fg s s.numGroups = s.numGroups := I.fgid _ hng
  rw [hv] at hn h4 ⊢
  obtain ⟨v1, v2, v3, v4, v5⟩ := rg_views hsz hn
  have hgl : ∀ j, gl s' j = if j = s.numGroups then i else gl s j := by
    intro j; simp only [gl, h4]
    exact getD_set _ _ _ _ _ (by rw [I.base.groupLeader]; exact hng)
  have hfg : fg s' = fg s := by funext j; simp [fg, h3]
  have hln : ln s' = ln s := by funext j; simp [ln, h2]
  have hprev : ∀ a, a < i → fr s0 i < fr s0 a := by
    intro a ha
    have h1 : fr s0 (i - 1) ≤ fr s0 a := hs.le (by omega) (by omega)
    have h2 := hs (i - 1) (by omega)
    have : i - 1 + 1 = i := by omega
    rw [this] at h2
    omega
  refine { base := I.base.congr (by rw [hn, Array.size_setIfInBounds]) (by rw [h2]) (by rw [h3])
             (by rw [h4, Array.size_setIfInBounds]) h5 h6 h7 h8 h9,
           hlf := v1.trans I.hlf, hch := v2.trans I.hch, hpa := v3.trans I.hpa,
           hfr := v4.trans I.hfr, hln := hln.trans I.hln,
           fgid := by rw [hfg]; exact I.fgid, ng := ?_, eqv := ?_, lt := ?_, ldr := ?_, cur := ?_ }
  · rw [h10, I.ng, rg_leaders_succ]
    have : (i = 0 ∨ fr s0 (i - 1) ≠ fr s0 i) := by omega
    simp [this]
  · intro a b ha hb
    rw [v5 a, v5 b]
    by_cases ea : a = i <;> by_cases eb : b = i
    · subst ea; subst eb; simp
    · subst ea
      have h1 := I.lt b (by omega)
      have h2 := hprev b (by omega)
      simp only [if_pos, eb, if_false]
      constructor <;> intro <;> omega
    · subst eb
      have h1 := I.lt a (by omega)
      have h2 := hprev a (by omega)
      simp only [if_pos, ea, if_false]
      constructor <;> intro <;> omega
    · simp only [ea, eb, if_false]; exact I.eqv a b (by omega) (by omega)
  · intro a ha
    rw [v5 a, h10]
    by_cases ea : a = i
    · simp only [ea, if_pos]; omega
    · simp only [ea, if_false]
      have := I.lt a (by omega)
      omega
  · intro a ha
    rw [v5 a, hgl]
    by_cases ea : a = i
    · subst ea
      simp only [if_pos]
      refine ⟨trivial, ?_⟩
      intro j hj hja
      by_cases ej : j = a
      · omega
      · have := hprev j (by omega)
        omega
    · have hlt := I.lt a (by omega)
      have hne : gp s a ≠ s.numGroups := by omega
      simp only [ea, hne, if_false]
      have h1 := I.ldr a (by omega)
      refine ⟨h1.1, ?_⟩
      intro j hj hja
      by_cases ej : j = i
      · have := hprev a (by omega)
        subst ej
        omega
      · exact h1.2 j (by omega) hja
  · rw [v5 (i + 1 - 1)]
    have : i + 1 - 1 = i := by omega
    rw [this]; simp only [if_pos]

theorem rg_loop (s0 : St) (hs : Sorted (fr s0)) (k : Nat) : ∀ (i g : Nat) (s : St),
    k + i = 627 → 1 ≤ i → rg_Inv s0 s i g →
    ∃ s' g', regroup k i g s = .ok s' ∧ rg_Inv s0 s' 627 g' := by
  induction k with
  | zero =>
    intro i g s hk hi I
    have : i = 627 := by omega
    subst this
    exact ⟨s, g, rfl, I⟩
  | succ k ih =>
    intro i g s hk hi I
    have hsz : i < s.nodes.size := by rw [I.base.nodes]; omega
    have hsz' : i - 1 < s.nodes.size := by omega
    unfold regroup
    rw [getNode_ok _ _ _ hsz]; simp only [ok_bind]
    rw [getNode_ok _ _ _ hsz']; simp only [ok_bind]
    by_cases hf : (nd s i).freq = (nd s (i - 1)).freq
    · rw [if_pos hf, setNode_ok _ _ _ _ hsz]; simp only [ok_bind]
      apply ih (i + 1) g _ (by omega) (by omega)
      have hf' : fr s0 i = fr s0 (i - 1) := by rw [← I.hfr]; exact hf
      exact rg_step_same I hs hi (by omega) hf' rfl rfl rfl rfl rfl rfl rfl rfl rfl rfl
    · have hf' : fr s0 i ≠ fr s0 (i - 1) := by rw [← I.hfr]; exact hf
      have hng : s.numGroups < s.groups.size := by
        rw [I.base.groups]
        have := leaders_le (fr s0) i
        have := I.ng
        omega
      rw [if_neg hf, allocGroup_ok _ hng]; simp only [ok_bind]
      rw [setNode_ok _ _ _ _ (by show i < s.nodes.size; exact hsz)]; simp only [ok_bind]
      have hv : fg s s.numGroups = s.numGroups := I.fgid _ (by rw [← I.base.groups]; exact hng)
      rw [setGroupLeader_ok _ _ _ _ (by
        show fg s s.numGroups < s.groupLeader.size
        rw [hv, I.base.groupLeader, ← I.base.groups]; exact hng)]
      simp only [ok_bind]
      apply ih (i + 1) _ _ (by omega) (by omega)
      exact rg_step_new I hs hi (by omega) hf' rfl rfl rfl rfl rfl rfl rfl rfl rfl rfl

/-- the state after the three setup steps satisfies the invariant for the prefix `{0}` -/
theorem rg_init {s s' : St} (hb : Base s)
    (hn : s'.nodes = s.nodes.setIfInBounds 0 { nd s 0 with group := 0 })
    (h2 : s'.leafNodes = s.leafNodes) (h3 : s'.groups.size = 627)
    (h3' : ∀ j, j < 627 → s'.groups.getD j 0 = j)
    (h4 : s'.groupLeader = s.groupLeader.setIfInBounds 0 0)
    (h5 : s'.ring = s.ring) (h6 : s'.pos = s.pos)
    (h7 : s'.bits = s.bits) (h8 : s'.offsetLookup = s.offsetLookup)
    (h9 : s'.offsetLengths = s.offsetLengths) (h10 : s'.numGroups = 1) :
    rg_Inv s s' 1 0 := by
  have hsz : 0 < s.nodes.size := by rw [hb.nodes]; omega
  obtain ⟨v1, v2, v3, v4, v5⟩ := rg_views hsz hn
  have hgl : ∀ j, gl s' j = if j = 0 then 0 else gl s j := by
    intro j; simp only [gl, h4]
    exact getD_set _ _ _ _ _ (by rw [hb.groupLeader]; omega)
  have hln : ln s' = ln s := by funext j; simp [ln, h2]
  refine { base := hb.congr (by rw [hn, Array.size_setIfInBounds]) (by rw [h2])
             (by rw [h3, hb.groups])
             (by rw [h4, Array.size_setIfInBounds]) h5 h6 h7 h8 h9,
           hlf := v1, hch := v2, hpa := v3, hfr := v4, hln := hln,
           fgid := ?_, ng := ?_, eqv := ?_, lt := ?_, ldr := ?_, cur := ?_ }
  · intro j hj
    exact h3' j hj
  · rw [h10]; simp [leaders, cntP]
  · intro a b ha hb'
    have : a = 0 := by omega
    have : b = 0 := by omega
    subst a; subst b; simp
  · intro a ha
    have : a = 0 := by omega
    subst a
    rw [v5 0, h10]; simp
  · intro a ha
    have : a = 0 := by omega
    subst a
    rw [v5 0, hgl]
    simp only [if_pos]
    refine ⟨trivial, ?_⟩
    intro j hj _
    omega
  · rw [v5]; simp

/-- at `i = 627` the loop invariant is the group invariant -/
theorem rg_final {s0 s : St} {g : Nat} (I : rg_Inv s0 s 627 g) (hs : Sorted (fr s0)) :
    Grp (fr s) (gp s) (gl s) (fg s) s.numGroups := by
  have hle := leaders_le (fr s0) 627
  have hng := I.ng
  rw [I.hfr]
  exact
    { sorted := hs
      eqv := fun i j hi hj => I.eqv i j hi hj
      rng := fun i hi => by have := I.lt i hi; omega
      ldr := fun i hi => I.ldr i hi
      free := fun j hj hj' => by
        rw [I.fgid j hj']
        refine ⟨hj', fun i hi => ?_⟩
        have := I.lt i hi
        omega
      inj := fun j k _ hj _ hk h => by
        rw [I.fgid j hj, I.fgid k hk] at h; exact h
      cnt := hng }

theorem regroupAll_spec (s : St) (hb : Base s) (hs : Sorted (fr s)) :
    ∃ s', regroupAll s = .ok s' ∧ Base s' ∧ lf s' = lf s ∧ ch s' = ch s ∧ pa s' = pa s ∧
      fr s' = fr s ∧ ln s' = ln s ∧ Grp (fr s') (gp s') (gl s') (fg s') s'.numGroups := by
  unfold regroupAll
  have hnn : numNodes - 1 = 626 := by decide
  generalize numNodes - 1 = k at hnn ⊢
  simp only []
  have hcap : Gen.lh1GroupsCap = 627 := rfl
  rw [hcap]
  have hR1 : (Array.range 627).size = 627 := Array.size_range
  have hR2 : ∀ j, j < 627 → (Array.range 627).getD j 0 = j := by
    intro j hj
    simp [Array.getD_eq_getD_getElem?, hj]
  generalize Array.range 627 = R at hR1 hR2 ⊢
  rw [allocGroup_ok { s with groups := R, numGroups := 0 } (by simp only []; omega)]
  simp only [ok_bind]
  have hv : ∀ X : St, X.groups = R → fg X 0 = 0 := by
    intro X hX; simp only [fg, hX]; exact hR2 0 (by omega)
  simp only [hv { s with groups := R, numGroups := 0 } rfl]
  rw [getNode_ok _ _ _ (by show 0 < s.nodes.size; rw [hb.nodes]; omega)]
  simp only [ok_bind]
  rw [setNode_ok _ _ _ _ (by show 0 < s.nodes.size; rw [hb.nodes]; omega)]
  simp only [ok_bind]
  rw [setGroupLeader_ok _ _ _ _ (by show 0 < s.groupLeader.size; rw [hb.groupLeader]; omega)]
  simp only [ok_bind]
  subst hnn
  have I0 : rg_Inv s { s with groups := R, numGroups := 1,
                              nodes := s.nodes.setIfInBounds 0 { nd s 0 with group := 0 },
                              groupLeader := s.groupLeader.setIfInBounds 0 0 } 1 0 :=
    rg_init hb rfl rfl hR1 hR2 rfl rfl rfl rfl rfl rfl rfl
  obtain ⟨s', g', he, I⟩ := rg_loop s hs 626 1 0 _ (by omega) (by omega) I0
  exact ⟨s', he, I.base, I.hlf, I.hch, I.hpa, I.hfr, I.hln, rg_final I hs⟩

end LhasaV.Lh1
