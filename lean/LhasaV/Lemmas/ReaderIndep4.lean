import LhasaV.Lemmas.ReaderIndep3
/-!
# C15, part 4: the simulation relation and `next`

`Sim s t`: two reader states that agree on everything but the open decoder, the decoder count,
the step counters and the amount consumed of the current member.
-/
set_option linter.unusedSimpArgs false
namespace LhasaV.ReaderIndep
open LhasaV LhasaV.Reader

structure Sim (s t : St) : Prop where
  curr : s.curr = t.curr
  currType : s.currType = t.currType
  policy : s.policy = t.policy
  dirStack : s.dirStack = t.dirStack
  deferred : s.deferred = t.deferred
  mktime : s.mktime = t.mktime
  hdrs : s.led.hdrs = t.led.hdrs
  blocks : s.led.blocks = t.led.blocks
  nextId : s.led.nextId = t.led.nextId
  faults : s.led.faults = t.led.faults
  basic : ConsEq s.basic t.basic

theorem Sim.refl {s : St} (h : Tidy s.basic) : Sim s s := by
  constructor <;> first | rfl | exact ConsEq.refl h

theorem Sim.symm {s t : St} (h : Sim s t) : Sim t s := by
  constructor
  all_goals first
    | exact h.curr.symm | exact h.currType.symm | exact h.policy.symm | exact h.dirStack.symm
    | exact h.deferred.symm | exact h.mktime.symm | exact h.hdrs.symm | exact h.blocks.symm
    | exact h.nextId.symm | exact h.faults.symm | exact h.basic.symm

/-- a decoding operation on the left side keeps the simulation -/
theorem Sim.decStep_left {s s' t : St} (h : Sim s t) (d : DecStep s s') : Sim s' t := by
  constructor
  · rw [d.frame.curr]; exact h.curr
  · rw [d.frame.currType]; exact h.currType
  · rw [d.frame.policy]; exact h.policy
  · rw [d.frame.dirStack]; exact h.dirStack
  · rw [d.frame.deferred]; exact h.deferred
  · rw [d.frame.mktime]; exact h.mktime
  · rw [d.frame.hdrs]; exact h.hdrs
  · rw [d.frame.blocks]; exact h.blocks
  · rw [d.frame.nextId]; exact h.nextId
  · rw [d.frame.faults]; exact h.faults
  · exact d.basic.symm.trans h.basic

theorem Sim.decStep_right {s t t' : St} (h : Sim s t) (d : DecStep t t') : Sim s t' :=
  (h.symm.decStep_left d).symm

/-! ## the non-decoding half of `extract` -/

/-- `lha_reader_extract` for everything that is not a file: what it does to the reader state -/
def extractMeta (s : St) (fsOk : Bool) : St :=
  match s.currType, s.curr with
  | .normal, some c =>
    if c.h.method != "-lhd-".toUTF8.toList then s
    else if c.h.symlinkTarget.isSome then
      if isDangerous c.h then
        if !fsOk then s else
        { s with deferred := s.deferred.takeWhile (fun r => pathLen r > pathLen c) ++ [c] ++
                   s.deferred.dropWhile (fun r => pathLen r > pathLen c),
                 led := s.led.addRef c.id }
      else s
    else
      if !fsOk then s else
      if s.policy == .plain then s
      else { s with dirStack := c :: s.dirStack, led := s.led.addRef c.id }
  | _, _ => s

/-- the current entry is a file (anything whose method is not `-lhd-`) -/
def IsFile (s : St) : Prop :=
  s.currType = .normal ∧ ∃ c, s.curr = some c ∧ (c.h.method != "-lhd-".toUTF8.toList) = true

theorem extract_file_step (H : HonestAll) {s : St} (hp : Pre s) (hf : IsFile s) (fsOk : Bool) :
    DecStep s (extract s fsOk).2 := by
  obtain ⟨ht, c, hc, hm⟩ := hf
  unfold extract
  simp only [ht, hc, hm, if_true]
  split
  · exact openDecoder_step H hp
  · split
    · exact openDecoder_step H hp
    · exact (openDecoder_step H hp).trans (decodeLoop_step H _ (openDecoder_step H hp).pre _)

theorem extract_nonfile {s : St} (hf : ¬ IsFile s) (fsOk : Bool) :
    (extract s fsOk).2 = extractMeta s fsOk := by
  unfold extract extractMeta
  cases ht : s.currType <;> cases hc : s.curr <;> dsimp only <;> try rfl
  rename_i c
  have hm : (c.h.method != "-lhd-".toUTF8.toList) = false := by
    cases h : (c.h.method != "-lhd-".toUTF8.toList) with
    | false => rfl
    | true => exact absurd ⟨ht, c, hc, h⟩ hf
  simp only [hm, Bool.false_eq_true, if_false]
  by_cases h1 : c.h.symlinkTarget.isSome = true <;> by_cases h2 : isDangerous c.h = true <;>
    cases fsOk <;> by_cases h4 : (s.policy == DirPolicy.plain) = true <;>
    simp only [h1, h2, h4, if_true, if_false, Bool.not_true, Bool.not_false, Bool.false_eq_true]

theorem extractMeta_file {s : St} (hf : IsFile s) (fsOk : Bool) : extractMeta s fsOk = s := by
  obtain ⟨ht, c, hc, hm⟩ := hf
  unfold extractMeta
  simp only [ht, hc, hm, if_true]

theorem extractMeta_basic (s : St) (b : Bool) :
    (extractMeta s b).basic = s.basic ∧ (extractMeta s b).dec = s.dec := by
  unfold extractMeta
  split
  · split
    · exact ⟨rfl, rfl⟩
    · split
      · split
        · split <;> exact ⟨rfl, rfl⟩
        · exact ⟨rfl, rfl⟩
      · split
        · exact ⟨rfl, rfl⟩
        · split <;> exact ⟨rfl, rfl⟩
  · exact ⟨rfl, rfl⟩

theorem pre_congr {s s' : St} (hb : s'.basic = s.basic) (hd : s'.dec = s.dec) (h : Pre s) : Pre s' := by
  refine ⟨?_, by rw [hb]; exact h.tidy, by rw [hb]; exact h.wf⟩
  intro o ho
  rw [hb]
  exact h.decOK o (by rw [← hd]; exact ho)

theorem addRef_congr {l l' : Ledger} (h1 : l.hdrs = l'.hdrs) (h2 : l.blocks = l'.blocks)
    (h3 : l.nextId = l'.nextId) (h4 : l.faults = l'.faults) (id : Nat) :
    (l.addRef id).hdrs = (l'.addRef id).hdrs ∧ (l.addRef id).blocks = (l'.addRef id).blocks ∧
    (l.addRef id).nextId = (l'.addRef id).nextId ∧ (l.addRef id).faults = (l'.addRef id).faults := by
  unfold Ledger.addRef
  rw [h1]
  split
  · exact ⟨rfl, h2, h3, h4⟩
  · exact ⟨h1 ▸ rfl, h2, h3, by simp only [h4]⟩

theorem extractMeta_sim {s t : St} (h : Sim s t) (b : Bool) :
    Sim (extractMeta s b) (extractMeta t b) := by
  have ha := fun id => addRef_congr h.hdrs h.blocks h.nextId h.faults id
  unfold extractMeta
  rw [← h.currType, ← h.curr, ← h.policy, ← h.deferred, ← h.dirStack]
  split
  · rename_i c _ _
    obtain ⟨a1, a2, a3, a4⟩ := ha c.id
    split
    · exact h
    · split
      · split
        · split
          · exact h
          · exact ⟨rfl, rfl, rfl, rfl, rfl, h.mktime, a1, a2, a3, a4, h.basic⟩
        · exact h
      · split
        · exact h
        · split
          · exact h
          · exact ⟨rfl, rfl, rfl, rfl, rfl, h.mktime, a1, a2, a3, a4, h.basic⟩
  · exact h

theorem isFile_congr {s t : St} (h : Sim s t) : IsFile s ↔ IsFile t := by
  unfold IsFile; rw [h.currType, h.curr]

/-- **`extract` with the same outcome of the file-system call keeps the simulation** -/
theorem extract_sim (H : HonestAll) {s t : St} (hs : Pre s) (ht : Pre t) (h : Sim s t) (b : Bool) :
    Sim (extract s b).2 (extract t b).2 := by
  by_cases hf : IsFile s
  · exact (h.decStep_left (extract_file_step H hs hf b)).decStep_right
      (extract_file_step H ht ((isFile_congr h).1 hf) b)
  · rw [extract_nonfile hf, extract_nonfile (fun h' => hf ((isFile_congr h).2 h'))]
    exact extractMeta_sim h b

theorem extract_pre (H : HonestAll) {s : St} (hs : Pre s) (b : Bool) : Pre (extract s b).2 := by
  by_cases hf : IsFile s
  · exact (extract_file_step H hs hf b).pre
  · rw [extract_nonfile hf]
    exact pre_congr (extractMeta_basic s b).1 (extractMeta_basic s b).2 hs

end LhasaV.ReaderIndep
