import LhasaV.Lemmas.MacPass
import LhasaV.Lemmas.MacHeader
import LhasaV.Lemmas.ReaderLedger
import LhasaV.Lemmas.LzRoundTrip
/-!
# Members written by MacLHA (OS type `'m'` = 0x6d): C07 and C06 `macbinary_strip`

`lha_reader_check` / `lha_reader_extract` on a member of ANY OS type, in terms of `innerBytes`:
the complete output of the member's (inner, wrapped) decoder, cut at the declared length.

* C07 (`check_iff_inner`, `extract_iff_inner`): the verdict is good IFF `innerBytes` has the
  recorded length and CRC-16 — for plain members, for Mac members with a recognised MacBinary
  envelope, with an unrecognised one, shorter than 128 bytes, or whose envelope cannot be read.
* C06 (`check_bytes_mac`, `macbinary_strip`): the bytes handed to the caller.
-/
namespace LhasaV.MacProps
open LhasaV LhasaV.Reader LhasaV.Header

/-! ## the reader's read loop is the wrapper's read loop -/

/-- the open decoder is the pass-through, its outer wrapper in state `m` -/
def MacAt (s : St) (d : Dec) (m : Wrap.St (Mac (Except String d.σ))) : Prop :=
  ∃ dg, s.dec = some { d := d, plain := none, mac := some m, danglingInner := dg }

/-- the open decoder is a plain one, its wrapper in state `w` -/
def PlainIn (s : St) (d : Dec) (w : Wrap.St (Except String d.σ)) : Prop :=
  ∃ mc dg, s.dec = some { d := d, plain := some w, mac := mc, danglingInner := dg }

theorem read_macAt {s : St} {d : Dec} {m : Wrap.St (Mac (Except String d.σ))} (h : MacAt s d m)
    (k : Nat) :
    (Reader.read s k).1 = (Wrap.read (macRead d.total) k m).1.1 ∧
    MacAt (Reader.read s k).2 d (Wrap.read (macRead d.total) k m).2 := by
  obtain ⟨dg, hd⟩ := h
  rw [read_eq]
  simp only [hd, Option.isSome_some, Option.isSome_none, Bool.or_true, if_true]
  unfold readCore
  simp only [hd]
  exact ⟨trivial, ⟨dg, rfl⟩⟩

theorem read_plainIn {s : St} {d : Dec} {w : Wrap.St (Except String d.σ)} (h : PlainIn s d w)
    (k : Nat) :
    (Reader.read s k).1 = (Wrap.read d.total k w).1.1 ∧
    PlainIn (Reader.read s k).2 d (Wrap.read d.total k w).2 := by
  obtain ⟨mc, dg, hd⟩ := h
  rw [read_eq]
  simp only [hd, Option.isSome_some, Bool.true_or, if_true]
  unfold readCore
  simp only [hd]
  exact ⟨trivial, ⟨mc, dg, rfl⟩⟩

theorem decodeLoop_macAt (fuel : Nat) {s : St} {d : Dec} {m : Wrap.St (Mac (Except String d.σ))}
    (h : MacAt s d m) (acc : List UInt8) :
    (decodeLoop fuel s acc).1 = (drain (macRead d.total) 64 fuel m acc).1 ∧
    MacAt (decodeLoop fuel s acc).2 d (drain (macRead d.total) 64 fuel m acc).2 := by
  induction fuel generalizing s m acc with
  | zero => exact ⟨rfl, h⟩
  | succ n ih =>
    obtain ⟨h1, h2⟩ := read_macAt h 64
    unfold decodeLoop drain
    dsimp only
    rw [h1]
    split
    · exact ⟨rfl, h2⟩
    · exact ih h2 _

theorem decodeLoop_plainIn (fuel : Nat) {s : St} {d : Dec} {w : Wrap.St (Except String d.σ)}
    (h : PlainIn s d w) (acc : List UInt8) :
    (decodeLoop fuel s acc).1 = (drain d.total 64 fuel w acc).1 ∧
    PlainIn (decodeLoop fuel s acc).2 d (drain d.total 64 fuel w acc).2 := by
  induction fuel generalizing s w acc with
  | zero => exact ⟨rfl, h⟩
  | succ n ih =>
    obtain ⟨h1, h2⟩ := read_plainIn h 64
    unfold decodeLoop drain
    dsimp only
    rw [h1]
    split
    · exact ⟨rfl, h2⟩
    · exact ih h2 _

theorem verdict_macAt {s : St} {d : Dec} {m : Wrap.St (Mac (Except String d.σ))} (h : MacAt s d m)
    {c : HObj} (hc : s.curr = some c) :
    verdict s = (m.inner.inner.pos == c.h.length && m.inner.inner.crc.toNat == c.h.crc) := by
  obtain ⟨dg, hd⟩ := h
  unfold verdict
  simp only [hd, hc, Open.innerSt]

theorem verdict_plainIn {s : St} {d : Dec} {w : Wrap.St (Except String d.σ)} (h : PlainIn s d w)
    {c : HObj} (hc : s.curr = some c) :
    verdict s = (w.pos == c.h.length && w.crc.toNat == c.h.crc) := by
  obtain ⟨mc, dg, hd⟩ := h
  unfold verdict
  simp only [hd, hc, Open.innerSt]

/-! ## `open_decoder` -/

/-- the inner `LHADecoder` that `open_decoder` makes for the current member -/
def inner0 (s : St) (c : HObj) (d : Dec) (bs : Nat) : Wrap.St (Except String d.σ) :=
  { inner := .ok (d.init (memberSrc s.basic)), length := c.h.length, blockSize := bs }

/-- **the decoded content of the member**: the complete output of its decoder (run on the member's
compressed data), cut at the declared length — what `Wrap.avail` calls the output stream -/
def innerBytes (s : St) (c : HObj) (d : Dec) : List UInt8 :=
  Wrap.avail d.total c.h.length (.ok (d.init (memberSrc s.basic)))

theorem tail_inner0 (s : St) (c : HObj) (d : Dec) (bs : Nat) :
    tail d.total (inner0 s c d bs) = innerBytes s c d := tail_fresh _ _ _ _

theorem innerBytes_length_le (s : St) (c : HObj) (d : Dec) :
    (innerBytes s c d).length ≤ c.h.length := Wrap.avail_length_le _ _ _

theorem openDecoder_mac_none {s : St} {c : HObj} {d : Dec} {info : Nat × Nat × Nat}
    (ht : s.currType = .normal) (hc : s.curr = some c) (hos : c.h.osType = 0x6d)
    (hd : decoderFor (methodName c.h) = some d) (hi : decoderInfo (methodName c.h) = some info)
    (hn : (macInit d.total c.h (inner0 s c d info.2.2)).1 = none) :
    (openDecoder s).1 = false := by
  unfold inner0 at hn
  unfold openDecoder
  simp only [ht, hc, hd, hi, hos, bne_self_eq_false, Bool.false_eq_true, if_false, if_true]
  split
  · rfl
  · rename_i mac hs
    rw [hn] at hs; cases hs

theorem openDecoder_mac_some {s : St} {c : HObj} {d : Dec} {info : Nat × Nat × Nat}
    (ht : s.currType = .normal) (hc : s.curr = some c) (hos : c.h.osType = 0x6d)
    (hd : decoderFor (methodName c.h) = some d) (hi : decoderInfo (methodName c.h) = some info)
    {m0 : Mac (Except String d.σ)}
    (hn : (macInit d.total c.h (inner0 s c d info.2.2)).1 = some m0) :
    (openDecoder s).1 = true ∧
    MacAt (openDecoder s).2 d { inner := m0, length := c.h.length, blockSize := 0 } ∧
    (openDecoder s).2.curr = some c := by
  unfold inner0 at hn
  unfold openDecoder
  simp only [ht, hc, hd, hi, hos, bne_self_eq_false, Bool.false_eq_true, if_false, if_true]
  split
  · rename_i hs
    rw [hn] at hs; cases hs
  · rename_i mac hs
    rw [hn] at hs; cases hs
    exact ⟨rfl, ⟨none, rfl⟩, rfl⟩

theorem openDecoder_plainIn {s : St} {c : HObj} {d : Dec} {info : Nat × Nat × Nat}
    (ht : s.currType = .normal) (hc : s.curr = some c) (hos : c.h.osType ≠ 0x6d)
    (hd : decoderFor (methodName c.h) = some d) (hi : decoderInfo (methodName c.h) = some info) :
    (openDecoder s).1 = true ∧ PlainIn (openDecoder s).2 d (inner0 s c d info.2.2) ∧
    (openDecoder s).2.curr = some c := by
  unfold openDecoder
  simp only [ht, hc, hd, hi, hos, bne_self_eq_false, Bool.false_eq_true, if_false]
  exact ⟨trivial, ⟨none, none, rfl⟩, trivial⟩

/-! ## `do_decode`: open, read to the end, verdict -/

/-- the common body of `lha_reader_check` and of `lha_reader_extract` on a file -/
def decodeResult (s : St) (c : HObj) : (Bool × List UInt8) × St :=
  if (openDecoder s).1 = false then ((false, []), (openDecoder s).2)
  else ((verdict (decodeLoop (c.h.length + 2) (openDecoder s).2 []).2,
         (decodeLoop (c.h.length + 2) (openDecoder s).2 []).1),
        (decodeLoop (c.h.length + 2) (openDecoder s).2 []).2)

theorem check_eq_decodeResult {s : St} {c : HObj} (ht : s.currType = .normal)
    (hc : s.curr = some c) (hm : c.h.method ≠ "-lhd-".toUTF8.toList) :
    check s = decodeResult s c := by
  have hm' : (c.h.method == "-lhd-".toUTF8.toList) = false := by
    rw [beq_eq_false_iff_ne]; exact hm
  unfold check decodeResult
  simp only [ht, hc, hm', bne_self_eq_false, Bool.false_eq_true, if_false]
  cases (openDecoder s).1 <;> rfl

theorem extract_eq_decodeResult {s : St} {c : HObj} (ht : s.currType = .normal)
    (hc : s.curr = some c) (hm : c.h.method ≠ "-lhd-".toUTF8.toList) :
    extract s true = decodeResult s c := by
  have hm' : (c.h.method != "-lhd-".toUTF8.toList) = true := by
    rw [bne_iff_ne]; exact hm
  unfold extract decodeResult
  simp only [ht, hc, hm', if_true]
  cases (openDecoder s).1 <;> rfl

/-- what the pass-through hands to the caller for the current member, including the case where its
set-up fails (nothing) -/
def macBytes (h : Hdr) (full : List UInt8) : List UInt8 :=
  if 128 ≤ h.length ∧ full.length < 128 then [] else passBytes h full

/-- the verdict rule, as a Boolean -/
def good (h : Hdr) (full : List UInt8) : Bool :=
  full.length == h.length && (Crc.buf 0 full).toNat == h.crc

/-- **Mac members, everything at once.** -/
theorem decodeResult_mac {s : St} {c : HObj} {d : Dec} {info : Nat × Nat × Nat}
    (ht : s.currType = .normal) (hc : s.curr = some c) (hos : c.h.osType = 0x6d)
    (hd : decoderFor (methodName c.h) = some d) (hi : decoderInfo (methodName c.h) = some info) :
    (decodeResult s c).1 = (good c.h (innerBytes s c d), macBytes c.h (innerBytes s c d)) := by
  have hcases := macInit_cases d.total c.h (inner0 s c d info.2.2) (innerBytes s c d)
    (tail_inner0 s c d _) rfl rfl rfl
  rcases hcases with ⟨hL, hF, hn⟩ | ⟨hneg, m0, hs, hg, hout⟩
  · have ho := openDecoder_mac_none ht hc hos hd hi hn
    unfold decodeResult macBytes good
    rw [if_pos ho, if_pos ⟨hL, hF⟩]
    have : ((innerBytes s c d).length == c.h.length) = false := by
      rw [beq_eq_false_iff_ne]; omega
    rw [this]; rfl
  · obtain ⟨h1, h2, h3⟩ := openDecoder_mac_some ht hc hos hd hi hs
    obtain ⟨e1, e2⟩ := decodeLoop_macAt (c.h.length + 2) h2 []
    have hc' : (decodeLoop (c.h.length + 2) (openDecoder s).2 []).2.curr = some c := by
      rw [(decodeLoop_frame _ _ _).curr, h3]
    have hv := verdict_macAt e2 hc'
    obtain ⟨p1, p2, p3⟩ := drain_pass d.total m0 c.h.length 64 (by decide) hg []
    unfold decodeResult macBytes good
    rw [if_neg (by rw [h1]; decide), if_neg hneg, hv, e1, p1, p2, p3, hout]
    rfl

/-- **plain members, everything at once.** -/
theorem decodeResult_plain {s : St} {c : HObj} {d : Dec} {info : Nat × Nat × Nat}
    (ht : s.currType = .normal) (hc : s.curr = some c) (hos : c.h.osType ≠ 0x6d)
    (hd : decoderFor (methodName c.h) = some d) (hi : decoderInfo (methodName c.h) = some info) :
    (decodeResult s c).1 = (good c.h (innerBytes s c d), innerBytes s c d) := by
  obtain ⟨h1, h2, h3⟩ := openDecoder_plainIn ht hc hos hd hi
  obtain ⟨e1, e2⟩ := decodeLoop_plainIn (c.h.length + 2) h2 []
  have hc' : (decodeLoop (c.h.length + 2) (openDecoder s).2 []).2.curr = some c := by
    rw [(decodeLoop_frame _ _ _).curr, h3]
  have hv := verdict_plainIn e2 hc'
  have hT := tail_inner0 s c d info.2.2
  have hlen := innerBytes_length_le s c d
  have hd' := drain_all d.total 64 (by decide) (c.h.length + 2) (inner0 s c d info.2.2) []
    (by rw [hT]; omega)
  have hcons : Cons d.total (innerBytes s c d)
      (drain d.total 64 (c.h.length + 2) (inner0 s c d info.2.2) []).2 :=
    drain_inv d.total (Cons d.total (innerBytes s c d)) 64 (fun w hw => cons_read d.total 64 hw)
      _ _ [] (cons_start d.total hT rfl rfl)
  obtain ⟨q1, q2⟩ := cons_done d.total hcons hd'.2
  unfold decodeResult good
  rw [if_neg (by rw [h1]; decide), hv, e1, hd'.1, q1, q2, hT]
  rfl

/-! ## C07 -/

/-- **C07, Mac members.**  For a member with OS type 0x6d (not a directory, method known) the
verdict of `lha_reader_check` is good IFF the bytes the INNER decoder produced over the whole member
(MacBinary header, forks and padding alike) have the recorded length and the recorded CRC — whether
the envelope is recognised (the caller got one fork), not recognised (the caller got everything),
absent (member shorter than 128 bytes) or unreadable (set-up failed: verdict bad). -/
theorem check_iff_mac {s : St} {c : HObj} {d : Dec} {info : Nat × Nat × Nat}
    (ht : s.currType = .normal) (hc : s.curr = some c) (hos : c.h.osType = 0x6d)
    (hm : c.h.method ≠ "-lhd-".toUTF8.toList)
    (hd : decoderFor (methodName c.h) = some d) (hi : decoderInfo (methodName c.h) = some info) :
    (check s).1.1 = true ↔
      ((innerBytes s c d).length = c.h.length ∧ (Crc.buf 0 (innerBytes s c d)).toNat = c.h.crc) := by
  rw [check_eq_decodeResult ht hc hm, decodeResult_mac ht hc hos hd hi]
  simp [good]

/-- **C07, every OS type.**  The verdict of `lha_reader_check` is good IFF the decoded content of
the member has the recorded length and the recorded CRC-16. -/
theorem check_iff_inner {s : St} {c : HObj} {d : Dec} {info : Nat × Nat × Nat}
    (ht : s.currType = .normal) (hc : s.curr = some c)
    (hm : c.h.method ≠ "-lhd-".toUTF8.toList)
    (hd : decoderFor (methodName c.h) = some d) (hi : decoderInfo (methodName c.h) = some info) :
    (check s).1.1 = true ↔
      ((innerBytes s c d).length = c.h.length ∧ (Crc.buf 0 (innerBytes s c d)).toNat = c.h.crc) := by
  rw [check_eq_decodeResult ht hc hm]
  by_cases hos : c.h.osType = 0x6d
  · rw [decodeResult_mac ht hc hos hd hi]; simp [good]
  · rw [decodeResult_plain ht hc hos hd hi]; simp [good]

/-- the same for `lha_reader_extract` when the output file could be opened -/
theorem extract_iff_inner {s : St} {c : HObj} {d : Dec} {info : Nat × Nat × Nat}
    (ht : s.currType = .normal) (hc : s.curr = some c)
    (hm : c.h.method ≠ "-lhd-".toUTF8.toList)
    (hd : decoderFor (methodName c.h) = some d) (hi : decoderInfo (methodName c.h) = some info) :
    (extract s true).1.1 = true ↔
      ((innerBytes s c d).length = c.h.length ∧ (Crc.buf 0 (innerBytes s c d)).toNat = c.h.crc) := by
  rw [extract_eq_decodeResult ht hc hm]
  by_cases hos : c.h.osType = 0x6d
  · rw [decodeResult_mac ht hc hos hd hi]; simp [good]
  · rw [decodeResult_plain ht hc hos hd hi]; simp [good]

/-- a decoder that yields fewer bytes than recorded gives a bad verdict, Mac member or not -/
theorem truncation_bad_inner {s : St} {c : HObj} {d : Dec} {info : Nat × Nat × Nat}
    (ht : s.currType = .normal) (hc : s.curr = some c)
    (hm : c.h.method ≠ "-lhd-".toUTF8.toList)
    (hd : decoderFor (methodName c.h) = some d) (hi : decoderInfo (methodName c.h) = some info)
    (hlt : (innerBytes s c d).length < c.h.length) : (check s).1.1 = false := by
  cases hb : (check s).1.1 with
  | false => rfl
  | true => have := ((check_iff_inner ht hc hm hd hi).1 hb).1; omega

/-! ## C06: the bytes handed to the caller -/

/-- plain members: the caller gets the decoded content -/
theorem check_bytes_plain {s : St} {c : HObj} {d : Dec} {info : Nat × Nat × Nat}
    (ht : s.currType = .normal) (hc : s.curr = some c) (hos : c.h.osType ≠ 0x6d)
    (hm : c.h.method ≠ "-lhd-".toUTF8.toList)
    (hd : decoderFor (methodName c.h) = some d) (hi : decoderInfo (methodName c.h) = some info) :
    (check s).1.2 = innerBytes s c d := by
  rw [check_eq_decodeResult ht hc hm, decodeResult_plain ht hc hos hd hi]

/-- Mac members: the caller gets `macBytes` of the decoded content -/
theorem check_bytes_mac {s : St} {c : HObj} {d : Dec} {info : Nat × Nat × Nat}
    (ht : s.currType = .normal) (hc : s.curr = some c) (hos : c.h.osType = 0x6d)
    (hm : c.h.method ≠ "-lhd-".toUTF8.toList)
    (hd : decoderFor (methodName c.h) = some d) (hi : decoderInfo (methodName c.h) = some info) :
    (check s).1.2 = macBytes c.h (innerBytes s c d) := by
  rw [check_eq_decodeResult ht hc hm, decodeResult_mac ht hc hos hd hi]

theorem extract_bytes_mac {s : St} {c : HObj} {d : Dec} {info : Nat × Nat × Nat}
    (ht : s.currType = .normal) (hc : s.curr = some c) (hos : c.h.osType = 0x6d)
    (hm : c.h.method ≠ "-lhd-".toUTF8.toList)
    (hd : decoderFor (methodName c.h) = some d) (hi : decoderInfo (methodName c.h) = some info) :
    (extract s true).1.2 = macBytes c.h (innerBytes s c d) := by
  rw [extract_eq_decodeResult ht hc hm, decodeResult_mac ht hc hos hd hi]

/-! ### `macBytes` on a member laid out as header, data fork, resource fork, padding -/

/-- recognised envelope: the data fork if there is one, else the resource fork -/
theorem macBytes_strip (h : Hdr) (hdr data res pad : List UInt8) (hl : hdr.length = 128)
    (hL : 128 ≤ h.length) (hm : isMacBinaryHeader hdr h = true)
    (hdl : data.length = be32 hdr 0x53) (hrl : res.length = be32 hdr 0x57) :
    macBytes h (hdr ++ data ++ res ++ pad) = if 0 < be32 hdr 0x53 then data else res := by
  unfold macBytes
  rw [if_neg (by simp only [List.length_append]; omega),
    passBytes_strip h hdr data res pad hl hL hm hdl hrl]

/-- envelope not recognised (or the member is too short to have one): nothing is stripped -/
theorem macBytes_keep (h : Hdr) (full : List UInt8)
    (hm : h.length < 128 ∨ (128 ≤ full.length ∧ isMacBinaryHeader (full.take 128) h = false)) :
    macBytes h full = full := by
  unfold macBytes
  rcases hm with hm | ⟨h1, h2⟩
  · rw [if_neg (by omega), passBytes_keep h full (Or.inl hm)]
  · rw [if_neg (by omega), passBytes_keep h full (Or.inr h2)]

/-- **C06 `macbinary_strip`.**  A member with OS type 0x6d whose decoded content is a MacBinary
header that `is_macbinary_header` accepts for this member, then the data fork, the resource fork
and padding: reading the member to the end (`lha_reader_check`, the loop of `do_decode`; likewise
`lha_reader_extract`) hands the caller exactly the data fork — or, if the data fork is empty,
exactly the resource fork. -/
theorem macbinary_strip {s : St} {c : HObj} {d : Dec} {info : Nat × Nat × Nat}
    (ht : s.currType = .normal) (hc : s.curr = some c) (hos : c.h.osType = 0x6d)
    (hm : c.h.method ≠ "-lhd-".toUTF8.toList)
    (hd : decoderFor (methodName c.h) = some d) (hi : decoderInfo (methodName c.h) = some info)
    (hdr data res pad : List UInt8)
    (hfull : innerBytes s c d = hdr ++ data ++ res ++ pad) (hl : hdr.length = 128)
    (hmac : isMacBinaryHeader hdr c.h = true)
    (hdl : data.length = be32 hdr 0x53) (hrl : res.length = be32 hdr 0x57) :
    (check s).1.2 = (if 0 < be32 hdr 0x53 then data else res) ∧
    (extract s true).1.2 = (if 0 < be32 hdr 0x53 then data else res) := by
  have hL : 128 ≤ c.h.length := by
    have := innerBytes_length_le s c d
    rw [hfull] at this
    simp only [List.length_append] at this
    omega
  rw [check_bytes_mac ht hc hos hm hd hi, extract_bytes_mac ht hc hos hm hd hi, hfull,
    macBytes_strip c.h hdr data res pad hl hL hmac hdl hrl]
  exact ⟨rfl, rfl⟩

/-- **C06, no envelope.**  If the member is shorter than 128 bytes, or its first 128 decoded bytes
are not a MacBinary header for this member, the caller gets the decoded content unchanged. -/
theorem macbinary_keep {s : St} {c : HObj} {d : Dec} {info : Nat × Nat × Nat}
    (ht : s.currType = .normal) (hc : s.curr = some c) (hos : c.h.osType = 0x6d)
    (hm : c.h.method ≠ "-lhd-".toUTF8.toList)
    (hd : decoderFor (methodName c.h) = some d) (hi : decoderInfo (methodName c.h) = some info)
    (hno : c.h.length < 128 ∨ (128 ≤ (innerBytes s c d).length ∧
            isMacBinaryHeader ((innerBytes s c d).take 128) c.h = false)) :
    (check s).1.2 = innerBytes s c d ∧ (extract s true).1.2 = innerBytes s c d := by
  rw [check_bytes_mac ht hc hos hm hd hi, extract_bytes_mac ht hc hos hm hd hi,
    macBytes_keep c.h _ hno]
  exact ⟨rfl, rfl⟩

/-- **C06, envelope unreadable.**  A member that declares at least 128 bytes but decodes to fewer
(truncated or damaged): set-up of the pass-through fails, nothing is handed out, the verdict is
bad. -/
theorem macbinary_unreadable {s : St} {c : HObj} {d : Dec} {info : Nat × Nat × Nat}
    (ht : s.currType = .normal) (hc : s.curr = some c) (hos : c.h.osType = 0x6d)
    (hm : c.h.method ≠ "-lhd-".toUTF8.toList)
    (hd : decoderFor (methodName c.h) = some d) (hi : decoderInfo (methodName c.h) = some info)
    (hL : 128 ≤ c.h.length) (hF : (innerBytes s c d).length < 128) :
    (check s).1 = (false, []) := by
  rw [check_eq_decodeResult ht hc hm, decodeResult_mac ht hc hos hd hi]
  unfold macBytes good
  rw [if_pos ⟨hL, hF⟩]
  have : ((innerBytes s c d).length == c.h.length) = false := by
    rw [beq_eq_false_iff_ne]; omega
  rw [this]; rfl

/-! ## Non-vacuity: a concrete 256-byte MacLHA member with a 5-byte data fork

A stored (`-lh0-`) member `a`, OS type `'m'`: MacBinary header (data fork 5, resource fork 0,
modification time = the archive header's timestamp), the data fork `1 2 3 4 5`, 123 bytes of
padding.  Every hypothesis of the theorems above is discharged on it. -/

namespace Demo

def hdr128 : List UInt8 := demoHeader [0, 0, 0, 5] [0, 0, 0, 0]
def member : List UInt8 := hdr128 ++ [1, 2, 3, 4, 5] ++ List.replicate 123 0

/-- the archive header; `t` = timestamp, `crc` = recorded CRC -/
def hd (t crc : Nat) : Hdr := { demoHdr 256 t with crc := crc }

/-- the reader positioned on that member -/
def st (t crc : Nat) : St :=
  { basic := { stream := { kind := .seekable, data := member.toArray },
               curr := some ⟨0, hd t crc⟩, remaining := 256 },
    curr := some ⟨0, hd t crc⟩, currType := .normal, mktime := id }

#eval (member.length, (Crc.buf 0 member).toNat)     -- (256, 59969)
#eval (check (st 0 59969)).1                          -- (true, [1, 2, 3, 4, 5])
#eval (check (st 0 59968)).1                          -- (false, [1, 2, 3, 4, 5])
#eval ((check (st 99999 59969)).1.1, (check (st 99999 59969)).1.2 == member)   -- (true, true)
#eval (extract (st 0 59969) true).1                   -- (true, [1, 2, 3, 4, 5])

theorem h_name (t crc : Nat) : methodName (hd t crc) = "-lh0-" :=
  (by decide +kernel : methodName (demoHdr 0 0) = "-lh0-")
theorem h_notdir (t crc : Nat) : (hd t crc).method ≠ "-lhd-".toUTF8.toList :=
  (by decide +kernel : (demoHdr 0 0).method ≠ "-lhd-".toUTF8.toList)
theorem h_dec (t crc : Nat) : decoderFor (methodName (hd t crc)) = some Null.dec := by
  rw [h_name]; rfl
theorem h_info (t crc : Nat) : decoderInfo (methodName (hd t crc)) = some (16, 1024, 2048) := by
  rw [h_name]; decide +kernel

/-- a member that is physically complete is handed to the decoder as it stands -/
theorem memberSrc_whole (b : Basic) (hp : b.stream.pos = 0) (hs : b.stream.data.size = b.remaining)
    (he : b.eof = false) : memberSrc b = { data := b.stream.data } := by
  unfold memberSrc
  simp only [hp, hs, he, Nat.sub_zero, Nat.min_self, Nat.zero_add, Nat.sub_self]
  rw [← hs, Array.extract_size]

/-- the decoded content of the member is the member (stored method) -/
theorem inner (t crc : Nat) : innerBytes (st t crc) ⟨0, hd t crc⟩ Null.dec = member := by
  unfold innerBytes
  rw [memberSrc_whole (st t crc).basic rfl (by decide +kernel : member.toArray.size = 256) rfl]
  have := LzRoundTrip.null_round_trip member 256 0
  rw [List.take_of_length_le (by decide +kernel)] at this
  exact this

/-- recognised envelope: the caller gets the 5-byte data fork (`macbinary_strip` applies) -/
example : (check (st 0 59969)).1.2 = [1, 2, 3, 4, 5] ∧
    (extract (st 0 59969) true).1.2 = [1, 2, 3, 4, 5] := by
  have := macbinary_strip (s := st 0 59969) (c := ⟨0, hd 0 59969⟩) rfl rfl rfl (h_notdir _ _)
    (h_dec _ _) (h_info _ _) hdr128 [1, 2, 3, 4, 5] [] (List.replicate 123 0)
    (by rw [inner]; rfl) (by decide +kernel) (by decide +kernel) (by decide +kernel)
    (by decide +kernel)
  rw [this.1, this.2]; decide +kernel

/-- … and the verdict is about all 256 bytes: good with the CRC of the whole member … -/
example : (check (st 0 59969)).1.1 = true := by
  rw [check_iff_mac (s := st 0 59969) (c := ⟨0, hd 0 59969⟩) rfl rfl rfl (h_notdir _ _) (h_dec _ _)
    (h_info _ _), inner]
  decide +kernel

/-- … bad with any other -/
example : (check (st 0 59968)).1.1 = false := by
  cases hb : (check (st 0 59968)).1.1 with
  | false => rfl
  | true =>
    rw [check_iff_mac (s := st 0 59968) (c := ⟨0, hd 0 59968⟩) rfl rfl rfl (h_notdir _ _) (h_dec _ _)
      (h_info _ _), inner] at hb
    exact absurd hb.2 (by decide +kernel)

/-- envelope not recognised (timestamps more than 14 h apart): the caller gets all 256 bytes
(`macbinary_keep` applies) -/
example : (check (st 99999 59969)).1.2 = member := by
  have := (macbinary_keep (s := st 99999 59969) (c := ⟨0, hd 99999 59969⟩) rfl rfl rfl (h_notdir _ _)
    (h_dec _ _) (h_info _ _) (Or.inr (by rw [inner]; decide +kernel))).1
  rw [this, inner]

end Demo

end LhasaV.MacProps
