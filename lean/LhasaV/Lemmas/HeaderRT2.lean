import LhasaV.Lemmas.HeaderRT1
/-!
Round trip, layer 2: `decodeExt` on the encoded body of a typed extended header is `applyExt`
(with the CRC field of a common header zeroed in `raw`), and the chain walk `extLoop` over an
encoded chain folds `applyExt` over the typed headers; bytes after the chain terminator are never read.
-/
namespace LhasaV.HeaderRT
open LhasaV LhasaV.Header LhasaV.Spec.HeaderEnc

/-- `h` with another raw buffer -/
def setRaw (h : Hdr) (r : Bytes) : Hdr := { h with raw := r }

@[simp] theorem setRaw_raw (h : Hdr) (r : Bytes) : (setRaw h r).raw = r := rfl
@[simp] theorem setRaw_setRaw (h : Hdr) (r r' : Bytes) : setRaw (setRaw h r) r' = setRaw h r' := rfl
theorem setRaw_self (h : Hdr) : setRaw h h.raw = h := rfl
theorem setRaw_of_eq {h : Hdr} {r : Bytes} (e : h.raw = r) : setRaw h r = h := by subst e; rfl

theorem applyExt_raw (crc : Nat) (h : Hdr) (e : Ext) : (applyExt crc h e).raw = h.raw := by
  cases e <;> rfl

theorem applyExt_setRaw (crc : Nat) (h : Hdr) (r : Bytes) (e : Ext) :
    applyExt crc (setRaw h r) e = setRaw (applyExt crc h e) r := by
  cases e <;> rfl

theorem foldl_setRaw (crc : Nat) (es : List Ext) : ∀ (h : Hdr) (r : Bytes),
    es.foldl (applyExt crc) (setRaw h r) = setRaw (es.foldl (applyExt crc) h) r := by
  induction es with
  | nil => intro h r; rfl
  | cons e es ih => intro h r; rw [List.foldl_cons, List.foldl_cons, applyExt_setRaw, ih]

theorem body_len_crc (crc : Nat) (e : Ext) : (e.body crc).2.length = (e.body 0).2.length := by
  cases e <;> simp [Ext.body]

theorem body_type_crc (crc : Nat) (e : Ext) : (e.body crc).1 = (e.body 0).1 := by
  cases e <;> rfl

theorem body_type_lt (crc : Nat) {e : Ext} (hwf : e.wf = true) : (e.body crc).1 < 256 := by
  cases e <;> simp [Ext.body]
  simp [Ext.wf] at hwf
  exact hwf.1

/-! ### reads inside a segment given by its bytes -/

theorem rd_getD {s : String} {raw d rest : Bytes} {off i : Nat}
    (h : raw.drop off = d ++ rest) (hi : i < d.length) : rd s raw (off + i) = .ok (d.getD i 0) := by
  have : raw[off + i]? = some (d.getD i 0) := by
    rw [← List.getElem?_drop, h, List.getElem?_append_left hi, List.getD_eq_getElem?_getD,
      List.getElem?_eq_getElem hi]
    rfl
  unfold rd
  rw [this]

theorem rdU8_getD {s : String} {raw d rest : Bytes} {off i : Nat}
    (h : raw.drop off = d ++ rest) (hi : i < d.length) :
    rdU8 s raw (off + i) = .ok (d.getD i 0).toNat := by
  unfold rdU8; rw [rd_getD h hi]; rfl

theorem rdU16_getD {s : String} {raw d rest : Bytes} {off i : Nat}
    (h : raw.drop off = d ++ rest) (hi : i + 1 < d.length) :
    rdU16 s raw (off + i) = .ok ((d.getD i 0).toNat + 256 * (d.getD (i + 1) 0).toNat) := by
  unfold rdU16
  rw [rd_getD h (by omega), Nat.add_assoc, rd_getD h hi]; rfl

/-! ### one extended header -/

theorem lookup_vals : lookupExt 0 = some 2 ∧ lookupExt 1 = some 1 ∧ lookupExt 2 = some 1 ∧
    lookupExt 0x41 = some 24 ∧ lookupExt 0x50 = some 2 ∧ lookupExt 0x51 = some 4 ∧
    lookupExt 0x52 = some 1 ∧ lookupExt 0x53 = some 1 ∧ lookupExt 0x54 = some 4 ∧
    lookupExt 0xcc = some 12 := by decide

theorem zero2_enc {raw pre a rest : Bytes} {off : Nat} (hraw : raw = pre ++ (a ++ rest))
    (ha : a.length = 2) (hoff : off = pre.length) :
    zero2 raw off = .ok (pre ++ (le16 0 ++ rest)) := by
  subst hraw hoff
  unfold zero2
  rw [if_pos (by simp only [List.length_append]; omega), List.take_left' rfl,
    ← List.append_assoc pre a rest, List.drop_left' (by rw [List.length_append, ha]), List.append_assoc]
  rfl

macro "dx_simp" : tactic =>
  `(tactic| simp only [Gen.extCommon, Gen.extFilename, Gen.extPath, Gen.extWindowsTimestamps,
      Gen.extUnixPermission, Gen.extUnixUidGid, Gen.extUnixGroup, Gen.extUnixUser,
      Gen.extUnixTimestamp, Gen.extOs9, List.length_append, le16_length, le32_length, le64_length,
      Nat.reduceEqDiff, if_false, if_true])

theorem decodeExt_enc {crc : Nat} (hcrc : crc < 65536) {h : Hdr} {e : Ext} (hwf : e.wf = true)
    {pre post : Bytes} {off : Nat}
    (hraw : h.raw = pre ++ ((e.body crc).2 ++ post)) (hoff : off = pre.length) :
    decodeExt h (e.body crc).1 off (e.body crc).2.length =
      .ok (setRaw (applyExt crc h e) (pre ++ ((e.body 0).2 ++ post))) := by
  have hd : h.raw.drop off = (e.body crc).2 ++ post := by rw [hraw, hoff, List.drop_left' rfl]
  have hle : off ≤ h.raw.length := by rw [hraw, hoff, List.length_append]; omega
  cases e with
  | common extra =>
    simp only [Ext.body] at hraw hd ⊢
    rw [List.append_assoc] at hd hraw
    unfold decodeExt
    rw [lookup_vals.1]
    dx_simp
    rw [if_neg (by omega)]
    simp only [rdU16_drop hd hcrc, zero2_enc hraw rfl hoff, Res.ok_bind, Res.pure_eq]
    rw [List.append_assoc]
    rfl
  | filename s =>
    simp only [Ext.body] at hraw hd ⊢
    simp only [Ext.wf, decide_eq_true_eq] at hwf
    unfold decodeExt
    rw [lookup_vals.2.1]
    dx_simp
    rw [if_neg (by omega)]
    simp only [rdSlice_drop hd rfl hle, Res.ok_bind, Res.pure_eq]
    rw [← hraw]; rfl
  | path s =>
    simp only [Ext.body] at hraw hd ⊢
    simp only [Ext.wf, decide_eq_true_eq] at hwf
    unfold decodeExt
    rw [lookup_vals.2.2.1]
    dx_simp
    rw [if_neg (by omega)]
    simp only [rdSlice_drop hd rfl hle, Res.ok_bind, Res.pure_eq]
    rw [if_neg (by omega)]
    rw [← hraw]; rfl
  | winTime c m a tail =>
    simp only [Ext.body] at hraw hd ⊢
    simp only [Ext.wf, decide_eq_true_eq] at hwf
    simp only [List.append_assoc] at hd
    have hd8 := drop_app (m := off + 8) hd rfl
    have hd16 := drop_app (m := off + 16) hd8 rfl
    unfold decodeExt
    rw [lookup_vals.2.2.2.1]
    dx_simp
    rw [if_neg (by omega)]
    simp only [rdU64_drop hd hwf.1, rdU64_drop hd8 hwf.2.1, rdU64_drop hd16 hwf.2.2, Res.ok_bind, Res.pure_eq]
    rw [← hraw]; rfl
  | unixPerm p tail =>
    simp only [Ext.body] at hraw hd ⊢
    simp only [Ext.wf, decide_eq_true_eq] at hwf
    simp only [List.append_assoc] at hd
    unfold decodeExt
    rw [lookup_vals.2.2.2.2.1]
    dx_simp
    rw [if_neg (by omega)]
    simp only [rdU16_drop hd hwf, Res.ok_bind, Res.pure_eq]
    rw [← hraw]; rfl
  | uidGid g u tail =>
    simp only [Ext.body] at hraw hd ⊢
    simp only [Ext.wf, decide_eq_true_eq] at hwf
    simp only [List.append_assoc] at hd
    have hd2 := drop_app (m := off + 2) hd rfl
    unfold decodeExt
    rw [lookup_vals.2.2.2.2.2.1]
    dx_simp
    rw [if_neg (by omega)]
    simp only [rdU16_drop hd hwf.1, rdU16_drop hd2 hwf.2, Res.ok_bind, Res.pure_eq]
    rw [← hraw]; rfl
  | group s =>
    simp only [Ext.body] at hraw hd ⊢
    simp only [Ext.wf, decide_eq_true_eq] at hwf
    unfold decodeExt
    rw [lookup_vals.2.2.2.2.2.2.1]
    dx_simp
    rw [if_neg (by omega)]
    simp only [rdSlice_drop hd rfl hle, Res.ok_bind, Res.pure_eq]
    rw [← hraw]; rfl
  | user s =>
    simp only [Ext.body] at hraw hd ⊢
    simp only [Ext.wf, decide_eq_true_eq] at hwf
    unfold decodeExt
    rw [lookup_vals.2.2.2.2.2.2.2.1]
    dx_simp
    rw [if_neg (by omega)]
    simp only [rdSlice_drop hd rfl hle, Res.ok_bind, Res.pure_eq]
    rw [← hraw]; rfl
  | unixTime t tail =>
    simp only [Ext.body] at hraw hd ⊢
    simp only [Ext.wf, decide_eq_true_eq] at hwf
    simp only [List.append_assoc] at hd
    unfold decodeExt
    rw [lookup_vals.2.2.2.2.2.2.2.2.1]
    dx_simp
    rw [if_neg (by omega)]
    simp only [rdU32_drop hd hwf, Res.ok_bind, Res.pure_eq]
    rw [← hraw]; rfl
  | os9 d =>
    simp only [Ext.body] at hraw hd ⊢
    simp only [Ext.wf, decide_eq_true_eq] at hwf
    unfold decodeExt
    rw [lookup_vals.2.2.2.2.2.2.2.2.2]
    dx_simp
    rw [if_neg (by omega)]
    simp only [rdU16_getD hd (i := 7) (by omega), Res.ok_bind, Res.pure_eq]
    rw [← hraw]; rfl
  | other t d =>
    simp only [Ext.body] at hraw hd ⊢
    simp only [Ext.wf, Bool.and_eq_true, decide_eq_true_eq] at hwf
    have hk := HeaderLayout.layout_matches_source.1 t hwf.1
    unfold decodeExt
    cases hl : lookupExt t with
    | none => rw [← hraw]; rfl
    | some m =>
      rw [hk, hl] at hwf
      simp only [decide_eq_true_eq] at hwf
      simp only [if_pos hwf.2]
      rw [← hraw]; rfl

/-! ### the chain walk -/

theorem rdN_drop {s : String} {fs : Nat} (hfs : fs = 2 ∨ fs = 4) {raw rest : Bytes} {off v : Nat}
    (h : raw.drop off = leN fs v ++ rest) (hv : v < 2 ^ (8 * fs)) :
    (if fs = 4 then rdU32 s raw off else rdU16 s raw off) = .ok v := by
  rcases hfs with h2 | h4
  · subst h2
    rw [if_neg (by omega)]
    exact rdU16_drop h (by simpa using hv)
  · subst h4
    rw [if_pos rfl]
    exact rdU32_drop h (by simpa using hv)

theorem chain_cons (fs crc : Nat) (e : Ext) (es : List Ext) :
    chain fs crc (e :: es) = [UInt8.ofNat (e.body crc).1] ++ ((e.body crc).2 ++
      (leN fs (firstSize fs es) ++ chain fs crc es)) := by
  cases es <;> simp [chain, firstSize]

theorem chainLen_cons (fs : Nat) (e : Ext) (es : List Ext) :
    chainLen fs (e :: es) = extSize fs e + chainLen fs es := by
  simp [chainLen]

theorem chain_length {fs : Nat} (hfs : fs = 2 ∨ fs = 4) (crc : Nat) (es : List Ext) :
    (chain fs crc es).length = chainLen fs es := by
  induction es with
  | nil => rfl
  | cons e es ih =>
    rw [chain_cons, chainLen_cons]
    simp only [List.length_append, leN_length hfs, ih, extSize, body_len_crc crc e, List.length_cons,
      List.length_nil]
    omega

theorem extLoop_chain {fs : Nat} (hfs : fs = 2 ∨ fs = 4) {crc : Nat} (hcrc : crc < 65536) (post : Bytes) :
    ∀ (es : List Ext) (h : Hdr) (pre : Bytes) (avail : Nat),
    (∀ e ∈ es, e.wf = true) → (∀ e ∈ es, extSize fs e < 2 ^ (8 * fs)) →
    h.raw = pre ++ (leN fs (firstSize fs es) ++ (chain fs crc es ++ post)) →
    chainLen fs es ≤ avail →
    extLoop fs h pre.length avail =
      .ok (setRaw (es.foldl (applyExt crc) h) (pre ++ (leN fs (firstSize fs es) ++ (chain fs 0 es ++ post)))) := by
  intro es
  induction es with
  | nil =>
    intro h pre avail _ _ hraw _
    -- the terminating zero size is read and the loop returns: `post` is never looked at
    have hd : h.raw.drop pre.length = leN fs 0 ++ post := by rw [hraw, List.drop_left' rfl]; rfl
    rw [extLoop, if_pos (by rw [hraw]; simp only [List.length_append, leN_length hfs]; omega),
      rdN_drop hfs hd (Nat.pow_pos (by omega))]
    simp only [Res.ok_bind, if_true]
    rw [List.foldl_nil, setRaw_of_eq]
    exact hraw
  | cons e es ih =>
    intro h pre avail hwf hsz hraw hav
    have hwe := hwf e (List.mem_cons_self ..)
    have hse := hsz e (List.mem_cons_self ..)
    rw [chainLen_cons] at hav
    have hlen : extSize fs e = (e.body crc).2.length + 1 + fs := by rw [extSize, body_len_crc crc e]
    have hd : h.raw.drop pre.length = leN fs (extSize fs e) ++ (chain fs crc (e :: es) ++ post) := by
      rw [hraw, List.drop_left' rfl]; rfl
    have hd2 := drop_app (m := pre.length + fs) hd (by rw [leN_length hfs])
    rw [chain_cons] at hd2
    rw [extLoop, if_pos (by rw [hraw]; simp only [List.length_append, leN_length hfs]; omega),
      rdN_drop hfs hd hse]
    simp only [Res.ok_bind]
    rw [if_neg (by omega), if_neg (by omega), rdU8_drop (rest := _ ++ post) hd2 (body_type_lt crc hwe)]
    simp only [Res.ok_bind]
    have hraw' : h.raw = (pre ++ (leN fs (extSize fs e) ++ [UInt8.ofNat (e.body crc).1])) ++
        ((e.body crc).2 ++ (leN fs (firstSize fs es) ++ (chain fs crc es ++ post))) := by
      rw [hraw, chain_cons]; simp only [firstSize, List.append_assoc]
    have e1 : extSize fs e - fs - 1 = (e.body crc).2.length := by omega
    rw [e1, decodeExt_enc hcrc hwe hraw' (by simp only [List.length_append, leN_length hfs, List.length_cons, List.length_nil]; omega)]
    simp only [Res.ok_bind]
    have e2 : pre.length + extSize fs e =
        ((pre ++ (leN fs (extSize fs e) ++ [UInt8.ofNat (e.body crc).1])) ++ (e.body 0).2).length := by
      simp only [List.length_append, leN_length hfs, List.length_cons, List.length_nil, extSize]; omega
    rw [e2, ih _ _ _ (fun x hx => hwf x (List.mem_cons_of_mem _ hx))
      (fun x hx => hsz x (List.mem_cons_of_mem _ hx)) (by simp only [setRaw_raw, List.append_assoc])
      (by omega)]
    rw [foldl_setRaw, setRaw_setRaw, List.foldl_cons, chain_cons, body_type_crc crc e]
    simp only [firstSize, List.append_assoc]

/-- the chain walk over a header whose raw bytes continue with `post` after the chain terminator
(levels 2 and 3: the trail): the loop stops at the zero size, `post` only enlarges `available_length` -/
theorem decodeExtendedHeaders_chain_trail {fs : Nat} (hfs : fs = 2 ∨ fs = 4) {crc : Nat} (hcrc : crc < 65536)
    (es : List Ext) (post : Bytes) (h : Hdr) (pre : Bytes) {off : Nat} (hoff : off = pre.length)
    (hlv : (if h.level = 3 then 4 else 2) = fs)
    (hwf : ∀ e ∈ es, e.wf = true) (hsz : ∀ e ∈ es, extSize fs e < 2 ^ (8 * fs))
    (hraw : h.raw = pre ++ (leN fs (firstSize fs es) ++ (chain fs crc es ++ post))) :
    decodeExtendedHeaders h off =
      .ok (setRaw (es.foldl (applyExt crc) h) (pre ++ (leN fs (firstSize fs es) ++ (chain fs 0 es ++ post)))) := by
  subst hoff
  have hl : h.raw.length = pre.length + fs + chainLen fs es + post.length := by
    rw [hraw]; simp only [List.length_append, leN_length hfs, chain_length hfs]; omega
  unfold decodeExtendedHeaders
  simp only [hlv]
  rw [if_neg (by omega)]
  exact extLoop_chain hfs hcrc post es h pre _ hwf hsz hraw (by omega)

theorem decodeExtendedHeaders_chain {fs : Nat} (hfs : fs = 2 ∨ fs = 4) {crc : Nat} (hcrc : crc < 65536)
    (es : List Ext) (h : Hdr) (pre : Bytes) {off : Nat} (hoff : off = pre.length)
    (hlv : (if h.level = 3 then 4 else 2) = fs)
    (hwf : ∀ e ∈ es, e.wf = true) (hsz : ∀ e ∈ es, extSize fs e < 2 ^ (8 * fs))
    (hraw : h.raw = pre ++ (leN fs (firstSize fs es) ++ chain fs crc es)) :
    decodeExtendedHeaders h off =
      .ok (setRaw (es.foldl (applyExt crc) h) (pre ++ (leN fs (firstSize fs es) ++ chain fs 0 es))) := by
  have := decodeExtendedHeaders_chain_trail hfs hcrc es [] h pre hoff hlv hwf hsz
    (by rw [List.append_nil]; exact hraw)
  rw [List.append_nil] at this
  exact this

theorem extSize_le_chainLen (fs : Nat) (es : List Ext) : ∀ e ∈ es, extSize fs e ≤ chainLen fs es := by
  induction es with
  | nil => intro e he; cases he
  | cons x xs ih =>
    intro e he
    rw [chainLen_cons]
    rcases List.mem_cons.mp he with rfl | h
    · omega
    · have := ih e h; omega

end LhasaV.HeaderRT
