import LhasaV.Lemmas.ArchivePack4
/-!
# C06, end to end for the compressed methods: packers built from the format specifications

`ArchiveOf.extract_archiveWith` (C06 `extract_reproduces_tree_packed`) holds for every packer `pk`
with `Packs pk es`.  Here the packers are built from the format SPECIFICATIONS — the encoders
`Spec.LhNewEnc.serialise` (C01), `Spec.Lzhuf.encode` (C02), `Spec.PmEnc.pm1Serialise` /
`pm2Serialise` (C04), `Spec.Lz77.serialiseLzs` / `serialiseLz5` (C03) — applied to a description
of the data as literals, and `PackOk` is proved from the decoder round-trip theorems:

| method | packer | description | size condition (`Method.fits`) |
|---|---|---|---|
| `-lh0-` | `stored` / `storedL1` | the bytes | `data.length < 4294901760` |
| `-lzs-`, `-lz5-` | `lzsLit`, `lz5Lit` | literals | serialised length `< 4294901760` |
| `-lh1-` | `lh1Lit` | LZHUF on literals | encoded length `< 4294901760` |
| `-lh4-` … `-lhx-` | `lh4Lit` … `lhxLit` | blocks of ≤ 65535 literals, 8-bit code | `data.length < 4294000000` |
| `-pm1-` | `pm1Lit` | blocks of 216 literals (+ closing copy) | `data.length < 3100000000` |
| `-pm2-` | `pm2Lit` | literals, 3-bit class code | `data.length < 3400000000` |

`extract_archive_method` is the one theorem over all eleven method names and both header levels;
`extract_archive_lh5` etc. are its instances.  `-lk7-` is out of reach of `archiveWith`
(`lk7_no_packer`, ArchivePack2).  Non-vacuity: `packTree` (a file of nine bytes, six distinct) —
the theorem instance with every hypothesis discharged by kernel evaluation
(`packTree_extracts`), and, separately and labelled as EVALUATION, `#guard`s that run the
executable model on the archive bytes.
-/
set_option linter.unusedSimpArgs false
namespace LhasaV.ArchivePack
open LhasaV LhasaV.Header LhasaV.Extract LhasaV.GlobFs LhasaV.Contain LhasaV.ExtractTree
open LhasaV.ExtractTree.Sample LhasaV.ArchiveOf LhasaV.Spec.Lz77

/-! ## a size condition on the files of a tree -/

/-- the condition `P` on the data of a file entry -/
def EntrySat (P : Bytes → Prop) : Entry → Prop
  | .file _ data _ _ => P data
  | _ => True

instance (P : Bytes → Prop) [DecidablePred P] (e : Entry) : Decidable (EntrySat P e) := by
  cases e with
  | dir _ _ _ => exact isTrue trivial
  | file _ data _ _ => exact inferInstanceAs (Decidable (P data))
  | link _ _ => exact isTrue trivial

/-- every file of the tree satisfies `P` -/
def FilesSat (P : Bytes → Prop) (es : List Entry) : Prop := ∀ e ∈ es, EntrySat P e

instance (P : Bytes → Prop) [DecidablePred P] (es : List Entry) : Decidable (FilesSat P es) :=
  inferInstanceAs (Decidable (∀ e ∈ es, EntrySat P e))

theorem packs_of (pk : Packer) (P : Bytes → Prop) (h : ∀ data, P data → PackOk pk data)
    (es : List Entry) (hs : FilesSat P es) : Packs pk es := by
  intro e he
  have := hs e he
  cases e with
  | dir _ _ _ => trivial
  | link _ _ => trivial
  | file p data perms t => exact h data this

/-! ## the methods -/

/-- the method names with a packer -/
inductive Method where
  | lh0 | lzs | lz5 | lh1 | lh4 | lh5 | lh6 | lh7 | lhx | pm1 | pm2
deriving Repr, DecidableEq

def Method.all : List Method := [.lh0, .lzs, .lz5, .lh1, .lh4, .lh5, .lh6, .lh7, .lhx, .pm1, .pm2]

theorem Method.mem_all (m : Method) : m ∈ Method.all := by cases m <;> decide

/-- the method string written into the headers -/
def Method.bytes : Method → Bytes
  | .lh0 => Sample.lh0 | .lzs => lzsM | .lz5 => lz5M | .lh1 => lh1M | .lh4 => lh4M | .lh5 => lh5M
  | .lh6 => lh6M | .lh7 => lh7M | .lhx => lhxM | .pm1 => pm1M | .pm2 => pm2M

def Method.name : Method → String
  | .lh0 => "-lh0-" | .lzs => "-lzs-" | .lz5 => "-lz5-" | .lh1 => "-lh1-" | .lh4 => "-lh4-"
  | .lh5 => "-lh5-" | .lh6 => "-lh6-" | .lh7 => "-lh7-" | .lhx => "-lhx-" | .pm1 => "-pm1-"
  | .pm2 => "-pm2-"

/-- the packer of a method: the specification's encoder on the all-literals description; headers
of level 1 (`l1 = true`) or 2 -/
def Method.packer : Method → Bool → Packer
  | .lh0, l1 => if l1 then storedL1 else stored
  | .lzs, l1 => lzsLit l1 | .lz5, l1 => lz5Lit l1 | .lh1, l1 => lh1Lit l1
  | .lh4, l1 => lh4Lit l1 | .lh5, l1 => lh5Lit l1 | .lh6, l1 => lh6Lit l1 | .lh7, l1 => lh7Lit l1
  | .lhx, l1 => lhxLit l1 | .pm1, l1 => pm1Lit l1 | .pm2, l1 => pm2Lit l1

/-- the (decidable) size condition on a file's data -/
def Method.fits : Method → Bytes → Prop
  | .lh0, data => data.length < 4294901760
  | .lzs, data => (serialiseLzs (lits data)).length < 4294901760
  | .lz5, data => (serialiseLz5 (lits data)).length < 4294901760
  | .lh1, data => (Spec.Lzhuf.encode (wlits data)).length < 4294901760
  | .lh4, data | .lh5, data | .lh6, data | .lh7, data | .lhx, data => data.length < 4294000000
  | .pm1, data => data.length < 3100000000
  | .pm2, data => data.length < 3400000000

instance (m : Method) : DecidablePred m.fits := fun data => by
  cases m <;> exact inferInstanceAs (Decidable (_ < _))

/-- the packer writes the method's name (and the decoder table serves it) -/
theorem Method.packer_name (m : Method) (l1 : Bool) (data : Bytes) :
    ((m.packer l1).pack data).1 = m.bytes ∧ mname m.bytes = m.name ∧ (decoderFor m.name).isSome = true := by
  cases m <;> cases l1 <;> exact ⟨rfl, by decide +kernel, rfl⟩

theorem Method.packer_level (m : Method) (l1 : Bool) : (m.packer l1).level1 = l1 := by
  cases m <;> cases l1 <;> rfl

/-- **every method's packer is sound**: the library decodes the member back to the data -/
theorem packOk_method (m : Method) (l1 : Bool) (data : Bytes) (h : m.fits data) : PackOk (m.packer l1) data := by
  cases m with
  | lh0 =>
    cases l1 with
    | false => exact packOk_stored data (Nat.lt_trans h (by decide))
    | true => exact packOk_storedL1 data h
  | lzs => exact packOk_lzsLit l1 data h
  | lz5 => exact packOk_lz5Lit l1 data h
  | lh1 => exact packOk_lh1Lit l1 data h
  | lh4 => exact packOk_lh4Lit l1 data h
  | lh5 => exact packOk_lh5Lit l1 data h
  | lh6 => exact packOk_lh6Lit l1 data h
  | lh7 => exact packOk_lh7Lit l1 data h
  | lhx => exact packOk_lhxLit l1 data h
  | pm1 => exact packOk_pm1Lit l1 data h
  | pm2 => exact packOk_pm2Lit l1 data h

/-! ## end to end -/

/-- what `lha x` of `archive` into the empty directory of `fs` leaves, for the tree `es` -/
def Reproduces (archive : Array UInt8) (es : List Entry) (o : Opts) (fs : Fs.St) (answers : Bytes) : Prop :=
  (run archive o fs answers).result = true ∧
  (∀ p, p ≠ [] → Fs.lookup (run archive o fs answers).fs (fs.cwd ++ p) = treeOf fs.now fs.umask es p) ∧
  (es ≠ [] → fs.cwd ≠ [] → ∃ m, Fs.lookup (run archive o fs answers).fs fs.cwd = some (.dir m fs.now)) ∧
  (∀ x, ¬ fs.cwd <+: x → Fs.lookup (run archive o fs answers).fs x = Fs.lookup fs x)

/-- **Extraction reproduces every encodable tree, for every method with a decoder round trip.**
For each of the eleven method names, headers of level 1 or 2, and EVERY well-formed, encodable
tree `es` whose files meet the method's size condition: `lha x` on the bytes
`archiveWith (m.packer l1) es` — headers written by the C05 header encoder, file data by the
method's specification encoder — into an empty directory, as root or ordinary user, succeeds and
leaves exactly the tree (contents, modes, times, link targets, directory metadata); nothing
outside changes. -/
theorem extract_archive_method (m : Method) (l1 : Bool) (es : List Entry) (hwf : WellFormed es)
    (henc : Encodable es) (hfit : FilesSat m.fits es) (o : Opts) (fs : Fs.St) (answers : Bytes)
    (ho : OptsOk o) (hfs : EmptyDir fs) (ha : Access fs) :
    Reproduces (archiveWith (m.packer l1) es) es o fs answers :=
  extract_archiveWith (m.packer l1) es hwf henc
    (packs_of _ m.fits (packOk_method m l1) es hfit) o fs answers ho hfs ha

/-- the same, quantified over the list of methods -/
theorem extract_archive_all_methods :
    ∀ m ∈ Method.all, ∀ (l1 : Bool) (es : List Entry), WellFormed es → Encodable es → FilesSat m.fits es →
      ∀ (o : Opts) (fs : Fs.St) (answers : Bytes), OptsOk o → EmptyDir fs → Access fs →
        Reproduces (archiveWith (m.packer l1) es) es o fs answers :=
  fun m _ l1 es hwf henc hfit o fs answers ho hfs ha =>
    extract_archive_method m l1 es hwf henc hfit o fs answers ho hfs ha

/-! ### per method (the size condition spelled out) -/

section PerMethod
variable (l1 : Bool) (es : List Entry) (hwf : WellFormed es) (henc : Encodable es)
  (o : Opts) (fs : Fs.St) (answers : Bytes) (ho : OptsOk o) (hfs : EmptyDir fs) (ha : Access fs)
include hwf henc ho hfs ha

theorem extract_archive_lh1
    (hfit : FilesSat (fun d => (Spec.Lzhuf.encode (wlits d)).length < 4294901760) es) :
    Reproduces (archiveWith (lh1Lit l1) es) es o fs answers :=
  extract_archive_method .lh1 l1 es hwf henc hfit o fs answers ho hfs ha

theorem extract_archive_lh4 (hfit : FilesSat (fun d => d.length < 4294000000) es) :
    Reproduces (archiveWith (lh4Lit l1) es) es o fs answers :=
  extract_archive_method .lh4 l1 es hwf henc hfit o fs answers ho hfs ha

theorem extract_archive_lh5 (hfit : FilesSat (fun d => d.length < 4294000000) es) :
    Reproduces (archiveWith (lh5Lit l1) es) es o fs answers :=
  extract_archive_method .lh5 l1 es hwf henc hfit o fs answers ho hfs ha

theorem extract_archive_lh6 (hfit : FilesSat (fun d => d.length < 4294000000) es) :
    Reproduces (archiveWith (lh6Lit l1) es) es o fs answers :=
  extract_archive_method .lh6 l1 es hwf henc hfit o fs answers ho hfs ha

theorem extract_archive_lh7 (hfit : FilesSat (fun d => d.length < 4294000000) es) :
    Reproduces (archiveWith (lh7Lit l1) es) es o fs answers :=
  extract_archive_method .lh7 l1 es hwf henc hfit o fs answers ho hfs ha

theorem extract_archive_lhx (hfit : FilesSat (fun d => d.length < 4294000000) es) :
    Reproduces (archiveWith (lhxLit l1) es) es o fs answers :=
  extract_archive_method .lhx l1 es hwf henc hfit o fs answers ho hfs ha

theorem extract_archive_pm1 (hfit : FilesSat (fun d => d.length < 3100000000) es) :
    Reproduces (archiveWith (pm1Lit l1) es) es o fs answers :=
  extract_archive_method .pm1 l1 es hwf henc hfit o fs answers ho hfs ha

theorem extract_archive_pm2 (hfit : FilesSat (fun d => d.length < 3400000000) es) :
    Reproduces (archiveWith (pm2Lit l1) es) es o fs answers :=
  extract_archive_method .pm2 l1 es hwf henc hfit o fs answers ho hfs ha

end PerMethod

/-! ## non-vacuity -/

/-- the file contents of the sample: nine bytes, six distinct, a NUL and a 0xFF among them -/
def packData : Bytes := [0x61, 0x62, 0x63, 0x61, 0x62, 0x63, 0x7a, 0x00, 0xff]

/-- `d/` (0755, time 500), `d/f` = `packData` (0644, time 600), `d/l -> f`, `e` (empty, no
recorded mode or time) -/
def packTree : List Entry :=
  [ .dir [[0x64]] (some 0o40755) 500,
    .file [[0x64], [0x66]] packData (some 0o100644) 600,
    .link [[0x64], [0x6c]] [0x66],
    .file [[0x65]] [] none 0 ]

theorem packTree_wf : WellFormed packTree := by decide
theorem packTree_enc : Encodable packTree := by decide

/-- the size condition of every method holds for the sample (for `-lzs-`, `-lz5-` the kernel runs
the specification encoders; for `-lh1-` by the length bound `lh1_fits_of_length` — the kernel
cannot run the LZHUF transcription) -/
theorem packTree_fits (m : Method) : FilesSat m.fits packTree := by
  cases m
  case lh1 =>
    intro e he
    simp only [packTree, List.mem_cons, List.not_mem_nil, or_false] at he
    rcases he with rfl | rfl | rfl | rfl
    all_goals first | exact True.intro | exact lh1_fits_of_length _ (by decide)
  all_goals decide +kernel

/-- what the theorem promises for `packTree` in `sampleFs` (an ordinary user, umask 022) -/
def PackOutcome (s : Extract.St) : Prop :=
  s.result = true ∧
  Fs.lookup s.fs [[0x72], [0x64]] = some (.dir 0o755 500) ∧
  Fs.lookup s.fs [[0x72], [0x64], [0x66]] = some (.file packData 0o644 600) ∧
  Fs.lookup s.fs [[0x72], [0x64], [0x6c]] = some (.link [0x66]) ∧
  Fs.lookup s.fs [[0x72], [0x65]] = some (.file [] 0o600 sampleFs.now) ∧
  Fs.lookup s.fs [[0x72], [0x64], [0x71]] = none

/-- **`lha x` on the bytes of `archiveWith (m.packer l1) packTree`, every method, both header
levels**: every hypothesis of `extract_archive_method` is discharged (`WellFormed`, `Encodable`,
the size conditions: by kernel evaluation); the run succeeds, `d/f` has its nine bytes, mode and
time, the directory its recorded mode and time although written into, the link its target -/
theorem packTree_extracts (m : Method) (l1 : Bool) :
    PackOutcome (run (archiveWith (m.packer l1) packTree) {} sampleFs []) := by
  obtain ⟨h1, h, _⟩ := extract_archive_method m l1 packTree packTree_wf packTree_enc (packTree_fits m) {}
    sampleFs [] ⟨rfl, rfl, rfl⟩ sampleFs_empty (access_user_022 sampleFs rfl)
  have hc : ∀ p : Fs.Path, sampleFs.cwd ++ p = [0x72] :: p := fun _ => rfl
  refine ⟨h1, ?_, ?_, ?_, ?_, ?_⟩
  all_goals (rw [← hc, h _ (by decide)]; decide)

/-- the size conditions are genuine conditions on the length -/
example (d : Bytes) : Method.fits .lh5 d ↔ d.length < 4294000000 := Iff.rfl

/-! ### EVALUATION (not proof): the executable model run on the archive bytes

`#guard` compiles and runs `Extract.run` — header parser, reader, the decoder MODELS of
`lh_new_decoder.c`, `lh1_decoder.c`, `pm1/pm2_decoder.c`, the file system — on the bytes
`archiveWith pk packTree`, and compares every path of the tree (and a path not in it) with
`treeOf`.  Nothing of this enters the theorems above; it shows that the objects they speak
about are the executable ones and what the archives look like. -/

/-- run the model and compare with `treeOf` -/
def packCheck (pk : Packer) : Bool :=
  let s := run (archiveWith pk packTree) {} sampleFs []
  s.result &&
  [[[0x64]], [[0x64], [0x66]], [[0x64], [0x6c]], [[0x65]], [[0x64], [0x71]], [[0x66]]].all
    (fun p => decide (Fs.lookup s.fs (sampleFs.cwd ++ p) = treeOf sampleFs.now sampleFs.umask packTree p))

#guard Method.all.all (fun m => packCheck (m.packer false) && packCheck (m.packer true))

-- the compressed bytes differ from format to format and from the data (`-lh4-` = `-lh5-`;
-- `-lh6-`, `-lh7-`, `-lhx-` share the 5-bit offset-table field, so their literal streams coincide)
#guard (Method.all.map (fun m => ((m.packer false).pack packData).2)).eraseDups.length = 8

-- compressed sizes of the nine bytes (e.g. `-lh5-`: 43 header bits + 9 × 8 bits = 15 bytes)
#guard Method.all.map (fun m => ((m.packer false).pack packData).2.length) = [9, 11, 11, 10, 15, 15, 15, 15, 15, 12, 11]

-- the method string really is in the archive: level-2 header, offset 2
#guard ((archiveWith (pm2Lit) packTree).toList.drop 2).take 5 = lhdM
#guard (((archiveWith (pm2Lit) [.file [[0x65]] packData none 0]).toList.drop 2).take 5) = pm2M

end LhasaV.ArchivePack
