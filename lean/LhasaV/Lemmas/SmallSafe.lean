import LhasaV.Model.Lzs
import LhasaV.Lemmas.Safe
import LhasaV.Lemmas.BitsWf
import LhasaV.Lemmas.TreeSafe
import LhasaV.Lemmas.SafeExtra
/-!
C09 for the small decoders: `lzs_decoder.c`, `lz5_decoder.c`, `null_decoder.c` never fault,
for any input bytes and any chunking of the input callback.
-/
set_option linter.unusedSimpArgs false
namespace LhasaV
open LhasaV.Res

/-! ## -lzs- -/
namespace Lzs

def Inv (s : St) : Prop :=
  s.bits.buf < 4294967296 ∧ s.ring.size = Gen.lzsRingCap ∧ s.pos < Gen.lzsRingSize

theorem init_inv (src : Src) : Inv (init src) := by
  refine ⟨by simp [init], by simp [init], by simp [init, Gen.lzsRingSize, Gen.lzsStartOffset]⟩

theorem read_safe (s : St) (h : Inv s) :
    Safe (read s) (fun r => Inv r.2 ∧ r.1.length ≤ Gen.lzsMaxRead) := by
  obtain ⟨hb, hsz, hpos⟩ := h
  have hb1 := Bits.readBit_wf s.bits hb
  unfold read
  simp only
  cases hp : s.bits.readBit.1 with
  | none => exact safe_ok ⟨⟨hb1, hsz, hpos⟩, by simp⟩
  | some bit =>
    simp only
    by_cases hbit : bit = 0
    rotate_left
    · simp only [hbit, ne_eq, not_true_eq_false, not_false_eq_true, ↓reduceIte]
      have hb2 := Bits.readBits_wf s.bits.readBit.2 8 hb1
      cases hq : (s.bits.readBit.2.readBits 8).1 with
      | none => exact safe_ok ⟨⟨hb2, hsz, hpos⟩, by simp⟩
      | some b =>
        simp only
        have hp' : s.pos < s.ring.size := by rw [hsz]; exact hpos
        simp only [hp', if_true]
        refine safe_ok ⟨⟨hb2, by simpa using hsz, Nat.mod_lt _ (by decide)⟩, by simp [Gen.lzsMaxRead]⟩
    · simp only [hbit, ne_eq, not_true_eq_false, not_false_eq_true, ↓reduceIte]
      have hb2 := Bits.readBits_wf s.bits.readBit.2 11 hb1
      have hb3 := Bits.readBits_wf _ 4 hb2
      cases hq : (s.bits.readBit.2.readBits 11).1 with
      | none => exact safe_ok ⟨⟨hb3, hsz, hpos⟩, by simp⟩
      | some pos =>
        cases hq2 : ((s.bits.readBit.2.readBits 11).2.readBits 4).1 with
        | none => exact safe_ok ⟨⟨hb3, hsz, hpos⟩, by simp⟩
        | some len =>
          simp only
          have hlen : len < 2 ^ 4 := Bits.readBits_lt _ _ hb2 _ hq2
          refine safe_bind (Ring.copyLoop_safe Gen.lzsRingSize _ pos s.ring s.pos [] hsz hpos) ?_
          intro r hr
          refine safe_ok ⟨⟨hb3, hr.1, hr.2.1⟩, ?_⟩
          simp only [List.length_reverse, hr.2.2, Gen.lzsThreshold, Gen.lzsMaxRead, List.length_nil]
          omega

theorem read_no_fault (s : St) (h : Inv s) : ∀ w, read s ≠ .fault w := (read_safe s h).1

theorem read_inv (s : St) (h : Inv s) (out : List UInt8) (s' : St) (hr : read s = .ok (out, s')) :
    Inv s' := ((read_safe s h).2 _ hr).1

theorem read_len (s : St) (h : Inv s) (out : List UInt8) (s' : St) (hr : read s = .ok (out, s')) :
    out.length ≤ Gen.lzsMaxRead := ((read_safe s h).2 _ hr).2

/-- after any number of successful reads, for ANY input bytes and chunking, the next read of
the -lzs- decoder performs no invalid memory access -/
theorem run_no_fault (src : Src) (n : Nat) (s : St) (hs : Dec.Reach dec src n s) :
    ∀ w, read s ≠ .fault w :=
  read_no_fault s (Dec.reach_inv dec Inv init_inv read_inv src n s hs)

end Lzs

/-! ## -lz5- -/
namespace Lz5

def Inv (s : St) : Prop := s.ring.size = Gen.lz5RingCap ∧ s.pos < Gen.lz5RingSize

theorem foldl_size {α β : Type} (g : β → Array α → Array α) (k : Nat)
    (hg : ∀ i a, (g i a).size = a.size + k) (l : List β) (a : Array α) :
    (l.foldl (fun a i => g i a) a).size = a.size + l.length * k := by
  induction l generalizing a with
  | nil => simp
  | cons x xs ih =>
    simp only [List.foldl_cons, List.length_cons]
    rw [ih, hg, Nat.add_mul]; omega

theorem foldl_push_size {α β : Type} (f : β → α) (l : List β) (a : Array α) :
    (l.foldl (fun a i => a.push (f i)) a).size = a.size + l.length := by
  have := foldl_size (fun i a => a.push (f i)) 1 (by intro i a; simp) l a
  rw [this]; simp

theorem fillInitial_size : fillInitial.size = 4096 := by
  unfold fillInitial
  simp only [foldl_push_size, List.length_range]
  rw [foldl_size (fun i a => (List.range 13).foldl (fun a _ => a.push (UInt8.ofNat i)) a) 13
    (by intro i a; simp [foldl_push_size])]
  simp

theorem init_inv (src : Src) : Inv (init src) := by
  refine ⟨?_, by simp [init, Gen.lz5RingSize, Gen.lz5StartOffset]⟩
  simp [init, fillInitial_size, Gen.lz5RingCap]

theorem cmdLoop_safe (k bit bitmap : Nat) (s : St) (acc : List UInt8) (h : Inv s) :
    Safe (cmdLoop k bit bitmap s acc) (fun r => Inv r.2 ∧ r.1.length ≤ acc.length + 18 * k) := by
  induction k generalizing bit s acc with
  | zero => exact safe_ok ⟨h, by simp⟩
  | succ k ih =>
    obtain ⟨hsz, hpos⟩ := h
    unfold cmdLoop
    by_cases hbit : (bitmap / 2 ^ bit) % 2 = 0
    · simp only [hbit, ne_eq, not_true_eq_false, not_false_eq_true, ↓reduceIte]
      split
      · rename_i c0 c1 hg
        have hsz' : s.ring.size = Gen.lz5RingSize := hsz
        refine safe_bind (Ring.copyLoop_safe Gen.lz5RingSize _ _ s.ring s.pos acc hsz' hpos) ?_
        intro r hr
        refine safe_mono (ih (bit + 1) _ r.2.2 ⟨hr.1, hr.2.1⟩) ?_
        intro q hq
        refine ⟨hq.1, ?_⟩
        have := hq.2
        rw [hr.2.2] at this
        have hc : c1.toNat % 16 < 16 := Nat.mod_lt _ (by decide)
        simp only [Gen.lz5Threshold] at this
        omega
      · exact safe_ok ⟨⟨hsz, hpos⟩, by simp⟩
    · simp only [hbit, ne_eq, not_true_eq_false, not_false_eq_true, ↓reduceIte]
      split
      · rename_i b hg
        have hp' : s.pos < s.ring.size := by rw [hsz]; exact hpos
        simp only [hp', ↓reduceIte]
        refine safe_mono (ih (bit + 1) _ (b :: acc)
          ⟨by simpa using hsz, Nat.mod_lt _ (by decide)⟩) ?_
        intro q hq
        refine ⟨hq.1, ?_⟩
        have := hq.2
        simp only [List.length_cons] at this
        omega
      · exact safe_ok ⟨⟨hsz, hpos⟩, by simp⟩

theorem read_safe (s : St) (h : Inv s) :
    Safe (read s) (fun r => Inv r.2 ∧ r.1.length ≤ Gen.lz5MaxRead) := by
  unfold read
  simp only
  split
  · refine safe_bind (cmdLoop_safe 8 0 _ _ [] h) ?_
    intro r hr
    refine safe_ok ⟨hr.1, ?_⟩
    have := hr.2
    simp only [List.length_reverse, Gen.lz5MaxRead]
    simpa using this
  · exact safe_ok ⟨h, by simp⟩

theorem read_no_fault (s : St) (h : Inv s) : ∀ w, read s ≠ .fault w := (read_safe s h).1

theorem read_inv (s : St) (h : Inv s) (out : List UInt8) (s' : St) (hr : read s = .ok (out, s')) :
    Inv s' := ((read_safe s h).2 _ hr).1

theorem read_len (s : St) (h : Inv s) (out : List UInt8) (s' : St) (hr : read s = .ok (out, s')) :
    out.length ≤ Gen.lz5MaxRead := ((read_safe s h).2 _ hr).2

/-- after any number of successful reads, for ANY input bytes and chunking, the next read of
the -lz5- decoder performs no invalid memory access -/
theorem run_no_fault (src : Src) (n : Nat) (s : St) (hs : Dec.Reach dec src n s) :
    ∀ w, read s ≠ .fault w :=
  read_no_fault s (Dec.reach_inv dec Inv init_inv read_inv src n s hs)

end Lz5

/-! ## -lh0- / -lz4- / -pm0- (stored) -/
namespace Null

def Inv (_ : Src) : Prop := True

theorem init_inv (src : Src) : Inv (dec.init src) := trivial

theorem grant_le (s : Src) (req : Nat) : s.grant req ≤ req := by
  unfold Src.grant
  by_cases hd : s.dead = true
  · simp [hd]
  · simp only [hd, Bool.false_eq_true, ↓reduceIte]
    by_cases hc : s.chunk = 0
    · simp only [hc, ↓reduceIte]; omega
    · simp only [hc, ↓reduceIte]; omega

/-- the callback never hands out more than was asked for -/
theorem srcRead_len (s : Src) (req : Nat) : (s.read req).1.length ≤ req := by
  unfold Src.read
  simp only
  have hg := grant_le s req
  by_cases h2 : s.grant req > s.remaining
  · simp only [h2, ↓reduceIte]
    by_cases hz : s.zeroFill = true
    · simp [hz]
    · simp [hz]
  · simp only [h2, ↓reduceIte]
    by_cases h1 : s.grant req = 0 ∧ s.zeroFill = true
    · simp only [h1, and_self, ↓reduceIte]; simp
    · simp only [h1, ↓reduceIte]; simp; omega

theorem read_safe (s : Src) (_h : Inv s) :
    Safe (read s) (fun r => Inv r.2 ∧ r.1.length ≤ Gen.nullMaxRead) := by
  unfold read
  exact safe_ok ⟨trivial, srcRead_len s _⟩

theorem read_no_fault (s : Src) (h : Inv s) : ∀ w, read s ≠ .fault w := (read_safe s h).1

theorem read_inv (s : Src) (h : Inv s) (out : List UInt8) (s' : Src)
    (hr : read s = .ok (out, s')) : Inv s' := ((read_safe s h).2 _ hr).1

theorem read_len (s : Src) (h : Inv s) (out : List UInt8) (s' : Src)
    (hr : read s = .ok (out, s')) : out.length ≤ Gen.nullMaxRead := ((read_safe s h).2 _ hr).2

/-- after any number of successful reads, for ANY input bytes and chunking, the next read of
the stored-data decoder performs no invalid memory access -/
theorem run_no_fault (src : Src) (n : Nat) (s : Src) (hs : Dec.Reach dec src n s) :
    ∀ w, read s ≠ .fault w :=
  read_no_fault s (Dec.reach_inv dec Inv init_inv read_inv src n s hs)

end Null
end LhasaV
