import LhasaV.Lemmas.Lh1Mirror11
import LhasaV.Lemmas.Bits
/-!
# C02, layer 12: the code words agree — `read_code` walks down exactly the path
`EncodeChar` writes
-/
namespace LhasaV.Lh1Mirror
open LhasaV LhasaV.Lh1 LhasaV.Spec.Lzhuf LhasaV.Res

/-! ## sibling pairs sit at (odd, even) positions: `child_index` is even -/

theorem pair_pos {lf : Nat → Bool} {ch pa fr ln : Nat → Nat} {x : Nat} (ht : Tree lf ch pa fr ln x) :
    ∀ n, 2 * n + 2 ≤ 626 → ch (pa (2 * n + 1)) = 2 * n + 2 ∧ ch (pa (2 * n + 2)) = 2 * n + 2 := by
  intro n
  induction n with
  | zero =>
    intro _
    obtain ⟨p1, p2, p3⟩ := ht.pr 1 (by omega) (by omega)
    have hb := ht.br (pa 1) (by omega) p2
    have h1 : ch (pa 1) = 2 := by omega
    have h2 : pa 2 = pa 1 := by have := hb.2.2.1; rw [h1] at this; exact this
    exact ⟨h1, by rw [h2]; exact h1⟩
  | succ n ih =>
    intro hn
    have ih' := (ih (by omega)).2
    obtain ⟨p1, p2, p3⟩ := ht.pr (2 * (n + 1) + 1) (by omega) (by omega)
    have hb := ht.br (pa (2 * (n + 1) + 1)) (by omega) p2
    have h1 : ch (pa (2 * (n + 1) + 1)) = 2 * (n + 1) + 2 := by
      rcases p3 with e | e
      · -- the pair would be `{2n+2, 2n+3}`, but `2n+2` already has its pair
        have h4 := hb.2.2.2
        rw [e] at h4
        have e2 : 2 * (n + 1) + 1 - 1 = 2 * n + 2 := by omega
        rw [e2] at h4
        rw [h4, e] at ih'
        omega
      · exact e
    have h2 : pa (2 * (n + 1) + 2) = pa (2 * (n + 1) + 1) := by
      have := hb.2.2.1; rw [h1] at this; exact this
    exact ⟨h1, by rw [h2]; exact h1⟩

theorem ch_even {lf : Nat → Bool} {ch pa fr ln : Nat → Nat} {x : Nat} (ht : Tree lf ch pa fr ln x)
    {j : Nat} (hj : j < 627) (hl : lf j = false) : ch j % 2 = 0 := by
  obtain ⟨b1, b2, b3, b4⟩ := ht.br j hj hl
  apply Classical.byContradiction
  intro hodd
  obtain ⟨n, hn⟩ : ∃ n, ch j = 2 * n + 1 := ⟨ch j / 2, by omega⟩
  have := (pair_pos ht n (by omega)).1
  rw [← hn, b3] at this
  omega

/-! ## the decoder's walk along a bit string -/

/-- from node `j`, the bits `bits` lead `read_code` to the leaf of code `c` -/
def WalkTo (s : St) (j : Nat) (bits : List Bool) (c : Nat) : Prop :=
  ∀ (b : Bits) (rest : List Bool) (fuel : Nat), Bits.Inv b → Bits.stream b = bits ++ rest →
    bits.length < fuel →
    ∃ b', walk fuel j { s with bits := b } = .ok (some c, { s with bits := b' }) ∧ Bits.Inv b' ∧
      Bits.stream b' = rest

theorem walkTo_leaf (s : St) (j c : Nat) (hj : j < s.nodes.size) (hl : lf s j = true) (hc : ch s j = c) :
    WalkTo s j [] c := by
  intro b rest fuel hb hs hf
  obtain ⟨f, rfl⟩ : ∃ f, fuel = f + 1 := ⟨fuel - 1, by simp at hf; omega⟩
  refine ⟨b, ?_, hb, by simpa using hs⟩
  rw [walk]
  rw [getNode_ok _ _ _ (by exact hj)]
  simp only [ok_bind]
  have e1 : (nd { s with bits := b } j).leaf = true := hl
  have e2 : (nd { s with bits := b } j).child = c := hc
  simp only [e1, if_true, e2, pure_eq]

theorem walkTo_branch (s : St) (j c : Nat) (bit : Bool) (bits : List Bool) (hj : j < s.nodes.size)
    (hl : lf s j = false) (h1 : 1 ≤ ch s j)
    (h : WalkTo s (ch s j - (if bit then 1 else 0)) bits c) : WalkTo s j (bit :: bits) c := by
  intro b rest fuel hb hs hf
  obtain ⟨f, rfl⟩ : ∃ f, fuel = f + 1 := ⟨fuel - 1, by simp at hf; omega⟩
  rw [walk]
  rw [getNode_ok _ _ _ (by exact hj)]
  simp only [ok_bind]
  have e1 : (nd { s with bits := b } j).leaf = false := hl
  have e2 : (nd { s with bits := b } j).child = ch s j := rfl
  simp only [e1, Bool.false_eq_true, if_false, e2]
  obtain ⟨r1, r2, r3⟩ := Bits.readBit_some b hb bit (bits ++ rest) (by simpa using hs)
  rw [r1]
  simp only []
  have hlt : ¬ (ch s j < if bit then 1 else 0) := by cases bit <;> simp <;> omega
  rw [if_neg hlt]
  exact h _ rest f r2 r3 (by simp at hf; omega)

/-! ## `codeLoop` climbs the same path -/

theorem codeLoop_walk (s : St) (z : TreeState) (hi : Lh1.Inv s) (hm : Mirror s z) (c : Nat) :
    ∀ (fuel k : Nat) (acc : List Bool), k < 626 → 627 ≤ fuel + k → WalkTo s (626 - k) acc c →
      WalkTo s 0 (codeLoop z.prnt fuel k acc) c := by
  have ht := hi.tree
  have hn := hi.base.nodes
  intro fuel
  induction fuel with
  | zero => intro k acc hk hf; omega
  | succ fuel ih =>
    intro k acc hk hf hw
    rw [codeLoop]
    obtain ⟨p1, p2, p3⟩ := ht.pr (626 - k) (by omega) (by omega)
    have hpar := hm.2.par (626 - k) (by omega) (by omega)
    have ek : 626 - (626 - k) = k := by omega
    rw [ek] at hpar
    have hzp : z.prnt.getD k 0 = 626 - pa s (626 - k) := by
      show zp z k = _
      omega
    have hbr := ht.br (pa s (626 - k)) (by omega) p2
    have hev := ch_even ht (by omega : pa s (626 - k) < 627) p2
    -- one step down from the parent
    have hstep : WalkTo s (pa s (626 - k)) ((k % 2 == 1) :: acc) c := by
      apply walkTo_branch s _ c _ acc (by rw [hn]; omega) p2 (by omega)
      rcases p3 with e | e
      · have hb : (k % 2 == 1) = false := by
          have : k % 2 = 0 := by omega
          simp [this]
        rw [hb, e]
        exact hw
      · have hb : (k % 2 == 1) = true := by
          have : k % 2 = 1 := by omega
          simp [this]
        rw [hb, e]
        have e2 : 626 - k + 1 - (if true = true then 1 else 0) = 626 - k := by simp
        rw [e2]
        exact hw
    rw [hzp]
    have hR : R = 626 := rfl
    rw [hR]
    by_cases hp0 : pa s (626 - k) = 0
    · have e0 : ¬ (626 - pa s (626 - k) ≠ 626) := by omega
      rw [if_neg e0]
      rw [hp0] at hstep
      exact hstep
    · have e0 : 626 - pa s (626 - k) ≠ 626 := by omega
      rw [if_pos e0]
      apply ih (626 - pa s (626 - k)) _ (by omega) (by omega)
      have e3 : 626 - (626 - pa s (626 - k)) = pa s (626 - k) := by omega
      rw [e3]
      exact hstep

/-- **The code words agree.**  In mirrored states, `read_code` (the model's `walk` from the root)
on a bit stream that starts with the bits `EncodeChar(c)` writes returns `c` and consumes exactly
these bits. -/
theorem walk_codeBits (s : St) (z : TreeState) (hi : Lh1.Inv s) (hm : Mirror s z) (c : Nat)
    (hc : c < 314) (b : Bits) (rest : List Bool) (fuel : Nat) (hb : Bits.Inv b)
    (hs : Bits.stream b = codeBits z c ++ rest) (hf : (codeBits z c).length < fuel) :
    ∃ b', walk fuel 0 { s with bits := b } = .ok (some c, { s with bits := b' }) ∧ Bits.Inv b' ∧
      Bits.stream b' = rest := by
  have ht := hi.tree
  obtain ⟨c1, c2, c3⟩ := ht.cd c hc
  have hl0 : ln s c ≠ 0 := by
    intro e; rw [e, ht.ch0.1] at c2; cases c2
  have hk : z.prnt.getD (c + T) 0 = 626 - ln s c := by
    have := hm.2.lnP c hc
    show zp z (c + 627) = _
    omega
  have hw : WalkTo s 0 (codeBits z c) c := by
    unfold codeBits
    rw [hk]
    apply codeLoop_walk s z hi hm c T (626 - ln s c) [] (by omega) (by show 627 ≤ 627 + _; omega)
    have e : 626 - (626 - ln s c) = ln s c := by omega
    rw [e]
    exact walkTo_leaf s (ln s c) c (by rw [hi.base.nodes]; exact c1) c2 c3
  exact hw b rest fuel hb hs hf

end LhasaV.Lh1Mirror
