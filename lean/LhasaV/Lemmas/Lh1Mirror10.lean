import LhasaV.Lemmas.Lh1Mirror9
/-!
# C02, layer 10: `increment_for_code` mirrors `update` in every state; lock-step for symbol
sequences of any length (any number of rebuilds)
-/
namespace LhasaV.Lh1Mirror
open LhasaV LhasaV.Lh1 LhasaV.Spec.Lzhuf LhasaV.Res

/-- **One symbol.**  In every invariant state mirrored by `z`, `increment_for_code` (including the
rebuild when the root frequency has reached `0x8000`) succeeds and leads to the mirror image of
`update z c`. -/
theorem mirror_update (d : St) (z : TreeState) (c : Nat) (hm : Mirror d z) (hi : Lh1.Inv d)
    (hc : c < 314) :
    ∃ d', incrementForCode d c = .ok d' ∧ Lh1.Inv d' ∧ Mirror d' (update z c) := by
  by_cases hlt : fr d 0 < 0x8000
  · exact mirror_update_no_rebuild d z c hm hi hlt hc
  · have htop := hi.tree.top
    have hfr0 : fr d 0 = 32768 := by omega
    obtain ⟨d1, e1, hi1, hlt1, hm1⟩ := mirror_rebuild d z hm hi
    rw [incrementForCode_eq, update_eq]
    have hsz : 0 < d.nodes.size := by rw [hi.base.nodes]; omega
    rw [getNode_ok _ _ _ hsz]
    simp only [ok_bind]
    have hfr : (nd d 0).freq = fr d 0 := rfl
    have hge : (nd d 0).freq ≥ Gen.lh1TreeReorderLimit := by
      rw [hfr, hfr0]; simp only [Gen.lh1TreeReorderLimit]; omega
    rw [if_pos hge, e1]
    simp only [ok_bind]
    have h0 : zf z 626 = fr d 0 := hm.2.freq 0 (by omega)
    have heq : z.freq.getD R 0 = MAX_FREQ := by
      show zf z 626 = 32768
      omega
    rw [if_pos heq]
    exact ifcRest_mirror d1 (reconst z) c hi1 hlt1 hc hm1

theorem lockstep_from (syms : List Nat) : ∀ (d : St) (z : TreeState), Mirror d z → Lh1.Inv d →
    (∀ c ∈ syms, c < 314) →
    ∃ d', decRun d syms = .ok d' ∧ Lh1.Inv d' ∧ Mirror d' (syms.foldl update z) := by
  induction syms with
  | nil => intro d z hm hi _; exact ⟨d, rfl, hi, hm⟩
  | cons c cs ih =>
    intro d z hm hi hs
    obtain ⟨d1, e1, hi1, hm1⟩ := mirror_update d z c hm hi (hs c (by simp))
    obtain ⟨d', e', hi', hm'⟩ := ih d1 (update z c) hm1 hi1 (fun c' hc' => hs c' (by simp [hc']))
    refine ⟨d', ?_, hi', ?_⟩
    · simp only [decRun, e1, ok_bind]; exact e'
    · simpa using hm'

/-- **Lock-step (C02).**  For every sequence of symbols `< 314`, of any length and through any number
of tree rebuilds, the decoder — `lha_lh1_init` followed by one `increment_for_code` per symbol —
never fails or faults, keeps its invariant, and its tree is the mirror image of the LZHUF
tree `Spec.Lzhuf.run syms`. -/
theorem lh1_lockstep (src : Src) (syms : List Nat) (h : ∀ c ∈ syms, c < 314) :
    ∃ d, decTree src syms = .ok d ∧ Lh1.Inv d ∧ Mirror d (run syms) := by
  obtain ⟨s, e, hi, hm⟩ := mirror_init src
  obtain ⟨d, e', hi', hm'⟩ := lockstep_from syms s startHuff hm hi h
  exact ⟨d, by simp only [decTree, e, ok_bind]; exact e', hi', hm'⟩

end LhasaV.Lh1Mirror
