import LhasaV.Lemmas.WrapProps
/-!
The decoder wrapper (`lha_decoder_read`) seen as a byte stream: `tail rd w` is everything the
wrapper `w` can still hand out (clamped to its declared length); a read of `k` returns the first
`k` bytes of it and leaves the rest.  Generic in the inner step `rd`.  Used for the MacBinary
pass-through (`MacPass`, `MacProps`), where a wrapper sits inside a wrapper.
-/
namespace LhasaV.MacProps
open LhasaV LhasaV.Wrap

variable {σ : Type} (rd : σ → List Byte × σ)

/-- all the bytes a wrapper state can still hand out -/
def tail (w : St σ) : List Byte := rest rd (w.length - w.pos) w

theorem tail_length_le (w : St σ) : (tail rd w).length ≤ w.length - w.pos :=
  rest_length_le rd _ w

/-- `rest n` is a prefix of `rest (n + j)` -/
theorem rest_take (n j : Nat) (w : St σ) : rest rd n w = (rest rd (n + j) w).take n := by
  rw [rest_split, fill_out]
  have hl := rest_length_le rd n w
  by_cases hlt : (rest rd n w).length < n
  · have hs := fill_short rd n w (by rw [fill_out]; exact hlt)
    rw [rest_dead rd j _ hs.1 hs.2, List.append_nil, List.take_of_length_le (by omega)]
  · have e : (rest rd n w).length = n := by omega
    rw [List.take_append_of_le_length (by omega), List.take_of_length_le (by omega)]

/-- one read returns the first `k` bytes of the tail -/
theorem read_out_tail (k : Nat) (w : St σ) : (read rd k w).1.1 = (tail rd w).take k := by
  rw [read_out, fill_out]
  unfold tail
  have hl := rest_length_le rd (w.length - w.pos) w
  by_cases hk : k ≤ w.length - w.pos
  · obtain ⟨j, hj⟩ := Nat.exists_eq_add_of_le hk
    rw [Nat.min_eq_left hk, hj, ← rest_take]
  · rw [Nat.min_eq_right (by omega), List.take_of_length_le (by omega)]

/-- … and leaves the rest -/
theorem tail_read (k : Nat) (w : St σ) : tail rd (read rd k w).2 = (tail rd w).drop k := by
  have hout := read_out_tail rd k w
  unfold tail at *
  rw [read_length, read_pos]
  rw [rest_congr rd _ (read rd k w).2 (fill rd (min k (w.length - w.pos)) w).2
      (read_inner rd k w) (read_pending rd k w) (read_failed rd k w)]
  rw [read_out] at *
  generalize hn : min k (w.length - w.pos) = n at *
  have hl := fill_len rd n w
  have hT := rest_length_le rd (w.length - w.pos) w
  by_cases hlt : (fill rd n w).1.length < n
  · have hs := fill_short rd n w hlt
    rw [rest_dead rd _ _ hs.1 hs.2]
    have := rest_of_short rd n (w.length - w.pos) w hlt (by omega)
    rw [this]
    symm; rw [List.drop_eq_nil_iff]; omega
  · have e : (fill rd n w).1.length = n := by omega
    rw [e]
    obtain ⟨j, hj⟩ := Nat.exists_eq_add_of_le (show n ≤ w.length - w.pos by omega)
    have hs := rest_split rd n j w
    rw [← hj] at hs
    rw [hs]
    have e2 : w.length - (w.pos + n) = j := by omega
    rw [e2]
    by_cases hk : k = n
    · rw [hk, List.drop_left' e]
    · have hj0 : j = 0 := by omega
      subst hj0
      have h0 : rest rd 0 (fill rd n w).2 = [] := by simp [rest]
      rw [h0, List.append_nil]
      symm; rw [List.drop_eq_nil_iff]; omega

/-- a read is empty exactly when nothing was asked for or nothing is left -/
theorem read_empty_iff (k : Nat) (w : St σ) :
    (read rd k w).1.1 = [] ↔ (k = 0 ∨ tail rd w = []) := by
  rw [read_out_tail, List.take_eq_nil_iff]

/-- the tail of a fresh wrapper (as `lha_decoder_new` makes it) is the inner decoder's output,
cut at the declared length -/
theorem tail_fresh (i : σ) (n b : Nat) :
    tail rd ({ inner := i, length := n, blockSize := b } : St σ) = avail rd n i := by
  simp only [tail, rest]
  have := avail_length_le rd n i
  simp only [Bool.false_eq_true, if_false, List.nil_append, List.length_nil, Nat.sub_zero]
  exact List.take_of_length_le this

/-! ### the read loop: `k`-byte reads until an empty one -/

/-- the loop of `do_decode` on a bare wrapper -/
def drain (k : Nat) : Nat → St σ → List Byte → List Byte × St σ
  | 0, w, acc => (acc, w)
  | fuel+1, w, acc =>
    let r := read rd k w
    if r.1.1.isEmpty then (acc, r.2) else drain k fuel r.2 (acc ++ r.1.1)

/-- with enough fuel the loop hands out the whole tail and leaves nothing -/
theorem drain_all (k : Nat) (hk : 0 < k) (fuel : Nat) (w : St σ) (acc : List Byte)
    (hf : (tail rd w).length < fuel) :
    (drain rd k fuel w acc).1 = acc ++ tail rd w ∧ tail rd (drain rd k fuel w acc).2 = [] := by
  induction fuel generalizing w acc with
  | zero => omega
  | succ n ih =>
    unfold drain
    dsimp only
    have ho := read_out_tail rd k w
    have ht := tail_read rd k w
    split
    · rename_i he
      have he' : (read rd k w).1.1 = [] := by simpa using he
      have : tail rd w = [] := by
        rcases (read_empty_iff rd k w).1 he' with h | h
        · omega
        · exact h
      rw [ht, this]; simp
    · rename_i he
      have he' : (read rd k w).1.1 ≠ [] := by simpa using he
      have hne : tail rd w ≠ [] := fun h => he' ((read_empty_iff rd k w).2 (Or.inr h))
      have hpos : 0 < (tail rd w).length := List.length_pos_iff.mpr hne
      have := ih (read rd k w).2 (acc ++ (read rd k w).1.1)
        (by rw [ht, List.length_drop]; omega)
      rw [this.1, ho, ht, List.append_assoc, List.take_append_drop]
      exact ⟨rfl, by rw [← ho]; exact this.2⟩

/-- an invariant of the inner state kept by every inner step is kept by `fill` -/
theorem fill_inv (P : σ → Prop) (hP : ∀ s, P s → P (rd s).2) (n : Nat) (w : St σ)
    (h : P w.inner) : P (fill rd n w).2.inner := by
  fun_induction fill rd n w with
  | case1 s => exact h
  | case2 need s h1 h2 => exact h
  | case3 need s h1 h2 h3 => exact h
  | case4 need s h1 h2 h3 h4 => exact hP _ h
  | case5 need s h1 h2 h3 h4 r ih => exact ih (hP _ h)

/-- an invariant of wrapper states kept by every read is kept by the loop -/
theorem drain_inv (P : St σ → Prop) (k : Nat) (hP : ∀ w, P w → P (read rd k w).2)
    (fuel : Nat) (w : St σ) (acc : List Byte) (h : P w) : P (drain rd k fuel w acc).2 := by
  induction fuel generalizing w acc with
  | zero => exact h
  | succ n ih =>
    unfold drain
    dsimp only
    split
    · exact hP _ h
    · exact ih _ _ (hP _ h)

end LhasaV.MacProps
