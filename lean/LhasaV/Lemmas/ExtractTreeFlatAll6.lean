import LhasaV.Lemmas.ExtractTreeFlatAll5
import LhasaV.Lemmas.ExtractTreeAll13
/-!
# C06, option `i` together with the other deviations (part 6): executable checks

`hypsF`: every hypothesis of `extract_archiveOf_flat_unified`, evaluated (`flat_unified_checked`:
the evaluated hypotheses give the theorem's conclusion — so a tie may evaluate `hypsF` and compare the
real tool with `owTree … flatPlan`).  `agreesF` (not a proof): the model run on the bytes agrees with
`owTree … (flatPlan …)` at every probe (all names, all prefixes of stored paths, the old files, a few
foreign paths), sets the abort flag and the result as the plan says, creates nothing else and NO
directory below the base, and leaves everything outside the base as `mkBase` has it (untouched when
nothing is written).  `#guard`ed over the combinations; then the model OUTSIDE the hypotheses.
-/
namespace LhasaV.ArchiveOf.FlatCheck
open LhasaV LhasaV.Header LhasaV.Extract LhasaV.GlobFs LhasaV.Contain LhasaV.ExtractTree
open LhasaV.ExtractTree.Sample LhasaV.ArchiveOf LhasaV.ArchiveOf.UniCheck

/-- the hypotheses of `extract_archiveOf_flat_unified`, for `DIR` = `ds` of which `k` components exist -/
def hypsF (o : Opts) (fs : Fs.St) (ds : List Bytes) (k : Nat) (es : List Entry) (answers : Bytes) : Bool :=
  decide (∀ e ∈ es, EntryOk e) && decide (Encodable es) &&
  !o.usePath && (pfx o == joinDir ds) && decide (ds.length < 63) && baseUB fs ds k &&
  (fs.root || fs.umask == 0o022) &&
  decide (((es.filter (fun e => selected o.filters e && !e.isDir)).map Entry.namePart).Nodup) &&
  decide (∀ e ∈ es, selected o.filters e = true → e.isDir = false → PreAtF fs ds e) &&
  (!decide (AskedF fs ds (selected o.filters) es) || o.overwrite != .prompt || decide (OwAnswers answers))

/-- **the evaluated hypotheses give the theorem** -/
theorem flat_unified_checked (o : Opts) (fs : Fs.St) (ds : List Bytes) (k : Nat) (es : List Entry)
    (answers : Bytes) (h : hypsF o fs ds k es answers = true) :
    FlatOutcome (run (archiveOf es) o fs answers) fs ds (flatPlan fs ds o answers es) ∧
    MadeFrom fs (mkBase fs ds) (ds.take k) (ds.drop k) := by
  unfold hypsF at h
  simp only [Bool.and_eq_true, decide_eq_true_eq, Bool.or_eq_true, Bool.not_eq_true', beq_iff_eq,
    decide_eq_false_iff_not] at h
  obtain ⟨⟨⟨⟨⟨⟨⟨⟨⟨h1, h2⟩, h3⟩, h4⟩, h5⟩, h6⟩, h7⟩, h8⟩, h9⟩, h10⟩ := h
  have hb := baseUB_sound fs ds k h6
  refine extract_archiveOf_flat_unified es o fs answers ds k h1 h2 ⟨h3, h4, hb.names, h5⟩ hb
    (accessW_of_umask fs h7) h8 h9 ?_
  intro ha hp
  rcases h10 with (h | h) | h
  · exact absurd ha h
  · rw [hp] at h; exact absurd h (by decide)
  · exact h

def probesF (es : List Entry) (extra : List Fs.Path) : List Fs.Path :=
  (es.flatMap (fun e => [e.namePart] :: (List.range (e.path.length + 1)).map (fun j => e.path.take j))).filter
    (· ≠ []) ++ extra ++ [[[0x71]], [[0x61], [0x71]], [[0x78], [0x71]]]

def notDir : Fs.Ent → Bool
  | .dir _ _ => false
  | _ => true

def agreesF (o : Opts) (fs : Fs.St) (ds : List Bytes) (es : List Entry) (answers : Bytes)
    (extra : List Fs.Path := []) : Bool :=
  let r := run (archiveOf es) o fs answers
  let pl := flatPlan fs ds o answers es
  let tree := owTree fs.now fs.umask (oldB fs ds) pl.1
  let B := fs.cwd ++ ds
  r.aborted == pl.2 && r.result == !pl.2 &&
  (probesF es extra).all (fun p => Fs.lookup r.fs (B ++ p) == tree p) &&
  r.fs.ents.all (fun x => !(B.isPrefixOf x.1) || x.1 == B ||
    (notDir x.2 && (probesF es extra).any (fun p => B ++ p == x.1 && (tree p).isSome))) &&
  (if pl.1.isEmpty then r.fs.ents == fs.ents
   else r.fs.ents.all (fun x => (B.isPrefixOf x.1 && x.1 != B) ||
          (if x.1 == B then (match Fs.lookup (mkBase fs ds) B, x.2 with
                             | some (.dir m _), .dir m' t' => m == m' && (B.isEmpty || t' == fs.now)
                             | _, _ => false)
           else Fs.lookup (mkBase fs ds) x.1 == some x.2)))

def oI (pol : Overwrite := .prompt) (w : Option Bytes := none) (fl : List Bytes := []) : Opts :=
  { overwrite := pol, usePath := false, extractPath := w, filters := fl }

/-! ## inside the hypotheses -/

-- `i` alone, `i` ∘ wildcards, into an empty place (ordinary user / root)
#guard hypsF (oI) sampleFs [] 0 sampleTree [] && agreesF (oI) sampleFs [] sampleTree []
#guard hypsF (oI .prompt none patY) sampleFs [] 0 sampleTree [] && agreesF (oI .prompt none patY) sampleFs [] sampleTree []
#guard hypsF (oI .prompt none patA) sampleFs [] 0 sampleTree [] && agreesF (oI .prompt none patA) sampleFs [] sampleTree []
#guard hypsF (oI .prompt none patY) rootFs [] 0 sampleTree [] && agreesF (oI .prompt none patY) rootFs [] sampleTree []
-- `*l` selects the link alone; `a/?` selects `a/x` (and `a/b`? no: `?` is one byte, `a/b/` has a trailing separator)
#guard hypsF (oI .prompt none [[0x2a, 0x6c]]) sampleFs [] 0 sampleTree [] && agreesF (oI .prompt none [[0x2a, 0x6c]]) sampleFs [] sampleTree []
#guard hypsF (oI .prompt none [[0x61, 0x2f, 0x3f]]) sampleFs [] 0 sampleTree [] && agreesF (oI .prompt none [[0x61, 0x2f, 0x3f]]) sampleFs [] sampleTree []
-- archives without directory entries, mixed archives with LATE directory entries: no order condition at all
#guard hypsF (oI) sampleFs [] 0 impSample [] && agreesF (oI) sampleFs [] impSample []
#guard hypsF (oI) sampleFs [] 0 impSample.reverse [] && agreesF (oI) sampleFs [] impSample.reverse []
#guard hypsF (oI) sampleFs [] 0 mixedSample [] && agreesF (oI) sampleFs [] mixedSample []
-- `i` ∘ `w=DIR`: `out` missing (made), `out` there, `o/p` with `o` there, `o/p` all missing
#guard hypsF (oI .prompt wOut) sampleFs outDir 0 sampleTree [] && agreesF (oI .prompt wOut) sampleFs outDir sampleTree []
#guard hypsF (oI .prompt wOut patY) sampleFs outDir 0 sampleTree [] && agreesF (oI .prompt wOut patY) sampleFs outDir sampleTree []
#guard hypsF (oI .prompt wOut) fsOut outDir 1 sampleTree [] && agreesF (oI .prompt wOut) fsOut outDir sampleTree []
#guard hypsF (oI .prompt wOP patA) fsO dsOP 1 sampleTree [] && agreesF (oI .prompt wOP patA) fsO dsOP sampleTree []
#guard hypsF (oI .prompt wOP) sampleFs dsOP 0 impSample [] && agreesF (oI .prompt wOP) sampleFs dsOP impSample []
-- nothing selected / directory entries only: nothing is touched, `DIR` is NOT created
#guard hypsF (oI .prompt wOut [[0x51]]) sampleFs outDir 0 sampleTree [] && agreesF (oI .prompt wOut [[0x51]]) sampleFs outDir sampleTree [] &&
  (run (archiveOf sampleTree) (oI .prompt wOut [[0x51]]) sampleFs []).fs.ents == sampleFs.ents
#guard hypsF (oI .prompt wOut [[0x61, 0x2f], [0x61, 0x2f, 0x62, 0x2f]]) sampleFs outDir 0 sampleTree [] &&
  agreesF (oI .prompt wOut [[0x61, 0x2f], [0x61, 0x2f, 0x62, 0x2f]]) sampleFs outDir sampleTree [] &&
  (run (archiveOf sampleTree) (oI .prompt wOut [[0x61, 0x2f], [0x61, 0x2f, 0x62, 0x2f]]) sampleFs []).fs.ents == sampleFs.ents
-- `i` ∘ `w=out` ∘ old `out/x`, `out/q` ∘ the policy: n, y, end of input, junk then A, s, policies all / skip
#guard hypsF (optsIOut .prompt) fsOutX outDir 1 sampleTree [0x6e, 0x0a] && agreesF (optsIOut .prompt) fsOutX outDir sampleTree [0x6e, 0x0a]
#guard hypsF (optsIOut .prompt) fsOutX outDir 1 sampleTree [0x79, 0x0a] && agreesF (optsIOut .prompt) fsOutX outDir sampleTree [0x79, 0x0a]
#guard hypsF (optsIOut .prompt) fsOutX outDir 1 sampleTree [] && agreesF (optsIOut .prompt) fsOutX outDir sampleTree []
#guard hypsF (optsIOut .prompt) fsOutX outDir 1 sampleTree [0x7a, 0x0a, 0x41, 0x0a] && agreesF (optsIOut .prompt) fsOutX outDir sampleTree [0x7a, 0x0a, 0x41, 0x0a]
#guard hypsF (optsIOut .prompt) fsOutX outDir 1 sampleTree [0x73, 0x0a] && agreesF (optsIOut .prompt) fsOutX outDir sampleTree [0x73, 0x0a]
#guard hypsF (optsIOut .all) fsOutX outDir 1 sampleTree [] && agreesF (optsIOut .all) fsOutX outDir sampleTree []
#guard hypsF (optsIOut .skip) fsOutX outDir 1 sampleTree [] && agreesF (optsIOut .skip) fsOutX outDir sampleTree []
-- … ∘ wildcards: `*y` does not touch the old `x` (no prompt, the unterminated answer is never read); `a/*` does
#guard hypsF (oI .prompt wOut patY) fsOutX outDir 1 sampleTree [0x79] && agreesF (oI .prompt wOut patY) fsOutX outDir sampleTree [0x79]
#guard hypsF (oI .prompt wOut patA) fsOutX outDir 1 sampleTree [0x6e, 0x0a] && agreesF (oI .prompt wOut patA) fsOutX outDir sampleTree [0x6e, 0x0a]

/-- old `y` and `z` in `r` (no `w=`): `x` is written, then the prompts for `y` and `z` -/
def fsYZ : Fs.St :=
  { sampleFs with ents := sampleFs.ents ++ [([[0x72], [0x79]], oldQ), ([[0x72], [0x7a]], oldX)] }
#guard hypsF (oI) fsYZ [] 0 sampleTree [0x6e, 0x0a, 0x79, 0x0a] && agreesF (oI) fsYZ [] sampleTree [0x6e, 0x0a, 0x79, 0x0a]
-- end of input at the SECOND prompt: `x` written, `y` kept ("n"), `l` written, abort at `z` (kept)
#guard hypsF (oI) fsYZ [] 0 sampleTree [0x6e, 0x0a] && agreesF (oI) fsYZ [] sampleTree [0x6e, 0x0a] &&
  (let r := run (archiveOf sampleTree) (oI) fsYZ [0x6e, 0x0a]
   r.aborted && Fs.lookup r.fs [[0x72], [0x78]] == some newX && Fs.lookup r.fs [[0x72], [0x79]] == some oldQ &&
   Fs.lookup r.fs [[0x72], [0x6c]] == some newL && Fs.lookup r.fs [[0x72], [0x7a]] == some oldX)

/-- a directory entry whose NAME is that of a file member: ignored, no clash (`Nodup` is about files / links) -/
def dirFileSame : List Entry :=
  [.dir [[0x78]] (some 0o40555) 111, .file [[0x64], [0x78]] [1] none 0]
#guard hypsF (oI) sampleFs [] 0 dirFileSame [] && agreesF (oI) sampleFs [] dirFileSame [] &&
  Fs.lookup (run (archiveOf dirFileSame) (oI) sampleFs []).fs [[0x72], [0x78]] == some (.file [1] 0o600 sampleFs.now)

/-! ## outside the hypotheses -/

/- (1) two FILE members of the same name (`a/x`, `b/x`): the second meets the first, just written, and
the policy is asked about the archive's own output: "n" keeps the first, "y" takes the second, no
input aborts the run after the first.  Excluded by `Nodup`. -/
def twoX : List Entry := [.file [[0x61], [0x78]] [1] none 0, .file [[0x62], [0x78]] [2] none 0]
#guard !hypsF (oI) sampleFs [] 0 twoX []
#guard Fs.lookup (run (archiveOf twoX) (oI) sampleFs [0x6e, 0x0a]).fs [[0x72], [0x78]] == some (.file [1] 0o600 sampleFs.now)
#guard Fs.lookup (run (archiveOf twoX) (oI) sampleFs [0x79, 0x0a]).fs [[0x72], [0x78]] == some (.file [2] 0o600 sampleFs.now)
#guard (let r := run (archiveOf twoX) (oI) sampleFs []
        r.aborted && Fs.lookup r.fs [[0x72], [0x78]] == some (.file [1] 0o600 sampleFs.now))

/- (2) a LINK member of the same name as an earlier file member replaces it SILENTLY, whatever the
policy — `lha_arch_symlink` unlinks first and `extract_archived_file` asks only about regular
files (model and src/extract.c alike).  Excluded by `Nodup`. -/
def fileLinkX : List Entry := [.file [[0x61], [0x78]] [1] none 0, .link [[0x62], [0x78]] [0x79]]
#guard !hypsF (oI) sampleFs [] 0 fileLinkX []
#guard (let r := run (archiveOf fileLinkX) (oI) sampleFs []
        r.result && !r.aborted && Fs.lookup r.fs [[0x72], [0x78]] == some (.link [0x79]))
#guard (let r := run (archiveOf fileLinkX) (oI .skip) sampleFs []
        r.result && Fs.lookup r.fs [[0x72], [0x78]] == some (.link [0x79]))

/- (3) … and so does a link member at the name of an OLD regular file: `a/b/l` over a pre-existing `r/l`
(policy "skip", i.e. after the user said "never overwrite").  Relative to the property text ("an archived
file replaces an existing one only under the overwrite policy in force") this is the one place where an
existing file is lost without the policy being consulted; with `i` the colliding name need not even
be a top-level name of the archive.  Excluded by `PreAtF` (as by `PreAtU` / `PreDir.clash` without `i`). -/
def fsL : Fs.St := { sampleFs with ents := sampleFs.ents ++ [([[0x72], [0x6c]], oldQ)] }
#guard !hypsF (oI .skip) fsL [] 0 sampleTree []
#guard (let r := run (archiveOf sampleTree) (oI .skip) fsL []
        r.result && !r.aborted && Fs.lookup r.fs [[0x72], [0x6c]] == some (.link [0x79]))
-- the SPECIFICATION says the same (`asks` is false for a link, so `flatPlan` writes it): only the proof stops at `PreAtF`
#guard agreesF (oI .skip) fsL [] sampleTree []

/- (4) an old DIRECTORY at a flattened name (`r/x` is a directory, 0700 / 5): the policy IS asked; after "y"
the file cannot be created, the member fails, the run goes on and the directory stays.  Outside `BaseU`. -/
def fsDirX : Fs.St := { sampleFs with ents := sampleFs.ents ++ [([[0x72], [0x78]], .dir 0o700 5)] }
#guard !hypsF (oI) fsDirX [] 0 sampleTree [0x79, 0x0a]
#guard (let r := run (archiveOf sampleTree) (oI) fsDirX [0x79, 0x0a]
        !r.result && !r.aborted && Fs.lookup r.fs [[0x72], [0x78]] == some (.dir 0o700 5) &&
        Fs.lookup r.fs [[0x72], [0x79]] == some newY)

/- (5) `w=out` where `out` is a regular FILE: `stat("out/x")` fails with ENOTDIR, `exit(-1)` at the first
file member, as without `i` (ExtractTreeAll13 (3)).  Excluded by `BaseU`. -/
#guard !hypsF (oI .prompt wOut) fsFileOut outDir 1 sampleTree [] && !hypsF (oI .prompt wOut) fsFileOut outDir 0 sampleTree []
#guard (let r := run (archiveOf sampleTree) (oI .prompt wOut) fsFileOut []
        r.aborted && !r.result && r.fs.ents == fsFileOut.ents)

end LhasaV.ArchiveOf.FlatCheck
