import LhasaV.Lemmas.Lh1Mirror7
/-!
# C02, layer 8: the second loop of `reconstruct_tree` in lock-step with `buildInner`

The loops are those of `Lh1RbLoop.lean` (whose statements only keep the tree invariant), redone
with the mirror invariant `RBM` as an additional component.
-/
namespace LhasaV.Lh1Mirror
open LhasaV LhasaV.Lh1 LhasaV.Spec.Lzhuf LhasaV.Res

/-- mirror invariant of the rebuild: `l` leaves and `b` branches have been placed by the decoder
(at `626 − p`, `p < l + b`), LZHUF has inserted `b` branches: its positions `p < l + b` are the
placed nodes, the positions `l + b ..313 + b` the still unplaced leaves `l .. 313` (gathered slot
`313 − m` of the decoder). -/
structure RBM (ch0 fr0 : Nat → Nat) (lf : Nat → Bool) (ch fr : Nat → Nat) (l b : Nat)
    (Fz Sz : Array Nat) : Prop where
  szF : Fz.size = 628
  szS : Sz.size = 627
  plF : ∀ p, p < l + b → Fz.getD p 0 = fr (626 - p)
  plL : ∀ p, p < l + b → lf (626 - p) = true → Sz.getD p 0 = ch (626 - p) + 627
  plB : ∀ p, p < l + b → lf (626 - p) = false → Sz.getD p 0 + ch (626 - p) = 626
  un : ∀ m, l ≤ m → m < 314 → Fz.getD (m + b) 0 = fr0 (313 - m) ∧ Sz.getD (m + b) 0 = ch0 (313 - m) + 627
  sent : Fz.getD 627 0 = 65535

theorem rbm_leaf {ch0 fr0 : Nat → Nat} {lf : Nat → Bool} {ch fr : Nat → Nat} {l b : Nat}
    {Fz Sz : Array Nat} (h : RBM ch0 fr0 lf ch fr l b Fz Sz) (i k : Nat) (hi : i + 1 + l + b = 627)
    (hk : k + 1 + l = 314) :
    RBM ch0 fr0 (upd lf i true) (upd ch i (ch0 k)) (upd fr i (fr0 k)) (l + 1) b Fz Sz := by
  have hu := h.un l (Nat.le_refl _) (by omega)
  have ek : 313 - l = k := by omega
  rw [ek] at hu
  refine ⟨h.szF, h.szS, ?_, ?_, ?_, ?_, h.sent⟩
  · intro p hp
    by_cases e : p = l + b
    · subst e
      have e2 : 626 - (l + b) = i := by omega
      rw [e2, upd_same]; exact hu.1
    · rw [upd_ne _ _ _ _ (by omega)]; exact h.plF p (by omega)
  · intro p hp hl
    by_cases e : p = l + b
    · subst e
      have e2 : 626 - (l + b) = i := by omega
      rw [e2, upd_same]; exact hu.2
    · rw [upd_ne _ _ _ _ (by omega)] at hl ⊢
      exact h.plL p (by omega) hl
  · intro p hp hl
    by_cases e : p = l + b
    · subst e
      have e2 : 626 - (l + b) = i := by omega
      rw [e2, upd_same] at hl; cases hl
    · rw [upd_ne _ _ _ _ (by omega)] at hl ⊢
      exact h.plB p (by omega) hl
  · intro m h1 h2
    exact h.un m (by omega) h2

theorem fr0_mono {fr0 : Nat → Nat} (hs : ∀ k, k + 1 < 314 → fr0 (k + 1) ≤ fr0 k) {a c : Nat}
    (hac : a ≤ c) (hc : c < 314) : fr0 c ≤ fr0 a := by
  induction c with
  | zero => have : a = 0 := by omega
            subst this; exact Nat.le_refl _
  | succ c ih =>
    by_cases e : a = c + 1
    · subst e; exact Nat.le_refl _
    · exact Nat.le_trans (hs c hc) (ih (by omega) (by omega))

theorem rbm_branch {ch0 fr0 : Nat → Nat} {lf : Nat → Bool} {ch fr : Nat → Nat} {l b : Nat}
    {Fz Sz : Array Nat} (h : RBM ch0 fr0 lf ch fr l b Fz Sz)
    (hs : ∀ k, k + 1 < 314 → fr0 (k + 1) ≤ fr0 k)
    (i d F : Nat) (hi : i + 1 + l + b = 627) (hl : l ≤ 314) (hbl : b + 2 ≤ l) (hb : b < 313)
    (hd : d + 1 + 2 * b = 626) (hF : F = fr (d + 1) + fr d) (htop : fr (i + 1) ≤ F)
    (hx : ∀ k, k + 1 + l = 314 → F < fr0 k) :
    RBM ch0 fr0 (upd lf i false) (upd ch i (d + 1)) (upd fr i F) l (b + 1)
      (stepB b Fz Sz).1 (stepB b Fz Sz).2 := by
  have e1 : Fz.getD (2 * b) 0 = fr (d + 1) := by
    rw [h.plF (2 * b) (by omega)]
    have : 626 - 2 * b = d + 1 := by omega
    rw [this]
  have e2 : Fz.getD (2 * b + 1) 0 = fr d := by
    rw [h.plF (2 * b + 1) (by omega)]
    have : 626 - (2 * b + 1) = d := by omega
    rw [this]
  have eF : Fz.getD (2 * b) 0 + Fz.getD (2 * b + 1) 0 = F := by rw [e1, e2, hF]
  obtain ⟨z1, z2, z3, z4⟩ := stepB_spec b (l + b) Fz Sz h.szF h.szS hb (by omega) (by omega)
    (by
      intro m h1 h2
      rw [eF]
      obtain ⟨m', rfl⟩ : ∃ m', m = m' + b := ⟨m - b, by omega⟩
      rw [(h.un m' (by omega) (by omega)).1]
      have a1 := hx (313 - l) (by omega)
      have a2 := fr0_mono hs (a := 313 - m') (c := 313 - l) (by omega) (by omega)
      omega)
    (by
      rw [eF, h.plF (l + b - 1) (by omega)]
      have : 626 - (l + b - 1) = i + 1 := by omega
      rw [this]; exact htop)
  rw [eF] at z3
  have ei : 626 - (l + b) = i := by omega
  refine ⟨z1, z2, ?_, ?_, ?_, ?_, ?_⟩
  · intro p hp
    rw [z3]
    by_cases e : p = l + b
    · subst e; rw [if_pos rfl, ei, upd_same]
    · rw [if_neg e, if_neg (by omega), upd_ne _ _ _ _ (by omega)]
      exact h.plF p (by omega)
  · intro p hp hlf
    rw [z4]
    by_cases e : p = l + b
    · subst e; rw [ei, upd_same] at hlf; cases hlf
    · rw [upd_ne _ _ _ _ (by omega)] at hlf ⊢
      rw [if_neg e, if_neg (by omega)]
      exact h.plL p (by omega) hlf
  · intro p hp hlf
    rw [z4]
    by_cases e : p = l + b
    · subst e; rw [if_pos rfl, ei, upd_same]; omega
    · rw [upd_ne _ _ _ _ (by omega)] at hlf ⊢
      rw [if_neg e, if_neg (by omega)]
      exact h.plB p (by omega) hlf
  · intro m h1 h2
    have c1 : ¬ (m + (b + 1) = l + b) := by omega
    have c2 : l + b < m + (b + 1) ∧ m + (b + 1) ≤ 314 + b := ⟨by omega, by omega⟩
    rw [z3, z4, if_neg c1, if_neg c1, if_pos c2, if_pos c2]
    have : m + (b + 1) - 1 = m + b := by omega
    rw [this]
    exact h.un m h1 h2
  · have c1 : ¬ (627 = l + b) := by omega
    have c2 : ¬ (l + b < 627 ∧ 627 ≤ 314 + b) := by omega
    rw [z3, if_neg c1, if_neg c2]; exact h.sent

/-! ## the loops -/

theorem rbm_leaf_state {s1 t : St} {l b i : Nat} {Fz Sz : Array Nat} (g : rb_G (ch s1) (fr s1))
    (h : rb_SI s1 t l b (i + 1)) (hm : RBM (ch s1) (fr s1) (lf t) (ch t) (fr t) l b Fz Sz)
    (k : Nat) (hk : k + 1 + l = 314) :
    RBM (ch s1) (fr s1) (lf (rb_pl t i k)) (ch (rb_pl t i k)) (fr (rb_pl t i k)) (l + 1) b Fz Sz := by
  obtain ⟨hbase, hinv⟩ := h
  have hlo := hinv.hlo
  have hu := hinv.un k (by omega)
  have hc : ch t k < 314 := by rw [hu.2.1]; exact g.lt k (by omega)
  obtain ⟨v1, v2, v3, v4, v5⟩ := rb_pl_views t hbase i k (by omega) hc
  rw [v1, v2, v4, hu.1, hu.2.1, hu.2.2]
  exact rbm_leaf hm i k (by omega) hk

theorem rbm_close {s1 : St} (g : rb_G (ch s1) (fr s1)) (b : Nat) (Fz Sz : Array Nat) :
    ∀ (n : Nat) (t : St) (l lo : Nat) (iI leafI childI : Int), rb_SI s1 t l b lo →
      RBM (ch s1) (fr s1) (lf t) (ch t) (fr t) l b Fz Sz →
      (b = 0 ∨ b < l) → (l + b ≤ 626 ∨ b + 2 ≤ l) → (b + 2 - l) + 1 ≤ n →
      iI = (lo : Int) - 1 → leafI = 313 - (l : Int) → childI = 626 - 2 * (b : Int) →
      ∃ (t' : St) (l' lo' : Nat), placeWhileClose n iI leafI childI t = .ok ((lo' : Int) - 1, 313 - (l' : Int), t') ∧
        rb_SI s1 t' l' b lo' ∧ b + 2 ≤ l' ∧ lo' ≤ lo ∧
        RBM (ch s1) (fr s1) (lf t') (ch t') (fr t') l' b Fz Sz := by
  intro n
  induction n with
  | zero => intro t l lo iI leafI childI _ _ _ _ hn; omega
  | succ n ih =>
    intro t l lo iI leafI childI h hm hh hr hn hiI hleaf hchild
    have hlo := h.2.hlo
    have hbl := h.2.hbl
    unfold placeWhileClose
    by_cases hc : childI - iI < 2
    · simp only [hc, if_true]
      obtain ⟨i, rfl⟩ : ∃ i, lo = i + 1 := ⟨lo - 1, by omega⟩
      obtain rfl : iI = (i : Int) := by omega
      obtain ⟨k, hk⟩ : ∃ k, k + 1 + l = 314 := ⟨313 - l, by omega⟩
      obtain rfl : leafI = (k : Int) := by omega
      have hs := rb_leaf_state g h k hk (by omega) (fun h' => by omega)
      have hm' := rbm_leaf_state g h hm k hk
      rw [hs.1]
      simp only [ok_bind]
      obtain ⟨t', l', lo', e, hsi, h1, h2, h3⟩ :=
        ih (rb_pl t i k) (l + 1) i ((i : Int) - 1) ((k : Int) - 1) childI hs.2 hm' (by omega) (by omega)
          (by omega) rfl (by omega) hchild
      exact ⟨t', l', lo', e, hsi, h1, by omega, h3⟩
    · simp only [hc, if_false]
      exact ⟨t, l, lo, by rw [hiI, hleaf], h, by omega, Nat.le_refl _, hm⟩

theorem rbm_lighter {s1 : St} (g : rb_G (ch s1) (fr s1)) (b d F : Nat) (hd : d + 1 + 2 * b = 626)
    (Fz Sz : Array Nat) :
    ∀ (n : Nat) (t : St) (l lo : Nat) (iI leafI : Int), rb_SI s1 t l b lo →
      RBM (ch s1) (fr s1) (lf t) (ch t) (fr t) l b Fz Sz →
      b + 2 ≤ l → (314 - l) + 1 ≤ n → F = fr t (d + 1) + fr t d →
      iI = (lo : Int) - 1 → leafI = 313 - (l : Int) →
      ∃ (t' : St) (l' lo' : Nat), placeWhileLighter n iI leafI F t = .ok ((lo' : Int) - 1, 313 - (l' : Int), t') ∧
        rb_SI s1 t' l' b lo' ∧ b + 2 ≤ l' ∧ lo' ≤ lo ∧ F = fr t' (d + 1) + fr t' d ∧
        (∀ k, k + 1 + l' = 314 → F < fr s1 k) ∧
        RBM (ch s1) (fr s1) (lf t') (ch t') (fr t') l' b Fz Sz := by
  intro n
  induction n with
  | zero => intro t l lo iI leafI _ _ _ hn; omega
  | succ n ih =>
    intro t l lo iI leafI h hm hbl hn hF hiI hleaf
    have hlo := h.2.hlo
    have hl := h.2.hl
    unfold placeWhileLighter
    by_cases hc : leafI ≥ 0
    · simp only [hc, if_true]
      obtain ⟨i, rfl⟩ : ∃ i, lo = i + 1 := ⟨lo - 1, by omega⟩
      obtain rfl : iI = (i : Int) := by omega
      obtain ⟨k, hk⟩ : ∃ k, k + 1 + l = 314 := ⟨313 - l, by omega⟩
      obtain rfl : leafI = (k : Int) := by omega
      have hu := h.2.un k (by omega)
      rw [Int.toNat_natCast, getNode_ok _ _ _ (by rw [h.1.nodes]; omega)]
      simp only [ok_bind]
      have hfr : (nd t k).freq = fr s1 k := hu.2.2
      rw [hfr]
      by_cases hle : F ≥ fr s1 k
      · simp only [hle, if_true]
        have hs := rb_leaf_state g h k hk (by omega) (fun _ d' hd' => by
          obtain rfl : d' = d := by omega
          omega)
        have hm' := rbm_leaf_state g h hm k hk
        rw [hs.1]
        simp only [ok_bind]
        obtain ⟨v1, v2, v3, v4, v5⟩ := rb_pl_views t h.1 i k (by omega)
          (by rw [hu.2.1]; exact g.lt k (by omega))
        have hF' : F = fr (rb_pl t i k) (d + 1) + fr (rb_pl t i k) d := by
          rw [v4, upd_ne _ _ _ _ (by omega : d + 1 ≠ i), upd_ne _ _ _ _ (by omega : d ≠ i)]
          exact hF
        obtain ⟨t', l', lo', e, hsi, h1, h2, h3, h4, h5⟩ :=
          ih (rb_pl t i k) (l + 1) i ((i : Int) - 1) ((k : Int) - 1) hs.2 hm' (by omega) (by omega)
            hF' rfl (by omega)
        exact ⟨t', l', lo', e, hsi, h1, by omega, h3, h4, h5⟩
      · simp only [hle, if_false, pure_eq]
        refine ⟨t, l, i + 1, ?_, h, hbl, Nat.le_refl _, hF, ?_, hm⟩
        · have e1 : ((i + 1 : Nat) : Int) - 1 = (i : Int) := by omega
          have e2 : 313 - (l : Int) = (k : Int) := by omega
          rw [e1, e2]
        · intro k' hk'
          obtain rfl : k' = k := by omega
          omega
    · simp only [hc, if_false]
      exact ⟨t, l, lo, by rw [hiI, hleaf], h, hbl, Nat.le_refl _, hF, fun k hk => by omega, hm⟩

theorem rbm_round {s1 : St} (g : rb_G (ch s1) (fr s1)) (n : Nat) (t : St) (l b lo : Nat)
    (Fz Sz : Array Nat)
    (iI leafI childI : Int) (h : rb_SI s1 t l b lo)
    (hm : RBM (ch s1) (fr s1) (lf t) (ch t) (fr t) l b Fz Sz)
    (hh : b = 0 ∨ b < l) (hlo1 : 1 ≤ lo)
    (hiI : iI = (lo : Int) - 1) (hleaf : leafI = 313 - (l : Int)) (hchild : childI = 626 - 2 * (b : Int)) :
    ∃ (t' : St) (l' lo' : Nat),
      rebuildLoop (n + 1) iI leafI childI t =
        rebuildLoop n ((lo' : Int) - 1) (313 - (l' : Int)) (626 - 2 * ((b + 1 : Nat) : Int)) t' ∧
      rb_SI s1 t' l' (b + 1) lo' ∧ b + 1 < l' ∧ lo' < lo ∧
      RBM (ch s1) (fr s1) (lf t') (ch t') (fr t') l' (b + 1) (stepB b Fz Sz).1 (stepB b Fz Sz).2 := by
  have hlo := h.2.hlo
  have hbl := h.2.hbl
  rw [rebuildLoop]
  have hi0 : iI ≥ 0 := by omega
  simp only [hi0, if_true]
  generalize hN : numNodes + 2 = N
  have hN' : N = 629 := hN.symm
  obtain ⟨t1, l1, lo1, e1, hs1, hbl1, hlo1', hm1⟩ :=
    rbm_close g b Fz Sz N t l lo iI leafI childI h hm hh (by omega) (by omega) hiI hleaf hchild
  rw [e1]
  simp only [ok_bind]
  have hl1 := hs1.2.hl
  have hlo1e := hs1.2.hlo
  obtain ⟨d, hd⟩ : ∃ d, d + 1 + 2 * b = 626 := ⟨625 - 2 * b, by omega⟩
  have hc1 : ¬ childI < 1 := by omega
  have hct : childI.toNat = d + 1 := by omega
  simp only [hc1, if_false, hct, Nat.add_sub_cancel]
  rw [getNode_ok _ _ _ (by rw [hs1.1.nodes]; omega)]
  simp only [ok_bind]
  rw [getNode_ok _ _ _ (by rw [hs1.1.nodes]; omega)]
  simp only [ok_bind]
  obtain ⟨t2, l2, lo2, e2, hs2, hbl2, hlo2, hF2, hx2, hm2⟩ :=
    rbm_lighter g b d ((nd t1 (d + 1)).freq + (nd t1 d).freq) hd Fz Sz N t1 l1 lo1 ((lo1 : Int) - 1)
      (313 - (l1 : Int)) hs1 hm1 hbl1 (by omega) rfl rfl rfl
  rw [e2]
  simp only [ok_bind]
  generalize (nd t1 (d + 1)).freq + (nd t1 d).freq = F at e2 hF2 hx2 ⊢
  have hl2 := hs2.2.hl
  have hlo2e := hs2.2.hlo
  have hFle := rb_pair_le hs2.2 hbl2 d hd
  have htot := g.total
  obtain ⟨i2, rfl⟩ : ∃ i2, lo2 = i2 + 1 := ⟨lo2 - 1, by omega⟩
  have ei : ((i2 + 1 : Nat) : Int) - 1 = (i2 : Int) := by omega
  have hneg : ¬ ((i2 : Int) < 0) := by omega
  have em1 : (d + 1) % 32768 = d + 1 := Nat.mod_eq_of_lt (by omega)
  have em2 : F % 65536 = F := Nat.mod_eq_of_lt (by omega)
  simp only [ei, hneg, if_false, Int.toNat_natCast, em1, em2]
  rw [getNode_ok _ _ _ (by rw [hs2.1.nodes]; omega)]
  simp only [ok_bind]
  rw [rb_setNode_ok _ hs2.1 _ _ _ (by omega)]
  simp only [ok_bind]
  have b1 := rb_set_base t2 hs2.1 i2 { nd t2 i2 with leaf := false, freq := F, child := d + 1 }
  rw [getNode_ok _ _ _ (by rw [b1.nodes]; omega)]
  simp only [ok_bind]
  rw [rb_setNode_ok _ b1 _ _ _ (by omega)]
  simp only [ok_bind]
  have b2 := rb_set_base _ b1 (d + 1)
    { nd (rb_set t2 i2 { nd t2 i2 with leaf := false, freq := F, child := d + 1 }) (d + 1) with parent := i2 }
  rw [getNode_ok _ _ _ (by rw [b2.nodes]; omega)]
  simp only [ok_bind]
  rw [rb_setNode_ok _ b2 _ _ _ (by omega)]
  simp only [ok_bind]
  obtain ⟨v1, v2, v3, v4, v5⟩ := rb_bs_views t2 hs2.1 i2 d F (by omega) (by omega)
  refine ⟨rb_bs t2 i2 d F, l2, i2, ?_, ⟨rb_bs_base t2 hs2.1 i2 d F, ?_⟩, by omega, by omega, ?_⟩
  · rw [show childI - 2 = 626 - 2 * ((b + 1 : Nat) : Int) by omega]
    rfl
  · rw [v1, v2, v3, v4, v5]
    exact rb_branch_step hs2.2 hbl2 d hd F (by rw [hF2]) (fun k hk => Nat.le_of_lt (hx2 k hk))
  · rw [v1, v2, v4]
    have hb313 : b < 313 := by omega
    exact rbm_branch hm2 g.sorted i2 d F (by omega) hl2 hbl2 hb313 hd hF2
      (by rw [hF2]; exact hs2.2.o2 d hd hbl2) hx2

theorem rbm_outer {s1 : St} (g : rb_G (ch s1) (fr s1)) :
    ∀ (n : Nat) (t : St) (l b lo : Nat) (iI leafI childI : Int) (Fz Sz : Array Nat), rb_SI s1 t l b lo →
      RBM (ch s1) (fr s1) (lf t) (ch t) (fr t) l b Fz Sz →
      (b = 0 ∨ b < l) → lo + 1 ≤ n →
      iI = (lo : Int) - 1 → leafI = 313 - (l : Int) → childI = 626 - 2 * (b : Int) →
      ∃ t', rebuildLoop n iI leafI childI t = .ok t' ∧ rb_SI s1 t' 314 313 0 ∧
        RBM (ch s1) (fr s1) (lf t') (ch t') (fr t') 314 313
          (buildInner (313 - b) (2 * b) (314 + b) Fz Sz).1 (buildInner (313 - b) (2 * b) (314 + b) Fz Sz).2 := by
  intro n
  induction n with
  | zero => intro t l b lo iI leafI childI _ _ _ _ _ hn; omega
  | succ n ih =>
    intro t l b lo iI leafI childI Fz Sz h hm hh hn hiI hleaf hchild
    have hlo := h.2.hlo
    have hl := h.2.hl
    by_cases h0 : lo = 0
    · subst h0
      obtain rfl : l = 314 := by omega
      obtain rfl : b = 313 := by omega
      rw [rebuildLoop]
      have hi0 : ¬ iI ≥ 0 := by omega
      simp only [hi0, if_false]
      exact ⟨t, rfl, h, hm⟩
    · obtain ⟨t', l', lo', e, hs, hbl', hlo', hm'⟩ :=
        rbm_round g n t l b lo Fz Sz iI leafI childI h hm hh (by omega) hiI hleaf hchild
      rw [e]
      have hb313 : b < 313 := by omega
      have e3 : 313 - b = (313 - (b + 1)) + 1 := by omega
      rw [e3, buildInner_succ]
      exact ih t' l' (b + 1) lo' _ _ _ _ _ hs hm' (Or.inr hbl') (by omega) rfl rfl rfl

end LhasaV.Lh1Mirror
