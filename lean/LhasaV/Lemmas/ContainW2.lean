import LhasaV.Lemmas.ContainW1
/-!
# C10 with `w=DIR` (part 2): every file-system operation, relative to the base `c ++ ds`

`InvW c ds s`: the current directory is `c`; every link visible below the base `c ++ ds` is safe;
whatever exists on the chain `c ++ pre` (`pre` a non-empty prefix of `ds`) is a directory; `c` and
its parent are directories.

`StepW c ds s s'`: `s'` satisfies `InvW`, no directory of `s` disappeared, and every mutation
logged on the way is `Allowed`: it acts on a path below the base, or it is the `mkdir` of a chain
element that was not a directory in `s` (a missing component of `DIR`, created by
`make_parent_directories`).

Every operation of `lib/lha_arch_unix.c` is a `StepW` when its path `Lands` below the base
(`mkdir`: or on the chain); creating a file or a link needs `BPath` (when the path resolves, the
base exists — so the new object is not the base itself).
-/
namespace LhasaV.ContainW
open LhasaV LhasaV.Header LhasaV.Extract LhasaV.GlobFs LhasaV.Contain

structure InvW (c : Fs.Path) (ds : List Bytes) (s : Fs.St) : Prop where
  cwd : s.cwd = c
  safe : SafeAt (c ++ ds) s
  chain : ∀ pre, pre <+: ds → pre ≠ [] → NoFL s (c ++ pre)
  dirC : IsDir s c
  dirP : IsDir s c.dropLast

/-- below the base, or the `mkdir` of a component of `DIR` that was not there in state `s` -/
def Allowed (c : Fs.Path) (ds : List Bytes) (s : Fs.St) (m : Fs.Mut) : Prop :=
  (c ++ ds) <+: m.path ∨
    (m.op = "mkdir" ∧ ¬ IsDir s m.path ∧ ∃ pre, pre <+: ds ∧ pre ≠ [] ∧ m.path = c ++ pre)

theorem Allowed.mono {c : Fs.Path} {ds : List Bytes} {a b : Fs.St} {m : Fs.Mut} (hm : DirMono a b)
    (h : Allowed c ds b m) : Allowed c ds a m :=
  h.imp id (fun ⟨h1, h2, h3⟩ => ⟨h1, fun hd => h2 (hm.dirs _ hd), h3⟩)

/-- the log grew by allowed mutations only (relative to the state at the start) -/
def LogW (c : Fs.Path) (ds : List Bytes) (s s' : Fs.St) : Prop :=
  ∃ new, s'.log = new ++ s.log ∧ ∀ m ∈ new, Allowed c ds s m

theorem LogW.refl (c : Fs.Path) (ds : List Bytes) (s : Fs.St) : LogW c ds s s := ⟨[], by simp, by simp⟩

theorem LogW.trans {c : Fs.Path} {ds : List Bytes} {a b d : Fs.St} (hm : DirMono a b)
    (h1 : LogW c ds a b) (h2 : LogW c ds b d) : LogW c ds a d := by
  obtain ⟨n1, e1, p1⟩ := h1
  obtain ⟨n2, e2, p2⟩ := h2
  refine ⟨n2 ++ n1, by rw [e2, e1, List.append_assoc], ?_⟩
  intro m hm'
  rcases List.mem_append.1 hm' with hm' | hm'
  · exact (p2 m hm').mono hm
  · exact p1 m hm'

structure StepW (c : Fs.Path) (ds : List Bytes) (s s' : Fs.St) : Prop where
  inv : InvW c ds s'
  mono : DirMono s s'
  log : LogW c ds s s'

theorem StepW.refl {c : Fs.Path} {ds : List Bytes} {s : Fs.St} (hi : InvW c ds s) : StepW c ds s s :=
  ⟨hi, DirMono.refl s, LogW.refl c ds s⟩

theorem StepW.trans {c : Fs.Path} {ds : List Bytes} {a b d : Fs.St} (h1 : StepW c ds a b)
    (h2 : StepW c ds b d) : StepW c ds a d :=
  ⟨h2.inv, h1.mono.trans h2.mono, h1.log.trans h1.mono h2.log⟩

/-! ## `NoFL` and `InvW` under the primitive state changes -/

theorem noFL_setEnt_ne (s : Fs.St) (k x : Fs.Path) (e : Fs.Ent) (h : x ≠ k) (hx : NoFL s x) :
    NoFL (Fs.setEnt s k e) x := by
  intro e' he'; rw [lookup_setEnt_ne s k x e h] at he'; exact hx e' he'

theorem noFL_setEnt_dir (s : Fs.St) (k x : Fs.Path) (m t : Nat) (hx : NoFL s x) :
    NoFL (Fs.setEnt s k (.dir m t)) x := by
  by_cases h : x = k
  · subst h
    intro e' he'
    by_cases h0 : x = []
    · subst h0; rw [lookup_root] at he'; injection he' with he'; exact ⟨_, _, he'.symm⟩
    · rw [lookup_setEnt_eq s x _ h0] at he'; injection he' with he'; exact ⟨m, t, he'.symm⟩
  · exact noFL_setEnt_ne s k x _ h hx

theorem noFL_delEnt (s : Fs.St) (k x : Fs.Path) (hx : NoFL s x) : NoFL (Fs.delEnt s k) x := by
  intro e' he'
  by_cases h : x = k
  · subst h
    by_cases h0 : x = []
    · subst h0; rw [lookup_root] at he'; injection he' with he'; exact ⟨_, _, he'.symm⟩
    · rw [lookup_delEnt_eq s x h0] at he'; cases he'
  · rw [lookup_delEnt_ne s k x h] at he'; exact hx e' he'

theorem noFL_stampParent (s : Fs.St) (p x : Fs.Path) (hx : NoFL s x) : NoFL (Fs.stampParent s p) x := by
  simp only [Fs.stampParent]
  split
  · split
    · exact hx
    · exact noFL_setEnt_dir s _ x _ _ hx
  · exact hx

section inv
variable {c : Fs.Path} {ds : List Bytes} {s : Fs.St}

/-- `k` is not an element of the chain -/
def OffChain (c : Fs.Path) (ds : List Bytes) (k : Fs.Path) : Prop :=
  ∀ pre, pre <+: ds → pre ≠ [] → k ≠ c ++ pre

theorem inv_setEnt (hi : InvW c ds s) (k : Fs.Path) (e : Fs.Ent) (he : OkEnt e)
    (hk : (∃ m t, e = .dir m t) ∨ OffChain c ds k) (hd : IsDir s k → ∃ m t, e = .dir m t) :
    InvW c ds (Fs.setEnt s k e) := by
  have hm := dirMono_setEnt s k e hd
  refine ⟨by rw [setEnt_cwd]; exact hi.cwd, safeAt_setEnt _ s hi.safe k e he, ?_,
    hm.dirs _ hi.dirC, hm.dirs _ hi.dirP⟩
  intro pre hp hne
  rcases hk with ⟨m, t, rfl⟩ | hk
  · exact noFL_setEnt_dir s k _ m t (hi.chain pre hp hne)
  · exact noFL_setEnt_ne s k _ e (fun h => hk pre hp hne h.symm) (hi.chain pre hp hne)

theorem inv_delEnt (hi : InvW c ds s) (k : Fs.Path) (hd : ¬ IsDir s k) :
    InvW c ds (Fs.delEnt s k) := by
  have hm := dirMono_delEnt s k hd
  exact ⟨hi.cwd, safeAt_delEnt _ s hi.safe k, fun pre hp hne => noFL_delEnt s k _ (hi.chain pre hp hne),
    hm.dirs _ hi.dirC, hm.dirs _ hi.dirP⟩

theorem inv_stampParent (hi : InvW c ds s) (p : Fs.Path) : InvW c ds (Fs.stampParent s p) := by
  have hm := dirMono_stampParent s p
  exact ⟨by rw [stampParent_cwd]; exact hi.cwd, safeAt_stampParent _ s hi.safe p,
    fun pre hp hne => noFL_stampParent s p _ (hi.chain pre hp hne), hm.dirs _ hi.dirC, hm.dirs _ hi.dirP⟩

theorem inv_logMut (hi : InvW c ds s) (op : String) (p : Fs.Path) : InvW c ds (Fs.logMut s op p) :=
  ⟨hi.cwd, hi.safe, hi.chain, hi.dirC, hi.dirP⟩

theorem logW_one (s s' : Fs.St) (op : String) (q : Fs.Path) (hl : s'.log = s.log)
    (ha : Allowed c ds s ⟨op, q⟩) : LogW c ds s (Fs.logMut s' op q) :=
  ⟨[⟨op, q⟩], by rw [logMut_log, hl]; rfl, by
    intro m hm
    have : m = ⟨op, q⟩ := by simpa using hm
    subst this; exact ha⟩

theorem logW_quiet (s s' : Fs.St) (hl : s'.log = s.log) : LogW c ds s s' := ⟨[], by simp [hl], by simp⟩

/-- a new object where there was none: `setEnt`, parent stamp, log entry -/
theorem step_create (hi : InvW c ds s) (q : Fs.Path) (e : Fs.Ent) (op : String)
    (hn : ¬ (Fs.lookup s q).isSome = true) (he : OkEnt e)
    (hk : (∃ m t, e = .dir m t) ∨ OffChain c ds q) (ha : Allowed c ds s ⟨op, q⟩) :
    StepW c ds s (Fs.logMut (Fs.stampParent (Fs.setEnt s q e) q) op q) := by
  have hnd : ¬ IsDir s q := not_isDir_of_none s q hn
  exact ⟨inv_logMut (inv_stampParent (inv_setEnt hi q e he hk (fun h => absurd h hnd)) q) op q,
    dirMono_create s q e op hnd,
    logW_one s _ op q (by rw [stampParent_log, setEnt_log]) ha⟩

/-- an object (not a directory) removed: `delEnt`, parent stamp, log entry -/
theorem step_remove (hi : InvW c ds s) (q : Fs.Path) (hnd : ¬ IsDir s q)
    (ha : (c ++ ds) <+: q) :
    StepW c ds s (Fs.logMut (Fs.stampParent (Fs.delEnt s q) q) "unlink" q) :=
  ⟨inv_logMut (inv_stampParent (inv_delEnt hi q hnd) q) _ q,
    ((dirMono_delEnt s q hnd).trans (dirMono_stampParent _ _)).trans (dirMono_logMut _ _ _),
    logW_one s _ _ q (by rw [stampParent_log, delEnt_log]) (Or.inl ha)⟩

/-- an existing directory re-written as a directory, with a log entry -/
theorem step_setDir (hi : InvW c ds s) (q : Fs.Path) (m t : Nat) (op : String)
    (ha : (c ++ ds) <+: q) : StepW c ds s (Fs.logMut (Fs.setEnt s q (.dir m t)) op q) :=
  ⟨inv_logMut (inv_setEnt hi q _ (okEnt_dir _ _) (Or.inl ⟨m, t, rfl⟩) (fun _ => ⟨m, t, rfl⟩)) op q,
    (dirMono_setEnt s q _ (fun _ => ⟨m, t, rfl⟩)).trans (dirMono_logMut _ _ _),
    logW_one s _ op q (setEnt_log _ _ _) (Or.inl ha)⟩

theorem offChain_of_file (hi : InvW c ds s) (q : Fs.Path) (d : Bytes) (m t : Nat)
    (hl : Fs.lookup s q = some (.file d m t)) : OffChain c ds q := by
  intro pre hp hne hq
  subst hq
  obtain ⟨m', t', h⟩ := hi.chain pre hp hne _ hl
  cases h

/-- an existing file re-written as a file -/
theorem inv_setFile (hi : InvW c ds s) (q : Fs.Path) (d d' : Bytes) (m m' t t' : Nat)
    (hl : Fs.lookup s q = some (.file d m t)) :
    InvW c ds (Fs.setEnt s q (.file d' m' t')) ∧ DirMono s (Fs.setEnt s q (.file d' m' t')) :=
  ⟨inv_setEnt hi q _ (okEnt_file _ _ _) (Or.inr (offChain_of_file hi q d m t hl))
      (fun hd => absurd hd (not_isDir_of_file s q d m t hl)),
    dirMono_setEnt s q _ (fun hd => absurd hd (not_isDir_of_file s q d m t hl))⟩

theorem step_setFile (hi : InvW c ds s) (q : Fs.Path) (d d' : Bytes) (m m' t t' : Nat) (op : String)
    (hl : Fs.lookup s q = some (.file d m t)) (ha : (c ++ ds) <+: q) :
    StepW c ds s (Fs.logMut (Fs.setEnt s q (.file d' m' t')) op q) := by
  obtain ⟨h1, h2⟩ := inv_setFile hi q d d' m m' t t' hl
  exact ⟨inv_logMut h1 op q, h2.trans (dirMono_logMut _ _ _),
    logW_one s _ op q (setEnt_log _ _ _) (Or.inl ha)⟩

end inv

/-! ## where a path resolves -/

/-- wherever `p` resolves in `s` (last component followed or not), that place is below the base -/
def Lands (c : Fs.Path) (ds : List Bytes) (s : Fs.St) (p : Bytes) : Prop :=
  ∀ fl q, Fs.resolvePath s fl p = some q → (c ++ ds) <+: q

/-- … and then the base exists, as a directory -/
def BPath (c : Fs.Path) (ds : List Bytes) (s : Fs.St) (p : Bytes) : Prop :=
  ∀ fl q, Fs.resolvePath s fl p = some q → (c ++ ds) <+: q ∧ IsDir s (c ++ ds)

/-- where `mkdir` may act: below the base, on the chain, or (without effect) on `c` itself -/
def MkPath (c : Fs.Path) (ds : List Bytes) (s : Fs.St) (p : Bytes) : Prop :=
  ∀ q, Fs.resolvePath s false p = some q →
    (c ++ ds) <+: q ∨ (∃ pre, pre <+: ds ∧ pre ≠ [] ∧ q = c ++ pre) ∨ q = c

theorem BPath.lands {c : Fs.Path} {ds : List Bytes} {s : Fs.St} {p : Bytes} (h : BPath c ds s p) :
    Lands c ds s p := fun fl q hq => (h fl q hq).1

theorem Lands.mkPath {c : Fs.Path} {ds : List Bytes} {s : Fs.St} {p : Bytes} (h : Lands c ds s p) :
    MkPath c ds s p := fun q hq => Or.inl (h false q hq)

theorem chain_eq_base {c : Fs.Path} {ds pre : List Bytes} (h1 : (c ++ ds) <+: c ++ pre)
    (h2 : pre <+: ds) : pre = ds :=
  List.IsPrefix.eq_of_length h2
    (Nat.le_antisymm h2.length_le ((List.prefix_append_right_inj c).1 h1).length_le)

/-- a place below the base where nothing is, while the base exists, is off the chain -/
theorem offChain_of_fresh {c : Fs.Path} {ds : List Bytes} {s : Fs.St} (q : Fs.Path)
    (hq : (c ++ ds) <+: q) (hb : IsDir s (c ++ ds)) (hn : ¬ (Fs.lookup s q).isSome = true) :
    OffChain c ds q := by
  intro pre hp _ he
  subst he
  have := chain_eq_base hq hp
  subst this
  obtain ⟨m, t, hl⟩ := hb
  rw [hl] at hn; exact hn rfl

/-! ## the operations -/

section ops
variable {c : Fs.Path} {ds : List Bytes} {s : Fs.St}

/-- `mkdir(path, mode)` -/
theorem mkdir_w (hi : InvW c ds s) (path : Bytes) (mode : Nat) (hp : MkPath c ds s path) :
    StepW c ds s (Fs.mkdir s path mode).2 := by
  unfold Fs.mkdir
  split
  · exact StepW.refl hi
  · rename_i q hq
    have hq' := hp q hq
    repeat' split
    all_goals first
      | exact StepW.refl hi
      | (have hn : ¬ (Fs.lookup s q).isSome = true := by assumption
         refine step_create hi q _ _ hn (okEnt_dir _ _) (Or.inl ⟨_, _, rfl⟩) ?_
         rcases hq' with h | h | h
         · exact Or.inl h
         · exact Or.inr ⟨rfl, not_isDir_of_none s q hn, h⟩
         · subst h
           obtain ⟨m, t, hl⟩ := hi.dirC
           rw [hl] at hn; exact absurd rfl hn)

theorem unlink_cases' (s : Fs.St) (path : Bytes) :
    (Fs.unlink s path).2 = s ∨
      ∃ q, Fs.resolvePath s false path = some q ∧ ¬ IsDir s q ∧
        (Fs.unlink s path).2 = Fs.logMut (Fs.stampParent (Fs.delEnt s q) q) "unlink" q := by
  unfold Fs.unlink
  split
  · exact Or.inl rfl
  · rename_i q hq
    cases hl : Fs.lookup s q with
    | none => exact Or.inl rfl
    | some e =>
      cases e with
      | dir m t => exact Or.inl rfl
      | file d m t =>
        simp only
        split
        · exact Or.inl rfl
        · exact Or.inr ⟨q, hq, not_isDir_of_file s q d m t hl, rfl⟩
      | link t =>
        simp only
        split
        · exact Or.inl rfl
        · exact Or.inr ⟨q, hq, (by rintro ⟨m', t', h'⟩; rw [hl] at h'; cases h'), rfl⟩

/-- `unlink(path)` -/
theorem unlink_w (hi : InvW c ds s) (path : Bytes) (hp : Lands c ds s path) :
    StepW c ds s (Fs.unlink s path).2 := by
  rcases unlink_cases' s path with h | ⟨q, hq, hnd, h⟩
  · rw [h]; exact StepW.refl hi
  · rw [h]; exact step_remove hi q hnd (hp false q hq)

/-- `open(path, O_CREAT|O_EXCL|O_WRONLY)`: the new file lies below the base -/
theorem openExcl_w (hi : InvW c ds s) (path : Bytes) (hp : BPath c ds s path) :
    StepW c ds s (Fs.openExcl s path).2 ∧ ∀ q, (Fs.openExcl s path).1 = some q → (c ++ ds) <+: q := by
  unfold Fs.openExcl
  split
  · exact ⟨StepW.refl hi, by intro q h; cases h⟩
  · rename_i q hq
    obtain ⟨hq', hb⟩ := hp false q hq
    split
    · exact ⟨StepW.refl hi, by intro q h; cases h⟩
    · rename_i hno
      have hn : ¬ (Fs.lookup s q).isSome = true := fun h => hno (Or.inr h)
      repeat' split
      all_goals first
        | exact ⟨StepW.refl hi, by intro q h; cases h⟩
        | (refine ⟨step_create hi q _ _ hn (okEnt_file _ _ _)
              (Or.inr (offChain_of_fresh q hq' hb hn)) (Or.inl hq'), ?_⟩
           intro q' h; injection h with h; subst h; exact hq')

/-- `symlink(target, path)` with a SAFE target -/
theorem symlink_w (hi : InvW c ds s) (path target : Bytes) (hp : BPath c ds s path)
    (ht : SafeTarget target) : StepW c ds s (Fs.symlink s path target).2 := by
  unfold Fs.symlink
  split
  · exact StepW.refl hi
  · rename_i q hq
    obtain ⟨hq', hb⟩ := hp false q hq
    split
    · exact StepW.refl hi
    · rename_i hno
      have hn : ¬ (Fs.lookup s q).isSome = true := fun h => hno (Or.inr h)
      repeat' split
      all_goals first
        | exact StepW.refl hi
        | exact step_create hi q _ _ hn (okEnt_link _ ht)
            (Or.inr (offChain_of_fresh q hq' hb hn)) (Or.inl hq')

/-- `fchmod(fd, mode)`: no log entry -/
theorem fchmod_w (hi : InvW c ds s) (p : Fs.Path) (mode : Nat) :
    StepW c ds s (Fs.fchmod s p mode) := by
  unfold Fs.fchmod
  split
  · rename_i d m t hl
    obtain ⟨h1, h2⟩ := inv_setFile hi p d d m (mode % 4096) t t hl
    exact ⟨h1, h2, logW_quiet s _ (setEnt_log _ _ _)⟩
  · exact StepW.refl hi

/-- write + close on a file below the base -/
theorem writeAll_w (hi : InvW c ds s) (p : Fs.Path) (data : Bytes) (hp : (c ++ ds) <+: p) :
    StepW c ds s (Fs.writeAll s p data) := by
  unfold Fs.writeAll
  split
  · rename_i d m t hl
    exact step_setFile hi p d data m m t s.now "write" hl hp
  · exact StepW.refl hi

/-- `chmod(path, mode)` (follows links) -/
theorem chmod_w (hi : InvW c ds s) (path : Bytes) (mode : Nat) (hp : Lands c ds s path) :
    StepW c ds s (Fs.chmod s path mode).2 := by
  unfold Fs.chmod
  split
  · exact StepW.refl hi
  · rename_i q hq
    have hq' := hp true q hq
    split
    · split
      · exact StepW.refl hi
      · exact step_setDir hi q _ _ _ hq'
    · rename_i d m t hl
      exact step_setFile hi q d d m (mode % 4096) t t "chmod" hl hq'
    · exact StepW.refl hi

/-- `utime(path, t)` (follows links) -/
theorem utime_w (hi : InvW c ds s) (path : Bytes) (t : Nat) (hp : Lands c ds s path) :
    StepW c ds s (Fs.utime s path t).2 := by
  unfold Fs.utime
  split
  · exact StepW.refl hi
  · rename_i q hq
    have hq' := hp true q hq
    split
    · split
      · exact StepW.refl hi
      · exact step_setDir hi q _ _ _ hq'
    · rename_i d m t' hl
      exact step_setFile hi q d d m m t' t "utime" hl hq'
    · exact StepW.refl hi

end ops

end LhasaV.ContainW
