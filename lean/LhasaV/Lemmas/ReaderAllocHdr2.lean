import LhasaV.Lemmas.ReaderAllocHdr1
/-!
# Allocation-aware header parser, part 2: refinement of the level decoders and of `readA`
-/
set_option linter.unusedSimpArgs false

namespace LhasaV.Alloc
open LhasaV LhasaV.Header

/-- one structural step of a refinement proof between mirrored `do` blocks -/
macro "rstep" : tactic => `(tactic| with_reducible first
  | exact Refines.liftR _ _
  | exact Refines.failH _
  | exact Refines.pure _
  | exact extendA_refines (by assumption) _ _ _
  | exact decodeExtendedHeadersA_refines (by assumption) _ _
  | refine Refines.bind ?_ (fun _ => ?_)
  | refine Refines.ite (fun _ => ?_) (fun _ => ?_))

section
variable {o : Oracle} {w : Bool} (hw : w = true ∨ NoFail o)
include hw

theorem readL1ExtA_refines (h : Hdr) (inp : Bytes) :
    Refines w (readL1ExtA o h inp) (readL1Ext h inp) := by
  fun_induction readL1Ext h inp with
  | case1 h inp hc =>
    rw [readL1ExtA]; simp only [if_pos hc]; exact Refines.liftR _ _
  | case2 h inp hc ih =>
    rw [readL1ExtA]; simp only [if_neg hc]
    refine Refines.bind (Refines.liftR _ _) (fun len => ?_)
    by_cases hz : len = 0
    · simp only [dif_pos hz]; exact Refines.pure _
    · simp only [dif_neg hz]
      refine Refines.ite (fun _ => Refines.failH h) (fun hb => ?_)
      refine Refines.realloc_bind hw ?_ (fun hw' => ?_)
      · simp only [if_false, Bool.true_eq_false]
        by_cases hl : inp.length < len
        · simp only [dif_pos hl]; exact Refines.failH h
        · simp only [dif_neg hl]
          refine Refines.ite (fun _ => Refines.failH _) (fun hc1 => ?_)
          refine Refines.ite (fun _ => Refines.failH _) (fun hc2 => ?_)
          exact ih len hl hc2
      · simp only [↓reduceIte]; exact Refines.failAny hw' _ _

omit hw in
theorem splitFilename_eq (h : Hdr) : splitFilename h =
    match h.filename with
    | none => h
    | some f => if f.contains 0x2f then splitFilename h else h := by
  unfold splitFilename
  cases h.filename with
  | none => rfl
  | some f => simp only []; split <;> rfl

theorem splitFilenameA_refines (h : Hdr) :
    Refines w (splitFilenameA o h) (.ok (splitFilename h)) := by
  unfold splitFilenameA
  rw [splitFilename_eq]
  cases h.filename with
  | none => exact Refines.pure h
  | some f =>
    simp only []
    split
    · refine Refines.malloc_bind hw ?_ (fun hw' => ?_)
      · simp only [↓reduceIte]; exact Refines.pure _
      · simp only [Bool.false_eq_true, ↓reduceIte]; exact Refines.failAny hw' _ _
    · exact Refines.pure h

theorem level0PathA_refines (h : Hdr) (data : Bytes) :
    Refines w (level0PathA o h data) (.ok (level0Path h data)) := by
  unfold level0PathA level0Path
  split
  · exact Refines.pure h
  · refine Refines.malloc_bind hw ?_ (fun hw' => ?_)
    · simp only [↓reduceIte]
      exact splitFilenameA_refines hw _
    · simp only [Bool.false_eq_true, ↓reduceIte]; exact Refines.failAny hw' _ _

set_option maxHeartbeats 1000000 in
theorem decodeLevel0A_refines (mk : Nat → Nat) (h : Hdr) (inp : Bytes) :
    Refines w (decodeLevel0A o mk h inp) (decodeLevel0 mk h inp) := by
  unfold decodeLevel0A decodeLevel0
  simp only [failH_bind, Res.fail_bind, Res.fault_bind, liftR_fault_bind, pure_bind', Res.ok_bind, Res.pure_eq]
  repeat' rstep
  all_goals refine Refines.bind_val (level0PathA_refines hw _ _) ?_
  all_goals repeat' rstep

theorem decodeLevel1A_refines (mk : Nat → Nat) (h : Hdr) (inp : Bytes) :
    Refines w (decodeLevel1A o mk h inp) (decodeLevel1 mk h inp) := by
  unfold decodeLevel1A decodeLevel1
  refine Refines.bind (decodeLevel0A_refines hw mk h inp) (fun x => ?_)
  obtain ⟨h1, inp1⟩ := x
  simp only []
  refine Refines.bind (readL1ExtA_refines hw _ _) (fun y => ?_)
  obtain ⟨h2, inp2⟩ := y
  simp only []
  refine Refines.bind (decodeExtendedHeadersA_refines hw _ _) (fun _ => ?_)
  exact Refines.pure _

set_option maxHeartbeats 1000000 in
theorem decodeLevel2A_refines (h : Hdr) (inp : Bytes) :
    Refines w (decodeLevel2A o h inp) (decodeLevel2 h inp) := by
  unfold decodeLevel2A decodeLevel2
  simp only [failH_bind, Res.fail_bind, Res.fault_bind, liftR_fault_bind, pure_bind', Res.ok_bind, Res.pure_eq]
  repeat' rstep

set_option maxHeartbeats 1000000 in
theorem decodeLevel3A_refines (h : Hdr) (inp : Bytes) :
    Refines w (decodeLevel3A o h inp) (decodeLevel3 h inp) := by
  unfold decodeLevel3A decodeLevel3
  simp only [failH_bind, Res.fail_bind, Res.fault_bind, liftR_fault_bind, pure_bind', Res.ok_bind, Res.pure_eq]
  repeat' rstep

/-! ### post-processing -/

theorem parseSymlinkA_refines (h : Hdr) : Refines w (parseSymlinkA o h) (parseSymlink h) := by
  unfold parseSymlinkA parseSymlink
  refine Refines.malloc_bind hw ?_ (fun hw' => ?_)
  · simp only [Bool.true_eq_false, if_false, pure_bind']
    cases (fullPath h).findIdx? (· == 0x7c) with
    | none =>
      simp only []
      exact Refines.bind_ok (release_ok 1) (Refines.failH h)
    | some p =>
      simp only []
      refine Refines.malloc_bind hw ?_ (fun hw'' => ?_)
      · simp only [Bool.true_eq_false, if_false, pure_bind']
        refine Refines.bind_ok (freeStr_ok _) ?_
        refine Refines.bind_ok (freeStr_ok _) ?_
        exact splitFilenameA_refines hw _
      · simp only [↓reduceIte, failH_bind]
        exact Refines.bind_ok (release_ok 1) (Refines.failAny hw'' _ _)
  · simp only [↓reduceIte, failH_bind]; exact Refines.failAny hw' _ _

set_option maxHeartbeats 1000000 in
theorem postProcessA_refines (h : Hdr) : Refines w (postProcessA o h) (postProcess h) := by
  unfold postProcessA postProcess ppTail ppAmiga
  simp only [failH_bind, Res.fail_bind, Res.fault_bind, liftR_fault_bind, pure_bind', Res.ok_bind, Res.pure_eq]
  repeat' (first | rstep | exact parseSymlinkA_refines (by assumption) _)

set_option maxHeartbeats 1000000 in
theorem readBodyA_refines (mk : Nat → Nat) (inp : Bytes) :
    Refines w (readBodyA o mk inp) (Header.read mk inp) := by
  unfold readBodyA Header.read
  simp only [failH_bind, Res.fail_bind, Res.fault_bind, liftR_fault_bind, pure_bind', Res.ok_bind, Res.pure_eq]
  repeat' (first | rstep | exact decodeLevel0A_refines (by assumption) _ _ _
                 | exact decodeLevel1A_refines (by assumption) _ _ _
                 | exact decodeLevel2A_refines (by assumption) _ _ | exact decodeLevel3A_refines (by assumption) _ _
                 | exact postProcessA_refines (by assumption) _)

theorem readRestA_refines' (mk : Nat → Nat) (inp : Bytes) :
    Refines w (readRestA o mk inp) (Header.read mk inp) := by
  intro hp
  have := readBodyA_refines hw mk inp hp
  unfold readRestA
  cases hb : readBodyA o mk inp hp <;> rw [hb] at this <;> exact this

theorem readA_refines' (mk : Nat → Nat) (inp : Bytes) :
    Refines w (readA o mk inp) (Header.read mk inp) := by
  intro hp
  unfold readA
  by_cases ho : o hp.n = true
  · rw [if_pos ho]
    rcases hw with h | h
    · exact Or.inl h
    · rw [h hp.n] at ho; cases ho
  · rw [if_neg ho]
    exact readRestA_refines' hw mk inp _

end

/-- **Refinement of the header parser.**  When no allocation fails, `readA` returns exactly what
`Header.read` returns. -/
theorem readA_refines {o : Oracle} (hn : NoFail o) (mk : Nat → Nat) (inp : Bytes) :
    Refines false (readA o mk inp) (Header.read mk inp) := readA_refines' (Or.inr hn) mk inp

theorem readRestA_refines {o : Oracle} (hn : NoFail o) (mk : Nat → Nat) (inp : Bytes) :
    Refines false (readRestA o mk inp) (Header.read mk inp) := readRestA_refines' (Or.inr hn) mk inp

/-- **The header parser under ANY allocation failures**: `readA` takes an error return or returns
what `Header.read` returns; it faults only if `Header.read` does (which it never does). -/
theorem readA_weak (o : Oracle) (mk : Nat → Nat) (inp : Bytes) :
    Refines true (readA o mk inp) (Header.read mk inp) := readA_refines' (Or.inl rfl) mk inp

theorem readRestA_weak (o : Oracle) (mk : Nat → Nat) (inp : Bytes) :
    Refines true (readRestA o mk inp) (Header.read mk inp) := readRestA_refines' (Or.inl rfl) mk inp

end LhasaV.Alloc
