import LhasaV.Lemmas.ArchiveOf1
import LhasaV.Lemmas.StreamProps
/-!
# C06, archives as bytes (part 2): the typed fields of a member, `Encodable`, packers

The archive builder is parameterised by a *packer* `pk`: how a file's data is stored
(`pk.pack : data ↦ (method, compressed bytes)`) and the header level (2, or 1 with `pk.level1`);
`archiveWith pk` writes the headers with `Spec.HeaderEnc.encode`, each followed by the compressed
bytes.  `archiveOf` of ExtractTree15 is `archiveWith stored` (`archiveOf_eq`).

`fieldsOf pk e` are the typed header fields of a member; `EntryEnc e` is the (decidable) condition
under which they fit the level-2 format and survive the parser's string handling; `PackOk pk data`
says that the packer's output for `data` is a member the library can decode back to `data`
(recognised signature, decoder round trip).  Then `Spec.HeaderEnc.wf (fieldsOf pk e)` holds
(`fields_wf`), so `header_roundtrip` applies.
-/
set_option linter.unusedSimpArgs false
namespace LhasaV.ArchiveOf
open LhasaV LhasaV.Header LhasaV.Extract LhasaV.GlobFs LhasaV.Contain LhasaV.ExtractTree
open LhasaV.ExtractTree.Sample LhasaV.Spec.HeaderEnc

/-- the path header of a file or link: absent at the top level -/
def pathExt (dl : Fs.Path) : List Ext := if dl = [] then [] else [.path (sp dl)]

/-- how an archive is written: a file's data becomes a method name (5 bytes) and compressed
bytes; headers are level 2, or level 1 (with the Unix time in an extended header) -/
structure Packer where
  pack : Bytes → Bytes × Bytes
  level1 : Bool := false

/-- stored members (`-lh0-`), level-2 headers -/
def stored : Packer := { pack := fun d => (lh0, d) }

/-- the header level -/
def lvl (pk : Packer) : Nat := if pk.level1 then 1 else 2

/-- the base header's time field: the Unix time at level 2; at level 1 (an MS-DOS stamp) zero -/
def baseTime (pk : Packer) (t : Nat) : Nat := if pk.level1 then 0 else t

/-- … the Unix time then travels in an extended header -/
def timeExt (pk : Packer) (t : Nat) : List Ext := if pk.level1 then [.unixTime t []] else []

/-- the typed header fields of an entry -/
def fieldsOf (pk : Packer) : Entry → Fields
  | .dir p perms t =>
    { level := lvl pk, method := lhdM, clen := 0, length := 0, time := baseTime pk t, crc := 0, osType := 0x55,
      exts := [.path (sp p)] ++ permExt perms ++ timeExt pk t }
  | .file p data perms t =>
    { level := lvl pk, method := (pk.pack data).1, clen := (pk.pack data).2.length, length := data.length,
      time := baseTime pk t, crc := (Crc.buf 0 data).toNat, osType := 0x55,
      exts := [.filename (p.getLast?.getD [])] ++ pathExt p.dropLast ++ permExt perms ++ timeExt pk t }
  | .link p tg =>
    { level := lvl pk, method := lhdM, clen := 0, length := 0, time := 0, crc := 0, osType := 0x55,
      exts := [.filename (p.getLast?.getD [] ++ [0x7c] ++ tg)] ++ pathExt p.dropLast ++
              [.unixPerm 0o120777 []] ++ timeExt pk 0 }

/-- the member data (compressed bytes) that follows the header -/
def dataOf (pk : Packer) : Entry → Bytes
  | .file _ data _ _ => (pk.pack data).2
  | _ => []

/-- one member: header and compressed bytes -/
def memberW (pk : Packer) (e : Entry) : Bytes := encode (fieldsOf pk e) ++ dataOf pk e

/-- **the archive builder**: the members one after the other -/
def archiveWith (pk : Packer) (es : List Entry) : Array UInt8 := (es.map (memberW pk)).flatten.toArray

theorem member_eq (e : Entry) : member e = memberW stored e := by
  cases e <;> simp [member, memberW, fieldsOf, dataOf, pathExt, stored, lvl, baseTime, timeExt]

/-- `archiveOf` (ExtractTree15) is the builder with stored members -/
theorem archiveOf_eq (es : List Entry) : archiveOf es = archiveWith stored es := by
  unfold archiveOf archiveWith
  congr 2
  exact List.map_congr_left (fun e _ => member_eq e)

theorem archiveWith_toList (pk : Packer) (es : List Entry) :
    (archiveWith pk es).toList = (es.map (memberW pk)).flatten := rfl

theorem archiveWith_cons (pk : Packer) (e : Entry) (es : List Entry) :
    (archiveWith pk (e :: es)).toList =
      encode (fieldsOf pk e) ++ (dataOf pk e ++ (archiveWith pk es).toList) := by
  simp [archiveWith_toList, memberW, List.append_assoc]

/-! ## packers -/

/-- a method string the archive signature scan recognises (`-lh?-`, `-lz4-`/`-lz5-`/`-lzs-`, `-pm?-`) -/
def SigOk (m : Bytes) : Prop := m.length = 5 ∧ Stream.sigAt (0 :: 0 :: m) 0

instance (m : Bytes) : Decidable (SigOk m) := inferInstanceAs (Decidable (m.length = 5 ∧ Stream.sigAt (0 :: 0 :: m) 0))

/-- the method name as the decoder table sees it -/
def mname (m : Bytes) : String := String.ofList (m.map (fun b => Char.ofNat b.toNat))

/-- **the packer's output for `data` is a member the library decodes back to `data`**: a
recognised method other than `-lhd-`, a 32-bit compressed size (level 1: with the extended headers), and the method's decoder, run on
the compressed bytes and cut at the declared length, yields `data` (the statement of the decoder
round-trip theorems of C01–C04) -/
structure PackOk (pk : Packer) (data : Bytes) : Prop where
  sig : SigOk (pk.pack data).1
  notDir : (pk.pack data).1 ≠ lhdM
  clen : (pk.pack data).2.length + (if pk.level1 then 65536 else 0) < 4294967296
  decodes : ∃ d info, decoderFor (mname (pk.pack data).1) = some d ∧
    decoderInfo (mname (pk.pack data).1) = some info ∧
    Wrap.avail d.total data.length (.ok (d.init { data := (pk.pack data).2.toArray })) = data

/-- the packer condition of an entry: files only -/
def FilePack (pk : Packer) : Entry → Prop
  | .file _ data _ _ => PackOk pk data
  | _ => True

/-! ## `Encodable` -/

/-- recorded permission bits fit 16 bits; for a directory they must not say "symbolic link"
(the parser would take the entry for a link) -/
def permsFit (isDir : Bool) : Option Nat → Prop
  | none => True
  | some q => q < 65536 ∧ (isDir = true → q &&& 0o170000 ≠ 0o120000)

instance (d : Bool) (o : Option Nat) : Decidable (permsFit d o) := by
  cases o with
  | none => exact isTrue trivial
  | some q => exact inferInstanceAs (Decidable (q < 65536 ∧ (d = true → q &&& 0o170000 ≠ 0o120000)))

/-- **the entry fits the level-2 header format as `member` writes it**: plain name bytes (no NUL,
0xFF, '|'), the stored strings fit the 16-bit header length, sizes and times fit 32 bits,
permissions 16 bits; a link target has no NUL and no '/' (the file-name header it travels in
maps '/' to '_') -/
def EntryEnc : Entry → Prop
  | .dir p perms t =>
    (∀ c ∈ p, PlainName c) ∧ (joinDir p).length < 60000 ∧ t < 4294967296 ∧ permsFit true perms
  | .file p data perms t =>
    (∀ c ∈ p, PlainName c) ∧ (joinDir p).length < 60000 ∧ t < 4294967296 ∧ permsFit false perms ∧
    data.length < 4294967296
  | .link p tg =>
    (∀ c ∈ p, PlainName c) ∧ (joinDir p).length + tg.length < 60000 ∧ (∀ b ∈ tg, b ≠ 0 ∧ b ≠ 0x2f)

instance (e : Entry) : Decidable (EntryEnc e) := by
  cases e with
  | dir p perms t =>
    exact inferInstanceAs (Decidable ((∀ c ∈ p, PlainName c) ∧ (joinDir p).length < 60000 ∧
      t < 4294967296 ∧ permsFit true perms))
  | file p data perms t =>
    exact inferInstanceAs (Decidable ((∀ c ∈ p, PlainName c) ∧ (joinDir p).length < 60000 ∧
      t < 4294967296 ∧ permsFit false perms ∧ data.length < 4294967296))
  | link p tg =>
    exact inferInstanceAs (Decidable ((∀ c ∈ p, PlainName c) ∧ (joinDir p).length + tg.length < 60000 ∧
      (∀ b ∈ tg, b ≠ 0 ∧ b ≠ 0x2f)))

/-- every entry of the list fits the header format -/
def Encodable (es : List Entry) : Prop := ∀ e ∈ es, EntryEnc e

instance (es : List Entry) : Decidable (Encodable es) := inferInstanceAs (Decidable (∀ e ∈ es, EntryEnc e))

theorem EntryEnc.plain {e : Entry} (h : EntryEnc e) : ∀ c ∈ e.path, PlainName c := by
  cases e <;> exact h.1

/-! ## sizes -/

theorem joinDir_split (p : Fs.Path) (hne : p ≠ []) :
    (joinDir p).length = (joinDir p.dropLast).length + (p.getLast?.getD []).length + 1 := by
  have := List.dropLast_concat_getLast hne
  conv => lhs; rw [← this]
  rw [joinDir_append, List.getLast?_eq_some_getLast hne]
  simp [joinDir]
  omega

theorem chainLen_cons' (e : Ext) (es : List Ext) : chainLen 2 (e :: es) = extSize 2 e + chainLen 2 es := by
  simp [chainLen]

theorem chainLen_append (a b : List Ext) : chainLen 2 (a ++ b) = chainLen 2 a + chainLen 2 b := by
  simp [chainLen]

theorem chainLen_pathExt (dl : Fs.Path) : chainLen 2 (pathExt dl) ≤ (joinDir dl).length + 3 := by
  unfold pathExt
  split
  · simp [chainLen]
  · simp [chainLen, extSize, Ext.body, sp_length]

theorem chainLen_permExt (o : Option Nat) : chainLen 2 (permExt o) ≤ 5 := by
  cases o <;> simp [permExt, chainLen, extSize, Ext.body, le16]

theorem all_pathExt (dl : Fs.Path) : (pathExt dl).all Ext.wf = true := by
  unfold pathExt
  split
  · rfl
  · rename_i h
    simp [Ext.wf, sp_length_pos dl h]

theorem all_permExt {d : Bool} {o : Option Nat} (h : permsFit d o) : (permExt o).all Ext.wf = true := by
  cases o with
  | none => rfl
  | some q => simp [permExt, Ext.wf, h.1]

theorem crc_lt (d : Bytes) : (Crc.buf 0 d).toNat < 65536 := (Crc.buf 0 d).isLt

theorem name_length_pos {e : Entry} (hk : EntryOk e) : 1 ≤ (e.path.getLast?.getD []).length := by
  rw [List.getLast?_eq_some_getLast hk.ne]
  have := (hk.names _ (List.getLast_mem hk.ne)).2.1
  simp only [Option.getD_some]
  cases h : e.path.getLast hk.ne with
  | nil => exact absurd h this
  | cons _ _ => simp

theorem chainLen_timeExt (pk : Packer) (t : Nat) : chainLen 2 (timeExt pk t) ≤ 7 := by
  unfold timeExt
  split <;> simp [chainLen, extSize, Ext.body, le32, le16]

theorem all_timeExt (pk : Packer) {t : Nat} (h : t < 4294967296) : (timeExt pk t).all Ext.wf = true := by
  unfold timeExt
  split <;> simp [Ext.wf, h]

theorem extSize_le_chainLen {e : Ext} {es : List Ext} (h : e ∈ es) : extSize 2 e ≤ chainLen 2 es := by
  induction es with
  | nil => cases h
  | cons x xs ih =>
    rw [chainLen_cons']
    rcases List.mem_cons.1 h with rfl | h
    · omega
    · have := ih h; omega

/-- well-formedness of level-1/level-2 fields without base-header name, padding, trail or area -/
theorem wf_of (f : Fields) (hl : f.level = 1 ∨ f.level = 2) (hm : f.method.length = 5)
    (hc : f.clen + (if f.level = 1 then 65536 else 0) < 4294967296) (hlen : f.length < 4294967296)
    (ht : f.time < 4294967296) (ha : f.attr = 0x20) (hcrc : f.crc < 65536) (hos : f.osType = 0x55)
    (hex : f.exts.all Ext.wf = true) (hsz : 26 + chainLen 2 f.exts < 65536)
    (hn : f.name = []) (hp : f.pad = []) (htr : f.trail = []) (har : f.area = .none) : wf f = true := by
  have hall : f.exts.all (fun e => decide (extSize 2 e < 65536)) = true := by
    rw [List.all_eq_true]
    intro e he
    have := extSize_le_chainLen he
    exact decide_eq_true (by omega)
  unfold wf
  rcases hl with hl | hl
  · rw [hl] at hc
    simp only [if_true] at hc
    simp [hl, hm, hlen, ht, ha, hcrc, hos, hex, hn, hp, htr, har, hall]
    omega
  · rw [hl] at hc
    simp [hl, hm, hlen, ht, ha, hcrc, hos, hex, hn, hp, htr, har]
    omega

theorem lvl_cases (pk : Packer) : lvl pk = 1 ∨ lvl pk = 2 := by
  unfold lvl; split
  · exact Or.inl rfl
  · exact Or.inr rfl

theorem lvl_one (pk : Packer) : (lvl pk = 1) = (pk.level1 = true) := by
  unfold lvl; split <;> simp [*]

theorem baseTime_lt (pk : Packer) {t : Nat} (h : t < 4294967296) : baseTime pk t < 4294967296 := by
  unfold baseTime; split
  · decide
  · exact h

/-- **the fields of a member are well-formed fields of the header format** -/
theorem fields_wf (pk : Packer) {e : Entry} (hk : EntryOk e) (he : EntryEnc e) (hpk : FilePack pk e) :
    wf (fieldsOf pk e) = true := by
  cases e with
  | dir p perms t =>
    obtain ⟨_, hlen, ht, hp⟩ := he
    have hne : p ≠ [] := hk.ne
    have h1 := chainLen_permExt perms
    have h2 := all_permExt hp
    have h3 := chainLen_timeExt pk t
    have h4 := all_timeExt pk ht
    have hj : 1 ≤ (sp p).length := sp_length_pos p hne
    apply wf_of _ (lvl_cases pk) rfl _ (show 0 < 4294967296 by decide) (baseTime_lt pk ht) rfl
      (show 0 < 65536 by decide) rfl _ _ rfl rfl rfl rfl
    · show 0 + (if lvl pk = 1 then 65536 else 0) < 4294967296
      split <;> decide
    · simp only [fieldsOf, List.all_append, List.all_cons, List.all_nil, h2, h4, Ext.wf, hj, decide_true, Bool.and_self]
    · simp only [fieldsOf, chainLen_append, chainLen_cons', extSize, Ext.body, sp_length]
      have h0 : chainLen 2 [] = 0 := rfl
      omega
  | file p data perms t =>
    obtain ⟨_, hlen, ht, hp, hd⟩ := he
    have hne : p ≠ [] := hk.ne
    have h1 := chainLen_permExt perms
    have h2 := all_permExt hp
    have h3 := chainLen_pathExt p.dropLast
    have h4 := all_pathExt p.dropLast
    have h5 := joinDir_split p hne
    have h6 := name_length_pos hk
    have h7 := crc_lt data
    have h8 := chainLen_timeExt pk t
    have h9 := all_timeExt pk ht
    simp only [Entry.path] at h6
    apply wf_of _ (lvl_cases pk) hpk.sig.1 _ hd (baseTime_lt pk ht) rfl h7 rfl _ _ rfl rfl rfl rfl
    · show (pk.pack data).2.length + (if lvl pk = 1 then 65536 else 0) < 4294967296
      have := hpk.clen
      simp only [lvl_one]
      exact this
    · simp only [fieldsOf, List.all_append, List.all_cons, List.all_nil, h2, h4, h9, Ext.wf, h6, decide_true,
        Bool.and_self]
    · simp only [fieldsOf, chainLen_append, chainLen_cons', extSize, Ext.body]
      have h0 : chainLen 2 [] = 0 := rfl
      omega
  | link p tg =>
    obtain ⟨_, hlen, _⟩ := he
    have hne : p ≠ [] := hk.ne
    have h3 := chainLen_pathExt p.dropLast
    have h4 := all_pathExt p.dropLast
    have h5 := joinDir_split p hne
    have h8 := chainLen_timeExt pk 0
    have h9 := all_timeExt pk (show 0 < 4294967296 by decide)
    apply wf_of _ (lvl_cases pk) rfl _ (show 0 < 4294967296 by decide) (show 0 < 4294967296 by decide) rfl
      (show 0 < 65536 by decide) rfl _ _ rfl rfl rfl rfl
    · show 0 + (if lvl pk = 1 then 65536 else 0) < 4294967296
      split <;> decide
    · simp only [fieldsOf, List.all_append, List.all_cons, List.all_nil, h4, h9, Ext.wf, decide_true, Bool.and_self]
      simp
      omega
    · simp only [fieldsOf, chainLen_append, chainLen_cons', extSize, Ext.body, le16, List.length_append,
        List.length_cons, List.length_nil]
      have h0 : chainLen 2 [] = 0 := rfl
      omega

/-- a header is at least 26 bytes long and carries its method at offset 2 -/
theorem encode_shape (pk : Packer) (e : Entry) :
    ∃ a b tl, encode (fieldsOf pk e) = a :: b :: ((fieldsOf pk e).method ++ tl) ∧ 19 ≤ tl.length := by
  have hl : (fieldsOf pk e).level = lvl pk := by cases e <;> rfl
  unfold encode
  rcases lvl_cases pk with h | h
  · rw [HeaderRT.enc_l1 _ (hl.trans h)]
    refine ⟨_, _, _, by simp only [HeaderRT.body1, List.append_assoc]; rfl, ?_⟩
    simp [le16, le32]
    omega
  · rw [HeaderRT.enc_l2 _ (hl.trans h)]
    refine ⟨_, _, _, rfl, ?_⟩
    simp [le16]
    omega

end LhasaV.ArchiveOf
