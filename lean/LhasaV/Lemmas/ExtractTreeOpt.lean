import LhasaV.Lemmas.ExtractTreeOpt14
import LhasaV.Lemmas.ExtractTreeOptCheck
/-!
# C06 — the tree theorem under the options: wildcard arguments, `w=DIR`, `i`

Umbrella for `ExtractTreeOpt1` … `ExtractTreeOpt14` (namespaces `LhasaV.ExtractTree`,
`LhasaV.ArchiveOf`) and the evaluated checks `ExtractTreeOptCheck`.  `ExtractTree1–16` prove
`run_tree` for `lha x archive` (`OptsOk`: no `w=`, paths used, no wildcard arguments).  Here:

1. **Wildcards** (`ExtractTreeOpt1`, `6`–`9`, `14`).  `selected fl e`: the wildcard semantics
   (`Glob.GlobSpec`) of the pattern list on the stored path of `e`; `matches_of`: the C test
   `matches_filter` on a header denoting `e` is `selected`.  `WFS sel`: directory-first contiguous
   order of the SELECTED entries — an entry that is passed over is never pushed on the reader's
   directory stack but still closes the open directories it is outside of.  **`run_tree_sel`**: the
   run leaves exactly `treeOf (es.filter (selected patterns))`.  `wfs_of_closed`: `WellFormed es`
   and `ParentClosed` (every directory above a selected entry has a selected directory entry;
   decidable) give `WFS`.
2. **`w=DIR`** (`ExtractTreeOpt2`–`5`, `9`).  `FsInvB`: the invariant of `ExtractTree8` below an
   arbitrary base `cwd ++ ds`.  `makeParents_mkDirs`: `make_parent_directories` is the walk
   `mkDirs` over the components; `BaseOk fs ds k`: the first `k` components of `DIR` exist, the
   others do not; `mkBase`/`MadeFrom`: the missing ones are created with mode 0755 under the umask
   and the time of the run, the deepest existing one is stamped, nothing else changes.
   **`run_tree_reloc`**, and **`run_tree_opt`** (wildcards and `w=` together).
3. **`i`** (`ExtractTreeOpt10`, `11`).  Directory entries are ignored before the reader is asked
   (never pushed); files and links land at `cwd[/DIR]/name`.  **`run_tree_flat`**,
   `run_tree_flat_reloc`: exactly `flatTreeOf` of the selected entries, for pairwise distinct
   names; no order condition on the archive.
4. **On bytes** (`ExtractTreeOpt12`–`14`): `archiveWith_denotesF` (the archive that encodes `es`
   denotes it along the run WITH the filter test, from the reader invariant `RState`),
   `extract_archiveWith_sel` / `_reloc` / `_flat` / `_flat_reloc` / `_opt`, the instances for
   `archiveOf`, `extract_archiveOf_closed`; non-vacuity `sample_sel` (`a/*`), `sample_reloc`
   (`w=out`), `sample_flat` (`i`) with every hypothesis discharged.
-/
