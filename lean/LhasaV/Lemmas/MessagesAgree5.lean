import LhasaV.Lemmas.MessagesAgree3
import LhasaV.Lemmas.Contain5
/-!
Agreement of the two extraction models, part 5: a sufficient condition for (2') in terms of the
headers.  Every header the message-bearing extraction loop handles came out of the header parser,
so it satisfies the C11 invariant (`FnOk`: no '/' in the file name; `trace_names_clean`); if such a
header has a non-empty file name, the path the tool constructs for it does not end in '/'
(`noTrail_of_name`).  So (2') holds as soon as every handled member that is not a directory entry
has a file name (`traceNoTrail_of_named`).
-/
namespace LhasaV.MessagesAgree
open LhasaV LhasaV.Header LhasaV.Extract LhasaV.Messages LhasaV.Contain

section inv
variable {Q : Hdr → Prop}

theorem mreaderExtract_inv {rd : Reader.St} (h : HdrInv Q rd) (fs : Fs.St) (fn : Bytes) :
    HdrInv Q (Messages.readerExtract rd fs fn).2.1 := by
  unfold Messages.readerExtract
  split
  · split
    · exact extract_inv h _
    · exact readerExtract_inv h _ _
  · exact readerExtract_inv h _ _

theorem extractBody_inv {s : XSt} (h : HdrInv Q s.rd) (hd : Hdr) (err : Bytes) :
    HdrInv Q (extractBody s hd err).2.rd := by
  unfold extractBody
  dsimp only
  split
  · exact h
  · split
    · exact h
    · exact mreaderExtract_inv h _ _

theorem extractEntry_inv {s : XSt} (h : HdrInv Q s.rd) (hd : Hdr) :
    HdrInv Q (extractEntry s hd).2.rd := by
  unfold extractEntry
  dsimp only
  split
  · split
    · exact h
    · exact extractBody_inv h _ _
    · split
      · exact h
      · refine extractBody_inv ?_ _ _; exact h
      · exact h
  · exact extractBody_inv h _ _

theorem xstep_inv {s : Messages.St} (h : HdrInv Q s.x.rd) (hd : Hdr) :
    HdrInv Q (step .extract s hd).x.rd := by
  unfold step
  dsimp only
  split
  · exact h
  · exact extractEntry_inv h _

/-- every header in the trace of the extraction loop satisfies what every parsed header satisfies -/
theorem loop_trace_inv (hQ : Parsed Q) : ∀ (fuel : Nat) (m : Messages.St), HdrInv Q m.x.rd →
    (∀ t ∈ m.trace, Q t.1) → ∀ t ∈ (loop .extract fuel m).trace, Q t.1 := by
  intro fuel
  induction fuel with
  | zero => intro m _ h; exact h
  | succ n ih =>
    intro m hi ht
    unfold loop
    split
    · exact ht
    · split
      · exact ht
      · exact ht
      · rename_i c rd hn
        have hrd : HdrInv Q rd := next_inv hQ hi hn
        obtain ⟨_, _, _, hcur⟩ := next_some hn
        split
        · exact ih _ hrd ht
        · refine ih _ (xstep_inv (s := { m with x := { m.x with rd := rd } }) hrd c.h) ?_
          obtain ⟨v, hv⟩ := MessagesProps.step_trace .extract { m with x := { m.x with rd := rd } } c.h
          rw [hv]
          intro t h
          rcases List.mem_cons.mp h with rfl | h
          · exact hrd.curr c hcur
          · exact ht t h

end inv

/-- **C11 for the members `lha x` handles**: no '/' in the file name, clean path — any archive -/
theorem trace_names_clean (archive : Array UInt8) (o : Opts) (fs : Fs.St) (answers : Bytes) :
    ∀ t ∈ (Messages.run .extract archive o fs answers).trace, FnOk t.1 ∧ PathOk t.1 :=
  loop_trace_inv parsed_good _ _ (runInit_inv _ archive o fs answers) (fun t h => by cases h)

theorem stripSlashes_of_head {f : Bytes} (h : f.head? ≠ some 0x2f) : stripSlashes f = f := by
  unfold stripSlashes
  cases f with
  | nil => rfl
  | cons b t =>
    have : b ≠ 0x2f := by simpa using h
    simp [this]

/-- a header with a non-empty '/'-free file name: the constructed path does not end in '/' -/
theorem noTrail_of_name (o : Opts) (h : Hdr) (hf : FnOk h) (hn : h.filename.getD [] ≠ []) : NoTrail o h := by
  right
  cases hfn : h.filename with
  | none => rw [hfn] at hn; exact absurd rfl hn
  | some f =>
    rw [hfn] at hn
    have hne : f ≠ [] := by simpa using hn
    have hns := hf f hfn
    have hs : stripSlashes f = f := by
      apply stripSlashes_of_head
      cases f with
      | nil => exact absurd rfl hne
      | cons b t => have := hns b List.mem_cons_self; simpa using this
    unfold fileFullPath endsWithSlash
    rw [hfn]
    simp only [Option.getD_some, hs]
    rw [List.getLast?_append]
    cases hl : f.getLast? with
    | none => rw [List.getLast?_eq_none_iff] at hl; exact absurd hl hne
    | some b =>
      have := hns b (List.mem_of_getLast? hl)
      simp [this]

/-- (2') from the headers: every handled member is a directory entry or has a file name -/
theorem noTrail_of_named (archive : Array UInt8) (o : Opts) (fs : Fs.St) (answers : Bytes)
    (hn : ∀ t ∈ (Messages.run .extract archive o fs answers).trace,
      isDirEntry t.1 = true ∨ t.1.filename.getD [] ≠ []) :
    ∀ t ∈ (Messages.run .extract archive o fs answers).trace, NoTrail o t.1 := by
  intro t ht
  rcases hn t ht with h | h
  · exact Or.inl h
  · exact noTrail_of_name o t.1 (trace_names_clean archive o fs answers t ht).1 h

end LhasaV.MessagesAgree
