import LhasaV.Lemmas.Lh1Mirror12
import LhasaV.Lemmas.LzRoundTrip
/-!
# C02, layer 13: `read_offset` decodes what `EncodePosition` writes; `EncodeEnd`'s packing
-/
namespace LhasaV.Lh1Mirror
open LhasaV LhasaV.Lh1 LhasaV.Spec.Lzhuf LhasaV.Spec.Lz77 LhasaV.Res LhasaV.LzRoundTrip

/-! ## the position code -/

theorem posChk_at (i : Nat) (hi : i < 64) :
    3 ≤ p_len.getD i 0 ∧ p_len.getD i 0 ≤ 8 ∧
    p_code.getD i 0 / 2 ^ (8 - p_len.getD i 0) < 2 ^ p_len.getD i 0 ∧
    putcode (p_len.getD i 0) (p_code.getD i 0 <<< 8) =
      bitsN (p_len.getD i 0) (p_code.getD i 0 / 2 ^ (8 - p_len.getD i 0)) ∧
    ∀ w, w < 2 ^ (8 - p_len.getD i 0) →
      d_code.getD (p_code.getD i 0 / 2 ^ (8 - p_len.getD i 0) * 2 ^ (8 - p_len.getD i 0) + w) 0 = i := by
  have h := posChk_true
  simp only [posChk, List.all_eq_true, List.mem_range, Bool.and_eq_true, decide_eq_true_eq,
    beq_iff_eq] at h
  obtain ⟨⟨⟨⟨h1, h2⟩, h3⟩, h4⟩, h5⟩ := h i hi
  exact ⟨h1, h2, h3, h4, h5⟩

theorem lowChk_at (v : Nat) (hv : v < 64) : putcode 6 (v <<< 10) = bitsN 6 v := by
  have h := lowChk_true
  simp only [lowChk, List.all_eq_true, List.mem_range, beq_iff_eq] at h
  exact h v hv

/-- the bits `EncodePosition` writes: the code of the upper six bits, then the lower six bits -/
theorem encodePosition_bits (dist : Nat) (hd : dist < 4096) :
    encodePosition dist =
      bitsN (p_len.getD (dist / 64) 0)
        (p_code.getD (dist / 64) 0 / 2 ^ (8 - p_len.getD (dist / 64) 0)) ++ bitsN 6 (dist % 64) := by
  unfold encodePosition
  have e1 : dist >>> 6 = dist / 64 := by rw [Nat.shiftRight_eq_div_pow]
  have e2 : dist &&& 0x3f = dist % 64 := by
    have := Nat.and_two_pow_sub_one_eq_mod dist 6
    simpa using this
  simp only [e1, e2]
  rw [(posChk_at (dist / 64) (by omega)).2.2.2.1, lowChk_at (dist % 64) (by omega)]

theorem d_code_size : d_code.size = 256 := by decide +kernel
theorem p_len_size : p_len.size = 64 := by decide +kernel

/-- `read_offset` on the bits of `EncodePosition(dist)` -/
theorem readOffset_spec (s : St) (dist : Nat) (hd : dist < 4096) (rest : List Bool)
    (hinv : Bits.Inv s.bits) (holk : s.offsetLookup = d_code) (holn : s.offsetLengths = p_len)
    (hs : Bits.stream s.bits = encodePosition dist ++ rest) :
    ∃ b', readOffset s = .ok (some dist, { s with bits := b' }) ∧ Bits.Inv b' ∧ Bits.stream b' = rest := by
  obtain ⟨c1, c2, c3, -, c5⟩ := posChk_at (dist / 64) (by omega)
  rw [encodePosition_bits dist hd, List.append_assoc] at hs
  generalize hl : p_len.getD (dist / 64) 0 = l at *
  generalize hu : p_code.getD (dist / 64) 0 / 2 ^ (8 - l) = u at *
  have hlen : (Bits.stream s.bits).length = l + (6 + rest.length) := by
    rw [hs]; simp [length_bitsN]
  obtain ⟨p1, p2, p3⟩ := Bits.peek_some s.bits 8 hinv (by omega) (by omega)
  -- the byte peeked at
  have htake : (Bits.stream s.bits).take 8 = bitsN l u ++ (bitsN 6 (dist % 64) ++ rest).take (8 - l) := by
    rw [hs, List.take_append, length_bitsN, List.take_of_length_le (by simp [length_bitsN]; omega)]
  have hwl : ((bitsN 6 (dist % 64) ++ rest).take (8 - l)).length = 8 - l := by
    simp [length_bitsN]; omega
  have hfut : Bits.valOf ((Bits.stream s.bits).take 8) =
      u * 2 ^ (8 - l) + Bits.valOf ((bitsN 6 (dist % 64) ++ rest).take (8 - l)) := by
    rw [htake, Bits.valOf_append, hwl, valOf_bitsN_lt l u c3]
  have hw := Bits.valOf_lt ((bitsN 6 (dist % 64) ++ rest).take (8 - l))
  rw [hwl] at hw
  have hf256 : Bits.valOf ((Bits.stream s.bits).take 8) < 256 := by
    have := Bits.valOf_lt ((Bits.stream s.bits).take 8)
    have e : ((Bits.stream s.bits).take 8).length = 8 := by simp; omega
    rw [e] at this; exact this
  have hlook : d_code.getD (Bits.valOf ((Bits.stream s.bits).take 8)) 0 = dist / 64 := by
    rw [hfut]; exact c5 _ hw
  unfold readOffset
  simp only [p1]
  rw [holk, holn, getA_ok _ _ _ (by rw [d_code_size]; exact hf256)]
  simp only [ok_bind]
  rw [hlook, getA_ok _ _ _ (by rw [p_len_size]; omega)]
  simp only [ok_bind, hl]
  obtain ⟨q1, q2, q3⟩ := readBits_bitsN (s.bits.peek 8).2 l u _ p2 (by omega) c3 (by rw [p3]; exact hs)
  obtain ⟨r1, r2, r3⟩ := readBits_bitsN ((s.bits.peek 8).2.readBits l).2 6 (dist % 64) rest q2
    (by omega) (by omega) q3
  simp only [r1, pure_eq]
  refine ⟨_, ?_, r2, r3⟩
  have e : dist / 64 * 64 + dist % 64 = dist := by omega
  rw [e]

end LhasaV.Lh1Mirror
