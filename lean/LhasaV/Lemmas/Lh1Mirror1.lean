import LhasaV.Spec.Lzhuf
import LhasaV.Lemmas.Lh1Safe
/-!
# C02, layer 1: the LZHUF side of the mirror proof

Functional views of `Spec.Lzhuf.TreeState`, one round of `updateLoop` as a function (`stepZ`),
its characterisation on the views, and the mirror relation `MirF` over plain functions.
-/
namespace LhasaV.Lh1Mirror
open LhasaV LhasaV.Lh1 LhasaV.Spec.Lzhuf LhasaV.Res

/-! ## views -/

def zf (z : TreeState) (i : Nat) : Nat := z.freq.getD i 0
def zp (z : TreeState) (i : Nat) : Nat := z.prnt.getD i 0
def zs (z : TreeState) (i : Nat) : Nat := z.son.getD i 0

/-- the three arrays have their C sizes `T + 1`, `T + N_CHAR`, `T` -/
structure ZWf (z : TreeState) : Prop where
  freq : z.freq.size = 628
  prnt : z.prnt.size = 941
  son : z.son.size = 627

theorem getD_set_ne {α} (a : Array α) (i j : Nat) (v d : α) (h : j ≠ i) :
    (a.setIfInBounds i v).getD j d = a.getD j d := by
  simp only [Array.getD_eq_getD_getElem?, Array.getElem?_setIfInBounds]
  have h' : ¬ i = j := fun e => h e.symm
  simp [h']

/-! ## `scanUp` -/

theorem scanUp_spec (f : Array Nat) (k : Nat) : ∀ (fuel l t : Nat), l < t → t ≤ l + fuel + 1 →
    (∀ m, l < m → m < t → f.getD m 0 < k) → k ≤ f.getD t 0 → scanUp f k fuel l = t := by
  intro fuel
  induction fuel with
  | zero =>
    intro l t h1 h2 _ _
    simp only [scanUp]; omega
  | succ fuel ih =>
    intro l t h1 h2 h3 h4
    simp only [scanUp]
    by_cases hc : k > f.getD (l + 1) 0
    · simp only [hc, if_true]
      have hne : t ≠ l + 1 := by intro e; rw [e] at h4; omega
      exact ih (l + 1) t (by omega) (by omega) (fun m hm1 hm2 => h3 m (by omega) hm2) h4
    · simp only [hc, if_false]
      apply Classical.byContradiction
      intro hne
      have := h3 (l + 1) (by omega) (by omega)
      omega

/-! ## one round of `updateLoop` -/

/-- one round of the `do … while` loop of `update` at node `c`: the new arrays and the next `c` -/
def stepZ (c : Nat) (z : TreeState) : TreeState × Nat :=
  let k := z.freq.getD c 0 + 1
  let freq := z.freq.setIfInBounds c k
  if k > freq.getD (c + 1) 0 then
    let l := scanUp freq k T (c + 1) - 1
    let e := exchange c l k freq z.prnt z.son
    (e, e.prnt.getD l 0)
  else (⟨freq, z.prnt, z.son⟩, z.prnt.getD c 0)

theorem updateLoop_succ (fuel c : Nat) (z : TreeState) :
    updateLoop (fuel + 1) c z.freq z.prnt z.son =
      if (stepZ c z).2 ≠ 0 then
        updateLoop fuel (stepZ c z).2 (stepZ c z).1.freq (stepZ c z).1.prnt (stepZ c z).1.son
      else (stepZ c z).1 := by
  rw [updateLoop]
  unfold stepZ
  simp only []
  split
  · simp only []
  · simp only []

theorem stepZ_noswap (c : Nat) (z : TreeState) (h : zf z c + 1 ≤ zf z (c + 1)) :
    stepZ c z = (⟨z.freq.setIfInBounds c (zf z c + 1), z.prnt, z.son⟩, zp z c) := by
  unfold stepZ
  simp only []
  rw [getD_set_ne _ _ _ _ _ (by omega : c + 1 ≠ c)]
  have : ¬ (z.freq.getD c 0 + 1 > z.freq.getD (c + 1) 0) := by
    simp only [zf] at h; omega
  rw [if_neg this]
  rfl

theorem stepZ_swap (c l : Nat) (z : TreeState) (hcl : c < l) (hl : l ≤ 626)
    (h1 : zf z (c + 1) < zf z c + 1)
    (h2 : ∀ m, c + 1 < m → m ≤ l → zf z m < zf z c + 1) (h3 : zf z c + 1 ≤ zf z (l + 1)) :
    stepZ c z =
      (exchange c l (zf z c + 1) (z.freq.setIfInBounds c (zf z c + 1)) z.prnt z.son,
       (exchange c l (zf z c + 1) (z.freq.setIfInBounds c (zf z c + 1)) z.prnt z.son).prnt.getD l 0) := by
  unfold stepZ
  simp only []
  rw [getD_set_ne _ _ _ _ _ (by omega : c + 1 ≠ c)]
  have hc : z.freq.getD c 0 + 1 > z.freq.getD (c + 1) 0 := by
    simp only [zf] at h1; omega
  rw [if_pos hc]
  have hs : scanUp (z.freq.setIfInBounds c (z.freq.getD c 0 + 1)) (z.freq.getD c 0 + 1) T (c + 1) = l + 1 := by
    apply scanUp_spec
    · omega
    · simp only [T, N_CHAR, THRESHOLD, F]; omega
    · intro m hm1 hm2
      rw [getD_set_ne _ _ _ _ _ (by omega : m ≠ c)]
      exact h2 m hm1 (by omega)
    · rw [getD_set_ne _ _ _ _ _ (by omega : l + 1 ≠ c)]
      exact h3
  rw [hs, Nat.add_sub_cancel]
  rfl

/-- the three arrays after `exchange`, as functions -/
theorem exchange_views (c l k : Nat) (Fq P S : Array Nat) (hF : Fq.size = 628) (hP : P.size = 941)
    (hS : S.size = 627) (hc : c < 627) (hl : l < 627) (hcl : c ≠ l)
    (hi : S.getD c 0 < 941) (hj : S.getD l 0 < 941) :
    ZWf (exchange c l k Fq P S) ∧
    (∀ m, zf (exchange c l k Fq P S) m = if m = l then k else if m = c then Fq.getD l 0 else Fq.getD m 0) ∧
    (∀ m, zs (exchange c l k Fq P S) m =
      if m = c then S.getD l 0 else if m = l then S.getD c 0 else S.getD m 0) ∧
    (∀ m, zp (exchange c l k Fq P S) m =
      if (m = S.getD l 0 ∨ (S.getD l 0 < 627 ∧ m = S.getD l 0 + 1)) then c
      else if (m = S.getD c 0 ∨ (S.getD c 0 < 627 ∧ m = S.getD c 0 + 1)) then l
      else P.getD m 0) := by
  refine ⟨?_, ?_, ?_, ?_⟩
  · constructor
    · simp only [exchange, Array.size_setIfInBounds]; exact hF
    · simp only [exchange]
      split <;> split <;> simp only [Array.size_setIfInBounds] <;> exact hP
    · simp only [exchange, Array.size_setIfInBounds]; exact hS
  · intro m
    simp only [zf, exchange]
    rw [getD_set _ _ _ _ _ (by simp only [Array.size_setIfInBounds]; omega), getD_set _ _ _ _ _ (by omega)]
  · intro m
    simp only [zs, exchange]
    rw [getD_set _ _ _ _ _ (by simp only [Array.size_setIfInBounds]; omega), getD_set _ _ _ _ _ (by omega)]
  · intro m
    simp only [zp, exchange]
    generalize S.getD c 0 = i at hi ⊢
    generalize S.getD l 0 = j at hj ⊢
    have hT : T = 627 := rfl
    rw [hT]
    by_cases hi' : i < 627 <;> by_cases hj' : j < 627
    · simp only [hi', hj', if_true, true_and]
      rw [getD_set _ _ _ _ _ (by simp only [Array.size_setIfInBounds]; omega),
        getD_set _ _ _ _ _ (by simp only [Array.size_setIfInBounds]; omega),
        getD_set _ _ _ _ _ (by simp only [Array.size_setIfInBounds]; omega),
        getD_set _ _ _ _ _ (by omega)]
      repeat' split
      all_goals first | rfl | omega
    · simp only [hi', hj', if_true, if_false, true_and, false_and, or_false]
      rw [getD_set _ _ _ _ _ (by simp only [Array.size_setIfInBounds]; omega),
        getD_set _ _ _ _ _ (by simp only [Array.size_setIfInBounds]; omega),
        getD_set _ _ _ _ _ (by omega)]
      repeat' split
      all_goals first | rfl | omega
    · simp only [hi', hj', if_true, if_false, true_and, false_and, or_false]
      rw [getD_set _ _ _ _ _ (by simp only [Array.size_setIfInBounds]; omega),
        getD_set _ _ _ _ _ (by simp only [Array.size_setIfInBounds]; omega),
        getD_set _ _ _ _ _ (by omega)]
      repeat' split
      all_goals first | rfl | omega
    · simp only [hi', hj', if_false, false_and, or_false]
      rw [getD_set _ _ _ _ _ (by simp only [Array.size_setIfInBounds]; omega),
        getD_set _ _ _ _ _ (by omega)]

end LhasaV.Lh1Mirror
