import LhasaV.Lemmas.ExtractTree
/-!
# C06 with options (part 1): wildcard selection and relocated paths on entries

* `storedName e`: the string `matches_filter` builds for a header denoting `e` (`path ++ filename`);
  `selected fl e`: the wildcard semantics (`Glob.GlobSpec`) of the pattern list `fl` on it;
  `matches_of`: for a header that denotes `e`, the C test `matches_filter` IS `selected`.
* `OptsRel o ds`: the options use stored paths and relocate to the directory with the clean
  components `ds` (`ds = []`: no `w=`); any wildcard arguments.
  `fullPath_rel`: `file_full_path` builds `"d1/…/dk/" ++ fullOf e`, whose components are
  `ds ++ e.path` (`pathFacts_rel`).
-/
namespace LhasaV.ExtractTree
open LhasaV LhasaV.Header LhasaV.Extract LhasaV.GlobFs LhasaV.Contain

/-! ## wildcard selection -/

/-- the stored path of an entry: `"a/b/"` for a directory, `"a/b/" ++ "c"` otherwise -/
def storedName (e : Entry) : Bytes := joinDir e.dirPart ++ e.namePart

/-- **wildcard selection on entries**: no patterns select everything; otherwise the stored path
must lie in the language of one of the patterns -/
def selected (fl : List Bytes) (e : Entry) : Bool :=
  fl.isEmpty || fl.any (fun f => Glob.GlobSpec f (storedName e))

theorem fullName_of {e : Entry} {h : Hdr} (hh : HdrOf e h) : Glob.fullName h = storedName e := by
  unfold Glob.fullName storedName
  rw [hh.1, hh.2.1]

/-- the C test on a header that denotes `e` is the wildcard semantics on `e`'s stored path -/
theorem matches_of {e : Entry} {h : Hdr} (hh : HdrOf e h) (fl : List Bytes) :
    Glob.matchesFilter fl h = selected fl e := by
  unfold Glob.matchesFilter selected
  rw [fullName_of hh]
  by_cases he : fl.isEmpty = true
  · simp [he]
  · simp [he, glob_iff]

theorem selected_nil (e : Entry) : selected [] e = true := rfl

/-- the stored path is the path with a trailing separator for a directory -/
theorem storedName_eq_fullOf {e : Entry} (hne : e.path ≠ []) : storedName e = fullOf e := by
  unfold storedName fullOf
  cases hd : e.isDir with
  | true => simp [Entry.dirPart, Entry.namePart, hd]
  | false =>
    simp only [Entry.dirPart, Entry.namePart, hd, Bool.false_eq_true, if_false]
    rw [List.getLast?_eq_some_getLast hne, Option.getD_some, ← joinPath_snoc _ hne]

/-! ## relocation -/

/-- the prefix `file_full_path` puts in front: `"DIR/"` under `w=DIR` -/
def pfx (o : Opts) : Bytes :=
  match o.extractPath with
  | some d => d ++ [0x2f]
  | none => []

/-- stored paths are used (no `i`), and the tree is relocated to the directory with the clean
components `ds` (no `w=` for `ds = []`, else `w=d1/…/dk`) -/
structure OptsRel (o : Opts) (ds : List Bytes) : Prop where
  up : o.usePath = true
  xp : pfx o = joinDir ds
  names : ∀ c ∈ ds, Name c

theorem optsRel_none (o : Opts) (hx : o.extractPath = none) (hu : o.usePath = true) : OptsRel o [] :=
  ⟨hu, by simp [pfx, hx, joinDir], fun _ h => (by cases h)⟩

theorem optsRel_some (o : Opts) (ds : List Bytes) (hne : ds ≠ []) (hx : o.extractPath = some (joinPath ds))
    (hu : o.usePath = true) (hn : ∀ c ∈ ds, Name c) : OptsRel o ds :=
  ⟨hu, by simp [pfx, hx, joinDir_eq ds hne], hn⟩

theorem fullPath_pfx (h : Hdr) (o : Opts) :
    fileFullPath h o = pfx o ++ fileFullPath h { o with extractPath := none } := by
  unfold fileFullPath pfx
  cases o.extractPath <;> simp

/-- the entry moved below the directory `ds` -/
def Entry.reloc (ds : Fs.Path) : Entry → Entry
  | .dir p perms t => .dir (ds ++ p) perms t
  | .file p data perms t => .file (ds ++ p) data perms t
  | .link p tg => .link (ds ++ p) tg

theorem reloc_path (ds : Fs.Path) (e : Entry) : (e.reloc ds).path = ds ++ e.path := by
  cases e <;> rfl

theorem reloc_isDir (ds : Fs.Path) (e : Entry) : (e.reloc ds).isDir = e.isDir := by
  cases e <;> rfl

theorem joinDir_joinPath (a b : List Bytes) (hb : b ≠ []) :
    joinDir a ++ joinPath b = joinPath (a ++ b) := by
  rw [joinPath_snoc b hb, ← List.append_assoc, ← joinDir_append, joinDir_name, List.append_assoc,
    List.dropLast_concat_getLast]

theorem fullOf_reloc (ds : Fs.Path) (e : Entry) (hne : e.path ≠ []) :
    fullOf (e.reloc ds) = joinDir ds ++ fullOf e := by
  unfold fullOf
  rw [reloc_isDir, reloc_path]
  cases e.isDir with
  | true => simp [joinDir_append]
  | false => simp [joinDir_joinPath ds e.path hne]

/-- what the relocated path needs: clean names, total depth, safe link -/
theorem entryOk_reloc {ds : Fs.Path} {e : Entry} (hk : EntryOk e) (hn : ∀ c ∈ ds, Name c)
    (hd : ds.length + e.path.length < 64) : EntryOk (e.reloc ds) := by
  refine ⟨?_, ?_, ?_, ?_⟩
  · rw [reloc_path]; intro h; exact hk.ne (List.append_eq_nil_iff.1 h).2
  · rw [reloc_path]; intro c hc
    rcases List.mem_append.1 hc with h | h
    · exact hn c h
    · exact hk.names c h
  · rw [reloc_path, List.length_append]; exact hd
  · intro p t he
    cases e with
    | dir _ _ _ => cases he
    | file _ _ _ _ => cases he
    | link p' t' =>
      simp only [Entry.reloc, Entry.link.injEq] at he
      obtain ⟨_, rfl⟩ := he
      exact hk.safe p' t' rfl

/-- **the string `file_full_path` builds** under `w=ds`: the relocation prefix and the stored path -/
theorem fullPath_rel {e : Entry} {h : Hdr} (hh : HdrOf e h) (hk : EntryOk e) (o : Opts) (ds : List Bytes)
    (ho : OptsRel o ds) : fileFullPath h o = fullOf (e.reloc ds) := by
  rw [fullPath_pfx, ho.xp, fullPath_of hh hk { o with extractPath := none } rfl ho.up,
    fullOf_reloc ds e hk.ne]

/-- its components are `ds ++ e.path` -/
theorem pathFacts_rel {ds : Fs.Path} {e : Entry} (hk : EntryOk e) (hn : ∀ c ∈ ds, Name c)
    (hd : ds.length + e.path.length < 64) : PathFacts (fullOf (e.reloc ds)) (ds ++ e.path) := by
  have := pathFacts_of (entryOk_reloc hk hn hd)
  rwa [reloc_path] at this

end LhasaV.ExtractTree
