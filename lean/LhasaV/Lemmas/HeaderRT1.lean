import LhasaV.Lemmas.HeaderLayout
/-!
Round trip of the header parser over the header-format specification, layer 1:
little-endian encodings versus the checked reads, reads at a known offset of a
buffer described by `raw.drop off = field ++ rest`, reads of a prefix
(`raw.take n`), `extend` on an input described as `full.drop n`.
-/
namespace LhasaV.HeaderRT
open LhasaV LhasaV.Header LhasaV.Spec.HeaderEnc

/-! ### lengths -/

@[simp] theorem le16_length (v : Nat) : (le16 v).length = 2 := rfl
@[simp] theorem le32_length (v : Nat) : (le32 v).length = 4 := rfl
@[simp] theorem le64_length (v : Nat) : (le64 v).length = 8 := rfl

theorem leN_length {fs : Nat} (hfs : fs = 2 ∨ fs = 4) (v : Nat) : (leN fs v).length = fs := by
  unfold leN
  rcases hfs with h | h <;> subst h <;> rfl

/-! ### moving along a buffer -/

/-- if `field ++ rest` starts at `off`, then `rest` starts at `off + field.length` -/
theorem drop_app {raw a b : Bytes} {off m : Nat} (h : raw.drop off = a ++ b) (hm : m = off + a.length) :
    raw.drop m = b := by
  subst hm
  rw [← List.drop_drop, h, List.drop_left' rfl]

theorem drop_cons {raw b : Bytes} {x : Byte} {off m : Nat} (h : raw.drop off = x :: b) (hm : m = off + 1) :
    raw.drop m = b := drop_app (a := [x]) h hm

theorem drop_zero_eq {raw x : Bytes} (h : raw = x) : raw.drop 0 = x := by
  rw [List.drop_zero, h]

theorem drop_length_le' {raw a b : Bytes} {off : Nat} (h : raw.drop off = a ++ b) (ha : 0 < a.length) :
    off + a.length ≤ raw.length := by
  have := congrArg List.length h
  simp only [List.length_drop, List.length_append] at this
  omega

/-! ### checked reads at a described offset -/

theorem rd_drop {s : String} {raw rest : Bytes} {off : Nat} {b : Byte}
    (h : raw.drop off = b :: rest) : rd s raw off = .ok b := by
  have : raw[off]? = some b := by
    have := List.getElem?_drop (xs := raw) (i := off) (j := 0)
    rw [h] at this
    simpa using this.symm
  unfold rd
  rw [this]

theorem rdU8_drop {s : String} {raw rest : Bytes} {off v : Nat}
    (h : raw.drop off = UInt8.ofNat v :: rest) (hv : v < 256) : rdU8 s raw off = .ok v := by
  unfold rdU8
  rw [rd_drop h]
  show Res.ok (UInt8.ofNat v).toNat = Res.ok v
  rw [UInt8.toNat_ofNat']
  congr 1
  omega

theorem rdU8_drop_byte {s : String} {raw rest : Bytes} {off : Nat} {b : Byte}
    (h : raw.drop off = b :: rest) : rdU8 s raw off = .ok b.toNat := by
  unfold rdU8
  rw [rd_drop h]
  rfl

theorem rdU16_drop {s : String} {raw rest : Bytes} {off v : Nat}
    (h : raw.drop off = le16 v ++ rest) (hv : v < 65536) : rdU16 s raw off = .ok v := by
  unfold rdU16
  have h0 : raw.drop off = UInt8.ofNat (v % 256) :: (UInt8.ofNat (v / 256 % 256) :: rest) := h
  have h1 : raw.drop (off + 1) = UInt8.ofNat (v / 256 % 256) :: rest :=
    drop_app (a := [UInt8.ofNat (v % 256)]) h0 rfl
  rw [rd_drop h0, rd_drop h1]
  show Res.ok ((UInt8.ofNat (v % 256)).toNat + 256 * (UInt8.ofNat (v / 256 % 256)).toNat) = Res.ok v
  rw [UInt8.toNat_ofNat', UInt8.toNat_ofNat']
  congr 1
  omega

theorem rdU32_drop {s : String} {raw rest : Bytes} {off v : Nat}
    (h : raw.drop off = le32 v ++ rest) (hv : v < 4294967296) : rdU32 s raw off = .ok v := by
  unfold rdU32
  have h0 : raw.drop off = le16 (v % 65536) ++ (le16 (v / 65536 % 65536) ++ rest) := by
    rw [h, le32, List.append_assoc]
  have h1 := drop_app (m := off + 2) h0 rfl
  rw [rdU16_drop h0 (by omega), rdU16_drop h1 (by omega)]
  show Res.ok (v % 65536 + 65536 * (v / 65536 % 65536)) = Res.ok v
  congr 1
  omega

theorem rdU64_drop {s : String} {raw rest : Bytes} {off v : Nat}
    (h : raw.drop off = le64 v ++ rest) (hv : v < 18446744073709551616) : rdU64 s raw off = .ok v := by
  unfold rdU64
  have h0 : raw.drop off = le32 (v % 4294967296) ++ (le32 (v / 4294967296 % 4294967296) ++ rest) := by
    rw [h, le64, List.append_assoc]
  have h1 := drop_app (m := off + 4) h0 rfl
  rw [rdU32_drop h0 (by omega), rdU32_drop h1 (by omega)]
  show Res.ok (v % 4294967296 + 4294967296 * (v / 4294967296 % 4294967296)) = Res.ok v
  congr 1
  omega

theorem rdSlice_drop {s : String} {raw a rest : Bytes} {off n : Nat}
    (h : raw.drop off = a ++ rest) (hn : a.length = n) (hoff : off ≤ raw.length) :
    rdSlice s raw off n = .ok a := by
  unfold rdSlice
  have hle : off + n ≤ raw.length := by
    have := congrArg List.length h
    simp only [List.length_drop, List.length_append] at this
    omega
  rw [if_pos hle, h, List.take_left' hn]

/-! ### reads of a prefix -/

theorem rd_take {s : String} {l : Bytes} {n i : Nat} (h : i < n) : rd s (l.take n) i = rd s l i := by
  unfold rd; rw [List.getElem?_take_of_lt h]

theorem rdU8_take {s : String} {l : Bytes} {n i : Nat} (h : i < n) : rdU8 s (l.take n) i = rdU8 s l i := by
  unfold rdU8; rw [rd_take h]

theorem rdU16_take {s : String} {l : Bytes} {n i : Nat} (h : i + 2 ≤ n) :
    rdU16 s (l.take n) i = rdU16 s l i := by
  unfold rdU16; rw [rd_take (by omega), rd_take (by omega)]

theorem rdU32_take {s : String} {l : Bytes} {n i : Nat} (h : i + 4 ≤ n) :
    rdU32 s (l.take n) i = rdU32 s l i := by
  unfold rdU32; rw [rdU16_take (by omega), rdU16_take (by omega)]

theorem rdU64_take {s : String} {l : Bytes} {n i : Nat} (h : i + 8 ≤ n) :
    rdU64 s (l.take n) i = rdU64 s l i := by
  unfold rdU64; rw [rdU32_take (by omega), rdU32_take (by omega)]

theorem rdSlice_take {s : String} {l : Bytes} {n off k : Nat} (h : off + k ≤ n) (hn : n ≤ l.length) :
    rdSlice s (l.take n) off k = rdSlice s l off k := by
  unfold rdSlice
  rw [if_pos (by rw [List.length_take]; omega), if_pos (by omega), List.drop_take, List.take_take,
    Nat.min_eq_left (by omega)]

theorem rdU8_take_of {s : String} {l : Bytes} {n i v : Nat} (h : i < n) (e : rdU8 s l i = .ok v) :
    rdU8 s (l.take n) i = .ok v := (rdU8_take h).trans e
theorem rdU16_take_of {s : String} {l : Bytes} {n i v : Nat} (h : i + 2 ≤ n) (e : rdU16 s l i = .ok v) :
    rdU16 s (l.take n) i = .ok v := (rdU16_take h).trans e
theorem rdU32_take_of {s : String} {l : Bytes} {n i v : Nat} (h : i + 4 ≤ n) (e : rdU32 s l i = .ok v) :
    rdU32 s (l.take n) i = .ok v := (rdU32_take h).trans e
theorem rdSlice_take_of {s : String} {l : Bytes} {n off k : Nat} {v : Bytes} (h : off + k ≤ n)
    (hn : n ≤ l.length) (e : rdSlice s l off k = .ok v) : rdSlice s (l.take n) off k = .ok v :=
  (rdSlice_take h hn).trans e

/-! ### `extend` on an input that is the rest of a known buffer -/

theorem extend_take {h : Hdr} {full : Bytes} {n m k : Nat} (hraw : h.raw = full.take n)
    (hm : m ≤ 1048576) (hk : k = n + m) (hlen : k ≤ full.length) :
    extend h (full.drop n) m = .ok ({ h with raw := full.take k }, full.drop k) := by
  subst hk
  unfold extend
  rw [if_neg (by simp only [Gen.level3MaxHeaderLen]; omega),
    if_neg (by rw [List.length_drop]; omega), hraw, List.drop_drop, ← List.take_add]

theorem take_enc {E data : Bytes} {n : Nat} (hn : n = E.length) : (E ++ data).take n = E :=
  List.take_left' hn.symm

theorem drop_enc {E data : Bytes} {n : Nat} (hn : n = E.length) : (E ++ data).drop n = data :=
  List.drop_left' hn.symm

end LhasaV.HeaderRT
