import LhasaV.Lemmas.GlobFs
/-!
# C10, main phase (part 1): safe links keep resolution below the extraction directory

`SafeLinks fs`: every symbolic link that `lookup` can see at a place below `fs.cwd` has a *safe*
target (relative, no ".." component: the negation of `is_dangerous_symlink`).  Nothing is assumed
about entries outside `cwd`, and nothing about the kind of `cwd` or its ancestors.

`safe_resolve_below_cwd`: in such a state every relative, ".."-free path resolves (whether or not
the last component is followed) to a place that has `cwd` as a prefix.
-/
namespace LhasaV.Contain
open LhasaV LhasaV.Header LhasaV.Extract LhasaV.GlobFs

/-- a link target that `is_dangerous_symlink` accepts: relative, no ".." component -/
def SafeTarget (t : Bytes) : Prop := t.head? ≠ some 0x2f ∧ NoDotDot t

/-- every link visible below the extraction directory has a safe target -/
def SafeLinks (fs : Fs.St) : Prop :=
  ∀ p t, fs.cwd <+: p → Fs.lookup fs p = some (.link t) → SafeTarget t

/-- the same in terms of the stored entries (what the task statement says): it implies the
`lookup` form used in the proofs -/
def SafeLinksEnts (fs : Fs.St) : Prop :=
  ∀ p t, fs.cwd <+: p → (p, Fs.Ent.link t) ∈ fs.ents → SafeTarget t

theorem safeLinks_of_ents (fs : Fs.St) (h : SafeLinksEnts fs) : SafeLinks fs := by
  intro p t hp hl
  unfold Fs.lookup at hl
  split at hl
  · cases hl
  · cases hf : fs.ents.find? (·.1 == p) with
    | none => rw [hf] at hl; cases hl
    | some x =>
      rw [hf] at hl
      have hm := List.mem_of_find?_eq_some hf
      have hk := List.find?_some hf
      have hx1 : x.1 = p := by simpa using hk
      have hx2 : x.2 = .link t := by simpa using hl
      have : x = (p, Fs.Ent.link t) := by
        cases x; simp only at hx1 hx2; subst hx1; subst hx2; rfl
      rw [this] at hm
      exact h p t hp hm

/-- a file system without links below `cwd` is trivially safe -/
theorem safeLinks_of_no_links (fs : Fs.St)
    (h : ∀ p t, fs.cwd <+: p → Fs.lookup fs p ≠ some (.link t)) : SafeLinks fs :=
  fun p t hp hl => absurd hl (h p t hp)

/-! ## the dangerous predicate of the reader is the negation of `SafeTarget` -/

theorem splitOnPPrepend_eq_go (bs cur : List UInt8) :
    List.splitOnPPrepend (fun x => x == (0x2f : UInt8)) bs cur = Fs.splitPath.go bs cur := by
  induction bs generalizing cur with
  | nil => rw [List.splitOnPPrepend.eq_def]; simp [Fs.splitPath.go]
  | cons b bs ih =>
    rw [List.splitOnPPrepend.eq_def]
    simp only [Fs.splitPath.go]
    by_cases hb : (b == 0x2f) = true
    · simp only [hb, if_true]; rw [ih]
    · simp only [hb, Bool.false_eq_true, if_false]; rw [ih]

theorem splitOn_eq_splitPath (t : Bytes) : List.splitOn (0x2f : UInt8) t = Fs.splitPath t := by
  unfold List.splitOn List.splitOnP Fs.splitPath
  exact splitOnPPrepend_eq_go t []

/-- `is_dangerous_symlink` says no exactly when the target is safe -/
theorem not_dangerous_iff (h : Hdr) (t : Bytes) (ht : h.symlinkTarget = some t) :
    Reader.isDangerous h = false ↔ SafeTarget t := by
  unfold Reader.isDangerous SafeTarget NoDotDot
  rw [ht]
  simp only [splitOn_eq_splitPath, Bool.or_eq_false_iff, beq_eq_false_iff_ne, ne_eq,
    List.any_eq_false, beq_iff_eq]

theorem safe_of_not_dangerous (h : Hdr) (hd : Reader.isDangerous h = false) :
    SafeTarget (h.symlinkTarget.getD []) := by
  cases ht : h.symlinkTarget with
  | none =>
    refine ⟨by simp, ?_⟩
    intro c hc
    simp [split_nil] at hc
    subst hc; simp
  | some t => exact (not_dangerous_iff h t ht).1 hd

/-! ## the key lemma -/

theorem mapAbs_rel (s : Fs.St) (t : Bytes) (hrel : t.head? ≠ some 0x2f) : Fs.mapAbs s t = some t := by
  simp [Fs.mapAbs, hrel]

theorem prefix_snoc (cwd cur : Fs.Path) (c : Bytes) (h : cwd <+: cur) : cwd <+: cur ++ [c] :=
  h.trans (List.prefix_append _ _)

/-- **the walk stays below `cwd`**: from a directory below `cwd`, over components none of which
is "..", in a state whose visible links below `cwd` are all safe. -/
theorem resolve_below (s : Fs.St) (hs : SafeLinks s) (fl : Bool) :
    ∀ (fuel : Nat) (cur : Fs.Path) (cs : List Bytes) (q : Fs.Path),
      s.cwd <+: cur → (∀ c ∈ cs, c ≠ [0x2e, 0x2e]) →
      Fs.resolve s fl fuel cur cs = .ok q → s.cwd <+: q := by
  intro fuel
  induction fuel with
  | zero =>
    intro cur cs q _ _ h
    rw [resolve_zero] at h; cases h
  | succ f ih =>
    intro cur cs q hcur hnd h
    cases cs with
    | nil =>
      rw [resolve_nil] at h
      injection h with h; subst h; exact hcur
    | cons c rest =>
      have hc : c ≠ [0x2e, 0x2e] := hnd c (by simp)
      have hrest : ∀ x ∈ rest, x ≠ [0x2e, 0x2e] := fun x hx => hnd x (by simp [hx])
      rw [Fs.resolve] at h
      split at h
      · exact ih cur rest q hcur hrest h
      · try rw [if_neg hc] at h
        split at h
        · cases h
        · simp only at h
          split at h
          · -- a link
            rename_i t hl
            split at h
            · injection h with h; subst h; exact prefix_snoc _ _ _ hcur
            · have hsafe := hs (cur ++ [c]) t (prefix_snoc _ _ _ hcur) hl
              rw [mapAbs_rel s t hsafe.1] at h
              have hb : (List.head? t == some 47) = false := by simpa using hsafe.1
              simp only [hb, Bool.false_eq_true, if_false] at h
              refine ih cur (Fs.splitPath t ++ rest) q hcur ?_ h
              intro x hx
              rcases List.mem_append.1 hx with hx | hx
              · exact hsafe.2 x hx
              · exact hrest x hx
          · exact ih (cur ++ [c]) rest q (prefix_snoc _ _ _ hcur) hrest h
          · split at h
            · split at h
              · injection h with h; subst h; exact prefix_snoc _ _ _ hcur
              · cases h
            · cases h
          · split at h
            · injection h with h; subst h; exact prefix_snoc _ _ _ hcur
            · cases h

theorem comps_no_dotdot (p : Bytes) (hnd : NoDotDot p) : ∀ c ∈ comps p, c ≠ [0x2e, 0x2e] :=
  fun c hc => (comps_good p hnd c hc).2.2

/-- **C10, key lemma.**  In a state whose links below the extraction directory are all safe,
every relative path without ".." components that resolves at all resolves to a place below the
extraction directory — whether the last component is followed (`stat`, `chmod`, `utime`) or not
(`lstat`, `unlink`, `mkdir`, `open(O_EXCL)`, `symlink`). -/
theorem safe_resolve_below_cwd (fs : Fs.St) (hs : SafeLinks fs) (followLast : Bool) (p : Bytes)
    (q : Fs.Path) (hrel : p.head? ≠ some 0x2f) (hnd : NoDotDot p)
    (hr : Fs.resolvePath fs followLast p = some q) : fs.cwd <+: q := by
  have hne : p ≠ [] := by
    intro h; subst h; rw [resolvePath_nil] at hr; cases hr
  unfold Fs.resolvePath at hr
  rw [resolveRR_rel fs followLast p hrel hne] at hr
  cases hres : Fs.resolve fs followLast 64 fs.cwd (comps p) with
  | ok r =>
    rw [hres] at hr
    have : r = q := by simpa using hr
    subst this
    exact resolve_below fs hs followLast 64 fs.cwd (comps p) r (List.prefix_refl _)
      (comps_no_dotdot p hnd) hres
  | enoent => rw [hres] at hr; simp at hr
  | eother => rw [hres] at hr; simp at hr

/-! ## `SafeLinks` under the primitive state changes -/

/-- an entry that is not a link with a dangerous target -/
def OkEnt (e : Fs.Ent) : Prop := ∀ t, e = .link t → SafeTarget t

theorem okEnt_dir (m t : Nat) : OkEnt (.dir m t) := by intro _ h; cases h
theorem okEnt_file (d : Bytes) (m t : Nat) : OkEnt (.file d m t) := by intro _ h; cases h
theorem okEnt_link (t : Bytes) (h : SafeTarget t) : OkEnt (.link t) := by
  intro t' e; injection e with e; subst e; exact h

theorem lookup_root (s : Fs.St) : Fs.lookup s [] = some (.dir 0o755 0) := by simp [Fs.lookup]

theorem safeLinks_setEnt (s : Fs.St) (hs : SafeLinks s) (k : Fs.Path) (e : Fs.Ent) (he : OkEnt e) :
    SafeLinks (Fs.setEnt s k e) := by
  intro p t hp hl
  rw [setEnt_cwd] at hp
  by_cases hpk : p = k
  · subst hpk
    by_cases h0 : p = []
    · subst h0; rw [lookup_root] at hl; cases hl
    · rw [lookup_setEnt_eq s p e h0] at hl
      injection hl with hl
      exact he t hl
  · rw [lookup_setEnt_ne s k p e hpk] at hl
    exact hs p t hp hl

theorem lookup_delEnt_eq (s : Fs.St) (p : Fs.Path) (h : p ≠ []) : Fs.lookup (Fs.delEnt s p) p = none := by
  unfold Fs.lookup Fs.delEnt
  simp only [h, if_false]
  rw [List.find?_filter]
  simp

theorem delEnt_cwd (s : Fs.St) (p : Fs.Path) : (Fs.delEnt s p).cwd = s.cwd := rfl
theorem delEnt_log (s : Fs.St) (p : Fs.Path) : (Fs.delEnt s p).log = s.log := rfl

theorem safeLinks_delEnt (s : Fs.St) (hs : SafeLinks s) (k : Fs.Path) : SafeLinks (Fs.delEnt s k) := by
  intro p t hp hl
  rw [delEnt_cwd] at hp
  by_cases hpk : p = k
  · subst hpk
    by_cases h0 : p = []
    · subst h0; rw [lookup_root] at hl; cases hl
    · rw [lookup_delEnt_eq s p h0] at hl; cases hl
  · rw [lookup_delEnt_ne s k p hpk] at hl
    exact hs p t hp hl

theorem safeLinks_stampParent (s : Fs.St) (hs : SafeLinks s) (p : Fs.Path) :
    SafeLinks (Fs.stampParent s p) := by
  simp only [Fs.stampParent]
  split
  · split
    · exact hs
    · exact safeLinks_setEnt s hs _ _ (okEnt_dir _ _)
  · exact hs

theorem safeLinks_logMut (s : Fs.St) (hs : SafeLinks s) (op : String) (p : Fs.Path) :
    SafeLinks (Fs.logMut s op p) := hs

theorem logMut_cwd (s : Fs.St) (op : String) (p : Fs.Path) : (Fs.logMut s op p).cwd = s.cwd := rfl
theorem logMut_log (s : Fs.St) (op : String) (p : Fs.Path) :
    (Fs.logMut s op p).log = ⟨op, p⟩ :: s.log := rfl

end LhasaV.Contain
