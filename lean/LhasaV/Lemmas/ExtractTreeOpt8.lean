import LhasaV.Lemmas.ExtractTreeOpt7
/-!
# C06 with options (part 8): the extraction loop with wildcard arguments and `w=`

`DenotesF fuel s es`: `Denotes` (ExtractTree12) along the run of the loop WITH its filter test —
an entry that matches no wildcard argument is passed over, the reader is not asked to extract it.
(With no wildcard arguments it is `Denotes`.)

`loop_final_g`: from the invariant to the final state; the three ways to go on are closing the
innermost open directory, extracting a selected entry, and passing over an entry that is not
selected.
-/
namespace LhasaV.ExtractTree
open LhasaV LhasaV.Header LhasaV.Extract LhasaV.GlobFs LhasaV.Contain
open Reader

/-- the state after the loop body for the presented header `h` -/
def bodyF (s : Extract.St) (rd' : Reader.St) (h : Hdr) : Extract.St :=
  if Glob.matchesFilter s.opts.filters h then extractArchivedFile { s with rd := rd' } h
  else { s with rd := rd' }

/-- the archive behind the reader denotes the entries `es`, along the run with the filter test -/
def DenotesF : Nat → Extract.St → List Entry → Prop
  | 0, _, _ => True
  | fuel+1, s, es =>
    s.aborted = false →
    ∃ oc rd', Reader.next s.rd = .ok (oc, rd') ∧
      ((s.rd.currType = .start ∨ s.rd.currType = .normal) → Pending rd'.basic.curr es) ∧
      ∀ c, oc = some c →
        (rd'.currType = .normal → ∀ p data perms mtime tl, es = .file p data perms mtime :: tl →
          (Reader.openDecoder rd').1 = true ∧ (Reader.extract rd' true).1 = (true, data)) ∧
        DenotesF fuel (bodyF s rd' c.h) (if rd'.currType = .normal then es.tail else es)

theorem preOf_filters (s : Extract.St) (h : Hdr) (b : Bool) (s' : Extract.St)
    (hp : preOf s h = some (b, s')) : s'.opts.filters = s.opts.filters := by
  unfold preOf at hp
  split at hp
  · split at hp
    · cases hp
    · injection hp with hp; injection hp with _ hp; subst hp; rfl
    · split at hp
      · cases hp
      · injection hp with hp; injection hp with _ hp; subst hp; rfl
  · injection hp with hp; injection hp with _ hp; subst hp; rfl

theorem eaf_filters (s : Extract.St) (h : Hdr) : (extractArchivedFile s h).opts.filters = s.opts.filters := by
  rw [eaf_eq]
  cases hp : preOf s h with
  | none => rfl
  | some r =>
    obtain ⟨b, s'⟩ := r
    have hf := preOf_filters s h b s' hp
    cases b with
    | true => exact hf
    | false =>
      simp only
      split
      · exact hf
      · split <;> exact hf

/-- with no wildcard arguments `DenotesF` is `Denotes` -/
theorem denotesF_of_denotes : ∀ (fuel : Nat) (s : Extract.St) (es : List Entry),
    s.opts.filters = [] → Denotes fuel s es → DenotesF fuel s es := by
  intro fuel
  induction fuel with
  | zero => intro _ _ _ _; trivial
  | succ n ih =>
    intro s es hf hd ha
    obtain ⟨oc, rd', hn, hp, hc⟩ := hd ha
    refine ⟨oc, rd', hn, hp, fun c hoc => ⟨(hc c hoc).1, ?_⟩⟩
    have hb : bodyF s rd' c.h = extractArchivedFile { s with rd := rd' } c.h := by
      unfold bodyF; rw [matches_nofilter s.opts c.h hf]; rfl
    rw [hb]
    exact ih _ _ (by rw [eaf_filters]; exact hf) (hc c hoc).2

/-- the end of a successful run: every selected entry in its final form, no directory open -/
structure FinalG (fs0 : Fs.St) (ds : List Bytes) (all : List Entry) (s : Extract.St) : Prop where
  aborted : s.aborted = false
  result : s.result = true
  fs : FsPh fs0 ds all [] s.fs

/-- one iteration of the loop, given what `next` returned -/
def loopContG (n : Nat) (s : Extract.St) (oc : Option HObj) (rd' : Reader.St) : Extract.St :=
  match oc with
  | none => { s with rd := rd' }
  | some c => extractLoop n (bodyF s rd' c.h)

theorem extractLoop_step_g (n : Nat) (s : Extract.St) (oc : Option HObj) (rd' : Reader.St)
    (ha : s.aborted = false) (hn : Reader.next s.rd = .ok (oc, rd')) :
    extractLoop (n + 1) s = loopContG n s oc rd' := by
  rw [extractLoop, if_neg (by rw [ha]; simp), hn]
  cases oc with
  | none => rfl
  | some c =>
    simp only [loopContG, bodyF]
    cases Glob.matchesFilter s.opts.filters c.h <;> rfl

/-- **the loop**: from the invariant to the final state -/
theorem loop_final_g (fs0 : Fs.St) (ds : List Bytes) (sel : Entry → Bool) (hb : BaseRef fs0 ds) :
    ∀ (fuel : Nat) (s : Extract.St) (done stk rest : List Entry),
      2 * rest.length + stk.length + 1 ≤ fuel → LoopInvG fs0 ds sel done stk rest s →
      (∀ d ∈ done, sel d = true) →
      DenotesF fuel s rest → FinalG fs0 ds (done ++ rest.filter sel) (extractLoop fuel s) := by
  intro fuel
  induction fuel with
  | zero => intro s done stk rest hf; omega
  | succ n ih =>
    intro s done stk rest hf hi hsd hden
    obtain ⟨oc, rd', hn, hpend, hcont⟩ := hden hi.core.aborted
    rw [extractLoop_step_g n s oc rd' hi.core.aborted hn]
    have hne : s.rd.currType ≠ .eof := by
      rcases hi.rd.ty with h | h | h <;> rw [h] <;> simp
    obtain ⟨u, hrd', hoc, hupol, hudef, hustk, hubc⟩ := next_pol hn hne
    rw [hi.rd.policy] at hupol
    rw [hi.rd.deferred] at hudef
    have hbasic : rd'.basic = u.basic := by rw [hrd']; exact tail_basic u
    have hp : Pending u.basic.curr rest := by
      by_cases ht : s.rd.currType = .start ∨ s.rd.currType = .normal
      · rw [← hbasic]; exact hpend ht
      · rw [hubc ht]
        apply hi.rd.pending
        rcases hi.rd.ty with h | h | h
        · exact absurd (Or.inl h) ht
        · exact absurd (Or.inr h) ht
        · exact h
    have hmatch : ∀ (e : Entry) (c : HObj), HdrOf e c.h →
        Glob.matchesFilter s.opts.filters c.h = sel e := by
      intro e c hh
      rw [matches_of hh, hi.core.filt]
    -- closing the innermost open directory
    have go_close : ∀ (d : Entry) (stk' : List Entry) (top : HObj) (rs : List HObj),
        stk = d :: stk' → u.dirStack = top :: rs → HdrOf d top.h → StackRel rs stk' →
        endOfTopDir u = true → (∀ e tl, rest = e :: tl → ¬ d.path <+: e.dirPart) →
        FinalG fs0 ds (done ++ rest.filter sel) (loopContG n s oc rd') := by
      intro d stk' top rs hs hds hh hsr he hout
      subst hs
      have hR := pop_fake u top rs hds he
      rw [← hrd'] at hR
      have hoc' : oc = some top := by rw [hoc, hR]
      subst hoc'
      have hseld : sel d = true := hsd d (hi.core.ok.sub d (by simp)).1
      have hbody : bodyF s rd' top.h = extractArchivedFile { s with rd := rd' } top.h := by
        unfold bodyF; rw [hmatch d top hh, hseld]; rfl
      show FinalG fs0 ds _ (extractLoop n (bodyF s rd' top.h))
      have hstep := step_close_g { s with rd := rd' } top (hi.core.with_rd rd') hb
        (by rw [hR]; exact hupol) (by rw [hR]; exact hudef) (by rw [hR]) (by rw [hR])
        hh (by rw [hR]; exact hsr) (by rw [hbasic]; exact hp)
        hout
      have hd2 := (hcont top rfl).2
      rw [show rd'.currType = .fakeDir by rw [hR]] at hd2
      simp only [reduceCtorEq, if_false] at hd2
      rw [hbody] at hd2 ⊢
      exact ih _ done stk' rest (by simp at hf; omega) hstep hsd hd2
    -- a stream entry is presented: extracted when selected, passed over otherwise
    have go_new : ∀ (e : Entry) (tl : List Entry) (inp : HObj),
        rest = e :: tl → u.basic.curr = some inp → HdrOf e inp.h →
        endOfTopDir u = false → (∀ d tl', stk = d :: tl' → d.path <+: e.dirPart) →
        FinalG fs0 ds (done ++ rest.filter sel) (loopContG n s oc rd') := by
      intro e tl inp hr hbc hh he hin
      subst hr
      have hR := pop_normal u he inp hbc
      rw [← hrd'] at hR
      have hoc' : oc = some inp := by rw [hoc, hR]
      subst hoc'
      show FinalG fs0 ds _ (extractLoop n (bodyF s rd' inp.h))
      have hty' : rd'.currType = .normal := by rw [hR]
      obtain ⟨hdec, hd2⟩ := hcont inp rfl
      rw [hty'] at hd2
      simp only [if_true, List.tail_cons] at hd2
      cases hse : sel e with
      | true =>
        have hbody : bodyF s rd' inp.h = extractArchivedFile { s with rd := rd' } inp.h := by
          unfold bodyF; rw [hmatch e inp hh, hse]; rfl
        have hstep := step_new_g { s with rd := rd' } inp (hi.core.with_rd rd') hb hse
          (by rw [hR]; exact hupol) (by rw [hR]; exact hudef)
          (by rw [hR]; show StackRel u.dirStack stk; rw [hustk]; exact hi.rd.stack)
          hty' (by rw [hR]) hh hin
          (fun p data perms mtime hfile => hdec hty' p data perms mtime tl (by rw [hfile]))
        rw [hbody] at hd2 ⊢
        have := ih _ (done ++ [e]) _ tl (by
          simp only [List.length_cons] at hf
          cases e.isDir <;> simp <;> omega) hstep
          (by intro d hd; rcases List.mem_append.1 hd with h | h
              · exact hsd d h
              · have : d = e := by simpa using h
                rw [this]; exact hse) hd2
        simpa [List.filter_cons, hse] using this
      | false =>
        have hbody : bodyF s rd' inp.h = { s with rd := rd' } := by
          unfold bodyF; rw [hmatch e inp hh, hse]; rfl
        rw [hbody] at hd2 ⊢
        have hpop : popStk (stk.map Entry.path) e.dirPart = stk.map Entry.path := by
          cases stk with
          | nil => rfl
          | cons d tl' => exact popStk_in _ _ _ (hin d tl' rfl)
        have hwf := hi.core.wf
        simp only [WFS, hse, Bool.false_eq_true, if_false, hpop] at hwf
        have hinv : LoopInvG fs0 ds sel done stk tl { s with rd := rd' } := by
          refine ⟨⟨hi.core.aborted, hi.core.result, hi.core.opts, hi.core.filt, hi.core.fs, hi.core.ok,
            hwf.2, fun x hx => hi.core.depth x ?_⟩, ?_⟩
          · rcases List.mem_append.1 hx with h | h
            · exact List.mem_append_left _ h
            · exact List.mem_append_right _ (List.mem_cons_of_mem _ h)
          · show RdInv rd' stk tl
            rw [hR]
            exact ⟨hupol, hudef, by show StackRel u.dirStack stk; rw [hustk]; exact hi.rd.stack,
              Or.inr (Or.inl rfl), fun h => by cases h⟩
        have := ih _ done stk tl (by simp only [List.length_cons] at hf; omega) hinv hsd hd2
        simpa [List.filter_cons, hse] using this
    -- which one it is
    cases hstk : stk with
    | cons d stk' =>
      have hsr := hi.rd.stack
      rw [hstk] at hsr
      obtain ⟨top, rs, hds, hh, hsr'⟩ := stackRel_cons hsr
      rw [← hustk] at hds
      obtain ⟨hdd, hdir⟩ := hi.core.ok.sub d (by rw [hstk]; simp)
      have hkd : EntryOk d := hi.core.ok.ok d hdd
      cases hrest : rest with
      | nil =>
        rw [hrest] at hp
        exact hrest ▸ go_close d stk' top rs hstk hds hh hsr' (endOfTopDir_none u top rs hds hp)
          (fun e tl h => by rw [hrest] at h; cases h)
      | cons e tl =>
        rw [hrest] at hp
        obtain ⟨inp, hbc, hhe⟩ := hp
        have hke : EntryOk e := by
          have := hi.core.wf
          rw [hrest] at this
          exact this.1
        have hiff := (endOfTopDir_some u hupol top rs hds inp hbc).trans
          (outside_iff hhe hh hke hkd hdir)
        by_cases hout : d.path <+: e.dirPart
        · have he : endOfTopDir u = false := by
            cases h : endOfTopDir u with
            | false => rfl
            | true => exact absurd hout (hiff.1 h)
          exact hrest ▸ go_new e tl inp hrest hbc hhe he (fun d' tl' h => by
            rw [hstk] at h; cases h; exact hout)
        · exact hrest ▸ go_close d stk' top rs hstk hds hh hsr' (hiff.2 hout)
            (fun e' tl' h => by rw [hrest] at h; cases h; exact hout)
    | nil =>
      have hsr := hi.rd.stack
      rw [hstk] at hsr
      have hds : u.dirStack = [] := by rw [hustk]; exact stackRel_nil hsr
      have he := endOfTopDir_nil u hds
      cases hrest : rest with
      | cons e tl =>
        rw [hrest] at hp
        obtain ⟨inp, hbc, hhe⟩ := hp
        exact hrest ▸ go_new e tl inp hrest hbc hhe he (fun d' tl' h => by rw [hstk] at h; cases h)
      | nil =>
        rw [hrest] at hp
        have hR := pop_eof u he hp hudef
        rw [← hrd'] at hR
        have hoc' : oc = none := by rw [hoc, hR]
        subst hoc'
        simp only [List.filter_nil, List.append_nil]
        have hfs := hi.core.fs
        rw [hstk] at hfs
        exact ⟨hi.core.aborted, hi.core.result, hfs⟩

end LhasaV.ExtractTree
