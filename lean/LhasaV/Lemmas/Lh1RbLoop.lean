import LhasaV.Lemmas.Lh1RbDefs
/-! second loop of `reconstruct_tree` -/
namespace LhasaV.Lh1
open LhasaV.Res

/-! ## sums and counts under point updates -/

theorem rb_sum_mono (f : Nat → Nat) {a b : Nat} (h : a ≤ b) : sumTo f a ≤ sumTo f b := by
  induction b with
  | zero => have : a = 0 := by omega
            subst this; exact Nat.le_refl _
  | succ b ih =>
    by_cases he : a = b + 1
    · subst he; exact Nat.le_refl _
    · have := ih (by omega)
      simp only [sumTo]; omega

theorem rb_sum_upd_lt (f : Nat → Nat) (n i v : Nat) (hi : i < n) :
    sumTo (upd f i v) n + f i = sumTo f n + v := by
  have := sumTo_upd1 (f := upd f i v) (g := f) n i hi (fun j _ hj => upd_ne f i j v hj)
  simp only [upd_same] at this
  exact this

theorem rb_sum_upd_ge (f : Nat → Nat) (n i v : Nat) (hi : n ≤ i) :
    sumTo (upd f i v) n = sumTo f n :=
  sumTo_congr n (fun j hj => upd_ne f i j v (by omega))

theorem rb_cnt_upd_lt (p : Nat → Bool) (n i : Nat) (x : Bool) (hi : i < n) :
    cntP (upd p i x) n + b2n (p i) = cntP p n + b2n x := by
  have := cntP_upd1 (p := upd p i x) (q := p) n i hi (fun j _ hj => upd_ne p i j x hj)
  simp only [upd_same] at this
  exact this

theorem rb_cnt_upd_ge (p : Nat → Bool) (n i : Nat) (x : Bool) (hi : n ≤ i) :
    cntP (upd p i x) n = cntP p n :=
  cntP_congr n (fun j hj => upd_ne p i j x (by omega))

theorem rb_sum_succ (f : Nat → Nat) (n : Nat) : sumTo f (n + 1) = sumTo f n + f n := rfl
theorem rb_cnt_succ (p : Nat → Bool) (n : Nat) : cntP p (n + 1) = cntP p n + b2n (p n) := rfl

/-- frequency of a leaf position, `0` for a branch position -/
def rb_lv (lf : Nat → Bool) (fr : Nat → Nat) (j : Nat) : Nat := if lf j then fr j else 0

theorem rb_lv_upd (lf : Nat → Bool) (fr : Nat → Nat) (i : Nat) (x : Bool) (v : Nat) :
    rb_lv (upd lf i x) (upd fr i v) = upd (rb_lv lf fr) i (if x then v else 0) := by
  funext j
  simp only [rb_lv, upd_apply]
  by_cases h : j = i
  · simp only [h, if_true]
  · simp only [h, if_false]

/-! ## the invariant of the rebuild, over plain functions

`l` leaves and `b` branches have been placed; the placed region is `lo .. 626` (`lo + l + b = 627`),
the parentless placed nodes are `lo .. 626 - 2 b`, the unplaced leaves are `0 .. 313 - l`. -/

structure rb_G (ch0 fr0 : Nat → Nat) : Prop where
  lt : ∀ k, k < 314 → ch0 k < 314
  pos : ∀ k, k < 314 → 1 ≤ fr0 k
  sorted : ∀ k, k + 1 < 314 → fr0 (k + 1) ≤ fr0 k
  inj : ∀ j k, j < 314 → k < 314 → ch0 j = ch0 k → j = k
  surj : ∀ c, c < 314 → ∃ k, k < 314 ∧ ch0 k = c
  total : sumTo fr0 314 ≤ 16541

structure rb_Inv (ch0 fr0 : Nat → Nat) (lf : Nat → Bool) (ch pa fr ln : Nat → Nat) (l b lo : Nat) : Prop where
  hlo : lo + l + b = 627
  hl : l ≤ 314
  hbl : b ≤ l
  hb : b ≤ 313
  un : ∀ k, k + l < 314 → lf k = true ∧ ch k = ch0 k ∧ fr k = fr0 k
  srt : ∀ j, lo ≤ j → j < 626 → fr (j + 1) ≤ fr j
  pos : ∀ j, lo ≤ j → j ≤ 626 → 1 ≤ fr j
  l1 : ∀ j, lo ≤ j → j ≤ 626 → lf j = true → ch j < 314 ∧ ln (ch j) = j
  l2 : ∀ k, 314 ≤ k + l → k < 314 →
    lo ≤ ln (ch0 k) ∧ ln (ch0 k) ≤ 626 ∧ lf (ln (ch0 k)) = true ∧ ch (ln (ch0 k)) = ch0 k
  l3 : ∀ k j, k + l < 314 → lo ≤ j → j ≤ 626 → lf j = true → ch j ≠ ch0 k
  br : ∀ j, lo ≤ j → j ≤ 626 → lf j = false →
    628 ≤ ch j + 2 * b ∧ ch j ≤ 626 ∧ pa (ch j) = j ∧ pa (ch j - 1) = j ∧ fr j = fr (ch j) + fr (ch j - 1)
  no : ∀ j, 627 ≤ j + 2 * b → j ≤ 626 →
    lo ≤ pa j ∧ pa j < j ∧ lf (pa j) = false ∧ (ch (pa j) = j ∨ ch (pa j) = j + 1)
  mass : ∀ c m, c + 2 * b = 627 → m + l = 314 →
    sumTo fr c + sumTo fr0 m = sumTo fr0 314 + sumTo fr lo
  cnt : cntP lf 627 = cntP lf lo + l
  lmass : ∀ m, m + l = 314 →
    sumTo (rb_lv lf fr) 627 + sumTo fr0 m = sumTo fr0 314 + sumTo (rb_lv lf fr) lo
  o1 : ∀ k, k + 1 + l = 314 → lo ≤ 626 → fr lo ≤ fr0 k
  o2 : ∀ d, d + 1 + 2 * b = 626 → b + 2 ≤ l → fr lo ≤ fr (d + 1) + fr d

/-- placing the next leaf (slot `k = 313 - l`) at `i = lo - 1` -/
theorem rb_leaf_step {ch0 fr0 : Nat → Nat} {lf : Nat → Bool} {ch pa fr ln : Nat → Nat} {l b i : Nat}
    (g : rb_G ch0 fr0) (h : rb_Inv ch0 fr0 lf ch pa fr ln l b (i + 1))
    (k : Nat) (hk : k + 1 + l = 314) (hb : b ≤ 312) (p : Nat)
    (ho : b + 2 ≤ l → ∀ d, d + 1 + 2 * b = 626 → fr0 k ≤ fr (d + 1) + fr d) :
    rb_Inv ch0 fr0 (upd lf i true) (upd ch i (ch0 k)) (upd pa i p) (upd fr i (fr0 k))
      (upd ln (ch0 k) i) (l + 1) b i := by
  have hlo := h.hlo
  have hbl := h.hbl
  have hki : k < i := by omega
  refine { hlo := by omega, hl := by omega, hbl := by omega, hb := h.hb, un := ?_, srt := ?_, pos := ?_,
           l1 := ?_, l2 := ?_, l3 := ?_, br := ?_, no := ?_, mass := ?_, cnt := ?_, lmass := ?_,
           o1 := ?_, o2 := ?_ }
  · -- un
    intro k' hk'
    have hne : k' ≠ i := by omega
    rw [upd_ne _ _ _ _ hne, upd_ne _ _ _ _ hne, upd_ne _ _ _ _ hne]
    exact h.un k' (by omega)
  · -- srt
    intro j hj hj6
    by_cases he : j = i
    · subst he
      rw [upd_same, upd_ne _ _ _ _ (by omega)]
      exact h.o1 k hk (by omega)
    · rw [upd_ne _ _ _ _ he, upd_ne _ _ _ _ (by omega)]
      exact h.srt j (by omega) hj6
  · -- pos
    intro j hj hj6
    by_cases he : j = i
    · subst he
      rw [upd_same]
      exact g.pos k (by omega)
    · rw [upd_ne _ _ _ _ he]
      exact h.pos j (by omega) hj6
  · -- l1
    intro j hj hj6 hlf
    by_cases he : j = i
    · subst he
      rw [upd_same, upd_same]
      exact ⟨g.lt k (by omega), rfl⟩
    · rw [upd_ne _ _ _ _ he] at hlf
      rw [upd_ne _ _ _ _ he]
      have h3 := h.l3 k j (by omega) (by omega) hj6 hlf
      rw [upd_ne _ _ _ _ h3]
      exact h.l1 j (by omega) hj6 hlf
  · -- l2
    intro k' hk' hk4
    by_cases he : k' = k
    · subst he
      rw [upd_same, upd_same, upd_same]
      exact ⟨Nat.le_refl _, by omega, rfl, rfl⟩
    · have hne : ch0 k' ≠ ch0 k := fun e => he (g.inj k' k hk4 (by omega) e)
      rw [upd_ne _ _ _ _ hne]
      have h2 := h.l2 k' (by omega) hk4
      have hq : ln (ch0 k') ≠ i := by omega
      rw [upd_ne _ _ _ _ hq, upd_ne _ _ _ _ hq]
      exact ⟨by omega, h2.2.1, h2.2.2.1, h2.2.2.2⟩
  · -- l3
    intro k' j hk' hj hj6 hlf
    by_cases he : j = i
    · subst he
      rw [upd_same]
      intro e
      have := g.inj k k' (by omega) (by omega) e
      omega
    · rw [upd_ne _ _ _ _ he] at hlf
      rw [upd_ne _ _ _ _ he]
      exact h.l3 k' j (by omega) (by omega) hj6 hlf
  · -- br
    intro j hj hj6 hlf
    by_cases he : j = i
    · subst he
      rw [upd_same] at hlf
      cases hlf
    · rw [upd_ne _ _ _ _ he] at hlf
      have hb' := h.br j (by omega) hj6 hlf
      rw [upd_ne _ _ _ _ he, upd_ne fr _ _ _ he]
      have e1 : ch j ≠ i := by omega
      have e2 : ch j - 1 ≠ i := by omega
      rw [upd_ne _ _ _ _ e1, upd_ne _ _ _ _ e1, upd_ne _ _ _ _ e2, upd_ne _ _ _ _ e2]
      exact hb'
  · -- no
    intro j hj hj6
    have hn := h.no j hj hj6
    have e0 : j ≠ i := by omega
    have e1 : pa j ≠ i := by omega
    rw [upd_ne _ _ _ _ e0, upd_ne _ _ _ _ e1, upd_ne _ _ _ _ e1]
    exact ⟨by omega, hn.2.1, hn.2.2.1, hn.2.2.2⟩
  · -- mass
    intro c m hc hm
    have h1 := rb_sum_upd_lt fr c i (fr0 k) (by omega)
    have h2 := rb_sum_upd_ge fr i i (fr0 k) (Nat.le_refl _)
    have h3 := h.mass c (k + 1) hc (by omega)
    obtain rfl : m = k := by omega
    rw [rb_sum_succ fr0 m, rb_sum_succ fr i] at h3
    omega
  · -- cnt
    have h1 := rb_cnt_upd_lt lf 627 i true (by omega)
    have h2 := rb_cnt_upd_ge lf i i true (Nat.le_refl _)
    have h3 := h.cnt
    rw [rb_cnt_succ lf i] at h3
    rw [h2]
    have e : b2n true = 1 := rfl
    omega
  · -- lmass
    intro m hm
    obtain rfl : m = k := by omega
    rw [rb_lv_upd]
    have h1 := rb_sum_upd_lt (rb_lv lf fr) 627 i (if true then fr0 m else 0) (by omega)
    have h2 := rb_sum_upd_ge (rb_lv lf fr) i i (if true then fr0 m else 0) (Nat.le_refl _)
    have h3 := h.lmass (m + 1) (by omega)
    rw [rb_sum_succ fr0 m, rb_sum_succ (rb_lv lf fr) i] at h3
    simp only [if_true] at h1 h2 ⊢
    have e : rb_lv lf fr i = 0 ∨ rb_lv lf fr i = fr i := by
      unfold rb_lv; split <;> simp
    omega
  · -- o1
    intro k' hk' _
    obtain rfl : k = k' + 1 := by omega
    rw [upd_same]
    exact g.sorted k' (by omega)
  · -- o2
    intro d hd hbl'
    rw [upd_same, upd_ne _ _ _ _ (by omega : d + 1 ≠ i)]
    by_cases he : d = i
    · subst he
      rw [upd_same]
      omega
    · rw [upd_ne _ _ _ _ he]
      exact ho (by omega) d hd

/-- placing the next branch (children `d + 1 = 626 - 2 b` and `d`) at `i = lo - 1` -/
theorem rb_branch_step {ch0 fr0 : Nat → Nat} {lf : Nat → Bool} {ch pa fr ln : Nat → Nat} {l b i : Nat}
    (h : rb_Inv ch0 fr0 lf ch pa fr ln l b (i + 1)) (hbl : b + 2 ≤ l)
    (d : Nat) (hd : d + 1 + 2 * b = 626) (F : Nat) (hF : F = fr (d + 1) + fr d)
    (hx : ∀ k, k + 1 + l = 314 → F ≤ fr0 k) :
    rb_Inv ch0 fr0 (upd lf i false) (upd ch i (d + 1)) (upd (upd pa (d + 1) i) d i) (upd fr i F)
      ln l (b + 1) i := by
  have hlo := h.hlo
  have hl := h.hl
  have hid : i < d := by omega
  refine { hlo := by omega, hl := hl, hbl := by omega, hb := by omega, un := ?_, srt := ?_, pos := ?_,
           l1 := ?_, l2 := ?_, l3 := ?_, br := ?_, no := ?_, mass := ?_, cnt := ?_, lmass := ?_,
           o1 := ?_, o2 := ?_ }
  · -- un
    intro k hk
    have hne : k ≠ i := by omega
    rw [upd_ne _ _ _ _ hne, upd_ne _ _ _ _ hne, upd_ne _ _ _ _ hne]
    exact h.un k hk
  · -- srt
    intro j hj hj6
    by_cases he : j = i
    · subst he
      rw [upd_same, upd_ne _ _ _ _ (by omega)]
      have := h.o2 d hd hbl
      omega
    · rw [upd_ne _ _ _ _ he, upd_ne _ _ _ _ (by omega)]
      exact h.srt j (by omega) hj6
  · -- pos
    intro j hj hj6
    by_cases he : j = i
    · subst he
      rw [upd_same]
      have := h.pos d (by omega) (by omega)
      omega
    · rw [upd_ne _ _ _ _ he]
      exact h.pos j (by omega) hj6
  · -- l1
    intro j hj hj6 hlf
    by_cases he : j = i
    · subst he
      rw [upd_same] at hlf
      cases hlf
    · rw [upd_ne _ _ _ _ he] at hlf
      rw [upd_ne _ _ _ _ he]
      exact h.l1 j (by omega) hj6 hlf
  · -- l2
    intro k hk hk4
    have h2 := h.l2 k hk hk4
    have hq : ln (ch0 k) ≠ i := by omega
    rw [upd_ne _ _ _ _ hq, upd_ne _ _ _ _ hq]
    exact ⟨by omega, h2.2.1, h2.2.2.1, h2.2.2.2⟩
  · -- l3
    intro k j hk hj hj6 hlf
    by_cases he : j = i
    · subst he
      rw [upd_same] at hlf
      cases hlf
    · rw [upd_ne _ _ _ _ he] at hlf
      rw [upd_ne _ _ _ _ he]
      exact h.l3 k j hk (by omega) hj6 hlf
  · -- br
    intro j hj hj6 hlf
    by_cases he : j = i
    · subst he
      rw [upd_same, upd_same, Nat.add_sub_cancel]
      refine ⟨by omega, by omega, ?_, ?_, ?_⟩
      · rw [upd_ne _ _ _ _ (by omega : d + 1 ≠ d), upd_same]
      · rw [upd_same]
      · rw [upd_ne _ _ _ _ (by omega : d + 1 ≠ j), upd_ne _ _ _ _ (by omega : d ≠ j)]
        exact hF
    · rw [upd_ne _ _ _ _ he] at hlf
      have hb' := h.br j (by omega) hj6 hlf
      rw [upd_ne _ _ _ _ he, upd_ne fr _ _ _ he]
      have e1 : ch j ≠ i := by omega
      have e2 : ch j - 1 ≠ i := by omega
      have e3 : ch j ≠ d := by omega
      have e4 : ch j - 1 ≠ d := by omega
      have e5 : ch j ≠ d + 1 := by omega
      have e6 : ch j - 1 ≠ d + 1 := by omega
      rw [upd_ne _ _ _ _ e1, upd_ne _ _ _ _ e2, upd_ne _ _ _ _ e3, upd_ne _ _ _ _ e4,
        upd_ne _ _ _ _ e5, upd_ne _ _ _ _ e6]
      exact ⟨by omega, hb'.2.1, hb'.2.2.1, hb'.2.2.2.1, hb'.2.2.2.2⟩
  · -- no
    intro j hj hj6
    by_cases he : j = d
    · subst he
      rw [upd_same, upd_same, upd_same]
      exact ⟨Nat.le_refl _, hid, rfl, Or.inr rfl⟩
    · rw [upd_ne _ _ _ _ he]
      by_cases he' : j = d + 1
      · subst he'
        rw [upd_same, upd_same, upd_same]
        exact ⟨Nat.le_refl _, by omega, rfl, Or.inl rfl⟩
      · rw [upd_ne _ _ _ _ he']
        have hn := h.no j (by omega) hj6
        have e1 : pa j ≠ i := by omega
        rw [upd_ne _ _ _ _ e1, upd_ne _ _ _ _ e1]
        exact ⟨by omega, hn.2.1, hn.2.2.1, hn.2.2.2⟩
  · -- mass
    intro c m hc hm
    obtain rfl : c = d := by omega
    have h1 := rb_sum_upd_lt fr c i F hid
    have h2 := rb_sum_upd_ge fr i i F (Nat.le_refl _)
    have h3 := h.mass (c + 1 + 1) m (by omega) hm
    rw [rb_sum_succ fr (c + 1), rb_sum_succ fr c, rb_sum_succ fr i] at h3
    omega
  · -- cnt
    have h1 := rb_cnt_upd_lt lf 627 i false (by omega)
    have h2 := rb_cnt_upd_ge lf i i false (Nat.le_refl _)
    have h3 := h.cnt
    rw [rb_cnt_succ lf i] at h3
    rw [h2]
    have e : b2n false = 0 := rfl
    omega
  · -- lmass
    intro m hm
    rw [rb_lv_upd]
    have h1 := rb_sum_upd_lt (rb_lv lf fr) 627 i (if false then F else 0) (by omega)
    have h2 := rb_sum_upd_ge (rb_lv lf fr) i i (if false then F else 0) (Nat.le_refl _)
    have h3 := h.lmass m hm
    rw [rb_sum_succ (rb_lv lf fr) i] at h3
    simp only [Bool.false_eq_true, if_false] at h1 h2 ⊢
    omega
  · -- o1
    intro k hk _
    rw [upd_same]
    exact hx k hk
  · -- o2
    intro d' hd' hbl'
    obtain rfl : d = d' + 2 := by omega
    rw [upd_same, upd_ne _ _ _ _ (by omega : d' + 1 ≠ i)]
    by_cases he : d' = i
    · subst he
      rw [upd_same]
      omega
    · rw [upd_ne _ _ _ _ he]
      have s1 := h.srt d' (by omega) (by omega)
      have s2 : fr (d' + 2) ≤ fr (d' + 1) := h.srt (d' + 1) (by omega) (by omega)
      have s3 : fr (d' + 2 + 1) ≤ fr (d' + 2) := h.srt (d' + 2) (by omega) (by omega)
      omega

/-- the next branch frequency is bounded by the total leaf mass -/
theorem rb_pair_le {ch0 fr0 : Nat → Nat} {lf : Nat → Bool} {ch pa fr ln : Nat → Nat} {l b lo : Nat}
    (h : rb_Inv ch0 fr0 lf ch pa fr ln l b lo) (hbl : b + 2 ≤ l) (d : Nat) (hd : d + 1 + 2 * b = 626) :
    fr (d + 1) + fr d ≤ sumTo fr0 314 := by
  have hlo := h.hlo
  have hl := h.hl
  have h1 := h.mass (d + 1 + 1) (314 - l) (by omega) (by omega)
  have h2 := rb_sum_mono fr (a := lo) (b := d) (by omega)
  rw [rb_sum_succ fr (d + 1), rb_sum_succ fr d] at h1
  omega

theorem rb_init {ch0 fr0 : Nat → Nat} {lf : Nat → Bool} {ch pa fr ln : Nat → Nat}
    (hu : ∀ k, k < 314 → lf k = true ∧ ch k = ch0 k ∧ fr k = fr0 k) :
    rb_Inv ch0 fr0 lf ch pa fr ln 0 0 627 := by
  refine { hlo := by omega, hl := by omega, hbl := by omega, hb := by omega, un := ?_, srt := ?_, pos := ?_,
           l1 := ?_, l2 := ?_, l3 := ?_, br := ?_, no := ?_, mass := ?_, cnt := ?_, lmass := ?_,
           o1 := ?_, o2 := ?_ }
  · intro k hk; exact hu k (by omega)
  · intro j h1 h2; omega
  · intro j h1 h2; omega
  · intro j h1 h2; omega
  · intro k h1 h2; omega
  · intro k j _ h1 h2; omega
  · intro j h1 h2; omega
  · intro j h1 h2; omega
  · intro c m hc hm
    obtain rfl : c = 627 := by omega
    obtain rfl : m = 314 := by omega
    omega
  · omega
  · intro m hm
    obtain rfl : m = 314 := by omega
    omega
  · intro k _ h; omega
  · intro d _ h; omega

theorem rb_final {ch0 fr0 : Nat → Nat} {lf : Nat → Bool} {ch pa fr ln : Nat → Nat}
    (g : rb_G ch0 fr0) (h : rb_Inv ch0 fr0 lf ch pa fr ln 314 313 0) :
    Tree lf ch pa fr ln 0 ∧ Sorted fr ∧ fr 0 < 32768 := by
  have hm := h.mass 1 0 (by omega) (by omega)
  have hlm := h.lmass 0 (by omega)
  have e1 : sumTo fr 1 = fr 0 := by simp [sumTo]
  have e2 : sumTo fr0 0 = 0 := rfl
  have e3 : sumTo fr 0 = 0 := rfl
  have e4 : sumTo (rb_lv lf fr) 0 = 0 := rfl
  have ht := g.total
  have hc := h.cnt
  have e5 : cntP lf 0 = 0 := rfl
  have hroot : fr 0 = sumTo fr0 314 := by omega
  refine ⟨{ br := ?_, le := ?_, cd := ?_, pr := ?_, pos := ?_, sum := ?_, lsum := ?_, top := ?_,
            nleaf := ?_ }, ?_, ?_⟩
  · intro i hi hl
    have := h.br i (by omega) (by omega) hl
    exact ⟨by omega, this.2.1, this.2.2.1, this.2.2.2.1⟩
  · intro i hi hl
    exact h.l1 i (by omega) (by omega) hl
  · intro c hc'
    obtain ⟨k, hk, rfl⟩ := g.surj c hc'
    have := h.l2 k (by omega) hk
    exact ⟨by omega, this.2.2.1, this.2.2.2⟩
  · intro i h1 hi
    have := h.no i (by omega) (by omega)
    exact ⟨this.2.1, this.2.2.1, this.2.2.2⟩
  · intro i hi
    exact h.pos i (by omega) (by omega)
  · intro i hi hl
    have := h.br i (by omega) (by omega) hl
    simp only [ne_eq, not_true_eq_false, and_false, if_false, Nat.add_zero]
    exact this.2.2.2.2
  · have : leafSum lf fr = sumTo (rb_lv lf fr) 627 := rfl
    rw [this]
    simp only [ne_eq, not_true_eq_false, false_and, if_false, Nat.add_zero]
    omega
  · omega
  · omega
  · intro i hi
    exact h.srt i (by omega) (by omega)
  · omega

/-! ## symbolic execution -/

/-- the state after `nodes[i] = nodes[k]; leaf_nodes[nodes[k].child_index] = i` -/
def rb_pl (t : St) (i k : Nat) : St :=
  { t with nodes := t.nodes.setIfInBounds i (nd t k),
           leafNodes := t.leafNodes.setIfInBounds (nd t k).child i }

theorem rb_pl_base (t : St) (hb : Base t) (i k : Nat) : Base (rb_pl t i k) :=
  hb.congr (by simp [rb_pl]) (by simp [rb_pl]) rfl rfl rfl rfl rfl rfl rfl

theorem rb_pl_nd (t : St) (hb : Base t) (i k : Nat) (hi : i < 627) (j : Nat) :
    nd (rb_pl t i k) j = if j = i then nd t k else nd t j := by
  simp only [nd, rb_pl]
  exact getD_set _ _ _ _ _ (by rw [hb.nodes]; exact hi)

theorem rb_pl_views (t : St) (hb : Base t) (i k : Nat) (hi : i < 627) (hc : ch t k < 314) :
    lf (rb_pl t i k) = upd (lf t) i (lf t k) ∧ ch (rb_pl t i k) = upd (ch t) i (ch t k) ∧
    pa (rb_pl t i k) = upd (pa t) i (pa t k) ∧ fr (rb_pl t i k) = upd (fr t) i (fr t k) ∧
    ln (rb_pl t i k) = upd (ln t) (ch t k) i := by
  refine ⟨?_, ?_, ?_, ?_, ?_⟩
  · funext j; simp only [lf, rb_pl_nd t hb i k hi, upd_apply]; split <;> rfl
  · funext j; simp only [ch, rb_pl_nd t hb i k hi, upd_apply]; split <;> rfl
  · funext j; simp only [pa, rb_pl_nd t hb i k hi, upd_apply]; split <;> rfl
  · funext j; simp only [fr, rb_pl_nd t hb i k hi, upd_apply]; split <;> rfl
  · funext c
    simp only [ln, rb_pl, upd_apply]
    exact getD_set _ _ _ _ _ (by rw [hb.leafNodes]; exact hc)

theorem rb_placeLeaf_ok (t : St) (hb : Base t) (i k : Nat) (hi : i < 627) (hk : k < 627)
    (hc : ch t k < 314) : placeLeaf t (i : Int) (k : Int) = .ok (rb_pl t i k) := by
  unfold placeLeaf
  have h1 : ¬ ((k : Int) < 0) := by omega
  have h2 : ¬ ((i : Int) < 0) := by omega
  simp only [h1, h2, if_false, Int.toNat_natCast]
  rw [getNode_ok _ _ _ (by rw [hb.nodes]; exact hk)]
  simp only [ok_bind]
  rw [setNode_ok _ _ _ _ (by rw [hb.nodes]; exact hi)]
  simp only [ok_bind]
  rw [setLeafNode_ok _ _ _ _ (by simp only []; rw [hb.leafNodes]; exact hc)]
  rfl

/-! ## the invariant on states, and the loops -/

def rb_SI (s1 t : St) (l b lo : Nat) : Prop :=
  Base t ∧ rb_Inv (ch s1) (fr s1) (lf t) (ch t) (pa t) (fr t) (ln t) l b lo

theorem rb_G_of {s1 : St} (h : Gathered s1) : rb_G (ch s1) (fr s1) :=
  { lt := fun k hk => (h.leaf k hk).2.1, pos := fun k hk => (h.leaf k hk).2.2, sorted := h.sorted,
    inj := h.inj, surj := h.surj, total := h.total }

theorem rb_leaf_state {s1 t : St} {l b i : Nat} (g : rb_G (ch s1) (fr s1)) (h : rb_SI s1 t l b (i + 1))
    (k : Nat) (hk : k + 1 + l = 314) (hb : b ≤ 312)
    (ho : b + 2 ≤ l → ∀ d, d + 1 + 2 * b = 626 → fr s1 k ≤ fr t (d + 1) + fr t d) :
    placeLeaf t (i : Int) (k : Int) = .ok (rb_pl t i k) ∧ rb_SI s1 (rb_pl t i k) (l + 1) b i := by
  obtain ⟨hbase, hinv⟩ := h
  have hlo := hinv.hlo
  have hu := hinv.un k (by omega)
  have hc : ch t k < 314 := by rw [hu.2.1]; exact g.lt k (by omega)
  have hi : i < 627 := by omega
  refine ⟨rb_placeLeaf_ok t hbase i k hi (by omega) hc, rb_pl_base t hbase i k, ?_⟩
  obtain ⟨v1, v2, v3, v4, v5⟩ := rb_pl_views t hbase i k hi hc
  rw [v1, v2, v3, v4, v5, hu.1, hu.2.1, hu.2.2]
  exact rb_leaf_step g hinv k hk hb (pa t k) ho

theorem rb_close {s1 : St} (g : rb_G (ch s1) (fr s1)) (b : Nat) :
    ∀ (n : Nat) (t : St) (l lo : Nat) (iI leafI childI : Int), rb_SI s1 t l b lo →
      (b = 0 ∨ b < l) → (l + b ≤ 626 ∨ b + 2 ≤ l) → (b + 2 - l) + 1 ≤ n →
      iI = (lo : Int) - 1 → leafI = 313 - (l : Int) → childI = 626 - 2 * (b : Int) →
      ∃ (t' : St) (l' lo' : Nat), placeWhileClose n iI leafI childI t = .ok ((lo' : Int) - 1, 313 - (l' : Int), t') ∧
        rb_SI s1 t' l' b lo' ∧ b + 2 ≤ l' ∧ lo' ≤ lo := by
  intro n
  induction n with
  | zero => intro t l lo iI leafI childI _ _ _ hn; omega
  | succ n ih =>
    intro t l lo iI leafI childI h hh hr hn hiI hleaf hchild
    have hlo := h.2.hlo
    have hbl := h.2.hbl
    unfold placeWhileClose
    by_cases hc : childI - iI < 2
    · simp only [hc, if_true]
      obtain ⟨i, rfl⟩ : ∃ i, lo = i + 1 := ⟨lo - 1, by omega⟩
      obtain rfl : iI = (i : Int) := by omega
      obtain ⟨k, hk⟩ : ∃ k, k + 1 + l = 314 := ⟨313 - l, by omega⟩
      obtain rfl : leafI = (k : Int) := by omega
      have hs := rb_leaf_state g h k hk (by omega) (fun h' => by omega)
      rw [hs.1]
      simp only [ok_bind]
      obtain ⟨t', l', lo', e, hsi, h1, h2⟩ :=
        ih (rb_pl t i k) (l + 1) i ((i : Int) - 1) ((k : Int) - 1) childI hs.2 (by omega) (by omega)
          (by omega) rfl (by omega) hchild
      exact ⟨t', l', lo', e, hsi, h1, by omega⟩
    · simp only [hc, if_false]
      exact ⟨t, l, lo, by rw [hiI, hleaf], h, by omega, Nat.le_refl _⟩

theorem rb_lighter {s1 : St} (g : rb_G (ch s1) (fr s1)) (b d F : Nat) (hd : d + 1 + 2 * b = 626) :
    ∀ (n : Nat) (t : St) (l lo : Nat) (iI leafI : Int), rb_SI s1 t l b lo →
      b + 2 ≤ l → (314 - l) + 1 ≤ n → F = fr t (d + 1) + fr t d →
      iI = (lo : Int) - 1 → leafI = 313 - (l : Int) →
      ∃ (t' : St) (l' lo' : Nat), placeWhileLighter n iI leafI F t = .ok ((lo' : Int) - 1, 313 - (l' : Int), t') ∧
        rb_SI s1 t' l' b lo' ∧ b + 2 ≤ l' ∧ lo' ≤ lo ∧ F = fr t' (d + 1) + fr t' d ∧
        (∀ k, k + 1 + l' = 314 → F ≤ fr s1 k) := by
  intro n
  induction n with
  | zero => intro t l lo iI leafI _ _ hn; omega
  | succ n ih =>
    intro t l lo iI leafI h hbl hn hF hiI hleaf
    have hlo := h.2.hlo
    have hl := h.2.hl
    unfold placeWhileLighter
    by_cases hc : leafI ≥ 0
    · simp only [hc, if_true]
      obtain ⟨i, rfl⟩ : ∃ i, lo = i + 1 := ⟨lo - 1, by omega⟩
      obtain rfl : iI = (i : Int) := by omega
      obtain ⟨k, hk⟩ : ∃ k, k + 1 + l = 314 := ⟨313 - l, by omega⟩
      obtain rfl : leafI = (k : Int) := by omega
      have hu := h.2.un k (by omega)
      rw [Int.toNat_natCast, getNode_ok _ _ _ (by rw [h.1.nodes]; omega)]
      simp only [ok_bind]
      have hfr : (nd t k).freq = fr s1 k := hu.2.2
      rw [hfr]
      by_cases hle : F ≥ fr s1 k
      · simp only [hle, if_true]
        have hs := rb_leaf_state g h k hk (by omega) (fun _ d' hd' => by
          obtain rfl : d' = d := by omega
          omega)
        rw [hs.1]
        simp only [ok_bind]
        obtain ⟨v1, v2, v3, v4, v5⟩ := rb_pl_views t h.1 i k (by omega)
          (by rw [hu.2.1]; exact g.lt k (by omega))
        have hF' : F = fr (rb_pl t i k) (d + 1) + fr (rb_pl t i k) d := by
          rw [v4, upd_ne _ _ _ _ (by omega : d + 1 ≠ i), upd_ne _ _ _ _ (by omega : d ≠ i)]
          exact hF
        obtain ⟨t', l', lo', e, hsi, h1, h2, h3, h4⟩ :=
          ih (rb_pl t i k) (l + 1) i ((i : Int) - 1) ((k : Int) - 1) hs.2 (by omega) (by omega)
            hF' rfl (by omega)
        exact ⟨t', l', lo', e, hsi, h1, by omega, h3, h4⟩
      · simp only [hle, if_false, pure_eq]
        refine ⟨t, l, i + 1, ?_, h, hbl, Nat.le_refl _, hF, ?_⟩
        · have e1 : ((i + 1 : Nat) : Int) - 1 = (i : Int) := by omega
          have e2 : 313 - (l : Int) = (k : Int) := by omega
          rw [e1, e2]
        · intro k' hk'
          obtain rfl : k' = k := by omega
          omega
    · simp only [hc, if_false]
      exact ⟨t, l, lo, by rw [hiI, hleaf], h, hbl, Nat.le_refl _, hF, fun k hk => by omega⟩

/-- one node write -/
def rb_set (t : St) (i : Nat) (n : Node) : St := { t with nodes := t.nodes.setIfInBounds i n }

theorem rb_set_base (t : St) (hb : Base t) (i : Nat) (n : Node) : Base (rb_set t i n) :=
  hb.congr (by simp [rb_set]) rfl rfl rfl rfl rfl rfl rfl rfl

theorem rb_set_nd (t : St) (hb : Base t) (i : Nat) (n : Node) (hi : i < 627) (j : Nat) :
    nd (rb_set t i n) j = if j = i then n else nd t j := by
  simp only [nd, rb_set]
  exact getD_set _ _ _ _ _ (by rw [hb.nodes]; exact hi)

theorem rb_setNode_ok (t : St) (hb : Base t) (site : String) (i : Nat) (n : Node) (hi : i < 627) :
    setNode t site i n = .ok (rb_set t i n) :=
  setNode_ok _ _ _ _ (by rw [hb.nodes]; exact hi)

/-- the state after writing the branch at `i` with children `d + 1`, `d` -/
def rb_bs (t : St) (i d F : Nat) : St :=
  let s1 := rb_set t i { nd t i with leaf := false, freq := F, child := d + 1 }
  let s2 := rb_set s1 (d + 1) { nd s1 (d + 1) with parent := i }
  rb_set s2 d { nd s2 d with parent := i }

theorem rb_bs_base (t : St) (hb : Base t) (i d F : Nat) : Base (rb_bs t i d F) :=
  rb_set_base _ (rb_set_base _ (rb_set_base _ hb _ _) _ _) _ _

theorem rb_set_size (t : St) (i : Nat) (n : Node) : (rb_set t i n).nodes.size = t.nodes.size := by
  simp [rb_set]

theorem rb_set_nd' (t : St) (i : Nat) (n : Node) (j : Nat) (hi : i < t.nodes.size) :
    nd (rb_set t i n) j = if j = i then n else nd t j := by
  simp only [nd, rb_set]
  exact getD_set _ _ _ _ _ hi

theorem rb_bs_nd (t : St) (hb : Base t) (i d F : Nat) (hid : i < d) (hd : d + 1 < 627) (j : Nat) :
    nd (rb_bs t i d F) j =
      if j = d then { nd t d with parent := i }
      else if j = d + 1 then { nd t (d + 1) with parent := i }
      else if j = i then { nd t i with leaf := false, freq := F, child := d + 1 }
      else nd t j := by
  have e1 : ¬ d = d + 1 := by omega
  have e2 : ¬ d = i := by omega
  have e3 : ¬ d + 1 = i := by omega
  have z1 : i < t.nodes.size := by rw [hb.nodes]; omega
  have z2 : d < t.nodes.size := by rw [hb.nodes]; omega
  have z3 : d + 1 < t.nodes.size := by rw [hb.nodes]; omega
  simp only [rb_bs, rb_set_nd', rb_set_size, z1, z2, z3, e1, e2, e3, if_false]

theorem rb_bs_views (t : St) (hb : Base t) (i d F : Nat) (hid : i < d) (hd : d + 1 < 627) :
    lf (rb_bs t i d F) = upd (lf t) i false ∧ ch (rb_bs t i d F) = upd (ch t) i (d + 1) ∧
    pa (rb_bs t i d F) = upd (upd (pa t) (d + 1) i) d i ∧ fr (rb_bs t i d F) = upd (fr t) i F ∧
    ln (rb_bs t i d F) = ln t := by
  have e2 : ¬ d = i := by omega
  have e3 : ¬ d + 1 = i := by omega
  refine ⟨?_, ?_, ?_, ?_, rfl⟩
  · funext j
    simp only [lf, rb_bs_nd t hb i d F hid hd, upd_apply]
    by_cases h1 : j = d
    · subst h1; simp only [if_true, e2, if_false]
    · by_cases h2 : j = d + 1
      · subst h2; simp only [h1, if_true, e3, if_false]
      · by_cases h3 : j = i
        · subst h3; simp only [h1, h2, if_true, if_false]
        · simp only [h1, h2, h3, if_false]
  · funext j
    simp only [ch, rb_bs_nd t hb i d F hid hd, upd_apply]
    by_cases h1 : j = d
    · subst h1; simp only [if_true, e2, if_false]
    · by_cases h2 : j = d + 1
      · subst h2; simp only [h1, if_true, e3, if_false]
      · by_cases h3 : j = i
        · subst h3; simp only [h1, h2, if_true, if_false]
        · simp only [h1, h2, h3, if_false]
  · funext j
    simp only [pa, rb_bs_nd t hb i d F hid hd, upd_apply]
    by_cases h1 : j = d
    · subst h1; simp only [if_true]
    · by_cases h2 : j = d + 1
      · subst h2; simp only [h1, if_true, if_false]
      · by_cases h3 : j = i
        · subst h3; simp only [h1, h2, if_true, if_false]
        · simp only [h1, h2, h3, if_false]
  · funext j
    simp only [fr, rb_bs_nd t hb i d F hid hd, upd_apply]
    by_cases h1 : j = d
    · subst h1; simp only [if_true, e2, if_false]
    · by_cases h2 : j = d + 1
      · subst h2; simp only [h1, if_true, e3, if_false]
      · by_cases h3 : j = i
        · subst h3; simp only [h1, h2, if_true, if_false]
        · simp only [h1, h2, h3, if_false]

theorem rb_round {s1 : St} (g : rb_G (ch s1) (fr s1)) (n : Nat) (t : St) (l b lo : Nat)
    (iI leafI childI : Int) (h : rb_SI s1 t l b lo) (hh : b = 0 ∨ b < l) (hlo1 : 1 ≤ lo)
    (hiI : iI = (lo : Int) - 1) (hleaf : leafI = 313 - (l : Int)) (hchild : childI = 626 - 2 * (b : Int)) :
    ∃ (t' : St) (l' lo' : Nat),
      rebuildLoop (n + 1) iI leafI childI t =
        rebuildLoop n ((lo' : Int) - 1) (313 - (l' : Int)) (626 - 2 * ((b + 1 : Nat) : Int)) t' ∧
      rb_SI s1 t' l' (b + 1) lo' ∧ b + 1 < l' ∧ lo' < lo := by
  have hlo := h.2.hlo
  have hbl := h.2.hbl
  rw [rebuildLoop]
  have hi0 : iI ≥ 0 := by omega
  simp only [hi0, if_true]
  generalize hN : numNodes + 2 = N
  have hN' : N = 629 := hN.symm
  obtain ⟨t1, l1, lo1, e1, hs1, hbl1, hlo1'⟩ :=
    rb_close g b N t l lo iI leafI childI h hh (by omega) (by omega) hiI hleaf hchild
  rw [e1]
  simp only [ok_bind]
  have hl1 := hs1.2.hl
  have hlo1e := hs1.2.hlo
  obtain ⟨d, hd⟩ : ∃ d, d + 1 + 2 * b = 626 := ⟨625 - 2 * b, by omega⟩
  have hc1 : ¬ childI < 1 := by omega
  have hct : childI.toNat = d + 1 := by omega
  simp only [hc1, if_false, hct, Nat.add_sub_cancel]
  rw [getNode_ok _ _ _ (by rw [hs1.1.nodes]; omega)]
  simp only [ok_bind]
  rw [getNode_ok _ _ _ (by rw [hs1.1.nodes]; omega)]
  simp only [ok_bind]
  obtain ⟨t2, l2, lo2, e2, hs2, hbl2, hlo2, hF2, hx2⟩ :=
    rb_lighter g b d ((nd t1 (d + 1)).freq + (nd t1 d).freq) hd N t1 l1 lo1 ((lo1 : Int) - 1)
      (313 - (l1 : Int)) hs1 hbl1 (by omega) rfl rfl rfl
  rw [e2]
  simp only [ok_bind]
  generalize (nd t1 (d + 1)).freq + (nd t1 d).freq = F at e2 hF2 hx2 ⊢
  have hl2 := hs2.2.hl
  have hlo2e := hs2.2.hlo
  have hFle := rb_pair_le hs2.2 hbl2 d hd
  have htot := g.total
  obtain ⟨i2, rfl⟩ : ∃ i2, lo2 = i2 + 1 := ⟨lo2 - 1, by omega⟩
  have ei : ((i2 + 1 : Nat) : Int) - 1 = (i2 : Int) := by omega
  have hneg : ¬ ((i2 : Int) < 0) := by omega
  have em1 : (d + 1) % 32768 = d + 1 := Nat.mod_eq_of_lt (by omega)
  have em2 : F % 65536 = F := Nat.mod_eq_of_lt (by omega)
  simp only [ei, hneg, if_false, Int.toNat_natCast, em1, em2]
  rw [getNode_ok _ _ _ (by rw [hs2.1.nodes]; omega)]
  simp only [ok_bind]
  rw [rb_setNode_ok _ hs2.1 _ _ _ (by omega)]
  simp only [ok_bind]
  have b1 := rb_set_base t2 hs2.1 i2 { nd t2 i2 with leaf := false, freq := F, child := d + 1 }
  rw [getNode_ok _ _ _ (by rw [b1.nodes]; omega)]
  simp only [ok_bind]
  rw [rb_setNode_ok _ b1 _ _ _ (by omega)]
  simp only [ok_bind]
  have b2 := rb_set_base _ b1 (d + 1)
    { nd (rb_set t2 i2 { nd t2 i2 with leaf := false, freq := F, child := d + 1 }) (d + 1) with parent := i2 }
  rw [getNode_ok _ _ _ (by rw [b2.nodes]; omega)]
  simp only [ok_bind]
  rw [rb_setNode_ok _ b2 _ _ _ (by omega)]
  simp only [ok_bind]
  refine ⟨rb_bs t2 i2 d F, l2, i2, ?_, ⟨rb_bs_base t2 hs2.1 i2 d F, ?_⟩, by omega, by omega⟩
  · rw [show childI - 2 = 626 - 2 * ((b + 1 : Nat) : Int) by omega]
    rfl
  · obtain ⟨v1, v2, v3, v4, v5⟩ := rb_bs_views t2 hs2.1 i2 d F (by omega) (by omega)
    rw [v1, v2, v3, v4, v5]
    exact rb_branch_step hs2.2 hbl2 d hd F (by rw [hF2]) hx2

theorem rb_outer {s1 : St} (g : rb_G (ch s1) (fr s1)) :
    ∀ (n : Nat) (t : St) (l b lo : Nat) (iI leafI childI : Int), rb_SI s1 t l b lo →
      (b = 0 ∨ b < l) → lo + 1 ≤ n →
      iI = (lo : Int) - 1 → leafI = 313 - (l : Int) → childI = 626 - 2 * (b : Int) →
      ∃ t', rebuildLoop n iI leafI childI t = .ok t' ∧ rb_SI s1 t' 314 313 0 := by
  intro n
  induction n with
  | zero => intro t l b lo iI leafI childI _ _ hn; omega
  | succ n ih =>
    intro t l b lo iI leafI childI h hh hn hiI hleaf hchild
    have hlo := h.2.hlo
    have hl := h.2.hl
    by_cases h0 : lo = 0
    · subst h0
      obtain rfl : l = 314 := by omega
      obtain rfl : b = 313 := by omega
      rw [rebuildLoop]
      have hi0 : ¬ iI ≥ 0 := by omega
      simp only [hi0, if_false]
      exact ⟨t, rfl, h⟩
    · obtain ⟨t', l', lo', e, hs, hbl', hlo'⟩ :=
        rb_round g n t l b lo iI leafI childI h hh (by omega) hiI hleaf hchild
      rw [e]
      exact ih t' l' (b + 1) lo' _ _ _ hs (Or.inr hbl') (by omega) rfl rfl rfl

theorem rebuildLoop_spec (s1 : St) (h : Gathered s1) :
    ∃ s2, rebuildLoop (numNodes + 1) (numNodes - 1 : Nat) (numCodes - 1 : Nat) (numNodes - 1 : Nat) s1 = .ok s2 ∧
      Base s2 ∧ Tree (lf s2) (ch s2) (pa s2) (fr s2) (ln s2) 0 ∧ Sorted (fr s2) ∧ fr s2 0 < 32768 := by
  have g := rb_G_of h
  have hinit : rb_SI s1 s1 0 0 627 :=
    ⟨h.base, rb_init (fun k hk => ⟨(h.leaf k hk).1, rfl, rfl⟩)⟩
  obtain ⟨s2, e, hb, hinv⟩ :=
    rb_outer g (numNodes + 1) s1 0 0 627 ((numNodes - 1 : Nat) : Int) ((numCodes - 1 : Nat) : Int)
      ((numNodes - 1 : Nat) : Int) hinit (Or.inl rfl) (Nat.le_refl _) (by decide) (by decide) (by decide)
  exact ⟨s2, e, hb, rb_final g hinv⟩

end LhasaV.Lh1
