import LhasaV.Lemmas.TreeCanon2
import LhasaV.Lemmas.Bits
/-!
Canonical-code correctness of `build_tree`, part 3: arithmetic of complete
length tables (Kraft equality gives the prefix bounds and the room the builder
needs), `maxLen`, and the connection between slot paths and `read_from_tree`.
-/
namespace LhasaV.Tree
open LhasaV.Spec.Canon

/-! ### Kraft arithmetic -/

theorem S_succ (lens : List Nat) (L : Nat) : S lens (L + 1) = 2 * S lens L + lens.count (L + 1) := rfl
theorem asg_succ (lens : List Nat) (L : Nat) : asg lens (L + 1) = asg lens L + lens.count (L + 1) := rfl

theorem S_scale (lens : List Nat) (L k : Nat) : 2 ^ k * S lens L ≤ S lens (L + k) := by
  induction k with
  | zero => rw [Nat.pow_zero, Nat.one_mul]; exact Nat.le_refl _
  | succ k ih =>
    have : S lens (L + (k + 1)) = 2 * S lens (L + k) + lens.count (L + k + 1) := rfl
    rw [this, Nat.pow_succ]
    calc 2 ^ k * 2 * S lens L = 2 * (2 ^ k * S lens L) := by
          rw [Nat.mul_comm (2 ^ k) 2, Nat.mul_assoc]
      _ ≤ 2 * S lens (L + k) := Nat.mul_le_mul_left 2 ih
      _ ≤ _ := Nat.le_add_right _ _

/-- Kraft's inequality at the deepest level implies the prefix bounds at every level -/
theorem kraft_prefix (lens : List Nat) (Lmax : Nat) (h : S lens Lmax ≤ 2 ^ Lmax) (L : Nat)
    (hL : L ≤ Lmax) : S lens L ≤ 2 ^ L := by
  obtain ⟨k, rfl⟩ : ∃ k, Lmax = L + k := ⟨Lmax - L, by omega⟩
  have h1 := S_scale lens L k
  have h2 : 2 ^ k * S lens L ≤ 2 ^ k * 2 ^ L := by
    calc 2 ^ k * S lens L ≤ S lens (L + k) := h1
      _ ≤ 2 ^ (L + k) := h
      _ = 2 ^ k * 2 ^ L := by rw [Nat.pow_add, Nat.mul_comm]
  exact Nat.le_of_mul_le_mul_left h2 (Nat.two_pow_pos k)

theorem asg_cons (x : Nat) (xs : List Nat) (L : Nat) :
    asg (x :: xs) L = asg xs L + (if 1 ≤ x ∧ x ≤ L then 1 else 0) := by
  induction L with
  | zero =>
    have : ¬ (1 ≤ x ∧ x ≤ 0) := by omega
    rw [if_neg this]; rfl
  | succ L ih =>
    rw [asg_succ, asg_succ, ih]
    by_cases h1 : x = L + 1
    · subst h1
      have h2 : ¬ (1 ≤ L + 1 ∧ L + 1 ≤ L) := by omega
      have h3 : (1 ≤ L + 1 ∧ L + 1 ≤ L + 1) := by omega
      rw [if_neg h2, if_pos h3, List.count_cons_self]
      omega
    · rw [List.count_cons_of_ne h1]
      by_cases h2 : 1 ≤ x ∧ x ≤ L
      · have h3 : 1 ≤ x ∧ x ≤ L + 1 := by omega
        rw [if_pos h2, if_pos h3]; omega
      · have h3 : ¬ (1 ≤ x ∧ x ≤ L + 1) := by omega
        rw [if_neg h2, if_neg h3]; omega

theorem asg_nil (L : Nat) : asg [] L = 0 := by
  induction L with
  | zero => rfl
  | succ L ih => rw [asg_succ, ih]; rfl

theorem asg_le_length (lens : List Nat) (L : Nat) : asg lens L ≤ lens.length := by
  induction lens with
  | nil => rw [asg_nil]; exact Nat.le_refl _
  | cons x xs ih =>
    rw [asg_cons, List.length_cons]
    split <;> omega

/-- for a complete code, every unassigned prefix at depth L is covered by at least two longer codes -/
theorem room_of_complete (lens : List Nat) (Lmax : Nat) (h : S lens Lmax = 2 ^ Lmax) (d : Nat)
    (hd : d ≤ Lmax) :
    2 * (2 ^ (Lmax - d) - S lens (Lmax - d)) + asg lens (Lmax - d) ≤ asg lens Lmax := by
  induction d with
  | zero => rw [Nat.sub_zero, h]; omega
  | succ d ih =>
    have ih' := ih (by omega)
    obtain ⟨L, hL⟩ : ∃ L, Lmax - (d + 1) = L := ⟨_, rfl⟩
    have hL1 : Lmax - d = L + 1 := by omega
    rw [hL]; rw [hL1] at ih'
    have hS : S lens (L + 1) = 2 * S lens L + lens.count (L + 1) := rfl
    have hA : asg lens (L + 1) = asg lens L + lens.count (L + 1) := rfl
    have hk := kraft_prefix lens Lmax (by omega) L (by omega)
    have hk1 := kraft_prefix lens Lmax (by omega) (L + 1) (by omega)
    have hp : 2 ^ (L + 1) = 2 * 2 ^ L := by rw [Nat.pow_succ]; omega
    omega

/-- the room `build_tree` needs at every level, for a complete table -/
theorem room_level (lens : List Nat) (Lmax : Nat) (h : S lens Lmax = 2 ^ Lmax) (L : Nat)
    (hL : L ≤ Lmax) : 2 * asg lens L + 4 * (2 ^ L - S lens L) ≤ 2 * lens.length := by
  have hr := room_of_complete lens Lmax h (Lmax - L) (by omega)
  have e : Lmax - (Lmax - L) = L := by omega
  rw [e] at hr
  have := asg_le_length lens Lmax
  omega

/-! ### `maxLen` -/

theorem foldl_max_ge (ls : List Nat) (a : Nat) :
    a ≤ ls.foldl max a ∧ ∀ l, l ∈ ls → l ≤ ls.foldl max a := by
  induction ls generalizing a with
  | nil => exact ⟨Nat.le_refl _, fun l hl => by cases hl⟩
  | cons x xs ih =>
    rw [List.foldl_cons]
    obtain ⟨h1, h2⟩ := ih (max a x)
    refine ⟨by omega, ?_⟩
    intro l hl
    rcases List.mem_cons.mp hl with rfl | hl
    · omega
    · exact h2 l hl

theorem foldl_max_mem (ls : List Nat) (a : Nat) : ls.foldl max a = a ∨ ls.foldl max a ∈ ls := by
  induction ls generalizing a with
  | nil => exact Or.inl rfl
  | cons x xs ih =>
    rw [List.foldl_cons]
    rcases ih (max a x) with h | h
    · rw [h]
      by_cases hax : x ≤ a
      · left; omega
      · right
        have : max a x = x := by omega
        rw [this]; exact List.mem_cons_self
    · right; exact List.mem_cons_of_mem _ h

theorem le_maxLen (lens : List Nat) (l : Nat) (h : l ∈ lens) : l ≤ maxLen lens :=
  (foldl_max_ge lens 0).2 l h

theorem maxLen_mem (lens : List Nat) (h : 1 ≤ maxLen lens) : maxLen lens ∈ lens := by
  rcases foldl_max_mem lens 0 with h0 | h0
  · have : maxLen lens = 0 := h0
    omega
  · exact h0

theorem complete_iff (lens : List Nat) :
    complete lens = true ↔ 1 ≤ maxLen lens ∧ S lens (maxLen lens) = 2 ^ maxLen lens := by
  unfold complete
  rw [Bool.and_eq_true, decide_eq_true_eq, decide_eq_true_eq]

theorem bitsOf_length (L v : Nat) : (bitsOf L v).length = L := by
  induction L generalizing v with
  | zero => rfl
  | succ L ih => rw [bitsOf_succ, List.length_append, ih]; rfl

/-! ### the walker follows slot paths -/

/-- the start slot of a path that ends in a readable slot is readable -/
theorem slotAt_start (lb : Nat) (t : Array Nat) (m : Nat) (bits : List Bool) (s0 s x : Nat)
    (hp : slotAt lb t m bits s0 = some s) (hx : t[s]? = some x) : ∃ c, t[s0]? = some c := by
  cases bits with
  | nil => cases hp; exact ⟨x, hx⟩
  | cons b bs =>
    obtain ⟨e, _, he, _, _⟩ := slotAt_cons_some lb t m b bs s0 s hp
    exact ⟨e, he⟩

theorem walkFrom_leaf (lb : Nat) (t : Array Nat) (fuel code : Nat) (r : Bits) (h : code ≥ lb) :
    walkFrom lb t (fuel + 1) code r = .ok (some (code - lb), r) := by
  unfold walkFrom
  rw [if_pos h]

theorem walkFrom_ptr (lb : Nat) (t : Array Nat) (fuel code : Nat) (r : Bits) (h : code < lb)
    (bit c : Nat) (hb : r.readBit.1 = some bit) (hc : t[code + bit]? = some c) :
    walkFrom lb t (fuel + 1) code r = walkFrom lb t fuel c r.readBit.2 := by
  rw [walkFrom, if_neg (by omega)]
  simp only [hb, hc]

/-- following the bits of a slot path and then finding a leaf is what `read_from_tree` does -/
theorem walkFrom_of_slotAt (lb : Nat) (t : Array Nat) (m : Nat) (bits rest : List Bool)
    (s0 s v fuel c0 : Nat) (r : Bits) (hinv : Bits.Inv r) (hs : Bits.stream r = bits ++ rest)
    (hp : slotAt lb t m bits s0 = some s) (hc0 : t[s0]? = some c0) (hl : t[s]? = some (v + lb))
    (hf : bits.length < fuel) :
    ∃ r', walkFrom lb t fuel c0 r = .ok (some v, r') ∧ Bits.Inv r' ∧ Bits.stream r' = rest := by
  induction bits generalizing s0 c0 fuel r with
  | nil =>
    cases hp
    rw [hc0] at hl
    cases hl
    cases fuel with
    | zero => exact absurd hf (Nat.lt_irrefl _)
    | succ f =>
      refine ⟨r, ?_, hinv, hs⟩
      rw [walkFrom_leaf lb t f (v + lb) r (by omega)]
      congr 3; omega
  | cons b bs ih =>
    cases fuel with
    | zero => exact absurd hf (Nat.not_lt_zero _)
    | succ f =>
      obtain ⟨e, _, he, hlt, hp'⟩ := slotAt_cons_some lb t m b bs s0 s hp
      rw [hc0] at he
      cases he
      obtain ⟨c, hc⟩ := slotAt_start lb t m bs _ s _ hp' hl
      obtain ⟨hb, hinv', hs'⟩ := Bits.readBit_some r hinv b (bs ++ rest) hs
      rw [walkFrom_ptr lb t f c0 r hlt (bitNat b) c hb hc]
      exact ih _ f c r.readBit.2 hinv' hs' hp' hc
        (by rw [List.length_cons] at hf; omega)

end LhasaV.Tree
