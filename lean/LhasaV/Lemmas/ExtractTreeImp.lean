import LhasaV.Lemmas.ExtractTreeImp7
/-!
# C06 — the tree theorem for archives with IMPLICIT parent directories

Umbrella for `ExtractTreeImp1` … `ExtractTreeImp7` (namespaces `LhasaV.ExtractTree`,
`LhasaV.ArchiveOf`).  `ExtractTree1–16` / `ExtractTreeOpt1–14` prove the tree theorems for
`WellFormed` archives: an explicit directory entry for EVERY parent.  Many real archivers (LHA for
DOS, LHarc) write no directory entries at all; `lha x` then creates the parents with
`make_parent_directories` — mode 0755 under the umask, time = now, stamped again whenever
something is created in them.  Here:

1. **`run_tree_implicit`** (`ExtractTreeImp5`), **`extract_archiveWith_implicit`** /
   `extract_archiveOf_implicit` (`ExtractTreeImp7`, on bytes, no reader hypothesis): for files and
   safe links only, in ANY order, unique clean paths of depth < 64, no path a prefix of another
   (`ImplicitOk`, decidable), plain options, an empty extraction directory, root or an ordinary
   user (`Access`): the run succeeds and below the extraction directory the tree is exactly
   `impTreeOf es` — every entry as `treeOf` gives it, every proper non-empty prefix of an entry
   path a directory `0o755 - (0o755 &&& umask)` / `now`, nothing else (`impTree_spelled`); the
   extraction directory keeps its mode and is stamped `now`; nothing outside changes.
2. **`run_tree_mixed`**, `extract_archiveWith_mixed` / `extract_archiveOf_mixed`: explicit
   directory entries mixed with members whose parents are implicit, in the order `WFI`
   (decidable): every earlier entry above (or at) an entry's path is a directory entry that is
   still OPEN — so an explicit directory's contents follow it contiguously, a file is not also a
   directory —, and the entry's path is new (not a prefix of an earlier path) UNLESS it is a late
   directory entry.  An implicit directory may lie inside an explicit one and vice versa.
   **Late directory entries** (`lateDir`: the directory was made implicitly for an earlier member
   below it, or is open) are proved to be IGNORED: `keptOf` drops them, the directory stays
   0755 / now, its recorded permissions and time are never applied (`step_late_i`).  The result is
   `impTreeOf (keptOf [] es)`.
3. `wfi_of_wf` (`ExtractTreeImp6`): `WellFormed es → WFI [] [] es`, nothing late, nothing
   implicit (`impTreeOf = treeOf`): `run_tree_mixed` contains `run_tree`.
4. `accessW_of_access` (`ExtractTreeImp1`): `Access` suffices for the 0755 directories.

Invariant (`ExtractTreeImp2`): `FsInvI` = `FsInv` plus "every other proper prefix of a done path
is a directory `impMode` / `now`".  Re-stamping needs no extra book-keeping: every directory
below the extraction directory that can still receive a child (open directory entry, implicit
directory) carries the time `now` at all times.  `parents_made`: `make_parent_directories` =
`mkDirs` (ExtractTreeOpt3) finds the first `k` directories and makes the others (`MadeFrom`,
ExtractTreeOpt4); `existsKind_new`: the overwrite check — which runs BEFORE the parents are made
— finds nothing.

Excluded: new contents for a directory entry that was closed (an ordinary user fails when the
recorded mode is read-only; root succeeds but the directory's time becomes `now`:
`ImpCheck.closedSample`); a file that is also a directory; dangerous links; options `w=` / `i` /
wildcards together with implicit parents.
-/
