import LhasaV.Lemmas.ReaderIndep7
/-!
# C13: the reader never decodes more than the declared length

`lha_reader_read` returns at most what was asked for, and everything a `check` delivers for a
member stays within the header's declared length — for every decoder, also for the MacBinary
pass-through and for decoders that never end (`-pm1-` zero fill).
-/
set_option linter.unusedSimpArgs false
namespace LhasaV.ReaderIndep
open LhasaV LhasaV.Reader

/-- how many more bytes the outer decoder of the reader may still hand out -/
def room (s : St) : Nat :=
  match s.dec with
  | none => 0
  | some o =>
    match o.plain, o.mac with
    | some st, _ => st.length - st.pos
    | none, some m => m.length - m.pos
    | none, none => 0

theorem room_none {s : St} (h : s.dec = none) : room s = 0 := by unfold room; rw [h]

theorem readCore_room (s : St) (k : Nat) :
    (readCore s k).1.length ≤ k ∧ (readCore s k).1.length + room (readCore s k).2 ≤ room s ∧
    (s.dec ≠ none → (readCore s k).2.dec ≠ none) := by
  cases hd : s.dec with
  | none =>
    have : readCore s k = ([], s) := by unfold readCore; rw [hd]
    rw [this]; exact ⟨by simp, by simp, fun h => absurd rfl h⟩
  | some o =>
    cases hp : o.plain with
    | some st =>
      have e : readCore s k = ((Wrap.read o.d.total k st).1.1,
          { s with dec := some { o with plain := some (Wrap.read o.d.total k st).2 } }) := by
        unfold readCore; simp only [hd, hp]
      have h1 := Wrap.read_le_asked o.d.total k st
      have h2 := Wrap.read_le_remaining o.d.total k st
      have h3 := Wrap.read_pos o.d.total k st
      have h4 := Wrap.read_length o.d.total k st
      rw [e]
      refine ⟨h1, ?_, fun _ h => by cases h⟩
      have r1 : room s = st.length - st.pos := by unfold room; simp only [hd, hp]
      have r2 : room { s with dec := some { o with plain := some (Wrap.read o.d.total k st).2 } } =
          (Wrap.read o.d.total k st).2.length - (Wrap.read o.d.total k st).2.pos := by
        unfold room; rfl
      rw [r1, r2, h3, h4]; dsimp only; omega
    | none =>
      cases hm : o.mac with
      | some m =>
        have e : readCore s k = ((Wrap.read (macRead o.d.total) k m).1.1,
            { s with dec := some { o with mac := some (Wrap.read (macRead o.d.total) k m).2 } }) := by
          unfold readCore; simp only [hd, hp, hm]
        have h1 := Wrap.read_le_asked (macRead o.d.total) k m
        have h2 := Wrap.read_le_remaining (macRead o.d.total) k m
        have h3 := Wrap.read_pos (macRead o.d.total) k m
        have h4 := Wrap.read_length (macRead o.d.total) k m
        rw [e]
        refine ⟨h1, ?_, fun _ h => by cases h⟩
        have r1 : room s = m.length - m.pos := by unfold room; simp only [hd, hp, hm]
        have r2 : room { s with dec := some { o with mac := some (Wrap.read (macRead o.d.total) k m).2 } } =
            (Wrap.read (macRead o.d.total) k m).2.length - (Wrap.read (macRead o.d.total) k m).2.pos := by
          unfold room; simp only [hp]
        rw [r1, r2, h3, h4]; dsimp only; omega
      | none =>
        have : readCore s k = ([], s) := by unfold readCore; simp only [hd, hp, hm]
        rw [this]; exact ⟨by simp, by simp, fun _ => by rw [hd]; exact fun e => by cases e⟩

/-- `open_decoder`: it fails leaving no room to read, or it succeeds with a fresh decoder whose
room is the declared length of the current header -/
theorem openDecoder_spec (s : St) (hd : s.dec = none) :
    ((openDecoder s).1 = false ∧ (openDecoder s).2.dec = none) ∨
    ((openDecoder s).1 = true ∧ (openDecoder s).2.dec ≠ none ∧
      ∃ c, s.curr = some c ∧ room (openDecoder s).2 = c.h.length) := by
  unfold openDecoder
  split
  · exact Or.inl ⟨rfl, hd⟩
  · split
    · exact Or.inl ⟨rfl, hd⟩
    · rename_i c hc
      split
      · split
        · dsimp only
          split
          · exact Or.inl ⟨rfl, closeDecoder_dec _⟩
          · exact Or.inr ⟨rfl, (fun h => by cases h), c, hc, rfl⟩
        · exact Or.inr ⟨rfl, (fun h => by cases h), c, hc, rfl⟩
      · exact Or.inl ⟨rfl, hd⟩

/-- **`lha_reader_read(k)` returns at most `k` bytes.** -/
theorem read_le_asked (s : St) (k : Nat) : (read s k).1.length ≤ k := by
  rw [read_eq]
  split
  · split
    · exact (readCore_room s k).1
    · simp
  · split
    · exact (readCore_room _ k).1
    · simp

/-- with a decoder open, a read uses up room and leaves the decoder open -/
theorem read_open (s : St) (k : Nat) (hd : s.dec ≠ none) :
    (read s k).1.length + room (read s k).2 ≤ room s ∧ (read s k).2.dec ≠ none := by
  rw [read_eq]
  cases h : s.dec with
  | none => exact absurd h hd
  | some o =>
    dsimp only
    split
    · have := readCore_room s k
      exact ⟨this.2.1, this.2.2 hd⟩
    · exact ⟨by simp, by rw [h]; exact fun e => by cases e⟩

/-- with a decoder open, the read loop stays within the room that is left, whatever the fuel -/
theorem decodeLoop_open (fuel : Nat) (s : St) (acc : List UInt8) (hd : s.dec ≠ none) :
    (decodeLoop fuel s acc).1.length ≤ acc.length + room s := by
  induction fuel generalizing s acc with
  | zero => simp [decodeLoop]
  | succ n ih =>
    have hr := read_open s 64 hd
    unfold decodeLoop
    dsimp only
    split
    · dsimp only; omega
    · have := ih (read s 64).2 (acc ++ (read s 64).1) hr.2
      simp only [List.length_append] at this
      omega

/-- **`check` decodes at most the declared length** of the current header (and nothing when there
is no current header), for every state without a stale decoder -/
theorem check_output_le (s : St) (hd : s.dec = none) :
    (check s).1.2.length ≤ (s.curr.map (·.h.length)).getD 0 := by
  rw [check_unfold]
  split
  · simp
  · split
    · simp
    · rename_i c hc
      split
      · simp
      · split
        · simp
        · rename_i hok
          rcases openDecoder_spec s hd with ⟨h1, _⟩ | ⟨_, h2, c', hc', hroom⟩
          · rw [h1] at hok; simp at hok
          · rw [hc] at hc'; cases hc'
            have := decodeLoop_open (c.h.length + 2) (openDecoder s).2 [] h2
            rw [hroom] at this
            simpa [hc] using this

end LhasaV.ReaderIndep
