import LhasaV.Lemmas.ExtractTreeAll10
/-!
# C06, all deviations together (part 11): executable, sound checks of the hypotheses

`baseUB fs ds k` is a Boolean check of `BaseU fs ds k` on the entry list of the file system
(`baseUB_sound`), in the manner of `preDirB` (ExtractTreeOw8).  With it every hypothesis of
`extract_archiveOf_unified` is decidable: `WFU` (`decWFU`), `PreAtU`, `Asked`, `Encodable`,
`OwAnswers`, the depth bound — so the tie can evaluate them on generated cases, and the examples
of part 12 discharge them by `decide`.
-/
namespace LhasaV.ExtractTree
open LhasaV LhasaV.Header LhasaV.Extract LhasaV.GlobFs LhasaV.Contain

/-- every prefix of `w`, taken from the working directory, is a directory the user may search -/
def walkInB (fs : Fs.St) (w : List Bytes) : Bool :=
  (List.range (w.length + 1)).all (fun j =>
    match Fs.lookup fs (fs.cwd ++ w.take j) with
    | some (.dir m _) => fs.root || m / 64 % 2 == 1
    | _ => false)

theorem walkInB_sound (fs : Fs.St) (w : List Bytes) (h : walkInB fs w = true) : WalkIn fs w := by
  intro pre hpre
  have hj : pre.length ∈ List.range (w.length + 1) := by
    have := hpre.length_le
    exact List.mem_range.2 (by omega)
  have := List.all_eq_true.1 h _ hj
  rw [← List.prefix_iff_eq_take.1 hpre] at this
  split at this
  · rename_i m t hl
    refine ⟨m, t, hl, ?_⟩
    cases hr : fs.root with
    | true => exact Or.inl rfl
    | false => rw [hr] at this; exact Or.inr (by simpa using this)
  · cases this

/-- none of the directories `w ++ q` (`q` a non-empty prefix of `b`) exists -/
def missingB (fs : Fs.St) (w b : List Bytes) : Bool :=
  (List.range b.length).all (fun j => (Fs.lookup fs (fs.cwd ++ w ++ b.take (j + 1))).isNone)

theorem missingB_sound (fs : Fs.St) (w b : List Bytes) (h : missingB fs w b = true) :
    ∀ q, q ≠ [] → q <+: b → Fs.lookup fs (fs.cwd ++ w ++ q) = none := by
  intro q hq hp
  have hl : 0 < q.length := List.length_pos_iff.2 hq
  have hj : q.length - 1 ∈ List.range b.length := by
    have := hp.length_le
    exact List.mem_range.2 (by omega)
  have := List.all_eq_true.1 h _ hj
  rw [show q.length - 1 + 1 = q.length by omega, ← List.prefix_iff_eq_take.1 hp] at this
  simpa using this

/-- every object of the file system below `B` is — when `allow` — a regular file directly in it -/
def belowB (fs : Fs.St) (B : Fs.Path) (allow : Bool) : Bool :=
  fs.ents.all (fun x => !(B.isPrefixOf x.1) || x.1 == B ||
    (allow && x.1.length == B.length + 1 && isFileEnt x.2))

theorem belowB_sound (fs : Fs.St) (B : Fs.Path) (allow : Bool) (h : belowB fs B allow = true) :
    ∀ p, p ≠ [] → Fs.lookup fs (B ++ p) = none ∨
      (allow = true ∧ p.length = 1 ∧ ∃ d m t, Fs.lookup fs (B ++ p) = some (.file d m t)) := by
  intro p hp
  cases hl : Fs.lookup fs (B ++ p) with
  | none => exact Or.inl rfl
  | some ent =>
    right
    have hne : B ++ p ≠ [] := fun e => hp (List.append_eq_nil_iff.1 e).2
    unfold Fs.lookup at hl
    rw [if_neg hne, Option.map_eq_some_iff] at hl
    obtain ⟨x, hx, hx2⟩ := hl
    have hm := List.mem_of_find?_eq_some hx
    have hkey : x.1 = B ++ p := by simpa using List.find?_some hx
    have := List.all_eq_true.1 h x hm
    have hpre : B.isPrefixOf x.1 = true := by
      rw [hkey, List.isPrefixOf_iff_prefix]; exact List.prefix_append _ _
    have hnc : (x.1 == B) = false := by
      rw [hkey]
      simpa using fun e : B ++ p = B => hp (List.append_right_eq_self.1 e)
    simp only [hpre, hnc, Bool.not_true, Bool.false_or, Bool.and_eq_true, beq_iff_eq] at this
    obtain ⟨⟨ha, hlen⟩, hfe⟩ := this
    refine ⟨ha, ?_, ?_⟩
    · rw [hkey, List.length_append] at hlen; omega
    · rw [← hx2]
      cases hx2' : x.2 with
      | file d m t => exact ⟨d, m, t, rfl⟩
      | dir _ _ => rw [hx2'] at hfe; cases hfe
      | link _ => rw [hx2'] at hfe; cases hfe

/-- **an executable check of `BaseU`** -/
def baseUB (fs : Fs.St) (ds : List Bytes) (k : Nat) : Bool :=
  decide (∀ c ∈ ds, Name c) && decide (ds.length < 64) && walkInB fs (ds.take k) &&
  Fs.canModify fs (fs.cwd ++ ds.take k) && missingB fs (ds.take k) (ds.drop k) &&
  belowB fs (fs.cwd ++ ds) (ds.drop k).isEmpty

theorem baseUB_sound (fs : Fs.St) (ds : List Bytes) (k : Nat) (h : baseUB fs ds k = true) : BaseU fs ds k := by
  unfold baseUB at h
  simp only [Bool.and_eq_true, decide_eq_true_eq] at h
  obtain ⟨⟨⟨⟨⟨h1, h2⟩, h3⟩, h4⟩, h5⟩, h6⟩ := h
  refine ⟨h1, h2, walkInB_sound _ _ h3, h4, missingB_sound _ _ _ h5, ?_⟩
  intro p hp
  rcases belowB_sound _ _ _ h6 p hp with hn | ⟨ha, hl, hf⟩
  · exact Or.inl hn
  · exact Or.inr ⟨by simpa using ha, hl, hf⟩

/-- the user may use the directories the run creates: root, or umask 022 -/
theorem accessW_of_umask (fs : Fs.St) (h : fs.root = true ∨ fs.umask = 0o022) : AccessW fs := by
  rcases h with h | h
  · exact accessW_root fs h
  · exact accessW_user_022 fs h

end LhasaV.ExtractTree
