import LhasaV.Lemmas.Lh1Mirror5
import LhasaV.Lemmas.LzRoundTrip
import LhasaV.Model.LhNew
import LhasaV.Model.Pm
/-!
Translator tie for the decoders' INITIAL STATES: `gen/ext_small.c` runs each decoder's own init function of the working tree
on zeroed memory and dumps what it built (`Gen/Decoders.lean`: `lh1Init…`, `lz5InitRing`, `lzsInit…`); here the kernel
compares the dump with the state the hand-written models start from (through the closed forms already proved for them).
-/
namespace LhasaV.GenInit
open LhasaV LhasaV.Lh1 LhasaV.Spec.Lzhuf

set_option maxRecDepth 100000 in
theorem lz5_ring_dump : Gen.lz5InitRing = (List.range 4096).map (fun i => (Spec.Lz77.lz5Init i).toNat) := by
  decide +kernel

/-- the ring `lha_lz5_init` of the working tree builds = the ring the model starts from, cell by cell; write positions too -/
theorem lz5_init_matches_source (src : Src) :
    (∀ i, i < 4096 → (Lz5.init src).ring[i]?.map (·.toNat) = Gen.lz5InitRing[i]?) ∧ (Lz5.init src).pos = Gen.lz5InitRingPos
    ∧ Gen.lz5InitOk = 1 := by
  refine ⟨?_, rfl, by decide⟩
  intro i hi
  show Lz5.fillInitial[i]?.map (·.toNat) = _
  rw [LzRoundTrip.lz5_fill_eq_closed_form i hi, lz5_ring_dump]
  simp [hi]

/-- `lha_lzs_init` of the working tree: a ring of spaces, write position `RING_BUFFER_SIZE − START_OFFSET` -/
theorem lzs_init_matches_source (src : Src) :
    (Lzs.init src).ring = Array.replicate Gen.lzsRingCap 0x20 ∧ Gen.lzsInitRingAllSpaces = 1 ∧ (Lzs.init src).pos = Gen.lzsInitRingPos
    ∧ Gen.lzsInitOk = 1 := ⟨rfl, by decide, rfl, by decide⟩

theorem lh1_tables_dump :
    Gen.lh1InitOffsetLookup = d_code.toList ∧ Gen.lh1InitOffsetLengths = p_len.toList
    ∧ Gen.lh1InitLeafNodes = (List.range 314).map (fun c => 626 - c) ∧ Gen.lh1InitRingAllSpaces = 1 ∧ Gen.lh1InitRingPos = 0
    ∧ Gen.lh1InitOk = 1 := by decide +kernel

/-- what `lha_lh1_init` of the working tree builds – the 256-entry offset lookup, the 64 offset lengths, the code→leaf map, the ring,
the write position – is what the model's `init` builds, for every source (the offset tables are LZHUF's published `d_code` / `p_len`) -/
theorem lh1_init_matches_source (src : Src) :
    ∃ s, Lh1.init src = .ok s ∧ s.offsetLookup.toList = Gen.lh1InitOffsetLookup ∧ s.offsetLengths.toList = Gen.lh1InitOffsetLengths
      ∧ (∀ c, c < 314 → s.leafNodes.getD c 0 = Gen.lh1InitLeafNodes.getD c 0)
      ∧ s.ring = Array.replicate Gen.lh1RingCap 0x20 ∧ s.pos = Gen.lh1InitRingPos := by
  obtain ⟨s, h1, _, _, h4, _, h6, h7, h8, h9⟩ := Lh1Mirror.init_shape src
  obtain ⟨d1, d2, d3, _, d5, _⟩ := lh1_tables_dump
  refine ⟨s, h1, by rw [h8, d1], by rw [h9, d2], ?_, h6, by rw [h7, d5]⟩
  intro c hc
  have := h4 c hc
  simp only [Lh1.ln] at this
  rw [this, d3]
  simp [hc]

/-- `lha_lh_new_init` of the working tree, run for each of the five parameter sets: a ring of spaces, write position 0, no block open,
every element of the three trees a bare leaf – the state the model's `init` builds (`rfl`), for every source -/
theorem lhnew_init_matches_source (src : Src) :
    (∀ p ∈ [LhNew.lh5, LhNew.lh6, LhNew.lh7, LhNew.lhx, LhNew.lk7],
      (LhNew.init p src).ring = Array.replicate p.ringCap 0x20 ∧ (LhNew.init p src).pos = 0 ∧ (LhNew.init p src).blockRemaining = 0
      ∧ (LhNew.init p src).codeTree = Array.replicate p.codeTreeCap p.leafBit
      ∧ (LhNew.init p src).offsetTree = Array.replicate p.offsetTreeCap p.leafBit
      ∧ (LhNew.init p src).tempTree = Array.replicate p.tempTreeCap p.leafBit)
    ∧ [Gen.lh5InitOk, Gen.lh6InitOk, Gen.lh7InitOk, Gen.lhxInitOk, Gen.lk7InitOk] = [1, 1, 1, 1, 1]
    ∧ [Gen.lh5InitRingAllSpaces, Gen.lh6InitRingAllSpaces, Gen.lh7InitRingAllSpaces, Gen.lhxInitRingAllSpaces, Gen.lk7InitRingAllSpaces] = [1, 1, 1, 1, 1]
    ∧ [Gen.lh5InitRingPos, Gen.lh6InitRingPos, Gen.lh7InitRingPos, Gen.lhxInitRingPos, Gen.lk7InitRingPos] = [0, 0, 0, 0, 0]
    ∧ [Gen.lh5InitBlockRemaining, Gen.lh6InitBlockRemaining, Gen.lh7InitBlockRemaining, Gen.lhxInitBlockRemaining, Gen.lk7InitBlockRemaining] = [0, 0, 0, 0, 0]
    ∧ [Gen.lh5InitTreesAllLeaf, Gen.lh6InitTreesAllLeaf, Gen.lh7InitTreesAllLeaf, Gen.lhxInitTreesAllLeaf, Gen.lk7InitTreesAllLeaf] = [1, 1, 1, 1, 1] := by
  refine ⟨?_, by decide, by decide, by decide, by decide, by decide⟩
  intro p _
  exact ⟨rfl, rfl, rfl, rfl, rfl, rfl⟩

/-- `lha_pm1_init` / `lha_pm2_decoder_init` of the working tree: pm1 clears its own state (ring of ZEROS, positions 0), pm2 starts with
a ring of spaces, position 0, nothing to rebuild yet, both trees bare leaves; the history list is `init_history_list`'s
(`Gen.pmaInitHistory`, which the model uses directly) -/
theorem pm_init_matches_source (src : Src) :
    ((Pm1.init src).ring = Array.replicate Gen.pm1RingCap 0 ∧ (Pm1.init src).pos = Gen.pm1InitRingPos ∧ (Pm1.init src).outPos = Gen.pm1InitOutputPos
      ∧ Gen.pm1InitRingAllZero = 1 ∧ Gen.pm1InitOk = 1)
    ∧ ((Pm2.init src).ring = Array.replicate Gen.pm2RingCap 0x20 ∧ (Pm2.init src).pos = Gen.pm2InitRingPos
      ∧ (Pm2.init src).rebuildRemaining = Gen.pm2InitRebuildRemaining
      ∧ (Pm2.init src).codeTree = Array.replicate Gen.pm2CodeTreeCap Gen.pm2LeafBit
      ∧ (Pm2.init src).offsetTree = Array.replicate Gen.pm2OffsetTreeCap Gen.pm2LeafBit
      ∧ Gen.pm2InitRingAllSpaces = 1 ∧ Gen.pm2InitTreesAllLeaf = 1 ∧ Gen.pm2InitOk = 1) :=
  ⟨⟨rfl, rfl, rfl, by decide, by decide⟩, ⟨rfl, rfl, rfl, rfl, rfl, by decide, by decide, by decide⟩⟩

end LhasaV.GenInit
