import LhasaV.Lemmas.ExtractTree1
/-!
# C06 (part 2): the operations of `lha_arch_unix.c` at a path whose directories exist

`Target fs path cs`: the string `path` is relative, its real components are `cs` (none of them
".."), and every proper directory prefix of `cwd ++ cs` is a directory the user may walk through.
Then every operation acts at the lexical place `cwd ++ cs`, and its effect on `lookup` is exact:
`Created` (a new object; the parent directory's time becomes `now`) or `Touched` (metadata).
-/
namespace LhasaV.ExtractTree
open LhasaV LhasaV.Header LhasaV.Extract LhasaV.GlobFs LhasaV.Contain

structure Target (fs : Fs.St) (path : Bytes) (cs : List Bytes) : Prop where
  rel : path.head? ≠ some 0x2f
  comps : comps path = cs
  ne : cs ≠ []
  good : ∀ c ∈ cs, Good c
  len : cs.length < 64
  walk : Walk fs fs.cwd cs

section target
variable {fs : Fs.St} {path : Bytes} {cs : List Bytes}

theorem comps_nil : comps [] = [] := by simp [comps, split_nil]

theorem Target.path_ne (h : Target fs path cs) : path ≠ [] := by
  intro e
  subst e
  have := h.comps
  rw [comps_nil] at this
  exact h.ne this.symm

theorem Target.q_ne (h : Target fs path cs) : fs.cwd ++ cs ≠ [] := by
  intro e
  exact h.ne (List.append_eq_nil_iff.1 e).2

theorem Target.dropLast (h : Target fs path cs) : (fs.cwd ++ cs).dropLast = fs.cwd ++ cs.dropLast :=
  List.dropLast_append_of_ne_nil h.ne

theorem Target.resolveRR (h : Target fs path cs) (fl : Bool)
    (hl : ∀ t, Fs.lookup fs (fs.cwd ++ cs) = some (.link t) → fl = false) :
    Fs.resolveRR fs fl path = .ok (fs.cwd ++ cs) := by
  rw [resolveRR_rel fs fl path h.rel h.path_ne, h.comps,
    resolve_walk fs fl cs 64 fs.cwd h.good h.len h.walk hl]

theorem Target.resolve (h : Target fs path cs) (fl : Bool)
    (hl : ∀ t, Fs.lookup fs (fs.cwd ++ cs) = some (.link t) → fl = false) :
    Fs.resolvePath fs fl path = some (fs.cwd ++ cs) := by
  unfold Fs.resolvePath
  rw [h.resolveRR fl hl]

theorem Target.resolve_nofollow (h : Target fs path cs) :
    Fs.resolvePath fs false path = some (fs.cwd ++ cs) := h.resolve false (fun _ _ => rfl)

/-- the parent of the target is a directory -/
theorem Target.parent_dir (h : Target fs path cs) :
    ∃ m t, Fs.lookup fs (fs.cwd ++ cs).dropLast = some (.dir m t) := by
  rw [h.dropLast]
  obtain ⟨m, t, hd, _⟩ := h.walk cs.dropLast (List.dropLast_prefix cs) (dropLast_ne_self cs h.ne)
  exact ⟨m, t, hd⟩

theorem canModify_root (s : Fs.St) (p : Fs.Path) (h : s.root = true) : Fs.canModify s p = true := by
  simp [Fs.canModify, h]

/-! ## creation -/

theorem mkdir_eq (h : Target fs path cs) (hnone : Fs.lookup fs (fs.cwd ++ cs) = none)
    (hm : Fs.canModify fs (fs.cwd ++ cs).dropLast = true) (mode : Nat) :
    Fs.mkdir fs path mode = (true, Fs.logMut (Fs.stampParent (Fs.setEnt fs (fs.cwd ++ cs)
      (.dir (mode % 4096 - (mode % 4096 &&& fs.umask)) fs.now)) (fs.cwd ++ cs)) "mkdir" (fs.cwd ++ cs)) := by
  obtain ⟨m, t, hp⟩ := h.parent_dir
  unfold Fs.mkdir
  rw [h.resolve_nofollow]
  simp [h.q_ne, hnone, hp, hm]

/-- **`mkdir`** of a new name in an existing, writable directory -/
theorem mkdir_new (h : Target fs path cs) (hnone : Fs.lookup fs (fs.cwd ++ cs) = none)
    (hm : Fs.canModify fs (fs.cwd ++ cs).dropLast = true) (mode : Nat) :
    (Fs.mkdir fs path mode).1 = true ∧
    Created fs (Fs.mkdir fs path mode).2 (fs.cwd ++ cs)
      (.dir (mode % 4096 - (mode % 4096 &&& fs.umask)) fs.now) := by
  rw [mkdir_eq h hnone hm mode]
  exact ⟨rfl, created_of_set fs _ _ _ h.q_ne⟩

/-- `unlink` of a name that does not exist fails and changes nothing -/
theorem unlink_none (h : Target fs path cs) (hnone : Fs.lookup fs (fs.cwd ++ cs) = none) :
    Fs.unlink fs path = (false, fs) := by
  unfold Fs.unlink
  rw [h.resolve_nofollow]
  simp [hnone]

theorem openExcl_eq (h : Target fs path cs) (hnone : Fs.lookup fs (fs.cwd ++ cs) = none)
    (hm : Fs.canModify fs (fs.cwd ++ cs).dropLast = true) :
    Fs.openExcl fs path = (some (fs.cwd ++ cs), Fs.logMut (Fs.stampParent (Fs.setEnt fs (fs.cwd ++ cs)
      (.file [] (0o600 - (0o600 &&& fs.umask)) fs.now)) (fs.cwd ++ cs)) "create" (fs.cwd ++ cs)) := by
  obtain ⟨m, t, hp⟩ := h.parent_dir
  unfold Fs.openExcl
  rw [h.resolve_nofollow]
  simp [h.q_ne, hnone, hp, hm]

theorem symlink_eq (h : Target fs path cs) (hnone : Fs.lookup fs (fs.cwd ++ cs) = none)
    (hm : Fs.canModify fs (fs.cwd ++ cs).dropLast = true) (target : Bytes) :
    Fs.symlink fs path target = (true, Fs.logMut (Fs.stampParent (Fs.setEnt fs (fs.cwd ++ cs)
      (.link target)) (fs.cwd ++ cs)) "symlink" (fs.cwd ++ cs)) := by
  obtain ⟨m, t, hp⟩ := h.parent_dir
  unfold Fs.symlink
  rw [h.resolve_nofollow]
  simp [h.q_ne, hnone, hp, hm]

/-- **`lha_arch_symlink`** at a new name -/
theorem archSymlink_new (h : Target fs path cs) (hnone : Fs.lookup fs (fs.cwd ++ cs) = none)
    (hm : Fs.canModify fs (fs.cwd ++ cs).dropLast = true) (target : Bytes) :
    (Fs.archSymlink fs path target).1 = true ∧
    Created fs (Fs.archSymlink fs path target).2 (fs.cwd ++ cs) (.link target) := by
  unfold Fs.archSymlink
  rw [unlink_none h hnone, symlink_eq h hnone hm target]
  exact ⟨rfl, created_of_set fs _ _ _ h.q_ne⟩

/-! ## metadata -/

theorem fchmod_file (s : Fs.St) (q : Fs.Path) (d : Bytes) (m t mode : Nat) (hq : q ≠ [])
    (hl : Fs.lookup s q = some (.file d m t)) :
    Touched s (Fs.fchmod s q mode) q (.file d (mode % 4096) t) := by
  unfold Fs.fchmod
  rw [hl]
  exact touched_of_set s q _ hq

theorem writeAll_file (s : Fs.St) (q : Fs.Path) (d : Bytes) (m t : Nat) (data : Bytes) (hq : q ≠ [])
    (hl : Fs.lookup s q = some (.file d m t)) :
    Touched s (Fs.writeAll s q data) q (.file data m s.now) := by
  unfold Fs.writeAll
  rw [hl]
  exact touched_of_set_log s q _ _ hq

theorem utime_file (h : Target fs path cs) (d : Bytes) (m t ts : Nat)
    (hl : Fs.lookup fs (fs.cwd ++ cs) = some (.file d m t)) :
    (Fs.utime fs path ts).1 = true ∧
    Touched fs (Fs.utime fs path ts).2 (fs.cwd ++ cs) (.file d m ts) := by
  unfold Fs.utime
  rw [h.resolve true (by intro t' e; rw [hl] at e; cases e)]
  simp only [hl]
  exact ⟨trivial, touched_of_set_log fs _ _ _ h.q_ne⟩

theorem utime_dir (h : Target fs path cs) (m t ts : Nat)
    (hl : Fs.lookup fs (fs.cwd ++ cs) = some (.dir m t)) :
    (Fs.utime fs path ts).1 = true ∧
    Touched fs (Fs.utime fs path ts).2 (fs.cwd ++ cs) (.dir m ts) := by
  unfold Fs.utime
  rw [h.resolve true (by intro t' e; rw [hl] at e; cases e)]
  simp only [hl, h.q_ne, if_false]
  exact ⟨trivial, touched_of_set_log fs _ _ _ h.q_ne⟩

theorem chmod_dir (h : Target fs path cs) (m t mode : Nat)
    (hl : Fs.lookup fs (fs.cwd ++ cs) = some (.dir m t)) :
    (Fs.chmod fs path mode).1 = true ∧
    Touched fs (Fs.chmod fs path mode).2 (fs.cwd ++ cs) (.dir (mode % 4096) t) := by
  unfold Fs.chmod
  rw [h.resolve true (by intro t' e; rw [hl] at e; cases e)]
  simp only [hl, h.q_ne, if_false]
  exact ⟨trivial, touched_of_set_log fs _ _ _ h.q_ne⟩

/-! ## `stat` -/

theorem existsKind_none (h : Target fs path cs) (hnone : Fs.lookup fs (fs.cwd ++ cs) = none) :
    Fs.existsKind fs path = .none := by
  unfold Fs.existsKind
  rw [h.resolveRR true (by intro t e; rw [hnone] at e; cases e)]
  simp [hnone]

theorem existsKind_dir (h : Target fs path cs) (m t : Nat)
    (hl : Fs.lookup fs (fs.cwd ++ cs) = some (.dir m t)) : Fs.existsKind fs path = .dir := by
  unfold Fs.existsKind
  rw [h.resolveRR true (by intro t' e; rw [hl] at e; cases e)]
  simp [hl]

end target

/-! ## a `Target` survives changes elsewhere -/

/-- directories keep being directories with the same mode -/
def DirsKept (fs fs' : Fs.St) : Prop :=
  fs'.root = fs.root ∧ fs'.cwd = fs.cwd ∧
  ∀ p m t, Fs.lookup fs p = some (.dir m t) → ∃ t', Fs.lookup fs' p = some (.dir m t')

theorem Walk.kept {fs fs' : Fs.St} {cur : Fs.Path} {cs : List Bytes} (hk : DirsKept fs fs')
    (h : Walk fs cur cs) : Walk fs' cur cs := by
  intro pre hp hne
  obtain ⟨m, t, hd, hs⟩ := h pre hp hne
  obtain ⟨t', hd'⟩ := hk.2.2 _ m t hd
  exact ⟨m, t', hd', by rw [hk.1]; exact hs⟩

theorem Target.kept {fs fs' : Fs.St} {path : Bytes} {cs : List Bytes} (hk : DirsKept fs fs')
    (h : Target fs path cs) : Target fs' path cs :=
  ⟨h.rel, h.comps, h.ne, h.good, h.len, by rw [hk.2.1]; exact h.walk.kept hk⟩

theorem Created.dirsKept {fs fs' : Fs.St} {q : Fs.Path} {e : Fs.Ent} (h : Created fs fs' q e)
    (hnone : Fs.lookup fs q = none) : DirsKept fs fs' := by
  refine ⟨h.params.root, h.params.cwd, ?_⟩
  intro p m t hp
  by_cases h1 : p = q
  · subst h1; rw [hnone] at hp; cases hp
  · by_cases h2 : p = q.dropLast
    · subst h2
      by_cases h0 : q.dropLast = []
      · rw [h0] at hp ⊢
        rw [lookup_nil] at hp ⊢
        exact ⟨t, hp⟩
      · exact ⟨fs.now, h.parent m t hp h0⟩
    · exact ⟨t, by rw [h.frame p h1 h2]; exact hp⟩

theorem Touched.dirsKept_file {fs fs' : Fs.St} {q : Fs.Path} {e : Fs.Ent} (h : Touched fs fs' q e)
    (d : Bytes) (m t : Nat) (hf : Fs.lookup fs q = some (.file d m t)) : DirsKept fs fs' := by
  refine ⟨h.params.root, h.params.cwd, ?_⟩
  intro p m' t' hp
  by_cases h1 : p = q
  · subst h1; rw [hf] at hp; cases hp
  · exact ⟨t', by rw [h.frame p h1]; exact hp⟩

end LhasaV.ExtractTree
