import LhasaV.Lemmas.ReaderLedger
import LhasaV.Lemmas.StreamProps
/-!
# C15, part 1: the basic reader does not care how much of the current member was consumed

`lha_basic_reader_next_file` skips `curr_file_remaining` bytes and then parses the next header.
A decoder that consumed `t` bytes of the member has advanced the stream by `t` and lowered
`curr_file_remaining` by `t` (`closeDecoder` in the model), so the end of the member
`pos + remaining` is the same whatever `t` was.
-/
set_option linter.unusedSimpArgs false
namespace LhasaV.ReaderIndep
open LhasaV LhasaV.Reader

/-- the stream position at which the current member ends (= where the next header begins) -/
def mEnd (a : Basic) : Nat := a.stream.pos + a.remaining

/-- the next `basicNext` is bound to report the end of the archive: END is already set, or the
current member reaches (or is declared to reach beyond) the physical end of the data -/
def Doomed (a : Basic) : Prop :=
  a.eof = true ∨ (a.curr.isSome = true ∧ a.stream.data.size ≤ mEnd a)

/-- a basic reader without a current member has nothing left to skip -/
def Tidy (a : Basic) : Prop := a.curr = none → a.eof = true ∨ a.remaining = 0

/-- **Equality up to consumption.**  Same data and same current header object; and either both
states are bound to report END next, or neither has END set and they agree on the lead-in, the
phase and the END OF THE CURRENT MEMBER `pos + remaining` — not on `pos` and `remaining`
separately, not on the stream kind, not on the step counters. -/
def ConsEq (a b : Basic) : Prop :=
  a.stream.data = b.stream.data ∧ a.curr = b.curr ∧
  ((Doomed a ∧ Doomed b) ∨
   (a.eof = false ∧ b.eof = false ∧ a.stream.leadin = b.stream.leadin ∧
    a.stream.phase = b.stream.phase ∧ mEnd a = mEnd b ∧
    (a.curr = none → a.remaining = 0 ∧ b.remaining = 0)))

theorem ConsEq.refl {a : Basic} (h : Tidy a) : ConsEq a a := by
  refine ⟨rfl, rfl, ?_⟩
  by_cases he : a.eof = true
  · exact Or.inl ⟨Or.inl he, Or.inl he⟩
  · refine Or.inr ⟨by simpa using he, by simpa using he, rfl, rfl, rfl, fun hc => ?_⟩
    have := (h hc).resolve_left he
    exact ⟨this, this⟩

theorem ConsEq.symm {a b : Basic} (h : ConsEq a b) : ConsEq b a := by
  obtain ⟨h1, h2, h3⟩ := h
  refine ⟨h1.symm, h2.symm, ?_⟩
  rcases h3 with ⟨x, y⟩ | ⟨e1, e2, e3, e4, e5, e6⟩
  · exact Or.inl ⟨y, x⟩
  · exact Or.inr ⟨e2, e1, e3.symm, e4.symm, e5.symm, fun hc => (e6 (h2 ▸ hc)).symm⟩

theorem Doomed.transfer {a b : Basic} (hd : Doomed a) (hc : a.curr = b.curr)
    (hdata : a.stream.data = b.stream.data) (he : a.eof = false) (hm : mEnd a = mEnd b) : Doomed b := by
  rcases hd with h | ⟨h1, h2⟩
  · rw [he] at h; cases h
  · exact Or.inr ⟨by rw [← hc]; exact h1, by rw [← hdata, ← hm]; exact h2⟩

theorem ConsEq.trans {a b c : Basic} (h : ConsEq a b) (h' : ConsEq b c) : ConsEq a c := by
  obtain ⟨h1, h2, h3⟩ := h
  obtain ⟨g1, g2, g3⟩ := h'
  refine ⟨h1.trans g1, h2.trans g2, ?_⟩
  rcases h3 with ⟨x, y⟩ | ⟨e1, e2, e3, e4, e5, e6⟩
  · rcases g3 with ⟨x', y'⟩ | ⟨f1, f2, f3, f4, f5, f6⟩
    · exact Or.inl ⟨x, y'⟩
    · exact Or.inl ⟨x, y.transfer g2 g1 f1 f5⟩
  · rcases g3 with ⟨x', y'⟩ | ⟨f1, f2, f3, f4, f5, f6⟩
    · refine Or.inl ⟨?_, y'⟩
      exact Doomed.transfer x' h2.symm h1.symm e2 e5.symm
    · refine Or.inr ⟨e1, f2, e3.trans f3, e4.trans f4, e5.trans f5, fun hc => ?_⟩
      exact ⟨(e6 hc).1, (f6 (h2 ▸ hc)).2⟩

/-! ## a doomed state reports END -/

/-- from a doomed state with a current member, `basicNext` releases the member and reports END
(whatever the kind of the source: a failed skip, or a seek past the end followed by a header read
that finds nothing) -/
theorem basicNext_doomed (mk : Nat → Nat) (a : Basic) (led : Ledger) (c : HObj)
    (hc : a.curr = some c) (hd : Doomed a) (wf : Stream.WF a) :
    ∃ x, basicNext mk a led = .ok (x, led.unref c.id) ∧ x.eof = true ∧ x.curr = none ∧
      x.stream.data = a.stream.data := by
  rw [Stream.basicNext_eq]
  simp only [Stream.afterSkip, hc]
  have fa := Stream.skip_frame a.stream a.remaining
  by_cases hea : a.eof = true
  · rw [Stream.nextTail_eof _ _ _ (by simp [hea])]
    exact ⟨_, rfl, by simp [hea], rfl, fa.1⟩
  · have hsz : a.stream.data.size ≤ mEnd a := by
      rcases hd with h | h
      · exact absurd h hea
      · exact h.2
    cases hs : (Stream.skip a.stream a.remaining).1
    · rw [Stream.nextTail_eof _ _ _ (by simp [hs])]
      exact ⟨_, rfl, by simp [hs], rfl, fa.1⟩
    · have hpos := Stream.skip_pos a.stream a.remaining hs
      have hlt : a.stream.leadin.length < 22 := wf.2 (by simp [hc])
      obtain ⟨st, e, hst⟩ := Stream.nextTail_past_end mk
        { a with curr := none, stream := (Stream.skip a.stream a.remaining).2, eof := a.eof || !true }
        (led.unref c.id) (by simpa using hea)
        (by simp only [fa.1, hpos]; exact hsz)
        (by simp only [fa.2.2.2]; exact hlt)
      rw [e]
      exact ⟨_, rfl, rfl, rfl, by simp only [hst, fa.1]⟩

/-- a doomed state without a current member has END set: `basicNext` changes nothing -/
theorem basicNext_doomed_none (mk : Nat → Nat) (a : Basic) (led : Ledger)
    (hc : a.curr = none) (hd : Doomed a) : basicNext mk a led = .ok (a, led) := by
  have he : a.eof = true := by
    rcases hd with h | h
    · exact h
    · rw [hc] at h; simp at h
  rw [Stream.basicNext_eq]
  simp only [Stream.afterSkip, hc]
  exact Stream.nextTail_eof mk a led he

/-! ## the parse half of `basicNext` never reads `remaining` -/

/-- `Stream.nextTail_rel` without the hypothesis that `remaining` agrees: the continuation of
`basicNext` overwrites `remaining` when it finds a header and sets END when it does not -/
theorem nextTail_rel' (mk : Nat → Nat) (a b : Basic) (led : Ledger)
    (h : a.stream.data = b.stream.data ∧ a.curr = b.curr ∧ a.eof = b.eof ∧
      (a.eof = true ∨ (a.stream.pos = b.stream.pos ∧ a.stream.leadin = b.stream.leadin ∧
        a.stream.phase = b.stream.phase)))
    (hl : a.stream.leadin.length ≤ 24) :
    Stream.ResRel (fun r r' => Stream.ObsEq r.1 r'.1 ∧ r.2 = r'.2)
      (Stream.nextTail mk a led) (Stream.nextTail mk b led) := by
  obtain ⟨hd, hc, he, hr⟩ := h
  by_cases hea : a.eof = true
  · rw [Stream.nextTail_eof mk a led hea, Stream.nextTail_eof mk b led (he ▸ hea)]
    exact ⟨⟨hd, hc, he, Or.inl hea⟩, rfl⟩
  · have heb : ¬ b.eof = true := he ▸ hea
    obtain ⟨hp, hli, hph⟩ := hr.resolve_left hea
    obtain ⟨s', t', e1, e2, hs, hl'⟩ := Stream.start_kind_indep a.stream b.stream ⟨hd, hp, hph, hli⟩ hl
    unfold Stream.nextTail
    simp only [hea, heb, Bool.false_eq_true, if_false, e1, e2, Res.ok_bind]
    rw [← hs.rest, ← hs.2.2.1]
    split
    · exact ⟨⟨hs.1, hc, rfl, Or.inl rfl⟩, rfl⟩
    · cases hH : Header.read mk (Stream.rest s') with
      | fault w => exact rfl
      | fail => exact ⟨⟨hs.1, hc, rfl, Or.inl rfl⟩, rfl⟩
      | ok r =>
        obtain ⟨hh, rr⟩ := r
        have ha := hs.advance ((Stream.rest s').length - rr.length)
        exact ⟨⟨ha.1, rfl, rfl, Or.inr ⟨ha.2.1, ha.2.2.2, ha.2.2.1, rfl⟩⟩, rfl⟩

/-! ## a member that ends inside the data is skipped to its end by every kind of source -/

theorem skip_alive (a : Basic) (he : mEnd a < a.stream.data.size) :
    (Stream.skip a.stream a.remaining).1 = true ∧
    (Stream.skip a.stream a.remaining).2.pos = mEnd a := by
  have h1 : (Stream.skip a.stream a.remaining).1 = true := by
    by_cases hk : a.stream.kind = .seekable
    · exact Stream.skip_seekable _ _ hk
    · exact (Stream.skip_other _ _ hk).mpr (by unfold mEnd at he; omega)
  exact ⟨h1, Stream.skip_pos _ _ h1⟩

/-- **`basicNext_consumed_indep`.**  Two basic-reader states that agree up to the amount of the
current member already consumed (`ConsEq`) give observationally equal results of
`lha_basic_reader_next_file`: both fault at the same site, or both return with the same header
object (`curr`), the same END flag and — unless END — the same stream position (where the new
member's data begins), lead-in, phase and `remaining`; and with identical ledgers. -/
theorem basicNext_consumed_indep (mk : Nat → Nat) (a b : Basic) (led : Ledger)
    (h : ConsEq a b) (wfa : Stream.WF a) (wfb : Stream.WF b) :
    Stream.ResRel (fun r r' => Stream.ObsEq r.1 r'.1 ∧ r.2 = r'.2)
      (basicNext mk a led) (basicNext mk b led) := by
  obtain ⟨hd, hc, h3⟩ := h
  -- both doomed
  have doomed : Doomed a → Doomed b →
      Stream.ResRel (fun r r' => Stream.ObsEq r.1 r'.1 ∧ r.2 = r'.2)
        (basicNext mk a led) (basicNext mk b led) := by
    intro da db
    cases hca : a.curr with
    | none =>
      have hcb : b.curr = none := by rw [← hc, hca]
      rw [basicNext_doomed_none mk a led hca da, basicNext_doomed_none mk b led hcb db]
      have hea : a.eof = true := by
        rcases da with h | h
        · exact h
        · rw [hca] at h; simp at h
      have heb : b.eof = true := by
        rcases db with h | h
        · exact h
        · rw [hcb] at h; simp at h
      exact ⟨⟨hd, hc, by rw [hea, heb], Or.inl hea⟩, rfl⟩
    | some c =>
      have hcb : b.curr = some c := by rw [← hc, hca]
      obtain ⟨x, e1, x1, x2, x3⟩ := basicNext_doomed mk a led c hca da wfa
      obtain ⟨y, e2, y1, y2, y3⟩ := basicNext_doomed mk b led c hcb db wfb
      rw [e1, e2]
      exact ⟨⟨by rw [x3, y3, hd], by rw [x2, y2], by rw [x1, y1], Or.inl x1⟩, rfl⟩
  rcases h3 with ⟨da, db⟩ | ⟨ea, eb, hl, hp, hm, hz⟩
  · exact doomed da db
  · cases hca : a.curr with
    | none =>
      -- no member to skip: the two states are observationally equal already
      have hcb : b.curr = none := by rw [← hc, hca]
      obtain ⟨ra, rb⟩ := hz hca
      have hpos : a.stream.pos = b.stream.pos := by
        unfold mEnd at hm; omega
      exact Stream.basicNext_kind_indep mk a b led
        ⟨hd, hc, by rw [ea, eb], Or.inr ⟨hpos, hl, hp, by rw [ra, rb]⟩⟩ wfa
    | some c =>
      have hcb : b.curr = some c := by rw [← hc, hca]
      by_cases hend : a.stream.data.size ≤ mEnd a
      · exact doomed (Or.inr ⟨by simp [hca], hend⟩)
          (Or.inr ⟨by simp [hcb], by rw [← hd, ← hm]; exact hend⟩)
      · have hea' : mEnd a < a.stream.data.size := by omega
        have heb' : mEnd b < b.stream.data.size := by rw [← hd, ← hm]; exact hea'
        obtain ⟨sa, pa⟩ := skip_alive a hea'
        obtain ⟨sb, pb⟩ := skip_alive b heb'
        have fa := Stream.skip_frame a.stream a.remaining
        have fb := Stream.skip_frame b.stream b.remaining
        rw [Stream.basicNext_eq, Stream.basicNext_eq]
        simp only [Stream.afterSkip, hca, hcb]
        -- after the skip the two states differ in `remaining` only, which `nextTail` never reads
        exact nextTail_rel' mk _ _ _
          ⟨by simp only [fa.1, fb.1, hd], rfl, by simp [ea, eb, sa, sb],
            Or.inr ⟨by simp only [pa, pb, hm], by simp only [fa.2.2.2, fb.2.2.2, hl],
                    by simp only [fa.2.2.1, fb.2.2.1, hp]⟩⟩
          (by simp only [fa.2.2.2]; exact wfa.1)

end LhasaV.ReaderIndep
