import LhasaV.Lemmas.ReaderAllocHdr4
/-!
# Allocation-aware header parser, part 5: block accounting of the extended-header machinery
-/
namespace LhasaV.Alloc
open LhasaV LhasaV.Header

/-- standard postcondition: `k` counts exactly the strings of the resulting header object, and
no symlink target has been set yet -/
def Std (h : Hdr) (k : Nat) : Prop := k = nstr h ∧ h.symlinkTarget = none

section
variable {o : Oracle} {b : Nat} {f0 : List Site}

theorem extendA_spec {k : Nat} {h : Hdr} (inp : Bytes) (n : Nat) (hk : k = nstr h) :
    Spec o b f0 k (extendA o h inp n) (fun r k' => k' = k ∧ strs r.1 = strs h) := by
  unfold extendA
  split
  · exact Spec.failH hk
  · refine Spec.realloc_bind ?_ ?_
    · simp only [↓reduceIte]
      exact (Spec.liftR hk _).conseq (fun r k' hq => ⟨hq.2, extend_strs hq.1⟩)
    · simp only [Bool.false_eq_true, ↓reduceIte]
      exact SpecF.failH hk

/-- a step of the original model that cannot take the error return -/
theorem Spec.liftR_nofail {α : Type} {k : Nat} (h : Hdr) (r : Res α) (hr : r ≠ .fail) :
    Spec o b f0 k (Alloc.liftR h r) (fun a k' => r = .ok a ∧ k' = k) := by
  intro hp hk
  cases r with
  | ok a => exact ⟨k, ⟨rfl, rfl⟩, hk⟩
  | fail => exact absurd rfl hr
  | fault w => trivial

theorem rdSlice_ne_fail (site : String) (raw : Bytes) (off n : Nat) : rdSlice site raw off n ≠ .fail := by
  unfold rdSlice; split <;> simp

theorem decodeExt_site_ne_fail {h : Hdr} {num off len minLen : Nat} {site : Site}
    (hl : lookupExt num = some minLen) (hlt : ¬ len < minLen) (hs : extSite num = some site) :
    decodeExt h num off len ≠ .fail := by
  have hsl := rdSlice_ne_fail
  unfold decodeExt
  rw [hl]
  dsimp only
  rw [if_neg hlt]
  unfold extSite at hs
  by_cases c1 : num = Gen.extFilename
  · subst c1
    rw [if_neg (by decide), if_pos rfl]
    cases hr : rdSlice "filename: memcpy" h.raw off len with
    | ok d => simp
    | fail => exact absurd hr (hsl _ _ _ _)
    | fault w => simp
  rw [if_neg c1] at hs
  by_cases c2 : num = Gen.extPath
  · subst c2
    rw [if_neg (by decide), if_neg (by decide), if_pos rfl]
    cases hr : rdSlice "path: memcpy" h.raw off len with
    | ok d => simp only [Res.ok_bind]; split <;> simp
    | fail => exact absurd hr (hsl _ _ _ _)
    | fault w => simp
  rw [if_neg c2] at hs
  by_cases c3 : num = Gen.extUnixUser
  · subst c3
    rw [if_neg (by decide), if_neg (by decide), if_neg (by decide), if_neg (by decide), if_neg (by decide),
      if_neg (by decide), if_pos rfl]
    cases hr : rdSlice "user: memcpy" h.raw off len with
    | ok d => simp
    | fail => exact absurd hr (hsl _ _ _ _)
    | fault w => simp
  rw [if_neg c3] at hs
  by_cases c4 : num = Gen.extUnixGroup
  · subst c4
    rw [if_neg (by decide), if_neg (by decide), if_neg (by decide), if_neg (by decide), if_neg (by decide),
      if_neg (by decide), if_neg (by decide), if_pos rfl]
    cases hr : rdSlice "group: memcpy" h.raw off len with
    | ok d => simp
    | fail => exact absurd hr (hsl _ _ _ _)
    | fault w => simp
  rw [if_neg c4] at hs
  cases hs

theorem decodeExt_lookup_none {h : Hdr} {num off len : Nat} (hl : lookupExt num = none) :
    decodeExt h num off len = .ok h := by
  unfold decodeExt; rw [hl]

theorem decodeExtA_spec {k : Nat} {h : Hdr} (num off len : Nat) (hk : k = nstr h)
    (hT : h.symlinkTarget = none) : Spec o b f0 k (decodeExtA o h num off len) Std := by
  unfold decodeExtA
  split
  · rename_i minLen site hl hs
    split
    · exact (Spec.pure h k).conseq (fun a k' hq => by obtain ⟨rfl, rfl⟩ := hq; exact ⟨hk, hT⟩)
    · rename_i hlt
      refine Spec.malloc_bind ?_ ?_
      · simp only [↓reduceIte]
        refine Spec.bind (Spec.liftR_nofail h _ (decodeExt_site_ne_fail hl hlt hs)) (fun h' k1 hq => ?_)
        obtain ⟨he, rfl⟩ := hq
        obtain ⟨hn, hsy⟩ := decodeExt_site he hl hlt hs
        unfold freeStr
        refine Spec.release_bind (by split <;> omega) ?_
        exact (Spec.pure h' _).conseq (fun a k' hq => by
          obtain ⟨rfl, rfl⟩ := hq
          exact ⟨by omega, hsy.trans hT⟩)
      · simp only [Bool.false_eq_true, ↓reduceIte]
        exact SpecF.failH hk
  · rename_i hno
    refine (Spec.liftR hk _).conseq (fun h' k' hq => ?_)
    obtain ⟨he, rfl⟩ := hq
    have hs : strs h' = strs h := by
      cases hl : lookupExt num with
      | none => rw [decodeExt_lookup_none hl] at he; cases he; rfl
      | some minLen =>
        cases hsite : extSite num with
        | none => exact decodeExt_strs he hsite
        | some site => exact (hno minLen site hl hsite).elim
    exact ⟨hk.trans (nstr_of_strs hs).symm, (sym_of_strs hs).trans hT⟩

theorem extLoopA_spec (fs : Nat) (h : Hdr) (off avail : Nat) {k : Nat} (hk : k = nstr h)
    (hT : h.symlinkTarget = none) : Spec o b f0 k (extLoopA o fs h off avail) Std := by
  fun_induction extLoop fs h off avail generalizing k with
  | case1 h off avail hc ih =>
    rw [extLoopA]
    simp only [if_pos hc]
    refine Spec.bind (Spec.liftR hk _) (fun len k1 hq => ?_)
    obtain ⟨-, rfl⟩ := hq
    refine Spec.ite (fun _ => ?_) (fun hz => ?_)
    · exact (Spec.pure h k1).conseq (fun a k' hq => by obtain ⟨rfl, rfl⟩ := hq; exact ⟨hk, hT⟩)
    refine Spec.ite (fun _ => ?_) (fun hb => ?_)
    · exact Spec.failH hk
    refine Spec.bind (Spec.liftR hk _) (fun num k2 hq => ?_)
    obtain ⟨-, rfl⟩ := hq
    refine Spec.bind (decodeExtA_spec _ _ _ hk hT) (fun h' k3 hq => ?_)
    exact ih len hb h' hq.1 hq.2
  | case2 h off avail hc =>
    rw [extLoopA]
    simp only [if_neg hc]
    exact (Spec.pure h k).conseq (fun a k' hq => by obtain ⟨rfl, rfl⟩ := hq; exact ⟨hk, hT⟩)

theorem decodeExtendedHeadersA_spec (h : Hdr) (off : Nat) {k : Nat} (hk : k = nstr h)
    (hT : h.symlinkTarget = none) : Spec o b f0 k (decodeExtendedHeadersA o h off) Std := by
  unfold decodeExtendedHeadersA
  simp only []
  refine Spec.ite (fun _ => ?_) (fun _ => extLoopA_spec _ _ _ _ hk hT)
  exact (Spec.liftR hk _).conseq (fun a k' hq => by cases hq.1)

theorem readL1ExtA_spec (h : Hdr) (inp : Bytes) {k : Nat} (hk : k = nstr h)
    (hT : h.symlinkTarget = none) :
    Spec o b f0 k (readL1ExtA o h inp) (fun r k' => Std r.1 k') := by
  fun_induction readL1Ext h inp generalizing k with
  | case1 h inp hc =>
    rw [readL1ExtA]; simp only [if_pos hc]
    exact (Spec.liftR hk _).conseq (fun a k' hq => by cases hq.1)
  | case2 h inp hc ih =>
    rw [readL1ExtA]; simp only [if_neg hc]
    refine Spec.bind (Spec.liftR hk _) (fun len k1 hq => ?_)
    obtain ⟨-, rfl⟩ := hq
    by_cases hz : len = 0
    · simp only [dif_pos hz]
      exact (Spec.pure _ _).conseq (fun a k' hq => by obtain ⟨rfl, rfl⟩ := hq; exact ⟨hk, hT⟩)
    · simp only [dif_neg hz]
      refine Spec.ite (fun _ => ?_) (fun hb => ?_)
      · exact Spec.failH hk
      refine Spec.realloc_bind ?_ ?_
      · simp only [Bool.true_eq_false, ↓reduceIte]
        by_cases hl : inp.length < len
        · simp only [dif_pos hl]; exact Spec.failH hk
        · simp only [dif_neg hl]
          refine Spec.ite (fun _ => ?_) (fun hc1 => ?_)
          · exact Spec.failH (by exact hk)
          refine Spec.ite (fun _ => ?_) (fun hc2 => ?_)
          · exact Spec.failH (by exact hk)
          exact ih len hl hc2 (by exact hk) (by exact hT)
      · simp only [↓reduceIte]
        exact SpecF.failH hk

end
end LhasaV.Alloc
