import LhasaV.Model.Messages
import LhasaV.Model.ListOut
import LhasaV.Lemmas.ToolNoFault
/-!
# C10: the list, test, print and dry-run commands create or modify no file-system object

Two of the four models carry a file-system state, and for them this is a theorem about the loop:

* `test_touches_nothing`: `lha t[options]` (`Messages.run .test`, also with `n`) ends with the
  file system it started with — entries, parameters and mutation log: `….x.fs = fs`;
* `dry_run_touches_nothing`: `lha x`/`e` with option `n` (`Messages.run .extract`, `dryRun = true`)
  likewise — although it LOOKS at the file system (`file_exists` for the "but file is exist." line),
  it leaves it, the options and the answers as they were.

The other two models have no file-system argument at all — `Extract.print archive o` (`lha p`)
and the listing `ListOut.render … (Driver.allHeaders … (toolReader archive) [])` (`lha l`/`v`) are
functions of the archive bytes and the options (the listing also of the clock and the archive's
time stamp) only.  That is a fact about how the models are written, not a theorem with content; it
is recorded by `roRun`, the four commands as transformers of the file system, where `p` and `l`/`v`
return their `fs` argument by definition, and `readonly_commands_touch_nothing` states the
property for all four.
-/
namespace LhasaV.ContainW
open LhasaV LhasaV.Header LhasaV.Extract LhasaV.Messages

/-- `lha t`: one member leaves the file system, the options and the answers alone -/
theorem step_test_x (s : Messages.St) (h : Hdr) :
    (step .test s h).x.fs = s.x.fs ∧ (step .test s h).x.opts = s.x.opts ∧
      (step .test s h).x.answers = s.x.answers := ⟨rfl, rfl, rfl⟩

/-- the dry run: one member leaves the whole extraction state alone (reader included: nothing is
decoded) -/
theorem step_dry_x (s : Messages.St) (h : Hdr) (hd : s.x.opts.dryRun = true) :
    (step .extract s h).x = s.x := by
  unfold step
  simp only [hd, if_true]
  rfl

theorem loop_test_fs : ∀ (fuel : Nat) (s : Messages.St),
    (loop .test fuel s).x.fs = s.x.fs ∧ (loop .test fuel s).x.opts = s.x.opts ∧
      (loop .test fuel s).x.answers = s.x.answers := by
  intro fuel
  induction fuel with
  | zero => intro s; exact ⟨rfl, rfl, rfl⟩
  | succ n ih =>
    intro s
    rw [loop]
    split
    · exact ⟨rfl, rfl, rfl⟩
    · split
      · exact ⟨rfl, rfl, rfl⟩
      · exact ⟨rfl, rfl, rfl⟩
      · split
        · exact ih _
        · rename_i c rd _ _
          have h1 := ih (step .test { s with x := { s.x with rd := rd } } c.h)
          have h2 := step_test_x { s with x := { s.x with rd := rd } } c.h
          exact ⟨h1.1.trans h2.1, h1.2.1.trans h2.2.1, h1.2.2.trans h2.2.2⟩

theorem loop_dry_fs : ∀ (fuel : Nat) (s : Messages.St), s.x.opts.dryRun = true →
    (loop .extract fuel s).x.fs = s.x.fs ∧ (loop .extract fuel s).x.opts = s.x.opts ∧
      (loop .extract fuel s).x.answers = s.x.answers := by
  intro fuel
  induction fuel with
  | zero => intro s _; exact ⟨rfl, rfl, rfl⟩
  | succ n ih =>
    intro s hd
    rw [loop]
    split
    · exact ⟨rfl, rfl, rfl⟩
    · split
      · exact ⟨rfl, rfl, rfl⟩
      · exact ⟨rfl, rfl, rfl⟩
      · split
        · exact ih _ hd
        · rename_i c rd _ _
          have h2 := step_dry_x { s with x := { s.x with rd := rd } } c.h hd
          have h1 := ih (step .extract { s with x := { s.x with rd := rd } } c.h) (by rw [h2]; exact hd)
          rw [h2] at h1
          exact h1

/-- **`lha t` (and `lha tn`) changes nothing**: for every archive, all options, every file-system
state and all answers, the run ends with exactly the file system it was started with — no entry
created, removed or changed, no metadata touched, the mutation log as it was. -/
theorem test_touches_nothing (archive : Array UInt8) (o : Opts) (fs : Fs.St) (answers : Bytes) :
    (Messages.run .test archive o fs answers).x.fs = fs :=
  (loop_test_fs _ _).1

/-- **the dry run `lha xn` / `lha en` changes nothing**: for every archive, all options with `n`
(including `w=`, `i`, `f`, `q`, wildcards), every file-system state and all answers, the run ends
with exactly the file system it was started with (mutation log included), and consumed no answer. -/
theorem dry_run_touches_nothing (archive : Array UInt8) (o : Opts) (fs : Fs.St) (answers : Bytes)
    (hd : o.dryRun = true) :
    (Messages.run .extract archive o fs answers).x.fs = fs ∧
    (Messages.run .extract archive o fs answers).x.answers = answers :=
  ⟨(loop_dry_fs _ _ hd).1, (loop_dry_fs _ _ hd).2.2⟩

/-! ## all four read-only commands as transformers of the file system -/

/-- the read-only commands of the tool that have a model -/
inductive RoCmd where
  | print                                     -- lha p
  | list (verboseList verboseOpt : Bool) (now archiveMtime : Nat)   -- lha l / lv / v / vv
  | test                                      -- lha t
  | dryRun                                    -- lha xn / en
deriving Repr

/-- standard output and resulting file system of a read-only command.  For `p` and `l`/`v` the
models (`Extract.print`, `Driver.allHeaders` + `ListOut.render`) take no file system: the second
component is the argument `fs` BY DEFINITION — these models are functions of the archive and the
options only.  For `t` and the dry run it is the file system the modelled loop ends with. -/
def roRun (cmd : RoCmd) (archive : Array UInt8) (o : Opts) (fs : Fs.St) (answers : Bytes) :
    Bytes × Fs.St :=
  match cmd with
  | .print => (Extract.print archive o, fs)
  | .list vl vo now mt =>
    (match Driver.allHeaders (archive.size + 2) (ToolNoFault.toolReader archive) [] with
     | .ok hdrs => ListOut.render vl vo o.quiet now mt (Glob.select o.filters hdrs)
     | .error _ => [], fs)
  | .test => let s := Messages.run .test archive o fs answers; (s.stdout, s.x.fs)
  | .dryRun =>
    let s := Messages.run .extract archive { o with dryRun := true } fs answers; (s.stdout, s.x.fs)

/-- **C10, second sentence: the list, test, print and dry-run commands create or modify no
file-system object at all.**  Content for `t` and the dry run (`test_touches_nothing`,
`dry_run_touches_nothing`); for `p` and `l`/`v` it holds by the shape of the models, which have no
file-system argument. -/
theorem readonly_commands_touch_nothing (cmd : RoCmd) (archive : Array UInt8) (o : Opts) (fs : Fs.St)
    (answers : Bytes) : (roRun cmd archive o fs answers).2 = fs := by
  cases cmd with
  | print => rfl
  | list vl vo now mt => rfl
  | test => exact test_touches_nothing archive o fs answers
  | dryRun => exact (dry_run_touches_nothing archive { o with dryRun := true } fs answers rfl).1

/-- the output of `p` and of the listing does not depend on the file system -/
theorem print_list_ignore_fs (archive : Array UInt8) (o : Opts) (fs fs' : Fs.St) (a a' : Bytes)
    (vl vo : Bool) (now mt : Nat) :
    (roRun .print archive o fs a).1 = (roRun .print archive o fs' a').1 ∧
    (roRun (.list vl vo now mt) archive o fs a).1 = (roRun (.list vl vo now mt) archive o fs' a').1 :=
  ⟨rfl, rfl⟩

end LhasaV.ContainW
