import LhasaV.Lemmas.ExtractTreeOpt1
/-!
# C06 with options (part 2): the file-system invariant below an arbitrary base directory

`FsInvB fs₀ B done stk fs` is `FsInv` (ExtractTree8) with the extraction directory `fs₀.cwd`
replaced by any directory `B` (canonical path): every done entry at `B ++ path` in its final /
provisional form, nothing else below `B`, nothing outside `B` changed with respect to `fs₀`.
`FsInv fs₀ = FsInvB fs₀ fs₀.cwd`.  The creation and closing steps and the walk / parent lemmas
are re-proved over `B = fs₀.cwd ++ ds`.
-/
namespace LhasaV.ExtractTree
open LhasaV LhasaV.Header LhasaV.Extract LhasaV.GlobFs LhasaV.Contain

structure FsInvB (fs0 : Fs.St) (B : Fs.Path) (done : List Entry) (stk : List Fs.Path) (fs : Fs.St) :
    Prop where
  params : SameParams fs0 fs
  ents : ∀ e ∈ done, Fs.lookup fs (B ++ e.path) =
    some (if e.path ∈ stk then e.opened fs0.now fs0.umask else e.final fs0.now fs0.umask)
  none : ∀ p, p ≠ [] → (∀ e ∈ done, e.path ≠ p) → Fs.lookup fs (B ++ p) = none
  base : ∃ m t, Fs.lookup fs B = some (.dir m t) ∧
    (fs0.root = true ∨ (m / 64 % 2 = 1 ∧ m / 128 % 2 = 1)) ∧ (done ≠ [] → B ≠ [] → t = fs0.now)
  outside : ∀ x, ¬ B <+: x → Fs.lookup fs x = Fs.lookup fs0 x
  /-- the base directory keeps the mode it has in the reference state -/
  bmode : ∀ m t, Fs.lookup fs0 B = some (.dir m t) → ∃ t', Fs.lookup fs B = some (.dir m t')

theorem fsInv_of_fsInvB {fs0 fs : Fs.St} {done : List Entry} {stk : List Fs.Path}
    (h : FsInvB fs0 fs0.cwd done stk fs) : FsInv fs0 done stk fs :=
  ⟨h.params, h.ents, h.none, h.base, h.outside⟩

/-! ## open directories can be walked through and written -/

theorem open_lookupB {fs0 fs : Fs.St} {B : Fs.Path} {done stk : List Entry}
    (hi : FsInvB fs0 B done (stk.map Entry.path) fs)
    (hd : DoneOk done stk) (ha : Access fs0) (p : Fs.Path) (hp : p ∈ stk.map Entry.path) :
    ∃ m, Fs.lookup fs (B ++ p) = some (.dir m fs0.now) ∧
      (fs0.root = true ∨ (m / 64 % 2 = 1 ∧ m / 128 % 2 = 1)) := by
  obtain ⟨d, hds, rfl⟩ := List.mem_map.1 hp
  obtain ⟨hdd, hdir⟩ := hd.sub d hds
  have hl := hi.ents d hdd
  rw [if_pos hp] at hl
  obtain ⟨b, hb, ho⟩ := opened_dir d hdir fs0.now fs0.umask
  rw [ho] at hl
  refine ⟨_, hl, ?_⟩
  rcases ha with ha | ha
  · exact Or.inl ha
  · exact Or.inr (ha b hb)

theorem prefix_lt_not {α} {a b : List α} (h : a <+: b) (hne : a ≠ b) : ¬ b <+: a :=
  fun h' => hne (List.IsPrefix.eq_of_length_le h h'.length_le)

/-- **the directories above a relocated entry exist**: the directories leading to the base
directory (unchanged since the reference state), the base, and the open directories -/
theorem walk_of_invB {fs0 fs : Fs.St} {ds : Fs.Path} {done stk : List Entry}
    (hi : FsInvB fs0 (fs0.cwd ++ ds) done (stk.map Entry.path) fs) (hd : DoneOk done stk)
    (ha : Access fs0) (hw0 : Walk fs0 fs0.cwd ds) (path : Fs.Path)
    (hpre : ∀ pre, pre ≠ [] → pre <+: path → pre ≠ path → pre ∈ stk.map Entry.path) :
    Walk fs fs0.cwd (ds ++ path) := by
  intro pre hp hne
  rcases List.prefix_or_prefix_of_prefix hp (List.prefix_append ds path) with h1 | h1
  · by_cases hpd : pre = ds
    · subst hpd
      obtain ⟨m, t, hl, hacc, _⟩ := hi.base
      refine ⟨m, t, hl, ?_⟩
      rw [hi.params.root]
      rcases hacc with h | h
      · exact Or.inl h
      · exact Or.inr h.1
    · obtain ⟨m, t, hl, hacc⟩ := hw0 pre h1 hpd
      refine ⟨m, t, ?_, ?_⟩
      · rw [hi.outside _ (fun h => prefix_lt_not h1 hpd ((List.prefix_append_right_inj _).1 h))]
        exact hl
      · rw [hi.params.root]; exact hacc
  · obtain ⟨q, rfl⟩ := h1
    have hq : q <+: path := (List.prefix_append_right_inj _).1 hp
    have hqne : q ≠ path := fun h => hne (by rw [h])
    by_cases h0 : q = []
    · subst h0
      obtain ⟨m, t, hl, hacc, _⟩ := hi.base
      refine ⟨m, t, by simpa using hl, ?_⟩
      rw [hi.params.root]
      rcases hacc with h | h
      · exact Or.inl h
      · exact Or.inr h.1
    · have hm := hpre q h0 hq hqne
      obtain ⟨m, hl, hacc⟩ := open_lookupB hi hd ha q hm
      refine ⟨m, fs0.now, by rw [← List.append_assoc]; exact hl, ?_⟩
      rw [hi.params.root]
      rcases hacc with h | h
      · exact Or.inl h
      · exact Or.inr h.1

/-- the parent of a new entry is writable, and (unless it is the base directory) already
carries the time `now` -/
theorem parent_of_invB {fs0 fs : Fs.St} {B : Fs.Path} {done stk : List Entry}
    (hi : FsInvB fs0 B done (stk.map Entry.path) fs) (hd : DoneOk done stk) (ha : Access fs0)
    (path : Fs.Path) (hne : path ≠ []) (hpar : (stk.map Entry.path).head?.getD [] = path.dropLast) :
    Fs.canModify fs (B ++ path).dropLast = true ∧
    (path.dropLast ≠ [] → done ≠ [] ∧
      ∃ m, Fs.lookup fs (B ++ path.dropLast) = some (.dir m fs0.now)) := by
  rw [List.dropLast_append_of_ne_nil hne]
  by_cases h0 : path.dropLast = []
  · rw [h0]
    obtain ⟨m, t, hl, hacc, _⟩ := hi.base
    refine ⟨?_, fun h => absurd rfl h⟩
    unfold Fs.canModify
    rw [List.append_nil, hl, hi.params.root]
    rcases hacc with h | h
    · simp [h]
    · simp [h.1, h.2]
  · have hm : path.dropLast ∈ stk.map Entry.path := by
      cases hs : stk.map Entry.path with
      | nil => rw [hs] at hpar; exact absurd hpar.symm h0
      | cons t rest => rw [hs] at hpar; simp at hpar; rw [← hpar]; simp
    obtain ⟨m, hl, hacc⟩ := open_lookupB hi hd ha _ hm
    refine ⟨?_, fun _ => ⟨?_, m, hl⟩⟩
    · unfold Fs.canModify
      rw [hl, hi.params.root]
      rcases hacc with h | h
      · simp [h]
      · simp [h.1, h.2]
    · obtain ⟨d, hds, _⟩ := List.mem_map.1 hm
      exact List.ne_nil_of_mem (hd.sub d hds).1

/-! ## the invariant after a creation -/

/-- **a new entry** below the base `B` -/
theorem FsInvB.create {fs0 fs fs' : Fs.St} {B : Fs.Path} {done : List Entry} {stk stk' : List Fs.Path}
    {e : Entry}
    (hi : FsInvB fs0 B done stk fs) (hne : e.path ≠ []) (hok : ∀ e' ∈ done, e'.path ≠ [])
    (hnew : ∀ e' ∈ done, e'.path ≠ e.path)
    (hc : Created fs fs' (B ++ e.path)
      (if e.path ∈ stk' then e.opened fs0.now fs0.umask else e.final fs0.now fs0.umask))
    (hstk : ∀ p, p ≠ e.path → (p ∈ stk' ↔ p ∈ stk))
    (hpar : e.path.dropLast ≠ [] → done ≠ [] ∧
      ∃ m, Fs.lookup fs (B ++ e.path.dropLast) = some (.dir m fs0.now)) :
    FsInvB fs0 B (done ++ [e]) stk' fs' := by
  have hq : (B ++ e.path).dropLast = B ++ e.path.dropLast :=
    List.dropLast_append_of_ne_nil hne
  have hnow : fs.now = fs0.now := hi.params.now
  have hsame : ∀ p, p ≠ [] → p ≠ e.path → Fs.lookup fs' (B ++ p) = Fs.lookup fs (B ++ p) := by
    intro p hp0 hpe
    by_cases hpp : p = e.path.dropLast
    · subst hpp
      obtain ⟨_, m, hl⟩ := hpar hp0
      have := hc.parent m fs0.now (by rw [hq]; exact hl)
        (by rw [hq]; exact fun h => hp0 (List.append_eq_nil_iff.1 h).2)
      rw [hq, hnow] at this
      rw [this, hl]
    · exact hc.frame _ (append_ne_of_ne hpe) (by rw [hq]; exact append_ne_of_ne hpp)
  refine ⟨hi.params.trans hc.params, ?_, ?_, ?_, ?_, ?_⟩
  · intro e' he'
    rcases List.mem_append.1 he' with he' | he'
    · have hpe := hnew e' he'
      rw [hsame e'.path (hok e' he') hpe, hi.ents e' he']
      simp only [hstk _ hpe]
    · have : e' = e := by simpa using he'
      subst this
      exact hc.self
  · intro p hp0 hall
    have hpe : p ≠ e.path := fun h => hall e (by simp) h.symm
    rw [hsame p hp0 hpe]
    exact hi.none p hp0 (fun e' he' => hall e' (List.mem_append_left _ he'))
  · obtain ⟨m, t, hl, hacc, ht⟩ := hi.base
    by_cases h0 : e.path.dropLast = []
    · rw [h0, List.append_nil] at hq
      by_cases hc0 : B = []
      · refine ⟨m, t, ?_, hacc, fun _ h => absurd hc0 h⟩
        rw [hc0] at hl ⊢
        rw [lookup_nil] at hl ⊢
        exact hl
      · refine ⟨m, fs0.now, ?_, hacc, fun _ _ => rfl⟩
        have := hc.parent m t (by rw [hq]; exact hl) (by rw [hq]; exact hc0)
        rw [hq, hnow] at this
        exact this
    · refine ⟨m, t, ?_, hacc, fun _ h => ht (hpar h0).1 h⟩
      rw [hc.frame _ (cwd_ne_append hne) (by rw [hq]; exact cwd_ne_append h0)]
      exact hl
  · intro x hx
    rw [hc.frame x (fun h => hx (h ▸ List.prefix_append _ _))
      (fun h => hx (by rw [h, hq]; exact List.prefix_append _ _))]
    exact hi.outside x hx
  · intro m0 t0 h0
    obtain ⟨t', hl⟩ := hi.bmode m0 t0 h0
    by_cases hd0 : e.path.dropLast = []
    · rw [hd0, List.append_nil] at hq
      by_cases hc0 : B = []
      · rw [hc0] at hl ⊢
        rw [lookup_nil] at hl ⊢
        exact ⟨t', hl⟩
      · exact ⟨fs.now, by
          have := hc.parent m0 t' (by rw [hq]; exact hl) (by rw [hq]; exact hc0)
          rw [hq] at this; exact this⟩
    · exact ⟨t', by
        rw [hc.frame _ (cwd_ne_append hne) (by rw [hq]; exact cwd_ne_append hd0)]; exact hl⟩

/-! ## the invariant after the metadata step of the innermost open directory -/

theorem FsInvB.close {fs0 fs fs' : Fs.St} {B : Fs.Path} {done : List Entry} {t : Fs.Path}
    {stk : List Fs.Path}
    {d : Entry} (hi : FsInvB fs0 B done (t :: stk) fs) (hd : d ∈ done) (hdt : d.path = t)
    (hne : t ≠ []) (hts : t ∉ stk) (huniq : ∀ e' ∈ done, e'.path = t → e' = d)
    (hc : Touched fs fs' (B ++ t) (d.final fs0.now fs0.umask)) :
    FsInvB fs0 B done stk fs' := by
  refine ⟨hi.params.trans hc.params, ?_, ?_, ?_, ?_, ?_⟩
  · intro e' he'
    by_cases hpe : e'.path = t
    · have := huniq e' he' hpe
      subst this
      rw [hpe, if_neg hts, hc.self]
    · rw [hc.frame _ (append_ne_of_ne hpe), hi.ents e' he']
      simp only [List.mem_cons, hpe, false_or]
  · intro p hp0 hall
    have hpt : p ≠ t := fun h => hall d hd (hdt.trans h.symm)
    rw [hc.frame _ (append_ne_of_ne hpt)]
    exact hi.none p hp0 hall
  · obtain ⟨m, t', hl, hacc, ht⟩ := hi.base
    refine ⟨m, t', ?_, hacc, ht⟩
    rw [hc.frame _ (cwd_ne_append hne)]
    exact hl
  · intro x hx
    rw [hc.frame x (fun h => hx (h ▸ List.prefix_append _ _))]
    exact hi.outside x hx
  · intro m0 t0 h0
    obtain ⟨t', hl⟩ := hi.bmode m0 t0 h0
    exact ⟨t', by rw [hc.frame _ (cwd_ne_append hne)]; exact hl⟩

end LhasaV.ExtractTree
