import LhasaV.Lemmas.ReaderWorkPresentBase
import LhasaV.Model.Pm
/-! `Present` for the PMarc decoder `-pm2-` (and `pma_common.c`): the only thing that ever changes
`bits.src` is `Src.read` (through the bit reader, the tree walk and `decode_variable_length`), which
stays inside the data physically present. -/
namespace LhasaV.ReaderPresent
open LhasaV

/-! ## pma_common.c -/

theorem pma_decodeVarLen_le (site : String) (table : List (Nat × Nat)) (r : Bits) (header : Nat) :
    PStepLe r (Pma.decodeVarLen site table r header) := by
  intro a r' e
  unfold Pma.decodeVarLen at e
  split at e
  · cases e
  · cases e
    exact readBits_le r _

/-! ## -pm2- -/

theorem pm2_codeLenLoop_le (minLen lengthBits : Nat) : ∀ (k i : Nat) (lens : Array Nat) (r : Bits),
    PStepLe r (Pm2.codeLenLoop minLen lengthBits k i lens r) := by
  intro k
  induction k with
  | zero =>
    intro i lens r a r' e
    simp only [Pm2.codeLenLoop, Res.ok.injEq, Prod.mk.injEq] at e
    rw [← e.2]; exact PLe.refl _
  | succ k ih =>
    intro i lens r a r' e
    unfold Pm2.codeLenLoop at e
    dsimp only at e
    split at e
    · cases e
      exact readBits_le r _
    · split at e
      · exact (readBits_le r _).trans (ih _ _ _ a r' e)
      · cases e

theorem pm2_readCodeTree_le (s s' : Pm2.St) (e : Pm2.readCodeTree s = .ok s') :
    PLe s.bits.src s'.bits.src := by
  unfold Pm2.readCodeTree at e
  dsimp only at e
  have h1 := readBits_le s.bits 5
  have h2 := readBits_le (s.bits.readBits 5).2 3
  have h12 := h1.trans h2
  split at e
  · split at e
    · cases e
      exact h12
    · have h3 := readBits_le ((s.bits.readBits 5).2.readBits 3).2 3
      have h123 := h12.trans h3
      split at e
      · cases e
        exact h123
      · obtain ⟨t, e1, e2⟩ := Res.bind_eq_ok.mp e
        have h4 := pm2_codeLenLoop_le _ _ _ _ _ _ t.1 t.2 e1
        have h := h123.trans h4
        split at e2
        · cases e2
          exact h
        · split at e2
          · cases e2
          · cases e2
            exact h
  · cases e
    exact h12

theorem pm2_offLenLoop_le : ∀ (k off : Nat) (lens : Array Nat) (single n : Nat) (r : Bits),
    PStepLe r (Pm2.offLenLoop k off lens single n r) := by
  intro k
  induction k with
  | zero =>
    intro off lens single n r a r' e
    simp only [Pm2.offLenLoop, Res.ok.injEq, Prod.mk.injEq] at e
    rw [← e.2]; exact PLe.refl _
  | succ k ih =>
    intro off lens single n r a r' e
    unfold Pm2.offLenLoop at e
    dsimp only at e
    split at e
    · cases e
      exact readBits_le r _
    · split at e
      · split at e
        · exact (readBits_le r _).trans (ih _ _ _ _ _ a r' e)
        · exact (readBits_le r _).trans (ih _ _ _ _ _ a r' e)
      · cases e

theorem pm2_readOffsetTree_le (s : Pm2.St) (numOffsets : Nat) (s' : Pm2.St)
    (e : Pm2.readOffsetTree s numOffsets = .ok s') : PLe s.bits.src s'.bits.src := by
  unfold Pm2.readOffsetTree at e
  split at e
  · cases e
    exact PLe.refl _
  · obtain ⟨t, e1, e2⟩ := Res.bind_eq_ok.mp e
    have h := pm2_offLenLoop_le _ _ _ _ _ _ t.1 t.2 e1
    split at e2
    · cases e2
      exact h
    · split at e2
      · cases e2
        exact h
      · dsimp only at e2
        split at e2
        · cases e2
        · cases e2
          exact h

theorem pm2_rebuildTree_le (s s' : Pm2.St) (e : Pm2.rebuildTree s = .ok s') :
    PLe s.bits.src s'.bits.src := by
  unfold Pm2.rebuildTree at e
  split at e
  · obtain ⟨s1, e1, e⟩ := Res.bind_eq_ok.mp e
    obtain ⟨s2, e2, e⟩ := Res.bind_eq_ok.mp e
    cases e
    exact (pm2_readCodeTree_le _ _ e1).trans (pm2_readOffsetTree_le _ _ s2 e2)
  · obtain ⟨s2, e2, e⟩ := Res.bind_eq_ok.mp e
    cases e
    exact pm2_readOffsetTree_le _ _ s2 e2
  · obtain ⟨s2, e2, e⟩ := Res.bind_eq_ok.mp e
    cases e
    exact pm2_readOffsetTree_le _ _ s2 e2
  · dsimp only at e
    obtain ⟨s1, e1, e⟩ := Res.bind_eq_ok.mp e
    obtain ⟨s2, e2, e⟩ := Res.bind_eq_ok.mp e
    cases e
    have h0 := readBit_le s.bits
    have h1 : PLe s.bits.src s1.bits.src := by
      split at e1
      · exact h0.trans (pm2_readCodeTree_le _ _ e1)
      · cases e1
        exact h0
    exact h1.trans (pm2_readOffsetTree_le _ _ s2 e2)
  · dsimp only at e
    obtain ⟨s1, e1, e⟩ := Res.bind_eq_ok.mp e
    cases e
    have h0 := readBit_le s.bits
    split at e1
    · obtain ⟨s2, e2, e3⟩ := Res.bind_eq_ok.mp e1
      exact h0.trans ((pm2_readCodeTree_le _ _ e2).trans (pm2_readOffsetTree_le _ _ s1 e3))
    · cases e1
      exact h0

theorem pm2_outputByte_le (s : Pm2.St) (b : UInt8) (s' : Pm2.St) (e : Pm2.outputByte s b = .ok s') :
    PLe s.bits.src s'.bits.src := by
  unfold Pm2.outputByte at e
  split at e
  · dsimp only at e
    obtain ⟨h, _, e⟩ := Res.bind_eq_ok.mp e
    split at e
    · have h := pm2_rebuildTree_le _ _ e
      exact h
    · cases e
      exact PLe.refl _
  · cases e

theorem pm2_copyLoop_le : ∀ (k src : Nat) (s : Pm2.St) (acc : List UInt8) (s' : Pm2.St) (o : List UInt8),
    Pm2.copyLoop k src s acc = .ok (s', o) → PLe s.bits.src s'.bits.src := by
  intro k
  induction k with
  | zero =>
    intro src s acc s' o e
    simp only [Pm2.copyLoop, Res.ok.injEq, Prod.mk.injEq] at e
    rw [← e.1]; exact PLe.refl _
  | succ k ih =>
    intro src s acc s' o e
    unfold Pm2.copyLoop at e
    split at e
    · cases e
    · obtain ⟨s1, e1, e2⟩ := Res.bind_eq_ok.mp e
      exact (pm2_outputByte_le _ _ _ e1).trans (ih _ _ _ _ _ e2)

theorem pm2_historyGetOffset_le (s : Pm2.St) (code : Nat) :
    PStepLe s.bits (Pm2.historyGetOffset s code) := by
  intro a r' e
  unfold Pm2.historyGetOffset at e
  split at e
  · cases e
    exact readBits_le _ 6
  · split at e
    · obtain ⟨t, e1, e2⟩ := Res.bind_eq_ok.mp e
      have h := readFromTree_le _ _ _ t.1 t.2 e1
      split at e2
      · cases e2
        exact h
      · split at e2
        · cases e2
          exact h.trans (readBits_le _ 6)
        · cases e2
          exact h.trans (readBits_le _ _)
    · cases e
      exact PLe.refl _

theorem pm2_read_le (s : Pm2.St) (o : List UInt8) (s' : Pm2.St) (e : Pm2.read s = .ok (o, s')) :
    PLe s.bits.src s'.bits.src := by
  unfold Pm2.read at e
  obtain ⟨s1, e1, e⟩ := Res.bind_eq_ok.mp e
  have h1 : PLe s.bits.src s1.bits.src := by
    split at e1
    · exact (readBit_le s.bits).trans (pm2_rebuildTree_le _ _ e1)
    · cases e1
      exact PLe.refl _
  obtain ⟨t, e2, e⟩ := Res.bind_eq_ok.mp e
  have h2 := h1.trans (readFromTree_le _ _ _ t.1 t.2 e2)
  split at e
  · cases e
    exact h2
  · dsimp only at e
    split at e
    · obtain ⟨d, e3, e⟩ := Res.bind_eq_ok.mp e
      have h3 := h2.trans (pma_decodeVarLen_le _ _ _ _ d.1 d.2 e3)
      split at e
      · cases e
        exact h3
      · obtain ⟨b, _, e⟩ := Res.bind_eq_ok.mp e
        obtain ⟨s2, e4, e⟩ := Res.bind_eq_ok.mp e
        cases e
        exact h3.trans (pm2_outputByte_le _ _ _ e4)
    · obtain ⟨cnt, e3, e⟩ := Res.bind_eq_ok.mp e
      have h3 : PLe s.bits.src cnt.2.src := by
        split at e3
        · cases e3
          exact h2
        · split at e3
          · exact h2.trans (pma_decodeVarLen_le _ _ _ _ cnt.1 cnt.2 e3)
          · cases e3
            exact h2
      obtain ⟨off, e4, e⟩ := Res.bind_eq_ok.mp e
      have h4 := h3.trans (pm2_historyGetOffset_le _ _ off.1 off.2 e4)
      split at e
      · split at e
        · cases e
          exact h4
        · obtain ⟨r, e5, e⟩ := Res.bind_eq_ok.mp e
          cases e
          exact h4.trans (pm2_copyLoop_le _ _ _ _ r.1 r.2 e5)
      · cases e
        exact h4

theorem present_pm2 : Present Pm2.dec := by
  refine ⟨fun N src h => h, ?_⟩
  intro N st o st' e
  exact pm2_read_le st o st' e N

end LhasaV.ReaderPresent
