import LhasaV.Lemmas.Contain7
/-!
# C06 (part 1): the file system seen through `lookup`

Every operation of `Fs` reads the entries only through `lookup` and the parameters `now`, `umask`,
`root`, `cwd`, `absPrefix`.  This file gives the exact `lookup` after each primitive change
(`setEnt`, `stampParent`, `logMut`), and resolution of a path all of whose directory prefixes
are real, searchable directories (`Walk`): it ends at the lexical place.
-/
namespace LhasaV.ExtractTree
open LhasaV LhasaV.Header LhasaV.Extract LhasaV.GlobFs LhasaV.Contain

/-! ## parameters no operation changes -/

structure SameParams (s s' : Fs.St) : Prop where
  now : s'.now = s.now
  umask : s'.umask = s.umask
  root : s'.root = s.root
  cwd : s'.cwd = s.cwd
  absPrefix : s'.absPrefix = s.absPrefix

theorem SameParams.refl (s : Fs.St) : SameParams s s := ⟨rfl, rfl, rfl, rfl, rfl⟩

theorem SameParams.trans {a b c : Fs.St} (h1 : SameParams a b) (h2 : SameParams b c) :
    SameParams a c :=
  ⟨h2.now.trans h1.now, h2.umask.trans h1.umask, h2.root.trans h1.root, h2.cwd.trans h1.cwd,
   h2.absPrefix.trans h1.absPrefix⟩

theorem setEnt_params (s : Fs.St) (k : Fs.Path) (e : Fs.Ent) : SameParams s (Fs.setEnt s k e) := by
  unfold Fs.setEnt; split <;> exact ⟨rfl, rfl, rfl, rfl, rfl⟩

theorem logMut_params (s : Fs.St) (op : String) (p : Fs.Path) : SameParams s (Fs.logMut s op p) :=
  ⟨rfl, rfl, rfl, rfl, rfl⟩

theorem stampParent_params (s : Fs.St) (p : Fs.Path) : SameParams s (Fs.stampParent s p) := by
  simp only [Fs.stampParent]
  split
  · split
    · exact SameParams.refl s
    · exact setEnt_params s _ _
  · exact SameParams.refl s

/-! ## `lookup` after `stampParent` -/

theorem lookup_nil (s : Fs.St) : Fs.lookup s [] = some (.dir 0o755 0) := by simp [Fs.lookup]

/-- stamping leaves every path but the parent alone -/
theorem lookup_stampParent_ne (s : Fs.St) (p x : Fs.Path) (h : x ≠ p.dropLast) :
    Fs.lookup (Fs.stampParent s p) x = Fs.lookup s x := by
  simp only [Fs.stampParent]
  split
  · split
    · rfl
    · exact lookup_setEnt_ne s _ x _ h
  · rfl

/-- the parent, when it is a directory other than the root, gets the time `now` -/
theorem lookup_stampParent_eq (s : Fs.St) (p : Fs.Path) (m t : Nat)
    (h : Fs.lookup s p.dropLast = some (.dir m t)) (hne : p.dropLast ≠ []) :
    Fs.lookup (Fs.stampParent s p) p.dropLast = some (.dir m s.now) := by
  simp only [Fs.stampParent]
  rw [h]
  simp only [hne, if_false]
  exact lookup_setEnt_eq s _ _ hne

/-! ## "created" and "touched": the shape of every successful operation -/

/-- `fs'` is `fs` with the new object `e` at `q`, the parent of `q` stamped -/
structure Created (fs fs' : Fs.St) (q : Fs.Path) (e : Fs.Ent) : Prop where
  params : SameParams fs fs'
  self : Fs.lookup fs' q = some e
  parent : ∀ m t, Fs.lookup fs q.dropLast = some (.dir m t) → q.dropLast ≠ [] →
    Fs.lookup fs' q.dropLast = some (.dir m fs.now)
  frame : ∀ x, x ≠ q → x ≠ q.dropLast → Fs.lookup fs' x = Fs.lookup fs x

/-- `fs'` is `fs` with the object at `q` replaced by `e`, nothing else changed -/
structure Touched (fs fs' : Fs.St) (q : Fs.Path) (e : Fs.Ent) : Prop where
  params : SameParams fs fs'
  self : Fs.lookup fs' q = some e
  frame : ∀ x, x ≠ q → Fs.lookup fs' x = Fs.lookup fs x

theorem dropLast_ne_self (q : Fs.Path) (h : q ≠ []) : q.dropLast ≠ q := by
  intro e
  have := congrArg List.length e
  rw [List.length_dropLast] at this
  have : 0 < q.length := List.length_pos_iff.2 h
  omega

/-- `setEnt` at a fresh place followed by `stampParent` and a log entry -/
theorem created_of_set (s : Fs.St) (q : Fs.Path) (e : Fs.Ent) (op : String) (hq : q ≠ []) :
    Created s (Fs.logMut (Fs.stampParent (Fs.setEnt s q e) q) op q) q e := by
  have hne := dropLast_ne_self q hq
  refine ⟨((setEnt_params s q e).trans (stampParent_params _ q)).trans (logMut_params _ _ _), ?_, ?_, ?_⟩
  · rw [lookup_logMut, lookup_stampParent_ne _ _ _ (fun h => hne h.symm), lookup_setEnt_eq s q e hq]
  · intro m t h hpar
    rw [lookup_logMut]
    have h' : Fs.lookup (Fs.setEnt s q e) q.dropLast = some (.dir m t) := by
      rw [lookup_setEnt_ne s q _ e hne]; exact h
    rw [lookup_stampParent_eq _ q m t h' hpar, (setEnt_params s q e).now]
  · intro x h1 h2
    rw [lookup_logMut, lookup_stampParent_ne _ _ _ h2, lookup_setEnt_ne s q x e h1]

theorem touched_of_set (s : Fs.St) (q : Fs.Path) (e : Fs.Ent) (hq : q ≠ []) :
    Touched s (Fs.setEnt s q e) q e :=
  ⟨setEnt_params s q e, lookup_setEnt_eq s q e hq, fun x h => lookup_setEnt_ne s q x e h⟩

theorem touched_of_set_log (s : Fs.St) (q : Fs.Path) (e : Fs.Ent) (op : String) (hq : q ≠ []) :
    Touched s (Fs.logMut (Fs.setEnt s q e) op q) q e :=
  ⟨(setEnt_params s q e).trans (logMut_params _ _ _), by rw [lookup_logMut]; exact lookup_setEnt_eq s q e hq,
   fun x h => by rw [lookup_logMut]; exact lookup_setEnt_ne s q x e h⟩

theorem Touched.refl (s : Fs.St) (q : Fs.Path) (e : Fs.Ent) (h : Fs.lookup s q = some e) :
    Touched s s q e := ⟨SameParams.refl s, h, fun _ _ => rfl⟩

theorem Touched.trans {a b c : Fs.St} {q : Fs.Path} {e e' : Fs.Ent} (h1 : Touched a b q e)
    (h2 : Touched b c q e') : Touched a c q e' :=
  ⟨h1.params.trans h2.params, h2.self, fun x hx => (h2.frame x hx).trans (h1.frame x hx)⟩

theorem Created.touch {a b c : Fs.St} {q : Fs.Path} {e e' : Fs.Ent} (h1 : Created a b q e)
    (h2 : Touched b c q e') (hq : q ≠ []) : Created a c q e' := by
  have hne := dropLast_ne_self q hq
  refine ⟨h1.params.trans h2.params, h2.self, ?_, ?_⟩
  · intro m t h hp
    rw [h2.frame _ hne]; exact h1.parent m t h hp
  · intro x hx1 hx2
    rw [h2.frame x hx1]; exact h1.frame x hx1 hx2

/-! ## walking through real directories -/

/-- every proper prefix of `cs` (the empty one included), taken from `cur`, is a directory the
user may walk through -/
def Walk (fs : Fs.St) (cur : Fs.Path) (cs : List Bytes) : Prop :=
  ∀ pre, pre <+: cs → pre ≠ cs →
    ∃ m t, Fs.lookup fs (cur ++ pre) = some (.dir m t) ∧ (fs.root = true ∨ m / 64 % 2 = 1)

theorem canSearch_of_dir (fs : Fs.St) (p : Fs.Path) (m t : Nat)
    (h : Fs.lookup fs p = some (.dir m t)) (hs : fs.root = true ∨ m / 64 % 2 = 1) :
    Fs.canSearch fs p = true := by
  unfold Fs.canSearch
  rw [h]
  rcases hs with hs | hs
  · simp [hs]
  · simp [hs]

theorem Walk.tail {fs : Fs.St} {cur : Fs.Path} {c : Bytes} {rest : List Bytes}
    (h : Walk fs cur (c :: rest)) : Walk fs (cur ++ [c]) rest := by
  intro pre hp hne
  have := h (c :: pre) (List.cons_prefix_cons.2 ⟨rfl, hp⟩) (by simpa using hne)
  simpa using this

/-- **resolution along real directories** ends at the lexical place, whatever the last component
names (nothing, a file, a directory; a link only when it is not to be followed) -/
theorem resolve_walk (fs : Fs.St) (fl : Bool) :
    ∀ (cs : List Bytes) (fuel : Nat) (cur : Fs.Path), (∀ c ∈ cs, Good c) → cs.length < fuel →
      Walk fs cur cs → (∀ t, Fs.lookup fs (cur ++ cs) = some (.link t) → fl = false) →
      Fs.resolve fs fl fuel cur cs = .ok (cur ++ cs) := by
  intro cs
  induction cs with
  | nil =>
    intro fuel cur _ hf _ _
    cases fuel with
    | zero => simp at hf
    | succ f => rw [resolve_nil]; simp
  | cons c rest ih =>
    intro fuel cur hg hf hw hl
    cases fuel with
    | zero => simp at hf
    | succ f =>
      have hc : Good c := hg c (by simp)
      have hgr : ∀ x ∈ rest, Good x := fun x hx => hg x (by simp [hx])
      obtain ⟨m0, t0, hd0, hs0⟩ := hw [] List.nil_prefix (by simp)
      have hs : Fs.canSearch fs cur = true := by
        apply canSearch_of_dir fs cur m0 t0 _ hs0
        simpa using hd0
      by_cases hrest : rest = []
      · subst hrest
        cases hlk : Fs.lookup fs (cur ++ [c]) with
        | none => rw [resolve_none fs fl f cur c [] hc hs hlk]; simp
        | some e =>
          cases e with
          | dir m t =>
            rw [resolve_dir fs fl f cur c [] hc hs m t hlk]
            cases f with
            | zero => simp at hf
            | succ f' => rw [resolve_nil]
          | file d m t => rw [resolve_file fs fl f cur c [] hc hs d m t hlk]; simp
          | link t =>
            have := hl t hlk
            subst this
            exact resolve_link_last fs f cur c hc hs t hlk
      · obtain ⟨m, t, hd, _⟩ := hw [c] (List.cons_prefix_cons.2 ⟨rfl, List.nil_prefix⟩)
          (by simpa using hrest)
        rw [resolve_dir fs fl f cur c rest hc hs m t hd]
        have := ih f (cur ++ [c]) hgr (by simp at hf; omega) hw.tail (by simpa using hl)
        simpa using this

end LhasaV.ExtractTree
