import LhasaV.Lemmas.ReaderLedger
import LhasaV.Lemmas.StreamProps
/-!
# C13 for the reader's heap: the number of live blocks is bounded along every history

`Ledger.live` counts the heap blocks of the live header objects (1 struct + up to 5 strings each)
and the live decoder objects.  Along any history the live headers are the reachable ones
(`Inv.live_iff`): at most the basic reader's current header, the reader's own current entry, and
one per directory on the stack / deferred symbolic link — and those two lists grow only by a
successful `extract`.
-/
set_option linter.unusedSimpArgs false
namespace LhasaV.ReaderIndep
open LhasaV LhasaV.Reader

/-! ## 1. every header object has at most 6 blocks -/

def BlocksOK (l : Ledger) : Prop := ∀ q ∈ l.blocks, q.2 ≤ 6

theorem unref_blocks (l : Ledger) (id : Nat) : (l.unref id).blocks = l.blocks := by
  unfold Ledger.unref
  split
  · rfl
  · split <;> rfl

theorem addRef_blocks (l : Ledger) (id : Nat) : (l.addRef id).blocks = l.blocks := by
  unfold Ledger.addRef; split <;> rfl

theorem basicNext_blocksOK {mk : Nat → Nat} {b b' : Basic} {led led' : Ledger}
    (h : BlocksOK led) (e : basicNext mk b led = .ok (b', led')) : BlocksOK led' := by
  rw [Reader.basicNext_eq] at e
  have h1 : BlocksOK (basicRelease b led).2 := by
    unfold basicRelease; split
    · intro q hq; rw [unref_blocks] at hq; exact h q hq
    · exact h
  generalize (basicRelease b led).1 = x at e
  generalize (basicRelease b led).2 = l at e h1
  unfold basicParse at e
  split at e
  · cases e; exact h1
  · cases hs : Stream.start x.stream with
    | fail => rw [hs] at e; cases e
    | fault w => rw [hs] at e; cases e
    | ok st =>
      rw [hs] at e
      simp only [Res.ok_bind] at e
      split at e
      · cases e; exact h1
      · split at e
        · cases e
        · cases e; exact h1
        · cases e
          intro q hq
          rcases List.mem_cons.1 hq with rfl | hq
          · show 1 + _ + _ + _ + _ + _ ≤ 6
            have o : ∀ (x : Option Bytes), (if x.isSome = true then 1 else 0) ≤ 1 := by
              intro x; split <;> omega
            rename_i hh _ _
            have := o hh.path; have := o hh.filename; have := o hh.symlinkTarget
            have := o hh.unixUsername; have := o hh.unixGroup
            omega
          · exact h1 q hq

theorem extract_blocks (s : St) (b : Bool) : (extract s b).2.led.blocks = s.led.blocks := by
  unfold extract
  split
  · split
    · dsimp only
      split
      · exact (openDecoder_frame s).blocks
      · split
        · exact (openDecoder_frame s).blocks
        · exact ((openDecoder_frame s).trans (decodeLoop_frame _ _ _)).blocks
    · split
      · split
        · split
          · rfl
          · exact addRef_blocks _ _
        · rfl
      · split
        · rfl
        · split
          · rfl
          · exact addRef_blocks _ _
  · rfl
  · rfl
  · rfl

theorem nextUnref_blocks (s : St) : (nextUnref s).led.blocks = s.led.blocks := by
  unfold nextUnref; split
  · split
    · exact unref_blocks _ _
    · rfl
  · rfl

theorem nextPop_led (s : St) : (nextPop s).led = s.led := by
  unfold nextPop; split
  · split <;> rfl
  · rfl

theorem nextDeferred_led (s : St) : (nextDeferred s).led = s.led := by
  unfold nextDeferred; split
  · rfl
  · split <;> rfl

theorem next_blocksOK {s s' : St} {r : Option HObj} (h : BlocksOK s.led) (e : next s = .ok (r, s')) :
    BlocksOK s'.led := by
  have h0 : BlocksOK (closeDecoder s).led := by
    intro q hq; rw [(closeDecoder_frame s).blocks] at hq; exact h q hq
  rw [next_eq] at e
  split at e
  · cases e; exact h0
  · cases ha : nextAdv (closeDecoder s) with
    | error w => rw [ha] at e; cases e
    | ok s1 =>
      rw [ha] at e
      simp only [bind, Except.bind, Except.ok.injEq, Prod.mk.injEq] at e
      obtain ⟨-, rfl⟩ := e
      rw [nextDeferred_led, nextPop_led]
      intro q hq
      rw [nextUnref_blocks] at hq
      revert q
      show BlocksOK s1.led
      by_cases hs : (closeDecoder s).currType = .start ∨ (closeDecoder s).currType = .normal
      · obtain ⟨x, hx, rfl⟩ := nextAdv_stream hs ha
        exact basicNext_blocksOK (b' := x.1) (led' := x.2) h0 hx
      · rw [nextAdv_fake hs] at ha; cases ha; exact h0

theorem step_blocksOK {s : St} (h : BlocksOK s.led) (op : Op) : BlocksOK (step s op).led := by
  cases op with
  | next =>
    simp only [step]
    cases e : next s with
    | error w => exact h
    | ok r => exact next_blocksOK (r := r.1) (s' := r.2) h e
  | read k => intro q hq; simp only [step] at hq; rw [(read_frame s k).blocks] at hq; exact h q hq
  | check => intro q hq; simp only [step] at hq; rw [(check_frame s).blocks] at hq; exact h q hq
  | extract b => intro q hq; simp only [step] at hq; rw [extract_blocks] at hq; exact h q hq

theorem run_blocksOK {s : St} (h : BlocksOK s.led) (ops : List Op) : BlocksOK (run s ops).led := by
  induction ops generalizing s with
  | nil => exact h
  | cons op ops ih => exact ih (step_blocksOK h op)

/-- the header part of `live` -/
def hdrBlocks (l : Ledger) : Nat :=
  (l.hdrs.map (fun p => ((l.blocks.find? (·.1 == p.1)).map (·.2)).getD 1)).sum

theorem live_eq (l : Ledger) : l.live = hdrBlocks l + l.decoders := rfl

theorem hdrBlocks_le {l : Ledger} (h : BlocksOK l) : hdrBlocks l ≤ 6 * l.hdrs.length := by
  unfold hdrBlocks
  generalize l.hdrs = hs
  induction hs with
  | nil => simp
  | cons p hs ih =>
    simp only [List.map_cons, List.sum_cons, List.length_cons]
    have : ((l.blocks.find? (·.1 == p.1)).map (·.2)).getD 1 ≤ 6 := by
      cases hf : l.blocks.find? (·.1 == p.1) with
      | none => simp
      | some q => simp only [Option.map_some, Option.getD_some]; exact h q (List.mem_of_find?_eq_some hf)
    omega

/-! ## 2. live headers are reachable headers -/

theorem nodup_length_le : ∀ (l l' : List Nat), l.Nodup → (∀ x ∈ l, x ∈ l') → l.length ≤ l'.length := by
  intro l
  induction l with
  | nil => intro l' _ _; simp
  | cons x l ih =>
    intro l' hn hs
    simp only [List.nodup_cons] at hn
    have hx : x ∈ l' := hs x (by simp)
    have h1 := ih (l'.erase x) hn.2 (fun y hy => by
      have : y ≠ x := fun e => hn.1 (e ▸ hy)
      exact (List.mem_erase_of_ne this).2 (hs y (by simp [hy])))
    have h2 := List.length_erase_of_mem hx
    have h3 : 0 < l'.length := List.length_pos_of_mem hx
    simp only [List.length_cons]
    omega

theorem reachable_length (s : St) : (reachable s).length ≤ 2 + s.dirStack.length + s.deferred.length := by
  unfold reachable
  simp only [List.length_append]
  have h1 : s.basic.curr.toList.length ≤ 1 := by cases s.basic.curr <;> simp
  have h2 : (ownCurr s).toList.length ≤ 1 := by cases ownCurr s <;> simp
  omega

/-- the live header objects are at most the reachable ones -/
theorem Inv.hdrs_length {s : St} (h : Inv s) :
    s.led.hdrs.length ≤ 2 + s.dirStack.length + s.deferred.length := by
  have h1 := nodup_length_le (s.led.hdrs.map (·.1)) ((reachable s).map (·.id)) h.own.wf.nodup
    (fun x hx => by
      obtain ⟨p, hp, rfl⟩ := List.mem_map.1 hx
      obtain ⟨o, ho, e⟩ := (h.live_iff p.1).1 ⟨p, hp, rfl⟩
      exact List.mem_map.2 ⟨o, ho, e⟩)
  simp only [List.length_map] at h1
  exact Nat.le_trans h1 (reachable_length s)

/-! ## 3. the stack and the deferred list grow only by a successful `extract` -/

/-- number of `extract` operations whose file-system call succeeded -/
def extractsOk : List Op → Nat
  | [] => 0
  | .extract true :: ops => extractsOk ops + 1
  | _ :: ops => extractsOk ops

def stk (s : St) : Nat := s.dirStack.length + s.deferred.length

theorem extract_stk (s : St) (b : Bool) : stk (extract s b).2 ≤ stk s + (if b then 1 else 0) := by
  unfold extract stk
  split
  · rename_i c _ _
    split
    · dsimp only
      split
      · rw [(openDecoder_frame s).dirStack, (openDecoder_frame s).deferred]; omega
      · split
        · rw [(openDecoder_frame s).dirStack, (openDecoder_frame s).deferred]; omega
        · have f := (openDecoder_frame s).trans (decodeLoop_frame (c.h.length + 2) (openDecoder s).2 [])
          rw [f.dirStack, f.deferred]; omega
    · split
      · split
        · split
          · simp only []; omega
          · rename_i hb
            have : b = true := by simpa using hb
            subst this
            have := congrArg List.length
              (List.takeWhile_append_dropWhile (p := fun r => decide (pathLen r > pathLen c)) (l := s.deferred))
            simp only [List.length_append, List.length_cons, List.length_nil, if_true] at this ⊢
            omega
        · simp only []; omega
      · split
        · simp only []; omega
        · rename_i hb
          have : b = true := by simpa using hb
          subst this
          split
          · simp only []; omega
          · simp only [List.length_cons, if_true]; omega
  · simp only []; omega
  · simp only []; omega
  · simp only []; omega

theorem next_stk {s s' : St} {r : Option HObj} (e : next s = .ok (r, s')) : stk s' ≤ stk s := by
  have f := closeDecoder_frame s
  have h0 : stk (closeDecoder s) = stk s := by unfold stk; rw [f.dirStack, f.deferred]
  rw [next_eq] at e
  split at e
  · cases e; omega
  · cases ha : nextAdv (closeDecoder s) with
    | error w => rw [ha] at e; cases e
    | ok s1 =>
      rw [ha] at e
      simp only [bind, Except.bind, Except.ok.injEq, Prod.mk.injEq] at e
      obtain ⟨-, rfl⟩ := e
      have h1 : stk s1 = stk (closeDecoder s) := by
        unfold nextAdv at ha
        split at ha
        · split at ha
          · cases ha; rfl
          · cases ha
          · cases ha
        · cases ha; rfl
      have h2 : stk (nextUnref s1) = stk s1 := by
        unfold nextUnref; split
        · split <;> rfl
        · rfl
      have h3 : ∀ x : St, stk (nextPop x) ≤ stk x := by
        intro x; unfold nextPop; split
        · split
          · rename_i hd; unfold stk; simp only [hd, List.length_cons]; omega
          · omega
        · unfold stk; simp only []; omega
      have h4 : ∀ x : St, stk (nextDeferred x) ≤ stk x := by
        intro x; unfold nextDeferred; split
        · omega
        · split
          · rename_i hd; unfold stk; simp only [hd, List.length_cons]; omega
          · unfold stk; simp only []; omega
      have := h3 (nextUnref s1)
      have := h4 (nextPop (nextUnref s1))
      omega

theorem step_stk (s : St) (op : Op) : stk (step s op) ≤ stk s + extractsOk [op] := by
  cases op with
  | next =>
    simp only [step]
    cases e : next s with
    | error w => simp only [extractsOk]; omega
    | ok r => have := next_stk (r := r.1) (s' := r.2) e; simp only [extractsOk]; omega
  | read k =>
    simp only [step, stk, extractsOk]; rw [(read_frame s k).dirStack, (read_frame s k).deferred]; omega
  | check =>
    simp only [step, stk, extractsOk]; rw [(check_frame s).dirStack, (check_frame s).deferred]; omega
  | extract b =>
    have := extract_stk s b
    cases b <;> simp only [step, extractsOk] <;> simp at this <;> omega

theorem extractsOk_cons (op : Op) (ops : List Op) : extractsOk (op :: ops) = extractsOk [op] + extractsOk ops := by
  cases op with
  | extract b => cases b <;> simp [extractsOk]; omega
  | next => simp [extractsOk]
  | read k => simp [extractsOk]
  | check => simp [extractsOk]

theorem run_stk (s : St) (ops : List Op) : stk (run s ops) ≤ stk s + extractsOk ops := by
  induction ops generalizing s with
  | nil => simp [extractsOk]
  | cons op ops ih =>
    have h1 := step_stk s op
    have h2 := ih (step s op)
    rw [extractsOk_cons]
    simp only [run_cons]
    omega

/-! ## 4. decoder objects -/

theorem objs_le_four (o : Open) : o.objs ≤ 4 := by
  unfold Open.objs
  split <;> split <;> split <;> omega

/-! ## 5. the bounds -/

/-- **`heap_bound`, header part, every history** (legal or not): the live header objects are at
most `2 +` the number of successful extracts, and each owns at most 6 heap blocks. -/
theorem heap_bound_headers (st : Stream.St) (pol : DirPolicy) (mk : Nat → Nat) (ops : List Op) :
    (run (fresh st pol mk) ops).led.hdrs.length ≤ 2 + extractsOk ops ∧
    hdrBlocks (run (fresh st pol mk) ops).led ≤ 6 * (2 + extractsOk ops) := by
  have hi := run_inv (inv_fresh st pol mk) ops
  have hb : BlocksOK (run (fresh st pol mk) ops).led :=
    run_blocksOK (s := fresh st pol mk) (fun q hq => by cases hq) ops
  have hs := run_stk (fresh st pol mk) ops
  have h0 : stk (fresh st pol mk) = 0 := rfl
  have hl := Inv.hdrs_length hi
  unfold stk at hs h0
  have h1 : (run (fresh st pol mk) ops).led.hdrs.length ≤ 2 + extractsOk ops := by omega
  refine ⟨h1, Nat.le_trans (hdrBlocks_le hb) (Nat.mul_le_mul_left 6 h1)⟩

/-- **`heap_bound`.**  After any LEGAL history from a fresh reader the number of live heap blocks
(header structs and strings, decoder objects) is at most `6 · (2 + successful extracts) + 4`:
it does not depend on the archive's size nor on any size declared in it. -/
theorem heap_bound (st : Stream.St) (pol : DirPolicy) (mk : Nat → Nat) (ops : List Op) (hl : Legal ops) :
    (run (fresh st pol mk) ops).led.live ≤ 6 * (2 + extractsOk ops) + 4 := by
  have hd := (run_invD_legal st pol mk ops hl).decoders
  have hh := (heap_bound_headers st pol mk ops).2
  rw [live_eq, hd]
  have : decObjs (run (fresh st pol mk) ops).dec ≤ 4 := by
    unfold decObjs; split
    · omega
    · exact objs_le_four _
  omega

/-- a parsed header keeps at most the bytes that were present: its raw data is a prefix of the
input (`Header.read_consumes`), so no declared length makes the parser allocate more than it read -/
theorem header_raw_le (mk : Nat → Nat) (inp : Bytes) (h : Header.Hdr) (rest : Bytes)
    (hr : Header.read mk inp = .ok (h, rest)) : h.raw.length ≤ inp.length ∧ h.raw.length + rest.length = inp.length := by
  obtain ⟨⟨k, rfl, hrest, hk⟩, _⟩ := Header.read_consumes mk inp h rest hr
  refine ⟨hk, ?_⟩
  rw [hrest, List.length_drop]; omega

end LhasaV.ReaderIndep
