import LhasaV.Lemmas.ContainW8
import LhasaV.Lemmas.ExtractTree15
/-!
# C10 with `w=DIR`, and the read-only commands

* `ContainW1`: `rebase`, `SafeAt B` (every link visible below `B` is safe), `walk` (resolution
  along a chain whose existing elements are directories), `lands`, `lands_dd`, `lands_chain`.
* `ContainW2`: `InvW`, `Allowed`, `StepW`; every `Fs` operation relative to the base.
* `ContainW3`: `archFopen_w`, `archSymlink_w`, `makeParents_w`, `setDirMeta_w`,
  `readerExtract_w`, `toDir_w`.
* `ContainW4`: the constructed path `DIR/X` (`fileFullPath_w`, `fnShape_w`, `ddShape_w`); one entry
  (`eaf_w_main`, `eaf_w_deferred`, `eaf_w_dd`).
* `ContainW4b`: `makeParents_base` — after a successful `make_parent_directories(DIR/X)`, `X ≠ ""`,
  `cwd/DIR` is a directory.
* `ContainW5`: the loop (`InvL`), **`run_contained_w_gen`**, **`run_contained_w_cwd`**,
  **`run_contained_w`** (for `Extract.run`); `presentedB` (executable check of `NotBaseRun`).
* `ContainW6`: **`test_touches_nothing`**, **`dry_run_touches_nothing`**,
  **`readonly_commands_touch_nothing`**.
* `ContainW7`, `ContainW8`: the same loop for the message-bearing model `Messages.run .extract`
  (the one compared byte for byte with the real tool): **`mrun_contained_w`**,
  **`mrun_contained_w_cwd`** — NO hypothesis on the archive, whether `DIR` exists or not.

This file: corollaries, non-vacuity on concrete file systems and hostile archives, what is NOT
covered and why (a `DIR` with "..", an absolute `DIR`, and — for the older model `Extract.run` only
— the trailing-slash artifact of `Fs` when `DIR` does not exist yet).

## What `w=DIR` does in the C

`file_full_path` builds `DIR "/" path name` as a string; `make_parent_directories` creates every
prefix of it that ends before a '/', `DIR`'s own components included (mode 0755); everything else
(`stat`, `unlink`, `open`, `mkdir`, `symlink`, `chmod`, `utime`) is handed that string.  `DIR` is
the user's command-line argument.  Proved here, for a relative `DIR` without ".." components:

1. (`run_contained_w_cwd`) all links below the current directory safe ⇒ every mutation below the
   current directory — whatever `DIR` is (missing, directory, file, safe link);
2. (`run_contained_w`) whatever exists at `DIR`'s component prefixes is a directory, and all links
   below `cwd/DIR` are safe (links elsewhere in the current directory may be dangerous) ⇒ every
   mutation is below `cwd/DIR`, or is the `mkdir` of one of `DIR`'s missing components.  For
   `Extract.run`, when `DIR` does not exist yet, this needs `NotBaseRun` (see the artifact below);
   for `Messages.run` (`mrun_contained_w`) and when `DIR` exists (`run_contained_w_existing`), nothing.
-/
namespace LhasaV.ContainW
open LhasaV LhasaV.Header LhasaV.Extract LhasaV.GlobFs LhasaV.Contain

/-! ## corollaries -/

/-- **`DIR` exists** (every component prefix of `cwd/DIR` is a directory, links below `cwd/DIR` are
safe): for ANY archive — no condition on it — EVERY mutation acts below `cwd/DIR`; nothing at all
happens elsewhere in the current directory, whatever links it contains. -/
theorem run_contained_w_existing (archive : Array UInt8) (o : Opts) (fs₀ : Fs.St) (answers : Bytes)
    (d : Bytes) (hx : o.extractPath = some d) (hne : d ≠ []) (hrel : d.head? ≠ some 0x2f)
    (hnd : NoDotDot d) (hd : DirsOk fs₀)
    (hdirs : ∀ pre, pre <+: comps d → pre ≠ [] → IsDir fs₀ (fs₀.cwd ++ pre))
    (hs : SafeAt (fs₀.cwd ++ comps d) fs₀) :
    (run archive o fs₀ answers).fs.cwd = fs₀.cwd ∧
    ∃ new, (run archive o fs₀ answers).fs.log = new ++ fs₀.log ∧
      ∀ m ∈ new, (fs₀.cwd ++ comps d) <+: m.path := by
  have hB : IsDir fs₀ (fs₀.cwd ++ comps d) := (base_dirs fs₀ fs₀.cwd (comps d) hd.1 hd.2 hdirs).1
  obtain ⟨h1, new, h2, h3⟩ := run_contained_w archive o fs₀ answers d hx hne hrel hnd hd
    (fun pre hp hpne => IsDir.noFL (hdirs pre hp hpne)) hs (Or.inl hB)
  refine ⟨h1, new, h2, fun m hm => ?_⟩
  rcases h3 m hm with h | ⟨_, hl, pre, hp, hpne, hpath⟩
  · exact h
  · obtain ⟨mo, t, hdir⟩ := hdirs pre hp hpne
    rw [hpath, hdir] at hl; cases hl

/-- under the hypotheses of `run_contained_w` every mutation is, in particular, below the current
directory -/
theorem run_contained_w_below_cwd (archive : Array UInt8) (o : Opts) (fs₀ : Fs.St) (answers : Bytes)
    (d : Bytes) (hx : o.extractPath = some d) (hne : d ≠ []) (hrel : d.head? ≠ some 0x2f)
    (hnd : NoDotDot d) (hd : DirsOk fs₀)
    (hchain : ∀ pre, pre <+: comps d → pre ≠ [] → NoFL fs₀ (fs₀.cwd ++ pre))
    (hs : SafeAt (fs₀.cwd ++ comps d) fs₀)
    (hB : IsDir fs₀ (fs₀.cwd ++ comps d) ∨ NotBaseRun archive o fs₀ answers) :
    ∃ new, (run archive o fs₀ answers).fs.log = new ++ fs₀.log ∧ ∀ m ∈ new, fs₀.cwd <+: m.path := by
  obtain ⟨_, new, h2, h3⟩ := run_contained_w_gen archive o fs₀ answers d (comps d) hx
    ⟨hne, ⟨hrel, hnd⟩, List.prefix_refl _⟩ ⟨rfl, hs, hchain, hd.1, hd.2⟩ hB
  exact ⟨new, h2, fun m hm => allowed_below_cwd (h3 m hm)⟩

/-! ## non-vacuity -/

section examples

/-- "sub" -/
def dSub : Bytes := [0x73, 0x75, 0x62]

theorem comps_dSub : comps dSub = [dSub] := by decide
theorem dSub_nd : NoDotDot dSub := by unfold NoDotDot; decide

theorem prefix_single {x : Bytes} {pre : List Bytes} (h : pre <+: [x]) (hne : pre ≠ []) : pre = [x] := by
  obtain ⟨pre', rfl, h'⟩ := prefix_cons_cases h hne
  rw [List.prefix_nil.1 h']

/-- extraction directory `/x`; outside: `/o`; inside: `o/`, the DANGEROUS link `bad -> /o` next to
where `sub` will be — and no `sub` -/
def fsNoSub : Fs.St :=
  { cwd := [[0x78]],
    ents := [([[0x78]], .dir 0o755 0), ([[0x6f]], .dir 0o755 0), ([[0x78], [0x6f]], .dir 0o755 0),
             ([[0x78], [0x62, 0x61, 0x64]], .link [0x2f, 0x6f])] }

/-- the same with the directory `sub`, holding the safe link `sub/s -> .` -/
def fsSub : Fs.St :=
  { fsNoSub with ents := fsNoSub.ents ++ [([[0x78], dSub], .dir 0o700 0),
                                          ([[0x78], dSub, [0x73]], .link [0x2e])] }

theorem fsNoSub_dirsOk : DirsOk fsNoSub := ⟨⟨0o755, 0, by decide⟩, ⟨0o755, 0, by decide⟩⟩
theorem fsSub_dirsOk : DirsOk fsSub := ⟨⟨0o755, 0, by decide⟩, ⟨0o755, 0, by decide⟩⟩

/-- `SafeLinks` FAILS in both (the link `bad -> /o`): `Contain.run_contained_all` and
`run_contained_w_cwd` do not apply — `run_contained_w` does, it looks below `/x/sub` only -/
example : ¬ SafeLinks fsSub := by
  intro h
  have := h [[0x78], [0x62, 0x61, 0x64]] [0x2f, 0x6f] (by decide) (by decide)
  exact this.1 (by decide)

theorem fsNoSub_safeAt : SafeAt (fsNoSub.cwd ++ comps dSub) fsNoSub := by
  apply safeLinks_of_ents
  intro p t hp hm
  simp only [rebase, fsNoSub, List.mem_cons, Prod.mk.injEq, reduceCtorEq, and_false, false_or,
    Fs.Ent.link.injEq, List.not_mem_nil, or_false] at hm
  obtain ⟨rfl, rfl⟩ := hm
  exact absurd hp (by decide)

theorem fsSub_safeAt : SafeAt (fsSub.cwd ++ comps dSub) fsSub := by
  apply safeLinks_of_ents
  intro p t hp hm
  simp only [rebase, fsSub, fsNoSub, List.cons_append, List.nil_append, List.mem_cons, Prod.mk.injEq,
    reduceCtorEq, and_false, false_or, Fs.Ent.link.injEq, List.not_mem_nil, or_false] at hm
  rcases hm with ⟨rfl, rfl⟩ | ⟨rfl, rfl⟩
  · exact absurd hp (by decide)
  · unfold SafeTarget NoDotDot; decide

theorem fsNoSub_chain : ∀ pre, pre <+: comps dSub → pre ≠ [] → NoFL fsNoSub (fsNoSub.cwd ++ pre) := by
  intro pre hp hne
  rw [comps_dSub] at hp
  rw [prefix_single hp hne]
  have hl : Fs.lookup fsNoSub (fsNoSub.cwd ++ [dSub]) = none := by decide
  intro e he
  rw [hl] at he; cases he

/-- **`DIR` exists**: the hypotheses of `run_contained_w` are satisfiable, with NO condition on
the archive: whatever the archive bytes, the answers, the overwrite policy and the `i` flag, a run
`lha x… w=sub` started in `fsSub` touches `/x/sub/…` only (the second disjunct of the theorem is
`mkdir /x/sub`, which is below `/x/sub` too) — although `/x/bad -> /o` sits next to `sub` -/
example (archive : Array UInt8) (answers : Bytes) (ov : Overwrite) (u : Bool) :
    ∃ new, (run archive { extractPath := some dSub, overwrite := ov, usePath := u } fsSub answers).fs.log
        = new ++ fsSub.log ∧ ∀ m ∈ new, [[0x78], dSub] <+: m.path := by
  have h := (run_contained_w_existing archive
    { extractPath := some dSub, overwrite := ov, usePath := u } fsSub answers dSub rfl (by decide)
    (by decide) dSub_nd fsSub_dirsOk ?_ fsSub_safeAt).2
  · rw [comps_dSub] at h; exact h
  · intro pre hp hne
    rw [comps_dSub] at hp
    rw [prefix_single hp hne]
    exact ⟨0o700, 0, by decide⟩

/-- **`DIR` does not exist, message-bearing model**: no condition on the archive either: whatever
the archive bytes, the answers and the options f, q, i, n, a run `lha x… w=sub` started in
`fsNoSub` does `mkdir /x/sub` and otherwise touches `/x/sub/…` only -/
example (archive : Array UInt8) (answers : Bytes) (ov : Overwrite) (u n : Bool) (q : Nat) :
    ∃ new, (Messages.runExtract archive
        { extractPath := some dSub, overwrite := ov, usePath := u, dryRun := n, quiet := q }
        fsNoSub answers).2.2.log = new ++ fsNoSub.log ∧ ∀ m ∈ new, [[0x78], dSub] <+: m.path := by
  obtain ⟨_, new, h1, h2⟩ := mrun_contained_w archive
    { extractPath := some dSub, overwrite := ov, usePath := u, dryRun := n, quiet := q } fsNoSub answers
    dSub rfl (by decide) (by decide) dSub_nd fsNoSub_dirsOk fsNoSub_chain fsNoSub_safeAt
  refine ⟨new, h1, fun m hm => ?_⟩
  rcases h2 m hm with h | ⟨_, _, pre, hp, hne, h⟩
  · rw [comps_dSub] at h; exact h
  · rw [comps_dSub] at hp
    rw [h, prefix_single hp hne]; exact List.prefix_refl _

/-- extraction directory `/x` with `sub -> other` (a SAFE link), `other/`: the chain of `sub` is not
link-free, `run_contained_w` does not apply, `run_contained_w_cwd` does -/
def fsLink : Fs.St :=
  { cwd := [[0x78]],
    ents := [([[0x78]], .dir 0o755 0), ([[0x6f]], .dir 0o755 0),
             ([[0x78], [0x6f, 0x74, 0x68, 0x65, 0x72]], .dir 0o755 0),
             ([[0x78], dSub], .link [0x6f, 0x74, 0x68, 0x65, 0x72])] }

theorem fsLink_safe : SafeLinks fsLink := by
  apply safeLinks_of_ents
  intro p t _ hm
  simp only [fsLink, List.mem_cons, Prod.mk.injEq, reduceCtorEq, and_false, false_or,
    Fs.Ent.link.injEq, List.not_mem_nil, or_false] at hm
  obtain ⟨_, rfl⟩ := hm
  unfold SafeTarget NoDotDot; decide

/-- whatever the archive: below `/x` -/
example (archive : Array UInt8) (answers : Bytes) :
    ∃ new, (run archive { extractPath := some dSub } fsLink answers).fs.log = new ++ fsLink.log ∧
      ∀ m ∈ new, [[0x78]] <+: m.path :=
  (run_contained_w_cwd archive { extractPath := some dSub } fsLink answers dSub rfl (by decide)
    (by decide) dSub_nd fsLink_safe ⟨⟨0o755, 0, by decide⟩, ⟨0o755, 0, by decide⟩⟩).2

/-! ### hostile archives -/

open ExtractTree ExtractTree.Sample Spec.HeaderEnc

def bs (s : String) : Bytes := s.toUTF8.toList

/-- a symbolic link whose stored name (path header, then file name header) contains the '|' in the
path part: only so can the target contain '/' -/
def rawLink (pathPart : Fs.Path) (last : Bytes) : Bytes :=
  encode { level := 2, method := lhdM, clen := 0, length := 0, time := 0, crc := 0, osType := 0x55,
           exts := [.filename last, .path (sp pathPart), .unixPerm 0o120777 []] }

/-- directories and links only (so that the kernel can run the reader over it): `../evil/`,
`dd/l -> /o` (dangerous), `k -> ../../o` (dangerous) -/
def hostileDirs : Array UInt8 :=
  ((([ .dir [bs "..", bs "evil"] none 5 ] : List Entry).map member).flatten ++
   rawLink [bs "dd", bs "l|"] (bs "o") ++ rawLink [bs "k|..", bs ".."] (bs "o")).toArray

/-- a longer one (evaluated by `#guard` only): also `/abs/f/` (absolute), `bad/in/` (the name of the
dangerous link next to `sub`), `dd/`, `../`, `s -> dd` (safe) and `s/t/` (through it) -/
def hostileDirs2 : Array UInt8 :=
  ((([ .dir [bs "..", bs "evil"] none 5, .dir [[], bs "abs", bs "f"] none 5,
       .dir [bs "bad", bs "in"] none 5, .dir [bs "dd"] none 7 ] : List Entry).map member).flatten ++
   rawLink [bs "dd", bs "l|"] (bs "o") ++ rawLink [bs "k|..", bs ".."] (bs "o") ++
   (([ .dir [bs ".."] none 5, .link [bs "s"] (bs "dd"), .dir [bs "s", bs "t"] none 9 ]
      : List Entry).map member).flatten).toArray

/-- the same with members that have contents: `../evil`, `/abs/f`, `dd/`, `dd/l -> /o`,
`k -> ../../o`, a member NAMED `..` -/
def hostileFiles : Array UInt8 :=
  ((([ .file [bs "..", bs "evil"] (bs "1") none 5, .file [[], bs "abs", bs "f"] (bs "2") none 5,
       .dir [bs "dd"] none 7 ] : List Entry).map member).flatten ++
   rawLink [bs "dd", bs "l|"] (bs "o") ++ rawLink [bs "k|..", bs ".."] (bs "o") ++
   (([ .file [bs ".."] (bs "4") none 5 ] : List Entry).map member).flatten).toArray

def showP (p : Fs.Path) : String := "/" ++ "/".intercalate (p.map (fun c => String.fromUTF8! ⟨c.toArray⟩))
/-- the mutations a run added, oldest first -/
def added (fs₀ fs : Fs.St) : List String :=
  ((fs.log.take (fs.log.length - fs₀.log.length)).reverse).map (fun m => m.op ++ " " ++ showP m.path)

/-- the kernel archive, irreducible for the elaborator -/
@[irreducible] def hostileDirsI : Array UInt8 := hostileDirs

set_option maxRecDepth 100000 in
/-- `NotBaseRun` holds of it (kernel evaluation of the executable check) -/
theorem hostileDirs_notBase :
    NotBaseRun hostileDirsI { extractPath := some dSub } fsNoSub [] :=
  notBaseRun_of_check _ _ _ _ (by decide +kernel)

/-- **`DIR` does not exist**: every hypothesis of `run_contained_w` discharged for the hostile
archive: `mkdir /x/sub`, then everything below `/x/sub` -/
example :
    ∃ new, (run hostileDirsI { extractPath := some dSub } fsNoSub []).fs.log = new ++ fsNoSub.log ∧
      ∀ m ∈ new, [[0x78], dSub] <+: m.path := by
  obtain ⟨_, new, h1, h2⟩ := run_contained_w hostileDirsI { extractPath := some dSub } fsNoSub []
    dSub rfl (by decide) (by decide) dSub_nd fsNoSub_dirsOk fsNoSub_chain fsNoSub_safeAt
    (Or.inr hostileDirs_notBase)
  refine ⟨new, h1, fun m hm => ?_⟩
  rcases h2 m hm with h | ⟨_, _, pre, hp, hne, h⟩
  · rw [comps_dSub] at h; exact h
  · rw [comps_dSub] at hp
    rw [h, prefix_single hp hne]; exact List.prefix_refl _

-- what the run does (compiled evaluation): the dangerous links are created last, in place
#guard added fsNoSub (run hostileDirs { extractPath := some dSub } fsNoSub []).fs ==
  ["mkdir /x/sub", "mkdir /x/sub/evil", "utime /x/sub/evil", "mkdir /x/sub/dd", "create /x/sub/dd/l",
   "create /x/sub/k", "unlink /x/sub/dd/l", "symlink /x/sub/dd/l", "unlink /x/sub/k", "symlink /x/sub/k"]
#guard presentedB notBaseB (runFuel hostileDirs2)
  (runInit hostileDirs2 { extractPath := some dSub } fsNoSub [])
#guard added fsNoSub (run hostileDirs2 { extractPath := some dSub } fsNoSub []).fs ==
  ["mkdir /x/sub", "mkdir /x/sub/evil", "utime /x/sub/evil", "mkdir /x/sub/abs", "mkdir /x/sub/abs/f",
   "utime /x/sub/abs/f", "mkdir /x/sub/bad", "mkdir /x/sub/bad/in", "utime /x/sub/bad/in",
   "mkdir /x/sub/dd", "create /x/sub/dd/l", "utime /x/sub/dd", "create /x/sub/k", "symlink /x/sub/s",
   "mkdir /x/sub/dd/t", "utime /x/sub/dd/t", "unlink /x/sub/dd/l", "symlink /x/sub/dd/l",
   "unlink /x/sub/k", "symlink /x/sub/k"]
-- members with contents (option `f`: the member NAMED ".." would otherwise stop at the overwrite
-- prompt); `DIR` missing / existing; with `i`
#guard added fsNoSub (run hostileFiles { extractPath := some dSub, overwrite := .all } fsNoSub []).fs ==
  ["mkdir /x/sub", "create /x/sub/evil", "write /x/sub/evil", "utime /x/sub/evil", "mkdir /x/sub/abs",
   "create /x/sub/abs/f", "write /x/sub/abs/f", "utime /x/sub/abs/f", "mkdir /x/sub/dd",
   "create /x/sub/dd/l", "utime /x/sub/dd", "create /x/sub/k",
   "unlink /x/sub/dd/l", "symlink /x/sub/dd/l", "unlink /x/sub/k", "symlink /x/sub/k"]
#guard presentedB notBaseB (runFuel hostileFiles)
  (runInit hostileFiles { extractPath := some dSub, overwrite := .all } fsNoSub [])
#guard (added fsSub (run hostileFiles { extractPath := some dSub, overwrite := .all } fsSub []).fs).all
  (fun l => l.endsWith "/x/sub" || (l.splitOn " /x/sub/").length == 2)
#guard added fsNoSub (run hostileFiles { extractPath := some dSub, usePath := false, overwrite := .all } fsNoSub []).fs ==
  ["mkdir /x/sub", "create /x/sub/evil", "write /x/sub/evil", "utime /x/sub/evil", "create /x/sub/f",
   "write /x/sub/f", "utime /x/sub/f", "create /x/sub/l", "create /x/sub/k",
   "unlink /x/sub/l", "symlink /x/sub/l", "unlink /x/sub/k", "symlink /x/sub/k"]
-- a two-component DIR "a/b" that does not exist: both components are made, nothing else outside
#guard (added fsNoSub (run hostileFiles { extractPath := some (bs "a/b"), usePath := false, overwrite := .all } fsNoSub []).fs).take 3
    == ["mkdir /x/a", "mkdir /x/a/b", "create /x/a/b/evil"]

/-! ### not covered, 1 (`Extract.run` only): the trailing-slash artifact of `Fs` — why `NotBaseRun`

`Fs.resolveRR` drops empty components, so `open("sub/", O_CREAT|O_EXCL)` and
`symlink(t, "sub/")` on a MISSING `sub` create `sub` in the model; in POSIX both fail
(EISDIR / ENOENT).  `Model/Messages.lean` layers the POSIX rule on top (difference (2) of
`MessagesAgree`); `Extract.run` does not — so `mrun_contained_w` needs no hypothesis on the archive
and `run_contained_w` needs `NotBaseRun` while `DIR` is missing.  A link member with an EMPTY name
and target `o`, then a file `f`: in `Extract.run` the link lands at `/x/sub` itself and `f` in
`/x/o` — outside `/x/sub` (still below `/x`; `run_contained_w_cwd` is not affected).
`Messages.run` (and the C: the real `symlink("o", "sub/")` fails) refuses the link and puts `f`
into `/x/sub`.  Not a defect of the tool: an artifact of the older model. -/

def emptyNameLink : Array UInt8 :=
  archiveOf [ .link [[]] (bs "o"), .file [bs "f"] (bs "1") none 5 ]

#guard added fsNoSub (run emptyNameLink { extractPath := some dSub } fsNoSub []).fs ==
  ["symlink /x/sub", "create /x/o/f", "write /x/o/f", "utime /x/o/f"]
#guard !presentedB notBaseB (runFuel emptyNameLink)
  (runInit emptyNameLink { extractPath := some dSub } fsNoSub [])
#guard added fsNoSub (Messages.run .extract emptyNameLink { extractPath := some dSub } fsNoSub []).x.fs ==
  ["mkdir /x/sub", "create /x/sub/f", "write /x/sub/f", "utime /x/sub/f"]
-- with `sub` in place the artifact cannot arise (first disjunct of `hB`): the link is refused
#guard added fsSub (run emptyNameLink { extractPath := some dSub } fsSub []).fs ==
  ["create /x/sub/f", "write /x/sub/f", "utime /x/sub/f"]

/-! ### not covered, 2: a `DIR` with ".." components, an absolute `DIR`

`w=sub/../x2`: `make_parent_directories` works on the STRING: it creates `sub`, finds `sub/..`,
creates `sub/../x2` = `/x/x2`, and the members go below `/x/x2`, the directory the user's `DIR`
resolves to (guards below).  The theorems require a relative, ".."-free `DIR`: the deferred phase
rests on `GlobFs.deferred_contained` / `guard_resolve` (the `path_passes_through_symlink` guard),
which are proved for relative names without ".." — with such a `DIR` every constructed name
violates that.  (Also: with ".." the directory `DIR` names depends on what its components are in
the file system, and `../other` leaves the current directory at the user's own request.)  Both
cases by correspondence only (C10 check, `w=` cases). -/

#guard (added fsNoSub (run hostileFiles { extractPath := some (bs "sub/../x2"), usePath := false, overwrite := .all } fsNoSub []).fs).take 4
    == ["mkdir /x/sub", "mkdir /x/x2", "create /x/x2/evil", "write /x/x2/evil"]
#guard ((added fsNoSub (run hostileFiles { extractPath := some (bs "sub/../x2"), overwrite := .all } fsNoSub []).fs).drop 1).all
  (fun l => l.endsWith "/x/x2" || (l.splitOn " /x/x2/").length == 2)

/-! ### the read-only commands on the hostile archive -/

#guard (Messages.run .test hostileFiles { extractPath := some dSub } fsNoSub []).x.fs.log == []
#guard (Messages.run .extract hostileFiles { extractPath := some dSub, dryRun := true } fsNoSub []).x.fs.log == []
#guard (Messages.run .extract hostileFiles { extractPath := some dSub, dryRun := true } fsNoSub []).stdout.length > 0
-- the hypothesis `dryRun = true` is needed, of course
#guard (Messages.run .extract hostileFiles { extractPath := some dSub } fsNoSub []).x.fs.log != []
#guard (roRun .print hostileFiles { quiet := 2 } fsNoSub []).1 == bs "124"

end examples

/-! ## axioms -/

#print axioms run_contained_w_gen
#print axioms run_contained_w_cwd
#print axioms run_contained_w
#print axioms run_contained_w_existing
#print axioms run_contained_w_below_cwd
#print axioms mrun_contained_w_gen
#print axioms mrun_contained_w
#print axioms mrun_contained_w_cwd
#print axioms hostileDirs_notBase
#print axioms test_touches_nothing
#print axioms dry_run_touches_nothing
#print axioms readonly_commands_touch_nothing

end LhasaV.ContainW
