import LhasaV.Lemmas.ReaderAllocHdr3
/-!
# Allocation-aware header parser, part 4: facts about the original parser's string fields
-/
namespace LhasaV.Alloc
open LhasaV LhasaV.Header

/-- the five string fields of a header object -/
def strs (h : Hdr) : Option Bytes × Option Bytes × Option Bytes × Option Bytes × Option Bytes :=
  (h.path, h.filename, h.symlinkTarget, h.unixUsername, h.unixGroup)

theorem nstr_of_strs {h h' : Hdr} (e : strs h' = strs h) : nstr h' = nstr h := by
  simp only [strs, Prod.mk.injEq] at e
  obtain ⟨e1, e2, e3, e4, e5⟩ := e
  simp only [nstr, e1, e2, e3, e4, e5]

theorem sym_of_strs {h h' : Hdr} (e : strs h' = strs h) : h'.symlinkTarget = h.symlinkTarget := by
  simp only [strs, Prod.mk.injEq] at e
  exact e.2.2.1

theorem Res.bind_eq_ok {α β : Type} {x : Res α} {f : α → Res β} {b : β} :
    (x >>= f) = .ok b ↔ ∃ a, x = .ok a ∧ f a = .ok b := by
  cases x with
  | ok a => simp
  | fail => simp
  | fault w => simp

theorem extend_strs {h : Hdr} {inp : Bytes} {n : Nat} {r : Hdr × Bytes} (e : extend h inp n = .ok r) :
    strs r.1 = strs h := by
  unfold extend at e
  split at e
  · cases e
  · split at e
    · cases e
    · cases e; rfl

/-- a decoder that duplicates no string leaves the string fields alone -/
theorem decodeExt_strs {h h' : Hdr} {num off len : Nat} (e : decodeExt h num off len = .ok h')
    (hs : extSite num = none) : strs h' = strs h := by
  have h1 : num ≠ Gen.extFilename := by intro hh; simp [extSite, hh] at hs
  have h2 : num ≠ Gen.extPath := by intro hh; simp [extSite, hh] at hs; revert hs; decide
  have h3 : num ≠ Gen.extUnixUser := by intro hh; simp [extSite, hh] at hs; revert hs; decide
  have h4 : num ≠ Gen.extUnixGroup := by intro hh; simp [extSite, hh] at hs; revert hs; decide
  unfold decodeExt at e
  cases hl : lookupExt num with
  | none => rw [hl] at e; cases e; rfl
  | some minLen =>
    rw [hl] at e
    dsimp only at e
    by_cases hlt : len < minLen
    · rw [if_pos hlt] at e; cases e; rfl
    · rw [if_neg hlt, if_neg h1, if_neg h2, if_neg h3, if_neg h4] at e
      by_cases c1 : num = Gen.extCommon
      · rw [if_pos c1] at e
        simp only [Res.bind_eq_ok, Res.pure_eq, Res.ok.injEq] at e
        obtain ⟨_, -, _, -, rfl⟩ := e; rfl
      rw [if_neg c1] at e
      by_cases c2 : num = Gen.extWindowsTimestamps
      · rw [if_pos c2] at e
        simp only [Res.bind_eq_ok, Res.pure_eq, Res.ok.injEq] at e
        obtain ⟨_, -, _, -, _, -, rfl⟩ := e; rfl
      rw [if_neg c2] at e
      by_cases c3 : num = Gen.extUnixPermission
      · rw [if_pos c3] at e
        simp only [Res.bind_eq_ok, Res.pure_eq, Res.ok.injEq] at e
        obtain ⟨_, -, rfl⟩ := e; rfl
      rw [if_neg c3] at e
      by_cases c4 : num = Gen.extUnixUidGid
      · rw [if_pos c4] at e
        simp only [Res.bind_eq_ok, Res.pure_eq, Res.ok.injEq] at e
        obtain ⟨_, -, _, -, rfl⟩ := e; rfl
      rw [if_neg c4] at e
      by_cases c5 : num = Gen.extUnixTimestamp
      · rw [if_pos c5] at e
        simp only [Res.bind_eq_ok, Res.pure_eq, Res.ok.injEq] at e
        obtain ⟨_, -, rfl⟩ := e; rfl
      rw [if_neg c5] at e
      by_cases c6 : num = Gen.extOs9
      · rw [if_pos c6] at e
        simp only [Res.bind_eq_ok, Res.pure_eq, Res.ok.injEq] at e
        obtain ⟨_, -, rfl⟩ := e; rfl
      rw [if_neg c6] at e
      cases e; rfl

/-- a string decoder installs its string (the field it replaces is `extField h site`) and leaves
the other string fields alone -/
theorem decodeExt_site {h h' : Hdr} {num off len minLen : Nat} {site : Site}
    (e : decodeExt h num off len = .ok h') (hl : lookupExt num = some minLen) (hlt : ¬ len < minLen)
    (hs : extSite num = some site) :
    nstr h' + (if (extField h site).isSome then 1 else 0) = nstr h + 1 ∧
    h'.symlinkTarget = h.symlinkTarget := by
  unfold decodeExt at e
  rw [hl] at e
  dsimp only at e
  rw [if_neg hlt] at e
  unfold extSite at hs
  by_cases c1 : num = Gen.extFilename
  · rw [if_pos c1] at hs; cases hs
    subst c1
    rw [if_neg (by decide), if_pos rfl] at e
    simp only [Res.bind_eq_ok, Res.pure_eq, Res.ok.injEq] at e
    obtain ⟨_, -, rfl⟩ := e
    refine ⟨?_, rfl⟩
    simp only [nstr, extField, Option.isSome_some, if_true]
    by_cases hf : h.filename.isSome = true <;> simp [hf] <;> omega
  rw [if_neg c1] at hs
  by_cases c2 : num = Gen.extPath
  · rw [if_pos c2] at hs; cases hs
    subst c2
    rw [if_neg (by decide), if_neg (by decide), if_pos rfl] at e
    simp only [Res.bind_eq_ok] at e
    obtain ⟨_, -, e⟩ := e
    split at e
    · cases e
    · simp only [Res.pure_eq, Res.ok.injEq] at e
      subst e
      refine ⟨?_, rfl⟩
      simp only [nstr, extField, Option.isSome_some, if_true]
      by_cases hf : h.path.isSome = true <;> simp [hf] <;> omega
  rw [if_neg c2] at hs
  by_cases c3 : num = Gen.extUnixUser
  · rw [if_pos c3] at hs; cases hs
    subst c3
    rw [if_neg (by decide), if_neg (by decide), if_neg (by decide), if_neg (by decide), if_neg (by decide),
      if_neg (by decide), if_pos rfl] at e
    simp only [Res.bind_eq_ok, Res.pure_eq, Res.ok.injEq] at e
    obtain ⟨_, -, rfl⟩ := e
    refine ⟨?_, rfl⟩
    simp only [nstr, extField, Option.isSome_some, if_true]
    by_cases hf : h.unixUsername.isSome = true <;> simp [hf] <;> omega
  rw [if_neg c3] at hs
  by_cases c4 : num = Gen.extUnixGroup
  · rw [if_pos c4] at hs; cases hs
    subst c4
    rw [if_neg (by decide), if_neg (by decide), if_neg (by decide), if_neg (by decide), if_neg (by decide),
      if_neg (by decide), if_neg (by decide), if_pos rfl] at e
    simp only [Res.bind_eq_ok, Res.pure_eq, Res.ok.injEq] at e
    obtain ⟨_, -, rfl⟩ := e
    refine ⟨?_, rfl⟩
    simp only [nstr, extField, Option.isSome_some, if_true]
    by_cases hf : h.unixGroup.isSome = true <;> simp [hf] <;> omega
  rw [if_neg c4] at hs
  cases hs

/-- every successful result of `r` has the string fields of `h` -/
def Pres (h : Hdr) (r : Res Hdr) : Prop := ∀ h', r = .ok h' → strs h' = strs h

theorem Pres.ok {h h' : Hdr} (e : strs h' = strs h) : Pres h (.ok h') := by
  intro h'' e'; cases e'; exact e
theorem Pres.bind {α : Type} {h : Hdr} {x : Res α} {f : α → Res Hdr} (hf : ∀ a, Pres h (f a)) :
    Pres h (x >>= f) := by
  intro h' e
  obtain ⟨a, -, e2⟩ := Res.bind_eq_ok.1 e
  exact hf a h' e2
theorem Pres.ite {h : Hdr} {c : Prop} [Decidable c] {x y : Res Hdr} (h1 : c → Pres h x) (h2 : ¬ c → Pres h y) :
    Pres h (if c then x else y) := by
  by_cases hc : c
  · simp only [if_pos hc]; exact h1 hc
  · simp only [if_neg hc]; exact h2 hc

set_option maxHeartbeats 1000000 in
theorem level0ExtArea_pres (h : Hdr) (off len : Nat) : Pres h (level0ExtArea h off len) := by
  unfold level0ExtArea
  simp only [Res.pure_eq]
  repeat' (first | exact Pres.ok rfl | refine Pres.ite (fun _ => ?_) (fun _ => ?_) | refine Pres.bind (fun _ => ?_))

end LhasaV.Alloc
