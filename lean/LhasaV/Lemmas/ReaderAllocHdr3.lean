import LhasaV.Lemmas.ReaderAllocHdr1
/-!
# Allocation-aware header parser, part 3: block accounting under ANY oracle (Hoare rules)

`Spec o b f0 k m Q`: started in an allocator state that holds `b` blocks besides the header object
and `k` further blocks (the strings of the header object, temporaries), the step `m`
* on success with value `a` ends holding `b + 1 + k'` blocks for some `k'` with `Q a k'`, and
  no allocation failed on the way (no failure is swallowed);
* on an error return with header object `h` ends holding exactly `b + 1 + nstr h` blocks: what
  `lha_file_header_read`'s `fail:` label releases.
`Good o hp`: the ghost log has as many entries as the oracle failed allocations below `hp.n`.
-/
namespace LhasaV.Alloc
open LhasaV LhasaV.Header

/-- number of failing allocations among the first `n` -/
def countFails (o : Oracle) : Nat → Nat
  | 0 => 0
  | n+1 => countFails o n + (if o n then 1 else 0)

/-- the ghost log is in step with the oracle -/
def Good (o : Oracle) (hp : Heap) : Prop := hp.failed.length = countFails o hp.n

/-- the log grew from `f0` -/
def Suffix (f0 : List Site) (hp : Heap) : Prop := ∃ new, hp.failed = new ++ f0

/-- state assertion on the success path -/
structure K (o : Oracle) (b : Nat) (f0 : List Site) (k : Nat) (hp : Heap) : Prop where
  good : Good o hp
  live : hp.live = b + 1 + k
  same : hp.failed = f0

/-- state assertion at an error return -/
structure KF (o : Oracle) (b : Nat) (f0 : List Site) (k : Nat) (hp : Heap) : Prop where
  good : Good o hp
  live : hp.live = b + 1 + k
  suf : Suffix f0 hp

theorem K.toKF {o b f0 k hp} (h : K o b f0 k hp) : KF o b f0 k hp := ⟨h.good, h.live, ⟨[], h.same⟩⟩

def Spec {α : Type} (o : Oracle) (b : Nat) (f0 : List Site) (k : Nat) (m : AM α) (Q : α → Nat → Prop) : Prop :=
  ∀ hp, K o b f0 k hp →
    match m hp with
    | .ok a hp' => ∃ k', Q a k' ∧ K o b f0 k' hp'
    | .fail h hp' => KF o b f0 (nstr h) hp'
    | .fault _ => True

/-- a step that certainly takes the error return (started where a failure may
already be logged) -/
def SpecF {α : Type} (o : Oracle) (b : Nat) (f0 : List Site) (k : Nat) (m : AM α) : Prop :=
  ∀ hp, KF o b f0 k hp →
    match m hp with
    | .ok _ _ => False
    | .fail h hp' => KF o b f0 (nstr h) hp'
    | .fault _ => True

section
variable {α β : Type} {o : Oracle} {b : Nat} {f0 : List Site}

theorem Spec.pure (a : α) (k : Nat) : Spec o b f0 k (Pure.pure a : AM α) (fun a' k' => a' = a ∧ k' = k) :=
  fun _ hk => ⟨k, ⟨rfl, rfl⟩, hk⟩

theorem Spec.failH {k : Nat} {h : Hdr} (e : k = nstr h) {Q : α → Nat → Prop} :
    Spec o b f0 k (failH h : AM α) Q := by
  intro hp hk; subst e; exact hk.toKF

theorem SpecF.failH {k : Nat} {h : Hdr} (e : k = nstr h) : SpecF o b f0 k (failH h : AM α) := by
  intro hp hk; subst e; exact hk

theorem Spec.liftR {k : Nat} {h : Hdr} (e : k = nstr h) (r : Res α) :
    Spec o b f0 k (liftR h r) (fun a k' => r = .ok a ∧ k' = k) := by
  intro hp hk
  cases r with
  | ok a => exact ⟨k, ⟨rfl, rfl⟩, hk⟩
  | fail => subst e; exact hk.toKF
  | fault w => trivial

theorem Spec.bind {k : Nat} {m : AM α} {f : α → AM β} {Q1 : α → Nat → Prop} {Q2 : β → Nat → Prop}
    (hm : Spec o b f0 k m Q1) (hf : ∀ a k1, Q1 a k1 → Spec o b f0 k1 (f a) Q2) :
    Spec o b f0 k (m >>= f) Q2 := by
  intro hp hk
  have h1 := hm hp hk
  rw [bind_apply]
  cases hmm : m hp with
  | ok a hp' =>
    rw [hmm] at h1
    obtain ⟨k1, hq, hk1⟩ := h1
    exact hf a k1 hq hp' hk1
  | fail h hp' => rw [hmm] at h1; exact h1
  | fault w => trivial

theorem Spec.conseq {k : Nat} {m : AM α} {Q Q' : α → Nat → Prop}
    (hm : Spec o b f0 k m Q) (hq : ∀ a k', Q a k' → Q' a k') : Spec o b f0 k m Q' := by
  intro hp hk
  have h1 := hm hp hk
  cases hmm : m hp with
  | ok a hp' =>
    rw [hmm] at h1; obtain ⟨k1, hq1, hk1⟩ := h1; exact ⟨k1, hq _ _ hq1, hk1⟩
  | fail h hp' => rw [hmm] at h1; exact h1
  | fault w => trivial

theorem Spec.ite {k : Nat} {c : Prop} [Decidable c] {x y : AM α} {Q : α → Nat → Prop}
    (h1 : c → Spec o b f0 k x Q) (h2 : ¬ c → Spec o b f0 k y Q) :
    Spec o b f0 k (if c then x else y) Q := by
  by_cases h : c
  · simp only [if_pos h]; exact h1 h
  · simp only [if_neg h]; exact h2 h

theorem countFails_succ (o : Oracle) (n : Nat) :
    countFails o (n + 1) = countFails o n + (if o n then 1 else 0) := rfl

theorem SpecF.bind {k : Nat} {m : AM α} {f : α → AM β} (hm : SpecF o b f0 k m) :
    SpecF o b f0 k (m >>= f) := by
  intro hp hk
  have h1 := hm hp hk
  rw [bind_apply]
  cases hmm : m hp with
  | ok a hp' => rw [hmm] at h1; exact h1.elim
  | fail h hp' => rw [hmm] at h1; exact h1
  | fault w => trivial

/-- `free` of `j` of the `k` blocks on the error path, then an error return -/
theorem SpecF.release_bind {k j : Nat} {f : Unit → AM β} (hj : j ≤ k)
    (hf : SpecF o b f0 (k - j) (f ())) : SpecF o b f0 k (release j >>= f) := by
  intro hp hk
  exact hf _ ⟨hk.good, by show hp.live - j = _; rw [hk.live]; omega, hk.suf⟩

/-- `malloc`: the continuation of a NULL result must be an error return -/
theorem Spec.malloc_bind {k : Nat} {site : Site} {f : Bool → AM β} {Q : β → Nat → Prop}
    (ht : Spec o b f0 (k + 1) (f true) Q) (hff : SpecF o b f0 k (f false)) :
    Spec o b f0 k (malloc o site >>= f) Q := by
  intro hp hk
  rw [bind_apply]
  unfold malloc
  by_cases ho : o hp.n = true
  · simp only [ho, if_true]
    have h1 := hff { hp with n := hp.n + 1, failed := site :: hp.failed }
      ⟨by show (site :: hp.failed).length = countFails o (hp.n + 1)
          rw [countFails_succ, ho]; simp [hk.good.symm],
       hk.live, ⟨[site], by simp [hk.same]⟩⟩
    cases hm : f false { hp with n := hp.n + 1, failed := site :: hp.failed } with
    | ok a hp' => rw [hm] at h1; exact h1.elim
    | fail h hp' => rw [hm] at h1; exact h1
    | fault w => trivial
  · simp only [ho]
    exact ht { hp with n := hp.n + 1, live := hp.live + 1 }
      ⟨by show hp.failed.length = countFails o (hp.n + 1)
          rw [countFails_succ]; simp [ho, hk.good.symm],
       by show hp.live + 1 = _; rw [hk.live]; omega, hk.same⟩

/-- `realloc` of the header object: the block count is unchanged -/
theorem Spec.realloc_bind {k : Nat} {site : Site} {f : Bool → AM β} {Q : β → Nat → Prop}
    (ht : Spec o b f0 k (f true) Q) (hff : SpecF o b f0 k (f false)) :
    Spec o b f0 k (realloc o site >>= f) Q := by
  intro hp hk
  rw [bind_apply]
  unfold realloc
  by_cases ho : o hp.n = true
  · simp only [ho, if_true]
    have h1 := hff { hp with n := hp.n + 1, failed := site :: hp.failed }
      ⟨by show (site :: hp.failed).length = countFails o (hp.n + 1)
          rw [countFails_succ, ho]; simp [hk.good.symm],
       hk.live, ⟨[site], by simp [hk.same]⟩⟩
    cases hm : f false { hp with n := hp.n + 1, failed := site :: hp.failed } with
    | ok a hp' => rw [hm] at h1; exact h1.elim
    | fail h hp' => rw [hm] at h1; exact h1
    | fault w => trivial
  · simp only [ho]
    exact ht { hp with n := hp.n + 1 }
      ⟨by show hp.failed.length = countFails o (hp.n + 1)
          rw [countFails_succ]; simp [ho, hk.good.symm],
       hk.live, hk.same⟩

/-- `free` of `j` of the `k` blocks -/
theorem Spec.release_bind {k j : Nat} {f : Unit → AM β} {Q : β → Nat → Prop} (hj : j ≤ k)
    (hf : Spec o b f0 (k - j) (f ()) Q) : Spec o b f0 k (release j >>= f) Q := by
  intro hp hk
  exact hf _ ⟨hk.good, by show hp.live - j = _; rw [hk.live]; omega, hk.same⟩

end
end LhasaV.Alloc
