import LhasaV.Lemmas.Crc
/-!
CRC-16/ARC detects every error burst of at most 16 bits (data of the same length).

Route:
* the buffer function is GF(2)-linear (`refBuf_xor`, `crc_buf_xor`), so it is enough to show
  that the CRC of a burst pattern from the zero register is non-zero;
* bit-serial view (`serialN`): the register after `n` message bits, bits numbered through the
  byte string, LSB first inside a byte (`refBuf_eq_serialN`);
* the register of the bit-serial form is `bitStep^16` of the register of the "non-augmented"
  shift register `nserialN` (message bits enter at bit 15, `T16_nserialN`); `bitStep` is
  injective (`bitStep_eq_zero`);
* in the non-augmented register the first set bit of the burst enters at bit 15 and moves down
  one place per step; during the next 15 steps nothing below it is set, so there is no feedback
  and the bit is still there (`nserial_burst`); after that only zero bits follow and
  injectivity keeps the register non-zero.
-/
namespace LhasaV.CrcBurst
open LhasaV.Spec.Crc

/-- byte-wise xor of two equally long byte strings -/
def xorBytes (a e : List UInt8) : List UInt8 := List.zipWith (· ^^^ ·) a e

/-- Bit `i` of a byte string, numbered the way the CRC consumes the bits: byte 0 first, within a
byte LSB first.  Positions beyond the end read as `false`. -/
def bitAt (e : List UInt8) (i : Nat) : Bool := (e.getD (i / 8) 0).toBitVec.getLsbD (i % 8)

/-- `e` is a non-zero error pattern whose set bits span at most 16 consecutive bit positions:
`first` and `last` are set, `last - first < 16`, every set bit lies in `[first, last]`. -/
def IsBurst16 (e : List UInt8) : Prop :=
  ∃ first last, first ≤ last ∧ last < first + 16 ∧ bitAt e first = true ∧ bitAt e last = true ∧
    ∀ i, bitAt e i = true → first ≤ i ∧ i ≤ last

/-! ### Linearity of the buffer function -/

theorem refStep_xor (c₁ c₂ : BitVec 16) (a e : BitVec 8) :
    refStep (c₁ ^^^ c₂) (a ^^^ e) = refStep c₁ a ^^^ refStep c₂ e := by
  unfold refStep
  rw [← Crc.bit8_xor]
  congr 1
  ext i hi
  simp
  cases c₁[i] <;> cases c₂[i] <;> cases a.getLsbD i <;> cases e.getLsbD i <;> simp

theorem refBuf_xor2 (c₁ c₂ : BitVec 16) (a e : List UInt8) (hlen : e.length = a.length) :
    refBuf (c₁ ^^^ c₂) (xorBytes a e) = refBuf c₁ a ^^^ refBuf c₂ e := by
  induction a generalizing c₁ c₂ e with
  | nil =>
    cases e with
    | nil => rfl
    | cons _ _ => simp at hlen
  | cons x xs ih =>
    cases e with
    | nil => simp at hlen
    | cons y ys =>
      have hl : ys.length = xs.length := by simpa using hlen
      have := ih (refStep c₁ x.toBitVec) (refStep c₂ y.toBitVec) ys hl
      simp only [refBuf, xorBytes, List.zipWith_cons_cons, List.foldl_cons, UInt8.toBitVec_xor,
        refStep_xor] at this ⊢
      exact this

/-- The reference CRC is linear: an error pattern `e` changes the CRC by the CRC of `e` from 0. -/
theorem refBuf_xor (c : BitVec 16) (a e : List UInt8) (hlen : e.length = a.length) :
    refBuf c (xorBytes a e) = refBuf c a ^^^ refBuf 0 e := by
  have := refBuf_xor2 c 0 a e hlen
  simpa using this

theorem buf_eq_ref (c : BitVec 16) (bs : List UInt8) : Crc.buf c bs = refBuf c bs := by
  unfold Crc.buf refBuf
  induction bs generalizing c with
  | nil => rfl
  | cons b bs ih => simp [List.foldl, Crc.step_eq_ref]

/-- Linearity of the modelled routine `lha_crc16_buf`. -/
theorem crc_buf_xor (c : BitVec 16) (a e : List UInt8) (hlen : e.length = a.length) :
    Crc.buf c (xorBytes a e) = Crc.buf c a ^^^ Crc.buf 0 e := by
  simp only [buf_eq_ref]; exact refBuf_xor c a e hlen

/-! ### `bitStep` is injective -/

theorem bitStep_eq_zero (z : BitVec 16) (h : bitStep z = 0) : z = 0 := by
  unfold bitStep at h
  split at h
  · have := congrArg (fun v => v.getLsbD 15) h
    simp at this
  · rename_i h0
    ext i hi
    have := congrArg (fun v => v.getLsbD (i - 1)) h
    simp at this
    by_cases hz : i = 0
    · subst hz; simpa using h0
    · have e : 1 + (i - 1) = i := by omega
      rw [e] at this
      simpa [BitVec.getLsbD_eq_getElem hi] using this

theorem bitStep_injective (x y : BitVec 16) (h : bitStep x = bitStep y) : x = y := by
  have : bitStep (x ^^^ y) = 0 := by rw [Crc.bitStep_xor, h]; simp
  have := bitStep_eq_zero _ this
  exact BitVec.xor_eq_zero_iff.mp this

theorem bitStep_zero : bitStep 0 = 0 := by decide

theorem bit8_eq_zero (z : BitVec 16) (h : bit8 z = 0) : z = 0 := by
  unfold bit8 at h
  repeat (replace h := bitStep_eq_zero _ h)
  exact h

/-- 16 zero-bit steps. -/
def T16 (c : BitVec 16) : BitVec 16 := bit8 (bit8 c)

theorem T16_eq_zero (z : BitVec 16) (h : T16 z = 0) : z = 0 :=
  bit8_eq_zero _ (bit8_eq_zero _ h)

theorem T16_zero : T16 0 = 0 := by decide +kernel

theorem T16_xor (x y : BitVec 16) : T16 (x ^^^ y) = T16 x ^^^ T16 y := by
  simp only [T16, Crc.bit8_xor]

theorem T16_bitStep (x : BitVec 16) : T16 (bitStep x) = bitStep (T16 x) := by
  simp only [T16, bit8]

/-! ### Bit-serial form -/

/-- Feed one message bit (xor into bit 0, then one `bitStep`). -/
def sStep (c : BitVec 16) (b : Bool) : BitVec 16 := bitStep (c ^^^ (if b then 1#16 else 0#16))

/-- The register after the first `n` bits of the bit stream `f`, starting from `c`. -/
def serialN (f : Nat → Bool) : Nat → BitVec 16 → BitVec 16
  | 0, c => c
  | n + 1, c => sStep (serialN f n c) (f n)

theorem serialN_add (f : Nat → Bool) (m n : Nat) (c : BitVec 16) :
    serialN f (m + n) c = serialN (fun i => f (m + i)) n (serialN f m c) := by
  induction n with
  | zero => rfl
  | succ n ih =>
    show sStep (serialN f (m + n) c) (f (m + n)) = _
    rw [ih]; rfl

theorem sStep_xor_left (x y : BitVec 16) (b : Bool) :
    sStep (x ^^^ y) b = bitStep x ^^^ sStep y b := by
  simp only [sStep, BitVec.xor_assoc, Crc.bitStep_xor]

/-- the eight bits of a byte, LSB first -/
def serial8 (c : BitVec 16) (b : BitVec 8) : BitVec 16 :=
  sStep (sStep (sStep (sStep (sStep (sStep (sStep (sStep c (b.getLsbD 0)) (b.getLsbD 1))
    (b.getLsbD 2)) (b.getLsbD 3)) (b.getLsbD 4)) (b.getLsbD 5)) (b.getLsbD 6)) (b.getLsbD 7)

theorem serial8_xor_left (x y : BitVec 16) (b : BitVec 8) :
    serial8 (x ^^^ y) b = bit8 x ^^^ serial8 y b := by
  simp only [serial8, sStep_xor_left, bit8]

theorem serial8_zero : ∀ b : BitVec 8, serial8 0 b = bit8 (b.zeroExtend 16) := by
  decide +kernel

theorem serial8_eq (c : BitVec 16) (b : BitVec 8) : serial8 c b = refStep c b := by
  have h : serial8 c b = bit8 c ^^^ serial8 0 b := by
    have := serial8_xor_left c 0 b
    simpa using this
  rw [h, serial8_zero, refStep, Crc.bit8_xor]

theorem bitAt_cons_lt (b : UInt8) (bs : List UInt8) (j : Nat) (hj : j < 8) :
    bitAt (b :: bs) j = b.toBitVec.getLsbD j := by
  have h1 : j / 8 = 0 := by omega
  have h2 : j % 8 = j := by omega
  simp [bitAt, h1, h2]

theorem bitAt_cons_add (b : UInt8) (bs : List UInt8) (i : Nat) :
    bitAt (b :: bs) (8 + i) = bitAt bs i := by
  have h1 : (8 + i) / 8 = i / 8 + 1 := by omega
  have h2 : (8 + i) % 8 = i % 8 := by omega
  simp [bitAt, h1, h2]

theorem serialN_cons8 (b : UInt8) (bs : List UInt8) (c : BitVec 16) :
    serialN (bitAt (b :: bs)) 8 c = refStep c b.toBitVec := by
  rw [← serial8_eq]
  simp only [serialN, serial8]
  rw [bitAt_cons_lt _ _ 0 (by omega), bitAt_cons_lt _ _ 1 (by omega),
    bitAt_cons_lt _ _ 2 (by omega), bitAt_cons_lt _ _ 3 (by omega),
    bitAt_cons_lt _ _ 4 (by omega), bitAt_cons_lt _ _ 5 (by omega),
    bitAt_cons_lt _ _ 6 (by omega), bitAt_cons_lt _ _ 7 (by omega)]

/-- The byte-wise reference CRC is the bit-serial register after `8 * length` bits. -/
theorem refBuf_eq_serialN (c : BitVec 16) (bs : List UInt8) :
    refBuf c bs = serialN (bitAt bs) (8 * bs.length) c := by
  induction bs generalizing c with
  | nil => rfl
  | cons b bs ih =>
    have e : 8 * (b :: bs).length = 8 + 8 * bs.length := by simp; omega
    rw [e, serialN_add, serialN_cons8]
    have : (fun i => bitAt (b :: bs) (8 + i)) = bitAt bs := by
      funext i; exact bitAt_cons_add b bs i
    rw [this, ← ih]
    rfl

/-! ### The non-augmented shift register -/

/-- message bit enters at bit 15 -/
def nStep (c : BitVec 16) (b : Bool) : BitVec 16 := bitStep c ^^^ (if b then 0x8000#16 else 0#16)

def nserialN (f : Nat → Bool) : Nat → BitVec 16 → BitVec 16
  | 0, c => c
  | n + 1, c => nStep (nserialN f n c) (f n)

theorem T16_nStep (c : BitVec 16) (b : Bool) : T16 (nStep c b) = sStep (T16 c) b := by
  unfold nStep sStep
  rw [T16_xor, Crc.bitStep_xor, T16_bitStep]
  congr 1
  cases b <;> decide +kernel

theorem T16_nserialN (f : Nat → Bool) (n : Nat) (c : BitVec 16) :
    T16 (nserialN f n c) = serialN f n (T16 c) := by
  induction n with
  | zero => rfl
  | succ n ih => simp only [nserialN, serialN, T16_nStep, ih]

theorem nStep_false (c : BitVec 16) : nStep c false = bitStep c := by
  simp [nStep]

/-- no feedback when bit 0 is clear: bits below 15 just move down -/
theorem nStep_low (c : BitVec 16) (b : Bool) (h0 : c.getLsbD 0 = false) (j : Nat) (hj : j < 15) :
    (nStep c b).getLsbD j = c.getLsbD (j + 1) := by
  unfold nStep bitStep
  simp only [h0]
  have hne : (0x8000#16).getLsbD j = false := by
    have : ∀ j : Fin 15, (0x8000#16).getLsbD j.val = false := by decide
    exact this ⟨j, hj⟩
  cases b <;> simp [hne, Nat.add_comm]

section burst
variable (f : Nat → Bool) (first : Nat)
  (hfirst : f first = true) (hlow : ∀ i, i < first → f i = false)
  (hhigh : ∀ i, first + 16 ≤ i → f i = false)

include hlow in
theorem nserial_lead (n : Nat) (hn : n ≤ first) : nserialN f n 0 = 0 := by
  induction n with
  | zero => rfl
  | succ n ih =>
    rw [nserialN, ih (by omega), hlow n (by omega), nStep_false, bitStep_zero]

include hfirst hlow in
/-- `k` steps after the first set bit (`k ≤ 15`): bit `15 - k` is set, everything below is clear -/
theorem nserial_burst (k : Nat) (hk : k ≤ 15) :
    (nserialN f (first + 1 + k) 0).getLsbD (15 - k) = true ∧
    ∀ j, j < 15 - k → (nserialN f (first + 1 + k) 0).getLsbD j = false := by
  induction k with
  | zero =>
    have : nserialN f (first + 1) 0 = 0x8000#16 := by
      rw [nserialN, nserial_lead f first hlow first (Nat.le_refl _), hfirst]; decide
    rw [Nat.add_zero, this]
    refine ⟨by decide, ?_⟩
    intro j hj
    have : ∀ j : Fin 15, (0x8000#16).getLsbD j.val = false := by decide
    exact this ⟨j, hj⟩
  | succ k ih =>
    obtain ⟨hset, hclr⟩ := ih (by omega)
    have h0 : (nserialN f (first + 1 + k) 0).getLsbD 0 = false := hclr 0 (by omega)
    have e : first + 1 + (k + 1) = (first + 1 + k) + 1 := by omega
    rw [e, nserialN]
    refine ⟨?_, ?_⟩
    · rw [nStep_low _ _ h0 _ (by omega)]
      have : 15 - (k + 1) + 1 = 15 - k := by omega
      rw [this]; exact hset
    · intro j hj
      rw [nStep_low _ _ h0 _ (by omega)]
      exact hclr (j + 1) (by omega)

include hfirst hlow hhigh in
theorem nserial_tail (m : Nat) : nserialN f (first + 16 + m) 0 ≠ 0 := by
  induction m with
  | zero =>
    have h := (nserial_burst f first hfirst hlow 15 (Nat.le_refl _)).1
    intro hz
    have e : first + 16 + 0 = first + 1 + 15 := by omega
    rw [e] at hz
    rw [hz] at h
    simp at h
  | succ m ih =>
    intro hz
    have e : first + 16 + (m + 1) = (first + 16 + m) + 1 := by omega
    rw [e, nserialN, hhigh _ (by omega), nStep_false] at hz
    exact ih (bitStep_eq_zero _ hz)

include hfirst hlow hhigh in
theorem nserial_ne_zero (n : Nat) (hn : first < n) : nserialN f n 0 ≠ 0 := by
  by_cases h : n < first + 16
  · obtain ⟨k, rfl⟩ : ∃ k, n = first + 1 + k := ⟨n - first - 1, by omega⟩
    have h := (nserial_burst f first hfirst hlow k (by omega)).1
    intro hz
    rw [hz] at h
    simp at h
  · obtain ⟨m, rfl⟩ : ∃ m, n = first + 16 + m := ⟨n - first - 16, by omega⟩
    exact nserial_tail f first hfirst hlow hhigh m

include hfirst hlow hhigh in
/-- Bit-serial form of the burst theorem: a bit stream whose set bits start at `first` and all lie
in `[first, first + 16)` leaves a non-zero register at every point after `first`. -/
theorem serial_burst_ne_zero (n : Nat) (hn : first < n) : serialN f n 0 ≠ 0 := by
  intro hz
  have h := T16_nserialN f n 0
  rw [T16_zero, hz] at h
  exact nserial_ne_zero f first hfirst hlow hhigh n hn (T16_eq_zero _ h)

end burst

/-! ### Assembly -/

theorem bitAt_of_ge (e : List UInt8) (i : Nat) (h : 8 * e.length ≤ i) : bitAt e i = false := by
  have : e.length ≤ i / 8 := by omega
  simp [bitAt, List.getD_eq_getElem?_getD, List.getElem?_eq_none this]

/-- What the proof really uses: some bit `first` is set and every set bit lies in the 16-bit window
`[first, first + 16)`. -/
def InWindow16 (e : List UInt8) : Prop :=
  ∃ first, bitAt e first = true ∧ ∀ i, bitAt e i = true → first ≤ i ∧ i < first + 16

theorem IsBurst16.inWindow {e : List UInt8} (hb : IsBurst16 e) : InWindow16 e := by
  obtain ⟨first, last, _, hspan, hf, _, hall⟩ := hb
  exact ⟨first, hf, fun i hi => by have := hall i hi; omega⟩

/-- Conversely a windowed pattern is a burst (take the largest set bit as `last`). -/
theorem InWindow16.isBurst {e : List UInt8} (hw : InWindow16 e) : IsBurst16 e := by
  obtain ⟨first, hf, hall⟩ := hw
  -- the largest set position below `first + k`
  have key : ∀ k, ∃ last, first ≤ last ∧ bitAt e last = true ∧
      ∀ i, i < first + 1 + k → bitAt e i = true → i ≤ last := by
    intro k
    induction k with
    | zero => exact ⟨first, Nat.le_refl _, hf, fun i hi _ => by omega⟩
    | succ k ih =>
      obtain ⟨last, h1, h2, h3⟩ := ih
      cases hk : bitAt e (first + 1 + k) with
      | true =>
        exact ⟨first + 1 + k, by omega, hk, fun i hi _ => by omega⟩
      | false =>
        refine ⟨last, h1, h2, fun i hi hb => ?_⟩
        by_cases hik : i = first + 1 + k
        · rw [hik, hk] at hb; cases hb
        · exact h3 i (by omega) hb
  obtain ⟨last, h1, h2, h3⟩ := key 15
  have hl := (hall last h2).2
  exact ⟨first, last, h1, hl, hf, h2, fun i hi => ⟨(hall i hi).1, h3 i (by have := (hall i hi).2; omega) hi⟩⟩

/-- The CRC-16/ARC of a windowed pattern (from the zero register) is non-zero. -/
theorem refBuf_window_ne_zero (e : List UInt8) (hw : InWindow16 e) : refBuf 0 e ≠ 0 := by
  obtain ⟨first, hf, hall⟩ := hw
  rw [refBuf_eq_serialN]
  apply serial_burst_ne_zero (bitAt e) first hf
  · intro i hi
    cases h : bitAt e i with
    | false => rfl
    | true => have := (hall i h).1; omega
  · intro i hi
    cases h : bitAt e i with
    | false => rfl
    | true => have := (hall i h).2; omega
  · by_cases h : first < 8 * e.length
    · exact h
    · rw [bitAt_of_ge e first (by omega)] at hf; cases hf

/-- The CRC-16/ARC of a burst pattern (from the zero register) is non-zero. -/
theorem refBuf_burst_ne_zero (e : List UInt8) (hb : IsBurst16 e) : refBuf 0 e ≠ 0 :=
  refBuf_window_ne_zero e hb.inWindow

theorem refBuf_burst (c : BitVec 16) (data e : List UInt8) (hlen : e.length = data.length)
    (hb : IsBurst16 e) : refBuf c (xorBytes data e) ≠ refBuf c data := by
  rw [refBuf_xor c data e hlen]
  intro h
  apply refBuf_burst_ne_zero e hb
  generalize refBuf c data = x at h
  generalize refBuf 0 e = y at h
  have : x ^^^ (x ^^^ y) = x ^^^ x := congrArg (x ^^^ ·) h
  simpa [← BitVec.xor_assoc] using this

/-- **C07, burst part.**  `lha_crc16_buf` detects every error burst of at most 16 bits: corrupting
`data` by a non-zero pattern whose set bits span at most 16 consecutive bit positions always
changes the CRC, whatever the start value. -/
theorem crc16_burst (c : BitVec 16) (data e : List UInt8) (hlen : e.length = data.length)
    (hb : IsBurst16 e) : Crc.buf c (xorBytes data e) ≠ Crc.buf c data := by
  simp only [buf_eq_ref]; exact refBuf_burst c data e hlen hb

/-- A pattern with exactly one set bit is a burst. -/
theorem isBurst16_single (e : List UInt8) (p : Nat) (hp : bitAt e p = true)
    (honly : ∀ i, bitAt e i = true → i = p) : IsBurst16 e :=
  ⟨p, p, Nat.le_refl _, by omega, hp, hp, fun i hi => by have := honly i hi; omega⟩

/-- A one-bit flip always changes the CRC. -/
theorem single_bit_detected (c : BitVec 16) (data e : List UInt8) (hlen : e.length = data.length)
    (p : Nat) (hp : bitAt e p = true) (honly : ∀ i, bitAt e i = true → i = p) :
    Crc.buf c (xorBytes data e) ≠ Crc.buf c data :=
  crc16_burst c data e hlen (isBurst16_single e p hp honly)

/-! ### Non-vacuity and sharpness -/

/-- A 16-bit burst straddling three bytes of a 5-byte message: first set bit 13 (byte 1, bit 5),
last set bit 28 (byte 3, bit 4). -/
example : IsBurst16 [0x00, 0xA0, 0xA5, 0x1B, 0x00] := by
  refine ⟨13, 28, by omega, by omega, by decide, by decide, fun i hi => ?_⟩
  by_cases h : i < 40
  · have : ∀ j : Fin 40, bitAt [0x00, 0xA0, 0xA5, 0x1B, 0x00] j.val = true →
        13 ≤ j.val ∧ j.val ≤ 28 := by decide
    exact this ⟨i, h⟩ hi
  · rw [bitAt_of_ge _ i (by simp; omega)] at hi; cases hi

/-- the two CRCs of that instance really differ (start value 0x1234, message "LHA5!") -/
example : Crc.buf 0x1234 (xorBytes [0x4c, 0x48, 0x41, 0x35, 0x21] [0x00, 0xA0, 0xA5, 0x1B, 0x00])
      = 0x5d0d#16 ∧ Crc.buf 0x1234 [0x4c, 0x48, 0x41, 0x35, 0x21] = 0x8e35#16 := by decide

/-- 16 is sharp: the 17-bit burst that spells the generator polynomial x^16 + x^15 + x^2 + 1
(bits 0, 1, 14, 16) is not detected. -/
example (c : BitVec 16) (data : List UInt8) (hlen : data.length = 3) :
    Crc.buf c (xorBytes data [0x03, 0x40, 0x01]) = Crc.buf c data := by
  rw [crc_buf_xor c data [0x03, 0x40, 0x01] (by simp [hlen])]
  have : Crc.buf 0 [0x03, 0x40, 0x01] = 0 := by decide
  rw [this]; simp

end LhasaV.CrcBurst
