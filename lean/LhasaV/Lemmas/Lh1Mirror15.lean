import LhasaV.Lemmas.Lh1Mirror14
import LhasaV.Model.Wrap
import LhasaV.Lemmas.Wrap
/-!
# C02, layer 15: the round trip — `lha_lh1_read` on `Lzhuf.encode cmds`
-/
namespace LhasaV.Lh1Mirror
open LhasaV LhasaV.Lh1 LhasaV.Spec.Lzhuf LhasaV.Spec.Lz77 LhasaV.Res LhasaV.LzRoundTrip
open LhasaV.LhNewCmd LhasaV.LhNewRT

/-! ## `Putcode`'s byte assembly is `packBits` -/

theorem valOf_replicate_false (k : Nat) : Bits.valOf (List.replicate k false) = 0 := by
  induction k with
  | zero => rfl
  | succ k ih => rw [List.replicate_succ, Bits.valOf_cons, ih]; simp

theorem packBits_nil : packBits [] = [] := by rw [packBits]; simp

theorem packBits_short (p : List Bool) (h0 : p ≠ []) (hl : p.length < 8) :
    packBits p = [UInt8.ofNat (Bits.valOf p * 2 ^ (8 - p.length))] := by
  rw [packBits, dif_neg h0]
  have ht : p.take 8 = p := List.take_of_length_le (by omega)
  have hd : p.drop 8 = [] := List.drop_eq_nil_of_le (by omega)
  rw [ht, hd, packBits_nil]
  have hv : (p ++ List.replicate (8 - p.length) false).foldl
      (fun v b => 2 * v + (if b then 1 else 0)) 0 = Bits.valOf p * 2 ^ (8 - p.length) := by
    show Bits.valOf (p ++ List.replicate (8 - p.length) false) = _
    rw [Bits.valOf_append, valOf_replicate_false]
    simp
  rw [hv]

theorem packBits_full (a bs : List Bool) (ha : a.length = 8) :
    packBits (a ++ bs) = UInt8.ofNat (Bits.valOf a) :: packBits bs := by
  have hne : a ++ bs ≠ [] := by
    intro e
    have := congrArg List.length e
    rw [List.length_append, List.length_nil] at this
    omega
  rw [packBits, dif_neg hne]
  have ht : (a ++ bs).take 8 = a := by
    rw [List.take_append_of_le_length (by omega), List.take_of_length_le (by omega)]
  have hd : (a ++ bs).drop 8 = bs := by
    rw [List.drop_append_of_le_length (by omega), List.drop_of_length_le (by omega)]
    rfl
  rw [ht, hd]
  have h0 : 8 - a.length = 0 := by omega
  rw [h0]
  simp only [List.replicate_zero, List.append_nil]
  rfl

theorem packGo_spec (bs : List Bool) : ∀ (pend : List Bool) (out : Array UInt8), pend.length < 8 →
    (packGo bs (Bits.valOf pend) pend.length out).toList = out.toList ++ packBits (pend ++ bs) := by
  induction bs with
  | nil =>
    intro pend out hp
    rw [packGo, List.append_nil]
    by_cases h0 : pend = []
    · subst h0
      rw [packBits_nil]
      simp
    · have hl : 0 < pend.length := List.length_pos_iff.mpr h0
      rw [if_neg (by omega), packBits_short pend h0 hp]
      simp
  | cons b bs ih =>
    intro pend out hp
    rw [packGo]
    have hcur : 2 * Bits.valOf pend + (if b then 1 else 0) = Bits.valOf (pend ++ [b]) := by
      rw [Bits.valOf_append]
      simp only [List.length_singleton, Nat.pow_one, Bits.valOf, List.foldl_cons, List.foldl_nil]
      omega
    simp only [hcur]
    have hlen : (pend ++ [b]).length = pend.length + 1 := by simp
    have e1 : pend ++ b :: bs = (pend ++ [b]) ++ bs := by simp
    by_cases h8 : pend.length + 1 = 8
    · rw [if_pos h8]
      have := ih [] (out.push (UInt8.ofNat (Bits.valOf (pend ++ [b])))) (by simp)
      rw [Bits.valOf_nil, List.length_nil, List.nil_append] at this
      rw [this, e1, packBits_full (pend ++ [b]) bs (by omega)]
      simp
    · rw [if_neg h8]
      have := ih (pend ++ [b]) out (by omega)
      rw [hlen] at this
      rw [this, e1]

theorem pack_eq_packBits (bs : List Bool) : pack bs = packBits bs := by
  unfold pack
  have := packGo_spec bs [] #[] (by simp)
  rw [Bits.valOf_nil, List.length_nil] at this
  rw [this]
  simp

/-! ## the bit string of a command list -/

/-- the bits `Encode` writes for the commands `cs`, starting in tree state `z` -/
def cmdsBits : TreeState → List WCmd → List Bool
  | _, [] => []
  | z, c :: cs => cmdBitsZ z c ++ cmdsBits (update z (symOf c)) cs

theorem encodeGo_spec (cs : List WCmd) : ∀ (z : TreeState) (acc : Array Bool),
    (encodeGo cs z acc).toList = acc.toList ++ cmdsBits z cs := by
  induction cs with
  | nil => intro z acc; simp [encodeGo, cmdsBits]
  | cons c cs ih =>
    intro z acc
    rw [encodeGo, ih, cmdsBits]
    cases c with
    | lit b => simp [encodeCmd, cmdBitsZ, symOf]
    | copy d len => simp [encodeCmd, cmdBitsZ, symOf]

theorem encodeBits_eq (cs : List WCmd) : encodeBits cs = cmdsBits startHuff cs := by
  unfold encodeBits
  rw [encodeGo_spec]
  simp

/-! ## the command loop -/

theorem avail_zero {σ : Type} (rd : σ → List Byte × σ) (s : σ) : Wrap.avail rd 0 s = [] := by
  rw [Wrap.avail]; simp

theorem dec_read_ok (s s' : St) (o : List UInt8) (h : Lh1.read s = .ok (o, s')) :
    Lh1.dec.read (.ok s) = .ok (o, .ok s') := by
  show (Lh1.read s >>= fun r => Res.ok (r.1, Res.ok r.2)) = _
  rw [h]
  rfl

/-- the decoder's output stream on the bits of `cs` (followed by anything), up to the length of
what `cs` denotes -/
theorem avail_cmds (cs : List WCmd) : ∀ (s : St) (z : TreeState) (out : List UInt8) (pad : List Bool)
    (m : Nat), RT s z out → (∀ c ∈ cs, valid c = true) →
    Bits.stream s.bits = cmdsBits z cs ++ pad → m ≤ (tailFrom cs out).length →
    Wrap.avail (Dec.total Lh1.dec) m (.ok (.ok s)) = (tailFrom cs out).take m := by
  induction cs with
  | nil =>
    intro s z out pad m _ _ _ hm
    rw [tailFrom_nil] at hm ⊢
    have : m = 0 := by simpa using hm
    subst this
    rw [avail_zero]
    rfl
  | cons c cs ih =>
    intro s z out pad m h hv hs hm
    have hv' : ∀ c' ∈ cs, valid c' = true := fun c' hc' => hv c' (List.mem_cons_of_mem _ hc')
    rw [cmdsBits, List.append_assoc] at hs
    cases c with
    | lit b =>
      obtain ⟨s', e1, h', hs'⟩ := read_lit s z out h b _ hs
      rw [tailFrom_lit] at hm ⊢
      refine avail_step_spec Lh1.dec (.ok s) (.ok s') [b] _ m (dec_read_ok s s' _ e1) (by simp) ?_
      exact ih s' _ _ pad _ h' hv' hs' (by simp at hm ⊢; omega)
    | copy d len =>
      have hvc := hv (.copy d len) (List.mem_cons_self ..)
      obtain ⟨s', new, e1, hl, hcw, h', hs'⟩ := read_copy s z out h d len hvc _ hs
      rw [tailFrom_copy d len cs out new hcw] at hm ⊢
      have hl3 : 3 ≤ len := by
        simp only [valid, Bool.and_eq_true, decide_eq_true_eq] at hvc
        exact hvc.1.1
      refine avail_step_spec Lh1.dec (.ok s) (.ok s') new _ m (dec_read_ok s s' _ e1)
        (by intro e; rw [e] at hl; simp at hl; omega) ?_
      exact ih s' _ _ pad _ h' hv' hs' (by simp at hm ⊢; omega)

/-! ## the theorems -/

theorem rt_init (src : Src) (hz : src.zeroFill = false) (hp : src.pos ≤ src.data.size)
    (he : src.extra = 0) (hd : src.dead = false) :
    ∃ s, Lh1.init src = .ok s ∧ RT s startHuff [] ∧ s.bits = { src := src } := by
  obtain ⟨s, e, hi, ht, hln, hb, hr, hpz, ho1, ho2⟩ := init_shape src
  refine ⟨s, e, ⟨hi, ⟨startHuff_shape.wf, mirF_of_shapes ht hln startHuff_shape⟩, ?_, ?_, ho1, ho2⟩, hb⟩
  · rw [hb]; exact Bits.inv_init src hz hp he hd
  · rw [hr, hpz]
    exact winRel_init 4096 Gen.lh1RingCap 0x20 (by omega) (by simp [Gen.lh1RingCap])

/-- **Round trip, inner stream.**  The decoder run on `Lzhuf.encode cmds` (any chunking `c` of the
input callback) delivers the bytes `cmds` denote: its first `m` output bytes are the first `m`
bytes of `expandWin 0x20 cmds`, for every `m` up to the length of the expansion.  (Beyond that
length the up to seven padding bits of the last byte may decode to further symbols; LHA stops
at the length recorded in the archive header.) -/
theorem lh1_round_trip (cmds : List WCmd) (hv : ∀ c ∈ cmds, valid c = true) (m c : Nat)
    (hm : m ≤ (expandWin 0x20 cmds).length) :
    Wrap.avail (Dec.total Lh1.dec) m
        (.ok (Lh1.dec.init { data := (encode cmds).toArray, chunk := c }))
      = (expandWin 0x20 cmds).take m := by
  obtain ⟨s, e, hrt, hb⟩ := rt_init { data := (encode cmds).toArray, chunk := c } rfl
    (Nat.zero_le _) rfl rfl
  have e' : Lh1.dec.init { data := (encode cmds).toArray, chunk := c } = .ok s := e
  rw [e']
  obtain ⟨k, hk, ek⟩ := packBits_stream (encodeBits cmds)
  have hs : Bits.stream s.bits = cmdsBits startHuff cmds ++ List.replicate k false := by
    rw [hb, ← encodeBits_eq, ← ek, Bits.stream_init, Bits.rest_eq]
    simp [encode, pack_eq_packBits]
  have hexp : expandWin 0x20 cmds = tailFrom cmds [] := by simp [expandWin, tailFrom]
  rw [hexp] at hm ⊢
  exact avail_cmds cmds s startHuff [] _ m hrt hv hs hm

/-- **Round trip through `lha_decoder_read` (C02).**  For every list of valid LZHUF commands, every
chunking `c` of the input callback, every block size `b`, every read schedule `ks`, and every
declared length `n` not beyond the length of the data, the bytes returned are the expansion of the
commands, cut at `min (Σ ks) n`. -/
theorem lh1_reads (cmds : List WCmd) (hv : ∀ c ∈ cmds, valid c = true) (c n b : Nat) (ks : List Nat)
    (hn : n ≤ (expandWin 0x20 cmds).length) :
    (Wrap.reads (Dec.total Lh1.dec) ks
        { inner := .ok (Lh1.dec.init { data := (encode cmds).toArray, chunk := c }),
          length := n, blockSize := b }).1.1
      = (expandWin 0x20 cmds).take (min ks.sum n) := by
  rw [reads_fresh]
  exact lh1_round_trip cmds hv _ c (Nat.le_trans (Nat.min_le_right _ _) hn)

end LhasaV.Lh1Mirror
