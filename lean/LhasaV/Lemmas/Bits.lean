import LhasaV.Model.Bits
/-!
The bit-stream reader (`LhasaV.Bits`) refines an abstract list of bits.

`stream r` is the list of bits still to come; under `Inv r` and for `n ≤ 25`,
`readBits`/`peek`/`readBit` are `take`/`drop` on that list (`readBits_some`,
`readBits_none`, `peek_some`, `peek_none`, `readBit_some`, `readBit_none`).

The bound 25 is sharp.  With 1 bit buffered a refill asks for 3 bytes, giving 25
bits; the next request is for `(32 - 25) / 8 = 0` bytes, whose empty answer the
reader takes for the end of input:
`((r0.readBits 7).2.readBits 26).1 = none` for
`r0 = { src := { data := #[0xA5, 0x3C, 0xFF, 0x01, 0x80] } }` although 33 bits are left.
(Nothing is lost even then: `fill_spec` keeps `Inv` and `stream` for every `n`.)
-/
namespace LhasaV.Bits

/-! ## Definitions -/

/-- the 8 bits of a byte, most significant first -/
def bitsOfByte (b : UInt8) : List Bool :=
  (List.range 8).map (fun i => (b.toNat / 2 ^ (7 - i)) % 2 = 1)

/-- value of a bit list read most-significant-bit first -/
def valOf (bs : List Bool) : Nat := bs.foldl (fun v b => 2 * v + (if b then 1 else 0)) 0

end LhasaV.Bits

namespace LhasaV

/-- the bytes the source will still deliver (no zero fill) -/
def Src.rest (s : Src) : List UInt8 := (s.data.extract s.pos s.data.size).toList

end LhasaV

namespace LhasaV.Bits

/-- the bits still to come: the `bits` valid bits at the top of the 32-bit buffer,
then the unread bytes -/
def stream (r : Bits) : List Bool :=
  (List.range r.bits).map (fun i => decide ((r.buf / 2 ^ (31 - i)) % 2 = 1))
    ++ (Src.rest r.src).flatMap bitsOfByte

/-- representation invariant of the reader -/
def Inv (r : Bits) : Prop :=
  r.bits ≤ 32 ∧ r.buf < 2 ^ 32 ∧ r.buf % 2 ^ (32 - r.bits) = 0 ∧ r.src.zeroFill = false ∧
    r.src.pos ≤ r.src.data.size ∧ r.src.extra = 0 ∧ r.src.dead = false

/-! ## `valOf` -/

theorem valOf_nil : valOf [] = 0 := rfl

theorem valOf_foldl (bs : List Bool) (v : Nat) :
    bs.foldl (fun v b => 2 * v + (if b then 1 else 0)) v = v * 2 ^ bs.length + valOf bs := by
  induction bs generalizing v with
  | nil => simp [valOf]
  | cons b bs ih =>
    simp only [List.foldl_cons, valOf, List.length_cons]
    rw [ih, ih (2 * 0 + _)]
    simp only [Nat.pow_succ, Nat.add_mul]
    simp only [Nat.mul_zero, Nat.zero_mul, Nat.zero_add, Nat.add_assoc]
    congr 1
    rw [Nat.mul_comm 2 v, Nat.mul_assoc, Nat.mul_comm 2]

theorem valOf_cons (b : Bool) (bs : List Bool) :
    valOf (b :: bs) = (if b then 1 else 0) * 2 ^ bs.length + valOf bs := by
  simp only [valOf, List.foldl_cons]
  rw [valOf_foldl]
  simp [valOf]

theorem valOf_lt (bs : List Bool) : valOf bs < 2 ^ bs.length := by
  induction bs with
  | nil => simp [valOf]
  | cons b bs ih =>
    rw [valOf_cons, List.length_cons, Nat.pow_succ]
    cases b <;> simp <;> omega

theorem valOf_append (bs cs : List Bool) :
    valOf (bs ++ cs) = valOf bs * 2 ^ cs.length + valOf cs := by
  simp only [valOf, List.foldl_append]
  rw [valOf_foldl]
  rfl

theorem valOf_inj {bs cs : List Bool} (hl : bs.length = cs.length) (hv : valOf bs = valOf cs) :
    bs = cs := by
  induction bs generalizing cs with
  | nil =>
    cases cs with
    | nil => rfl
    | cons c cs => simp at hl
  | cons b bs ih =>
    cases cs with
    | nil => simp at hl
    | cons c cs =>
      simp only [List.length_cons, Nat.add_right_cancel_iff] at hl
      rw [valOf_cons, valOf_cons, hl] at hv
      have h1 := valOf_lt bs
      have h2 := valOf_lt cs
      rw [hl] at h1
      have hp : 0 < 2 ^ cs.length := Nat.two_pow_pos _
      cases b <;> cases c <;> simp at hv
      · rw [ih hl hv]
      · omega
      · omega
      · rw [ih hl hv]

/-! ## Buffer bits -/

/-- the top `n` bits of a 32-bit buffer, most significant first -/
def bufBits (buf n : Nat) : List Bool := (List.range n).map (fun i => buf.testBit (31 - i))

@[simp] theorem length_bufBits (buf n : Nat) : (bufBits buf n).length = n := by simp [bufBits]

@[simp] theorem length_bitsOfByte (b : UInt8) : (bitsOfByte b).length = 8 := by simp [bitsOfByte]

theorem bitsOfByte_eq (b : UInt8) :
    bitsOfByte b = (List.range 8).map (fun i => b.toNat.testBit (7 - i)) := by
  simp [bitsOfByte, Nat.testBit_eq_decide_div_mod_eq]

theorem stream_eq (r : Bits) :
    stream r = bufBits r.buf r.bits ++ (Src.rest r.src).flatMap bitsOfByte := by
  simp [stream, bufBits, Nat.testBit_eq_decide_div_mod_eq]

theorem testBit_of_mod_eq_zero {x k j : Nat} (h : x % 2 ^ k = 0) (hj : j < k) :
    x.testBit j = false := by
  have := Nat.testBit_mod_two_pow x k j
  rw [h] at this
  simpa [hj] using this.symm

theorem length_flatMap_bitsOfByte (bs : List UInt8) :
    (bs.flatMap bitsOfByte).length = 8 * bs.length := by
  induction bs with
  | nil => rfl
  | cons b bs ih => simp [List.flatMap_cons, ih]; omega

/-- one step of `push` appends the bits of the byte -/
theorem bufBits_push_one (buf bits : Nat) (b : UInt8) (hb : bits ≤ 24)
    (hm : buf % 2 ^ (32 - bits) = 0) :
    bufBits (buf ||| (b.toNat <<< (24 - bits))) (bits + 8) = bufBits buf bits ++ bitsOfByte b := by
  apply List.ext_getElem
  · simp
  · intro i h1 h2
    simp only [length_bufBits] at h1
    have hb8 : b.toNat < 2 ^ 8 := b.toNat_lt
    simp only [bufBits, bitsOfByte_eq, List.getElem_append, List.getElem_map, List.getElem_range,
      List.length_map, List.length_range, Nat.testBit_or, Nat.testBit_shiftLeft]
    split
    · next hi =>
      have : (b.toNat).testBit (31 - i - (24 - bits)) = false :=
        Nat.testBit_lt_two_pow (Nat.lt_of_lt_of_le hb8 (Nat.pow_le_pow_right (by decide) (by omega)))
      simp [this]
    · next hi =>
      have : buf.testBit (31 - i) = false := testBit_of_mod_eq_zero hm (by omega)
      have h3 : 31 - i ≥ 24 - bits := by omega
      have h4 : 31 - i - (24 - bits) = 7 - (i - bits) := by omega
      simp [this, h3, h4]

theorem push_one_lt (buf bits : Nat) (b : UInt8) (hb : bits ≤ 24) (hlt : buf < 2 ^ 32) :
    buf ||| (b.toNat <<< (24 - bits)) < 2 ^ 32 := by
  apply Nat.or_lt_two_pow hlt
  have hb8 : b.toNat < 2 ^ 8 := b.toNat_lt
  rw [Nat.shiftLeft_eq]
  calc b.toNat * 2 ^ (24 - bits) < 2 ^ 8 * 2 ^ (24 - bits) :=
        Nat.mul_lt_mul_of_pos_right hb8 (Nat.two_pow_pos _)
    _ = 2 ^ (32 - bits) := by rw [← Nat.pow_add]; congr 1; omega
    _ ≤ 2 ^ 32 := Nat.pow_le_pow_right (by decide) (by omega)

theorem push_one_mod (buf bits : Nat) (b : UInt8) (hb : bits ≤ 24)
    (hm : buf % 2 ^ (32 - bits) = 0) :
    (buf ||| (b.toNat <<< (24 - bits))) % 2 ^ (32 - (bits + 8)) = 0 := by
  have e : 32 - (bits + 8) = 24 - bits := by omega
  rw [e, Nat.or_mod_two_pow, Nat.shiftLeft_eq, Nat.mul_mod_left]
  have hd : 2 ^ (24 - bits) ∣ 2 ^ (32 - bits) := Nat.pow_dvd_pow 2 (by omega)
  rw [← Nat.mod_mod_of_dvd buf hd, hm]
  simp

theorem push_spec (bs : List UInt8) (buf bits : Nat) (h : bits + 8 * bs.length ≤ 32)
    (hlt : buf < 2 ^ 32) (hm : buf % 2 ^ (32 - bits) = 0) :
    (push buf bits bs).2 = bits + 8 * bs.length ∧ (push buf bits bs).1 < 2 ^ 32 ∧
    (push buf bits bs).1 % 2 ^ (32 - (bits + 8 * bs.length)) = 0 ∧
    bufBits (push buf bits bs).1 (bits + 8 * bs.length)
      = bufBits buf bits ++ bs.flatMap bitsOfByte := by
  induction bs generalizing buf bits with
  | nil => simp [push, hlt, hm]
  | cons b bs ih =>
    simp only [List.length_cons] at h
    have hb : bits ≤ 24 := by omega
    have ih' := ih (buf ||| (b.toNat <<< (24 - bits))) (bits + 8) (by omega)
      (push_one_lt buf bits b hb hlt) (push_one_mod buf bits b hb hm)
    have e : bits + 8 + 8 * bs.length = bits + 8 * (bs.length + 1) := by omega
    simp only [push, List.length_cons, List.flatMap_cons]
    rw [e] at ih'
    refine ⟨ih'.1, ih'.2.1, ih'.2.2.1, ?_⟩
    rw [ih'.2.2.2, bufBits_push_one buf bits b hb hm, List.append_assoc]

/-! ## The byte source -/

theorem rest_eq (s : Src) : s.rest = s.data.toList.drop s.pos := by
  simp only [Src.rest, Array.toList_extract, List.extract_eq_take_drop]
  apply List.take_of_length_le
  simp

theorem length_rest (s : Src) : s.rest.length = s.remaining := by
  simp [rest_eq, Src.remaining]

theorem grant_le (s : Src) (req : Nat) (he : s.extra = 0) :
    s.grant req ≤ req ∧ s.grant req ≤ s.remaining := by
  unfold Src.grant
  simp only [he, Nat.add_zero]
  split
  · omega
  · split <;> omega

theorem grant_eq_zero (s : Src) (req : Nat) (he : s.extra = 0) (hd : s.dead = false)
    (h : s.grant req = 0) (hr : 0 < req) : s.remaining = 0 := by
  unfold Src.grant at h
  simp only [he, hd, Nat.add_zero, Bool.false_eq_true, if_false] at h
  split at h <;> omega

theorem read_spec (s : Src) (req : Nat) (hz : s.zeroFill = false) (hp : s.pos ≤ s.data.size)
    (he : s.extra = 0) (hd : s.dead = false) :
    ((s.read req).2.zeroFill = false ∧ (s.read req).2.pos ≤ (s.read req).2.data.size ∧
      (s.read req).2.extra = 0 ∧ (s.read req).2.dead = false) ∧
    (s.read req).1.length ≤ req ∧ s.rest = (s.read req).1 ++ (s.read req).2.rest ∧
    ((s.read req).1.length = 0 → 0 < req → s.rest = []) := by
  have hg := grant_le s req he
  have hrem : s.remaining = s.data.size - s.pos := rfl
  have hread : s.read req = ((s.data.extract s.pos (s.pos + s.grant req)).toList,
      { s with pos := s.pos + s.grant req }) := by
    have hng : ¬ s.grant req > s.remaining := by omega
    simp [Src.read, hz, hng]
  rw [hread]
  have hlen : (s.data.extract s.pos (s.pos + s.grant req)).toList.length = s.grant req := by
    simp; omega
  refine ⟨⟨hz, ?_, he, hd⟩, ?_, ?_, ?_⟩
  · show s.pos + s.grant req ≤ s.data.size
    omega
  · rw [hlen]; exact hg.1
  · simp only [rest_eq, Array.toList_extract, List.extract_eq_take_drop]
    rw [Nat.add_sub_cancel_left, ← List.drop_drop, List.take_append_drop]
  · intro h0 hr
    rw [hlen] at h0
    have := grant_eq_zero s req he hd h0 hr
    have hl := length_rest s
    rw [this] at hl
    exact List.eq_nil_of_length_eq_zero hl

/-! ## `fill` -/

theorem fill_spec (r : Bits) (n : Nat) (hi : Inv r) :
    Inv (fill r n).2 ∧ stream (fill r n).2 = stream r ∧
    ((fill r n).1 = true → n ≤ (fill r n).2.bits) ∧
    (n ≤ 25 → (fill r n).1 = false → (fill r n).2.bits < n ∧ (fill r n).2.src.rest = []) := by
  fun_induction fill r n with
  | case1 r h got hg =>
    obtain ⟨hb, hlt, hm, hz, hp, he, hd⟩ := hi
    have hs := read_spec r.src ((32 - r.bits) / 8) hz hp he hd
    have hnil : got.1 = [] := List.eq_nil_of_length_eq_zero hg
    refine ⟨⟨hb, hlt, hm, hs.1⟩, ?_, by simp, ?_⟩
    · simp only [stream_eq]
      rw [hs.2.2.1]
      show _ = _ ++ List.flatMap bitsOfByte (got.1 ++ got.2.rest)
      rw [hnil]; rfl
    · intro hn _
      refine ⟨h, ?_⟩
      have hr : r.src.rest = [] := hs.2.2.2 hg (by omega)
      have := hs.2.2.1
      rw [hr] at this
      show got.2.rest = []
      have h2 : got.1 ++ got.2.rest = [] := this.symm
      exact (List.append_eq_nil_iff.mp h2).2
  | case2 r h got hg p ih =>
    obtain ⟨hb, hlt, hm, hz, hp, he, hd⟩ := hi
    have hs := read_spec r.src ((32 - r.bits) / 8) hz hp he hd
    have hlen : got.1.length ≤ (32 - r.bits) / 8 := hs.2.1
    have hps := push_spec got.1 r.buf r.bits (by omega) hlt hm
    have hinv : Inv { src := got.2, buf := p.1, bits := r.bits + 8 * got.1.length } :=
      ⟨by simp only; omega, hps.2.1, hps.2.2.1, hs.1⟩
    have ih' := ih hinv
    refine ⟨ih'.1, ?_, ih'.2.2.1, ih'.2.2.2⟩
    rw [ih'.2.1]
    simp only [stream_eq]
    rw [hs.2.2.1]
    show bufBits (push r.buf r.bits got.1).1 _ ++ _ = _ ++ List.flatMap bitsOfByte (got.1 ++ got.2.rest)
    rw [hps.2.2.2, List.flatMap_append, List.append_assoc]
  | case3 r h =>
    refine ⟨hi, rfl, ?_, by simp⟩
    intro _
    show n ≤ r.bits
    omega

/-! ## Reading from the buffer -/

theorem valOf_bufBits (buf n : Nat) (hlt : buf < 2 ^ 32) (hn : n ≤ 32) :
    valOf (bufBits buf n) = buf >>> (32 - n) := by
  induction n with
  | zero => simp [bufBits, valOf, Nat.shiftRight_eq_div_pow, Nat.div_eq_of_lt hlt]
  | succ n ih =>
    have e : bufBits buf (n + 1) = bufBits buf n ++ [buf.testBit (31 - n)] := by
      simp [bufBits, List.range_succ]
    have e2 : 32 - n = (31 - n) + 1 := by omega
    have e3 : 32 - (n + 1) = 31 - n := by omega
    rw [e, valOf_append, ih (by omega), e2, e3, Nat.shiftRight_succ,
      Nat.testBit_eq_decide_div_mod_eq, Nat.shiftRight_eq_div_pow]
    simp only [valOf, List.foldl_cons, List.foldl_nil, List.length_cons, List.length_nil]
    generalize buf / 2 ^ (31 - n) = x
    by_cases hx : x % 2 = 1 <;> simp [hx] <;> omega

theorem take_bufBits (buf n bits : Nat) (h : n ≤ bits) :
    (bufBits buf bits).take n = bufBits buf n := by
  simp [bufBits, ← List.map_take, List.take_range, Nat.min_eq_left h]

theorem drop_bufBits (buf n bits : Nat) (h : n ≤ bits) (hb : bits ≤ 32) :
    (bufBits buf bits).drop n = bufBits ((buf <<< n) % 2 ^ 32) (bits - n) := by
  apply List.ext_getElem
  · simp
  · intro i h1 h2
    simp only [length_bufBits] at h2
    have h3 : n ≤ 31 - i := by omega
    have h4 : 31 - i - n = 31 - (n + i) := by omega
    have h5 : 31 - i < 32 := by omega
    simp only [bufBits, List.getElem_drop, List.getElem_map, List.getElem_range,
      Nat.testBit_mod_two_pow, Nat.testBit_shiftLeft]
    simp [h3, h4, h5]

theorem shift_mod (buf n bits : Nat) (h : n ≤ bits) (hb : bits ≤ 32)
    (hm : buf % 2 ^ (32 - bits) = 0) :
    ((buf <<< n) % 2 ^ 32) % 2 ^ (32 - (bits - n)) = 0 := by
  have hd : 2 ^ (32 - (bits - n)) ∣ 2 ^ 32 := Nat.pow_dvd_pow 2 (by omega)
  rw [Nat.mod_mod_of_dvd _ hd, Nat.shiftLeft_eq]
  have e : 32 - (bits - n) = (32 - bits) + n := by omega
  rw [e, Nat.pow_add]
  obtain ⟨c, hc⟩ := Nat.dvd_of_mod_eq_zero hm
  rw [hc, Nat.mul_assoc, Nat.mul_mod_mul_left, Nat.mul_mod_left, Nat.mul_zero]

theorem length_stream (r : Bits) : (stream r).length = r.bits + 8 * r.src.remaining := by
  rw [stream_eq, List.length_append, length_bufBits, length_flatMap_bitsOfByte, length_rest]

theorem take_stream (r : Bits) (n : Nat) (hi : Inv r) (h : n ≤ r.bits) :
    valOf ((stream r).take n) = r.buf >>> (32 - n) := by
  rw [stream_eq, List.take_append_of_le_length (by simpa using h), take_bufBits _ _ _ h,
    valOf_bufBits _ _ hi.2.1 (by have := hi.1; omega)]

/-! ## `peek` -/

theorem peek_aux (r : Bits) (n : Nat) (hi : Inv r) (hn : n ≤ 25) :
    Inv (r.peek n).2 ∧ stream (r.peek n).2 = stream r ∧
    (n ≤ (stream r).length →
      (r.peek n).1 = some ((r.peek n).2.buf >>> (32 - n)) ∧ n ≤ (r.peek n).2.bits) ∧
    ((stream r).length < n → (r.peek n).1 = none) := by
  unfold peek
  by_cases h0 : n = 0
  · subst h0
    simp only [if_true]
    refine ⟨hi, trivial, fun _ => ⟨?_, Nat.zero_le _⟩, fun h => absurd h (Nat.not_lt_zero _)⟩
    simp [Nat.shiftRight_eq_div_pow, Nat.div_eq_of_lt hi.2.1]
  · simp only [if_neg h0]
    have hf := fill_spec r n hi
    cases hb : (fill r n).1 with
    | true =>
      have hbits := hf.2.2.1 hb
      simp only [if_true]
      refine ⟨hf.1, hf.2.1, fun _ => ⟨trivial, hbits⟩, fun h => ?_⟩
      have := length_stream (fill r n).2
      rw [hf.2.1] at this
      omega
    | false =>
      have hx := hf.2.2.2 hn hb
      simp only [Bool.false_eq_true, if_false]
      refine ⟨hf.1, hf.2.1, fun h => ?_, fun _ => trivial⟩
      have := length_stream (fill r n).2
      rw [hf.2.1, ← length_rest, hx.2] at this
      simp at this
      omega

theorem peek_some (r : Bits) (n : Nat) (hi : Inv r) (hn : n ≤ 25) (h : n ≤ (stream r).length) :
    (r.peek n).1 = some (valOf ((stream r).take n)) ∧ Inv (r.peek n).2 ∧
    stream (r.peek n).2 = stream r := by
  have hp := peek_aux r n hi hn
  refine ⟨?_, hp.1, hp.2.1⟩
  rw [(hp.2.2.1 h).1, ← hp.2.1, take_stream _ _ hp.1 (hp.2.2.1 h).2]

theorem peek_none (r : Bits) (n : Nat) (hi : Inv r) (hn : n ≤ 25) (h : (stream r).length < n) :
    (r.peek n).1 = none ∧ Inv (r.peek n).2 ∧ stream (r.peek n).2 = stream r := by
  have hp := peek_aux r n hi hn
  exact ⟨hp.2.2.2 h, hp.1, hp.2.1⟩

/-! ## `readBits` -/

theorem readBits_some (r : Bits) (n : Nat) (hi : Inv r) (hn : n ≤ 25)
    (h : n ≤ (stream r).length) :
    (r.readBits n).1 = some (valOf ((stream r).take n)) ∧ Inv (r.readBits n).2 ∧
    stream (r.readBits n).2 = (stream r).drop n := by
  have hp := peek_aux r n hi hn
  obtain ⟨hinv, hst, hsome, -⟩ := hp
  obtain ⟨hv, hbits⟩ := hsome h
  obtain ⟨hb, hlt, hm, hsrc⟩ := hinv
  have hval := take_stream _ _ ⟨hb, hlt, hm, hsrc⟩ hbits
  rw [hst] at hval
  unfold readBits
  simp only [hv]
  refine ⟨by rw [hval], ⟨?_, ?_, ?_, hsrc⟩, ?_⟩
  · show (r.peek n).2.bits - n ≤ 32
    omega
  · exact Nat.mod_lt _ (by decide)
  · exact shift_mod _ _ _ hbits hb hm
  · rw [← hst]
    simp only [stream_eq]
    rw [List.drop_append_of_le_length (by simpa using hbits), drop_bufBits _ _ _ hbits hb]

theorem readBits_none (r : Bits) (n : Nat) (hi : Inv r) (hn : n ≤ 25)
    (h : (stream r).length < n) :
    (r.readBits n).1 = none ∧ Inv (r.readBits n).2 ∧ stream (r.readBits n).2 = stream r := by
  have hp := peek_none r n hi hn h
  unfold readBits
  simp only [hp.1]
  exact ⟨trivial, hp.2.1, hp.2.2⟩

/-- the outcome of `readBits` is decided by the number of bits left -/
theorem readBits_isSome_iff (r : Bits) (n : Nat) (hi : Inv r) (hn : n ≤ 25) :
    (r.readBits n).1.isSome ↔ n ≤ (stream r).length := by
  by_cases h : n ≤ (stream r).length
  · simp [(readBits_some r n hi hn h).1, h]
  · simp [(readBits_none r n hi hn (by omega)).1, h]

/-- user-facing form: what a successful `readBits` tells -/
theorem readBits_eq_some (r : Bits) (n v : Nat) (hi : Inv r) (hn : n ≤ 25)
    (hv : (r.readBits n).1 = some v) :
    n ≤ (stream r).length ∧ v = valOf ((stream r).take n) ∧ v < 2 ^ n ∧ Inv (r.readBits n).2 ∧
    stream (r.readBits n).2 = (stream r).drop n := by
  have h : n ≤ (stream r).length := by
    rw [← readBits_isSome_iff r n hi hn, hv]; rfl
  have hs := readBits_some r n hi hn h
  have e : v = valOf ((stream r).take n) := by
    have := hs.1; rw [hv] at this; exact Option.some.inj this
  refine ⟨h, e, ?_, hs.2.1, hs.2.2⟩
  have := valOf_lt ((stream r).take n)
  rw [List.length_take, Nat.min_eq_left h] at this
  rw [e]; exact this

/-! ## `readBit` -/

theorem readBit_some (r : Bits) (hi : Inv r) (b : Bool) (t : List Bool) (hs : stream r = b :: t) :
    r.readBit.1 = some (if b then 1 else 0) ∧ Inv r.readBit.2 ∧ stream r.readBit.2 = t := by
  have h := readBits_some r 1 hi (by decide) (by rw [hs]; simp)
  rw [hs] at h
  unfold readBit
  refine ⟨?_, h.2.1, h.2.2⟩
  rw [h.1]
  cases b <;> rfl

theorem readBit_none (r : Bits) (hi : Inv r) (hs : stream r = []) :
    r.readBit.1 = none ∧ Inv r.readBit.2 ∧ stream r.readBit.2 = [] := by
  have h := readBits_none r 1 hi (by decide) (by rw [hs]; decide)
  rw [hs] at h
  exact h

/-! ## Initial state -/

theorem inv_init (src : Src) (h : src.zeroFill = false) (hp : src.pos ≤ src.data.size)
    (he : src.extra = 0) (hd : src.dead = false) : Inv { src := src } :=
  ⟨Nat.zero_le _, Nat.two_pow_pos 32, Nat.zero_mod _, h, hp, he, hd⟩

theorem stream_init (src : Src) :
    stream { src := src } = (Src.rest src).flatMap bitsOfByte := by
  simp [stream]

/-! ## Measure lemmas -/

theorem readBits_length_some (r : Bits) (n : Nat) (hi : Inv r) (hn : n ≤ 25)
    (h : n ≤ (stream r).length) :
    (stream (r.readBits n).2).length = (stream r).length - n := by
  rw [(readBits_some r n hi hn h).2.2, List.length_drop]

theorem readBits_length_le (r : Bits) (n : Nat) (hi : Inv r) (hn : n ≤ 25) :
    (stream (r.readBits n).2).length ≤ (stream r).length := by
  by_cases h : n ≤ (stream r).length
  · rw [readBits_length_some r n hi hn h]; omega
  · rw [(readBits_none r n hi hn (by omega)).2.2]; exact Nat.le_refl _

theorem readBits_length_lt (r : Bits) (n v : Nat) (hi : Inv r) (hn : n ≤ 25) (h0 : 0 < n)
    (hv : (r.readBits n).1 = some v) :
    (stream (r.readBits n).2).length < (stream r).length := by
  have h := (readBits_eq_some r n v hi hn hv).1
  rw [readBits_length_some r n hi hn h]; omega

theorem peek_length (r : Bits) (n : Nat) (hi : Inv r) (hn : n ≤ 25) :
    (stream (r.peek n).2).length = (stream r).length := by
  rw [(peek_aux r n hi hn).2.1]

end LhasaV.Bits
