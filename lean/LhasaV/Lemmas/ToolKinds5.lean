import LhasaV.Lemmas.ToolKinds4
import LhasaV.Model.Messages
/-!
# C16 at tool level, part 5: the message-bearing loops of `lha t` / `lha x` / `lha e` (model `Messages`)

`monitorOf_rel` (the progress bar sees the same decoder positions), `testEntry_rel`,
`mreaderExtract_rel`, `extractBody_rel`, `extractEntry_rel`, `step_rel`, **`mloop_rel`**: related
states give the same stdout, stderr, verdicts, flags and file system.
-/
set_option linter.unusedSimpArgs false
namespace LhasaV.ToolKinds
open LhasaV LhasaV.Stream LhasaV.Reader LhasaV.Extract LhasaV.Messages

/-! ## the message-bearing model of `lha t` / `lha x` / `lha e` (`Model/Messages`) -/

theorem monitorOf_rel {P s t s' t'} (h : KRel P s t) (h' : KRel P s' t') : monitorOf s s' = monitorOf t t' := by
  unfold monitorOf
  rw [← h.currType, ← h.curr, ← h'.dec]
  split
  · rfl
  · rename_i hn
    split
    · rfl
    · rename_i c hc
      have hn' : s.currType = .normal := by simpa [currType_bne] using hn
      rw [← memberSrc_live (h.live hn' hc) h.basic.eof]

theorem testEntry_rel {P s t} (h : KRel P s t) (o : Opts) (hd : Header.Hdr) :
    (testEntry o s hd).1 = (testEntry o t hd).1 ∧ KRel P (testEntry o s hd).2 (testEntry o t hd).2 := by
  have hc := check_rel h
  have hm := monitorOf_rel h hc.2
  unfold testEntry
  simp only [← hc.1, ← hm]
  split
  · exact ⟨rfl, h⟩
  · split
    · exact ⟨rfl, hc.2⟩
    · exact ⟨rfl, hc.2⟩

theorem mreaderExtract_rel {P s t} (h : KRel P s t) (fs : Fs.St) (fn : Bytes) :
    (Messages.readerExtract s fs fn).1 = (Messages.readerExtract t fs fn).1 ∧
    (Messages.readerExtract s fs fn).2.2 = (Messages.readerExtract t fs fn).2.2 ∧
    KRel P (Messages.readerExtract s fs fn).2.1 (Messages.readerExtract t fs fn).2.1 := by
  unfold Messages.readerExtract
  rw [← h.currType, ← h.curr]
  split
  · split
    · exact ⟨rfl, rfl, (extract_rel h false).2⟩
    · exact readerExtract_rel h fs fn
  · exact readerExtract_rel h fs fn

/-- states of the `x` command that differ only in their readers -/
structure XSRel (P : List UInt8) (a b : XSt) : Prop where
  rd : KRel P a.rd b.rd
  fs : a.fs = b.fs
  opts : a.opts = b.opts
  answers : a.answers = b.answers

macro "xsrel_upd " h:term : tactic => `(tactic| exact
  ⟨by first | exact ($h).rd | assumption, by first | rfl | exact ($h).fs, by first | rfl | exact ($h).opts,
   by first | rfl | exact ($h).answers⟩)

theorem extractBody_rel {P a b} (h : XSRel P a b) (hd : Header.Hdr) (err : Bytes) :
    (extractBody a hd err).1 = (extractBody b hd err).1 ∧ XSRel P (extractBody a hd err).2 (extractBody b hd err).2 := by
  have hr := fun fs fn => mreaderExtract_rel h.rd fs fn
  have hr1 : ∀ fs fn, (Messages.readerExtract b.rd fs fn).1 = (Messages.readerExtract a.rd fs fn).1 :=
    fun fs fn => (hr fs fn).1.symm
  have hr2 : ∀ fs fn, (Messages.readerExtract b.rd fs fn).2.2 = (Messages.readerExtract a.rd fs fn).2.2 :=
    fun fs fn => (hr fs fn).2.1.symm
  have hm : ∀ fs fn, monitorOf b.rd (Messages.readerExtract b.rd fs fn).2.1 =
      monitorOf a.rd (Messages.readerExtract a.rd fs fn).2.1 :=
    fun fs fn => (monitorOf_rel h.rd (hr fs fn).2.2).symm
  unfold extractBody
  simp only [← h.opts, ← h.fs, ← h.rd.currType, hr1, hr2, hm]
  split
  · exact ⟨rfl, h⟩
  · generalize parentsFor (a.rd.currType == CurrType.fakeDir || a.rd.currType == CurrType.deferred) a.fs
      (fileFullPath hd a.opts) = mp
    split
    · exact ⟨rfl, by xsrel_upd h⟩
    · have := (hr mp.2.1 (fileFullPath hd a.opts)).2.2
      exact ⟨rfl, by xsrel_upd h⟩


theorem extractEntry_rel {P a b} (h : XSRel P a b) (hd : Header.Hdr) :
    (extractEntry a hd).1 = (extractEntry b hd).1 ∧ XSRel P (extractEntry a hd).2 (extractEntry b hd).2 := by
  unfold extractEntry
  simp only [← h.opts, ← h.fs, ← h.answers]
  split
  · split
    · exact ⟨rfl, h⟩
    · exact extractBody_rel h hd []
    · generalize confirm (fileFullPath hd a.opts) (a.answers.length + 1) a.opts.overwrite a.answers [] = c
      split
      · exact ⟨rfl, by xsrel_upd h⟩
      · apply extractBody_rel; xsrel_upd h
      · exact ⟨rfl, by xsrel_upd h⟩
  · exact extractBody_rel h hd []

/-- states of the command loops that differ only in their readers -/
structure MRel (P : List UInt8) (a b : Messages.St) : Prop where
  x : XSRel P a.x b.x
  result : a.result = b.result
  aborted : a.aborted = b.aborted
  fault : a.fault = b.fault
  stdout : a.stdout = b.stdout
  stderr : a.stderr = b.stderr
  trace : a.trace = b.trace

macro "mrel_upd " h:term : tactic => `(tactic| exact
  ⟨by first | exact ($h).x | assumption | xsrel_upd ($h).x, by first | rfl | exact ($h).result | simp [($h).result],
   by first | rfl | exact ($h).aborted, by first | rfl | exact ($h).fault,
   by first | rfl | exact ($h).stdout | simp [($h).stdout], by first | rfl | exact ($h).stderr | simp [($h).stderr],
   by first | rfl | exact ($h).trace | simp [($h).trace]⟩)

theorem record_rel {P a b} (h : MRel P a b) {x y : XSt} (hx : XSRel P x y) (hd : Header.Hdr) (e : Entry) :
    MRel P (record a x hd e) (record b y hd e) := by
  unfold record
  mrel_upd h

theorem step_rel {P a b} (cmd : Cmd) (h : MRel P a b) (hd : Header.Hdr) :
    MRel P (step cmd a hd) (step cmd b hd) := by
  unfold step
  cases cmd with
  | test =>
    simp only
    have ht := testEntry_rel h.x.rd a.x.opts hd
    rw [← h.x.opts, ← ht.1]
    apply record_rel h
    have := ht.2
    xsrel_upd h.x
  | extract =>
    simp only
    rw [← h.x.opts, ← h.x.fs]
    split
    · exact record_rel h h.x hd _
    · have he := extractEntry_rel h.x hd
      rw [← he.1]
      exact record_rel h he.2 hd _

/-- **the loops of `lha t` / `lha x` / `lha e`** keep the relation: the same bytes on stdout and
stderr, the same verdicts, the same file system -/
theorem mloop_rel {P} (cmd : Cmd) : ∀ (fuel : Nat) (a b : Messages.St), MRel P a b →
    MRel P (Messages.loop cmd fuel a) (Messages.loop cmd fuel b) := by
  intro fuel
  induction fuel with
  | zero => intro a b h; exact h
  | succ n ih =>
    intro a b h
    unfold Messages.loop
    rw [← h.aborted]
    split
    · exact h
    · have hn := next_rel h.x.rd
      cases ha : Reader.next a.x.rd with
      | error w =>
        cases hb : Reader.next b.x.rd with
        | error w' => simp only; mrel_upd h
        | ok r' => rw [ha, hb] at hn; exact hn.elim
      | ok r =>
        cases hb : Reader.next b.x.rd with
        | error w' => rw [ha, hb] at hn; exact hn.elim
        | ok r' =>
          rw [ha, hb] at hn
          obtain ⟨oc, rd⟩ := r
          obtain ⟨oc', rd'⟩ := r'
          obtain ⟨h1, h2⟩ := hn
          simp only at h1 h2
          subst h1
          cases oc with
          | none => simp only; mrel_upd h
          | some c =>
            simp only [← h.x.opts]
            split
            · apply ih; mrel_upd h
            · apply ih; apply step_rel; mrel_upd h

end LhasaV.ToolKinds
