import LhasaV.Lemmas.ReaderAllocHdr5
/-!
# Allocation-aware header parser, part 6: block accounting of the level decoders
-/
namespace LhasaV.Alloc
open LhasaV LhasaV.Header

set_option hygiene false in
/-- a step of the original model in a mirrored `do` block: the count `k` and its reading `hk` stay -/
macro "sl" : tactic => `(tactic|
  (refine Spec.bind (Spec.liftR (by exact hk) _) (fun _ _ hq => ?_); obtain ⟨-, rfl⟩ := hq))

set_option hygiene false in
macro "sfail" : tactic => `(tactic| exact Spec.failH (by exact hk))

set_option hygiene false in
macro "sif" : tactic => `(tactic| refine Spec.ite (fun _ => ?_) (fun _ => ?_))

set_option hygiene false in
/-- the part of `decode_level0_header` from the file name on -/
macro "l0tail" : tactic => `(tactic|
  (sl
   refine Spec.bind (level0PathA_spec _ (by exact hk) (by exact hs2.trans hf) (by exact hs1.trans hp))
     (fun h2 k2 hq => ?_)
   obtain ⟨hk2, hT2⟩ := hq
   replace hT2 : h2.symlinkTarget = none := hT2.trans (hs3.trans hT)
   clear hk
   have hk := hk2
   sl
   sif
   · refine Spec.bind (Spec.liftR (by exact hk) _) (fun h3 k3 hq => ?_)
     obtain ⟨he, rfl⟩ := hq
     have hs' := level0ExtArea_pres _ _ _ _ he
     exact (Spec.pure _ _).conseq (fun a k' hq => by
       obtain ⟨rfl, rfl⟩ := hq
       exact ⟨hk.trans (nstr_of_strs hs').symm, (sym_of_strs hs').trans hT2⟩)
   · exact (Spec.pure _ _).conseq (fun a k' hq => by obtain ⟨rfl, rfl⟩ := hq; exact ⟨hk, hT2⟩)))

section
variable {o : Oracle} {b : Nat} {f0 : List Site}

theorem splitFilenameA_spec {k : Nat} {h : Hdr} (hk : k = nstr h) (hp : h.path = none) :
    Spec o b f0 k (splitFilenameA o h) (fun h' k' => k' = nstr h' ∧ h'.symlinkTarget = h.symlinkTarget) := by
  unfold splitFilenameA
  cases hf : h.filename with
  | none =>
    simp only []
    exact (Spec.pure h k).conseq (fun a k' hq => by obtain ⟨rfl, rfl⟩ := hq; exact ⟨hk, rfl⟩)
  | some f =>
    simp only []
    split
    · rename_i hc
      refine Spec.malloc_bind ?_ ?_
      · simp only [↓reduceIte]
        refine (Spec.pure _ _).conseq (fun a k' hq => ?_)
        obtain ⟨rfl, rfl⟩ := hq
        unfold splitFilename
        rw [hf]
        simp only [hc, ↓reduceIte]
        refine ⟨?_, trivial⟩
        rw [hk]
        simp [nstr, hp, hf]
        omega
      · simp only [Bool.false_eq_true, ↓reduceIte]
        exact SpecF.failH hk
    · exact (Spec.pure h k).conseq (fun a k' hq => by obtain ⟨rfl, rfl⟩ := hq; exact ⟨hk, rfl⟩)

theorem level0PathA_spec {k : Nat} {h : Hdr} (data : Bytes) (hk : k = nstr h) (hf : h.filename = none)
    (hp : h.path = none) :
    Spec o b f0 k (level0PathA o h data) (fun h' k' => k' = nstr h' ∧ h'.symlinkTarget = h.symlinkTarget) := by
  unfold level0PathA
  split
  · exact (Spec.pure h k).conseq (fun a k' hq => by obtain ⟨rfl, rfl⟩ := hq; exact ⟨hk, rfl⟩)
  · refine Spec.malloc_bind ?_ ?_
    · simp only [↓reduceIte]
      refine splitFilenameA_spec ?_ hp
      rw [hk]; simp [nstr, hf]; omega
    · simp only [Bool.false_eq_true, ↓reduceIte]
      exact SpecF.failH hk

theorem Std.of_pure {h a : Hdr} {k k' : Nat} (hq : a = h ∧ k' = k) (hk : k = nstr h)
    (hT : h.symlinkTarget = none) : Std a k' := by
  obtain ⟨rfl, rfl⟩ := hq; exact ⟨hk, hT⟩

set_option maxHeartbeats 1000000 in
theorem decodeLevel0A_spec {k : Nat} (mk : Nat → Nat) {h : Hdr} (inp : Bytes) (hk : k = nstr h)
    (hf : h.filename = none) (hp : h.path = none) (hT : h.symlinkTarget = none) :
    Spec o b f0 k (decodeLevel0A o mk h inp) (fun r k' => Std r.1 k') := by
  unfold decodeLevel0A
  simp only [failH_bind, liftR_fault_bind, pure_bind']
  sl; sl
  sif
  · sfail
  sif
  · exact (Spec.liftR hk _).conseq (fun a k' hq => by cases hq.1)
  refine Spec.bind (extendA_spec _ _ hk) (fun x k1 hq => ?_)
  obtain ⟨rfl, hs⟩ := hq
  obtain ⟨h1, inp1⟩ := x
  simp only [strs, Prod.mk.injEq] at hs
  obtain ⟨hs1, hs2, hs3, hs4, hs5⟩ := hs
  replace hk : k1 = nstr h1 := by rw [hk]; simp only [nstr, hs1, hs2, hs3, hs4, hs5]
  simp only []
  sif
  · sfail
  sl; sl; sl; sl; sl
  sif
  · sfail
  sif
  · l0tail
  · sl; l0tail

end
end LhasaV.Alloc
