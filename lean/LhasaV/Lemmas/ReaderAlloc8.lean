import LhasaV.Lemmas.ReaderAlloc7
/-!
# Allocation-aware reader, part 8: what `extract` and `next` report when an allocation fails
-/
namespace LhasaV.Reader
open LhasaV LhasaV.Alloc

/-- **`extract`** (called with no decoder open, as in every legal history): the call in which an
allocation fails returns failure, leaves no decoder open and neither pushes a directory nor
defers a symbolic link -/
theorem extractA_reports (o : Oracle) (a : StA) (fsOk : Bool) (hd : a.s.dec = none)
    (hf : (extractA o a fsOk).2.hp.failed ≠ a.hp.failed) :
    (extractA o a fsOk).1 = (false, []) ∧ (extractA o a fsOk).2.s.dec = none ∧
    (extractA o a fsOk).2.s.dirStack = a.s.dirStack ∧ (extractA o a fsOk).2.s.deferred = a.s.deferred := by
  unfold extractA at hf ⊢
  dsimp only at hf ⊢
  cases hct : a.s.currType with
  | start => rw [hct] at hf; exact absurd rfl hf
  | eof => rw [hct] at hf; exact absurd rfl hf
  | fakeDir =>
    rw [hct] at hf
    cases hc : a.s.curr with
    | none => rw [hc] at hf; exact absurd rfl hf
    | some c => rw [hc] at hf; exact absurd rfl hf
  | deferred =>
    rw [hct] at hf
    cases hc : a.s.curr with
    | none => rw [hc] at hf; exact absurd rfl hf
    | some c =>
      rw [hc] at hf
      dsimp only at hf ⊢
      rcases allocAt_log o .extractName a.hp with ⟨e1, l1⟩ | ⟨e1, l1⟩
      · rw [e1] at hf
        simp only [Bool.not_true, Bool.false_eq_true, ↓reduceIte] at hf
        exact absurd l1 hf
      · rw [e1]
        exact ⟨rfl, hd, rfl, rfl⟩
  | normal =>
    rw [hct] at hf
    cases hc : a.s.curr with
    | none => rw [hc] at hf; exact absurd rfl hf
    | some c =>
      rw [hc] at hf
      dsimp only at hf ⊢
      by_cases hm : (c.h.method != "-lhd-".toUTF8.toList) = true
      · rw [if_pos hm] at hf ⊢
        rcases allocAt_log o .extractName a.hp with ⟨e1, l1⟩ | ⟨e1, l1⟩
        · rw [e1] at hf ⊢
          simp only [Bool.not_true, Bool.false_eq_true, ↓reduceIte] at hf ⊢
          generalize hA : ({ s := a.s, hp := { (allocAt o Site.extractName a.hp).2 with
              live := (allocAt o Site.extractName a.hp).2.live + 1 } } : StA) = a1 at hf ⊢
          have hs1 : a1.s = a.s := by rw [← hA]
          have hl1 : a1.hp.failed = a.hp.failed := by rw [← hA]; exact l1
          obtain ⟨h1, h2, h3⟩ := openDecoderA_report o a1 (by rw [hs1]; exact hd)
          have hfr := openDecoderA_frame o a1
          by_cases hok : (openDecoderA o a1).1 = true
          · have hnot : ¬ ((!(openDecoderA o a1).1) = true) := by simp [hok]
            rw [if_neg hnot] at hf
            obtain ⟨hl, d, hd', -⟩ := h1 hok
            exfalso
            cases fsOk with
            | false =>
              simp only [Bool.not_false, ↓reduceIte] at hf
              exact hf (hl.trans hl1)
            | true =>
              simp only [Bool.not_true, Bool.false_eq_true, ↓reduceIte] at hf
              obtain ⟨hh, -⟩ := decodeLoopA_open (o := o) (c.h.length + 2) hd' []
              exact hf (((congrArg Heap.failed hh).trans hl).trans hl1)
          · have hnot : ((!(openDecoderA o a1).1) = true) := by simpa using hok
            rw [if_pos hnot]
            exact ⟨rfl, h3 (by simpa using hok), by show (openDecoderA o a1).2.s.dirStack = _; rw [hfr.dirStack, hs1],
              by show (openDecoderA o a1).2.s.deferred = _; rw [hfr.deferred, hs1]⟩
        · rw [e1]
          exact ⟨rfl, hd, rfl, rfl⟩
      · rw [if_neg hm] at hf ⊢
        by_cases hsym : c.h.symlinkTarget.isSome = true
        · rw [if_pos hsym] at hf ⊢
          rcases allocAt_log o .extractName a.hp with ⟨e1, l1⟩ | ⟨e1, l1⟩
          · rw [e1] at hf
            simp only [Bool.not_true, Bool.false_eq_true, ↓reduceIte] at hf
            exfalso
            by_cases hdg : isDangerous c.h = true
            · rw [if_pos hdg] at hf
              cases fsOk with
              | false => exact hf l1
              | true => exact hf l1
            · rw [if_neg hdg] at hf
              exact hf l1
          · rw [e1]
            exact ⟨rfl, hd, rfl, rfl⟩
        · rw [if_neg hsym] at hf
          exfalso
          cases fsOk with
          | false => exact hf rfl
          | true =>
            simp only [Bool.not_true, Bool.false_eq_true, ↓reduceIte] at hf
            by_cases hp : (a.s.policy == DirPolicy.plain) = true
            · rw [if_pos hp] at hf; exact hf rfl
            · rw [if_neg hp] at hf; exact hf rfl

/-! ## `next` -/

theorem basicParseA_reports {o : Oracle} {mk : Nat → Nat} {b b' : Basic} {led led' : Ledger} {hp hp' : Heap}
    (hg : Good o hp) (e : basicParseA o mk b led hp = .ok ((b', led'), hp')) :
    hp'.failed ≠ hp.failed → b'.eof = true ∧ b'.curr = b.curr := by
  unfold basicParseA at e
  split at e
  · cases e; exact fun h => absurd rfl h
  · split at e
    · cases e
      exact fun _ => ⟨rfl, rfl⟩
    · rename_i ho
      have hg1 : Good o { hp with n := hp.n + 1, live := hp.live + 1 } := by
        show hp.failed.length = countFails o (hp.n + 1)
        rw [countFails_succ]; simp [ho, hg.symm]
      cases hs : Stream.start b.stream with
      | fail => rw [hs] at e; cases e
      | fault w => rw [hs] at e; cases e
      | ok st =>
        rw [hs] at e
        simp only [Res.ok_bind] at e
        split at e
        · cases e; exact fun h => absurd rfl h
        · have hblk := readRestA_blocks (o := o) mk (Stream.rest st)
            { hp with n := hp.n + 1, live := hp.live + 1 } hp.live hg1 rfl
          split at e
          · cases e
          · cases e
            exact fun _ => ⟨rfl, rfl⟩
          · rename_i hd rest hp2 hr
            rw [hr] at hblk
            cases e
            exact fun h => absurd hblk.2.2 h

theorem basicRelease_curr (b : Basic) (led : Ledger) : (basicRelease b led).1.curr = none := by
  unfold basicRelease; split
  · rfl
  · assumption

/-- with the basic reader at the end without a header, `next` reports end-of-archive or hands out
a pending directory / deferred symbolic link -/
theorem next_tail_eof (s : St) (hc : s.basic.curr = none) :
    (nextDeferred (nextPop (nextUnref s))).curr = none ∨
    (nextDeferred (nextPop (nextUnref s))).currType = .fakeDir ∨
    (nextDeferred (nextPop (nextUnref s))).currType = .deferred := by
  have hb : (nextUnref s).basic.curr = none := by rw [nextUnref_basic]; exact hc
  generalize nextUnref s = t at hb
  unfold nextPop
  split
  · rename_i he
    obtain ⟨top, rest, hd⟩ := endOfTopDir_cons he
    simp only [hd]
    unfold nextDeferred
    exact Or.inr (Or.inl rfl)
  · unfold nextDeferred
    simp only [hb]
    cases t.deferred with
    | nil => exact Or.inl rfl
    | cons d rest => exact Or.inr (Or.inr rfl)

theorem next_tail_not_normal (s : St) (hc : s.basic.curr = none) :
    (nextDeferred (nextPop (nextUnref s))).currType ≠ .normal := by
  have hb : (nextUnref s).basic.curr = none := by rw [nextUnref_basic]; exact hc
  generalize nextUnref s = t at hb
  unfold nextPop
  split
  · rename_i he
    obtain ⟨top, rest, hd⟩ := endOfTopDir_cons he
    simp only [hd]
    unfold nextDeferred
    exact fun h => by cases h
  · unfold nextDeferred
    simp only [hb]
    cases t.deferred with
    | nil => exact fun h => by cases h
    | cons d rest => exact fun h => by cases h

/-- **`next`**: if an allocation fails during the call — any allocation: no failure is swallowed —
the basic reader is at its end without a current header, and the call reports end-of-archive
(`none`) or hands out a pending directory / deferred symbolic link; never a header read from the
stream. -/
theorem nextA_reports {o : Oracle} {a a' : StA} {r : Option HObj} (h : InvA o a)
    (e : nextA o a = .ok (r, a')) (hf : a'.hp.failed ≠ a.hp.failed) :
    a'.s.basic.eof = true ∧ a'.s.basic.curr = none ∧
    (r = none ∨ a'.s.currType = .fakeDir ∨ a'.s.currType = .deferred) ∧ a'.s.currType ≠ .normal := by
  rw [nextA_eq] at e
  split at e
  · simp only [Except.ok.injEq, Prod.mk.injEq] at e
    obtain ⟨-, rfl⟩ := e
    exact absurd rfl hf
  · cases ha : nextAdvA o { a with s := closeDecoder a.s } with
    | error w => rw [ha] at e; cases e
    | ok a1 =>
      rw [ha] at e
      simp only [bind, Except.bind, Except.ok.injEq, Prod.mk.injEq] at e
      obtain ⟨rfl, rfl⟩ := e
      by_cases hs : (closeDecoder a.s).currType = .start ∨ (closeDecoder a.s).currType = .normal
      · obtain ⟨x, hb, rfl⟩ := nextAdvA_stream (a := { a with s := closeDecoder a.s }) hs ha
        dsimp only at hb hf ⊢
        rw [basicNextA_eq] at hb
        obtain ⟨he, hc⟩ := basicParseA_reports (b' := x.1.1) (led' := x.1.2) (hp' := x.2) h.hp.good hb hf
        rw [basicRelease_curr] at hc
        have hbas : ∀ t : St, (nextDeferred (nextPop (nextUnref t))).basic = t.basic := by
          intro t; rw [nextDeferred_basic, nextPop_basic, nextUnref_basic]
        refine ⟨by rw [hbas]; exact he, by rw [hbas]; exact hc, next_tail_eof _ hc, ?_⟩
        exact next_tail_not_normal _ hc
      · rw [nextAdvA_fake (a := { a with s := closeDecoder a.s }) hs] at ha
        cases ha
        exact absurd rfl hf

end LhasaV.Reader
