import LhasaV.Model.Ring
import LhasaV.Model.Tree
import LhasaV.Lemmas.Res
/-!
# Present decoders: a decoder never moves its source beyond the bytes physically there

`Src.read` is the only function that changes `pos`, and it advances it by at most
`remaining = data.size − pos`; nothing changes `data`.  `In N s` = "the position of `s` is inside
its data, and the data is at most `N` bytes".  A decoder is `Present` when it keeps `In N` for
every `N`: however much the header DECLARES (`extra`), the position a decoder reports — which is
what `closeDecoder` charges to the stream — never exceeds the bytes that exist.

The structure of the proofs is that of the `Honest*` files (the relation `PLe` replaces `SrcLe`):
shared lemmas for the bit reader (`Bits`) and the tree walk are here; one file per decoder family
proves `Present`.
-/
namespace LhasaV.ReaderPresent
open LhasaV

/-- the position is inside the data physically present, which is at most `N` bytes -/
def In (N : Nat) (s : Src) : Prop := s.pos ≤ s.data.size ∧ s.data.size ≤ N

/-- `b` (later) is inside whatever bound `a` (earlier) was inside -/
def PLe (a b : Src) : Prop := ∀ N, In N a → In N b

theorem PLe.refl (a : Src) : PLe a a := fun _ h => h
theorem PLe.trans {a b c : Src} (h1 : PLe a b) (h2 : PLe b c) : PLe a c := fun N h => h2 N (h1 N h)

/-- a decoder that never reports a position beyond the bytes physically present in its source,
and never enlarges the data -/
structure Present (d : Dec) : Prop where
  init : ∀ N src, In N src → In N (d.src (d.init src))
  read : ∀ N st o st', d.read st = .ok (o, st') → In N (d.src st) → In N (d.src st')

/-- `Src.read` itself stays inside the data, whatever is requested and whatever is declared -/
theorem src_read_in (N : Nat) (s : Src) (req : Nat) (h : In N s) : In N (s.read req).2 := by
  obtain ⟨h1, h2⟩ := h
  unfold Src.read
  dsimp only
  split
  · exact ⟨h1, h2⟩
  · rename_i hg
    split
    · exact ⟨h1, h2⟩
    · refine ⟨?_, h2⟩
      show s.pos + s.grant req ≤ s.data.size
      unfold Src.remaining at hg
      omega

theorem src_read_le (s : Src) (req : Nat) : PLe s (s.read req).2 := fun N => src_read_in N s req

/-! ## the bit reader -/

theorem fill_le (r : Bits) (n : Nat) : PLe r.src (r.fill n).2.src := by
  fun_induction Bits.fill r n with
  | case1 r h got hg => exact src_read_le _ _
  | case2 r h got hg p ih => exact (src_read_le _ _).trans ih
  | case3 r h => exact PLe.refl _

theorem peek_le (r : Bits) (n : Nat) : PLe r.src (r.peek n).2.src := by
  unfold Bits.peek
  split
  · exact PLe.refl _
  · dsimp only
    split <;> exact fill_le r n

theorem readBits_le (r : Bits) (n : Nat) : PLe r.src (r.readBits n).2.src := by
  unfold Bits.readBits
  dsimp only
  split <;> exact peek_le r n

theorem readBit_le (r : Bits) : PLe r.src r.readBit.2.src := readBits_le r 1

/-! ## `Res`-valued steps that thread a bit reader -/

/-- a step `x : Res (α × Bits)` started from `r`: if it returns, the source is still inside -/
def PStepLe {α : Type} (r : Bits) (x : Res (α × Bits)) : Prop :=
  ∀ a r', x = .ok (a, r') → PLe r.src r'.src

theorem walkFrom_le (lb : Nat) (t : Array Nat) : ∀ (fuel code : Nat) (r : Bits),
    PStepLe r (Tree.walkFrom lb t fuel code r) := by
  intro fuel
  induction fuel with
  | zero => intro code r a r' e; simp only [Tree.walkFrom, Res.ok.injEq, Prod.mk.injEq] at e; rw [← e.2]; exact PLe.refl _
  | succ n ih =>
    intro code r a r' e
    unfold Tree.walkFrom at e
    split at e
    · simp only [Res.ok.injEq, Prod.mk.injEq] at e; rw [← e.2]; exact PLe.refl _
    · dsimp only at e
      split at e
      · simp only [Res.ok.injEq, Prod.mk.injEq] at e; rw [← e.2]; exact readBit_le r
      · split at e
        · cases e
        · exact (readBit_le r).trans (ih _ _ a r' e)

theorem readFromTree_le (lb : Nat) (t : Array Nat) (r : Bits) : PStepLe r (Tree.readFromTree lb t r) := by
  intro a r' e
  unfold Tree.readFromTree at e
  split at e
  · cases e
  · exact walkFrom_le lb t _ _ r a r' e

/-! ## a post-condition on normal return, and its rules -/

/-- `x` returned normally only with a value satisfying `P` (nothing is said about `fail`/`fault`) -/
structure LhNewOkP {α : Type} (x : Res α) (P : α → Prop) : Prop where
  out : ∀ a, x = .ok a → P a

namespace LhNewOkP

theorem ok {α : Type} {P : α → Prop} {a : α} (h : P a) : LhNewOkP (.ok a) P :=
  ⟨by intro b e; cases e; exact h⟩

theorem fault {α : Type} {P : α → Prop} {w : String} : LhNewOkP (.fault w : Res α) P :=
  ⟨by intro b e; cases e⟩

theorem fail {α : Type} {P : α → Prop} : LhNewOkP (.fail : Res α) P :=
  ⟨by intro b e; cases e⟩

theorem bind {α β : Type} {x : Res α} {f : α → Res β} {Q : α → Prop} {P : β → Prop}
    (hx : LhNewOkP x Q) (hf : ∀ a, Q a → LhNewOkP (f a) P) : LhNewOkP (x >>= f) P := by
  refine ⟨fun b e => ?_⟩
  obtain ⟨a, e1, e2⟩ := Res.bind_eq_ok.mp e
  exact (hf a (hx.out a e1)).out b e2

/-- bind after a step about which nothing needs to be known -/
theorem bind' {α β : Type} {x : Res α} {f : α → Res β} {P : β → Prop}
    (hf : ∀ a, LhNewOkP (f a) P) : LhNewOkP (x >>= f) P :=
  bind (Q := fun _ => True) ⟨fun _ _ => trivial⟩ (fun a _ => hf a)

theorem mono {α : Type} {x : Res α} {P Q : α → Prop} (h : LhNewOkP x P) (hpq : ∀ a, P a → Q a) :
    LhNewOkP x Q := ⟨fun a e => hpq a (h.out a e)⟩

theorem ite {α : Type} {P : α → Prop} (c : Prop) [Decidable c] {a b : Res α}
    (ha : c → LhNewOkP a P) (hb : ¬c → LhNewOkP b P) : LhNewOkP (if c then a else b) P := by
  by_cases h : c
  · rw [if_pos h]; exact ha h
  · rw [if_neg h]; exact hb h

end LhNewOkP

theorem pstepLe_iff_okP {α : Type} {r : Bits} {x : Res (α × Bits)} :
    PStepLe r x ↔ LhNewOkP x (fun o => PLe r.src o.2.src) :=
  ⟨fun h => ⟨fun o e => h o.1 o.2 e⟩, fun h a r' e => h.out (a, r') e⟩

end LhasaV.ReaderPresent
