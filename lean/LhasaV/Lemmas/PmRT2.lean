import LhasaV.Lemmas.PmRT1
import LhasaV.Lemmas.LzRoundTrip
/-!
PMarc round trip, part B (1): bit-reader views, the variable-length classes
(`classOf` / `decode_variable_length`), and the format constants of the
specification against the tables of the compiled source.

A `BitView` abstracts the way a `Bits` reader is regarded as a list of bits still
to come.  `stdView` is the plain reader of `Lemmas/Bits.lean` (-pm2-); -pm1- wraps
its input callback so that the input never ends (`zeroFill`): `zeroView` (in
`PmRT6.lean`) is the corresponding view.  Every code lemma below is generic in the view.
-/
namespace LhasaV.PmRT
open LhasaV LhasaV.Spec.PmEnc LhasaV.Spec.Lz77 LhasaV.LzRoundTrip

/-- a way to regard bit readers as lists of bits to come: `R r s` says that `s` is (a prefix
of) what `r` will deliver; reading a field written by `bitsN` returns its value and moves on -/
structure BitView where
  R : Bits → List Bool → Prop
  read : ∀ r n v rest, R r (bitsN n v ++ rest) → n ≤ 25 → v < 2 ^ n →
    (r.readBits n).1 = some v ∧ R (r.readBits n).2 rest

/-- the plain reader: representation invariant and exact stream of `Lemmas/Bits.lean` -/
def stdView : BitView where
  R r s := Bits.Inv r ∧ Bits.stream r = s
  read := by
    intro r n v rest h hn hv
    obtain ⟨a, b, c⟩ := readBits_bitsN r n v rest h.1 hn hv h.2
    exact ⟨a, b, c⟩

namespace BitView

theorem read0 (V : BitView) (r : Bits) (rest : List Bool) (h : V.R r rest) :
    (r.readBits 0).1 = some 0 ∧ V.R (r.readBits 0).2 rest :=
  V.read r 0 0 rest (by simpa [bitsN] using h) (by decide) (by decide)

theorem bit0 (V : BitView) (r : Bits) (rest : List Bool) (h : V.R r (false :: rest)) :
    r.readBit.1 = some 0 ∧ V.R r.readBit.2 rest :=
  V.read r 1 0 rest h (by decide) (by decide)

theorem bit1 (V : BitView) (r : Bits) (rest : List Bool) (h : V.R r (true :: rest)) :
    r.readBit.1 = some 1 ∧ V.R r.readBit.2 rest :=
  V.read r 1 1 rest h (by decide) (by decide)

theorem bit (V : BitView) (r : Bits) (b : Bool) (rest : List Bool) (h : V.R r (b :: rest)) :
    r.readBit.1 = some (if b then 1 else 0) ∧ V.R r.readBit.2 rest := by
  cases b
  · exact V.bit0 r rest h
  · exact V.bit1 r rest h

end BitView

/-! ### format constants: specification = compiled source -/

/-- the -pm2- byte classes are `history_decode[]` of pm2_decoder.c -/
theorem pm2_classes_match : Gen.pm2HistoryDecode = pm2ByteClasses := rfl

/-- the -pm1- byte classes are `byte_ranges[]` of pm1_decoder.c -/
theorem pm1_classes_match : Gen.pm1ByteRanges = pm1ByteClasses := rfl

/-- the six long copy-length classes of `pm2LenCode` are `copy_decode[]` of pm2_decoder.c:
length `n ≥ 17` is coded as symbol `15 + c` followed by the `w`-bit field `n − lo`,
`(lo, w) = copy_decode[c]`; `c = 5` is the alternative no-bits code of length 256 -/
theorem pm2_len_classes_match (n : Nat) (alt : Bool) (c : Nat) (ex : List Bool)
    (h : pm2LenCode n alt = some (c, ex)) (hc : 15 ≤ c) :
    ∃ lo w, Gen.pm2CopyDecode[c - 15]? = some (lo, w) ∧ lo ≤ n ∧ n - lo < 2 ^ w ∧
      ex = bitsN w (n - lo) := by
  unfold pm2LenCode at h
  split at h
  · split at h
    · cases h; exact ⟨256, 0, rfl, by omega, by omega, rfl⟩
    · cases h
  · repeat' split at h
    all_goals cases h
    · omega
    · exact ⟨17, 3, rfl, by omega, by omega, rfl⟩
    · exact ⟨25, 3, rfl, by omega, by omega, rfl⟩
    · exact ⟨33, 5, rfl, by omega, by omega, rfl⟩
    · exact ⟨65, 6, rfl, by omega, by omega, rfl⟩
    · exact ⟨129, 7, rfl, by omega, by omega, rfl⟩

/-- `copy_ranges[]` of pm1_decoder.c, entry by entry: (first distance, field width) -/
theorem pm1_copy_ranges_match : Gen.pm1CopyRanges =
    [(0, 6), (64, 8), (0, 6), (64, 9), (576, 11), (2624, 13), (64, 8), (576, 8), (576, 9),
     (576, 10), (2624, 8), (2624, 9), (2624, 10), (2624, 11), (2624, 12)] := rfl

/-! ### `classOf` and `decode_variable_length` -/

theorem classOf_some (tbl : List (Nat × Nat)) (k c lo w : Nat)
    (h : classOf tbl k = some (c, lo, w)) :
    tbl[c]? = some (lo, w) ∧ lo ≤ k ∧ k < lo + 2 ^ w := by
  unfold classOf at h
  rw [Option.map_eq_some_iff] at h
  obtain ⟨e, he, hq⟩ := h
  have hp := List.find?_some he
  have hm := List.mem_of_find?_eq_some he
  rw [List.mem_zipIdx_iff_getElem?] at hm
  simp only [Prod.mk.injEq] at hq
  obtain ⟨q1, q2, q3⟩ := hq
  simp only [decide_eq_true_eq] at hp
  subst q1 q2 q3
  exact ⟨hm, hp.1, hp.2⟩

/-- **B2.** `decode_variable_length` inverts the class coding: for a value `k` of class `c`
with range start `lo` and `w` extra bits, reading the field `k − lo` gives back `k` -/
theorem decodeVarLen_spec (V : BitView) (site : String) (tbl : List (Nat × Nat)) (k c lo w : Nat)
    (h : classOf tbl k = some (c, lo, w)) (hw : w ≤ 25) (r : Bits) (rest : List Bool)
    (hr : V.R r (bitsN w (k - lo) ++ rest)) :
    ∃ r', Pma.decodeVarLen site tbl r c = .ok (some k, r') ∧ V.R r' rest := by
  obtain ⟨h1, h2, h3⟩ := classOf_some tbl k c lo w h
  obtain ⟨e1, e2⟩ := V.read r w (k - lo) rest hr hw (by omega)
  refine ⟨(r.readBits w).2, ?_, e2⟩
  unfold Pma.decodeVarLen
  rw [h1]
  simp only [e1, Option.map_some]
  congr 3; omega

/-- the same with the table entry given directly -/
theorem decodeVarLen_entry (V : BitView) (site : String) (tbl : List (Nat × Nat)) (k c lo w : Nat)
    (h1 : tbl[c]? = some (lo, w)) (h2 : lo ≤ k) (h3 : k < lo + 2 ^ w) (hw : w ≤ 25) (r : Bits)
    (rest : List Bool) (hr : V.R r (bitsN w (k - lo) ++ rest)) :
    ∃ r', Pma.decodeVarLen site tbl r c = .ok (some k, r') ∧ V.R r' rest := by
  obtain ⟨e1, e2⟩ := V.read r w (k - lo) rest hr hw (by omega)
  refine ⟨(r.readBits w).2, ?_, e2⟩
  unfold Pma.decodeVarLen
  rw [h1]
  simp only [e1, Option.map_some]
  congr 3; omega

/-- every move-to-front position has a class, in both formats -/
theorem classOf_pm2_total (k : Nat) (hk : k < 256) :
    ∃ c lo w, classOf pm2ByteClasses k = some (c, lo, w) ∧ c < 8 ∧ w ≤ 6 := by
  have h : ∀ k, k < 256 →
      ((classOf pm2ByteClasses k).any (fun e => decide (e.1 < 8 ∧ e.2.2 ≤ 6))) = true := by
    decide +kernel
  have := h k hk
  rw [Option.any_eq_true] at this
  obtain ⟨⟨c, lo, w⟩, he, hp⟩ := this
  exact ⟨c, lo, w, he, by simpa using hp⟩

theorem classOf_pm1_total (k : Nat) (hk : k < 256) :
    ∃ c lo w, classOf pm1ByteClasses k = some (c, lo, w) ∧ c < 6 ∧ w ≤ 6 := by
  have h : ∀ k, k < 256 →
      ((classOf pm1ByteClasses k).any (fun e => decide (e.1 < 6 ∧ e.2.2 ≤ 6))) = true := by
    decide +kernel
  have := h k hk
  rw [Option.any_eq_true] at this
  obtain ⟨⟨c, lo, w⟩, he, hp⟩ := this
  exact ⟨c, lo, w, he, by simpa using hp⟩

/-! ### non-vacuity -/

example : classOf pm2ByteClasses 100 = some (5, 96, 5) := by decide

/-- reader on the byte `0x27 = 00100 111`: class 5 of -pm2- with the field `00100` is position 100 -/
example : ∃ r', Pma.decodeVarLen "x" Gen.pm2HistoryDecode { src := { data := #[0x27] } } 5
      = .ok (some 100, r') ∧ stdView.R r' [true, true, true] :=
  decodeVarLen_spec stdView "x" _ 100 5 96 5 (by decide) (by decide) _ _
    ⟨Bits.inv_init _ rfl (by decide) rfl rfl, by rw [Bits.stream_init]; decide⟩

end LhasaV.PmRT
