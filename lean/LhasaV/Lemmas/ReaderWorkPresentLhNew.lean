import LhasaV.Lemmas.ReaderWorkPresentBase
import LhasaV.Model.LhNew
/-!
`Present` for the lh4, lh5, lh6, lh7, lhx and lk7 decoder (`LhasaV.LhNew`), for every parameter
set: the only thing in the model that ever changes `bits.src` is `Src.read` (which stays inside the
data physically present), reached through `Bits.readBits`/`readBit` and `Tree.readFromTree`.  One
`lhnew_…_le` lemma per function of the model that threads a `Bits` or an `St` (structure of
`HonestLhNew`; the post-condition device `LhNewOkP` is in ReaderWorkPresentBase).
-/
namespace LhasaV.ReaderPresent
open LhasaV

/-- a step `x : Res (α × LhNew.St)` started from `s`: if it returns, the source only moved by reads -/
def LhNewPLe {α : Type} (s : LhNew.St) (x : Res (α × LhNew.St)) : Prop :=
  ∀ a s', x = .ok (a, s') → PLe s.bits.src s'.bits.src

theorem lhNewPLe_iff_okP {α : Type} {s : LhNew.St} {x : Res (α × LhNew.St)} :
    LhNewPLe s x ↔ LhNewOkP x (fun o => PLe s.bits.src o.2.bits.src) :=
  ⟨fun h => ⟨fun o e => h o.1 o.2 e⟩, fun h a s' e => h.out (a, s') e⟩

/-! ## reading code lengths -/

theorem lhnew_unaryLoop_le (fuel len : Nat) (r : Bits) :
    PLe r.src (LhNew.unaryLoop fuel len r).2.src := by
  induction fuel generalizing len r with
  | zero => exact PLe.refl _
  | succ fuel ih =>
    unfold LhNew.unaryLoop
    have h := readBit_le r
    simp only []
    generalize r.readBit = q at h
    obtain ⟨qv, qr⟩ := q
    cases qv with
    | none => exact h
    | some b =>
      cases b with
      | zero => exact h
      | succ b => exact h.trans (ih _ _)

theorem lhnew_readLengthValue_le (r : Bits) : PLe r.src (LhNew.readLengthValue r).2.src := by
  unfold LhNew.readLengthValue
  have h := readBits_le r 3
  simp only []
  split
  · exact h
  · exact h.trans (lhnew_unaryLoop_le _ _ _)
  · exact h

theorem lhnew_tempLoop_okP (cap n : Nat) (m : Nat) :
    ∀ (i : Nat) (lens : Array Nat) (r : Bits), n - i ≤ m →
      LhNewOkP (LhNew.tempLoop cap n i lens r) (fun o => PLe r.src o.2.src) := by
  induction m with
  | zero =>
    intro i lens r hm
    rw [LhNew.tempLoop]
    have : ¬ i < n := by omega
    rw [dif_neg this]
    exact .ok (PLe.refl _)
  | succ m ih =>
    intro i lens r hm
    rw [LhNew.tempLoop]
    by_cases hin : i < n
    · rw [dif_pos hin]
      have h1 := lhnew_readLengthValue_le r
      simp only []
      generalize LhNew.readLengthValue r = q at h1
      obtain ⟨qv, qr⟩ := q
      cases qv with
      | none => exact .ok h1
      | some len =>
        apply LhNewOkP.bind'
        intro lens1
        apply LhNewOkP.ite
        · intro _
          have h2 := readBits_le qr 2
          simp only []
          generalize qr.readBits 2 = q2 at h2
          obtain ⟨q2v, q2r⟩ := q2
          cases q2v with
          | none => exact .ok (h1.trans h2)
          | some k =>
            apply LhNewOkP.bind'
            intro lens2
            exact (ih _ _ _ (by omega)).mono (fun o ho => h1.trans (h2.trans ho))
        · intro _
          exact (ih _ _ _ (by omega)).mono (fun o ho => h1.trans ho)
    · rw [dif_neg hin]
      exact .ok (PLe.refl _)

theorem lhnew_tempLoop_le (cap n i : Nat) (lens : Array Nat) (r : Bits) :
    PStepLe r (LhNew.tempLoop cap n i lens r) :=
  pstepLe_iff_okP.mpr (lhnew_tempLoop_okP cap n (n - i) i lens r (Nat.le_refl _))

theorem lhnew_readTempTable_le (p : LhNew.Params) (s : LhNew.St) :
    LhNewPLe s (LhNew.readTempTable p s) := by
  rw [lhNewPLe_iff_okP]
  unfold LhNew.readTempTable
  have h1 := readBits_le s.bits p.tempCodeBits
  simp only []
  generalize s.bits.readBits p.tempCodeBits = a at h1
  obtain ⟨av, ar⟩ := a
  split
  · exact .ok h1
  · have h2 := readBits_le ar 5
    generalize Bits.readBits (av, ar).2 5 = c at h2
    split
    · exact .ok (h1.trans h2)
    · exact .ok (h1.trans h2)
  · apply LhNewOkP.bind (pstepLe_iff_okP.mp (lhnew_tempLoop_le _ _ _ _ _))
    intro t ht
    split
    · exact .ok (h1.trans ht)
    · apply LhNewOkP.ite
      · intro _; exact .fault
      · intro _; exact .ok (h1.trans ht)

/-! ## the code table -/

theorem lhnew_readSkipCount_le (r : Bits) (k : Nat) : PLe r.src (LhNew.readSkipCount r k).2.src := by
  unfold LhNew.readSkipCount
  by_cases h0 : k = 0
  · rw [if_pos h0]; exact PLe.refl _
  · rw [if_neg h0]
    by_cases h1 : k = 1
    · rw [if_pos h1]; exact readBits_le r 4
    · rw [if_neg h1]; exact readBits_le r 9

theorem lhnew_codeLoop_le (p : LhNew.Params) (n : Nat) (tempTree : Array Nat) (fuel : Nat) :
    ∀ (i : Nat) (lens : Array Nat) (r : Bits),
      PStepLe r (LhNew.codeLoop p n fuel i lens tempTree r) := by
  induction fuel with
  | zero => intro i lens r; exact pstepLe_iff_okP.mpr (.ok (PLe.refl _))
  | succ fuel ih =>
    intro i lens r
    rw [pstepLe_iff_okP]
    unfold LhNew.codeLoop
    apply LhNewOkP.ite
    · intro _
      apply LhNewOkP.bind (pstepLe_iff_okP.mp (readFromTree_le p.leafBit tempTree r))
      intro t ht
      split
      · exact .ok ht
      · rename_i code _
        apply LhNewOkP.ite
        · intro _
          have h2 := lhnew_readSkipCount_le t.2 code
          simp only []
          generalize LhNew.readSkipCount t.2 code = sk at h2
          split
          · exact .ok (ht.trans h2)
          · apply LhNewOkP.bind'
            intro z
            exact (pstepLe_iff_okP.mp (ih _ _ _)).mono (fun o ho => ht.trans (h2.trans ho))
        · intro _
          apply LhNewOkP.bind'
          intro lens'
          exact (pstepLe_iff_okP.mp (ih _ _ _)).mono (fun o ho => ht.trans ho)
    · intro _; exact .ok (PLe.refl _)

theorem lhnew_readCodeTable_le (p : LhNew.Params) (s : LhNew.St) :
    LhNewPLe s (LhNew.readCodeTable p s) := by
  rw [lhNewPLe_iff_okP]
  unfold LhNew.readCodeTable
  have h1 := readBits_le s.bits 9
  simp only []
  generalize s.bits.readBits 9 = a at h1
  obtain ⟨av, ar⟩ := a
  split
  · exact .ok h1
  · have h2 := readBits_le ar 9
    generalize Bits.readBits (av, ar).2 9 = c at h2
    split
    · exact .ok (h1.trans h2)
    · exact .ok (h1.trans h2)
  · apply LhNewOkP.bind (pstepLe_iff_okP.mp (lhnew_codeLoop_le _ _ _ _ _ _ _))
    intro t ht
    split
    · exact .ok (h1.trans ht)
    · apply LhNewOkP.ite
      · intro _; exact .fault
      · intro _; exact .ok (h1.trans ht)

/-! ## the offset table -/

theorem lhnew_offLoop_le (cap : Nat) (k : Nat) :
    ∀ (i : Nat) (lens : Array Nat) (r : Bits), PStepLe r (LhNew.offLoop cap k i lens r) := by
  induction k with
  | zero => intro i lens r; exact pstepLe_iff_okP.mpr (.ok (PLe.refl _))
  | succ k ih =>
    intro i lens r
    rw [pstepLe_iff_okP]
    unfold LhNew.offLoop
    have h1 := lhnew_readLengthValue_le r
    simp only []
    generalize LhNew.readLengthValue r = q at h1
    split
    · exact .ok h1
    · apply LhNewOkP.bind'
      intro lens'
      exact (pstepLe_iff_okP.mp (ih _ _ _)).mono (fun o ho => h1.trans ho)

theorem lhnew_readOffsetTable_le (p : LhNew.Params) (s : LhNew.St) :
    LhNewPLe s (LhNew.readOffsetTable p s) := by
  rw [lhNewPLe_iff_okP]
  unfold LhNew.readOffsetTable
  have h1 := readBits_le s.bits p.offsetBits
  simp only []
  generalize s.bits.readBits p.offsetBits = a at h1
  obtain ⟨av, ar⟩ := a
  split
  · exact .ok h1
  · have h2 := readBits_le ar p.offsetBits
    generalize Bits.readBits (av, ar).2 p.offsetBits = c at h2
    split
    · exact .ok (h1.trans h2)
    · exact .ok (h1.trans h2)
  · apply LhNewOkP.bind (pstepLe_iff_okP.mp (lhnew_offLoop_le _ _ _ _ _))
    intro t ht
    split
    · exact .ok (h1.trans ht)
    · apply LhNewOkP.ite
      · intro _; exact .fault
      · intro _; exact .ok (h1.trans ht)

/-! ## blocks -/

theorem lhnew_startNewBlock_le (p : LhNew.Params) (s : LhNew.St) :
    LhNewPLe s (LhNew.startNewBlock p s) := by
  rw [lhNewPLe_iff_okP]
  unfold LhNew.startNewBlock
  have h1 := readBits_le s.bits 16
  simp only []
  generalize s.bits.readBits 16 = a at h1
  split
  · exact .ok h1
  · rename_i len _
    apply LhNewOkP.bind (lhNewPLe_iff_okP.mp (lhnew_readTempTable_le p _))
    intro t ht
    have ht' : PLe s.bits.src t.2.bits.src := h1.trans ht
    apply LhNewOkP.ite
    · intro _; exact .ok ht'
    · intro _
      apply LhNewOkP.bind (lhNewPLe_iff_okP.mp (lhnew_readCodeTable_le p _))
      intro c hc
      apply LhNewOkP.ite
      · intro _; exact .ok (ht'.trans hc)
      · intro _
        exact (lhNewPLe_iff_okP.mp (lhnew_readOffsetTable_le p _)).mono
          (fun o ho => ht'.trans (hc.trans ho))

theorem lhnew_blockLoop_le (p : LhNew.Params) (fuel : Nat) :
    ∀ (s : LhNew.St), LhNewPLe s (LhNew.blockLoop p fuel s) := by
  induction fuel with
  | zero => intro s; exact lhNewPLe_iff_okP.mpr (.ok (PLe.refl _))
  | succ fuel ih =>
    intro s
    rw [lhNewPLe_iff_okP]
    unfold LhNew.blockLoop
    apply LhNewOkP.ite
    · intro _
      apply LhNewOkP.bind (lhNewPLe_iff_okP.mp (lhnew_startNewBlock_le p s))
      intro b hb
      apply LhNewOkP.ite
      · intro _; exact .ok hb
      · intro _
        exact (lhNewPLe_iff_okP.mp (ih _)).mono (fun o ho => hb.trans ho)
    · intro _; exact .ok (PLe.refl _)

/-! ## one `read` -/

theorem lhnew_readOffsetCode_le (p : LhNew.Params) (s : LhNew.St) :
    PStepLe s.bits (LhNew.readOffsetCode p s) := by
  rw [pstepLe_iff_okP]
  unfold LhNew.readOffsetCode
  apply LhNewOkP.bind (pstepLe_iff_okP.mp (readFromTree_le p.leafBit s.offsetTree s.bits))
  intro t ht
  split
  · exact .ok ht
  · rename_i bits _
    apply LhNewOkP.ite
    · intro _; exact .ok ht
    · intro _
      apply LhNewOkP.ite
      · intro _; exact .ok ht
      · intro _
        apply LhNewOkP.ite
        · intro _
          apply LhNewOkP.ite
          · intro _; exact .ok ht
          · intro _
            have h2 := readBits_le t.2 ((bits - 2) / 2)
            simp only []
            generalize t.2.readBits ((bits - 2) / 2) = q at h2
            split
            · exact .ok (ht.trans h2)
            · exact .ok (ht.trans h2)
        · intro _
          have h2 := readBits_le t.2 (bits - 1)
          simp only []
          generalize t.2.readBits (bits - 1) = q at h2
          split
          · exact .ok (ht.trans h2)
          · exact .ok (ht.trans h2)

theorem lhnew_lharkCopyCount_le (p : LhNew.Params) (r : Bits) (code : Nat) :
    PLe r.src (LhNew.lharkCopyCount p r code).2.src := by
  unfold LhNew.lharkCopyCount
  by_cases h1 : code < 264
  · rw [if_pos h1]; exact PLe.refl _
  · rw [if_neg h1]
    by_cases h2 : code < 288
    · rw [if_pos h2]; exact readBits_le r ((code - 260) / 4)
    · rw [if_neg h2]; exact PLe.refl _

theorem lhnew_read_le (p : LhNew.Params) (s : LhNew.St) : LhNewPLe s (LhNew.read p s) := by
  rw [lhNewPLe_iff_okP]
  unfold LhNew.read
  apply LhNewOkP.bind (lhNewPLe_iff_okP.mp (lhnew_blockLoop_le p _ s))
  intro b hb
  apply LhNewOkP.ite
  · intro _; exact .ok hb
  · intro _
    apply LhNewOkP.bind (pstepLe_iff_okP.mp (readFromTree_le p.leafBit _ _))
    intro t ht
    have ht' : PLe s.bits.src t.2.src := hb.trans ht
    split
    · exact .ok ht'
    · rename_i code _
      apply LhNewOkP.ite
      · intro _
        apply LhNewOkP.ite
        · intro _; exact .ok ht'
        · intro _; exact .fault
      · intro _
        have hcc : PLe t.2.src (if p.lhark = true then LhNew.lharkCopyCount p t.2 code
              else (some (code - 256 + p.copyThreshold), t.2)).2.src := by
          by_cases hlk : p.lhark = true
          · rw [if_pos hlk]; exact lhnew_lharkCopyCount_le p t.2 code
          · rw [if_neg hlk]; exact PLe.refl _
        simp only []
        generalize (if p.lhark = true then LhNew.lharkCopyCount p t.2 code
              else (some (code - 256 + p.copyThreshold), t.2)) = cc at hcc
        have hcc' : PLe s.bits.src cc.2.src := ht'.trans hcc
        split
        · exact .ok hcc'
        · apply LhNewOkP.bind (pstepLe_iff_okP.mp (lhnew_readOffsetCode_le p _))
          intro o ho
          have ho' : PLe s.bits.src o.2.src := hcc'.trans ho
          split
          · exact .ok ho'
          · apply LhNewOkP.ite
            · intro _; exact .ok ho'
            · intro _
              apply LhNewOkP.bind'
              intro r
              exact .ok ho'

/-! ## main theorem -/

theorem present_lhnew (p : LhNew.Params) : Present (LhNew.dec p) := by
  refine ⟨fun N src h => h, ?_⟩
  intro N st o st' e
  exact lhnew_read_le p st o st' e N

end LhasaV.ReaderPresent
