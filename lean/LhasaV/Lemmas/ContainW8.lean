import LhasaV.Lemmas.ContainW7
import LhasaV.Lemmas.ContainW6
/-!
# C10 with `w=DIR` (part 8): the whole run of the message-bearing model

`Messages.run .extract` — the loop of `extract_archive` with every message, the POSIX
trailing-slash rule and the exit status, compared byte for byte with the real tool — with `w=DIR`:
**`mrun_contained_w`** (below `cwd/DIR`, or the `mkdir` of a missing component of `DIR`) and
**`mrun_contained_w_cwd`** (below the current directory) hold for ANY archive bytes, ANY answers,
ANY of the options f, q, i, n and wildcards, whether `DIR` exists or not: hypotheses on the
starting file system and on `DIR` only.
-/
namespace LhasaV.ContainW
open LhasaV LhasaV.Header LhasaV.Extract LhasaV.GlobFs LhasaV.Contain LhasaV.Messages
open LhasaV.MessagesAgree

structure InvM (d : Bytes) (ds : List Bytes) (c : Fs.Path) (fs0 : Fs.St) (u : Bool)
    (m : Messages.St) : Prop where
  xp : m.x.opts.extractPath = some d
  up : m.x.opts.usePath = u
  dry : m.x.opts.dryRun = false
  hdr : HdrInv (fun h => FnOk h ∧ PathOk h) m.x.rd
  names : StackInv (NND u) m.x.rd
  phase : StepW c ds fs0 m.x.fs ∨
    (LogW c ds fs0 m.x.fs ∧ DirMono fs0 m.x.fs ∧ m.x.fs.cwd = c ∧ Phase2 m.x.rd)

theorem step_x (m : Messages.St) (h : Hdr) (hd : m.x.opts.dryRun = false) :
    (step .extract m h).x = (extractEntry m.x h).2 := by
  unfold step
  simp only [hd]
  rfl

section loop
variable {d : Bytes} {ds : List Bytes} {c : Fs.Path}

theorem InvM.below {fs0 : Fs.St} {u : Bool} {m : Messages.St} (hi : InvM d ds c fs0 u m) :
    LogW c ds fs0 m.x.fs ∧ m.x.fs.cwd = c := by
  rcases hi.phase with h | h
  · exact ⟨h.log, h.inv.cwd⟩
  · exact ⟨h.1, h.2.2.1⟩

theorem step_invM (hw : WOpts d ds) (fs0 : Fs.St) (u : Bool) (m : Messages.St) (rd : Reader.St)
    (c0 : Reader.HObj) (hn : Reader.next m.x.rd = .ok (some c0, rd)) (hi : InvM d ds c fs0 u m) :
    InvM d ds c fs0 u (step .extract { m with x := { m.x with rd := rd } } c0.h) := by
  obtain ⟨_, _, _, hcurr⟩ := next_some hn
  have hdr1 : HdrInv (fun h => FnOk h ∧ PathOk h) rd := next_inv parsed_good hi.hdr hn
  have names1 : StackInv (NND u) rd := next_stackInv hi.names hn
  have hgood := hdr1.curr c0 hcurr
  have hsx := step_x { m with x := { m.x with rd := rd } } c0.h hi.dry
  have hopts := extractEntry_opts_same { m.x with rd := rd } c0.h
  have hhdr : HdrInv (fun h => FnOk h ∧ PathOk h) (extractEntry { m.x with rd := rd } c0.h).2.rd :=
    extractEntry_inv (s := { m.x with rd := rd }) hdr1 c0.h
  have hxp : ({ m.x with rd := rd } : XSt).opts.extractPath = some d := hi.xp
  have hcur' : ({ m.x with rd := rd } : XSt).rd.curr = some c0 := hcurr
  have hq : ∀ c', ({ m.x with rd := rd } : XSt).rd.curr = some c' → NND u c0.h → NND u c'.h := by
    intro c' hc' hl
    have : c' = c0 := by
      have h' : some c' = some c0 := hc'.symm.trans hcurr
      injection h'
    rw [this]; exact hl
  by_cases hl : NND u c0.h
  · have hl' : NND ({ m.x with rd := rd } : XSt).opts.usePath c0.h := by rw [← hi.up] at hl; exact hl
    have hnames : StackInv (NND u) (extractEntry { m.x with rd := rd } c0.h).2.rd :=
      mentry_stackInv { m.x with rd := rd } c0.h names1 (fun c' hc' => hq c' hc' hl)
    refine ⟨by rw [hsx, hopts.2.xp]; exact hi.xp, by rw [hsx, hopts.2.up]; exact hi.up,
      by rw [hsx, hopts.1]; exact hi.dry, by rw [hsx]; exact hhdr, by rw [hsx]; exact hnames, ?_⟩
    rw [hsx]
    by_cases ht : rd.currType = .deferred
    · have hp2 : Phase2 rd := next_deferred_phase2 hn ht
      obtain ⟨hlog, hcwd⟩ := hi.below
      have hmono : DirMono fs0 m.x.fs := by
        rcases hi.phase with h | h
        · exact h.mono
        · exact h.2.1
      have := mentry_w_deferred hw fs0 { m.x with rd := rd } c0 hxp hlog hmono hcwd hgood.1 hgood.2
        hl' ht hcur'
      exact Or.inr ⟨this.1, hmono.trans (mentry_dirMono { m.x with rd := rd } c0.h), this.2.1,
        by rw [this.2.2]; exact hp2⟩
    · rcases hi.phase with h | h
      · exact Or.inl (mentry_w_main hw fs0 { m.x with rd := rd } c0 hxp h hgood.1 hgood.2 hl' ht hcur')
      · exact absurd (next_of_phase2 h.2.2.2 hn) ht
  · have hl' : ¬ NND ({ m.x with rd := rd } : XSt).opts.usePath c0.h := by rw [← hi.up] at hl; exact hl
    have hty : rd.currType = .normal := by
      rcases next_currType hn with h | h | h
      · exact h
      · exact absurd (names1.curr (Or.inl h) c0 hcurr) hl
      · exact absurd (names1.curr (Or.inr h) c0 hcurr) hl
    have hc : StepW c ds fs0 m.x.fs := by
      rcases hi.phase with h | h
      · exact h
      · have := next_of_phase2 h.2.2.2 hn
        rw [hty] at this; cases this
    have := mentry_w_dd hw fs0 { m.x with rd := rd } c0 hxp hc hgood.1 hgood.2 hl' hty
    refine ⟨by rw [hsx, hopts.2.xp]; exact hi.xp, by rw [hsx, hopts.2.up]; exact hi.up,
      by rw [hsx, hopts.1]; exact hi.dry, by rw [hsx]; exact hhdr, ?_, by rw [hsx]; exact Or.inl this.1⟩
    rw [hsx]
    rcases this.2 with h2 | h2
    · rw [h2]; exact names1
    · rw [h2]; exact extract_stackInv names1 false (fun h => by cases h)

theorem skip_invM (fs0 : Fs.St) (u : Bool) (m : Messages.St) (rd : Reader.St) (c0 : Reader.HObj)
    (hn : Reader.next m.x.rd = .ok (some c0, rd)) (hi : InvM d ds c fs0 u m) :
    InvM d ds c fs0 u { m with x := { m.x with rd := rd } } := by
  refine ⟨hi.xp, hi.up, hi.dry, next_inv parsed_good hi.hdr hn, next_stackInv hi.names hn, ?_⟩
  rcases hi.phase with h | h
  · exact Or.inl h
  · exact Or.inr ⟨h.1, h.2.1, h.2.2.1, next_deferred_phase2 hn (next_of_phase2 h.2.2.2 hn)⟩

theorem loop_invM (hw : WOpts d ds) (fs0 : Fs.St) (u : Bool) :
    ∀ (fuel : Nat) (m : Messages.St), InvM d ds c fs0 u m →
      LogW c ds fs0 (loop .extract fuel m).x.fs ∧ (loop .extract fuel m).x.fs.cwd = c := by
  intro fuel
  induction fuel with
  | zero => intro m hi; exact hi.below
  | succ n ih =>
    intro m hi
    rw [loop]
    split
    · exact hi.below
    · split
      · exact hi.below
      · exact hi.below
      · rename_i c0 rd hn
        split
        · exact ih _ (skip_invM fs0 u m rd c0 hn hi)
        · exact ih _ (step_invM hw fs0 u m rd c0 hn hi)

end loop

/-- **C10 with `w=DIR`, message-bearing model, relative to any prefix `ds` of `DIR`'s components**:
no hypothesis on the archive, the answers or the other options -/
theorem mrun_contained_w_gen (archive : Array UInt8) (o : Opts) (fs₀ : Fs.St) (answers : Bytes)
    (d : Bytes) (ds : List Bytes) (hx : o.extractPath = some d) (hw : WOpts d ds)
    (hi : InvW fs₀.cwd ds fs₀) :
    (Messages.run .extract archive o fs₀ answers).x.fs.cwd = fs₀.cwd ∧
    ∃ new, (Messages.run .extract archive o fs₀ answers).x.fs.log = new ++ fs₀.log ∧
      ∀ m ∈ new, Allowed fs₀.cwd ds fs₀ m := by
  cases hdry : o.dryRun with
  | true =>
    rw [(dry_run_touches_nothing archive o fs₀ answers hdry).1]
    exact ⟨rfl, [], by simp, by simp⟩
  | false =>
    have h := loop_invM hw fs₀ o.usePath (2 * archive.size + 16)
      { x := { rd := initReader archive, fs := fs₀, opts := o, answers := answers } }
      ⟨hx, rfl, hdry, runInit_inv _ archive o fs₀ answers, runInit_stackInv _ archive o fs₀ answers,
       Or.inl (StepW.refl hi)⟩
    exact ⟨h.2, h.1⟩

/-- **C10 with `w=DIR`, the whole run of the model tied to the real tool.**  `lha x`/`e` with `w=d`
and any of f, q, i, n, wildcards; `d` not empty, relative, without a ".." component;
`B = cwd ++ comps d`.  In the starting state: the current directory and its parent are
directories; whatever exists at a component prefix of `DIR` is a directory (the components may be
missing); every link visible below `B` is safe.  Then for ANY archive bytes and ANY answers the
current directory is kept and every mutation acts on a path below `B`, or is the `mkdir` of one of
`DIR`'s own components that did not exist at the start. -/
theorem mrun_contained_w (archive : Array UInt8) (o : Opts) (fs₀ : Fs.St) (answers : Bytes)
    (d : Bytes) (hx : o.extractPath = some d) (hne : d ≠ []) (hrel : d.head? ≠ some 0x2f)
    (hnd : NoDotDot d) (hd : DirsOk fs₀)
    (hchain : ∀ pre, pre <+: comps d → pre ≠ [] → NoFL fs₀ (fs₀.cwd ++ pre))
    (hs : SafeAt (fs₀.cwd ++ comps d) fs₀) :
    (Messages.runExtract archive o fs₀ answers).2.2.cwd = fs₀.cwd ∧
    ∃ new, (Messages.runExtract archive o fs₀ answers).2.2.log = new ++ fs₀.log ∧
      ∀ m ∈ new, (fs₀.cwd ++ comps d) <+: m.path ∨
        (m.op = "mkdir" ∧ Fs.lookup fs₀ m.path = none ∧
          ∃ pre, pre <+: comps d ∧ pre ≠ [] ∧ m.path = fs₀.cwd ++ pre) := by
  obtain ⟨h1, new, h2, h3⟩ := mrun_contained_w_gen archive o fs₀ answers d (comps d) hx
    ⟨hne, ⟨hrel, hnd⟩, List.prefix_refl _⟩ ⟨rfl, hs, hchain, hd.1, hd.2⟩
  refine ⟨h1, new, h2, fun m hm => (h3 m hm).imp id ?_⟩
  rintro ⟨ho, hnd', pre, hp, hpne, hpath⟩
  refine ⟨ho, ?_, pre, hp, hpne, hpath⟩
  cases hl : Fs.lookup fs₀ m.path with
  | none => rfl
  | some e =>
    obtain ⟨mo, t, rfl⟩ := hchain pre hp hpne e (by rw [← hpath]; exact hl)
    exact absurd ⟨mo, t, hl⟩ hnd'

/-- **… below the current directory**, whatever `DIR` consists of, when every link below the
current directory is safe -/
theorem mrun_contained_w_cwd (archive : Array UInt8) (o : Opts) (fs₀ : Fs.St) (answers : Bytes)
    (d : Bytes) (hx : o.extractPath = some d) (hne : d ≠ []) (hrel : d.head? ≠ some 0x2f)
    (hnd : NoDotDot d) (hs : SafeLinks fs₀) (hd : DirsOk fs₀) :
    (Messages.runExtract archive o fs₀ answers).2.2.cwd = fs₀.cwd ∧
    ∃ new, (Messages.runExtract archive o fs₀ answers).2.2.log = new ++ fs₀.log ∧
      ∀ m ∈ new, fs₀.cwd <+: m.path := by
  obtain ⟨h1, new, h2, h3⟩ := mrun_contained_w_gen archive o fs₀ answers d [] hx
    ⟨hne, ⟨hrel, hnd⟩, List.nil_prefix⟩ (invW_nil fs₀ hs hd)
  exact ⟨h1, new, h2, fun m hm => allowed_nil (h3 m hm)⟩

end LhasaV.ContainW
