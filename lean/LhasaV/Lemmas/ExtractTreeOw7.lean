import LhasaV.Lemmas.ExtractTreeOw6
/-!
# C06, overwriting (part 7): the tree theorem for a directory that holds files

`PreDir fs es`: the extraction directory exists and may be written; below it there are only regular
files directly in it (top level), and none of them stands where the archive has a directory or a
link.  (`preDirB`: an executable, sound check of this on the entry list of the file system.)

`run_tree_overwrite`: the run ends as `plan` says — the entries the plan writes are there in their
final form (archived contents, mode, time; directories with their recorded metadata), EVERY other
path below the extraction directory holds exactly what it held before (old contents, mode, time:
files kept on the user's or the policy's decision, files the run did not reach before it was
aborted, files that are not in the archive), and nothing outside changes.
-/
namespace LhasaV.ExtractTree
open LhasaV LhasaV.Header LhasaV.Extract LhasaV.GlobFs LhasaV.Contain

def Entry.isFile : Entry → Bool
  | .file _ _ _ _ => true
  | _ => false

theorem isFile_iff (e : Entry) : e.isFile = true ↔ ∃ p d pm t, e = .file p d pm t := by
  cases e <;> simp [Entry.isFile]

/-- **the extraction directory before the run**: a directory the user may search and write,
holding nothing but regular files directly in it, none of them at the place of a directory or
link of the archive -/
structure PreDir (fs0 : Fs.St) (es : List Entry) : Prop where
  dir : ∃ m t, Fs.lookup fs0 fs0.cwd = some (.dir m t) ∧
    (fs0.root = true ∨ (m / 64 % 2 = 1 ∧ m / 128 % 2 = 1))
  files : ∀ p, p ≠ [] → Fs.lookup fs0 (fs0.cwd ++ p) = none ∨
    (p.length = 1 ∧ ∃ d m t, Fs.lookup fs0 (fs0.cwd ++ p) = some (.file d m t))
  clash : ∀ e ∈ es, Fs.lookup fs0 (fs0.cwd ++ e.path) ≠ none → e.isFile = true

/-- an empty directory is a special case -/
theorem preDir_of_empty (fs0 : Fs.St) (es : List Entry) (h : EmptyDir fs0) (hne : ∀ e ∈ es, e.path ≠ []) :
    PreDir fs0 es :=
  ⟨h.dir, fun p hp => Or.inl (h.empty p hp), fun e he hl => absurd (h.empty e.path (hne e he)) hl⟩

theorem wf_entries : ∀ (es : List Entry) (stk seen : List Fs.Path), WF stk seen es → ∀ e ∈ es, EntryOk e := by
  intro es
  induction es with
  | nil => intro _ _ _ e he; cases he
  | cons x xs ih =>
    intro stk seen h e he
    rcases List.mem_cons.1 he with rfl | he
    · exact h.1
    · exact ih _ _ h.2.2.2 e he

theorem preAt_of_preDir {fs0 : Fs.St} {es : List Entry} (h : PreDir fs0 es) (hwf : WellFormed es) :
    ∀ e ∈ es, PreAt fs0 e := by
  intro e he
  have hk := wf_entries es [] [] hwf e he
  rcases h.files e.path hk.ne with hn | ⟨hl, d, m, t, hf⟩
  · exact Or.inl hn
  · obtain ⟨p, dd, pm, tt, rfl⟩ := (isFile_iff e).1 (h.clash e he (by rw [hf]; simp))
    exact Or.inr ⟨p, dd, pm, tt, d, m, t, rfl, hl, hf⟩

/-! ## the tree after the run -/

/-- **the tree the plan describes**: at the path of a written entry the entry in its final form;
everywhere else what was there before -/
def owTree (now umask : Nat) (old : Fs.Path → Option Fs.Ent) (written : List Entry) (p : Fs.Path) :
    Option Fs.Ent :=
  match treeOf now umask written p with
  | some x => some x
  | none => old p

/-- what stood below the extraction directory before the run -/
def oldAt (fs0 : Fs.St) (p : Fs.Path) : Option Fs.Ent := Fs.lookup fs0 (fs0.cwd ++ p)

theorem owTree_not_written (now umask : Nat) (old : Fs.Path → Option Fs.Ent) (written : List Entry)
    (p : Fs.Path) (h : ∀ e ∈ written, e.path ≠ p) : owTree now umask old written p = old p := by
  unfold owTree treeOf
  have : written.find? (fun e => e.path == p) = none := by
    rw [List.find?_eq_none]; intro e he; simpa using h e he
  rw [this]; rfl

theorem owTree_written (now umask : Nat) (old : Fs.Path → Option Fs.Ent) (written : List Entry)
    (hn : (written.map Entry.path).Nodup) (e : Entry) (he : e ∈ written) :
    owTree now umask old written e.path = some (e.final now umask) := by
  unfold owTree treeOf
  cases hf : written.find? (fun x => x.path == e.path) with
  | none =>
    rw [List.find?_eq_none] at hf
    exact absurd (by simp) (hf e he)
  | some x =>
    have hm := List.mem_of_find?_eq_some hf
    have hp : x.path = e.path := by simpa using List.find?_some hf
    rw [eq_of_path_eq written hn x hm e he hp]; rfl

/-- the plan writes a sublist of the archive's entries -/
theorem plan_sublist (ex : Fs.Path → Bool) : ∀ (es : List Entry) (pol : Overwrite) (ls : List Bytes),
    (plan ex pol ls es).1.Sublist es := by
  intro es
  induction es with
  | nil => intro _ _; exact List.Sublist.slnil
  | cons e es ih =>
    intro pol ls
    cases hask : asks ex e with
    | false => rw [plan_cons_free ex pol ls e es hask]; exact (ih pol ls).cons_cons e
    | true =>
      cases ha : askOne pol ls with
      | none => rw [plan_cons_eof ex pol ls e es hask ha]; exact List.nil_sublist _
      | some r =>
        obtain ⟨w, pol', ls'⟩ := r
        rw [plan_cons_asked ex pol ls e es hask w pol' ls' ha]
        cases w with
        | true => exact (ih pol' ls').cons_cons e
        | false => exact (ih pol' ls').cons e

/-! ## the theorem -/

/-- the side condition on the answer stream (needed under the policy "prompt" only): empty or
ending in a newline, and never 64 unusable lines in a row (`Extract.confirmOverwrite` gives up
after 64 tries, the tool never does).  The first conjunct is not used by the proof: `prompt_user`
skips NUL bytes when it looks for the first character of a line, which neither the specification
`reply` nor `Extract.readAnswer` do — with it, the specification is the tool's behaviour. -/
def OwAnswers (a : Bytes) : Prop := (0 : UInt8) ∉ a ∧ Terminated a ∧ JunkOk (lines a)

instance (a : Bytes) : Decidable (OwAnswers a) := inferInstanceAs (Decidable (_ ∧ _ ∧ _))

/-- the end of the run, read off the invariant -/
theorem final_o_tree {fs0 : Fs.St} {all : List Entry} {ab : Bool} {s : Extract.St}
    (hF : FinalO fs0 all ab s) :
    (∀ p, p ≠ [] → Fs.lookup s.fs (fs0.cwd ++ p) = owTree fs0.now fs0.umask (oldAt fs0) all p) ∧
    (∃ m t0 t, Fs.lookup fs0 fs0.cwd = some (.dir m t0) ∧ Fs.lookup s.fs fs0.cwd = some (.dir m t) ∧
      (all ≠ [] → fs0.cwd ≠ [] → t = fs0.now) ∧ (all = [] → t = t0)) ∧
    (∀ x, ¬ fs0.cwd <+: x → Fs.lookup s.fs x = Fs.lookup fs0 x) := by
  refine ⟨?_, ?_, hF.fs.outside⟩
  · intro p hp
    unfold owTree treeOf
    cases hf : all.find? (fun e => e.path == p) with
    | none =>
      rw [List.find?_eq_none] at hf
      rw [hF.fs.other p hp (fun e he h => hf e he (by simp [h]))]
      rfl
    | some e =>
      have hm := List.mem_of_find?_eq_some hf
      have hpe : e.path = p := by simpa using List.find?_some hf
      have := hF.fs.ents e hm
      rw [if_neg (by simp), hpe] at this
      rw [this]; rfl
  · obtain ⟨m, t0, t, h0, h1, _, h2, h3⟩ := hF.fs.cwd
    exact ⟨m, t0, t, h0, h1, h2, h3⟩

/-- **C06, overwriting — at the level of the loop.** -/
theorem extract_tree_ow (fuel : Nat) (s : Extract.St) (es : List Entry)
    (hs : Start s) (hfs : PreDir s.fs es) (ha : Access s.fs) (hwf : WellFormed es)
    (hans : s.opts.overwrite = .prompt → OwAnswers s.answers)
    (hfuel : 2 * es.length + 1 ≤ fuel) (hden : Denotes fuel s es) :
    FinalO s.fs (plan (exAt s.fs) s.opts.overwrite (lines s.answers) es).1
      (plan (exAt s.fs) s.opts.overwrite (lines s.answers) es).2 (extractLoop fuel s) := by
  obtain ⟨m, t, hl, hacc⟩ := hfs.dir
  have hinv : LoopInvO s.fs [] [] [] es s.opts.overwrite (lines s.answers) s := by
    refine ⟨⟨hs.aborted, hs.result, hs.opts, rfl, ⟨rfl, fun h => (hans h).2⟩,
      fsInvO_start s.fs m t hl hacc, ?_, fun e he => (by cases he), hwf⟩, ?_⟩
    · exact ⟨fun e he => (by cases he), List.nodup_nil, fun d hd => (by cases hd), trivial, List.nodup_nil⟩
    · refine ⟨hs.policy, hs.deferred, by rw [hs.stack]; trivial, Or.inl hs.ty, ?_⟩
      intro h
      rw [hs.ty] at h
      cases h
  have := loop_final_o s.fs ha fuel s [] [] es [] s.opts.overwrite (lines s.answers)
    (by simpa using hfuel) hinv (preAt_of_preDir hfs hwf) hden
  simpa using this

/-- **C06: an archived file replaces an existing one only under the overwrite policy in force.**
`lha x archive` (no `w=`, no `i`, no wildcards; any of `f`, `q`) on an archive that denotes the
well-formed entry list `es`, in an extraction directory that already holds regular files (at
top-level names of file members, or at other names), as root or as an ordinary user, with the
answers `answers` typed at the prompts.  With `plan` the independent specification of the policy
(`.all`: always overwrite; `.prompt`: per line y/Y overwrite, n/N/empty keep, a/A overwrite this
and all later, s/S keep this and all later, anything else ask again; end of input: abort):

* the run is aborted (`exit(-1)`) exactly when the plan is, and otherwise succeeds;
* below the extraction directory, the entries the plan writes are there in their final form, and
  every other path holds exactly what it held before — in particular a file the decision kept has
  its old contents, mode and time, and so have the files at and after the entry where the run
  was aborted, and files that are not in the archive;
* the extraction directory keeps its mode, is stamped `now` once something is written and keeps
  its time otherwise; nothing outside it changes. -/
theorem run_tree_overwrite (archive : Array UInt8) (o : Opts) (fs : Fs.St) (answers : Bytes)
    (es : List Entry) (ho : OptsOk o) (hfs : PreDir fs es) (ha : Access fs) (hwf : WellFormed es)
    (hans : o.overwrite = .prompt → OwAnswers answers)
    (hfuel : 2 * es.length + 1 ≤ runFuel archive)
    (hden : Denotes (runFuel archive) (runInit archive o fs answers) es) :
    (run archive o fs answers).aborted = (plan (exAt fs) o.overwrite (lines answers) es).2 ∧
    (run archive o fs answers).result = !(plan (exAt fs) o.overwrite (lines answers) es).2 ∧
    (∀ p, p ≠ [] → Fs.lookup (run archive o fs answers).fs (fs.cwd ++ p) =
      owTree fs.now fs.umask (oldAt fs) (plan (exAt fs) o.overwrite (lines answers) es).1 p) ∧
    (∃ m t0 t, Fs.lookup fs fs.cwd = some (.dir m t0) ∧
      Fs.lookup (run archive o fs answers).fs fs.cwd = some (.dir m t) ∧
      ((plan (exAt fs) o.overwrite (lines answers) es).1 ≠ [] → fs.cwd ≠ [] → t = fs.now) ∧
      ((plan (exAt fs) o.overwrite (lines answers) es).1 = [] → t = t0)) ∧
    (∀ x, ¬ fs.cwd <+: x → Fs.lookup (run archive o fs answers).fs x = Fs.lookup fs x) := by
  rw [run_eq]
  have hF := extract_tree_ow (runFuel archive) (runInit archive o fs answers) es
    (start_run archive o fs answers ho) hfs ha hwf hans hfuel hden
  obtain ⟨h1, h2, h3⟩ := final_o_tree hF
  exact ⟨hF.aborted, hF.result, h1, h2, h3⟩

/-! ## reading the tree: the three kinds of paths -/

/-- the written entries have pairwise distinct paths -/
theorem plan_nodup (ex : Fs.Path → Bool) (es : List Entry) (hwf : WellFormed es) (pol : Overwrite)
    (ls : List Bytes) : ((plan ex pol ls es).1.map Entry.path).Nodup := by
  have h := wf_nodup es [] [] hwf List.nodup_nil
  simp only [List.nil_append] at h
  exact ((plan_sublist ex es pol ls).map Entry.path).nodup h

end LhasaV.ExtractTree
