import LhasaV.Lemmas.ExtractTreeImp2
/-!
# C06 with implicit parents (part 3): the invariant after one entry

`FsInvI.step`: `make_parent_directories` (`ParentsMade`) followed by the creation of the new
entry re-establishes the invariant for `done ++ [e]`: the directories that were missing are now
implicit directories of `e`; those that existed (open directory entries, implicit directories)
already carried `now`, so stamping them changed nothing.  `FsInvI.close`: the metadata step of the
innermost open directory.  `doneI_push`, `doneI_pop`: the book-keeping.
-/
namespace LhasaV.ExtractTree
open LhasaV LhasaV.Header LhasaV.Extract LhasaV.GlobFs LhasaV.Contain

/-- a non-empty prefix of a done path exists -/
theorem FsInvI.exists_of_prefix {fs0 fs : Fs.St} {done : List Entry} {stk : List Fs.Path}
    (hi : FsInvI fs0 done stk fs) (p : Fs.Path) (h0 : p ≠ []) (hex : ∃ a ∈ done, p <+: a.path) :
    Fs.lookup fs (fs0.cwd ++ p) ≠ Option.none := by
  by_cases hent : ∃ x ∈ done, x.path = p
  · obtain ⟨x, hx, hxp⟩ := hent
    have := hi.ents x hx
    rw [hxp] at this
    rw [this]; simp
  · rw [hi.imp p h0 hex (fun x hx h => hent ⟨x, hx, h⟩)]; simp

/-- **the invariant after a new entry**, its missing parents made first -/
theorem FsInvI.step {fs0 fs fsY fs' : Fs.St} {done : List Entry} {stk stk' : List Fs.Path} {e : Entry}
    {k : Nat} (hi : FsInvI fs0 done stk fs) (ha : AccessW fs0) (hne : e.path ≠ [])
    (hok : ∀ a ∈ done, a.path ≠ []) (hfresh : ∀ a ∈ done, ¬ e.path <+: a.path)
    (hpm : ParentsMade fs0 fs fsY e.path.dropLast k)
    (hc : Created fsY fs' (fs0.cwd ++ e.path)
      (if e.path ∈ stk' then e.opened fs0.now fs0.umask else e.final fs0.now fs0.umask))
    (hstk : ∀ p, p ≠ e.path → (p ∈ stk' ↔ p ∈ stk)) :
    FsInvI fs0 (done ++ [e]) stk' fs' := by
  have hpY : SameParams fs0 fsY := hi.params.trans hpm.made.params
  obtain ⟨u1, u2, u3, u4⟩ := after_parents hi.params ha hpm
  have hsb := hc.same_below hne (fun h0 => by
    obtain ⟨m, t, hl, _, ht⟩ := u1 _ (List.prefix_refl _)
    exact ⟨m, by rw [hpY.now, hl, ht h0]⟩)
  -- paths that are not above the new entry
  have F1 : ∀ p, ¬ p <+: e.path → Fs.lookup fs' (fs0.cwd ++ p) = Fs.lookup fs (fs0.cwd ++ p) := by
    intro p hp
    have hp0 : p ≠ [] := fun h => hp (h ▸ List.nil_prefix)
    rw [hsb _ (append_ne_of_ne (fun h => hp (h ▸ List.prefix_refl _))) (cwd_ne_append hp0).symm]
    apply u4
    intro q hq heq
    have := List.append_cancel_left heq
    exact hp (this ▸ hq.trans (List.dropLast_prefix _))
  -- the directories above it
  have F2 : ∀ p, p ≠ [] → p ≠ e.path →
      Fs.lookup fs' (fs0.cwd ++ p) = Fs.lookup fsY (fs0.cwd ++ p) :=
    fun p h0 h2 => hsb _ (append_ne_of_ne h2) (cwd_ne_append h0).symm
  have F3 : ∀ p, p ≠ [] → p <+: e.path.dropLast →
      ((∃ a ∈ done, p <+: a.path) → Fs.lookup fsY (fs0.cwd ++ p) = Fs.lookup fs (fs0.cwd ++ p)) ∧
      ((∀ a ∈ done, ¬ p <+: a.path) →
        Fs.lookup fsY (fs0.cwd ++ p) = some (.dir (impMode fs0.umask) fs0.now)) := by
    intro p h0 hp
    have hp' : p <+: e.path.dropLast.take k ++ e.path.dropLast.drop k := by
      rw [List.take_append_drop]; exact hp
    rcases prefix_split hp' with h1 | ⟨q, hq, hqb, rfl⟩
    · refine ⟨fun _ => u2 p h0 h1, fun hno => ?_⟩
      obtain ⟨m, t, hl, _⟩ := hpm.usable p h1
      rw [hi.none p h0 hno] at hl; cases hl
    · refine ⟨fun hex => ?_, fun _ => u3 q hq hqb⟩
      exact absurd (hpm.missing q hq hqb) (hi.exists_of_prefix _ h0 hex)
  refine ⟨hi.params.trans (hpm.made.params.trans hc.params), ?_, ?_, ?_, ?_, ?_⟩
  · intro a ha'
    rcases List.mem_append.1 ha' with had | hae
    · have hpe : a.path ≠ e.path := fun h => hfresh a had (h ▸ List.prefix_refl _)
      have h0 := hok a had
      have : Fs.lookup fs' (fs0.cwd ++ a.path) = Fs.lookup fs (fs0.cwd ++ a.path) := by
        by_cases hpa : a.path <+: e.path
        · rw [F2 _ h0 hpe]
          exact (F3 _ h0 (prefix_dropLast _ _ hpa hpe)).1 ⟨a, had, List.prefix_refl _⟩
        · exact F1 _ hpa
      rw [this, hi.ents a had]
      simp only [hstk _ hpe]
    · have : a = e := by simpa using hae
      subst this; exact hc.self
  · intro p h0 hex hno
    have hpe : p ≠ e.path := fun h => hno e (by simp) h.symm
    have hno' : ∀ a ∈ done, a.path ≠ p := fun a h => hno a (List.mem_append_left _ h)
    by_cases hpa : p <+: e.path
    · rw [F2 _ h0 hpe]
      have hpp := prefix_dropLast _ _ hpa hpe
      by_cases hd : ∃ a ∈ done, p <+: a.path
      · rw [(F3 _ h0 hpp).1 hd]; exact hi.imp p h0 hd hno'
      · exact (F3 _ h0 hpp).2 (fun a had h => hd ⟨a, had, h⟩)
    · rw [F1 _ hpa]
      obtain ⟨x, hx, hpx⟩ := hex
      rcases List.mem_append.1 hx with hx | hx
      · exact hi.imp p h0 ⟨x, hx, hpx⟩ hno'
      · have : x = e := by simpa using hx
        subst this; exact absurd hpx hpa
  · intro p h0 hno
    rw [F1 _ (hno e (by simp))]
    exact hi.none p h0 (fun a had => hno a (List.mem_append_left _ had))
  · obtain ⟨m, t, hl, hacc, ht, t0, hl0⟩ := hi.cwd
    obtain ⟨t1, hl1, ht1, hs1⟩ := hpm.made.cwd_dir m t (by rw [hi.params.cwd]; exact hl)
    rw [hi.params.cwd] at hl1 hs1
    rw [hi.params.now] at ht1 hs1
    obtain ⟨t2, hl2, ht2, hs2⟩ := hc.cwd_dir hne m t1 hl1
    rw [hpY.now] at ht2 hs2
    refine ⟨m, t2, hl2, hacc, ?_, t0, hl0⟩
    intro _ hc0
    by_cases hd : done = []
    · by_cases hpar : e.path.dropLast = []
      · exact hs2 hpar hc0
      · have hk : e.path.dropLast.take k = [] := by
          by_cases hk : e.path.dropLast.take k = []
          · exact hk
          · obtain ⟨m', t', hl', _⟩ := hpm.usable _ (List.prefix_refl _)
            rw [hi.none _ hk (by rw [hd]; intro a h; cases h)] at hl'; cases hl'
        have hb : e.path.dropLast.drop k ≠ [] := by
          intro hb
          have := List.take_append_drop k e.path.dropLast
          rw [hk, hb] at this
          exact hpar this.symm
        have := hs1 hk hb hc0
        rcases ht2 with h | h
        · rw [h, this]
        · exact h
    · have := ht hd hc0
      rcases ht2 with h | h
      · rw [h]
        rcases ht1 with h' | h'
        · rw [h', this]
        · exact h'
      · exact h
  · intro x hx
    have hq : (fs0.cwd ++ e.path).dropLast = fs0.cwd ++ e.path.dropLast :=
      List.dropLast_append_of_ne_nil hne
    rw [hc.frame x (fun h => hx (h ▸ List.prefix_append _ _))
      (fun h => hx (by rw [h, hq]; exact List.prefix_append _ _)),
      u4 x (fun q _ h => hx (h ▸ List.prefix_append _ _))]
    exact hi.outside x hx

/-- the invariant after the metadata step of the innermost open directory -/
theorem FsInvI.close {fs0 fs fs' : Fs.St} {done : List Entry} {t : Fs.Path} {stk : List Fs.Path}
    {d : Entry} (hi : FsInvI fs0 done (t :: stk) fs) (hd : d ∈ done) (hdt : d.path = t)
    (hne : t ≠ []) (hts : t ∉ stk) (huniq : ∀ e' ∈ done, e'.path = t → e' = d)
    (hc : Touched fs fs' (fs0.cwd ++ t) (d.final fs0.now fs0.umask)) :
    FsInvI fs0 done stk fs' := by
  refine ⟨hi.params.trans hc.params, ?_, ?_, ?_, ?_, ?_⟩
  · intro e' he'
    by_cases hpe : e'.path = t
    · have := huniq e' he' hpe
      subst this
      rw [hpe, if_neg hts, hc.self]
    · rw [hc.frame _ (append_ne_of_ne hpe), hi.ents e' he']
      simp only [List.mem_cons, hpe, false_or]
  · intro p hp0 hex hno
    have hpt : p ≠ t := fun h => hno d hd (hdt.trans h.symm)
    rw [hc.frame _ (append_ne_of_ne hpt)]
    exact hi.imp p hp0 hex hno
  · intro p hp0 hall
    have hpt : p ≠ t := fun h => hall d hd (by rw [h, hdt]; exact List.prefix_refl _)
    rw [hc.frame _ (append_ne_of_ne hpt)]
    exact hi.none p hp0 hall
  · obtain ⟨m, t', hl, hacc, ht, h0⟩ := hi.cwd
    refine ⟨m, t', ?_, hacc, ht, h0⟩
    rw [hc.frame _ (cwd_ne_append hne)]
    exact hl
  · intro x hx
    rw [hc.frame x (fun h => hx (h ▸ List.prefix_append _ _))]
    exact hi.outside x hx

/-! ## book-keeping -/

theorem doneI_push {done stk : List Entry} {e : Entry} (hd : DoneI done stk) (hk : EntryOk e)
    (hfresh : ∀ a ∈ done, ¬ e.path <+: a.path)
    (hopen : ∀ a ∈ done, a.path <+: e.path → a.path ∈ stk.map Entry.path) :
    DoneI (done ++ [e]) (if e.isDir then e :: stk else stk) := by
  have hnew : e.path ∉ done.map Entry.path := by
    intro h
    obtain ⟨a, had, hap⟩ := List.mem_map.1 h
    exact hfresh a had (hap ▸ List.prefix_refl _)
  have hsubm : ∀ p, p ∈ stk.map Entry.path →
      p ∈ (if e.isDir then e :: stk else stk).map Entry.path := by
    intro p hp; cases e.isDir <;> simp [hp]
  refine ⟨?_, ?_, ?_, ?_, ?_⟩
  · intro x hx
    rcases List.mem_append.1 hx with hx | hx
    · exact hd.ok x hx
    · have : x = e := by simpa using hx
      subst this; exact hk
  · rw [List.map_append, List.map_singleton]
    refine List.nodup_append.2 ⟨hd.nodup, by simp, ?_⟩
    intro a ha b hb
    have : b = e.path := by simpa using hb
    subst this
    intro hab
    exact hnew (hab ▸ ha)
  · intro x hx
    cases hdir : e.isDir with
    | true =>
      rw [hdir] at hx
      simp only [if_true] at hx
      rcases List.mem_cons.1 hx with rfl | hx
      · exact ⟨by simp, hdir⟩
      · exact ⟨List.mem_append_left _ (hd.sub x hx).1, (hd.sub x hx).2⟩
    | false =>
      rw [hdir] at hx
      simp only [Bool.false_eq_true, if_false] at hx
      exact ⟨List.mem_append_left _ (hd.sub x hx).1, (hd.sub x hx).2⟩
  · intro d hds a had hp
    have hcase : d = e ∨ d ∈ stk := by
      cases hdir : e.isDir with
      | true => rw [hdir] at hds; simpa using hds
      | false => rw [hdir] at hds; exact Or.inr (by simpa using hds)
    rcases List.mem_append.1 had with had1 | hae
    · rcases hcase with hde | hds'
      · rw [hde] at hp; exact hsubm _ (hopen a had1 hp)
      · exact hsubm _ (hd.anc d hds' a had1 hp)
    · have hae' : a = e := by simpa using hae
      rcases hcase with hde | hds'
      · rw [hae']; exact List.mem_map.2 ⟨e, hde ▸ hds, rfl⟩
      · rw [hae'] at hp; exact absurd hp (hfresh d (hd.sub d hds').1)
  · cases e.isDir with
    | false => simpa using hd.sorder
    | true =>
      simp only [if_true, List.map_cons]
      refine List.pairwise_cons.2 ⟨?_, hd.sorder⟩
      intro b hb
      obtain ⟨d, hds, rfl⟩ := List.mem_map.1 hb
      exact hfresh d (hd.sub d hds).1

theorem doneI_pop {done stk : List Entry} {d : Entry} (hd : DoneI done (d :: stk)) : DoneI done stk := by
  have hso := hd.sorder
  simp only [List.map_cons] at hso
  obtain ⟨hhead, htail⟩ := List.pairwise_cons.1 hso
  refine ⟨hd.ok, hd.nodup, fun x hx => hd.sub x (List.mem_cons_of_mem _ hx), ?_, htail⟩
  intro d' hds a had hp
  have := hd.anc d' (List.mem_cons_of_mem _ hds) a had hp
  simp only [List.map_cons, List.mem_cons] at this
  rcases this with h | h
  · exact absurd (h ▸ hp) (hhead _ (List.mem_map.2 ⟨d', hds, rfl⟩))
  · exact h

theorem doneI_snodup {done stk : List Entry} (hd : DoneI done stk) : (stk.map Entry.path).Nodup := by
  have := hd.sorder
  unfold List.Nodup
  exact this.imp (fun {a b} h e => h (by rw [e]; exact List.prefix_refl _))

end LhasaV.ExtractTree
