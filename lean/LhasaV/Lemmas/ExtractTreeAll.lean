import LhasaV.Lemmas.ExtractTreeAll13
/-!
# C06 — the tree theorem with ALL deviations from the plain case at once

Umbrella for `ExtractTreeAll1` … `ExtractTreeAll13` (namespaces `LhasaV.ExtractTree`,
`LhasaV.ArchiveOf`).  `ExtractTreeOpt*` (wildcards, `w=DIR`), `ExtractTreeOw*` (pre-existing files,
overwrite policy), `ExtractTreeImp*` (implicit parents, late directory entries) each cover ONE
deviation; the correspondence check generates their combinations.  Here ONE theorem covers them
(option `i` stays separate: `run_tree_flat`, ExtractTreeOpt11).

1. **Design** (`All1`–`All3`).  ONE file-system invariant `FsInvU fs₁ B done stk fs`: base path `B`
   (`FsInvB`), implicit directories (`FsInvI`), "every other path below `B` is as in the reference
   state" (`FsInvO`).  `WFU sel`: the mixed discipline `WFI` for the SELECTED entries (an unselected
   entry only closes the open directories it is outside of).  `BaseU`: `BaseOk` with "at most
   regular files directly below the place".  `ParentsMadeB` / `parents_madeU` / `after_parentsU`:
   `make_parent_directories` = walk over `DIR`'s components, then `mkDirs` below the base.
2. **Loop** (`All4`–`All6`).  `CoreInvU` / `LoopInvU` (written entries, open directories, paths
   handled, policy in force, answer lines left; `FsPhU`: untouched before the first write, `FsInvU`
   w.r.t. `mkBase` after).  `entry_facts_u`, `step_write_u`, `step_keep_u`, `step_late_u`,
   `step_close_u`, **`loop_final_u`**.
3. **Theorems** (`All7`, `All8`).  **`run_tree_unified`** (reader hypothesis `DenotesF`),
   **`extract_archiveWith_unified`** / **`extract_archiveOf_unified`** (on bytes): the run aborts exactly
   when `uniPlan` = `plan` (overwrite policy, independent specification) ∘ `keptOf` (late directory
   entries dropped) ∘ `filter selected` does, and below the base the tree is `uniTree` = written
   entries in final form, implicit parents 0755-umask / now, everything else as before; `DIR` made
   as `MadeFrom` says; nothing else changes.  Special forms: `extract_archiveOf_unclosed` (a),
   `extract_archiveOf_reloc_unclosed` (b).
4. **Directory-first archives, ANY wildcard list** (`All9`): `wfu_of_wf`,
   **`extract_archiveOf_selected_any`** — `ParentClosed` is no longer needed.
5. **The family follows** (`All9`, `All10`): `extract_archiveOf_closed_of_unified`,
   `…_mixed_of_unified`, `…_implicit_of_unified`, `extract_archiveOf_of_unified`,
   `…_reloc_of_unified`, `…_ow_of_unified` — the earlier closed forms with their original statements.
6. **Evaluable hypotheses** (`All11`): `baseUB` / `baseUB_sound`; `WFU`, `PreAtU`, `Asked` decidable.
7. **Non-vacuity** (`All12`) and `#guard`s on the bytes incl. the model outside the domain (`All13`).

Domain limits (all `#guard`ed in `All13`): pre-existing DIRECTORIES below the base; a pre-existing
file where a directory is needed (the tool `exit(-1)`s at the overwrite check of the first FILE
member below it — ENOTDIR from `stat`); an unselected entry between a selected directory entry and
its selected contents (it closes the directory); option `i`.
-/

#print axioms LhasaV.ExtractTree.loop_final_u
#print axioms LhasaV.ExtractTree.run_tree_unified
#print axioms LhasaV.ArchiveOf.extract_archiveWith_unified
#print axioms LhasaV.ArchiveOf.extract_archiveOf_unified
#print axioms LhasaV.ArchiveOf.extract_archiveOf_unclosed
#print axioms LhasaV.ArchiveOf.extract_archiveOf_reloc_unclosed
#print axioms LhasaV.ExtractTree.wfu_of_wf
#print axioms LhasaV.ArchiveOf.extract_archiveOf_selected_any
#print axioms LhasaV.ArchiveOf.extract_archiveOf_closed_of_unified
#print axioms LhasaV.ArchiveOf.extract_archiveOf_mixed_of_unified
#print axioms LhasaV.ArchiveOf.extract_archiveOf_implicit_of_unified
#print axioms LhasaV.ArchiveOf.extract_archiveOf_of_unified
#print axioms LhasaV.ArchiveOf.extract_archiveOf_reloc_of_unified
#print axioms LhasaV.ArchiveOf.extract_archiveOf_ow_of_unified
#print axioms LhasaV.ExtractTree.baseUB_sound
#print axioms LhasaV.ArchiveOf.sample_star_y
#print axioms LhasaV.ArchiveOf.sample_star_y_dir
#print axioms LhasaV.ArchiveOf.sample_mixed_y
#print axioms LhasaV.ArchiveOf.sample_out_implicit
#print axioms LhasaV.ArchiveOf.sample_all_n
#print axioms LhasaV.ArchiveOf.sample_all_y
#print axioms LhasaV.ArchiveOf.sample_all_eof
#print axioms LhasaV.ArchiveOf.sample_all_f
