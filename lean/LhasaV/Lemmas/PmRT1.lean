import LhasaV.Model.Pm
import LhasaV.Spec.PmEnc
import LhasaV.Lemmas.PmSafe
/-!
PMarc round trip, part A: the history linked list of `pma_common.c`
(`Pma.Hist`: `prev`/`next` arrays and `head`) refines the move-to-front list of
the stream-format specification (`Spec.PmEnc.mtfMove`).

* `HistRel h l`: `l` lists all 256 byte values and `h` is the doubly linked
  cyclic list in that order starting at the head (`prev` walks forward in `l`).
* `histRel_init`, `find_spec`, `update_spec`, `updates_spec`.
-/
namespace LhasaV.PmRT
open LhasaV LhasaV.Spec.PmEnc

/-- the byte value at position `k` of the list, as a number -/
def at' (l : List UInt8) (k : Nat) : Nat := (l.getD k 0).toNat

/-- `l` lists all 256 byte values, `h` is the doubly linked cyclic list in that order
starting at the head: `prev` of the node at position `k` is the node at position `k + 1`,
`next` the other way round, cyclically. -/
structure HistRel (h : Pma.Hist) (l : List UInt8) : Prop where
  len : l.length = 256
  nodup : l.Nodup
  all : ∀ n, n < 256 → UInt8.ofNat n ∈ l
  psz : h.prev.size = 256
  nsz : h.next.size = 256
  head : h.head = at' l 0
  prev : ∀ k, k < 256 → h.prev[at' l k]? = some (at' l ((k + 1) % 256))
  next : ∀ k, k < 256 → h.next[at' l ((k + 1) % 256)]? = some (at' l k)

theorem at_lt (l : List UInt8) (k : Nat) : at' l k < 256 := UInt8.toNat_lt _

theorem getD_eq (l : List UInt8) (k : Nat) (hk : k < l.length) : l.getD k 0 = l[k] := by
  simp [List.getD_eq_getElem?_getD, hk]

theorem HistRel.mem {h : Pma.Hist} {l : List UInt8} (hr : HistRel h l) (b : UInt8) : b ∈ l := by
  have := hr.all b.toNat (UInt8.toNat_lt b)
  rwa [UInt8.ofNat_toNat] at this

theorem nodup_inj {l : List UInt8} (hn : l.Nodup) {j k : Nat} (hj : j < l.length)
    (hk : k < l.length) (h : l[j] = l[k]) : j = k := by
  have h1 := hn.idxOf_getElem j hj
  have h2 := hn.idxOf_getElem k hk
  rw [h] at h1
  omega

theorem at_inj {l : List UInt8} (hlen : l.length = 256) (hn : l.Nodup) (j k : Nat) (hj : j < 256)
    (hk : k < 256) (h : at' l j = at' l k) : j = k := by
  unfold at' at h
  rw [UInt8.toNat_inj, getD_eq l j (by omega), getD_eq l k (by omega)] at h
  exact nodup_inj hn (by omega) (by omega) h

/-! ### index arithmetic of one move to front -/

/-- position in the old list of the element at position `k` of the new list, `i` being the old
position of the byte moved to the front -/
def sg (i k : Nat) : Nat := if k = 0 then i else if k ≤ i then k - 1 else k

theorem sg_lt (i k : Nat) (hi : i < 256) (hk : k < 256) : sg i k < 256 := by
  unfold sg; split
  · exact hi
  · split <;> omega

theorem L_eq_iff {L : Nat → Nat} (hinj : ∀ j k, j < 256 → k < 256 → L j = L k → j = k)
    {a b : Nat} (ha : a < 256) (hb : b < 256) : L a = L b ↔ a = b :=
  ⟨hinj a b ha hb, fun h => h ▸ rfl⟩

theorem upd_prev_core (L : Nat → Nat) (pv : Nat → Option Nat) (i : Nat) (hi : i < 256) (hi0 : i ≠ 0)
    (hinj : ∀ j k, j < 256 → k < 256 → L j = L k → j = k)
    (hpv : ∀ k, k < 256 → pv (L k) = some (L ((k + 1) % 256)))
    (o : Nat) (ho : o = if i = 255 then 254 else 255)
    (k : Nat) (hk : k < 256) :
    (if L o = L (sg i k) then some (L i) else if L i = L (sg i k) then some (L 0)
      else if L (i - 1) = L (sg i k) then some (L ((i + 1) % 256)) else pv (L (sg i k)))
      = some (L (sg i ((k + 1) % 256))) := by
  have ho' : o < 256 := by subst ho; split <;> omega
  have hs := sg_lt i k hi hk
  rw [hpv _ hs]
  simp only [L_eq_iff hinj ho' hs, L_eq_iff hinj hi hs, L_eq_iff hinj (show i - 1 < 256 by omega) hs]
  subst ho
  unfold sg
  repeat' split
  all_goals first | omega | (congr 2 <;> omega)

theorem upd_next_core (L : Nat → Nat) (nx : Nat → Option Nat) (i : Nat) (hi : i < 256) (hi0 : i ≠ 0)
    (hinj : ∀ j k, j < 256 → k < 256 → L j = L k → j = k)
    (hnx : ∀ k, k < 256 → nx (L ((k + 1) % 256)) = some (L k))
    (o : Nat) (ho : o = if i = 255 then 254 else 255)
    (k : Nat) (hk : k < 256) :
    (if L 0 = L (sg i ((k + 1) % 256)) then some (L i)
      else if L i = L (sg i ((k + 1) % 256)) then some (L o)
      else if L ((i + 1) % 256) = L (sg i ((k + 1) % 256)) then some (L (i - 1))
      else nx (L (sg i ((k + 1) % 256))))
      = some (L (sg i k)) := by
  have ho' : o < 256 := by subst ho; split <;> omega
  have hs := sg_lt i ((k + 1) % 256) hi (Nat.mod_lt _ (by decide))
  have hn : nx (L (sg i ((k + 1) % 256))) = some (L ((sg i ((k + 1) % 256) + 255) % 256)) := by
    have := hnx ((sg i ((k + 1) % 256) + 255) % 256) (Nat.mod_lt _ (by decide))
    rw [← this]; congr 2; omega
  rw [hn]
  simp only [L_eq_iff hinj (show 0 < 256 by decide) hs, L_eq_iff hinj hi hs,
    L_eq_iff hinj (show (i + 1) % 256 < 256 from Nat.mod_lt _ (by decide)) hs]
  subst ho
  unfold sg
  repeat' split
  all_goals first | omega | (congr 2 <;> omega)

/-! ### the list side of one move to front -/

theorem mtfMove_at (l : List UInt8) (hn : l.Nodup) (i : Nat) (hi : i < l.length) (k : Nat) :
    (mtfMove l l[i]).getD k 0 = l.getD (sg i k) 0 := by
  unfold mtfMove
  rw [List.erase_eq_eraseIdx_of_idxOf (hn.idxOf_getElem i hi)]
  unfold sg
  cases k with
  | zero => simp [hi]
  | succ k =>
    rw [List.getD_cons_succ]
    simp only [List.getD_eq_getElem?_getD, List.getElem?_eraseIdx]
    have e : ¬ k + 1 = 0 := by omega
    simp only [e, if_false]
    by_cases hki : k < i
    · have : k + 1 ≤ i := hki
      simp only [hki, this, if_true, Nat.add_sub_cancel]
    · have : ¬ k + 1 ≤ i := by omega
      simp only [hki, this, if_false]

theorem mtfMove_length (l : List UInt8) (b : UInt8) (hb : b ∈ l) :
    (mtfMove l b).length = l.length := by
  have := List.length_pos_of_mem hb
  simp [mtfMove, List.length_erase_of_mem hb]; omega

theorem mtfMove_nodup (l : List UInt8) (b : UInt8) (hn : l.Nodup) : (mtfMove l b).Nodup := by
  unfold mtfMove
  rw [List.nodup_cons]
  refine ⟨?_, hn.erase b⟩
  rw [hn.mem_erase_iff]
  simp

theorem mtfMove_mem (l : List UInt8) (b c : UInt8) (hc : c ∈ l) : c ∈ mtfMove l b := by
  unfold mtfMove
  by_cases h : c = b
  · simp [h]
  · exact List.mem_cons_of_mem _ ((List.mem_erase_of_ne h).mpr hc)

theorem mtfMove_head (l : List UInt8) (b : UInt8) (tl : List UInt8) (h : l = b :: tl) :
    mtfMove l b = l := by
  subst h; simp [mtfMove]

/-! ### `find_in_history_list` -/

theorem walkPrev_spec (h : Pma.Hist) (l : List UInt8) (hr : HistRel h l) (k j : Nat) (hj : j < 256) :
    Pma.walkPrev h k (at' l j) = .ok (at' l ((j + k) % 256)) := by
  induction k generalizing j with
  | zero => simp [Pma.walkPrev, Nat.mod_eq_of_lt hj]
  | succ k ih =>
    unfold Pma.walkPrev
    rw [hr.prev j hj]
    simp only
    rw [ih _ (Nat.mod_lt _ (by decide))]
    congr 2; omega

theorem walkNext_spec (h : Pma.Hist) (l : List UInt8) (hr : HistRel h l) (k j : Nat) (hj : j < 256) :
    Pma.walkNext h k (at' l ((j + k) % 256)) = .ok (at' l j) := by
  induction k generalizing j with
  | zero => simp [Pma.walkNext, Nat.mod_eq_of_lt hj]
  | succ k ih =>
    unfold Pma.walkNext
    have e : (j + (k + 1)) % 256 = ((j + k) % 256 + 1) % 256 := by omega
    rw [e, hr.next _ (Nat.mod_lt _ (by decide))]
    simp only
    exact ih j hj

/-- **A2.** `find_in_history_list(list, k)` returns the byte at position `k` of the
move-to-front list: both walking directions (`k < 128` forwards along `prev`, otherwise
`256 − k` steps along `next`). -/
theorem find_spec (h : Pma.Hist) (l : List UInt8) (hr : HistRel h l) (k : Nat) (hk : k < 256) :
    Pma.find h k = .ok (l.getD k 0).toNat := by
  unfold Pma.find
  rw [hr.head]
  split
  · have := walkPrev_spec h l hr k 0 (by decide)
    rw [this]; congr 2; omega
  · have := walkNext_spec h l hr (256 - k) k hk
    have e : (k + (256 - k)) % 256 = 0 := by
      have : k + (256 - k) = 256 := by omega
      rw [this]
    rw [e] at this
    exact this

/-! ### `update_history_list` -/

theorem set3 (a : Array Nat) (hsz : a.size = 256) (i1 v1 i2 v2 i3 v3 x : Nat) (h1 : i1 < 256)
    (h2 : i2 < 256) (h3 : i3 < 256) :
    (((a.setIfInBounds i1 v1).setIfInBounds i2 v2).setIfInBounds i3 v3)[x]? =
      if i3 = x then some v3 else if i2 = x then some v2 else if i1 = x then some v1 else a[x]? := by
  simp only [Array.getElem?_setIfInBounds, Array.size_setIfInBounds, hsz, h1, h2, h3, if_true]

/-- symbolic execution of `update_history_list` when every access is in range -/
theorem update_exec (h : Pma.Hist) (b nN nP oh : Nat) (hne : h.head ≠ b)
    (hps : h.prev.size = 256) (hns : h.next.size = 256)
    (hb : b < 256) (hhd : h.head < 256) (hnN : nN < 256) (hnP : nP < 256) (hoh : oh < 256)
    (h1 : h.next[b]? = some nN) (h2 : h.prev[b]? = some nP)
    (h3 : (h.next.setIfInBounds nP nN)[h.head]? = some oh) :
    Pma.update h b = .ok
      { prev := ((h.prev.setIfInBounds nN nP).setIfInBounds b h.head).setIfInBounds oh b,
        next := ((h.next.setIfInBounds nP nN).setIfInBounds b oh).setIfInBounds h.head b,
        head := b } := by
  have h4 : ((h.next.setIfInBounds nP nN).setIfInBounds b oh)[h.head]? = some oh := by
    rw [Array.getElem?_setIfInBounds, if_neg (fun e => hne e.symm)]
    exact h3
  unfold Pma.update
  simp only [hne, if_false, Pma.geta, Pma.seta, h1, h2, h3, h4, hps, hns, hb, hhd, hnN, hnP, hoh,
    Array.size_setIfInBounds, if_true, Res.ok_bind, Res.pure_eq]

/-- **A3.** `update_history_list(list, b)` performs one move to front -/
theorem update_spec (h : Pma.Hist) (l : List UInt8) (hr : HistRel h l) (b : UInt8) :
    ∃ h', Pma.update h b.toNat = .ok h' ∧ HistRel h' (mtfMove l b) := by
  obtain ⟨i, hi, hib⟩ := List.getElem_of_mem (hr.mem b)
  have hi' : i < 256 := by rw [← hr.len]; exact hi
  have hinj := at_inj hr.len hr.nodup
  have hbi : b.toNat = at' l i := by unfold at'; rw [getD_eq l i hi, hib]
  by_cases hi0 : i = 0
  · subst hi0
    refine ⟨h, ?_, ?_⟩
    · unfold Pma.update
      rw [if_pos (by rw [hr.head, hbi])]
      rfl
    · obtain ⟨x, tl, hl⟩ : ∃ x tl, l = x :: tl := by
        cases l with
        | nil => simp at hi
        | cons x tl => exact ⟨x, tl, rfl⟩
      have : x = b := by subst hl; simpa using hib
      subst this
      rw [mtfMove_head l _ tl hl]
      exact hr
  · -- the general case
    have hne : h.head ≠ b.toNat := by
      rw [hr.head, hbi]
      intro e
      exact hi0 (hinj 0 i (by decide) hi' e).symm
    let o := if i = 255 then 254 else 255
    have ho : o = if i = 255 then 254 else 255 := rfl
    have h1 : h.next[b.toNat]? = some (at' l (i - 1)) := by
      have := hr.next (i - 1) (by omega)
      have e : (i - 1 + 1) % 256 = i := by omega
      rw [e] at this
      rw [hbi]; exact this
    have h2 : h.prev[b.toNat]? = some (at' l ((i + 1) % 256)) := by
      rw [hbi]; exact hr.prev i hi'
    have h3 : (h.next.setIfInBounds (at' l ((i + 1) % 256)) (at' l (i - 1)))[h.head]? = some (at' l o) := by
      rw [Array.getElem?_setIfInBounds, hr.nsz, if_pos (at_lt _ _), hr.head]
      by_cases hi255 : i = 255
      · subst hi255
        simp [o]
      · have : ¬ at' l ((i + 1) % 256) = at' l 0 := by
          intro e
          have := hinj _ _ (Nat.mod_lt _ (by decide)) (by decide) e
          omega
        rw [if_neg this]
        have := hr.next 255 (by decide)
        simp only [o, hi255, if_false]
        exact this
    have hex := update_exec h b.toNat _ _ _ hne hr.psz hr.nsz (UInt8.toNat_lt b)
      (by rw [hr.head]; exact at_lt _ _) (at_lt _ _) (at_lt _ _) (at_lt _ _) h1 h2 h3
    refine ⟨_, hex, ?_⟩
    have hmem := hr.mem b
    have hat : ∀ k, at' (mtfMove l b) k = at' l (sg i k) := by
      intro k
      unfold at'
      rw [← hib, mtfMove_at l hr.nodup i hi k]
    refine
      { len := by rw [mtfMove_length l b hmem]; exact hr.len
        nodup := mtfMove_nodup l b hr.nodup
        all := fun n hn => mtfMove_mem l b _ (hr.all n hn)
        psz := by simpa using hr.psz
        nsz := by simpa using hr.nsz
        head := by rw [hat 0]; simp [sg, hbi]
        prev := ?_
        next := ?_ }
    · intro k hk
      rw [hat k, hat ((k + 1) % 256)]
      show (((h.prev.setIfInBounds _ _).setIfInBounds _ _).setIfInBounds _ _)[_]? = _
      rw [set3 _ hr.psz _ _ _ _ _ _ _ (at_lt _ _) (UInt8.toNat_lt b) (at_lt _ _), hr.head, hbi]
      exact upd_prev_core (at' l) (fun x => h.prev[x]?) i hi' hi0 hinj hr.prev o ho k hk
    · intro k hk
      rw [hat k, hat ((k + 1) % 256)]
      show (((h.next.setIfInBounds _ _).setIfInBounds _ _).setIfInBounds _ _)[_]? = _
      rw [set3 _ hr.nsz _ _ _ _ _ _ _ (at_lt _ _) (UInt8.toNat_lt b)
        (by rw [hr.head]; exact at_lt _ _), hr.head, hbi]
      exact upd_next_core (at' l) (fun x => h.next[x]?) i hi' hi0 hinj hr.next o ho k hk

/-! ### the initial list -/

/-- **A1.** `init_history_list` (as extracted from the compiled C) is the initial order of the
specification -/
theorem init_nodup : initOrder.Nodup := by
  have h : (initOrder.map UInt8.toNat).Nodup := by decide +kernel
  exact (List.pairwise_map.mp h).imp (fun hne e => hne (congrArg UInt8.toNat e))
theorem init_all : ∀ n, n < 256 → UInt8.ofNat n ∈ initOrder := by
  have h : ∀ n, n < 256 → n ∈ initOrder.map UInt8.toNat := by decide +kernel
  intro n hn
  obtain ⟨a, ha, e⟩ := List.mem_map.mp (h n hn)
  rw [← e, UInt8.ofNat_toNat]; exact ha
theorem init_prev : ∀ k, k < 256 →
    Pma.initHist.prev[at' initOrder k]? = some (at' initOrder ((k + 1) % 256)) := by decide +kernel
theorem init_next : ∀ k, k < 256 →
    Pma.initHist.next[at' initOrder ((k + 1) % 256)]? = some (at' initOrder k) := by decide +kernel

theorem histRel_init : HistRel Pma.initHist initOrder where
  len := by decide +kernel
  nodup := init_nodup
  all := init_all
  psz := by decide +kernel
  nsz := by decide +kernel
  head := by decide +kernel
  prev := init_prev
  next := init_next

/-- monadic fold of `update_history_list` over output bytes -/
def updates : Pma.Hist → List UInt8 → Res Pma.Hist
  | h, [] => .ok h
  | h, b :: bs => (Pma.update h b.toNat) >>= fun h' => updates h' bs

/-- hence for every sequence of output bytes the list is `mtfMoves initOrder bytes` -/
theorem updates_spec (h : Pma.Hist) (l : List UInt8) (hr : HistRel h l) (bs : List UInt8) :
    ∃ h', updates h bs = .ok h' ∧ HistRel h' (mtfMoves l bs) := by
  induction bs generalizing h l with
  | nil => exact ⟨h, rfl, hr⟩
  | cons b bs ih =>
    obtain ⟨h1, e1, r1⟩ := update_spec h l hr b
    obtain ⟨h2, e2, r2⟩ := ih h1 _ r1
    refine ⟨h2, ?_, ?_⟩
    · simp only [updates, e1, Res.ok_bind]; exact e2
    · simpa [mtfMoves] using r2

theorem updates_init (bs : List UInt8) :
    ∃ h', updates Pma.initHist bs = .ok h' ∧ HistRel h' (mtfMoves initOrder bs) :=
  updates_spec _ _ histRel_init bs

/-- a `HistRel` list yields the memory-safety invariant of `PmSafe` -/
theorem HistRel.hinv {h : Pma.Hist} {l : List UInt8} (hr : HistRel h l) : Pma.HInv h := by
  have key : ∀ x, x < 256 → ∃ k, k < 256 ∧ x = at' l k := by
    intro x hx
    obtain ⟨i, hi, hib⟩ := List.getElem_of_mem (hr.mem (UInt8.ofNat x))
    refine ⟨i, by rw [← hr.len]; exact hi, ?_⟩
    unfold at'
    rw [getD_eq l i hi, hib, UInt8.toNat_ofNat']
    omega
  refine ⟨⟨hr.psz, ?_⟩, ⟨hr.nsz, ?_⟩, by rw [hr.head]; exact at_lt _ _⟩
  · intro i v hv
    have hi : i < 256 := by
      rw [← hr.psz]
      exact (Array.getElem?_eq_some_iff.mp hv).1
    obtain ⟨k, hk, e⟩ := key i hi
    rw [e, hr.prev k hk] at hv
    cases hv; exact at_lt _ _
  · intro i v hv
    have hi : i < 256 := by
      rw [← hr.nsz]
      exact (Array.getElem?_eq_some_iff.mp hv).1
    obtain ⟨k, hk, e⟩ := key i hi
    have e2 : k = ((k + 255) % 256 + 1) % 256 := by omega
    rw [e, e2, hr.next _ (Nat.mod_lt _ (by decide))] at hv
    cases hv; exact at_lt _ _

/-! ### non-vacuity -/

example : (Pma.find Pma.initHist 0, Pma.find Pma.initHist 200) = (.ok 0x20, .ok 0x88) := by
  rw [find_spec _ _ histRel_init 0 (by decide), find_spec _ _ histRel_init 200 (by decide)]
  have e1 : (initOrder.getD 0 0).toNat = 0x20 := by decide +kernel
  have e2 : (initOrder.getD 200 0).toNat = 0x88 := by decide +kernel
  rw [e1, e2]

example : ∃ h', updates Pma.initHist [0x41, 0x41, 0x00, 0xff] = .ok h' ∧
    Pma.find h' 1 = .ok 0 ∧ Pma.find h' 2 = .ok 0x41 ∧ Pma.find h' 255 = .ok 0xfe := by
  obtain ⟨h', e, r⟩ := updates_init [0x41, 0x41, 0x00, 0xff]
  refine ⟨h', e, ?_, ?_, ?_⟩
  · rw [find_spec _ _ r 1 (by decide)]; exact congrArg Res.ok (by decide +kernel)
  · rw [find_spec _ _ r 2 (by decide)]; exact congrArg Res.ok (by decide +kernel)
  · rw [find_spec _ _ r 255 (by decide)]; exact congrArg Res.ok (by decide +kernel)

end LhasaV.PmRT
