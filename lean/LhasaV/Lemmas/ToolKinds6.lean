import LhasaV.Lemmas.ToolKinds5
import LhasaV.Driver.OpsList
/-!
# C16 at tool level, part 6: the listing walk, and "more fuel changes nothing"

`allHeaders_rel`: the header walk of `lha l` / `lha v` on related readers.
`xEnds` / `mEnds` / `pEnds` / `hEnds fuel s`: the loop leaves through the end of the archive, `exit(-1)` or
a parser fault within `fuel` rounds (Boolean, evaluable).  `…_mono`: then any larger fuel gives the same
result; `…_rel`: related states end alike.
-/
set_option linter.unusedSimpArgs false
namespace LhasaV.ToolKinds
open LhasaV LhasaV.Stream LhasaV.Reader LhasaV.Extract LhasaV.Messages

/-! ## the listing walk -/

theorem allHeaders_rel {P} : ∀ (fuel : Nat) (s t : Reader.St) (acc : List Header.Hdr), KRel P s t →
    Driver.allHeaders fuel s acc = Driver.allHeaders fuel t acc := by
  intro fuel
  induction fuel with
  | zero => intro s t acc h; rfl
  | succ n ih =>
    intro s t acc h
    unfold Driver.allHeaders
    have hn := next_rel h
    cases ha : Reader.next s with
    | error w =>
      cases hb : Reader.next t with
      | error w' => rw [ha, hb] at hn; simp only [NextOut] at hn; rw [hn]
      | ok r' => rw [ha, hb] at hn; exact hn.elim
    | ok r =>
      cases hb : Reader.next t with
      | error w' => rw [ha, hb] at hn; exact hn.elim
      | ok r' =>
        rw [ha, hb] at hn
        obtain ⟨oc, rd⟩ := r
        obtain ⟨oc', rd'⟩ := r'
        obtain ⟨h1, h2⟩ := hn
        simp only at h1 h2
        subst h1
        cases oc with
        | none => rfl
        | some c => exact ih _ _ _ h2

/-! ## the loops end before their fuel does: more fuel changes nothing -/

/-- the loop of `lha x` leaves through `exit(-1)`, a parser fault or the end of the archive within `fuel` rounds -/
def xEnds : Nat → Extract.St → Bool
  | 0, _ => false
  | fuel+1, s =>
    s.aborted ||
    match Reader.next s.rd with
    | .error _ => true
    | .ok (none, _) => true
    | .ok (some c, rd) =>
      if !Glob.matchesFilter s.opts.filters c.h then xEnds fuel { s with rd := rd }
      else xEnds fuel (extractArchivedFile { s with rd := rd } c.h)

theorem xEnds_mono : ∀ (n : Nat) (s : Extract.St), xEnds n s = true → ∀ k, extractLoop (n + k) s = extractLoop n s := by
  intro n
  induction n with
  | zero => intro s h; cases h
  | succ n ih =>
    intro s h k
    rw [show n + 1 + k = (n + k) + 1 by omega]
    unfold xEnds at h
    unfold extractLoop
    by_cases ha : s.aborted = true
    · simp only [ha, if_true]
    · simp only [ha, Bool.false_eq_true, if_false]
      simp only [show s.aborted = false by simpa using ha, Bool.false_or] at h
      split
      · rfl
      · rfl
      · rename_i c rd hn
        rw [hn] at h
        simp only at h
        split
        · rename_i hf; rw [if_pos hf] at h; exact ih _ h k
        · rename_i hf; rw [if_neg hf] at h; exact ih _ h k

theorem xEnds_rel {P} : ∀ (n : Nat) (a b : Extract.St), XRel P a b → xEnds n a = xEnds n b := by
  intro n
  induction n with
  | zero => intro a b h; rfl
  | succ n ih =>
    intro a b h
    unfold xEnds
    rw [← h.aborted]
    congr 1
    have hn := next_rel h.rd
    cases ha : Reader.next a.rd with
    | error w =>
      cases hb : Reader.next b.rd with
      | error w' => rfl
      | ok r' => rw [ha, hb] at hn; exact hn.elim
    | ok r =>
      cases hb : Reader.next b.rd with
      | error w' => rw [ha, hb] at hn; exact hn.elim
      | ok r' =>
        rw [ha, hb] at hn
        obtain ⟨oc, rd⟩ := r
        obtain ⟨oc', rd'⟩ := r'
        obtain ⟨h1, h2⟩ := hn
        simp only at h1 h2
        subst h1
        cases oc with
        | none => rfl
        | some c =>
          simp only [← h.opts]
          split
          · apply ih; xrel_upd h
          · apply ih; apply eaf_rel; xrel_upd h


/-- the same for the loops of `lha t` / `lha x` with messages -/
def mEnds (cmd : Cmd) : Nat → Messages.St → Bool
  | 0, _ => false
  | fuel+1, s =>
    s.aborted ||
    match Reader.next s.x.rd with
    | .error _ => true
    | .ok (none, _) => true
    | .ok (some c, rd) =>
      if !Glob.matchesFilter s.x.opts.filters c.h then mEnds cmd fuel { s with x := { s.x with rd := rd } }
      else mEnds cmd fuel (step cmd { s with x := { s.x with rd := rd } } c.h)

theorem mEnds_mono (cmd : Cmd) : ∀ (n : Nat) (s : Messages.St), mEnds cmd n s = true →
    ∀ k, Messages.loop cmd (n + k) s = Messages.loop cmd n s := by
  intro n
  induction n with
  | zero => intro s h; cases h
  | succ n ih =>
    intro s h k
    rw [show n + 1 + k = (n + k) + 1 by omega]
    unfold mEnds at h
    unfold Messages.loop
    by_cases ha : s.aborted = true
    · simp only [ha, if_true]
    · simp only [ha, Bool.false_eq_true, if_false]
      simp only [show s.aborted = false by simpa using ha, Bool.false_or] at h
      split
      · rfl
      · rfl
      · rename_i c rd hn
        rw [hn] at h
        simp only at h
        split
        · rename_i hf; rw [if_pos hf] at h; exact ih _ h k
        · rename_i hf; rw [if_neg hf] at h; exact ih _ h k

theorem mEnds_rel {P} (cmd : Cmd) : ∀ (n : Nat) (a b : Messages.St), MRel P a b →
    mEnds cmd n a = mEnds cmd n b := by
  intro n
  induction n with
  | zero => intro a b h; rfl
  | succ n ih =>
    intro a b h
    unfold mEnds
    rw [← h.aborted]
    congr 1
    have hn := next_rel h.x.rd
    cases ha : Reader.next a.x.rd with
    | error w =>
      cases hb : Reader.next b.x.rd with
      | error w' => rfl
      | ok r' => rw [ha, hb] at hn; exact hn.elim
    | ok r =>
      cases hb : Reader.next b.x.rd with
      | error w' => rw [ha, hb] at hn; exact hn.elim
      | ok r' =>
        rw [ha, hb] at hn
        obtain ⟨oc, rd⟩ := r
        obtain ⟨oc', rd'⟩ := r'
        obtain ⟨h1, h2⟩ := hn
        simp only at h1 h2
        subst h1
        cases oc with
        | none => rfl
        | some c =>
          simp only [← h.x.opts]
          split
          · apply ih; mrel_upd h
          · apply ih; apply step_rel; mrel_upd h

/-- the reader after the body of `print_archive`'s loop -/
def printBody (o : Opts) (c : HObj) (rd : Reader.St) : Reader.St :=
  if !Glob.matchesFilter o.filters c.h then rd else
  if c.h.method != "-lhd-".toUTF8.toList then (printLoop (c.h.length + 2) rd []).2 else rd

/-- the same for the loop of `lha p` -/
def pEnds (o : Opts) : Nat → Reader.St → Bool
  | 0, _ => false
  | fuel+1, rd =>
    match Reader.next rd with
    | .error _ => true
    | .ok (none, _) => true
    | .ok (some c, rd) => pEnds o fuel (printBody o c rd)

theorem pEnds_mono (o : Opts) : ∀ (n : Nat) (rd : Reader.St) (out : List UInt8), pEnds o n rd = true →
    ∀ k, printArchiveLoop o (n + k) rd out = printArchiveLoop o n rd out := by
  intro n
  induction n with
  | zero => intro rd out h; cases h
  | succ n ih =>
    intro rd out h k
    rw [show n + 1 + k = (n + k) + 1 by omega]
    unfold pEnds at h
    unfold printArchiveLoop
    split
    · rfl
    · rfl
    · rename_i c rd' hn
      rw [hn] at h
      simp only [printBody] at h
      split
      · rename_i hf; rw [if_pos hf] at h; exact ih _ _ h k
      · rename_i hf
        rw [if_neg hf] at h
        simp only
        split
        · rename_i hm; rw [if_pos hm] at h; exact ih _ _ h k
        · rename_i hm; rw [if_neg hm] at h; exact ih _ _ h k

theorem printBody_rel {P s t} (h : KRel P s t) (o : Opts) (c : HObj) : KRel P (printBody o c s) (printBody o c t) := by
  unfold printBody
  split
  · exact h
  · split
    · exact (printLoop_rel _ _ _ [] h).2
    · exact h

theorem pEnds_rel {P} (o : Opts) : ∀ (n : Nat) (s t : Reader.St), KRel P s t → pEnds o n s = pEnds o n t := by
  intro n
  induction n with
  | zero => intro s t h; rfl
  | succ n ih =>
    intro s t h
    unfold pEnds
    have hn := next_rel h
    cases ha : Reader.next s with
    | error w =>
      cases hb : Reader.next t with
      | error w' => rfl
      | ok r' => rw [ha, hb] at hn; exact hn.elim
    | ok r =>
      cases hb : Reader.next t with
      | error w' => rw [ha, hb] at hn; exact hn.elim
      | ok r' =>
        rw [ha, hb] at hn
        obtain ⟨oc, rd⟩ := r
        obtain ⟨oc', rd'⟩ := r'
        obtain ⟨h1, h2⟩ := hn
        simp only at h1 h2
        subst h1
        cases oc with
        | none => rfl
        | some c => exact ih _ _ (printBody_rel h2 o c)

/-- the same for the listing walk -/
def hEnds : Nat → Reader.St → Bool
  | 0, _ => false
  | fuel+1, rd =>
    match Reader.next rd with
    | .error _ => true
    | .ok (none, _) => true
    | .ok (some _, rd) => hEnds fuel rd

theorem hEnds_mono : ∀ (n : Nat) (rd : Reader.St) (acc : List Header.Hdr), hEnds n rd = true →
    ∀ k, Driver.allHeaders (n + k) rd acc = Driver.allHeaders n rd acc := by
  intro n
  induction n with
  | zero => intro rd acc h; cases h
  | succ n ih =>
    intro rd acc h k
    rw [show n + 1 + k = (n + k) + 1 by omega]
    unfold hEnds at h
    unfold Driver.allHeaders
    split
    · rfl
    · rfl
    · rename_i c rd' hn
      rw [hn] at h
      exact ih _ _ h k

theorem hEnds_rel {P} : ∀ (n : Nat) (s t : Reader.St), KRel P s t → hEnds n s = hEnds n t := by
  intro n
  induction n with
  | zero => intro s t h; rfl
  | succ n ih =>
    intro s t h
    unfold hEnds
    have hn := next_rel h
    cases ha : Reader.next s with
    | error w =>
      cases hb : Reader.next t with
      | error w' => rfl
      | ok r' => rw [ha, hb] at hn; exact hn.elim
    | ok r =>
      cases hb : Reader.next t with
      | error w' => rw [ha, hb] at hn; exact hn.elim
      | ok r' =>
        rw [ha, hb] at hn
        obtain ⟨oc, rd⟩ := r
        obtain ⟨oc', rd'⟩ := r'
        obtain ⟨h1, h2⟩ := hn
        simp only at h1 h2
        subst h1
        cases oc with
        | none => rfl
        | some c => exact ih _ _ h2

end LhasaV.ToolKinds
