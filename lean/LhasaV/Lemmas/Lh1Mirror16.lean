import LhasaV.Lemmas.Lh1Mirror15
/-!
# C02, layer 16: the root frequency counts the symbols; sequences that do reach the rebuild
(non-vacuity of the rebuild branch of the lock-step theorem)
-/
namespace LhasaV.Lh1Mirror
open LhasaV LhasaV.Lh1 LhasaV.Spec.Lzhuf LhasaV.Spec.Lz77 LhasaV.Res

theorem climb_root (k : Nat) : ∀ (x : Nat) (s s' : St), CInv s x → x < 627 → x < k →
    climb k x s = .ok s' → fr s' 0 = fr s 0 := by
  induction k with
  | zero => intro x s s' _ _ hk; omega
  | succ k ih =>
    intro x s s' h hx hk he
    unfold climb at he
    by_cases hx0 : x = 0
    · subst hx0
      simp only [if_true] at he
      cases he; rfl
    · simp only [hx0, if_false] at he
      obtain ⟨L, s1, e1, h1, hL1, hLx, hld, hfr1, -, -, -⟩ := mgl_full s x h hx0 hx
      have hL : L < 627 := by omega
      obtain ⟨s2, e2, h2, -, -, epa, -, efr⟩ := inf_full s1 L h1 hL1 hL hld
      rw [e1] at he
      simp only [ok_bind] at he
      rw [e2] at he
      simp only [ok_bind] at he
      rw [getNode_ok _ _ _ (by rw [h2.base.nodes]; omega)] at he
      simp only [ok_bind] at he
      have hp : (nd s2 L).parent = pa s1 L := by
        show pa s2 L = pa s1 L
        rw [epa]
      rw [hp] at he
      have hlt := (h1.tree.pr L hL1 hL).1
      have := ih (pa s1 L) s2 s' h2 (by omega) (by omega) he
      rw [this, efr, upd_ne _ _ _ _ (by omega), hfr1]

/-- without rebuild, `increment_for_code` adds one to the root frequency -/
theorem ifcRest_root (s s' : St) (code : Nat) (h : CInv s 0) (hlt : fr s 0 < 32768) (hc : code < 314)
    (he : ifcRest s code = .ok s') : fr s' 0 = fr s 0 + 1 := by
  unfold ifcRest at he
  have hsz : 0 < s.nodes.size := by rw [h.base.nodes]; omega
  rw [getNode_ok _ _ _ hsz] at he
  simp only [ok_bind] at he
  rw [setNode_ok _ _ _ _ hsz] at he
  simp only [ok_bind] at he
  have h2 := rootIncr_inv s h hlt code hc
  have hfr : (nd s 0).freq = fr s 0 := rfl
  rw [hfr] at he
  rw [getA_ok _ _ _ (by show code < s.leafNodes.size; rw [h.base.leafNodes]; exact hc)] at he
  simp only [ok_bind] at he
  have hcd := h.tree.cd code hc
  have hmod : (fr s 0 + 1) % 65536 = fr s 0 + 1 := Nat.mod_eq_of_lt (by omega)
  obtain ⟨-, -, -, v4, -⟩ := rootIncr_views s hsz ((fr s 0 + 1) % 65536)
  have := climb_root (numNodes + 1) _ _ s' h2 hcd.1 (by show ln s code < 628; omega) he
  rw [this, v4, upd_same, hmod]

theorem incrementForCode_root (d d' : St) (c : Nat) (hi : Lh1.Inv d) (hlt : fr d 0 < 32768)
    (hc : c < 314) (he : incrementForCode d c = .ok d') : fr d' 0 = fr d 0 + 1 := by
  rw [incrementForCode_eq] at he
  have hsz : 0 < d.nodes.size := by rw [hi.base.nodes]; omega
  rw [getNode_ok _ _ _ hsz] at he
  simp only [ok_bind] at he
  have hfr : (nd d 0).freq = fr d 0 := rfl
  have hge : ¬ ((nd d 0).freq ≥ Gen.lh1TreeReorderLimit) := by
    rw [hfr]; simp only [Gen.lh1TreeReorderLimit]; omega
  rw [if_neg hge] at he
  simp only [pure_eq, ok_bind] at he
  exact ifcRest_root d d' c hi hlt hc he

/-- the root frequency of the initial tree is the number of symbols -/
theorem init_root (src : Src) (s : St) (e : Lh1.init src = .ok s) : fr s 0 = 314 := by
  obtain ⟨s0, e0, -, ht, -⟩ := init_shape src
  rw [e] at e0
  cases e0
  have h1 := ht.front
  have e1 : sumTo (fr s) (2 * 0 + 1) = 0 + fr s 0 := rfl
  have e2 : sumTo (fr s) 0 = 0 := rfl
  omega

/-- as long as the limit is not reached, LZHUF's root frequency is `314 +` the number of symbols -/
theorem run_root (syms : List Nat) : ∀ (d : St) (z : TreeState), Mirror d z → Lh1.Inv d →
    (∀ c ∈ syms, c < 314) → fr d 0 + syms.length ≤ 32768 →
    zf (syms.foldl update z) 626 = fr d 0 + syms.length := by
  induction syms with
  | nil =>
    intro d z hm _ _ _
    have : zf z 626 = fr d 0 := hm.2.freq 0 (by omega)
    simpa using this
  | cons c cs ih =>
    intro d z hm hi hs hlen
    simp only [List.length_cons] at hlen
    have hlt : fr d 0 < 0x8000 := by omega
    obtain ⟨d1, e1, hi1, hm1⟩ := mirror_update_no_rebuild d z c hm hi hlt (hs c (by simp))
    have hr := incrementForCode_root d d1 c hi hlt (hs c (by simp)) e1
    have := ih d1 (update z c) hm1 hi1 (fun c' hc' => hs c' (by simp [hc'])) (by omega)
    simp only [List.foldl_cons, List.length_cons]
    rw [this, hr]
    omega

/-- **The rebuild branch is reached.**  After `32454 = 0x8000 − 314` symbols LZHUF's root frequency
is exactly `MAX_FREQ`, so the next `update` runs `reconst` (and the decoder `reconstruct_tree`):
the lock-step theorem `lh1_lockstep` covers such sequences. -/
theorem run_reaches_limit (syms : List Nat) (h : ∀ c ∈ syms, c < 314) (hl : syms.length = 32454) :
    (run syms).freq.getD R 0 = MAX_FREQ := by
  obtain ⟨s, e, hi, hm⟩ := mirror_init { data := #[] }
  have hr := init_root _ s e
  have := run_root syms s startHuff hm hi h (by omega)
  show zf (syms.foldl update startHuff) 626 = 32768
  rw [this, hr, hl]

end LhasaV.Lh1Mirror
