import LhasaV.Lemmas.Contain1
import LhasaV.Lemmas.Contain2
import LhasaV.Lemmas.Contain3
import LhasaV.Lemmas.Contain4
import LhasaV.Lemmas.Contain5
import LhasaV.Lemmas.Contain6
import LhasaV.Lemmas.Contain7
/-!
# C10 — extraction never touches anything outside the extraction directory (file-system level)

* `Contain1`: `SafeTarget`, `SafeLinks`, `not_dangerous_iff` (`is_dangerous_symlink` is exactly the
  negation of `SafeTarget`), **`safe_resolve_below_cwd`** (the key lemma), `SafeLinks` under
  `setEnt` / `delEnt` / `stampParent` / `logMut`.
* `Contain2`: `Contained`; `mkdir_contained`, `unlink_contained`, `openExcl_contained`,
  `fchmod_contained`, `writeAll_contained`, `chmod_contained`, `utime_contained`,
  `symlink_contained`, `archFopen_contained`, `archSymlink_contained`.
* `Contain3`: `makeParents_contained`, `setDirMeta_contained`, **`readerExtract_contained`**
  (main phase: file / directory / safe link / placeholder / re-presented directory).
* `Contain4`: `eaf_contained_main`, `Presented`, `extractLoop_contained_main`,
  `next_deferred_phase2`, `next_of_phase2` (after the first deferred link only deferred links
  follow), `extractLoop_below`.
* `Contain5`: `HdrInv`, `presented_of_inv`, `run_presents_good` (the C11 invariant for every header
  the run is handed), `run_contained`, `run_contained_main` (relative to "no member is named '..'").
* `Contain6`: names ENDING in "..": `makeParents_contained'`, `resolvePath_dd` (they resolve to an
  existing directory), `mkdir_dd` / `archFopen_dd` / `archSymlink_dd` (everything fails on them),
  `readerExtract_dd`; `DirMono` (no operation removes or replaces a directory, in any state).
* `Contain7`: `StackInv`, `next_currType`, **`run_contained_all`**: the whole run, ANY archive, no
  condition on the members; hypotheses on the starting file system only.

This file: non-vacuity on concrete file systems, and the state in which the unrepaired
`extract_archived_file` left the extraction directory.
-/
namespace LhasaV.Contain
open LhasaV LhasaV.Header LhasaV.Extract LhasaV.GlobFs

section examples

/-- extraction directory `/x` with a directory `d` and a chain of safe links `b -> a -> d`,
`d/s -> .`, `e -> d/s/./s`; outside: `/o` -/
def fsChain : Fs.St :=
  { cwd := [[0x78]],
    ents := [([[0x78]], .dir 0o755 0), ([[0x6f]], .dir 0o755 0),
             ([[0x78], [0x64]], .dir 0o755 0),
             ([[0x78], [0x61]], .link [0x64]),
             ([[0x78], [0x62]], .link [0x61]),
             ([[0x78], [0x64], [0x73]], .link [0x2e]),
             ([[0x78], [0x65]], .link [0x64, 0x2f, 0x73, 0x2f, 0x2e, 0x2f, 0x73])] }

theorem fsChain_safe : SafeLinks fsChain := by
  apply safeLinks_of_ents
  intro p t _ hm
  simp only [fsChain, List.mem_cons, Prod.mk.injEq, reduceCtorEq, and_false, false_or,
    Fs.Ent.link.injEq, List.not_mem_nil, or_false] at hm
  rcases hm with ⟨_, rfl⟩ | ⟨_, rfl⟩ | ⟨_, rfl⟩ | ⟨_, rfl⟩ <;>
    (unfold SafeTarget NoDotDot; decide)

/-- "b/f" -/
def pathBF : Bytes := [0x62, 0x2f, 0x66]
/-- "e/g" -/
def pathEG : Bytes := [0x65, 0x2f, 0x67]

theorem pathBF_clean : RelClean pathBF := by unfold RelClean NoDotDot; decide
theorem pathEG_clean : RelClean pathEG := by unfold RelClean NoDotDot; decide

/-- the hypotheses of `safe_resolve_below_cwd` are satisfiable, and this is what happens: the
chain `b -> a -> d` is followed and the new object lands in `/x/d` -/
example : Fs.resolvePath fsChain false pathBF = some [[0x78], [0x64], [0x66]] := by decide
example : Fs.resolvePath fsChain true pathEG = some [[0x78], [0x64], [0x67]] := by decide
example : fsChain.cwd <+: [[0x78], [0x64], [0x66]] :=
  safe_resolve_below_cwd fsChain fsChain_safe false pathBF _ pathBF_clean.1 pathBF_clean.2 (by decide)

/-- creating a file through the chain: one `create` and one `write`, both below `/x` -/
example : ((Fs.archFopen fsChain pathBF none).2.log.map (·.path)) = [[[0x78], [0x64], [0x66]]] := by
  decide

/-- without `SafeLinks` the conclusion fails (`GlobFs.fsBad`: `d -> /o`) -/
example : ¬ SafeLinks fsBad := by
  intro h
  have := h [[0x78], [0x64]] [0x2f, 0x6f] (by decide) (by decide)
  exact this.1 (by decide)
example : Fs.resolvePath fsBad false pathDL = some [[0x6f], [0x6c]] := by decide

/-- a safe target, and the reader's test on the same bytes -/
example : Reader.isDangerous { symlinkTarget := some [0x64, 0x2f, 0x73] } = false := by decide
example : Reader.isDangerous { symlinkTarget := some [0x64, 0x2f, 0x2e, 0x2e] } = true := by decide
example : Reader.isDangerous { symlinkTarget := some [0x2f, 0x6f] } = true := by decide

/-- `make_parent_directories("b/n/f")` in the chain state: `mkdir /x/d/n`, nothing else -/
example : ((makeParentDirectories fsChain [0x62, 0x2f, 0x6e, 0x2f, 0x66]).2.log.map (fun m => (m.op, m.path)))
    = [("mkdir", [[0x78], [0x64], [0x6e]])] := by decide

/-! ### why `extract_archived_file` must not make parent directories for deferred links

The state in the deferred phase of the archive
`a/d/`, `a/llll -> /o` (dangerous: placeholder, deferred), `a/llll -> d` (safe, replaces the
placeholder), `p -> a/llll` (safe), `p/q/m -> /zz` (dangerous: deferred; its parents were made
through `p -> a/llll -> a/d`), after the first deferred link `a/llll -> /o` has been created: -/
def fsDeferred : Fs.St :=
  { cwd := [[0x78]],
    ents := [([[0x78]], .dir 0o755 0), ([[0x6f]], .dir 0o755 0),
             ([[0x78], [0x61]], .dir 0o755 0),
             ([[0x78], [0x61], [0x64]], .dir 0o755 0),
             ([[0x78], [0x70]], .link [0x61, 0x2f, 0x6c, 0x6c, 0x6c, 0x6c]),
             ([[0x78], [0x61], [0x64], [0x71]], .dir 0o755 0),
             ([[0x78], [0x61], [0x64], [0x71], [0x6d]], .file [] 0o600 0),
             ([[0x78], [0x61], [0x6c, 0x6c, 0x6c, 0x6c]], .link [0x2f, 0x6f])] }

/-- "p/q/m" -/
def pathPQM : Bytes := [0x70, 0x2f, 0x71, 0x2f, 0x6d]

theorem pathPQM_clean : RelClean pathPQM := by unfold RelClean NoDotDot; decide

/-- **the escape of the unrepaired tool**: for the relative, ".."-free name "p/q/m",
`make_parent_directories` creates `/o/q`, outside the extraction directory `/x`.  (Found while
proving `run_contained`; confirmed on the C tool; repaired by making parents for first-time
entries only.  Only the guard of `lha_reader_extract`, which comes too late, refuses the name.) -/
theorem parents_escape_after_deferred :
    ((makeParentDirectories fsDeferred pathPQM).2.log.map (fun m => (m.op, m.path)))
      = [("mkdir", [[0x6f], [0x71]])] ∧
    passesThroughSymlink fsDeferred pathPQM = true := by decide

/-- the state is not `SafeLinks` (that is why the main-phase theorem does not apply to it) -/
example : ¬ SafeLinks fsDeferred := by
  intro h
  have := h [[0x78], [0x61], [0x6c, 0x6c, 0x6c, 0x6c]] [0x2f, 0x6f] (by decide) (by decide)
  exact this.1 (by decide)

/-! ### the whole run -/

theorem fsChain_dirsOk : DirsOk fsChain := ⟨⟨0o755, 0, by decide⟩, ⟨0o755, 0, by decide⟩⟩

/-- the hypotheses of `run_contained_all` are satisfiable: whatever the archive and the answers,
a run started in `fsChain` stays below `/x` -/
example (archive : Array UInt8) (answers : Bytes) :
    ∃ new, (run archive {} fsChain answers).fs.log = new ++ fsChain.log ∧
      ∀ m ∈ new, [[0x78]] <+: m.path :=
  (run_contained_all archive {} fsChain answers rfl fsChain_safe fsChain_dirsOk).2

/-- also with option `i` (junk paths) and any overwrite policy -/
example (archive : Array UInt8) (answers : Bytes) (ov : Overwrite) :
    ∃ new, (run archive { usePath := false, overwrite := ov } fsChain answers).fs.log = new ++ fsChain.log ∧
      ∀ m ∈ new, [[0x78]] <+: m.path :=
  (run_contained_all archive _ fsChain answers rfl fsChain_safe fsChain_dirsOk).2

/-! ### names ending in ".." -/

/-- "b/.." : through `b -> a -> d` this is the parent of `/x/d`, the existing directory `/x` -/
def pathBDD : Bytes := [0x62, 0x2f, 0x2e, 0x2e]

theorem pathBDD_dd : DotDotLast pathBDD := by unfold DotDotLast DirsClean; decide

example : Fs.resolvePath fsChain false pathBDD = some [[0x78]] := by decide
/-- every creating call fails on it and logs nothing -/
example : (Fs.mkdir fsChain pathBDD 0o755).1 = false ∧ (Fs.mkdir fsChain pathBDD 0o755).2.log = [] := by
  decide
example : Fs.archFopen fsChain pathBDD none = (none, fsChain) :=
  archFopen_dd fsChain pathBDD none (toDir_of_dd fsChain fsChain_safe fsChain_dirsOk pathBDD pathBDD_dd)

/-- extraction directory `/y/x` -/
def fsDeep : Fs.St :=
  { cwd := [[0x79], [0x78]], ents := [([[0x79]], .dir 0o755 0), ([[0x79], [0x78]], .dir 0o755 0)] }

/-- `chmod` / `utime` WOULD act on the directory a ".."-name resolves to — here `/y`, outside
`/y/x`; the tool never gets there because they are only called after a successful creation at
the same name (`readerExtract_dd`) -/
example : ((Fs.chmod fsDeep [0x2e, 0x2e] 0o777).2.log.map (·.path)) = [[[0x79]]] := by decide

/-- `DirsOk` is needed in the MODEL (a real extraction directory always has a parent): if `/y`
is missing from the model, `mkdir("..")` creates it -/
example : ((Fs.mkdir { cwd := [[0x79], [0x78]], ents := [([[0x79], [0x78]], .dir 0o755 0)] }
    [0x2e, 0x2e] 0o755).2.log.map (·.path)) = [[[0x79]]] := by decide

end examples

end LhasaV.Contain
