import LhasaV.Lemmas.ReaderWorkTotal2
import LhasaV.Lemmas.ReaderOut
/-!
# C13 for whole histories, part 3: the decode side

Everything a LEGAL history hands to the caller (the bytes returned by `read`, the bytes decoded by
`check` / `extract`) is bounded by the sum of the lengths declared by the headers of the members it
decodes — each member once, members merely listed or skipped not at all.
-/
set_option linter.unusedSimpArgs false
namespace LhasaV.ReaderIndep
open LhasaV LhasaV.Reader

/-- the (uncompressed) length the current header declares -/
def declLen (s : St) : Nat :=
  match s.curr with
  | some c => c.h.length
  | none => 0

/-- bytes an operation hands to the caller -/
def opOut (s : St) : Op → Nat
  | .next => 0
  | .read k => (read s k).1.length
  | .check => (check s).1.2.length
  | .extract b => (extract s b).1.2.length

/-- bytes a history hands to the caller -/
def outTotal : St → List Op → Nat
  | _, [] => 0
  | s, op :: ops => opOut s op + outTotal (step s op) ops

def chargeLen (s : St) (ch : Bool) : Op → Nat
  | .next => 0
  | _ => if !ch && opens s then declLen s else 0

/-- **declared lengths of the members a history decodes** (same walk as `decodedDeclaredFrom`) -/
def decodedLengthFrom : St → Bool → List Op → Nat
  | _, _, [] => 0
  | s, ch, op :: ops => chargeLen s ch op + decodedLengthFrom (step s op) (chNext s ch op) ops

/-- what the open decoder may still hand out; with no decoder open, the untouched allowance of a
member already charged -/
def slack (s : St) (ch : Bool) : Nat :=
  if s.dec ≠ none then room s else if ch then declLen s else 0

theorem declLen_frame {s s' : St} (f : Frame s s') : declLen s' = declLen s := by
  unfold declLen; rw [f.curr]

theorem read_noop {s : St} (h : opens s = false) (hd : s.dec = none) (k : Nat) : read s k = ([], s) := by
  rw [read_eq]
  simp only [hd, openDecoder_noop h]
  rfl

theorem check_out_noop {s : St} (h : opens s = false) : (check s).1.2 = [] := by
  have ho := openDecoder_noop h
  unfold check
  split
  · rfl
  · split
    · rfl
    · split
      · rfl
      · simp only [ho]
        rfl

theorem extract_out_noop {s : St} (h : opens s = false) (b : Bool) : (extract s b).1.2 = [] := by
  have ho := openDecoder_noop h
  unfold extract
  split
  · split
    · simp only [ho]
      rfl
    · split
      · split
        · split <;> rfl
        · rfl
      · split
        · rfl
        · split <;> rfl
  · rfl
  · rfl
  · rfl

/-- **`extract` decodes at most the declared length** of the current header -/
theorem extract_output_le (s : St) (hd : s.dec = none) (b : Bool) :
    (extract s b).1.2.length ≤ declLen s := by
  unfold extract
  split
  · rename_i c hct hc
    split
    · dsimp only
      split
      · simp
      · split
        · simp
        · rename_i hok _
          rcases openDecoder_spec s hd with ⟨h1, _⟩ | ⟨_, h2, c', hc', hroom⟩
          · rw [h1] at hok; simp at hok
          · have hcc : c' = c := by rw [hc] at hc'; cases hc'; rfl
            subst hcc
            have := decodeLoop_open (c'.h.length + 2) (openDecoder s).2 [] h2
            rw [hroom] at this
            have hl : declLen s = c'.h.length := by unfold declLen; rw [hc]
            rw [hl]
            simpa using this
    · split
      · split
        · split <;> simp
        · simp
      · split
        · simp
        · split <;> simp
  · simp
  · simp
  · simp

theorem check_output_le' (s : St) (hd : s.dec = none) : (check s).1.2.length ≤ declLen s := by
  have := check_output_le s hd
  unfold declLen
  cases hc : s.curr with
  | none => simpa [hc] using this
  | some c => simpa [hc] using this

/-- a `read` uses up slack: what it returns plus the slack left is at most the slack before plus
the declared length of a member charged by this very read -/
theorem read_slack (s : St) (ch : Bool) (k : Nat) (hdc : s.dec ≠ none → ch = true) :
    (read s k).1.length + slack (read s k).2 (ch || opens s) ≤ slack s ch + chargeLen s ch (.read k) ∧
    ((read s k).2.dec ≠ none → (ch || opens s) = true) := by
  by_cases hd : s.dec = none
  · cases ho : opens s with
    | false =>
      rw [read_noop ho hd]
      simp only [Bool.or_false, List.length_nil, chargeLen, ho, Bool.and_false, Bool.false_eq_true, if_false]
      exact ⟨by omega, hdc⟩
    | true =>
      refine ⟨?_, fun _ => by simp⟩
      have hs0 : slack s ch + chargeLen s ch (.read k) = declLen s := by
        unfold slack chargeLen
        simp only [hd, ne_eq, not_true_eq_false, if_false, ho, Bool.and_true]
        cases ch <;> simp
      rw [hs0, Bool.or_true]
      rw [read_eq]
      simp only [hd]
      rcases openDecoder_spec s hd with ⟨h1, h2⟩ | ⟨h1, h2, c, hc, hroom⟩
      · simp only [h1, Bool.false_eq_true, if_false, List.length_nil]
        unfold slack
        simp only [h2, ne_eq, not_true_eq_false, if_false, if_true]
        rw [declLen_frame (openDecoder_frame s)]
        omega
      · simp only [h1, if_true]
        have hr := readCore_room (openDecoder s).2 k
        have hdn := hr.2.2 h2
        have hl : declLen s = c.h.length := by unfold declLen; rw [hc]
        unfold slack
        simp only [hdn, ne_eq, not_false_eq_true, if_true]
        rw [hl, ← hroom]
        exact hr.2.1
  · have hch := hdc hd
    subst hch
    have hr := read_open s k hd
    refine ⟨?_, fun _ => by simp⟩
    unfold slack chargeLen
    simp only [hd, hr.2, ne_eq, not_false_eq_true, if_true, Bool.true_or, Bool.not_true, Bool.false_and,
      Bool.false_eq_true, if_false]
    omega

/-- what the induction needs to know at each phase of a legal history -/
def PhaseOK : Phase → St → Bool → Prop
  | .fresh, s, _ => s.dec = none
  | .reading, s, ch => s.dec ≠ none → ch = true
  | .done, _, _ => True

def slackP : Phase → St → Bool → Nat
  | .done, _, _ => 0
  | _, s, ch => slack s ch

theorem next_phaseOK {s : St} (wf : Stream.WF s.basic) :
    Stream.WF (step s .next).basic ∧ (step s .next).dec = none := by
  obtain ⟨r, e⟩ := next_ok s wf
  have hs : step s .next = r.2 := by simp only [step, e]
  rw [hs]
  obtain ⟨_, _, h3, _, h5⟩ := next_amort s r.2 r.1 wf e
  exact ⟨h3, h5⟩

/-- **the decode side of a legal history**: the bytes handed to the caller are covered by the slack
of the open decoder and the declared lengths of the members decoded from here on -/
theorem outTotal_le (ops : List Op) : ∀ (p : Phase) (s : St) (ch : Bool),
    legalFrom p ops = true → Stream.WF s.basic → PhaseOK p s ch →
    outTotal s ops ≤ slackP p s ch + decodedLengthFrom s ch ops := by
  induction ops with
  | nil => intro p s ch _ _ _; simp [outTotal, decodedLengthFrom]
  | cons op ops ih =>
    intro p s ch hleg wf hok
    cases op with
    | next =>
      have hl' : legalFrom .fresh ops = true := by cases p <;> exact hleg
      obtain ⟨wf', hd'⟩ := next_phaseOK wf
      have := ih .fresh (step s .next) false hl' wf' hd'
      have hz : slackP .fresh (step s .next) false = 0 := by
        show slack _ _ = 0
        unfold slack; simp [hd']
      simp only [outTotal, decodedLengthFrom, opOut, chargeLen, chNext]
      omega
    | read k =>
      have wf' : Stream.WF (step s (.read k)).basic := (step_adv s (.read k) (by intro h; cases h)).wf wf
      have hph : legalFrom .reading ops = true ∧ (s.dec ≠ none → ch = true) ∧
          slackP p s ch = slack s ch := by
        cases p with
        | fresh => exact ⟨hleg, fun h => absurd hok h, rfl⟩
        | reading => exact ⟨hleg, hok, rfl⟩
        | done => simp [legalFrom] at hleg
      obtain ⟨h1, h2⟩ := read_slack s ch k hph.2.1
      have := ih .reading (step s (.read k)) (ch || opens s) hph.1 wf' h2
      simp only [outTotal, decodedLengthFrom, opOut, chNext]
      rw [hph.2.2]
      have e1 : step s (.read k) = (read s k).2 := rfl
      rw [e1] at this ⊢
      have e2 : slackP .reading (read s k).2 (ch || opens s) = slack (read s k).2 (ch || opens s) := rfl
      rw [e2] at this
      omega
    | check =>
      have wf' : Stream.WF (step s .check).basic := (step_adv s .check (by intro h; cases h)).wf wf
      have hph : legalFrom .done ops = true ∧ s.dec = none ∧ slackP p s ch = slack s ch := by
        cases p with
        | fresh => exact ⟨hleg, hok, rfl⟩
        | reading => simp [legalFrom] at hleg
        | done => simp [legalFrom] at hleg
      have := ih .done (step s .check) (ch || opens s) hph.1 wf' trivial
      have hout : (check s).1.2.length ≤ slack s ch + chargeLen s ch .check := by
        cases ho : opens s with
        | false => rw [check_out_noop ho]; simp
        | true =>
          have := check_output_le' s hph.2.1
          unfold slack chargeLen
          simp only [hph.2.1, ne_eq, not_true_eq_false, if_false, ho, Bool.and_true]
          cases ch <;> simp <;> omega
      simp only [outTotal, decodedLengthFrom, opOut, chNext]
      rw [hph.2.2]
      have e2 : slackP .done (step s .check) (ch || opens s) = 0 := rfl
      rw [e2] at this
      omega
    | extract b =>
      have wf' : Stream.WF (step s (.extract b)).basic :=
        (step_adv s (.extract b) (by intro h; cases h)).wf wf
      have hph : legalFrom .done ops = true ∧ s.dec = none ∧ slackP p s ch = slack s ch := by
        cases p with
        | fresh => exact ⟨hleg, hok, rfl⟩
        | reading => simp [legalFrom] at hleg
        | done => simp [legalFrom] at hleg
      have := ih .done (step s (.extract b)) (ch || opens s) hph.1 wf' trivial
      have hout : (extract s b).1.2.length ≤ slack s ch + chargeLen s ch (.extract b) := by
        cases ho : opens s with
        | false => rw [extract_out_noop ho]; simp
        | true =>
          have := extract_output_le s hph.2.1 b
          unfold slack chargeLen
          simp only [hph.2.1, ne_eq, not_true_eq_false, if_false, ho, Bool.and_true]
          cases ch <;> simp <;> omega
      simp only [outTotal, decodedLengthFrom, opOut, chNext]
      rw [hph.2.2]
      have e2 : slackP .done (step s (.extract b)) (ch || opens s) = 0 := rfl
      rw [e2] at this
      omega

end LhasaV.ReaderIndep
