import LhasaV.Lemmas.TestBytes3
/-!
# C07 on bytes (part 4): the whole run of `lha t` on `flatI pk its`

`test_items`: for EVERY item list with `ItemsOk` — intact, damaged or cut short behind the last
header — and every option set, `Messages.run .test` on the bytes `flatI pk its` handles exactly the
members the wildcard arguments select, in archive order; for each it records `testOk` and writes
`testOut`; nothing goes to standard error, no `exit(-1)`, no fault; the file system is untouched.
`exit_items`: the exit status is 0 if `testOk` holds of every selected member, else 1.
-/
set_option linter.unusedSimpArgs false
namespace LhasaV.TestBytes
open LhasaV LhasaV.Header LhasaV.Extract LhasaV.GlobFs LhasaV.Contain LhasaV.ExtractTree
open LhasaV.ExtractTree.Sample LhasaV.Spec.HeaderEnc LhasaV.Reader LhasaV.ReaderIndep LhasaV.ArchiveOf
open LhasaV.PrintList LhasaV.MacProps LhasaV.Messages

/-- the members the wildcard arguments select (all when there are none) -/
def sel (o : Opts) (it : Item) : Bool := selected o.filters it.e

/-- the state `lha t` is in after the members `its`, when it was in `s` before them -/
def after (pk : Packer) (s : Messages.St) (its : List Item) (rdF : Reader.St) : Messages.St :=
  { x := { s.x with rd := rdF },
    result := s.result && (its.filter (sel s.x.opts)).all (testOk s.x.opts pk),
    aborted := false, fault := s.fault,
    stdout := s.stdout ++ (its.filter (sel s.x.opts)).flatMap (testOut s.x.opts pk),
    stderr := s.stderr,
    trace := ((its.filter (sel s.x.opts)).map (fun it => (hdrOf pk it.e, testOk s.x.opts pk it))).reverse ++
      s.trace }

theorem after_skip_eq (pk : Packer) (s : Messages.St) (it : Item) (tl : List Item) (rd' rdF : Reader.St)
    (hsel : sel s.x.opts it = false) :
    after pk { s with x := { s.x with rd := rd' } } tl rdF = after pk s (it :: tl) rdF := by
  simp only [after, List.filter_cons, hsel, Bool.false_eq_true, if_false]

theorem after_sel_eq (pk : Packer) (s : Messages.St) (it : Item) (tl : List Item) (rd' rd'' rdF : Reader.St)
    (h : Hdr) (e : Messages.Entry) (hsel : sel s.x.opts it = true) (hh : h = hdrOf pk it.e)
    (ho : e.out = testOut s.x.opts pk it) (hk : e.ok = testOk s.x.opts pk it) (he : e.err = [])
    (_ha : e.abort = false) :
    after pk (record { s with x := { s.x with rd := rd' } } { s.x with rd := rd'' } h e) tl rdF =
      after pk s (it :: tl) rdF := by
  simp only [after, record, List.filter_cons, hsel, if_true, List.all_cons, List.flatMap_cons, List.map_cons,
    List.reverse_cons, List.append_assoc, List.singleton_append, ho, hk, he, hh, List.append_nil,
    Bool.and_assoc]

/-- **the loop of `test_file_crc` along the archive** -/
theorem loop_items (pk : Packer) (A : Array UInt8) : ∀ (fuel : Nat) (its : List Item) (s : Messages.St),
    ItemsOk pk its → WalkI pk A its s.x.rd → s.aborted = false → its.length < fuel →
    ∃ rdF, loop .test fuel s = after pk s its rdF := by
  intro fuel
  induction fuel with
  | zero => intro its s _ _ _ hf; omega
  | succ n ih =>
    intro its s hok hw hab hf
    cases its with
    | nil =>
      obtain ⟨rd', hn⟩ := walkI_nil hw
      refine ⟨rd', ?_⟩
      unfold loop
      rw [if_neg (by rw [hab]; decide), hn]
      simp only [after, List.filter_nil, List.all_nil, Bool.and_true, List.flatMap_nil, List.append_nil,
        List.map_nil, List.reverse_nil, List.nil_append]
      cases s
      simp only at hab
      simp only [hab]
    | cons it tl =>
      obtain ⟨c, rd', hn, hs⟩ := walkI_cons hok hw
      obtain ⟨hke, _, hpe, _⟩ := hok.1
      have hm : Glob.matchesFilter s.x.opts.filters c.h = sel s.x.opts it := by
        rw [hs.hdr]; exact matches_of (hdrOf_denotes pk it.e hpe) _
      have hlen : tl.length < n := by simp at hf; omega
      unfold loop
      rw [if_neg (by rw [hab]; decide), hn]
      dsimp only
      rw [hm]
      cases hsel : sel s.x.opts it with
      | false =>
        simp only [Bool.not_false, if_true]
        obtain ⟨rdF, hF⟩ := ih tl { s with x := { s.x with rd := rd' } } hok.tail (hs.skip hok) hab hlen
        exact ⟨rdF, by rw [hF, after_skip_eq pk s it tl rd' rdF hsel]⟩
      | true =>
        simp only [Bool.not_true, Bool.false_eq_true, if_false]
        obtain ⟨t1, t2, t3, t4, t5⟩ := testEntry_item s.x.opts hs hok
        unfold Messages.step
        dsimp only
        obtain ⟨rdF, hF⟩ := ih tl
          (record { s with x := { s.x with rd := rd' } }
            { s.x with rd := (testEntry s.x.opts rd' c.h).2 } c.h (testEntry s.x.opts rd' c.h).1)
          hok.tail t5 t4 hlen
        exact ⟨rdF, by rw [hF, after_sel_eq pk s it tl rd' _ rdF c.h _ hsel hs.hdr t1 t2 t3 t4]⟩

/-- the fuel of `Messages.run` covers one call per member and the end -/
theorem fuel_items (pk : Packer) (its : List Item) : its.length < 2 * (flatI pk its).toArray.size + 16 := by
  have := length_le_flatI pk its
  simp only [List.size_toArray]
  omega

/-- **`lha t` on the bytes `flatI pk its`, every option set.** -/
theorem test_items (pk : Packer) (its : List Item) (hok : ItemsOk pk its) (o : Opts) (fs : Fs.St)
    (answers : Bytes) :
    (run .test (flatI pk its).toArray o fs answers).trace.reverse =
      (its.filter (sel o)).map (fun it => (hdrOf pk it.e, testOk o pk it)) ∧
    (run .test (flatI pk its).toArray o fs answers).stdout = (its.filter (sel o)).flatMap (testOut o pk) ∧
    (run .test (flatI pk its).toArray o fs answers).stderr = [] ∧
    (run .test (flatI pk its).toArray o fs answers).result = (its.filter (sel o)).all (testOk o pk) ∧
    (run .test (flatI pk its).toArray o fs answers).aborted = false ∧
    (run .test (flatI pk its).toArray o fs answers).fault = false ∧
    (run .test (flatI pk its).toArray o fs answers).x.fs = fs := by
  obtain ⟨rdF, hF⟩ := loop_items pk (flatI pk its).toArray (2 * (flatI pk its).toArray.size + 16) its
    { x := { rd := initReader (flatI pk its).toArray, fs := fs, opts := o, answers := answers } }
    hok (walkI_init pk its) rfl (fuel_items pk its)
  unfold Messages.run
  rw [hF]
  simp [after]

/-- **exit status of `lha t`**: 0 when every selected member is good (`testOk`), otherwise 1 -/
theorem exit_items (pk : Packer) (its : List Item) (hok : ItemsOk pk its) (o : Opts) (fs : Fs.St)
    (answers : Bytes) :
    exitStatus (run .test (flatI pk its).toArray o fs answers) =
      if (its.filter (sel o)).all (testOk o pk) then 0 else 1 := by
  obtain ⟨_, _, _, h4, h5, h6, _⟩ := test_items pk its hok o fs answers
  unfold exitStatus
  rw [h4, h5, h6]
  cases (its.filter (sel o)).all (testOk o pk) <;> simp

end LhasaV.TestBytes
