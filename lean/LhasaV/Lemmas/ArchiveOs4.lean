import LhasaV.Lemmas.ArchiveOs3
/-!
# C06, archives as bytes, any OS type (part 4): the header the parser returns

`hdrOs os pk e`: the header a caller receives for the member written with `fieldsOs os pk e` —
`ArchiveOf.hdrOf pk e` with the OS type `os` and the method as PRESENTED (`-lk7-` for LHark's
`-lh7-`).  `normalise_entryOs` evaluates the normalisation stage on the typed fields (first half
`postPre` per kind of entry, second half `post_simple`); `header_read_memberOs` combines it with
the C05 round trip.
-/
set_option linter.unusedSimpArgs false
namespace LhasaV.ArchiveOs
open LhasaV LhasaV.Header LhasaV.Extract LhasaV.GlobFs LhasaV.Contain LhasaV.ExtractTree
open LhasaV.ExtractTree.Sample LhasaV.Spec.HeaderEnc LhasaV.ArchiveOf

/-- the header before the method is renamed -/
def preHdr (os : Nat) (pk : Packer) (e : Entry) : Hdr :=
  { hdrOf pk e with osType := os, raw := rawOf (fieldsOs os pk e) }

/-- **the header the parser returns for the entry's member** -/
def hdrOs (os : Nat) (pk : Packer) (e : Entry) : Hdr :=
  { preHdr os pk e with method := presented (lvl pk) os (hdrOf pk e).method }

theorem flag9 (os : Nat) (pk : Packer) (e : Entry) :
    hasFlag (preHdr os pk e) Gen.flagOs9Perms = false := by
  cases e with
  | dir _ perms _ => cases perms <;> simp [preHdr, hasFlag, hdrOf, flagsOf, Gen.flagOs9Perms]
  | file _ _ perms _ => cases perms <;> simp [preHdr, hasFlag, hdrOf, flagsOf, Gen.flagOs9Perms]
  | link _ _ => simp [preHdr, hasFlag, hdrOf, Gen.flagOs9Perms]

theorem flagC (os : Nat) (pk : Packer) (e : Entry) :
    hasFlag (preHdr os pk e) Gen.flagCommonCrc = false := by
  cases e with
  | dir _ perms _ => cases perms <;> simp [preHdr, hasFlag, hdrOf, flagsOf, Gen.flagCommonCrc]
  | file _ _ perms _ => cases perms <;> simp [preHdr, hasFlag, hdrOf, flagsOf, Gen.flagCommonCrc]
  | link _ _ => simp [preHdr, hasFlag, hdrOf, Gen.flagCommonCrc]

theorem lhd_ne_lh0 : (lhdM == lh0) = false := by decide

theorem stable_dir {os : Nat} {p : Fs.Path} {perms : Option Nat} {t : Nat} (hs : OsEntry os (.dir p perms t)) :
    dosLikeOs os = true → StableBytes (joinDir p ++ []) := by
  intro hd; rw [List.append_nil]; exact hs hd

theorem stable_split {os : Nat} {e : Entry} (hne : e.path ≠ []) (hs : OsEntry os e) :
    dosLikeOs os = true → StableBytes (joinDir e.path.dropLast ++ e.path.getLast?.getD []) := by
  intro hd
  have := hs hd
  unfold CaseStable at this
  have e1 := List.dropLast_concat_getLast hne
  rw [← e1, joinDir_append] at this
  rw [List.getLast?_eq_some_getLast hne]
  apply StableBytes.of_slash
  simpa [joinDir, List.append_assoc] using this

theorem pathOf_collapse (dl : Fs.Path) (hdl : ∀ c ∈ dl, Name c) :
    (pathOf dl).map PathFix.collapse = pathOf dl := by
  unfold pathOf
  split
  · rfl
  · simp [collapse_joinDir _ hdl]

theorem normalise_dirOs (os : Nat) (pk : Packer) (mk : Nat → Nat) (p : Fs.Path) (perms : Option Nat) (t : Nat)
    (ho : OsOk os) (hk : EntryOk (.dir p perms t)) (he : EntryEnc (.dir p perms t))
    (hs : OsEntry os (.dir p perms t)) :
    normalise mk (fieldsOs os pk (.dir p perms t)) = .ok (hdrOs os pk (.dir p perms t)) := by
  obtain ⟨hpl, _, _, hpf⟩ := he
  have hne : p ≠ [] := hk.ne
  have hn : ∀ c ∈ p, Name c := hk.names
  have hp := stored_path p hpl
  have ht : typed mk (fieldsOs os pk (.dir p perms t)) = preHdr os pk (.dir p perms t) := by
    unfold preHdr hdrOf
    cases hl : pk.level1 <;> cases perms <;>
      simp [typed, fieldsOs, fieldsOf, lvl, baseTime, timeExt, hl, permExt, applyExt, sp_getLast p hne, hp, flagsOf]
  have hpre : postPre (preHdr os pk (.dir p perms t)) = .ok (preHdr os pk (.dir p perms t)) := by
    unfold postPre preHdr hdrOf
    cases perms with
    | none =>
      simp [methodIs, lhdM_eq2, lh0_eq2, lhd_ne_lh0, hasFlag, flagsOf, Gen.flagUnixPerms]
    | some q =>
      have hq : q &&& 0o170000 ≠ 0o120000 := hpf.2 rfl
      simp [methodIs, lhdM_eq2, lh0_eq2, lhd_ne_lh0, hasFlag, flagsOf, hq, Gen.flagUnixPerms]
  unfold normalise
  have hpost := post_simple (preHdr os pk (.dir p perms t)) (flag9 os pk _) (flagC os pk _) ho.2.1 (stable_dir hs)
    (by show Option.map PathFix.collapse (some (joinDir p)) = some (joinDir p)
        simp [collapse_joinDir p hn])
  rw [ht, postProcess_eq, hpre, Res.ok_bind, hpost]
  rfl

theorem normalise_fileOs (os : Nat) (pk : Packer) (mk : Nat → Nat) (p : Fs.Path) (data : Bytes)
    (perms : Option Nat) (t : Nat) (ho : OsOk os) (hk : EntryOk (.file p data perms t))
    (he : EntryEnc (.file p data perms t)) (hnd : (pk.pack data).1 ≠ lhdM)
    (hs : OsEntry os (.file p data perms t)) :
    normalise mk (fieldsOs os pk (.file p data perms t)) = .ok (hdrOs os pk (.file p data perms t)) := by
  obtain ⟨hpl, _, _, hpf, _⟩ := he
  have hmd : ((pk.pack data).1 == lhdM) = false := by
    rw [beq_eq_false_iff_ne]; exact hnd
  have hne : p ≠ [] := hk.ne
  have hn : ∀ c ∈ p, Name c := hk.names
  have hdl : ∀ c ∈ p.dropLast, Name c := fun c hc => hn c (List.dropLast_subset _ hc)
  have hp := stored_path p.dropLast (fun c hc => hpl c (List.dropLast_subset _ hc))
  have hlast : p.getLast?.getD [] ∈ p := by
    rw [List.getLast?_eq_some_getLast hne]; exact List.getLast_mem hne
  have hf := fname_id (p.getLast?.getD []) (fun b hb => (hpl _ hlast b hb).1) (hn _ hlast).1
  have ht : typed mk (fieldsOs os pk (.file p data perms t)) = preHdr os pk (.file p data perms t) := by
    unfold preHdr hdrOf
    by_cases hd : p.dropLast = []
    · cases hl : pk.level1 <;> cases perms <;>
        simp [typed, fieldsOs, fieldsOf, lvl, baseTime, timeExt, hl, permExt, pathExt, pathOf, hd, applyExt, hf, flagsOf]
    · cases hl : pk.level1 <;> cases perms <;>
        simp [typed, fieldsOs, fieldsOf, lvl, baseTime, timeExt, hl, permExt, pathExt, pathOf, hd, applyExt, hf, flagsOf,
          sp_getLast _ hd, hp]
  have hpre : postPre (preHdr os pk (.file p data perms t)) = .ok (preHdr os pk (.file p data perms t)) := by
    unfold postPre preHdr hdrOf
    simp [methodIs, lhdM_eq2, hmd]
  unfold normalise
  have hpost := post_simple (preHdr os pk (.file p data perms t)) (flag9 os pk _) (flagC os pk _) ho.2.1
    (by show dosLikeOs os = true → StableBytes ((pathOf p.dropLast).getD [] ++ p.getLast?.getD [])
        rw [pathOf_getD]; exact stable_split (e := .file p data perms t) hne hs)
    (pathOf_collapse _ hdl)
  rw [ht, postProcess_eq, hpre, Res.ok_bind, hpost]
  rfl

theorem normalise_linkOs (os : Nat) (pk : Packer) (mk : Nat → Nat) (p : Fs.Path) (tg : Bytes) (ho : OsOk os)
    (hk : EntryOk (.link p tg)) (he : EntryEnc (.link p tg)) (hs : OsEntry os (.link p tg)) :
    normalise mk (fieldsOs os pk (.link p tg)) = .ok (hdrOs os pk (.link p tg)) := by
  obtain ⟨hpl, _, htg⟩ := he
  have hne : p ≠ [] := hk.ne
  have hn : ∀ c ∈ p, Name c := hk.names
  have hdl : ∀ c ∈ p.dropLast, Name c := fun c hc => hn c (List.dropLast_subset _ hc)
  have hpdl : ∀ c ∈ p.dropLast, PlainName c := fun c hc => hpl c (List.dropLast_subset _ hc)
  have hp := stored_path p.dropLast hpdl
  have hlast : p.getLast?.getD [] ∈ p := by
    rw [List.getLast?_eq_some_getLast hne]; exact List.getLast_mem hne
  have hf := fname_id (p.getLast?.getD [] ++ [0x7c] ++ tg)
    (by
      intro b hb
      simp only [List.mem_append, List.mem_singleton] at hb
      rcases hb with (hb | hb) | hb
      · exact (hpl _ hlast b hb).1
      · subst hb; decide
      · exact (htg b hb).1)
    (by
      intro b hb
      simp only [List.mem_append, List.mem_singleton] at hb
      rcases hb with (hb | hb) | hb
      · exact (hn _ hlast).1 b hb
      · subst hb; decide
      · exact (htg b hb).2)
  have ht : typed mk (fieldsOs os pk (.link p tg)) =
      { preHdr os pk (.link p tg) with
        symlinkTarget := none, filename := some (p.getLast?.getD [] ++ [0x7c] ++ tg) } := by
    unfold preHdr hdrOf
    have hf' : List.map (fun b => if b = 0x2f then (0x5f : UInt8) else b) (cstr (p.getLast?.getD [] ++ 0x7c :: tg)) =
        p.getLast?.getD [] ++ 0x7c :: tg := by simpa using hf
    by_cases hd : p.dropLast = []
    · cases hl : pk.level1 <;>
        simp [typed, fieldsOs, fieldsOf, lvl, baseTime, timeExt, hl, pathExt, pathOf, hd, applyExt, hf']
    · cases hl : pk.level1 <;>
        simp [typed, fieldsOs, fieldsOf, lvl, baseTime, timeExt, hl, pathExt, pathOf, hd, applyExt, hf', sp_getLast _ hd, hp]
  have hpre : postPre { preHdr os pk (.link p tg) with
        symlinkTarget := none, filename := some (p.getLast?.getD [] ++ [0x7c] ++ tg) } =
      .ok (preHdr os pk (.link p tg)) := by
    have hps := parseSymlink_link { preHdr os pk (.link p tg) with
        symlinkTarget := none, filename := some (p.getLast?.getD [] ++ [0x7c] ++ tg) } p.dropLast (p.getLast?.getD []) tg hpdl
      (hn _ hlast).1 (hpl _ hlast) rfl rfl
    unfold postPre
    simp only [preHdr, hdrOf, List.append_assoc, List.singleton_append] at hps ⊢
    simp [methodIs, lhdM_eq2, lh0_eq2, lhd_ne_lh0, hasFlag, Gen.flagUnixPerms, hps]
  unfold normalise
  have hpost := post_simple (preHdr os pk (.link p tg)) (flag9 os pk _) (flagC os pk _) ho.2.1
    (by show dosLikeOs os = true → StableBytes ((pathOf p.dropLast).getD [] ++ p.getLast?.getD [])
        rw [pathOf_getD]; exact stable_split (e := .link p tg) hne hs)
    (pathOf_collapse _ hdl)
  rw [ht, postProcess_eq, hpre, Res.ok_bind, hpost]
  rfl

/-- **the normalisation stage accepts the fields of every encodable entry and yields `hdrOs`** -/
theorem normalise_entryOs (os : Nat) (pk : Packer) (mk : Nat → Nat) (e : Entry) (ho : OsOk os) (hk : EntryOk e)
    (he : EntryEnc e) (hnd : ∀ p data perms t, e = .file p data perms t → (pk.pack data).1 ≠ lhdM)
    (hs : OsEntry os e) : normalise mk (fieldsOs os pk e) = .ok (hdrOs os pk e) := by
  cases e with
  | dir p perms t => exact normalise_dirOs os pk mk p perms t ho hk he hs
  | file p data perms t => exact normalise_fileOs os pk mk p data perms t ho hk he (hnd _ _ _ _ rfl) hs
  | link p tg => exact normalise_linkOs os pk mk p tg ho hk he hs

end LhasaV.ArchiveOs
