import LhasaV.Lemmas.Lh1Mirror5
/-!
# C02, layer 6: lock-step over symbol sequences that never reach the reorder limit
-/
namespace LhasaV.Lh1Mirror
open LhasaV LhasaV.Lh1 LhasaV.Spec.Lzhuf LhasaV.Res

/-- the decoder's tree after `increment_for_code` for each of `syms` -/
def decRun : St → List Nat → Res St
  | s, [] => .ok s
  | s, c :: cs => incrementForCode s c >>= fun s' => decRun s' cs

/-- the whole decoder-side evolution: `lha_lh1_init`, then one `increment_for_code` per symbol -/
def decTree (src : Src) (syms : List Nat) : Res St := Lh1.init src >>= fun s => decRun s syms

theorem lockstep_from_no_rebuild (syms : List Nat) : ∀ (d : St) (z : TreeState), Mirror d z → Lh1.Inv d →
    (∀ c ∈ syms, c < 314) →
    (∀ k, k < syms.length → zf ((syms.take k).foldl update z) 626 < 32768) →
    ∃ d', decRun d syms = .ok d' ∧ Lh1.Inv d' ∧ Mirror d' (syms.foldl update z) := by
  induction syms with
  | nil => intro d z hm hi _ _; exact ⟨d, rfl, hi, hm⟩
  | cons c cs ih =>
    intro d z hm hi hs hno
    have h0 : zf z 626 = fr d 0 := hm.2.freq 0 (by omega)
    have hlt : fr d 0 < 0x8000 := by
      have := hno 0 (by simp)
      simp only [List.take_zero, List.foldl_nil] at this
      omega
    obtain ⟨d1, e1, hi1, hm1⟩ := mirror_update_no_rebuild d z c hm hi hlt (hs c (by simp))
    obtain ⟨d', e', hi', hm'⟩ := ih d1 (update z c) hm1 hi1 (fun c' hc' => hs c' (by simp [hc']))
      (fun k hk => by
        have := hno (k + 1) (by simp; omega)
        simpa using this)
    refine ⟨d', ?_, hi', ?_⟩
    · simp only [decRun, e1, ok_bind]; exact e'
    · simpa using hm'

/-- **Lock-step without rebuild.**  For every symbol sequence during which LZHUF's root frequency
stays below `MAX_FREQ` (no `reconst`), the decoder — `lha_lh1_init` followed by one
`increment_for_code` per symbol — never fails and ends in the mirror image of `Lzhuf.run syms`. -/
theorem lh1_lockstep_no_rebuild (src : Src) (syms : List Nat) (h : ∀ c ∈ syms, c < 314)
    (hno : ∀ k, k < syms.length → zf (run (syms.take k)) 626 < 32768) :
    ∃ d, decTree src syms = .ok d ∧ Lh1.Inv d ∧ Mirror d (run syms) := by
  obtain ⟨s, e, hi, hm⟩ := mirror_init src
  obtain ⟨d, e', hi', hm'⟩ := lockstep_from_no_rebuild syms s startHuff hm hi h hno
  exact ⟨d, by simp only [decTree, e, ok_bind]; exact e', hi', hm'⟩

end LhasaV.Lh1Mirror
