import LhasaV.Lemmas.ArchiveOs5
/-!
# C06, archives as bytes, level-0 headers (part 6): the typed fields and the returned header

The LHarc / LArc header (level 0): the whole name — directory part included, '\' as separator — in
the base header, an MS-DOS time stamp, and after the CRC the "extended area".  `fields0 pk e`
writes the area LHA for Unix writes: 'U', a minor version, the Unix time, the permission bits, uid
and gid (12 bytes).  With it the time is the exact Unix time (the MS-DOS stamp is left zero and
ignored) and permissions are ALWAYS recorded — an entry without recorded permissions has no
level-0 encoding in this form (`Entry0`), and a symbolic link is a `-lhd-` member named
`name|target` with mode 0120777.

`Entry0 e` (decidable) adds to `ArchiveOf.EntryEnc`: recorded permissions, no '\' in names or link
target (the parser maps it to '/'), and the 1-byte header length: stored name ≤ 221 bytes.

`normalise_entry0`: the normalisation stage yields `hdr0 pk e`; `fields0_wf`; `encode_shape0`.
-/
set_option linter.unusedSimpArgs false
namespace LhasaV.ArchiveOs
open LhasaV LhasaV.Header LhasaV.Extract LhasaV.GlobFs LhasaV.Contain LhasaV.ExtractTree
open LhasaV.ExtractTree.Sample LhasaV.Spec.HeaderEnc LhasaV.ArchiveOf

/-- the stored form of a name: '\' for '/' -/
def bsl (s : Bytes) : Bytes := s.map (fun b => if b = 0x2f then 0x5c else b)

/-- the Unix extended area: 'U', minor version 0, time, permissions, uid 0, gid 0 -/
def unixArea (t perms : Nat) : Area := .unix 0x55 t [] perms 0 0

/-- the name a level-0 header carries, with '/' separators: "a/b/" for a directory, "a/b/f" for a
file, "a/b/l|target" for a link -/
def fullName : Entry → Bytes
  | .dir p _ _ => joinDir p
  | .file p _ _ _ => joinDir p.dropLast ++ p.getLast?.getD []
  | .link p tg => joinDir p.dropLast ++ (p.getLast?.getD [] ++ [0x7c] ++ tg)

/-- **the typed level-0 header fields of an entry** -/
def fields0 (pk : Packer) : Entry → Fields
  | .dir p perms t =>
    { level := 0, method := lhdM, clen := 0, length := 0, time := 0, crc := 0,
      name := bsl (fullName (.dir p perms t)), area := unixArea t (perms.getD 0) }
  | .file p data perms t =>
    { level := 0, method := (pk.pack data).1, clen := (pk.pack data).2.length, length := data.length, time := 0,
      crc := (Crc.buf 0 data).toNat, name := bsl (fullName (.file p data perms t)),
      area := unixArea t (perms.getD 0) }
  | .link p tg =>
    { level := 0, method := lhdM, clen := 0, length := 0, time := 0, crc := 0,
      name := bsl (fullName (.link p tg)), area := unixArea 0 0o120777 }

/-- the header the parser returns for the entry's level-0 member -/
def hdr0 (pk : Packer) : Entry → Hdr
  | .dir p perms t =>
    { path := some (joinDir p), filename := some [], method := lhdM, level := 0, osType := 0x55, timestamp := t,
      raw := rawOf (fields0 pk (.dir p perms t)), extraFlags := 3, unixPerms := perms.getD 0 }
  | .file p data perms t =>
    { path := pathOf p.dropLast, filename := some (p.getLast?.getD []), method := (pk.pack data).1,
      compressedLength := (pk.pack data).2.length, length := data.length, level := 0, osType := 0x55,
      crc := (Crc.buf 0 data).toNat, timestamp := t,
      raw := rawOf (fields0 pk (.file p data perms t)), extraFlags := 3, unixPerms := perms.getD 0 }
  | .link p tg =>
    { path := pathOf p.dropLast, filename := some (p.getLast?.getD []), symlinkTarget := some tg,
      method := lhdM, level := 0, osType := 0x55,
      raw := rawOf (fields0 pk (.link p tg)), extraFlags := 3, unixPerms := 0o120777 }

/-- no '\' -/
def NoBsl (s : Bytes) : Prop := ∀ b ∈ s, b ≠ 0x5c

instance (s : Bytes) : Decidable (NoBsl s) := inferInstanceAs (Decidable (∀ b ∈ s, b ≠ 0x5c))

/-- **the level-0 encodability conditions** on top of `EntryEnc`: recorded permissions, no '\',
a stored name of at most 221 bytes (header length ≤ 255) -/
def Entry0 : Entry → Prop
  | .dir p perms _ => perms.isSome = true ∧ (∀ c ∈ p, NoBsl c) ∧ (joinDir p).length ≤ 221
  | .file p _ perms _ => perms.isSome = true ∧ (∀ c ∈ p, NoBsl c) ∧ (joinDir p).length ≤ 221
  | .link p tg => (∀ c ∈ p, NoBsl c) ∧ NoBsl tg ∧ (joinDir p).length + tg.length ≤ 221

instance (e : Entry) : Decidable (Entry0 e) := by
  cases e with
  | dir p perms _ =>
    exact inferInstanceAs (Decidable (perms.isSome = true ∧ (∀ c ∈ p, NoBsl c) ∧ (joinDir p).length ≤ 221))
  | file p _ perms _ =>
    exact inferInstanceAs (Decidable (perms.isSome = true ∧ (∀ c ∈ p, NoBsl c) ∧ (joinDir p).length ≤ 221))
  | link p tg =>
    exact inferInstanceAs (Decidable ((∀ c ∈ p, NoBsl c) ∧ NoBsl tg ∧ (joinDir p).length + tg.length ≤ 221))

/-- every entry of the list has a level-0 encoding -/
def Encodable0 (es : List Entry) : Prop := ∀ e ∈ es, Entry0 e

instance (es : List Entry) : Decidable (Encodable0 es) := inferInstanceAs (Decidable (∀ e ∈ es, Entry0 e))

/-! ## the stored name -/

theorem bsl_length (s : Bytes) : (bsl s).length = s.length := by simp [bsl]

theorem slashes_bsl (s : Bytes) (h : NoBsl s) : slashes (bsl s) = s := by
  unfold slashes bsl
  rw [List.map_map]
  conv => rhs; rw [← List.map_id s]
  apply List.map_congr_left
  intro b hb
  have := h b hb
  by_cases h2 : b = 0x2f
  · subst h2; decide
  · simp [h2, this]

theorem cstr_name (s : Bytes) (h0 : ∀ b ∈ s, b ≠ 0) (h : NoBsl s) : cstr (slashes (bsl s)) = s := by
  rw [slashes_bsl s h, cstr_id s h0]

theorem mem_split (p : Fs.Path) (hne : p ≠ []) (P : UInt8 → Prop) (h0 : P 0x2f) (h : ∀ c ∈ p, ∀ b ∈ c, P b) :
    (∀ b ∈ joinDir p.dropLast, P b) ∧ ∀ b ∈ p.getLast?.getD [], P b := by
  refine ⟨joinDir_bytes _ P h0 (fun c hc => h c (List.dropLast_subset _ hc)), ?_⟩
  rw [List.getLast?_eq_some_getLast hne]
  exact h _ (List.getLast_mem hne)

/-- the bytes of the stored name satisfy what the components (and the target) satisfy -/
theorem fullName_bytes (e : Entry) (hne : e.path ≠ []) (P : UInt8 → Prop) (h0 : P 0x2f) (h1 : P 0x7c)
    (h : ∀ c ∈ e.path, ∀ b ∈ c, P b) (ht : ∀ p tg, e = .link p tg → ∀ b ∈ tg, P b) :
    ∀ b ∈ fullName e, P b := by
  cases e with
  | dir p _ _ => exact joinDir_bytes p P h0 h
  | file p _ _ _ =>
    obtain ⟨a, c⟩ := mem_split p hne P h0 h
    intro b hb
    rcases List.mem_append.1 hb with hb | hb
    · exact a b hb
    · exact c b hb
  | link p tg =>
    obtain ⟨a, c⟩ := mem_split p hne P h0 h
    intro b hb
    simp only [fullName, List.mem_append, List.mem_singleton] at hb
    rcases hb with hb | (hb | hb) | hb
    · exact a b hb
    · exact c b hb
    · subst hb; exact h1
    · exact ht p tg rfl b hb

theorem fullName_length (e : Entry) (hne : e.path ≠ []) :
    (fullName e).length + 1 = (joinDir e.path).length + (match e with | .dir _ _ _ => 1 | .file _ _ _ _ => 0 | .link _ tg => 1 + tg.length) := by
  cases e with
  | dir p _ _ => rfl
  | file p _ _ _ =>
    have := joinDir_split p hne
    simp only [fullName, Entry.path, List.length_append]
    omega
  | link p tg =>
    have := joinDir_split p hne
    simp only [fullName, Entry.path, List.length_append, List.length_cons, List.length_nil]
    omega

theorem fullName_ne (e : Entry) (hk : EntryOk e) : fullName e ≠ [] := by
  have h := fullName_length e hk.ne
  have hj : 1 ≤ (joinDir e.path).length := by
    have := sp_length_pos e.path hk.ne
    rw [sp_length] at this; exact this
  have h6 := name_length_pos hk
  have h7 := joinDir_split e.path hk.ne
  intro h0
  rw [h0] at h
  cases e with
  | dir p _ _ =>
    simp only [Entry.path, List.length_nil] at h hj
    omega
  | file p _ _ _ =>
    simp only [Entry.path, List.length_nil] at h hj h6 h7
    omega
  | link p tg =>
    simp only [Entry.path, List.length_nil] at h hj
    omega

/-- the parser's string handling gives the stored name back -/
theorem stored_name (e : Entry) (hk : EntryOk e) (he : EntryEnc e) (h0 : Entry0 e) :
    cstr (slashes (bsl (fullName e))) = fullName e := by
  apply cstr_name
  · apply fullName_bytes e hk.ne (· ≠ 0) (by decide) (by decide) (fun c hc b hb => (he.plain c hc b hb).1)
    intro p tg h b hb; subst h; exact (he.2.2 b hb).1
  · apply fullName_bytes e hk.ne (· ≠ 0x5c) (by decide) (by decide)
    · cases e with
      | dir p _ _ => exact h0.2.1
      | file p _ _ _ => exact h0.2.1
      | link p tg => exact h0.1
    · intro p tg h; subst h; exact h0.2.1

/-! ## well-formedness, shape -/

theorem fields0_level (pk : Packer) (e : Entry) : (fields0 pk e).level = 0 := by cases e <;> rfl

theorem fields0_name (pk : Packer) (e : Entry) : (fields0 pk e).name = bsl (fullName e) := by cases e <;> rfl

/-- the size condition on a packed file at level 0 -/
def FileSize0 (pk : Packer) : Entry → Prop
  | .file _ data _ _ => (pk.pack data).1.length = 5 ∧ (pk.pack data).2.length < 4294967296
  | _ => True

/-- **the level-0 fields of a member are well-formed fields of the header format** -/
theorem fields0_wf (pk : Packer) {e : Entry} (hk : EntryOk e) (he : EntryEnc e) (h0 : Entry0 e)
    (hpk : FileSize0 pk e) : wf (fields0 pk e) = true := by
  have hlen := fullName_length e hk.ne
  cases e with
  | dir p perms t =>
    obtain ⟨_, _, ht, hp⟩ := he
    obtain ⟨hs, _, hl⟩ := h0
    obtain ⟨q, rfl⟩ := Option.isSome_iff_exists.1 hs
    have hq : q < 65536 := hp.1
    simp only [Entry.path] at hlen
    simp [wf, fields0, unixArea, Area.wf, Area.bytes, le16, le32, bsl_length, ht, hq, lhdM]
    omega
  | file p data perms t =>
    obtain ⟨_, _, ht, hp, hd⟩ := he
    obtain ⟨hs, _, hl⟩ := h0
    obtain ⟨q, rfl⟩ := Option.isSome_iff_exists.1 hs
    have hq : q < 65536 := hp.1
    have h7 := crc_lt data
    simp only [Entry.path] at hlen
    simp [wf, fields0, unixArea, Area.wf, Area.bytes, le16, le32, bsl_length, ht, hq, hpk.1, hpk.2, hd, h7]
    exact ⟨decide_eq_true (by simpa using h7), by omega⟩
  | link p tg =>
    obtain ⟨_, _, hl⟩ := h0
    simp only [Entry.path] at hlen
    simp [wf, fields0, unixArea, Area.wf, Area.bytes, le16, le32, bsl_length, lhdM]
    omega

/-- a level-0 header is at least 24 bytes long and carries its method at offset 2 -/
theorem encode_shape0 (pk : Packer) (e : Entry) :
    ∃ a b tl, encode (fields0 pk e) = a :: b :: ((fields0 pk e).method ++ tl) ∧ 17 ≤ tl.length := by
  unfold encode
  rw [HeaderRT.enc_l0 _ (fields0_level pk e)]
  refine ⟨_, _, _, rfl, ?_⟩
  simp [le16, le32]
  omega

end LhasaV.ArchiveOs
