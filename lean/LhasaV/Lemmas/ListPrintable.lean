import LhasaV.Model.ListOut
import LhasaV.Model.Safe
/-!
Property C18 for `lha l / lv / v / vv`: every byte the listing writes is printable ASCII
(0x20..0x7e) or a newline, for arbitrary header contents.

`All P l` – every byte of `l` satisfies `P`.  The per-column lemmas are stated for the strongest
class that holds (`Pr` = printable, no newline; digits; …) because the row-structure lemmas
(`ListStruct`) need "no newline inside a column" and "no ':' in the year form".
-/
namespace LhasaV.ListProps
open LhasaV LhasaV.Header LhasaV.ListOut

/-! ### byte classes -/

def All (P : UInt8 → Prop) (l : Bytes) : Prop := ∀ b ∈ l, P b

instance {P : UInt8 → Prop} [DecidablePred P] (l : Bytes) : Decidable (All P l) := by
  unfold All; infer_instance

theorem all_nil {P : UInt8 → Prop} : All P [] := by intro b hb; cases hb

theorem all_cons {P : UInt8 → Prop} {a : UInt8} {l : Bytes} : All P (a :: l) ↔ P a ∧ All P l := by
  simp [All]

theorem all_append {P : UInt8 → Prop} {a b : Bytes} : All P (a ++ b) ↔ All P a ∧ All P b := by
  simp only [All, List.mem_append]
  constructor
  · intro h; exact ⟨fun x hx => h x (Or.inl hx), fun x hx => h x (Or.inr hx)⟩
  · rintro ⟨h1, h2⟩ x (hx | hx)
    · exact h1 x hx
    · exact h2 x hx

theorem all_replicate {P : UInt8 → Prop} {c : UInt8} (n : Nat) (h : P c) :
    All P (List.replicate n c) := by
  intro b hb; rw [List.mem_replicate] at hb; rw [hb.2]; exact h

theorem All.mono {P Q : UInt8 → Prop} {l : Bytes} (h : All P l) (hpq : ∀ b, P b → Q b) :
    All Q l := fun b hb => hpq b (h b hb)

theorem all_flatMap {α} {P : UInt8 → Prop} {f : α → Bytes} {l : List α}
    (h : ∀ a ∈ l, All P (f a)) : All P (l.flatMap f) := by
  intro b hb
  rw [List.mem_flatMap] at hb
  obtain ⟨a, ha, hb⟩ := hb
  exact h a ha b hb

/-- printable ASCII, 0x20..0x7e -/
abbrev Pr (l : Bytes) : Prop := All Safe.printable l

/-- what may reach the terminal: printable ASCII or a newline -/
def okByte (b : UInt8) : Prop := Safe.printable b ∨ b = 0x0a

instance (b : UInt8) : Decidable (okByte b) := by unfold okByte; infer_instance

abbrev Ok (l : Bytes) : Prop := All okByte l

theorem Pr.ok {l : Bytes} (h : Pr l) : Ok l := h.mono (fun _ hb => Or.inl hb)

/-- an ASCII decimal digit -/
def decDigit (b : UInt8) : Prop := 0x30 ≤ b ∧ b ≤ 0x39

/-- an ASCII lower-case hexadecimal digit -/
def hexDigit (b : UInt8) : Prop := (0x30 ≤ b ∧ b ≤ 0x39) ∨ (0x61 ≤ b ∧ b ≤ 0x66)

/-- printable and not a colon: the class of the date and year parts of a timestamp -/
def noColon (b : UInt8) : Prop := Safe.printable b ∧ b ≠ 0x3a

instance (b : UInt8) : Decidable (decDigit b) := by unfold decDigit; infer_instance
instance (b : UInt8) : Decidable (hexDigit b) := by unfold hexDigit; infer_instance
instance (b : UInt8) : Decidable (noColon b) := by unfold noColon; infer_instance

theorem decDigit_printable {b : UInt8} (h : decDigit b) : Safe.printable b := by
  obtain ⟨h1, h2⟩ := h
  refine ⟨?_, ?_⟩
  · exact Nat.le_trans (by decide) (UInt8.le_iff_toNat_le.mp h1) |> UInt8.le_iff_toNat_le.mpr
  · exact Nat.le_trans (UInt8.le_iff_toNat_le.mp h2) (by decide) |> UInt8.le_iff_toNat_le.mpr

theorem decDigit_noColon {b : UInt8} (h : decDigit b) : noColon b := by
  refine ⟨decDigit_printable h, ?_⟩
  rintro rfl
  exact absurd h.2 (by decide)

theorem hexDigit_printable {b : UInt8} (h : hexDigit b) : Safe.printable b := by
  rcases h with ⟨h1, h2⟩ | ⟨h1, h2⟩
  · exact decDigit_printable ⟨h1, h2⟩
  · refine ⟨?_, ?_⟩
    · exact Nat.le_trans (by decide) (UInt8.le_iff_toNat_le.mp h1) |> UInt8.le_iff_toNat_le.mpr
    · exact Nat.le_trans (UInt8.le_iff_toNat_le.mp h2) (by decide) |> UInt8.le_iff_toNat_le.mpr

theorem pr_space : Safe.printable 0x20 := by decide
theorem noColon_space : noColon 0x20 := by decide
theorem pr_zero : Safe.printable 0x30 := by decide
theorem noColon_zero : noColon 0x30 := by decide
theorem pr_dash : Safe.printable 0x2d := by decide

/-! ### printf building blocks -/

theorem all_blanks {P : UInt8 → Prop} (n : Nat) (h : P 0x20) : All P (blanks n) :=
  all_replicate n h

theorem all_padLeft {P : UInt8 → Prop} {w : Nat} {b : Bytes} (h0 : P 0x20) (h : All P b) :
    All P (padLeft w b) := all_append.mpr ⟨all_blanks _ h0, h⟩

theorem all_padRight {P : UInt8 → Prop} {w : Nat} {b : Bytes} (h0 : P 0x20) (h : All P b) :
    All P (padRight w b) := all_append.mpr ⟨h, all_blanks _ h0⟩

theorem all_padZero {P : UInt8 → Prop} {w : Nat} {b : Bytes} (h0 : P 0x30) (h : All P b) :
    All P (padZero w b) := all_append.mpr ⟨all_replicate _ h0, h⟩

/-- every character of `Nat.toDigits b n` is `digitChar d` for a digit value `d < b` -/
theorem toDigits_mem {b : Nat} (hb : 1 < b) (n : Nat) :
    ∀ c ∈ Nat.toDigits b n, ∃ d, d < b ∧ c = Nat.digitChar d := by
  induction n using Nat.strongRecOn with
  | _ n ih =>
    intro c hc
    rw [Nat.toDigits_eq_if hb] at hc
    split at hc
    · rename_i hlt
      rw [List.mem_singleton] at hc
      exact ⟨n, hlt, hc⟩
    · rename_i hge
      rw [List.mem_append, List.mem_singleton] at hc
      rcases hc with hc | hc
      · exact ih (n / b) (Nat.div_lt_self (by omega) hb) c hc
      · exact ⟨n % b, Nat.mod_lt _ (by omega), hc⟩

theorem digitChar_dec : ∀ d, d < 10 → decDigit (UInt8.ofNat (Nat.digitChar d).toNat) := by
  decide +kernel

theorem digitChar_hex : ∀ d, d < 16 → hexDigit (UInt8.ofNat (Nat.digitChar d).toNat) := by
  decide +kernel

theorem dec_digits (n : Nat) : All decDigit (dec n) := by
  intro x hx
  simp only [dec, digitsOf, List.mem_map] at hx
  obtain ⟨c, hc, rfl⟩ := hx
  obtain ⟨d, hd, rfl⟩ := toDigits_mem (by decide) n c hc
  exact digitChar_dec d hd

theorem hex_digits (n : Nat) : All hexDigit (hex n) := by
  intro x hx
  simp only [hex, digitsOf, List.mem_map] at hx
  obtain ⟨c, hc, rfl⟩ := hx
  obtain ⟨d, hd, rfl⟩ := toDigits_mem (by decide) n c hc
  exact digitChar_hex d hd

theorem pr_dec (n : Nat) : Pr (dec n) := (dec_digits n).mono (fun _ => decDigit_printable)
theorem noColon_dec (n : Nat) : All noColon (dec n) := (dec_digits n).mono (fun _ => decDigit_noColon)
theorem pr_hex (n : Nat) : Pr (hex n) := (hex_digits n).mono (fun _ => hexDigit_printable)

/-- `safe_printf` output is printable: `ListOut.safe` is `Safe.safeOutput` -/
theorem safe_eq (b : Bytes) : ListOut.safe b = Safe.safeOutput b := rfl

theorem pr_safe (b : Bytes) : Pr (ListOut.safe b) := by
  rw [safe_eq]; exact Safe.safeOutput_printable b

theorem pr_optSafe (o : Option Bytes) : Pr (optSafe o) := by
  cases o with
  | none => exact all_nil
  | some b => exact pr_safe b

/-! ### the columns -/

theorem pr_str_ite (c : Prop) [Decidable c] (a b : String) (ha : Pr (str a)) (hb : Pr (str b)) :
    Pr (str (if c then a else b)) := by
  by_cases h : c
  · rw [if_pos h]; exact ha
  · rw [if_neg h]; exact hb

theorem pr_osType (os : Nat) : Pr (str (osTypeToString os)) := by
  unfold osTypeToString
  repeat' apply pr_str_ite
  all_goals decide +kernel

theorem all_permBits {P : UInt8 → Prop} (letters : Bytes) (v : Nat) (h0 : P 0x2d)
    (h : All P letters) : All P (permBits letters v) := by
  intro x hx
  simp only [permBits, List.mem_map] at hx
  obtain ⟨i, _, rfl⟩ := hx
  split
  · rw [List.getD_eq_getElem?_getD]
    cases hi : letters[i]? with
    | none => exact h0
    | some c => exact h c (List.mem_of_getElem? hi)
  · exact h0

theorem pr_unixPermissions (h : Hdr) : Pr (unixPermissions h) := by
  unfold unixPermissions
  refine all_cons.mpr ⟨?_, all_permBits _ _ pr_dash (by decide +kernel)⟩
  split
  · decide
  · split <;> decide

theorem pr_os9Permissions (h : Hdr) : Pr (os9Permissions h) := by
  unfold os9Permissions
  refine all_cons.mpr ⟨?_, all_append.mpr ⟨all_permBits _ _ pr_dash (by decide +kernel), by decide +kernel⟩⟩
  split <;> decide

theorem pr_permissionColumn (h : Hdr) : Pr (permissionColumn h) := by
  unfold permissionColumn
  split
  · exact pr_os9Permissions h
  · split
    · exact pr_unixPermissions h
    · exact all_padRight pr_space (pr_osType _)

theorem pr_slash : Pr (str "/") := by decide +kernel
theorem pr_space_str : Pr (str " ") := by decide +kernel
theorem noColon_space_str : All noColon (str " ") := by decide +kernel
theorem pr_dot : Pr (str ".") := by decide +kernel
theorem pr_percent : Pr (str "%") := by decide +kernel
theorem pr_stars : Pr (str "******") := by decide +kernel
theorem pr_minus : Pr (str "-") := by decide +kernel
theorem pr_colon : Pr (str ":") := by decide +kernel

theorem pr_uidGidColumn (h : Hdr) : Pr (uidGidColumn h) := by
  unfold uidGidColumn
  split
  · exact all_append.mpr ⟨all_append.mpr ⟨all_padLeft pr_space (pr_dec _), pr_slash⟩,
      all_padRight pr_space (pr_dec _)⟩
  · exact all_blanks _ pr_space

theorem pr_decInt32 (n : Nat) : Pr (decInt32 n) := by
  unfold decInt32
  dsimp only
  split
  · exact pr_dec _
  · exact all_append.mpr ⟨pr_minus, pr_dec _⟩

theorem pr_numFilesFooter (n : Nat) : Pr (numFilesFooter n) := by
  unfold numFilesFooter
  split
  · exact all_append.mpr ⟨all_padLeft pr_space (pr_decInt32 _), by decide +kernel⟩
  · exact all_append.mpr ⟨all_padLeft pr_space (pr_decInt32 _), by decide +kernel⟩

theorem pr_sizeField (n : Nat) : Pr (sizeField n) := all_padLeft pr_space (pr_dec n)

/-- `%5.1f` prints digits, one '.', and blanks, whatever the float is -/
theorem pr_fmt51 (f : F32) : Pr (fmt51 f) := by
  unfold fmt51
  exact all_padLeft pr_space (all_append.mpr ⟨all_append.mpr ⟨pr_dec _, pr_dot⟩, pr_dec _⟩)

theorem pr_percentField (c u : Nat) : Pr (percentField c u) :=
  all_append.mpr ⟨pr_fmt51 _, pr_percent⟩

theorem pr_ratioColumn (h : Hdr) : Pr (ratioColumn h) := by
  unfold ratioColumn
  split
  · exact pr_stars
  · exact pr_percentField _ _

theorem pr_ratioFooter (c l : Nat) : Pr (ratioFooter c l) := by
  unfold ratioFooter
  split
  · exact pr_stars
  · exact pr_percentField _ _

/-- the method / CRC column: the (arbitrary) method bytes go through `safe_printf` -/
theorem pr_methodCrcColumn (h : Hdr) : Pr (methodCrcColumn h) := pr_safe _

theorem months_noColon : ∀ i, i < 12 → All noColon (str (months.getD i "???")) := by
  decide +kernel

theorem month_noColon (i : Nat) : All noColon (str (months.getD i "???")) := by
  by_cases hi : i < 12
  · exact months_noColon i hi
  · have : months.getD i "???" = "???" := by
      rw [List.getD_eq_getElem?_getD, List.getElem?_eq_none (by simp [months]; omega)]
      rfl
    rw [this]; decide +kernel

/-- the `"Mon dd "` part of a listing timestamp -/
def datePart (t : Nat) : Bytes :=
  str (months.getD (gmtime t).mon "???") ++ str " " ++ padLeft 2 (dec (gmtime t).mday) ++ str " "

theorem datePart_noColon (t : Nat) : All noColon (datePart t) :=
  all_append.mpr ⟨all_append.mpr ⟨all_append.mpr ⟨month_noColon _, noColon_space_str⟩,
    all_padLeft noColon_space (noColon_dec _)⟩, noColon_space_str⟩

theorem pr_datePart (t : Nat) : Pr (datePart t) := (datePart_noColon t).mono (fun _ h => h.1)

/-- the two forms of `output_timestamp` -/
def recentForm (t : Nat) : Bytes :=
  datePart t ++ padZero 2 (dec (gmtime t).hour) ++ str ":" ++ padZero 2 (dec (gmtime t).min)

def oldForm (t : Nat) : Bytes :=
  datePart t ++ str " " ++ padZero 4 (dec (gmtime t).year)

theorem pr_recentForm (t : Nat) : Pr (recentForm t) :=
  all_append.mpr ⟨all_append.mpr ⟨all_append.mpr ⟨pr_datePart t, all_padZero pr_zero (pr_dec _)⟩,
    pr_colon⟩, all_padZero pr_zero (pr_dec _)⟩

theorem oldForm_noColon (t : Nat) : All noColon (oldForm t) :=
  all_append.mpr ⟨all_append.mpr ⟨datePart_noColon t, noColon_space_str⟩,
    all_padZero noColon_zero (noColon_dec _)⟩

theorem pr_oldForm (t : Nat) : Pr (oldForm t) := (oldForm_noColon t).mono (fun _ h => h.1)

/-- `output_timestamp` by cases -/
theorem outputTimestamp_eq (now t : Nat) :
    outputTimestamp now t =
      if t = 0 then blanks 12
      else if (t : Int) > (now : Int) - 15552000 then recentForm t else oldForm t := by
  unfold outputTimestamp recentForm oldForm datePart
  split
  · rfl
  · rfl

theorem pr_outputTimestamp (now t : Nat) : Pr (outputTimestamp now t) := by
  rw [outputTimestamp_eq]
  split
  · exact all_blanks _ pr_space
  · split
    · exact pr_recentForm t
    · exact pr_oldForm t

theorem pr_outputFullTimestamp (t : Nat) : Pr (outputFullTimestamp t) := by
  unfold outputFullTimestamp
  split
  · exact all_blanks _ pr_space
  · dsimp only
    simp only [Pr, all_append]
    refine ⟨⟨⟨⟨⟨⟨⟨⟨⟨⟨?_, ?_⟩, ?_⟩, ?_⟩, ?_⟩, ?_⟩, ?_⟩, ?_⟩, ?_⟩, ?_⟩, ?_⟩
    all_goals first
      | exact all_padZero pr_zero (pr_dec _)
      | exact pr_minus
      | exact pr_colon
      | exact pr_space_str

theorem pr_nameColumn (h : Hdr) : Pr (nameColumn h) := by
  unfold nameColumn
  refine all_append.mpr ⟨all_append.mpr ⟨pr_optSafe _, pr_optSafe _⟩, ?_⟩
  split
  · exact all_nil
  · exact pr_safe _

/-- the name line of `lv` / `vv` without its newline -/
def wholeLineName (h : Hdr) : Bytes :=
  optSafe h.path ++ optSafe h.filename ++
  (match h.symlinkTarget with
   | none => []
   | some t => ListOut.safe (str "|" ++ t))

theorem wholeLineNameColumn_eq (h : Hdr) : wholeLineNameColumn h = wholeLineName h ++ str "\n" := rfl

theorem str_newline : str "\n" = [0x0a] := by decide +kernel

theorem pr_wholeLineName (h : Hdr) : Pr (wholeLineName h) := by
  unfold wholeLineName
  refine all_append.mpr ⟨all_append.mpr ⟨pr_optSafe _, pr_optSafe _⟩, ?_⟩
  split
  · exact all_nil
  · exact pr_safe _

theorem ok_newline : Ok (str "\n") := by decide +kernel

theorem ok_wholeLineNameColumn (h : Hdr) : Ok (wholeLineNameColumn h) :=
  all_append.mpr ⟨(pr_wholeLineName h).ok, ok_newline⟩

theorem pr_headerLevelColumn (h : Hdr) : Pr (headerLevelColumn h) :=
  all_append.mpr ⟨all_append.mpr ⟨by decide +kernel, pr_dec _⟩, by decide +kernel⟩

/-- every column handler except the whole-line name prints printable bytes only -/
theorem pr_runHandler (now : Nat) (k : Handler) (h : Hdr) (hk : k ≠ .wholeLineName) :
    Pr (runHandler now k h) := by
  cases k with
  | permission => exact pr_permissionColumn h
  | uidGid => exact pr_uidGidColumn h
  | packed => exact pr_sizeField _
  | size => exact pr_sizeField _
  | ratio => exact pr_ratioColumn h
  | methodCrc => exact pr_methodCrcColumn h
  | timestamp => exact pr_outputTimestamp now _
  | fullTimestamp => exact pr_outputFullTimestamp _
  | name => exact pr_nameColumn h
  | wholeLineName => exact absurd rfl hk
  | headerLevel => exact pr_headerLevelColumn h

theorem ok_runHandler (now : Nat) (k : Handler) (h : Hdr) : Ok (runHandler now k h) := by
  by_cases hk : k = .wholeLineName
  · subst hk; exact ok_wholeLineNameColumn h
  · exact (pr_runHandler now k h hk).ok

theorem pr_runFooter (now : Nat) (k : Handler) (s : Stats) : Pr (runFooter now k s) := by
  cases k with
  | permission => exact (by decide +kernel : Pr (str " Total    "))
  | uidGid => exact pr_numFilesFooter _
  | packed => exact pr_sizeField _
  | size => exact pr_sizeField _
  | ratio => exact pr_ratioFooter _ _
  | timestamp => exact pr_outputTimestamp now _
  | fullTimestamp => exact pr_outputFullTimestamp _
  | methodCrc | name | wholeLineName | headerLevel => exact all_nil

/-! ### rows, headings, footers -/

theorem all_sep {P : UInt8 → Prop} (h0 : P 0x20) (c : Prop) [Decidable c] :
    All P (if c then str " " else []) := by
  split
  · rw [show str " " = [0x20] by decide +kernel]; exact all_cons.mpr ⟨h0, all_nil⟩
  · exact all_nil

theorem all_printColumns_go {P : UInt8 → Prop} (now : Nat) (h : Hdr) (last : Option Nat)
    (h0 : P 0x20) (cols : List Column)
    (hc : ∀ c ∈ cols, All P (runHandler now c.handler h)) (i : Nat) :
    All P (printColumns.go now h last i cols) := by
  induction cols generalizing i with
  | nil => exact all_nil
  | cons c cs ih =>
    simp only [printColumns.go]
    exact all_append.mpr ⟨all_append.mpr ⟨hc c (List.mem_cons_self ..), all_sep h0 _⟩,
      ih (fun c' hc' => hc c' (List.mem_cons_of_mem _ hc')) (i + 1)⟩

/-- a row of the listing is printable-or-newline, for any column table and any header -/
theorem ok_printColumns (cols : List Column) (now : Nat) (h : Hdr) :
    Ok (printColumns cols now h) := by
  unfold printColumns
  exact all_append.mpr ⟨all_printColumns_go now h _ (Or.inl pr_space) cols
    (fun c _ => ok_runHandler now c.handler h) 0, ok_newline⟩

theorem pr_printFooters_go (now : Nat) (s : Stats) (n : Nat) (cols : List Column) (i : Nat) :
    Pr (printFooters.go now s n i cols) := by
  induction cols generalizing i with
  | nil => exact all_nil
  | cons c cs ih =>
    simp only [printFooters.go]
    split
    · refine all_append.mpr ⟨all_append.mpr ⟨?_, all_sep pr_space _⟩, ih (i + 1)⟩
      split
      · exact pr_runFooter now _ s
      · split
        · exact all_blanks _ pr_space
        · exact all_nil
    · exact all_nil

/-- the footer line, for any column table and any totals -/
theorem ok_printFooters (cols : List Column) (now : Nat) (s : Stats) :
    Ok (printFooters cols now s) := by
  unfold printFooters
  exact all_append.mpr ⟨(pr_printFooters_go now s _ cols 0).ok, ok_newline⟩

/-- the heading and separator lines of the four tables are constants -/
theorem ok_headings : ∀ vl vo : Bool, Ok (printListHeadings (columnsFor vl vo)) := by
  decide +kernel

theorem ok_separators : ∀ vl vo : Bool, Ok (printListSeparators (columnsFor vl vo)) := by
  decide +kernel

/-! ### C18 for the listing -/

/-- **C18 (listing).** Whatever the member headers contain – arbitrary bytes in the path,
file name, symbolic-link target, method, user and group names, arbitrary numbers elsewhere –
and whatever the options, clock and archive time are, `lha l/lv/v/vv` writes only printable
ASCII (0x20..0x7e) and newlines. -/
theorem render_printable (verboseList verboseOpt : Bool) (quiet now archiveMtime : Nat)
    (hdrs : List Hdr) :
    ∀ b ∈ render verboseList verboseOpt quiet now archiveMtime hdrs,
      (0x20 ≤ b ∧ b ≤ 0x7e) ∨ b = 0x0a := by
  show Ok (render verboseList verboseOpt quiet now archiveMtime hdrs)
  unfold render
  dsimp only
  refine all_append.mpr ⟨all_append.mpr ⟨?_, ?_⟩, ?_⟩
  · split
    · exact all_append.mpr ⟨ok_headings _ _, ok_separators _ _⟩
    · exact all_nil
  · exact all_flatMap (fun h _ => ok_printColumns _ now h)
  · split
    · exact all_append.mpr ⟨ok_separators _ _, ok_printFooters _ now _⟩
    · exact all_nil

end LhasaV.ListProps
