import LhasaV.Model.Extract
import LhasaV.Lemmas.ListPrintable
/-!
Property C18 for `lha p`: standard output is a sequence of (banner, contents) pairs, one per
selected member; the banners – the only place where archive-derived *text* (path, file name,
link target) is printed – consist of printable ASCII and newlines; the contents are the bytes
`Reader.read` delivers for the member, passed through unchanged.
-/
namespace LhasaV.ListProps
open LhasaV LhasaV.Header LhasaV.Extract

/-- what `print_archived_file` writes before the contents of member `h` -/
def printBanner (o : Opts) (h : Hdr) : Bytes :=
  if o.quiet < 2 then
    match h.symlinkTarget with
    | some tg =>
      Safe.safeOutput ("Symbolic Link ".toUTF8.toList ++ fileFullPath h o ++ " -> ".toUTF8.toList ++ tg)
        ++ [0x0a]
    | none =>
      if h.method != "-lhd-".toUTF8.toList then
        "::::::::\n".toUTF8.toList ++ Safe.safeOutput (fileFullPath h o) ++ "\n::::::::\n".toUTF8.toList
      else []
  else []

/-- the banner is printable-or-newline whatever bytes the path, the file name, the link target
and the `w=` directory contain -/
theorem ok_printBanner (o : Opts) (h : Hdr) : Ok (printBanner o h) := by
  unfold printBanner
  split
  · split
    · exact all_append.mpr ⟨Pr.ok (Safe.safeOutput_printable _), by decide⟩
    · split
      · exact all_append.mpr ⟨all_append.mpr ⟨by decide +kernel,
          Pr.ok (Safe.safeOutput_printable _)⟩, by decide +kernel⟩
      · exact all_nil
  · exact all_nil

/-- the contents written for member `h` when the reader is in state `rd` (just after
`Reader.next` returned it): what the 512-byte read loop collects, and the reader afterwards -/
def printContents (h : Hdr) (rd : Reader.St) : Bytes × Reader.St :=
  if h.method != "-lhd-".toUTF8.toList then printLoop (h.length + 2) rd [] else ([], rd)

/-- the (banner, contents) pairs of `lha p`, in output order -/
def printSegments (o : Opts) : Nat → Reader.St → List (Bytes × Bytes)
  | 0, _ => []
  | fuel+1, rd =>
    match Reader.next rd with
    | .error _ => []
    | .ok (none, _) => []
    | .ok (some c, rd) =>
      if !Glob.matchesFilter o.filters c.h then printSegments o fuel rd else
      (printBanner o c.h, (printContents c.h rd).1) :: printSegments o fuel (printContents c.h rd).2

/-- `segs` is a possible sequence of segments: every banner is the banner of a header and every
contents field is what the read loop yields for that header in some reader state -/
def SegmentsOk (o : Opts) (segs : List (Bytes × Bytes)) : Prop :=
  ∀ p ∈ segs, ∃ h rd, p.1 = printBanner o h ∧ p.2 = (printContents h rd).1

theorem printSegments_ok (o : Opts) (fuel : Nat) (rd : Reader.St) :
    SegmentsOk o (printSegments o fuel rd) := by
  induction fuel generalizing rd with
  | zero => intro p hp; simp [printSegments] at hp
  | succ fuel ih =>
    intro p hp
    unfold printSegments at hp
    generalize Reader.next rd = nx at hp
    match nx with
    | .error _ => simp at hp
    | .ok (none, _) => simp at hp
    | .ok (some c, rd') =>
      dsimp only at hp
      split at hp
      · exact ih rd' p hp
      · rw [List.mem_cons] at hp
        rcases hp with rfl | hp
        · exact ⟨c.h, rd', rfl, rfl⟩
        · exact ih _ p hp

/-- the loop of `print_archive` appends the segments to what was written before -/
theorem printArchiveLoop_eq (o : Opts) (fuel : Nat) (rd : Reader.St) (out : Bytes) :
    printArchiveLoop o fuel rd out =
      out ++ (printSegments o fuel rd).flatMap (fun p => p.1 ++ p.2) := by
  induction fuel generalizing rd out with
  | zero => simp [printArchiveLoop, printSegments]
  | succ fuel ih =>
    unfold printArchiveLoop printSegments
    generalize Reader.next rd = nx
    match nx with
    | .error _ => simp
    | .ok (none, _) => simp
    | .ok (some c, rd') =>
      dsimp only
      by_cases hf : Glob.matchesFilter o.filters c.h
      · simp only [hf, Bool.not_true, Bool.false_eq_true, if_false]
        by_cases hn : (c.h.method != "-lhd-".toUTF8.toList) = true
        · rw [if_pos hn, ih]
          simp only [List.flatMap_cons, printContents, printBanner, if_pos hn, List.append_assoc]
          rfl
        · rw [if_neg hn, ih]
          simp only [List.flatMap_cons, printContents, printBanner, if_neg hn, List.append_assoc,
            List.append_nil]
          rfl
      · simp only [hf, Bool.not_false, if_true]
        exact ih rd' out

/-- the reader `lha p` starts with -/
def initReader (archive : Array UInt8) : Reader.St :=
  { basic := { stream := { kind := .seekable, data := archive } }, mktime := Header.dosTimeUTC }

/-- **C18 (`lha p`).** Standard output is `b₁ ++ c₁ ++ b₂ ++ c₂ ++ …` where each `bᵢ` is the
banner of a selected member – printable ASCII and newlines only – and each `cᵢ` is exactly what
the read loop returned for that member (nothing for directories and symbolic links). -/
theorem print_banners_printable (archive : Array UInt8) (o : Opts) :
    ∃ segs : List (Bytes × Bytes),
      Extract.print archive o = segs.flatMap (fun p => p.1 ++ p.2) ∧
      SegmentsOk o segs ∧
      ∀ p ∈ segs, ∀ b ∈ p.1, (0x20 ≤ b ∧ b ≤ 0x7e) ∨ b = 0x0a := by
  refine ⟨printSegments o (2 * archive.size + 16) (initReader archive), ?_,
    printSegments_ok o _ _, ?_⟩
  · show printArchiveLoop o (2 * archive.size + 16) (initReader archive) [] = _
    rw [printArchiveLoop_eq]; rfl
  · intro p hp
    obtain ⟨h, rd, e, _⟩ := printSegments_ok o _ _ p hp
    rw [e]; exact ok_printBanner o h

/-! ### the contents are the reader's bytes, unchanged -/

/-- the successive non-empty 512-byte reads of the print loop -/
def readChunks : Nat → Reader.St → List Bytes
  | 0, _ => []
  | fuel+1, s =>
    if (Reader.read s 512).1.isEmpty then [] else
      (Reader.read s 512).1 :: readChunks fuel (Reader.read s 512).2

/-- `print_archived_file` writes the concatenation of what `lha_reader_read` returns -/
theorem printLoop_eq (fuel : Nat) (s : Reader.St) (acc : Bytes) :
    (printLoop fuel s acc).1 = acc ++ (readChunks fuel s).flatten := by
  induction fuel generalizing s acc with
  | zero => simp [printLoop, readChunks]
  | succ fuel ih =>
    unfold printLoop readChunks
    dsimp only
    split
    · simp
    · rw [ih]; simp

theorem printContents_eq (h : Hdr) (rd : Reader.St) :
    (printContents h rd).1 =
      if h.method != "-lhd-".toUTF8.toList then (readChunks (h.length + 2) rd).flatten else [] := by
  unfold printContents
  split
  · rw [printLoop_eq]; rfl
  · rfl

end LhasaV.ListProps
