import LhasaV.Lemmas.PmRT1
import LhasaV.Lemmas.PmRT2
import LhasaV.Lemmas.PmRT3
import LhasaV.Lemmas.PmRT4
import LhasaV.Lemmas.PmRT5
import LhasaV.Lemmas.PmRT6
import LhasaV.Lemmas.PmRT7
import LhasaV.Lemmas.PmRT8
import LhasaV.Lemmas.PmRT9
/-!
PMarc (-pm1-, -pm2-) round trip: the decoders of `pma_common.c`, `pm1_decoder.c`,
`pm2_decoder.c` (model `LhasaV/Model/Pm.lean`) against the stream-format specification
`LhasaV/Spec/PmEnc.lean`.

* `PmRT1` (A): the history linked list refines move-to-front
  (`HistRel`, `histRel_init`, `find_spec`, `update_spec`, `updates_spec`).
* `PmRT2` (B): bit-reader views, `classOf` / `decode_variable_length`, format constants.
* `PmRT3` (B): the codes of -pm1- (`blockCount_spec`, `copyCount_spec`, `copyCmd_spec`,
  `byteIndex_spec`, `readByte_spec`).
* `PmRT4` (B): the codes of -pm2- (`getCount_spec`, `getOffset_spec`, `TreeFor`).
* `PmRT5` (C): the rebuild schedule of -pm2- (`SchedAt`, `Sched`, `outputByte_sched`,
  `copyLoop_sched`, `read_Sched`).
* `PmRT6`: the zero-filling bit reader of -pm1- (`zeroView`).
* `PmRT7` (D): the complete round trip of -pm1- (`pm1_round_trip`, `pm1_reads`).
* `PmRT8` (D): `rebuild_tree` of -pm2- against `rebuildBits` (`readCodeTree_spec`,
  `readOffsetTree_spec`, `rebuildTree_spec`).
* `PmRT9` (D): the complete round trip of -pm2- (`outputByte2_spec`, `copyLoop2_spec`,
  `cmd2_read`, `pm2_round_trip`, `pm2_reads`).
-/
