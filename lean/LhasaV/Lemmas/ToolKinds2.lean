import LhasaV.Lemmas.ToolKinds1
/-!
# C16 at tool level, part 2: the reader operations between two `next`s

`KRel P s t`: readers that differ only in their basic readers, which are related by `BRel P` (kind of
source, counters, positions, prefix).  `closeDecoder`, `openDecoder`, `read`, `decodeLoop`, `verdict`,
`check`, `extract` return the same results on related readers and keep them related
(`closeDecoder_rel`, `openDecoder_rel`, `read_rel`, `decodeLoop_rel`, `verdict_rel`, `check_rel`,
`extract_rel`).  `openN`, `readCore`, `decodeAll`: the pieces these operations are made of
(`openDecoder_normal`, `read_eq`, `check_eq`, `extract_eq` by `rfl`).
-/
set_option linter.unusedSimpArgs false
namespace LhasaV.ToolKinds
open LhasaV LhasaV.Stream LhasaV.Reader

/-- readers that differ only in their basic readers, which are related by `BRel` -/
structure KRel (P : List UInt8) (s t : Reader.St) : Prop where
  curr : s.curr = t.curr
  currType : s.currType = t.currType
  dec : s.dec = t.dec
  policy : s.policy = t.policy
  dirStack : s.dirStack = t.dirStack
  deferred : s.deferred = t.deferred
  led : s.led = t.led
  mktime : s.mktime = t.mktime
  basic : BRel P s.basic t.basic
  /-- a normal entry is the basic reader's current member -/
  norm : s.currType = .normal → s.curr = s.basic.curr

theorem KRel.setDec {P s t} (h : KRel P s t) (d : Option Open) (l : Ledger) :
    KRel P { s with dec := d, led := l } { t with dec := d, led := l } :=
  ⟨h.curr, h.currType, rfl, h.policy, h.dirStack, h.deferred, rfl, h.mktime, h.basic, h.norm⟩

/-- `KRel` of two states that were updated in the same way (fields compared up to `rfl` or by `h`) -/
macro "krel_upd " h:term : tactic => `(tactic| exact
  ⟨by first | rfl | exact ($h).curr, by first | rfl | exact ($h).currType, by first | rfl | exact ($h).dec,
   by first | rfl | exact ($h).policy, by first | rfl | exact ($h).dirStack,
   by first | rfl | exact ($h).deferred, by first | rfl | exact ($h).led,
   by first | rfl | exact ($h).mktime, ($h).basic, ($h).norm⟩)

/-- `close_decoder`'s accounting on the basic reader -/
def consume (b : Basic) (c : Nat × Bool) : Basic :=
  { b with stream := { b.stream with pos := b.stream.pos + min c.1 b.remaining,
                                     moved := b.stream.moved + min c.1 b.remaining },
           remaining := b.remaining - min c.1 b.remaining, eof := b.eof || c.2 }

theorem closeDecoder_eq (s : Reader.St) : closeDecoder s =
    match s.dec with
    | none => s
    | some o => { s with dec := none, basic := consume s.basic o.consumed, led := { s.led with decoders := 0 } } := by
  unfold closeDecoder consume; rfl

theorem consume_rel {P a b} (h : BRel P a b) (c : Nat × Bool) : BRel P (consume a c) (consume b c) := by
  refine ⟨h.curr, by simp [consume, h.eof], ?_⟩
  rcases h.st with hd | hi | hl
  · exact Or.inl ⟨by simp [consume, hd.1], hd.2⟩
  · refine Or.inr (Or.inl ⟨hi.pa, hi.pb, hi.la, hi.lb, ?_, ?_, hi.ca, ?_, ?_, hi.data, hi.hdr⟩)
    · simp [consume, hi.posa, hi.rema]
    · simp [consume, hi.posb, hi.remb]
    · simp [consume, hi.rema]
    · simp [consume, hi.remb]
  · refine Or.inr (Or.inr ⟨hl.pa, hl.pb, hl.la, hl.lb, ?_, ?_⟩)
    · have := hl.src
      simp only [src] at this
      simp only [consume, src, ← List.drop_drop, this, hl.rem]
    · simp [consume, hl.rem]

theorem closeDecoder_rel {P s t} (h : KRel P s t) : KRel P (closeDecoder s) (closeDecoder t) := by
  rw [closeDecoder_eq, closeDecoder_eq, ← h.dec]
  cases hd : s.dec with
  | none => exact h
  | some o =>
    exact ⟨h.curr, h.currType, rfl, h.policy, h.dirStack, h.deferred, by simp [h.led], h.mktime,
      consume_rel h.basic _, h.norm⟩


/-- a normal entry with a header: both basic readers are past their first header -/
theorem KRel.live {P s t} (h : KRel P s t) (hn : s.currType = .normal) {c : HObj} (hc : s.curr = some c) :
    Live s.basic t.basic := by
  have hb : s.basic.curr = some c := by rw [← h.norm hn, hc]
  rcases h.basic.st with hd | hi | hl
  · rw [hd.2] at hb; cases hb
  · rw [hi.ca] at hb; cases hb
  · exact hl

/-- `open_decoder` on a normal entry `c`, the member source made explicit -/
def openN (s : Reader.St) (c : HObj) (src : Src) : Bool × Reader.St :=
  match decoderFor (methodName c.h), decoderInfo (methodName c.h) with
  | some d, some info =>
    let inner : Wrap.St (Except String d.σ) :=
      { inner := .ok (d.init src), length := c.h.length, blockSize := info.2.2 }
    let led := { s.led with decoders := s.led.decoders + 1 }
    if c.h.osType = 0x6d then
      let m := macInit d.total c.h inner
      match m.1 with
      | none =>
        (false, closeDecoder { s with dec := some { d := d, plain := none, mac := none, danglingInner := some m.2 } })
      | some mac =>
        let outer : Wrap.St (Mac (Except String d.σ)) := { inner := mac, length := c.h.length, blockSize := 0 }
        (true, { s with dec := some { d := d, plain := none, mac := some outer },
                        led := { led with decoders := led.decoders + 1 } })
    else (true, { s with dec := some { d := d, plain := some inner, mac := none }, led := led })
  | _, _ => (false, s)

theorem currType_bne (a b : CurrType) : (a != b) = !decide (a = b) := by cases a <;> cases b <;> rfl

theorem openDecoder_normal (s : Reader.St) (hn : s.currType = .normal) (c : HObj) (hc : s.curr = some c) :
    openDecoder s = openN s c (memberSrc s.basic) := by
  obtain ⟨basic, curr, currType, dec, policy, dirStack, deferred, led, mktime⟩ := s
  simp only at hn hc
  subst hn hc
  rfl

theorem openDecoder_other (s : Reader.St) (h : s.currType ≠ .normal ∨ s.curr = none) :
    openDecoder s = (false, s) := by
  unfold openDecoder
  rcases h with h | h
  · simp [currType_bne, h]
  · split
    · rfl
    · simp [h]

theorem openN_rel {P s t} (h : KRel P s t) (c : HObj) (x : Src) :
    (openN s c x).1 = (openN t c x).1 ∧ KRel P (openN s c x).2 (openN t c x).2 := by
  unfold openN
  split
  · dsimp only
    split
    · split
      · refine ⟨rfl, ?_⟩
        dsimp only
        apply closeDecoder_rel
        exact ⟨h.curr, h.currType, rfl, h.policy, h.dirStack, h.deferred, h.led, h.mktime, h.basic, h.norm⟩
      · refine ⟨rfl, h.curr, h.currType, rfl, h.policy, h.dirStack, h.deferred, ?_, h.mktime, h.basic, h.norm⟩
        simp [h.led]
    · refine ⟨rfl, h.curr, h.currType, rfl, h.policy, h.dirStack, h.deferred, ?_, h.mktime, h.basic, h.norm⟩
      simp [h.led]
  · exact ⟨rfl, h⟩

theorem openDecoder_rel {P s t} (h : KRel P s t) :
    (openDecoder s).1 = (openDecoder t).1 ∧ KRel P (openDecoder s).2 (openDecoder t).2 := by
  by_cases hn : s.currType = .normal
  · cases hc : s.curr with
    | none =>
      rw [openDecoder_other s (Or.inr hc), openDecoder_other t (Or.inr (h.curr ▸ hc))]
      exact ⟨rfl, h⟩
    | some c =>
      rw [openDecoder_normal s hn c hc, openDecoder_normal t (h.currType ▸ hn) c (h.curr ▸ hc),
        ← memberSrc_live (h.live hn hc) h.basic.eof]
      exact openN_rel h c _
  · rw [openDecoder_other s (Or.inl hn), openDecoder_other t (Or.inl (h.currType ▸ hn))]
    exact ⟨rfl, h⟩


/-! ## `lha_reader_read`, `do_decode`, `lha_reader_check`, `lha_reader_extract` -/

/-- `lha_reader_read` once the decoder has been looked up / opened -/
def readCore (p : Bool × Reader.St) (k : Nat) : List UInt8 × Reader.St :=
  if !p.1 then ([], p.2) else
  match p.2.dec with
  | none => ([], p.2)
  | some o =>
    match o.plain, o.mac with
    | some st, _ =>
      let r := Wrap.read o.d.total k st
      (r.1.1, { p.2 with dec := some { o with plain := some r.2 } })
    | none, some m =>
      let r := Wrap.read (macRead o.d.total) k m
      (r.1.1, { p.2 with dec := some { o with mac := some r.2 } })
    | none, none => ([], p.2)

theorem read_eq (s : Reader.St) (k : Nat) : Reader.read s k =
    readCore (match s.dec with
      | some o => (o.plain.isSome || o.mac.isSome, s)
      | none => openDecoder s) k := by
  unfold Reader.read readCore
  rfl

theorem readCore_rel {P s t} (h : KRel P s t) (ok : Bool) (k : Nat) :
    (readCore (ok, s) k).1 = (readCore (ok, t) k).1 ∧ KRel P (readCore (ok, s) k).2 (readCore (ok, t) k).2 := by
  unfold readCore
  dsimp only
  split
  · exact ⟨rfl, h⟩
  · rw [← h.dec]
    split
    · exact ⟨rfl, h⟩
    · split
      · exact ⟨rfl, h.curr, h.currType, rfl, h.policy, h.dirStack, h.deferred, h.led, h.mktime, h.basic, h.norm⟩
      · exact ⟨rfl, h.curr, h.currType, rfl, h.policy, h.dirStack, h.deferred, h.led, h.mktime, h.basic, h.norm⟩
      · exact ⟨rfl, h⟩

theorem read_rel {P s t} (h : KRel P s t) (k : Nat) :
    (Reader.read s k).1 = (Reader.read t k).1 ∧ KRel P (Reader.read s k).2 (Reader.read t k).2 := by
  rw [read_eq, read_eq, ← h.dec]
  cases hd : s.dec with
  | some o => exact readCore_rel h _ k
  | none =>
    have ho := openDecoder_rel h
    show (readCore (openDecoder s) k).1 = (readCore (openDecoder t) k).1 ∧ _
    rw [show openDecoder s = ((openDecoder s).1, (openDecoder s).2) from rfl,
        show openDecoder t = ((openDecoder t).1, (openDecoder t).2) from rfl, ← ho.1]
    exact readCore_rel ho.2 _ k

theorem decodeLoop_rel {P} : ∀ (fuel : Nat) (s t : Reader.St) (acc : List UInt8), KRel P s t →
    (decodeLoop fuel s acc).1 = (decodeLoop fuel t acc).1 ∧
      KRel P (decodeLoop fuel s acc).2 (decodeLoop fuel t acc).2 := by
  intro fuel
  induction fuel with
  | zero => intro s t acc h; exact ⟨rfl, h⟩
  | succ n ih =>
    intro s t acc h
    have hr := read_rel h 64
    unfold decodeLoop
    simp only [← hr.1]
    split
    · exact ⟨rfl, hr.2⟩
    · exact ih _ _ _ hr.2

theorem verdict_rel {P s t} (h : KRel P s t) : verdict s = verdict t := by
  unfold verdict; rw [h.dec, h.curr]


/-- `do_decode` after `open_decoder` (and, for extraction, after the output file was opened) -/
def decodeAll (c : HObj) (p : Bool × Reader.St) (fsOk : Bool) : (Bool × List UInt8) × Reader.St :=
  if !p.1 then ((false, []), p.2) else
  if !fsOk then ((false, []), p.2) else
  let r := decodeLoop (c.h.length + 2) p.2 []
  ((verdict r.2, r.1), r.2)

theorem decodeAll_rel {P s t} (h : KRel P s t) (c : HObj) (ok fsOk : Bool) :
    (decodeAll c (ok, s) fsOk).1 = (decodeAll c (ok, t) fsOk).1 ∧
      KRel P (decodeAll c (ok, s) fsOk).2 (decodeAll c (ok, t) fsOk).2 := by
  unfold decodeAll
  dsimp only
  split
  · exact ⟨rfl, h⟩
  · split
    · exact ⟨rfl, h⟩
    · have hl := decodeLoop_rel (c.h.length + 2) s t [] h
      exact ⟨by rw [verdict_rel hl.2, hl.1], hl.2⟩

theorem decodeAll_open_rel {P s t} (h : KRel P s t) (c : HObj) (fsOk : Bool) :
    (decodeAll c (openDecoder s) fsOk).1 = (decodeAll c (openDecoder t) fsOk).1 ∧
      KRel P (decodeAll c (openDecoder s) fsOk).2 (decodeAll c (openDecoder t) fsOk).2 := by
  have ho := openDecoder_rel h
  rw [show openDecoder s = ((openDecoder s).1, (openDecoder s).2) from rfl,
      show openDecoder t = ((openDecoder t).1, (openDecoder t).2) from rfl, ← ho.1]
  exact decodeAll_rel ho.2 c _ fsOk

theorem check_eq (s : Reader.St) : check s =
    if s.currType != .normal then ((false, []), s) else
    match s.curr with
    | none => ((false, []), s)
    | some c =>
      if c.h.method == "-lhd-".toUTF8.toList then ((true, []), s) else decodeAll c (openDecoder s) true := by
  unfold check decodeAll
  rfl

theorem check_rel {P s t} (h : KRel P s t) :
    (check s).1 = (check t).1 ∧ KRel P (check s).2 (check t).2 := by
  rw [check_eq, check_eq, ← h.currType, ← h.curr]
  split
  · exact ⟨rfl, h⟩
  · split
    · exact ⟨rfl, h⟩
    · split
      · exact ⟨rfl, h⟩
      · exact decodeAll_open_rel h _ true

theorem extract_eq (s : Reader.St) (fsOk : Bool) : extract s fsOk =
    match s.currType, s.curr with
    | .normal, some c =>
      if c.h.method != "-lhd-".toUTF8.toList then decodeAll c (openDecoder s) fsOk
      else if c.h.symlinkTarget.isSome then
        if isDangerous c.h then
          if !fsOk then ((false, []), s) else
          ((true, []), { s with deferred := s.deferred.takeWhile (fun r => pathLen r > pathLen c) ++ [c] ++
                                  s.deferred.dropWhile (fun r => pathLen r > pathLen c),
                                led := s.led.addRef c.id })
        else ((fsOk, []), s)
      else
        if !fsOk then ((false, []), s) else
        if s.policy == .plain then ((true, []), s)
        else ((true, []), { s with dirStack := c :: s.dirStack, led := s.led.addRef c.id })
    | .fakeDir, some _ => ((true, []), s)
    | .deferred, some _ => ((fsOk, []), s)
    | _, _ => ((false, []), s) := by
  unfold extract decodeAll
  rfl

theorem extract_rel {P s t} (h : KRel P s t) (fsOk : Bool) :
    (extract s fsOk).1 = (extract t fsOk).1 ∧ KRel P (extract s fsOk).2 (extract t fsOk).2 := by
  rw [extract_eq, extract_eq, ← h.currType, ← h.curr, ← h.policy, ← h.deferred, ← h.led, ← h.dirStack]
  split
  · split
    · exact decodeAll_open_rel h _ fsOk
    · split
      · split
        · split
          · exact ⟨rfl, h⟩
          · exact ⟨rfl, by krel_upd h⟩
        · exact ⟨rfl, h⟩
      · split
        · exact ⟨rfl, h⟩
        · split
          · exact ⟨rfl, h⟩
          · exact ⟨rfl, by krel_upd h⟩
  · exact ⟨rfl, h⟩
  · exact ⟨rfl, h⟩
  · exact ⟨rfl, h⟩

end LhasaV.ToolKinds
