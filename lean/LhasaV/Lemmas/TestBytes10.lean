import LhasaV.Lemmas.TestBytes9
import LhasaV.Lemmas.MessagesAgree
/-!
# C07 on bytes (part 10): `lha x` — intact, damaged, truncated archives

* **`extract_intact_archive`** (C07 ∘ C06): `lha x` of `archiveWith pk es` (a well-formed tree)
  into an empty directory exits with status 0, every handled member reported good, and leaves
  exactly the tree — `MessagesAgree.mrun_tree` with its last side condition (`TraceNoTrail`)
  discharged on bytes by `loop_x_prov`;
* **`extract_fails_items`** → **`extract_detects_damage`**, **`extract_detects_truncation`**:
  `lha xf` on the damaged / truncated archive, ANY file system and answers: the exit status is
  never 0 — it is 1, or 255 when the run left through `exit(-1)` (a `stat` failure).
-/
set_option linter.unusedSimpArgs false
namespace LhasaV.TestBytes
open LhasaV LhasaV.Header LhasaV.Extract LhasaV.GlobFs LhasaV.Contain LhasaV.ExtractTree
open LhasaV.ExtractTree.Sample LhasaV.Spec.HeaderEnc LhasaV.Reader LhasaV.ReaderIndep LhasaV.ArchiveOf
open LhasaV.PrintList LhasaV.MacProps LhasaV.Messages LhasaV.MessagesProps LhasaV.CrcBurst

/-! ## the trace of `lha x` on an archive of members -/

/-- a directory entry, or an entry with a file name -/
def Named (h : Hdr) : Prop := isDirEntry h = true ∨ h.filename.getD [] ≠ []

theorem named_hdrOf (pk : Packer) {e : ExtractTree.Entry} (hk : EntryOk e) : Named (hdrOf pk e) := by
  cases e with
  | dir p perms t =>
    left
    unfold isDirEntry
    have : (hdrOf pk (.dir p perms t)).method = "-lhd-".toUTF8.toList := lhdM_eq
    rw [this]
    simp [hdrOf]
  | file p data perms t =>
    right
    have := name_length_pos hk
    intro h0
    have h1 : (hdrOf pk (.file p data perms t)).filename.getD [] = p.getLast?.getD [] := rfl
    rw [h1] at h0
    simp only [ExtractTree.Entry.path] at this
    rw [h0] at this
    simp at this
  | link p tg =>
    right
    have := name_length_pos hk
    intro h0
    have h1 : (hdrOf pk (.link p tg)).filename.getD [] = p.getLast?.getD [] := rfl
    rw [h1] at h0
    simp only [ExtractTree.Entry.path] at this
    rw [h0] at this
    simp at this

/-- every member `lha x` handles on the bytes `flatI pk its` carries the header of a member -/
theorem trace_items (pk : Packer) (its : List Item) (hok : ItemsOk pk its) (H : Hdr → Prop)
    (hH : ∀ it ∈ its, H (hdrOf pk it.e)) (o : Opts) (fs : Fs.St) (answers : Bytes) :
    ∀ t ∈ (Messages.run .extract (flatI pk its).toArray o fs answers).trace, H t.1 :=
  loop_x_prov pk (flatI pk its).toArray H _ its _ hok hH (xinv_init pk H its) (fun t ht => by cases ht)

/-! ## intact -/

/-- **`lha x` on an intact archive into an empty directory (C07 ∘ C06), on BYTES.**  For every
well-formed, encodable tree `es`, every packer that handles its data, plain options (no `w=`, `i`,
wildcards; any quiet level and overwrite policy; not the dry run), an empty extraction directory,
root or an ordinary user, answers that are well-formed lines (or none): `lha x` on the bytes
`archiveWith pk es` exits with status 0, EVERY member it handled was reported good, and it leaves
exactly the tree of `es` (and nothing outside changes). -/
theorem extract_intact_archive (pk : Packer) (es : List ExtractTree.Entry) (hwf : WellFormed es)
    (henc : Encodable es) (hpk : Packs pk es) (o : Opts) (fs : Fs.St) (answers : Bytes)
    (ho : OptsOk o) (hfs : EmptyDir fs) (ha : Access fs) (hd : o.dryRun = false)
    (hp : MessagesAgree.PromptOk o.overwrite answers) :
    Messages.exitStatus (Messages.run .extract (archiveWith pk es) o fs answers) = 0 ∧
    (∀ t ∈ (Messages.run .extract (archiveWith pk es) o fs answers).trace, t.2 = true) ∧
    (∀ p, p ≠ [] → Fs.lookup (Messages.run .extract (archiveWith pk es) o fs answers).x.fs (fs.cwd ++ p) =
      treeOf fs.now fs.umask es p) ∧
    (∀ x, ¬ fs.cwd <+: x →
      Fs.lookup (Messages.run .extract (archiveWith pk es) o fs answers).x.fs x = Fs.lookup fs x) := by
  have hall := allOk_of hwf henc hpk
  have hA : archiveWith pk es = (flatI pk (es.map (intact pk))).toArray := by rw [flatI_intact]
  have hs : MessagesAgree.TraceNoTrail (archiveWith pk es) o fs answers := by
    apply MessagesAgree.traceNoTrail_of_named
    rw [hA]
    apply trace_items pk _ (itemsOk_intact hall) (fun h => isDirEntry h = true ∨ h.filename.getD [] ≠ [])
    intro it hit
    obtain ⟨e, he, rfl⟩ := List.mem_map.1 hit
    exact named_hdrOf pk (hall e he).1
  obtain ⟨_, h2, h3, _, h5⟩ := MessagesAgree.mrun_tree (archiveWith pk es) o fs answers es ho hfs ha hwf
    (fuel_archiveWith pk es) (archiveWith_denotes pk es hwf henc hpk o fs answers) hd hp hs
  exact ⟨h2, ((MessagesProps.exit_status_iff _ _ _ _ _).1 h2).2.2, h3, h5⟩

/-! ## a bad member -/

/-- **`lha xf` over an archive with a selected bad file member**: exit status 1, or 255 when the
run left through `exit(-1)` — never 0.  Any file system, any answers. -/
theorem extract_fails_items (pk : Packer) (its : List Item) (hok : ItemsOk pk its) (o : Opts)
    (hall : o.overwrite = .all) (hdry : o.dryRun = false)
    (hb : ∃ it ∈ its, selected o.filters it.e = true ∧ BadFile pk it) (fs : Fs.St) (answers : Bytes) :
    Messages.exitStatus (Messages.run .extract (flatI pk its).toArray o fs answers) =
      if (Messages.run .extract (flatI pk its).toArray o fs answers).aborted then 255 else 1 := by
  have hE := (ToolKinds.ends_in_fuel .seekable (flatI pk its).toArray o fs answers .extract).m
  have hF : Failed (Messages.run .extract (flatI pk its).toArray o fs answers) :=
    loop_x_bad pk (flatI pk its).toArray o.filters _ its _ hok (xinv_init pk _ its) hb ⟨rfl, hall, hdry⟩ hE
  unfold exitStatus
  cases hab : (Messages.run .extract (flatI pk its).toArray o fs answers).aborted with
  | true => simp
  | false =>
    rcases hF with h | h
    · rw [hab] at h; cases h
    · simp [h]

/-- **(T2, `lha x`) a damaged stored member makes `lha xf` fail**, whatever the file system holds:
exit status 1 (255 after `exit(-1)`), never 0 -/
theorem extract_detects_damage (pre post : List ExtractTree.Entry) (p : Fs.Path) (data : Bytes)
    (perms : Option Nat) (t : Nat) (pat : Bytes)
    (hok : ∀ e ∈ pre ++ .file p data perms t :: post, EntryOk e)
    (henc : Encodable (pre ++ .file p data perms t :: post))
    (hlen : pat.length = data.length) (hb : IsBurst16 pat)
    (o : Opts) (hall : o.overwrite = .all) (hdry : o.dryRun = false)
    (hsel : selected o.filters (.file p data perms t) = true) (fs : Fs.St) (answers : Bytes) :
    Messages.exitStatus (Messages.run .extract (damage (pre ++ .file p data perms t :: post) pre.length pat) o fs answers) =
      if (Messages.run .extract (damage (pre ++ .file p data perms t :: post) pre.length pat) o fs answers).aborted
      then 255 else 1 := by
  have hpk := packs_stored henc
  have hallok := allOk_of_entries hok henc hpk
  have hallpre : AllOk stored pre := fun e he => hallok e (List.mem_append_left _ he)
  have hallpost : AllOk stored post := fun e he => hallok e (List.mem_append_right _ (List.mem_cons_of_mem _ he))
  obtain ⟨ek, ee, ep⟩ := hallok (.file p data perms t) (by simp)
  have hxl := xorBytes_length data pat hlen
  have hits : ItemsOk stored (damagedItems (pre ++ .file p data perms t :: post) pre.length pat) := by
    rw [damagedItems_split]
    exact itemsOk_append (itemsOk_intact hallpre)
      ⟨⟨ek, ee, ep, Nat.le_of_eq hxl⟩, fun _ => hxl, itemsOk_intact hallpost⟩ (fun _ => full_intact stored pre)
  unfold damage
  apply extract_fails_items stored _ hits o hall hdry
  rw [damagedItems_split]
  exact ⟨⟨.file p data perms t, xorBytes data pat⟩, by simp [dataOf, stored], hsel,
    p, data, perms, t, rfl, goodOf_burst data pat hlen hb⟩

/-- **(T3, `lha x`) a truncated last member makes `lha xf` fail**: exit status 1 (255 after
`exit(-1)`), never 0 -/
theorem extract_detects_truncation (pre : List ExtractTree.Entry) (p : Fs.Path) (data : Bytes)
    (perms : Option Nat) (t : Nat) (k : Nat)
    (hok : ∀ e ∈ pre ++ [.file p data perms t], EntryOk e)
    (henc : Encodable (pre ++ [.file p data perms t]))
    (hk : k < data.length)
    (o : Opts) (hall : o.overwrite = .all) (hdry : o.dryRun = false)
    (hsel : selected o.filters (.file p data perms t) = true) (fs : Fs.St) (answers : Bytes) :
    Messages.exitStatus (Messages.run .extract (truncated pre (.file p data perms t) k) o fs answers) =
      if (Messages.run .extract (truncated pre (.file p data perms t) k) o fs answers).aborted
      then 255 else 1 := by
  have hpk := packs_stored henc
  have hallok := allOk_of_entries hok henc hpk
  have hallpre : AllOk stored pre := fun e he => hallok e (List.mem_append_left _ he)
  obtain ⟨ek, ee, ep⟩ := hallok (.file p data perms t) (by simp)
  have htl : (data.take k).length = k := by rw [List.length_take]; omega
  have hits : ItemsOk stored (pre.map (intact stored) ++ [⟨.file p data perms t, data.take k⟩]) := by
    refine itemsOk_append (itemsOk_intact hallpre) ⟨⟨ek, ee, ep, ?_⟩, fun h => absurd rfl h, trivial⟩
      (fun _ => full_intact stored pre)
    show (data.take k).length ≤ data.length
    omega
  unfold truncated
  apply extract_fails_items stored _ hits o hall hdry
  exact ⟨⟨.file p data perms t, data.take k⟩, by simp [dataOf, stored], hsel,
    p, data, perms, t, rfl, goodOf_short data (data.take k) (by rw [htl]; exact hk)⟩

end LhasaV.TestBytes
