import LhasaV.Lemmas.ExtractTreeOw5
/-!
# C06, overwriting (part 6): the extraction loop over a directory that holds files

`loop_final_o`: from the invariant to the end of the run, which is what `plan` says: the entries
the plan writes are in their final form, everything else is as it was, and the run is aborted
exactly when the plan is (the input ended at a prompt) — then with no directory left open,
because only top-level files are ever asked about.
-/
namespace LhasaV.ExtractTree
open LhasaV LhasaV.Header LhasaV.Extract LhasaV.GlobFs LhasaV.Contain
open Reader

/-- the end of the run: the written entries `all` in their final form, no directory open; `ab`:
the run ended at a prompt (`exit(-1)`) -/
structure FinalO (fs0 : Fs.St) (all : List Entry) (ab : Bool) (s : Extract.St) : Prop where
  aborted : s.aborted = ab
  result : s.result = !ab
  fs : FsInvO fs0 all [] s.fs

theorem extractLoop_aborted (n : Nat) (s : Extract.St) (h : s.aborted = true) : extractLoop n s = s := by
  cases n with
  | zero => rfl
  | succ n => rw [extractLoop, if_pos h]

theorem asks_of_none {fs0 : Fs.St} {e : Entry} (h : Fs.lookup fs0 (fs0.cwd ++ e.path) = none) :
    asks (exAt fs0) e = false := by
  cases e with
  | file p d pm t =>
    have : Fs.lookup fs0 (fs0.cwd ++ p) = none := h
    simp [asks, exAt, this]
  | dir _ _ _ => rfl
  | link _ _ => rfl

theorem plan_cons_free (ex : Fs.Path → Bool) (pol : Overwrite) (ls : List Bytes) (e : Entry)
    (es : List Entry) (h : asks ex e = false) :
    plan ex pol ls (e :: es) = (e :: (plan ex pol ls es).1, (plan ex pol ls es).2) := by
  simp [plan, h]

theorem plan_cons_eof (ex : Fs.Path → Bool) (pol : Overwrite) (ls : List Bytes) (e : Entry)
    (es : List Entry) (h : asks ex e = true) (ha : askOne pol ls = none) :
    plan ex pol ls (e :: es) = ([], true) := by
  simp [plan, h, ha]

theorem plan_cons_asked (ex : Fs.Path → Bool) (pol : Overwrite) (ls : List Bytes) (e : Entry)
    (es : List Entry) (h : asks ex e = true) (w : Bool) (pol' : Overwrite) (ls' : List Bytes)
    (ha : askOne pol ls = some (w, pol', ls')) :
    plan ex pol ls (e :: es) =
      ((if w then [e] else []) ++ (plan ex pol' ls' es).1, (plan ex pol' ls' es).2) := by
  simp [plan, h, ha]

/-- **the loop**: from the invariant to the state the plan describes -/
theorem loop_final_o (fs0 : Fs.St) (ha : Access fs0) :
    ∀ (fuel : Nat) (s : Extract.St) (done stk rest : List Entry) (seen : List Fs.Path)
      (pol : Overwrite) (ls : List Bytes),
      2 * rest.length + stk.length + 1 ≤ fuel → LoopInvO fs0 done stk seen rest pol ls s →
      (∀ e ∈ rest, PreAt fs0 e) → Denotes fuel s rest →
      FinalO fs0 (done ++ (plan (exAt fs0) pol ls rest).1) (plan (exAt fs0) pol ls rest).2
        (extractLoop fuel s) := by
  intro fuel
  induction fuel with
  | zero => intro s done stk rest seen pol ls hf; omega
  | succ n ih =>
    intro s done stk rest seen pol ls hf hi hpre hden
    obtain ⟨oc, rd', hn, hpend, hcont⟩ := hden hi.core.aborted
    rw [extractLoop_step n s oc rd' hi.core.aborted hn hi.core.opts.nf]
    have hne : s.rd.currType ≠ .eof := by
      rcases hi.rd.ty with h | h | h <;> rw [h] <;> simp
    obtain ⟨u, hrd', hoc, hupol, hudef, hustk, hubc⟩ := next_pol hn hne
    rw [hi.rd.policy] at hupol
    rw [hi.rd.deferred] at hudef
    have hbasic : rd'.basic = u.basic := by rw [hrd']; exact tail_basic u
    have hp : Pending u.basic.curr rest := by
      by_cases ht : s.rd.currType = .start ∨ s.rd.currType = .normal
      · rw [← hbasic]; exact hpend ht
      · rw [hubc ht]
        apply hi.rd.pending
        rcases hi.rd.ty with h | h | h
        · exact absurd (Or.inl h) ht
        · exact absurd (Or.inr h) ht
        · exact h
    -- closing the innermost open directory
    have go_close : ∀ (d : Entry) (stk' : List Entry) (top : HObj) (rs : List HObj),
        stk = d :: stk' → u.dirStack = top :: rs → HdrOf d top.h → StackRel rs stk' →
        endOfTopDir u = true → (∀ e tl, rest = e :: tl → ¬ d.path <+: e.dirPart) →
        FinalO fs0 (done ++ (plan (exAt fs0) pol ls rest).1) (plan (exAt fs0) pol ls rest).2
          (loopCont n s oc rd') := by
      intro d stk' top rs hs hds hh hsr he hout
      subst hs
      have hR := pop_fake u top rs hds he
      rw [← hrd'] at hR
      have hoc' : oc = some top := by rw [hoc, hR]
      subst hoc'
      show FinalO fs0 _ _ (extractLoop n (extractArchivedFile { s with rd := rd' } top.h))
      have hstep := step_close_o { s with rd := rd' } top (hi.core.with_rd rd') ha
        (by rw [hR]; exact hupol) (by rw [hR]; exact hudef) (by rw [hR]) (by rw [hR])
        hh (by rw [hR]; exact hsr) (by rw [hbasic]; exact hp)
        hout
      have hd2 := (hcont top rfl).2
      rw [show rd'.currType = .fakeDir by rw [hR]] at hd2
      simp only [reduceCtorEq, if_false] at hd2
      exact ih _ done stk' rest seen pol ls (by simp at hf; omega) hstep hpre hd2
    -- a stream entry is presented
    have go_new : ∀ (e : Entry) (tl : List Entry) (inp : HObj),
        rest = e :: tl → u.basic.curr = some inp → HdrOf e inp.h →
        endOfTopDir u = false → (∀ d tl', stk = d :: tl' → d.path <+: e.dirPart) →
        FinalO fs0 (done ++ (plan (exAt fs0) pol ls rest).1) (plan (exAt fs0) pol ls rest).2
          (loopCont n s oc rd') := by
      intro e tl inp hr hb hh he hin
      subst hr
      have hR := pop_normal u he inp hb
      rw [← hrd'] at hR
      have hoc' : oc = some inp := by rw [hoc, hR]
      subst hoc'
      show FinalO fs0 _ _ (extractLoop n (extractArchivedFile { s with rd := rd' } inp.h))
      have hty' : rd'.currType = .normal := by rw [hR]
      obtain ⟨hdec, hd2⟩ := hcont inp rfl
      rw [hty'] at hd2
      simp only [if_true, List.tail_cons] at hd2
      have hi1 := hi.core.with_rd rd'
      have nf := new_facts hi1 ha hin
      have hk := nf.hk
      have hfn : fileFullPath inp.h s.opts = fullOf e := fullPath_of hh hk s.opts hi.core.opts.xp hi.core.opts.up
      have hpol1 : rd'.policy = .endOfDir := by rw [hR]; exact hupol
      have hdef1 : rd'.deferred = [] := by rw [hR]; exact hudef
      have hstk1 : StackRel rd'.dirStack stk := by
        rw [hR]; show StackRel u.dirStack stk; rw [hustk]; exact hi.rd.stack
      have hcur1 : rd'.curr = some inp := by rw [hR]
      have hdec1 : ∀ p data perms mtime, e = .file p data perms mtime →
          (Reader.openDecoder rd').1 = true ∧ (Reader.extract rd' true).1 = (true, data) :=
        fun p data perms mtime hfile => hdec hty' p data perms mtime tl (by rw [hfile])
      have hpre' : ∀ x ∈ tl, PreAt fs0 x := fun x hx => hpre x (List.mem_cons_of_mem _ hx)
      have hpe := hpre e (by simp)
      have hf' : 2 * tl.length + stk.length + 2 ≤ n := by
        simp only [List.length_cons] at hf; omega
      rcases hpe with hnone | ⟨p, data, perms, mtime, d0, m0, t0, rfl, hp1, hfile⟩
      · -- a free place: written without asking
        have hpass : preOf { s with rd := rd' } inp.h = some (false, { s with rd := rd' }) :=
          preOf_pass _ inp.h (Or.inr (by
            show Fs.existsKind s.fs (fileFullPath inp.h s.opts) = .none
            rw [hfn]; exact existsKind_none nf.target (nf.same.trans hnone)))
        have hrun : extractArchivedFile { s with rd := rd' } inp.h = wrote { s with rd := rd' } (fullOf e) := by
          rw [eaf_wrote _ _ inp.h hpass hi.core.opts.up
            (by show parentsOf { s with rd := rd' } (fileFullPath inp.h s.opts) = (true, s.fs)
                unfold parentsOf; simp only [hty']; rw [hfn]; exact nf.parents)]
          show wrote _ (fileFullPath inp.h s.opts) = _
          rw [hfn]
        rw [hrun] at hd2 ⊢
        have hstep := step_write_o { s with rd := rd' } inp hi1 ha hpol1 hdef1 hstk1 hty' hcur1 hh hin
          (Or.inl hnone) hdec1
        have := ih _ (done ++ [e]) _ tl _ pol ls (by
          cases e.isDir <;> simp <;> omega) hstep hpre' hd2
        rw [plan_cons_free _ _ _ _ _ (asks_of_none hnone)]
        simpa using this
      · -- an old file is in the way: the policy decides
        have hmeth : inp.h.method ≠ lhd := hh.2.2.1
        have hsym : inp.h.symlinkTarget = none := hh.2.2.2.1
        have hasks : asks (exAt fs0) (.file p data perms mtime) = true := by
          have : Fs.lookup fs0 (fs0.cwd ++ p) = some (.file d0 m0 t0) := hfile
          simp [asks, exAt, this]
        have hfileS : Fs.lookup s.fs (s.fs.cwd ++ p) = some (.file d0 m0 t0) := nf.same.trans hfile
        have hex : Fs.existsKind s.fs (fileFullPath inp.h s.opts) = .file := by
          rw [hfn]; exact existsKind_file nf.target d0 m0 t0 hfileS
        have hpo := preOf_exists { s with rd := rd' } inp.h hmeth hsym hex
        have htop : (Entry.file p data perms mtime).dirPart = [] := by
          show p.dropLast = []
          apply List.eq_nil_of_length_eq_zero
          rw [List.length_dropLast]; omega
        have hs0 : stk = [] := stk_nil_of_top hi.core.ok hin htop
        obtain ⟨c1, c2⟩ := confirm_follows_spec pol s.answers ls hi.core.ans
        rw [show ({ s with rd := rd' } : Extract.St).opts.overwrite = pol from hi.core.policy] at hpo
        cases hask : askOne pol ls with
        | none =>
          -- the input ended at the prompt: `exit(-1)`
          rw [show ({ s with rd := rd' } : Extract.St).answers = s.answers from rfl, c1 hask] at hpo
          rw [eaf_abort _ _ hpo, extractLoop_aborted _ _ rfl, plan_cons_eof _ _ _ _ _ hasks hask]
          refine ⟨rfl, rfl, ?_⟩
          have := hi.core.fs
          rw [hs0] at this
          simpa using this
        | some r =>
          obtain ⟨w, pol', ls'⟩ := r
          obtain ⟨a', hc, hans⟩ := c2 w pol' ls' hask
          rw [show ({ s with rd := rd' } : Extract.St).answers = s.answers from rfl, hc] at hpo
          rw [plan_cons_asked _ _ _ _ _ hasks w pol' ls' hask]
          have hi2 := hi1.answered pol' a' ls' hans
          cases w with
          | true =>
            have hrun : extractArchivedFile { s with rd := rd' } inp.h =
                wrote (answered { s with rd := rd' } pol' a') (fullOf (.file p data perms mtime)) := by
              rw [eaf_wrote _ _ inp.h hpo hi.core.opts.up
                (by show parentsOf (answered { s with rd := rd' } pol' a') (fileFullPath inp.h s.opts) = (true, s.fs)
                    unfold parentsOf answered; simp only [hty']; rw [hfn]; exact nf.parents)]
              show wrote _ (fileFullPath inp.h s.opts) = _
              rw [hfn]
            rw [hrun] at hd2 ⊢
            have hstep := step_write_o (answered { s with rd := rd' } pol' a') inp hi2 ha hpol1 hdef1
              hstk1 hty' hcur1 hh hin (Or.inr ⟨p, data, perms, mtime, d0, m0, t0, rfl, hp1, hfile⟩) hdec1
            have := ih _ (done ++ [.file p data perms mtime]) _ tl _ pol' ls' (by
              show 2 * tl.length + stk.length + 1 ≤ n
              omega) hstep hpre' hd2
            simpa using this
          | false =>
            rw [eaf_kept _ _ inp.h hpo] at hd2 ⊢
            have hstep := step_keep_o (answered { s with rd := rd' } pol' a') hi2 ha hpol1 hdef1
              hstk1 hty' hin rfl
            have := ih _ done _ tl _ pol' ls' (by omega) hstep hpre' hd2
            simpa using this
    -- which one it is
    cases hstk : stk with
    | cons d stk' =>
      have hsr := hi.rd.stack
      rw [hstk] at hsr
      obtain ⟨top, rs, hds, hh, hsr'⟩ := stackRel_cons hsr
      rw [← hustk] at hds
      obtain ⟨hdd, hdir⟩ := hi.core.ok.sub d (by rw [hstk]; simp)
      have hkd : EntryOk d := hi.core.ok.ok d hdd
      cases hrest : rest with
      | nil =>
        rw [hrest] at hp
        exact hrest ▸ go_close d stk' top rs hstk hds hh hsr' (endOfTopDir_none u top rs hds hp)
          (fun e tl h => by rw [hrest] at h; cases h)
      | cons e tl =>
        rw [hrest] at hp
        obtain ⟨inp, hb, hhe⟩ := hp
        have hke : EntryOk e := by
          have := hi.core.wf
          rw [hrest] at this
          exact this.1
        have hiff := (endOfTopDir_some u hupol top rs hds inp hb).trans
          (outside_iff hhe hh hke hkd hdir)
        by_cases hout : d.path <+: e.dirPart
        · have he : endOfTopDir u = false := by
            cases h : endOfTopDir u with
            | false => rfl
            | true => exact absurd hout (hiff.1 h)
          exact hrest ▸ go_new e tl inp hrest hb hhe he (fun d' tl' h => by
            rw [hstk] at h; cases h; exact hout)
        · exact hrest ▸ go_close d stk' top rs hstk hds hh hsr' (hiff.2 hout)
            (fun e' tl' h => by rw [hrest] at h; cases h; exact hout)
    | nil =>
      have hsr := hi.rd.stack
      rw [hstk] at hsr
      have hds : u.dirStack = [] := by rw [hustk]; exact stackRel_nil hsr
      have he := endOfTopDir_nil u hds
      cases hrest : rest with
      | cons e tl =>
        rw [hrest] at hp
        obtain ⟨inp, hb, hhe⟩ := hp
        exact hrest ▸ go_new e tl inp hrest hb hhe he (fun d' tl' h => by rw [hstk] at h; cases h)
      | nil =>
        rw [hrest] at hp
        have hR := pop_eof u he hp hudef
        rw [← hrd'] at hR
        have hoc' : oc = none := by rw [hoc, hR]
        subst hoc'
        have hfs := hi.core.fs
        rw [hstk] at hfs
        show FinalO fs0 (done ++ []) false _
        rw [List.append_nil]
        exact ⟨hi.core.aborted, hi.core.result, hfs⟩

end LhasaV.ExtractTree
