import LhasaV.Lemmas.ExtractTreeOpt8
/-!
# C06 with options (part 9): wildcard arguments select, `w=DIR` relocates — the tree theorems

`extract_tree_opt` / `run_tree_opt`: `lha x[w=DIR] archive [patterns]` on an archive that denotes
the entry list `es`, the selected entries being well-formed in the sense of `WFS`: the run
succeeds and leaves, below `cwd/DIR`, exactly `treeOf (es.filter (selected patterns))`; `DIR` and
its missing parents are created by `make_parent_directories` (mode 0755 under the umask; `MadeFrom`)
when the first member is extracted; nothing else changes.  Corollaries: `run_tree_sel` (wildcards
only), `run_tree_reloc` (`w=DIR` only).
-/
namespace LhasaV.ExtractTree
open LhasaV LhasaV.Header LhasaV.Extract LhasaV.GlobFs LhasaV.Contain

/-- the state in which `lha x[w=ds] archive [patterns]` starts -/
structure StartG (s : Extract.St) (ds : List Bytes) : Prop where
  aborted : s.aborted = false
  result : s.result = true
  opts : OptsRel s.opts ds
  ty : s.rd.currType = .start
  policy : s.rd.policy = .endOfDir
  stack : s.rd.dirStack = []
  deferred : s.rd.deferred = []

/-- no `w=`: an empty, writable extraction directory is all that is needed -/
theorem baseRef_nil {fs0 : Fs.St} (he : EmptyDir fs0) (ha : Access fs0) : BaseRef fs0 [] := by
  obtain ⟨m, t, hl, hacc⟩ := he.dir
  have hs : fs0.root = true ∨ m / 64 % 2 = 1 := by
    rcases hacc with h | h
    · exact Or.inl h
    · exact Or.inr h.1
  have hb : BaseOk fs0 [] 0 := by
    refine ⟨fun _ h => (by cases h), by decide, ?_, ?_, ?_, ?_⟩
    · intro pre hp
      have : pre = [] := by simpa using hp
      subst this
      exact ⟨m, t, by simpa using hl, hs⟩
    · exact canModify_of_dir fs0 _ m t (by simpa using hl) hacc
    · intro q hq hp
      have : q = [] := by simpa using hp
      exact absurd this hq
    · intro p hp; simpa using he.empty p hp
  refine ⟨ha, 0, hb, rfl, ?_, hb.dirs, ?_, rfl⟩
  · exact ⟨SameParams.refl _, fun q h1 h2 => absurd (List.prefix_nil.1 (by simpa using h2)) h1,
      fun h => absurd rfl h, fun _ _ _ => rfl, fun _ => rfl⟩
  · have h := fsInv_start fs0 he
    have : FsInvB fs0 (fs0.cwd ++ []) [] [] fs0 := by
      rw [List.append_nil]
      exact ⟨h.params, h.ents, h.none, h.cwd, h.outside, fun m t hl => ⟨t, hl⟩⟩
    simpa [mkBase_nil] using this

theorem loopInvG_start (s : Extract.St) (ds : List Bytes) (es : List Entry) (hs : StartG s ds)
    (hwf : WFS (selected s.opts.filters) [] [] es)
    (hdepth : ∀ e ∈ es, ds.length + e.path.length < 64) :
    LoopInvG s.fs ds (selected s.opts.filters) [] [] es s := by
  refine ⟨⟨hs.aborted, hs.result, hs.opts, fun _ => rfl, Or.inl ⟨rfl, rfl, rfl⟩, ?_, hwf,
    by simpa using hdepth⟩, ?_⟩
  · exact ⟨fun e he => (by cases he), List.nodup_nil, fun d hd => (by cases hd), trivial, List.nodup_nil⟩
  · refine ⟨hs.policy, hs.deferred, by rw [hs.stack]; trivial, Or.inl hs.ty, ?_⟩
    intro h
    rw [hs.ty] at h
    cases h

/-- the relocation directory at the end: the mode it has in `mkBase`, the time `now` -/
theorem base_final {fs0 fs : Fs.St} {ds : List Bytes} {all : List Entry} (hb : BaseRef fs0 ds)
    (hfs : FsInvB (mkBase fs0 ds) (fs0.cwd ++ ds) all [] fs) (hne : all ≠ []) (hc : fs0.cwd ++ ds ≠ []) :
    ∃ m t0, Fs.lookup (mkBase fs0 ds) (fs0.cwd ++ ds) = some (.dir m t0) ∧
      Fs.lookup fs (fs0.cwd ++ ds) = some (.dir m fs0.now) := by
  obtain ⟨k, _, hf⟩ := hb.facts
  obtain ⟨m0, t0, hl0, _⟩ := hf.inv.base
  obtain ⟨t', hl'⟩ := hfs.bmode m0 t0 hl0
  obtain ⟨m, t, hl, _, ht⟩ := hfs.base
  rw [hl'] at hl
  injection hl with hl
  injection hl with _ htt
  refine ⟨m0, t0, hl0, ?_⟩
  rw [hl', htt, ht hne hc, hb.params.now]

/-- **C06 with wildcard arguments and `w=DIR`.**  `s` is the start state of
`lha x[w=d₁/…/dₙ] archive [patterns]`; the place of `DIR` is as `BaseRef` says (`baseRef_of`:
some leading part of `d₁ … dₙ` exists, the rest does not, nothing is below; `baseRef_nil`: no
`w=`, an empty extraction directory); the archive behind the reader denotes `es`, and the entries
the patterns select are well-formed (`WFS`).  Then the run succeeds; below `cwd/DIR` the file
system is exactly the tree of the SELECTED entries; `DIR` carries the time `now`; outside
`cwd/DIR` the file system is that of `mkBase` (the start state with the missing directories of
`DIR` created, `mkBase_spec`) — or, when nothing is selected, nothing is touched at all. -/
theorem extract_tree_opt (fuel : Nat) (s : Extract.St) (ds : List Bytes) (es : List Entry)
    (hs : StartG s ds) (hb : BaseRef s.fs ds)
    (hwf : WFS (selected s.opts.filters) [] [] es)
    (hdepth : ∀ e ∈ es, ds.length + e.path.length < 64)
    (hfuel : 2 * es.length + 1 ≤ fuel) (hden : DenotesF fuel s es) :
    (extractLoop fuel s).result = true ∧ (extractLoop fuel s).aborted = false ∧
    (∀ p, p ≠ [] → Fs.lookup (extractLoop fuel s).fs (s.fs.cwd ++ ds ++ p) =
      treeOf s.fs.now s.fs.umask (es.filter (selected s.opts.filters)) p) ∧
    (es.filter (selected s.opts.filters) ≠ [] → s.fs.cwd ++ ds ≠ [] →
      ∃ m t0, Fs.lookup (mkBase s.fs ds) (s.fs.cwd ++ ds) = some (.dir m t0) ∧
        Fs.lookup (extractLoop fuel s).fs (s.fs.cwd ++ ds) = some (.dir m s.fs.now)) ∧
    (es.filter (selected s.opts.filters) ≠ [] → ∀ x, ¬ (s.fs.cwd ++ ds) <+: x →
      Fs.lookup (extractLoop fuel s).fs x = Fs.lookup (mkBase s.fs ds) x) ∧
    (es.filter (selected s.opts.filters) = [] → (extractLoop fuel s).fs = s.fs) := by
  have hF := loop_final_g s.fs ds (selected s.opts.filters) hb fuel s [] [] es (by simpa using hfuel)
    (loopInvG_start s ds es hs hwf hdepth) (fun d hd => (by cases hd)) hden
  simp only [List.nil_append] at hF
  have hp1 := hb.params
  refine ⟨hF.result, hF.aborted, ?_, ?_, ?_, ?_⟩
  · intro p hp
    rcases hF.fs with ⟨h0, _, hfs⟩ | ⟨_, hfs⟩
    · rw [h0, hfs]
      obtain ⟨k, hbk, _⟩ := hb.facts
      rw [hbk.empty p hp]; rfl
    · rw [← hp1.now, ← hp1.umask]
      unfold treeOf
      cases hf : (es.filter (selected s.opts.filters)).find? (fun e => e.path == p) with
      | none =>
        rw [List.find?_eq_none] at hf
        rw [hfs.none p hp (fun e he h => hf e he (by simp [h]))]
        rfl
      | some e =>
        have hm := List.mem_of_find?_eq_some hf
        have hpe : e.path = p := by simpa using List.find?_some hf
        have := hfs.ents e hm
        rw [if_neg (by simp), hpe] at this
        rw [this]; rfl
  · intro hne hc
    exact base_final hb (hF.fs.inv hne) hne hc
  · intro hne x hx
    exact (hF.fs.inv hne).outside x hx
  · intro he
    rcases hF.fs with ⟨_, _, hfs⟩ | ⟨hne, _⟩
    · exact hfs
    · exact absurd he hne

/-- what `mkBase` is: the start state with the missing directories of `DIR` created (0755 under
the umask, time `now`), the deepest existing one stamped, nothing else changed -/
theorem mkBase_spec {fs0 : Fs.St} {ds : List Bytes} {k : Nat} (hb : BaseOk fs0 ds k) (ha : AccessW fs0) :
    MadeFrom fs0 (mkBase fs0 ds) (ds.take k) (ds.drop k) := (base_facts hb ha).made

/-- `DIR` did not exist: it is created with mode 0755 under the umask and the time `now` -/
theorem mkBase_created {fs0 : Fs.St} {ds : List Bytes} {k : Nat} (hb : BaseOk fs0 ds k) (ha : AccessW fs0)
    (hk : k < ds.length) :
    Fs.lookup (mkBase fs0 ds) (fs0.cwd ++ ds) = some (.dir (0o755 - (0o755 &&& fs0.umask)) fs0.now) := by
  have := (mkBase_spec hb ha).made (ds.drop k) (by simp; omega) (List.prefix_refl _)
  rwa [List.append_assoc, List.take_append_drop] at this

/-- `DIR` exists already: nothing is created -/
theorem mkBase_exists {fs0 : Fs.St} {ds : List Bytes} (hb : BaseOk fs0 ds ds.length) (ha : AccessW fs0) :
    mkBase fs0 ds = fs0 := (mkBase_spec hb ha).same (by simp)

/-! ## `Extract.run` -/

theorem startG_run (archive : Array UInt8) (o : Opts) (fs : Fs.St) (answers : Bytes) (ds : List Bytes)
    (ho : OptsRel o ds) : StartG (runInit archive o fs answers) ds :=
  ⟨rfl, rfl, ho, rfl, rfl, rfl, rfl⟩

/-- **C06 for `lha x[w=DIR] archive [patterns]`** -/
theorem run_tree_opt (archive : Array UInt8) (o : Opts) (fs : Fs.St) (answers : Bytes) (ds : List Bytes)
    (es : List Entry) (ho : OptsRel o ds) (hb : BaseRef fs ds)
    (hwf : WFS (selected o.filters) [] [] es)
    (hdepth : ∀ e ∈ es, ds.length + e.path.length < 64)
    (hfuel : 2 * es.length + 1 ≤ runFuel archive)
    (hden : DenotesF (runFuel archive) (runInit archive o fs answers) es) :
    (run archive o fs answers).result = true ∧
    (∀ p, p ≠ [] → Fs.lookup (run archive o fs answers).fs (fs.cwd ++ ds ++ p) =
      treeOf fs.now fs.umask (es.filter (selected o.filters)) p) ∧
    (es.filter (selected o.filters) ≠ [] → fs.cwd ++ ds ≠ [] →
      ∃ m t0, Fs.lookup (mkBase fs ds) (fs.cwd ++ ds) = some (.dir m t0) ∧
        Fs.lookup (run archive o fs answers).fs (fs.cwd ++ ds) = some (.dir m fs.now)) ∧
    (es.filter (selected o.filters) ≠ [] → ∀ x, ¬ (fs.cwd ++ ds) <+: x →
      Fs.lookup (run archive o fs answers).fs x = Fs.lookup (mkBase fs ds) x) ∧
    (es.filter (selected o.filters) = [] → (run archive o fs answers).fs = fs) := by
  rw [run_eq]
  have := extract_tree_opt (runFuel archive) (runInit archive o fs answers) ds es
    (startG_run archive o fs answers ds ho) hb hwf hdepth hfuel hden
  exact ⟨this.1, this.2.2.1, this.2.2.2.1, this.2.2.2.2.1, this.2.2.2.2.2⟩

/-- **(1) wildcard arguments**: `lha x archive patterns` into an empty directory leaves exactly
the tree of the selected members — those whose stored path matches one of the patterns in the
sense of `Glob.GlobSpec` — and nothing outside the extraction directory changes -/
theorem run_tree_sel (archive : Array UInt8) (o : Opts) (fs : Fs.St) (answers : Bytes) (es : List Entry)
    (hx : o.extractPath = none) (hu : o.usePath = true) (hfs : EmptyDir fs) (ha : Access fs)
    (hwf : WFS (selected o.filters) [] [] es)
    (hfuel : 2 * es.length + 1 ≤ runFuel archive)
    (hden : DenotesF (runFuel archive) (runInit archive o fs answers) es) :
    (run archive o fs answers).result = true ∧
    (∀ p, p ≠ [] → Fs.lookup (run archive o fs answers).fs (fs.cwd ++ p) =
      treeOf fs.now fs.umask (es.filter (selected o.filters)) p) ∧
    (es.filter (selected o.filters) ≠ [] → fs.cwd ≠ [] →
      ∃ m t0, Fs.lookup fs fs.cwd = some (.dir m t0) ∧
        Fs.lookup (run archive o fs answers).fs fs.cwd = some (.dir m fs.now)) ∧
    (∀ x, ¬ fs.cwd <+: x → Fs.lookup (run archive o fs answers).fs x = Fs.lookup fs x) := by
  have hok : ∀ e ∈ es, EntryOk e := by
    have : ∀ (es : List Entry) (stk seen : List Fs.Path) (sel : Entry → Bool),
        WFS sel stk seen es → ∀ e ∈ es, EntryOk e := by
      intro es
      induction es with
      | nil => intro _ _ _ _ e he; cases he
      | cons x xs ih =>
        intro stk seen sel h e he
        rcases List.mem_cons.1 he with rfl | he
        · exact h.1
        · have h2 := h.2
          split at h2
          · exact ih _ _ sel h2.2.2 e he
          · exact ih _ _ sel h2 e he
    exact this es [] [] _ hwf
  obtain ⟨h1, h2, h3, h4, h5⟩ := run_tree_opt archive o fs answers [] es (optsRel_none o hx hu)
    (baseRef_nil hfs ha) hwf (fun e he => by simpa using (hok e he).depth) hfuel hden
  simp only [List.append_nil, mkBase_nil] at h2 h3 h4
  refine ⟨h1, h2, h3, ?_⟩
  intro x hx'
  by_cases hne : es.filter (selected o.filters) = []
  · rw [h5 hne]
  · rw [h4 hne x hx']

/-- **(2) relocation**: `lha xw=d₁/…/dₙ archive` (no wildcard arguments) leaves the whole tree of a
well-formed archive below `cwd/d₁/…/dₙ`, having created the missing directories of `DIR` -/
theorem run_tree_reloc (archive : Array UInt8) (o : Opts) (fs : Fs.St) (answers : Bytes) (ds : List Bytes)
    (es : List Entry) (k : Nat) (hne : ds ≠ []) (hx : o.extractPath = some (joinPath ds))
    (hu : o.usePath = true) (hnf : o.filters = []) (hb : BaseOk fs ds k) (ha : AccessW fs)
    (hwf : WellFormed es) (hdepth : ∀ e ∈ es, ds.length + e.path.length < 64)
    (hfuel : 2 * es.length + 1 ≤ runFuel archive)
    (hden : Denotes (runFuel archive) (runInit archive o fs answers) es) :
    (run archive o fs answers).result = true ∧
    (∀ p, p ≠ [] → Fs.lookup (run archive o fs answers).fs (fs.cwd ++ ds ++ p) =
      treeOf fs.now fs.umask es p) ∧
    (es ≠ [] → ∃ m t0, Fs.lookup (mkBase fs ds) (fs.cwd ++ ds) = some (.dir m t0) ∧
      Fs.lookup (run archive o fs answers).fs (fs.cwd ++ ds) = some (.dir m fs.now)) ∧
    (es ≠ [] → ∀ x, ¬ (fs.cwd ++ ds) <+: x →
      Fs.lookup (run archive o fs answers).fs x = Fs.lookup (mkBase fs ds) x) ∧
    MadeFrom fs (mkBase fs ds) (ds.take k) (ds.drop k) := by
  have hsel : selected o.filters = fun _ => true := by rw [hnf]; rfl
  have hfil : es.filter (selected o.filters) = es := by rw [hsel]; simp
  have hwf' : WFS (selected o.filters) [] [] es := by rw [hsel]; exact (WFS_all es [] []).2 hwf
  obtain ⟨h1, h2, h3, h4, _⟩ := run_tree_opt archive o fs answers ds es
    (optsRel_some o ds hne hx hu hb.names) (baseRef_of hb ha) hwf' hdepth hfuel
    (denotesF_of_denotes _ _ _ hnf hden)
  rw [hfil] at h2 h3 h4
  exact ⟨h1, h2, fun h => h3 h (by simp [hne]), h4, mkBase_spec hb ha⟩

end LhasaV.ExtractTree
