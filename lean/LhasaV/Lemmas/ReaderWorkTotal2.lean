import LhasaV.Lemmas.ReaderWorkTotal1
import LhasaV.Lemmas.ReaderIndep6
/-!
# C13 for whole histories, part 2: the potential along a history

`Track st0 s ch n D`: the reader state `s`, reached from a fresh reader on stream `st0` by a history
with `n` calls of `next` whose decoded members declare `D` compressed bytes in total, satisfies

* `moved + avail (+ remaining of the member being decoded) ≤ moved₀ + avail₀ + D`
* `32·reads + avail (+ 32·scan budget while the scan has not run) ≤ 32·reads₀ + avail₀ + 32·budget + 64·n`

Both are kept by every operation (`track_step`) because every stream operation is `Amort` and every
decoding operation is `Adv` (part 1).  `ch` = "the member now current has been charged to `D`".
-/
set_option linter.unusedSimpArgs false
namespace LhasaV.ReaderIndep
open LhasaV LhasaV.Reader

/-! ## 1. `next`, amortised -/

theorem nextTail_dec (t : St) : (nextDeferred (nextPop (nextUnref t))).dec = t.dec := by
  have h1 : (nextUnref t).dec = t.dec := by
    unfold nextUnref; split
    · split <;> rfl
    · rfl
  have h2 : ∀ x : St, (nextPop x).dec = x.dec := by
    intro x; unfold nextPop; split
    · split <;> rfl
    · rfl
  have h3 : ∀ x : St, (nextDeferred x).dec = x.dec := by
    intro x; unfold nextDeferred; split
    · rfl
    · split <;> rfl
  rw [h3, h2, h1]

/-- **one `lha_reader_next_file`, amortised**: close the decoder (`Adv`: no request, nothing
re-read), then at most two requests beyond one per 32 bytes that disappear from the source, plus
the scan budget the one time the start-of-stream scan runs. -/
theorem next_amort (s s' : St) (r : Option HObj) (wf : Stream.WF s.basic)
    (e : next s = .ok (r, s')) :
    Amort (closeDecoder s).basic.stream s'.basic.stream
      (2 + (if (closeDecoder s).basic.stream.phase = .init ∧ s'.basic.stream.phase ≠ .init
            then scanBudget (avail (closeDecoder s).basic.stream) else 0)) ∧
    ((closeDecoder s).basic.stream.phase ≠ .init → s'.basic.stream.phase ≠ .init) ∧
    Stream.WF s'.basic ∧
    ((∀ c, s.basic.curr = some c → s.basic.remaining ≤ c.h.compressedLength) →
      ∀ c, s'.basic.curr = some c → s'.basic.remaining ≤ c.h.compressedLength) ∧
    s'.dec = none := by
  have ha := closeDecoder_adv s
  have wf0 := Stream.wf_closeDecoder s wf
  have hrem0 : (∀ c, s.basic.curr = some c → s.basic.remaining ≤ c.h.compressedLength) →
      ∀ c, (closeDecoder s).basic.curr = some c →
      (closeDecoder s).basic.remaining ≤ c.h.compressedLength := by
    intro hrem c hc
    rw [ha.curr] at hc
    exact Nat.le_trans ha.remLe (hrem c hc)
  have hd0 := closeDecoder_dec s
  rw [next_eq] at e
  split at e
  · cases e
    exact ⟨(Amort.refl _).mono (by omega), id, wf0, hrem0, hd0⟩
  · cases hadv : nextAdv (closeDecoder s) with
    | error w => rw [hadv] at e; cases e
    | ok s1 =>
      rw [hadv] at e
      simp only [bind, Except.bind, Except.ok.injEq, Prod.mk.injEq] at e
      obtain ⟨-, rfl⟩ := e
      rw [nextDeferred_basic, nextPop_basic, nextUnref_basic, nextTail_dec]
      by_cases hs : (closeDecoder s).currType = .start ∨ (closeDecoder s).currType = .normal
      · obtain ⟨x, hx, rfl⟩ := nextAdv_stream hs hadv
        obtain ⟨h1, h2⟩ := basicNext_amort _ _ x.1 _ x.2 wf0 hx
        exact ⟨h1, h2, Stream.basicNext_wf _ _ _ wf0 x.1 x.2 hx, fun _ => basicNext_rem _ _ x.1 _ x.2 hx, hd0⟩
      · rw [nextAdv_fake hs] at hadv
        cases hadv
        exact ⟨(Amort.refl _).mono (by omega), id, wf0, hrem0, hd0⟩

/-- **the stream never goes backwards**, one operation: whatever the operation (`next`, `read`,
`check`, `extract`) and whatever state it is issued in, the source data is untouched and the bytes
still present do not increase -/
theorem step_avail_le (s : St) (wf : Stream.WF s.basic) (op : Op) :
    (step s op).basic.stream.data = s.basic.stream.data ∧
    avail (step s op).basic.stream ≤ avail s.basic.stream := by
  by_cases hop : op = .next
  · subst hop
    cases e : next s with
    | error w =>
      have hs : step s .next = s := by simp only [step, e]
      rw [hs]; exact ⟨rfl, Nat.le_refl _⟩
    | ok r =>
      have hs : step s .next = r.2 := by simp only [step, e]
      rw [hs]
      obtain ⟨h1, _⟩ := next_amort s r.2 r.1 wf e
      have ha := closeDecoder_adv s
      exact ⟨h1.data.trans ha.data, Nat.le_trans h1.avail_le ha.avail_le⟩
  · have ha := step_adv s op hop
    exact ⟨ha.data, ha.avail_le⟩

/-! ## 2. which members are charged -/

/-- `open_decoder` gets past its guards: the current entry comes from the stream and its method
has a decoder -/
def opens (s : St) : Bool :=
  s.currType == .normal &&
    match s.curr with
    | none => false
    | some c => (decoderFor (methodName c.h)).isSome && (decoderInfo (methodName c.h)).isSome

/-- the compressed length the current header declares -/
def declComp (s : St) : Nat :=
  match s.curr with
  | some c => c.h.compressedLength
  | none => 0

theorem openDecoder_noop {s : St} (h : opens s = false) : openDecoder s = (false, s) := by
  unfold openDecoder
  split
  · rfl
  · rename_i hn
    split
    · rfl
    · rename_i c hc
      split
      · rename_i d info hd hi
        have hn' : s.currType = .normal := by simpa using hn
        simp [opens, hn', hc, hd, hi] at h
      · rfl

/-- an operation other than `next` on a member that has no decoder, with no decoder open, leaves
the basic reader and the (absent) decoder alone -/
theorem step_noop {s : St} (h : opens s = false) (hd : s.dec = none) (op : Op) (hop : op ≠ .next) :
    (step s op).basic = s.basic ∧ (step s op).dec = none := by
  have ho := openDecoder_noop h
  cases op with
  | next => exact absurd rfl hop
  | read k =>
    simp only [step]
    rw [read_eq]
    simp only [hd, ho]
    exact ⟨rfl, hd⟩
  | check =>
    simp only [step]
    unfold check
    split
    · exact ⟨rfl, hd⟩
    · split
      · exact ⟨rfl, hd⟩
      · split
        · exact ⟨rfl, hd⟩
        · simp only [ho]
          exact ⟨rfl, hd⟩
  | extract b =>
    simp only [step]
    unfold extract
    split
    · split
      · simp only [ho]
        exact ⟨rfl, hd⟩
      · split
        · split
          · split
            · exact ⟨rfl, hd⟩
            · exact ⟨rfl, hd⟩
          · exact ⟨rfl, hd⟩
        · split
          · exact ⟨rfl, hd⟩
          · split
            · exact ⟨rfl, hd⟩
            · exact ⟨rfl, hd⟩
    · exact ⟨rfl, hd⟩
    · exact ⟨rfl, hd⟩
    · exact ⟨rfl, hd⟩

/-- what an operation adds to the declared total: the compressed length of the current member,
once, when the first operation that opens a decoder is issued on it -/
def charge (s : St) (ch : Bool) : Op → Nat
  | .next => 0
  | _ => if !ch && opens s then declComp s else 0

/-- the "already charged" flag after an operation -/
def chNext (s : St) (ch : Bool) : Op → Bool
  | .next => false
  | _ => ch || opens s

def _root_.LhasaV.Reader.Op.nextCount : Op → Nat
  | .next => 1
  | _ => 0

/-- number of `next` calls of a history -/
def nexts : List Op → Nat
  | [] => 0
  | op :: ops => op.nextCount + nexts ops

/-- **declared compressed lengths of the members a history decodes**: walk the history; the first
`read` / `check` / `extract` issued on a member whose method has a decoder adds the compressed
length its header declares.  Members that are only listed or skipped add nothing. -/
def decodedDeclaredFrom : St → Bool → List Op → Nat
  | _, _, [] => 0
  | s, ch, op :: ops => charge s ch op + decodedDeclaredFrom (step s op) (chNext s ch op) ops

/-! ## 3. the potential -/

structure Track (st0 : Stream.St) (s : St) (ch : Bool) (n D : Nat) : Prop where
  wf : Stream.WF s.basic
  inv : Inv s
  rem : ∀ c, s.basic.curr = some c → s.basic.remaining ≤ c.h.compressedLength
  decCh : s.dec ≠ none → ch = true
  data : s.basic.stream.data = st0.data
  availLe : avail s.basic.stream ≤ avail st0
  readsLe : st0.reads ≤ s.basic.stream.reads
  movedLe : st0.moved ≤ s.basic.stream.moved
  moved : s.basic.stream.moved + avail s.basic.stream + (if ch then s.basic.remaining else 0) ≤
    st0.moved + avail st0 + D
  reads : 32 * s.basic.stream.reads + avail s.basic.stream +
      32 * (if s.basic.stream.phase = .init then scanBudget (avail st0) else 0) ≤
    32 * st0.reads + avail st0 + 32 * scanBudget (avail st0) + 64 * n

theorem track_fresh (st : Stream.St) (pol : DirPolicy) (mk : Nat → Nat) (hl : st.leadin.length ≤ 24) :
    Track st (fresh st pol mk) false 0 0 := by
  refine ⟨⟨hl, fun h => (by cases h)⟩, inv_fresh st pol mk, (fun c h => (by cases h)),
    (fun h => absurd rfl h), rfl, Nat.le_refl _, Nat.le_refl _, Nat.le_refl _, ?_, ?_⟩
  · show st.moved + avail st + 0 ≤ _; omega
  · show 32 * st.reads + avail st + 32 * (if st.phase = .init then _ else 0) ≤ _
    split <;> omega

/-- a decoding operation keeps the potential; the first one on a decodable member charges the
compressed length the header declares -/
theorem track_decode {st0 : Stream.St} {s : St} {ch : Bool} {n D : Nat} (h : Track st0 s ch n D)
    (op : Op) (hop : op ≠ .next) :
    Track st0 (step s op) (chNext s ch op) (n + op.nextCount) (D + charge s ch op) := by
  have ha := step_adv s op hop
  have hch : chNext s ch op = (ch || opens s) := by cases op <;> first | rfl | exact absurd rfl hop
  have hcg : charge s ch op = if !ch && opens s then declComp s else 0 := by
    cases op <;> first | rfl | exact absurd rfl hop
  have hnc : op.nextCount = 0 := by cases op <;> first | rfl | exact absurd rfl hop
  rw [hch, hcg, hnc]
  have hav := ha.avail_le
  have hp := ha.pos
  have hm := ha.moved
  have hr := ha.remLe
  have hposle := ha.posLe
  have hmv : (step s op).basic.stream.moved + avail (step s op).basic.stream + (step s op).basic.remaining ≤
      s.basic.stream.moved + avail s.basic.stream + s.basic.remaining := by omega
  refine ⟨ha.wf h.wf, step_inv h.inv op, ?_, ?_, ha.data.trans h.data, Nat.le_trans hav h.availLe,
    by rw [ha.reads]; exact h.readsLe, by have := h.movedLe; omega, ?_, ?_⟩
  · intro c hc
    rw [ha.curr] at hc
    exact Nat.le_trans hr (h.rem c hc)
  · intro hd
    cases hc : ch with
    | true => rfl
    | false =>
      cases ho : opens s with
      | true => rfl
      | false =>
        have hd0 : s.dec = none := by
          cases hx : s.dec with
          | none => rfl
          | some o => have := h.decCh (by rw [hx]; exact fun e => by cases e); rw [hc] at this; cases this
        exact absurd (step_noop ho hd0 op hop).2 hd
  · have hM := h.moved
    cases hc : ch with
    | true =>
      simp only [hc, Bool.true_or, if_true, Bool.not_true, Bool.false_and, Bool.false_eq_true, if_false] at hM ⊢
      omega
    | false =>
      have hd0 : s.dec = none := by
        cases hx : s.dec with
        | none => rfl
        | some o => have := h.decCh (by rw [hx]; exact fun e => by cases e); rw [hc] at this; cases this
      cases ho : opens s with
      | false =>
        rw [(step_noop ho hd0 op hop).1]
        simp only [hc, Bool.false_or, Bool.false_eq_true, if_false, Bool.not_false, Bool.true_and] at hM ⊢
        omega
      | true =>
        simp only [hc, Bool.false_or, if_true, Bool.not_false, Bool.true_and, Bool.false_eq_true, if_false] at hM ⊢
        -- the member is current in the basic reader: `remaining ≤` what its header declares
        have hn : s.currType = .normal := by
          unfold opens at ho
          cases hct : s.currType <;> simp [hct] at ho ⊢
        have hcur := h.inv.normal hn
        have : s.basic.remaining ≤ declComp s := by
          unfold declComp
          cases hsc : s.curr with
          | none => unfold opens at ho; simp [hsc] at ho
          | some c => exact h.rem c (by rw [← hcur, hsc])
        omega
  · have hR := h.reads
    rw [ha.reads, ha.phase]
    omega

/-- `next` keeps the potential: it charges two requests to the history, everything else to the
bytes that disappear from the source (or, once, to the scan budget) -/
theorem track_next {st0 : Stream.St} {s : St} {ch : Bool} {n D : Nat} (h : Track st0 s ch n D) :
    Track st0 (step s .next) false (n + 1) D := by
  cases e : next s with
  | error w =>
    -- cannot happen (`next_ok`)
    obtain ⟨r, hr⟩ := next_ok s h.wf
    rw [hr] at e; cases e
  | ok r =>
    have hs : step s .next = r.2 := by simp only [step, e]
    rw [hs]
    obtain ⟨h1, h2, h3, h4, h5⟩ := next_amort s r.2 r.1 h.wf e
    have h4 := h4 h.rem
    have ha := closeDecoder_adv s
    have hav := ha.avail_le
    have hp := ha.pos
    have hm := ha.moved
    have hr := ha.remLe
    have hposle := ha.posLe
    refine ⟨h3, (next_closed (r := r.1) (s' := r.2) h.inv e).inv, h4, fun hd => absurd h5 hd,
      (h1.data.trans ha.data).trans h.data, Nat.le_trans h1.avail_le (Nat.le_trans hav h.availLe),
      by have h6 := h1.readsLe; have := h.readsLe; rw [ha.reads] at h6; omega,
      by have := h1.movedLe; have := h.movedLe; omega, ?_, ?_⟩
    · have hM := h.moved
      have := h1.moved
      have := h1.movedLe
      simp only [Bool.false_eq_true, if_false]
      -- closing the decoder moved `t ≤ remaining` bytes, charged already when a decoder is open
      have hclosed : (closeDecoder s).basic.stream.moved + avail (closeDecoder s).basic.stream ≤
          s.basic.stream.moved + avail s.basic.stream + (if ch then s.basic.remaining else 0) := by
        cases hd : s.dec with
        | none =>
          have : closeDecoder s = s := by unfold closeDecoder; simp only [hd]
          rw [this]; omega
        | some o =>
          have := h.decCh (by rw [hd]; exact fun e => by cases e)
          rw [this]; simp only [if_true]; omega
      omega
    · have hR := h.reads
      have hr1 := h1.reads
      have hr2 := h1.readsLe
      have hb := scanBudget_mono (Nat.le_trans hav h.availLe)
      rw [ha.reads] at hr1 hr2
      rw [ha.phase] at hr1 h2
      by_cases hp0 : s.basic.stream.phase = .init
      · by_cases hp1 : r.2.basic.stream.phase = .init
        · rw [if_neg (fun hh => hh.2 hp1)] at hr1
          rw [if_pos hp0] at hR
          rw [if_pos hp1]
          omega
        · rw [if_pos ⟨hp0, hp1⟩] at hr1
          rw [if_pos hp0] at hR
          rw [if_neg hp1]
          omega
      · have hp1 := h2 hp0
        rw [if_neg (fun hh => hp0 hh.1)] at hr1
        rw [if_neg hp0] at hR
        rw [if_neg hp1]
        omega

theorem track_step {st0 : Stream.St} {s : St} {ch : Bool} {n D : Nat} (h : Track st0 s ch n D)
    (op : Op) :
    Track st0 (step s op) (chNext s ch op) (n + op.nextCount) (D + charge s ch op) := by
  by_cases hop : op = .next
  · subst hop; exact track_next h
  · exact track_decode h op hop

theorem track_run {st0 : Stream.St} (ops : List Op) {s : St} {ch : Bool} {n D : Nat}
    (h : Track st0 s ch n D) :
    ∃ ch', Track st0 (run s ops) ch' (n + nexts ops) (D + decodedDeclaredFrom s ch ops) := by
  induction ops generalizing s ch n D with
  | nil => exact ⟨ch, h⟩
  | cons op ops ih =>
    obtain ⟨ch', h'⟩ := ih (track_step h op)
    refine ⟨ch', ?_⟩
    simp only [run_cons, nexts, decodedDeclaredFrom]
    rw [← Nat.add_assoc, ← Nat.add_assoc]
    exact h'

/-- along a tracked history the bytes present never increase, between ANY two points -/
theorem track_avail {st0 : Stream.St} (more : List Op) {s : St} {ch : Bool} {n D : Nat}
    (h : Track st0 s ch n D) :
    (run s more).basic.stream.data = s.basic.stream.data ∧
    avail (run s more).basic.stream ≤ avail s.basic.stream := by
  induction more generalizing s ch n D with
  | nil => exact ⟨rfl, Nat.le_refl _⟩
  | cons op more ih =>
    obtain ⟨h1, h2⟩ := ih (track_step h op)
    obtain ⟨h3, h4⟩ := step_avail_le s h.wf op
    exact ⟨h1.trans h3, Nat.le_trans h2 h4⟩

end LhasaV.ReaderIndep
