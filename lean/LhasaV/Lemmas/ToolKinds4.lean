import LhasaV.Lemmas.ToolKinds3
import LhasaV.Model.Extract
/-!
# C16 at tool level, part 4: the loops of `lha x` / `lha e` and `lha p` (model `Extract`)

`XRel P a b`: loop states that differ only in their (related) readers.  `readerExtract_rel`, `eaf_rel`
(`extract_archived_file`, split by `eaf_eq` into the overwrite check `preX` and `eafBody`),
**`extractLoop_rel`**, `printLoop_rel`, **`printArchiveLoop_rel`**.
-/
set_option linter.unusedSimpArgs false
namespace LhasaV.ToolKinds
open LhasaV LhasaV.Stream LhasaV.Reader LhasaV.Extract

theorem readerExtract_rel {P s t} (h : KRel P s t) (fs : Fs.St) (fn : Bytes) :
    (Extract.readerExtract s fs fn).1 = (Extract.readerExtract t fs fn).1 ∧
    (Extract.readerExtract s fs fn).2.2 = (Extract.readerExtract t fs fn).2.2 ∧
    KRel P (Extract.readerExtract s fs fn).2.1 (Extract.readerExtract t fs fn).2.1 := by
  have he1 : ∀ b, (Reader.extract t b).1 = (Reader.extract s b).1 := fun b => (extract_rel h b).1.symm
  have he2 : ∀ b, KRel P (Reader.extract s b).2 (Reader.extract t b).2 := fun b => (extract_rel h b).2
  have ho : (Reader.openDecoder t).1 = (Reader.openDecoder s).1 := (openDecoder_rel h).1.symm
  unfold Extract.readerExtract
  simp only [he1, ho, ← h.currType, ← h.curr, ← h.policy]
  repeat' split
  all_goals first
    | exact ⟨rfl, rfl, he2 _⟩
    | exact ⟨rfl, rfl, h⟩


/-! ## `extract_archived_file` and the loop of `lha x` (model `Extract`) -/

/-- states of the extraction loop that differ only in their readers -/
structure XRel (P : List UInt8) (a b : Extract.St) : Prop where
  rd : KRel P a.rd b.rd
  fs : a.fs = b.fs
  opts : a.opts = b.opts
  answers : a.answers = b.answers
  result : a.result = b.result
  aborted : a.aborted = b.aborted
  out : a.out = b.out

macro "xrel_upd " h:term : tactic => `(tactic| exact
  ⟨by first | exact ($h).rd | assumption, by first | rfl | exact ($h).fs, by first | rfl | exact ($h).opts,
   by first | rfl | exact ($h).answers, by first | rfl | exact ($h).result | simp [($h).result],
   by first | rfl | exact ($h).aborted, by first | rfl | exact ($h).out | simp [($h).out]⟩)

/-- the overwrite check of `extract_archived_file`: `none` = `exit(-1)`, otherwise skip?, the new policy,
the answers left -/
def preX (fs : Fs.St) (o : Opts) (ans : Bytes) (h : Header.Hdr) : Option (Bool × Overwrite × Bytes) :=
  if !isDirEntry h ∧ !h.symlinkTarget.isSome then
    match Fs.existsKind fs (fileFullPath h o) with
    | .error => none
    | .none => some (false, o.overwrite, ans)
    | _ =>
      match confirmOverwrite 64 o.overwrite ans with
      | none => none
      | some (yes, pol, rest) => some (!yes, pol, rest)
  else some (false, o.overwrite, ans)

/-- `extract_archived_file` after the overwrite check -/
def eafBody (s : Extract.St) (h : Header.Hdr) (filename : Bytes) : Extract.St :=
  if !s.opts.usePath ∧ isDirEntry h then { s with out := "dir-ignored" :: s.out } else
  let mp := if s.rd.currType == .fakeDir || s.rd.currType == .deferred then (true, s.fs)
            else makeParentDirectories s.fs filename
  if !mp.1 then { s with fs := mp.2, result := false, out := "parent-failed" :: s.out } else
  let r := Extract.readerExtract s.rd mp.2 filename
  { s with rd := r.2.1, fs := r.2.2, result := s.result && r.1, out := (if r.1 then "ok" else "failed") :: s.out }

theorem eaf_eq (s : Extract.St) (h : Header.Hdr) : extractArchivedFile s h =
    match preX s.fs s.opts s.answers h with
    | none => { s with aborted := true, result := false, out := "abort" :: s.out }
    | some (true, pol, rest) =>
      { s with opts := { s.opts with overwrite := pol }, answers := rest, out := "skipped" :: s.out }
    | some (false, pol, rest) =>
      eafBody { s with opts := { s.opts with overwrite := pol }, answers := rest } h (fileFullPath h s.opts) := by
  unfold extractArchivedFile preX
  by_cases hc : (!isDirEntry h) = true ∧ (!h.symlinkTarget.isSome) = true
  · simp only [hc, and_self, if_true]
    cases hk : Fs.existsKind s.fs (fileFullPath h s.opts) with
    | error => rfl
    | none => rfl
    | file =>
      cases hco : confirmOverwrite 64 s.opts.overwrite s.answers with
      | none => rfl
      | some r => obtain ⟨yes, pol, rest⟩ := r; cases yes <;> rfl
    | dir =>
      cases hco : confirmOverwrite 64 s.opts.overwrite s.answers with
      | none => rfl
      | some r => obtain ⟨yes, pol, rest⟩ := r; cases yes <;> rfl
  · simp only [hc, if_false]
    rfl

theorem eafBody_rel {P a b} (h : XRel P a b) (hd : Header.Hdr) (fn : Bytes) :
    XRel P (eafBody a hd fn) (eafBody b hd fn) := by
  have hr := fun fs => readerExtract_rel h.rd fs fn
  have hr1 : ∀ fs, (Extract.readerExtract b.rd fs fn).1 = (Extract.readerExtract a.rd fs fn).1 :=
    fun fs => (hr fs).1.symm
  have hr2 : ∀ fs, (Extract.readerExtract b.rd fs fn).2.2 = (Extract.readerExtract a.rd fs fn).2.2 :=
    fun fs => (hr fs).2.1.symm
  unfold eafBody
  simp only [← h.opts, ← h.fs, ← h.rd.currType, hr1, hr2]
  split
  · xrel_upd h
  · generalize (if (a.rd.currType == CurrType.fakeDir || a.rd.currType == CurrType.deferred) = true then (true, a.fs)
        else makeParentDirectories a.fs fn) = mp
    split
    · xrel_upd h
    · have := (hr mp.2).2.2
      xrel_upd h

theorem eaf_rel {P a b} (h : XRel P a b) (hd : Header.Hdr) :
    XRel P (extractArchivedFile a hd) (extractArchivedFile b hd) := by
  rw [eaf_eq, eaf_eq, ← h.fs, ← h.opts, ← h.answers]
  split
  · xrel_upd h
  · xrel_upd h
  · apply eafBody_rel
    xrel_upd h


/-- **the loop of `lha x` / `lha e`** keeps the relation: same tokens, same file system, same flags -/
theorem extractLoop_rel {P} : ∀ (fuel : Nat) (a b : Extract.St), XRel P a b →
    XRel P (extractLoop fuel a) (extractLoop fuel b) := by
  intro fuel
  induction fuel with
  | zero => intro a b h; exact h
  | succ n ih =>
    intro a b h
    unfold extractLoop
    rw [← h.aborted]
    split
    · exact h
    · have hn := next_rel h.rd
      cases ha : Reader.next a.rd with
      | error w =>
        cases hb : Reader.next b.rd with
        | error w' => simp only; xrel_upd h
        | ok r' => rw [ha, hb] at hn; exact hn.elim
      | ok r =>
        cases hb : Reader.next b.rd with
        | error w' => rw [ha, hb] at hn; exact hn.elim
        | ok r' =>
          rw [ha, hb] at hn
          obtain ⟨oc, rd⟩ := r
          obtain ⟨oc', rd'⟩ := r'
          obtain ⟨h1, h2⟩ := hn
          simp only at h1 h2
          subst h1
          cases oc with
          | none => simp only; xrel_upd h
          | some c =>
            simp only [← h.opts]
            split
            · apply ih; xrel_upd h
            · apply ih; apply eaf_rel; xrel_upd h

/-! ## `lha p` -/

theorem printLoop_rel {P} : ∀ (fuel : Nat) (s t : Reader.St) (acc : List UInt8), KRel P s t →
    (printLoop fuel s acc).1 = (printLoop fuel t acc).1 ∧ KRel P (printLoop fuel s acc).2 (printLoop fuel t acc).2 := by
  intro fuel
  induction fuel with
  | zero => intro s t acc h; exact ⟨rfl, h⟩
  | succ n ih =>
    intro s t acc h
    have hr := read_rel h 512
    unfold printLoop
    simp only [← hr.1]
    split
    · exact ⟨rfl, hr.2⟩
    · exact ih _ _ _ hr.2

/-- **`lha p` writes the same bytes** -/
theorem printArchiveLoop_rel {P} (o : Opts) : ∀ (fuel : Nat) (s t : Reader.St) (out : List UInt8), KRel P s t →
    printArchiveLoop o fuel s out = printArchiveLoop o fuel t out := by
  intro fuel
  induction fuel with
  | zero => intro s t out h; rfl
  | succ n ih =>
    intro s t out h
    unfold printArchiveLoop
    have hn := next_rel h
    cases ha : Reader.next s with
    | error w =>
      cases hb : Reader.next t with
      | error w' => rfl
      | ok r' => rw [ha, hb] at hn; exact hn.elim
    | ok r =>
      cases hb : Reader.next t with
      | error w' => rw [ha, hb] at hn; exact hn.elim
      | ok r' =>
        rw [ha, hb] at hn
        obtain ⟨oc, rd⟩ := r
        obtain ⟨oc', rd'⟩ := r'
        obtain ⟨h1, h2⟩ := hn
        simp only at h1 h2
        subst h1
        cases oc with
        | none => rfl
        | some c =>
          simp only
          have hp := printLoop_rel (c.h.length + 2) rd rd' [] h2
          split
          · exact ih _ _ _ h2
          · split
            · rw [← hp.1]; exact ih _ _ _ hp.2
            · exact ih _ _ _ h2

end LhasaV.ToolKinds
