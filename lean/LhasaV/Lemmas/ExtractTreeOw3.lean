import LhasaV.Lemmas.ExtractTreeOw2
import LhasaV.Lemmas.MessagesAgree1
/-!
# C06, overwriting (part 3): the overwrite policy, specified independently, and the model

The specification (nothing here calls `confirmOverwrite` or `readAnswer`):

* `lines a`: the newline-terminated lines of the answer stream (an unterminated tail is not a line:
  `prompt_user` exits when the input ends before the newline);
* `reply line`: what one typed line means — first character `y`/`Y` yes, `n`/`N` or an empty line
  no, `a`/`A` yes to all, `s`/`S` no to all, anything else: ask again;
* `askOne pol ls`: the decision for ONE existing file under the policy in force (`.all`: options
  `f`, `q`…: overwrite; `.skip`: keep; `.prompt`: read lines until one is usable), the policy and the
  lines left afterwards; `none` = the input ended: the tool exits;
* `plan ex pol ls es`: walk over the entries in archive order, asking for each file entry whose
  path holds a file (`ex`): the entries WRITTEN (everything that is not asked about, and the files
  whose decision is "overwrite") up to the end or to the entry at which the input ended, and
  whether the run was aborted there.

`confirm_follows_spec`: `Extract.confirmOverwrite` (64 tries) follows `askOne` on answer streams
that are empty or end in a newline and have fewer than 64 consecutive unusable lines (`JunkOk`).
-/
namespace LhasaV.ExtractTree
open LhasaV LhasaV.Header LhasaV.Extract LhasaV.GlobFs LhasaV.Contain

/-! ## the specification -/

inductive Reply where
  | yes | no | all | never | again
deriving Repr, DecidableEq

/-- the meaning of the first character of a non-empty line -/
def replyChar (c : UInt8) : Reply :=
  if c == 0x79 || c == 0x59 then .yes          -- y Y
  else if c == 0x6e || c == 0x4e then .no      -- n N
  else if c == 0x61 || c == 0x41 then .all     -- a A
  else if c == 0x73 || c == 0x53 then .never   -- s S
  else .again

/-- the meaning of one typed line (without its newline); the empty line is the default "No" -/
def reply : Bytes → Reply
  | [] => .no
  | c :: _ => replyChar c

def linesGo : Bytes → Bytes → List Bytes
  | [], _ => []
  | b :: bs, cur => if b == 0x0a then cur.reverse :: linesGo bs [] else linesGo bs (b :: cur)

/-- the complete (newline-terminated) lines of the input, without their newlines -/
def lines (a : Bytes) : List Bytes := linesGo a []

/-- **the decision for one existing file**: overwrite?, the policy afterwards, the lines left;
`none` = end of input at the prompt -/
def askOne : Overwrite → List Bytes → Option (Bool × Overwrite × List Bytes)
  | .all, ls => some (true, .all, ls)
  | .skip, ls => some (false, .skip, ls)
  | .prompt, [] => none
  | .prompt, l :: ls =>
    match reply l with
    | .yes => some (true, .prompt, ls)
    | .no => some (false, .prompt, ls)
    | .all => some (true, .all, ls)
    | .never => some (false, .skip, ls)
    | .again => askOne .prompt ls

/-- is the user (or the policy) asked about this entry?  Only about a regular file member whose
path holds something -/
def asks (ex : Fs.Path → Bool) : Entry → Bool
  | .file p _ _ _ => ex p
  | _ => false

/-- **the plan of the run**: the entries written, in order, and whether the run was aborted (then
the written entries are those before the entry at whose prompt the input ended) -/
def plan (ex : Fs.Path → Bool) : Overwrite → List Bytes → List Entry → List Entry × Bool
  | _, _, [] => ([], false)
  | pol, ls, e :: es =>
    if asks ex e then
      match askOne pol ls with
      | none => ([], true)
      | some (w, pol', ls') =>
        ((if w then [e] else []) ++ (plan ex pol' ls' es).1, (plan ex pol' ls' es).2)
    else (e :: (plan ex pol ls es).1, (plan ex pol ls es).2)

/-! ### sanity of the specification -/

/-- nothing in the way: everything is written -/
theorem plan_nothing_exists (pol : Overwrite) (ls : List Bytes) (es : List Entry) :
    plan (fun _ => false) pol ls es = (es, false) := by
  induction es generalizing pol ls with
  | nil => rfl
  | cons e es ih =>
    have : asks (fun _ => false) e = false := by cases e <;> rfl
    simp [plan, this, ih]

/-- options `f` / `q`: everything is written, nothing is read from the input -/
theorem plan_all (ex : Fs.Path → Bool) (ls : List Bytes) (es : List Entry) :
    plan ex .all ls es = (es, false) := by
  induction es with
  | nil => rfl
  | cons e es ih => cases h : asks ex e <;> simp [plan, h, askOne, ih]

/-- after "Skip": exactly the entries that are not in conflict are written -/
theorem plan_skip (ex : Fs.Path → Bool) (ls : List Bytes) (es : List Entry) :
    plan ex .skip ls es = (es.filter (fun e => !asks ex e), false) := by
  induction es with
  | nil => rfl
  | cons e es ih => cases h : asks ex e <;> simp [plan, h, askOne, ih]

example : lines [0x6e, 0x0a, 0x79, 0x0a] = [[0x6e], [0x79]] := by decide
example : lines [0x0a, 0x79] = [[]] := by decide      -- an empty line; the unterminated "y" is no line
example : askOne .prompt (lines [0x7a, 0x7a, 0x0a, 0x59, 0x65, 0x73, 0x0a, 0x6e, 0x0a]) =
    some (true, .prompt, [[0x6e]]) := by decide          -- "zz" is asked again, "Yes" overwrites
example : askOne .prompt (lines [0x0a]) = some (false, .prompt, []) := by decide
example : askOne .prompt (lines [0x7a, 0x0a]) = none := by decide

/-! ## the side condition on the input -/

/-- empty, or the last line is complete -/
def Terminated (a : Bytes) : Prop := a = [] ∨ a.getLast? = some 0x0a

instance (a : Bytes) : Decidable (Terminated a) := inferInstanceAs (Decidable (_ ∨ _))

/-- number of unusable lines at the head -/
def junkRun : List Bytes → Nat
  | [] => 0
  | l :: ls => if reply l = .again then junkRun ls + 1 else 0

/-- fewer than 64 consecutive unusable lines anywhere (the model gives up after 64 tries at one
prompt; the tool never does) -/
def JunkOk (ls : List Bytes) : Prop := ∀ k, k ≤ ls.length → junkRun (ls.drop k) < 64

instance (ls : List Bytes) : Decidable (JunkOk ls) :=
  inferInstanceAs (Decidable (∀ k, k ≤ ls.length → junkRun (ls.drop k) < 64))

theorem JunkOk.drop {ls : List Bytes} (h : JunkOk ls) (j : Nat) (hj : j ≤ ls.length) : JunkOk (ls.drop j) := by
  intro k hk
  rw [List.drop_drop]
  apply h
  rw [List.length_drop] at hk
  omega

/-! ## lines, as the model reads them -/

theorem linesGo_line (l rest : Bytes) (hnl : (0x0a : UInt8) ∉ l) (cur : Bytes) :
    linesGo (l ++ 0x0a :: rest) cur = (cur.reverse ++ l) :: linesGo rest [] := by
  induction l generalizing cur with
  | nil => simp [linesGo]
  | cons b l ih =>
    have hb : (b == 0x0a) = false := by
      have : b ≠ 0x0a := fun h => hnl (by simp [h])
      simpa using this
    have hl : (0x0a : UInt8) ∉ l := fun h => hnl (List.mem_cons_of_mem _ h)
    rw [List.cons_append, linesGo, hb]
    simp only [Bool.false_eq_true, if_false]
    rw [ih hl]
    simp

theorem lines_line (l rest : Bytes) (hnl : (0x0a : UInt8) ∉ l) :
    lines (l ++ 0x0a :: rest) = l :: lines rest := by
  unfold lines
  rw [linesGo_line l rest hnl]
  rfl

/-- the model's `readAnswer` on a terminated, non-empty input reads the first line -/
theorem readAnswer_line (a : Bytes) (hT : Terminated a) (hne : a ≠ []) :
    ∃ l rest c, lines a = l :: lines rest ∧ readAnswer a = some (c, rest) ∧ Terminated rest ∧
      ((l = [] ∧ c = 0x0a) ∨ (∃ tl, l = c :: tl ∧ c ≠ 0x0a)) := by
  cases a with
  | nil => exact absurd rfl hne
  | cons b t =>
    have hl : (b :: t).getLast? = some 0x0a := by
      rcases hT with h | h
      · cases h
      · exact h
    have hm : (0x0a : UInt8) ∈ b :: t := List.mem_of_getLast? hl
    obtain ⟨l, rest, e, hnl, _, hdw⟩ := MessagesAgree.split_line (b :: t) hm
    refine ⟨l, rest, b, ?_, ?_, ?_, ?_⟩
    · rw [e]; exact lines_line l rest hnl
    · simp only [readAnswer, hdw]
    · rw [e, List.getLast?_append, List.getLast?_cons] at hl
      cases rest with
      | nil => exact Or.inl rfl
      | cons r rs =>
        right
        cases hg : (r :: rs).getLast? with
        | none => simp at hg
        | some x => rw [hg] at hl; simpa using hl
    · cases l with
      | nil =>
        have : b = 0x0a := by simpa using (List.cons.inj e).1
        exact Or.inl ⟨rfl, this⟩
      | cons b' l' =>
        have hb : b = b' := (List.cons.inj e).1
        subst hb
        exact Or.inr ⟨l', rfl, fun h => hnl (by simp [h])⟩

/-! ## `confirm_file_overwrite` of the model, one line at a time -/

/-- `tolower` on the ASCII letters, as the model writes it -/
def lcOf (c : UInt8) : UInt8 := if 0x41 ≤ c ∧ c ≤ 0x5a then c + 0x20 else c

theorem lc_table : ∀ n, n < 256 →
    (lcOf (UInt8.ofNat n) == 0x79) = (UInt8.ofNat n == 0x79 || UInt8.ofNat n == 0x59) ∧
    (lcOf (UInt8.ofNat n) == 0x6e) = (UInt8.ofNat n == 0x6e || UInt8.ofNat n == 0x4e) ∧
    (lcOf (UInt8.ofNat n) == 0x0a) = (UInt8.ofNat n == 0x0a) ∧
    (lcOf (UInt8.ofNat n) == 0x61) = (UInt8.ofNat n == 0x61 || UInt8.ofNat n == 0x41) ∧
    (lcOf (UInt8.ofNat n) == 0x73) = (UInt8.ofNat n == 0x73 || UInt8.ofNat n == 0x53) := by
  decide +kernel

theorem lc_tests (c : UInt8) :
    (lcOf c == 0x79) = (c == 0x79 || c == 0x59) ∧
    (lcOf c == 0x6e) = (c == 0x6e || c == 0x4e) ∧
    (lcOf c == 0x0a) = (c == 0x0a) ∧
    (lcOf c == 0x61) = (c == 0x61 || c == 0x41) ∧
    (lcOf c == 0x73) = (c == 0x73 || c == 0x53) := by
  have := lc_table c.toNat c.toNat_lt
  rwa [UInt8.ofNat_toNat] at this

/-- what the model makes of a line whose first byte (the newline itself for an empty line) is `c` -/
def replyByte (c : UInt8) : Reply := if c == 0x0a then .no else replyChar c

theorem confirm_step (fuel : Nat) (a : Bytes) (c : UInt8) (rest : Bytes)
    (h : readAnswer a = some (c, rest)) :
    confirmOverwrite (fuel + 1) .prompt a =
      match replyByte c with
      | .yes => some (true, .prompt, rest)
      | .no => some (false, .prompt, rest)
      | .all => some (true, .all, rest)
      | .never => some (false, .skip, rest)
      | .again => confirmOverwrite fuel .prompt rest := by
  obtain ⟨h1, h2, h3, h4, h5⟩ := lc_tests c
  unfold lcOf at h1 h2 h3 h4 h5
  conv => lhs; unfold confirmOverwrite
  simp only [h, h1, h2, h3, h4, h5]
  unfold replyByte replyChar
  by_cases hnl : c = 0x0a
  · subst hnl; simp
  · have hnl' : (c == 0x0a) = false := by simpa using hnl
    simp only [hnl']
    cases (c == 0x79 || c == 0x59) <;> cases (c == 0x6e || c == 0x4e) <;>
      cases (c == 0x61 || c == 0x41) <;> cases (c == 0x73 || c == 0x53) <;> simp

theorem askOne_cons (l : Bytes) (ls : List Bytes) :
    askOne .prompt (l :: ls) =
      match reply l with
      | .yes => some (true, .prompt, ls)
      | .no => some (false, .prompt, ls)
      | .all => some (true, .all, ls)
      | .never => some (false, .skip, ls)
      | .again => askOne .prompt ls := rfl

/-- **the model follows the specification** (policy "prompt"): same decision, same new policy,
and the bytes left are the lines left -/
theorem confirm_follows_prompt : ∀ (ls : List Bytes) (a : Bytes) (fuel : Nat), Terminated a →
    lines a = ls → junkRun ls < fuel →
    (askOne .prompt ls = none → confirmOverwrite fuel .prompt a = none) ∧
    (∀ w pol' ls', askOne .prompt ls = some (w, pol', ls') →
      ∃ a', confirmOverwrite fuel .prompt a = some (w, pol', a') ∧ lines a' = ls' ∧ Terminated a' ∧
        ∃ j, j ≤ ls.length ∧ ls' = ls.drop j) := by
  intro ls
  induction ls with
  | nil =>
    intro a fuel hT hl hf
    obtain ⟨f, rfl⟩ : ∃ f, fuel = f + 1 := ⟨fuel - 1, by omega⟩
    have ha : a = [] := by
      by_cases hne : a = []
      · exact hne
      · obtain ⟨l, rest, c, h1, _⟩ := readAnswer_line a hT hne
        rw [hl] at h1; cases h1
    subst ha
    refine ⟨fun _ => by simp [confirmOverwrite, readAnswer], ?_⟩
    intro w pol' ls' h
    simp [askOne] at h
  | cons l ls1 ih =>
    intro a fuel hT hl hf
    obtain ⟨f, rfl⟩ : ∃ f, fuel = f + 1 := ⟨fuel - 1, by omega⟩
    have hne : a ≠ [] := by
      intro h; subst h; cases hl
    obtain ⟨l', rest, c, h1, h2, h3, h4⟩ := readAnswer_line a hT hne
    rw [hl] at h1
    injection h1 with hll hls
    subst hll
    have hrb : replyByte c = reply l := by
      rcases h4 with ⟨rfl, rfl⟩ | ⟨tl, rfl, hc⟩
      · rfl
      · have : (c == 0x0a) = false := by simpa using hc
        simp [replyByte, reply, this]
    rw [confirm_step f a c rest h2, hrb, askOne_cons]
    cases hr : reply l with
    | yes =>
      exact ⟨fun h => (by cases h), fun w p q h => by
        simp only [Option.some.injEq, Prod.mk.injEq] at h; obtain ⟨rfl, rfl, rfl⟩ := h
        exact ⟨rest, rfl, hls.symm, h3, 1, by simp, rfl⟩⟩
    | no =>
      exact ⟨fun h => (by cases h), fun w p q h => by
        simp only [Option.some.injEq, Prod.mk.injEq] at h; obtain ⟨rfl, rfl, rfl⟩ := h
        exact ⟨rest, rfl, hls.symm, h3, 1, by simp, rfl⟩⟩
    | all =>
      exact ⟨fun h => (by cases h), fun w p q h => by
        simp only [Option.some.injEq, Prod.mk.injEq] at h; obtain ⟨rfl, rfl, rfl⟩ := h
        exact ⟨rest, rfl, hls.symm, h3, 1, by simp, rfl⟩⟩
    | never =>
      exact ⟨fun h => (by cases h), fun w p q h => by
        simp only [Option.some.injEq, Prod.mk.injEq] at h; obtain ⟨rfl, rfl, rfl⟩ := h
        exact ⟨rest, rfl, hls.symm, h3, 1, by simp, rfl⟩⟩
    | again =>
      have hj : junkRun ls1 < f := by
        simp only [junkRun, hr, if_true] at hf
        omega
      obtain ⟨i1, i2⟩ := ih rest f h3 hls.symm hj
      refine ⟨i1, ?_⟩
      intro w p q h
      obtain ⟨a', e1, e2, e3, j, hjl, e4⟩ := i2 w p q h
      exact ⟨a', e1, e2, e3, j + 1, by simp; omega, by simpa using e4⟩

/-! ## the state of policy and input along the run -/

/-- the model's answer bytes `a` and the specification's lines `ls` under the policy `pol` -/
def AnsInv (pol : Overwrite) (a : Bytes) (ls : List Bytes) : Prop :=
  lines a = ls ∧ (pol = .prompt → Terminated a ∧ JunkOk ls)

/-- **`confirm_file_overwrite` of the model follows `askOne`**, any policy -/
theorem confirm_follows_spec (pol : Overwrite) (a : Bytes) (ls : List Bytes) (h : AnsInv pol a ls) :
    (askOne pol ls = none → confirmOverwrite 64 pol a = none) ∧
    (∀ w pol' ls', askOne pol ls = some (w, pol', ls') →
      ∃ a', confirmOverwrite 64 pol a = some (w, pol', a') ∧ AnsInv pol' a' ls') := by
  cases pol with
  | all =>
    refine ⟨fun h' => by simp [askOne] at h', ?_⟩
    intro w p q hq
    simp only [askOne, Option.some.injEq, Prod.mk.injEq] at hq
    obtain ⟨rfl, rfl, rfl⟩ := hq
    exact ⟨a, rfl, h.1, fun h' => by cases h'⟩
  | skip =>
    refine ⟨fun h' => by simp [askOne] at h', ?_⟩
    intro w p q hq
    simp only [askOne, Option.some.injEq, Prod.mk.injEq] at hq
    obtain ⟨rfl, rfl, rfl⟩ := hq
    exact ⟨a, rfl, h.1, fun h' => by cases h'⟩
  | prompt =>
    obtain ⟨hT, hJ⟩ := h.2 rfl
    have hj : junkRun ls < 64 := by simpa using hJ 0 (Nat.zero_le _)
    obtain ⟨i1, i2⟩ := confirm_follows_prompt ls a 64 hT h.1 hj
    refine ⟨i1, ?_⟩
    intro w p q hq
    obtain ⟨a', e1, e2, e3, j, hjl, e4⟩ := i2 w p q hq
    exact ⟨a', e1, e2, fun _ => ⟨e3, by rw [e4]; exact hJ.drop j hjl⟩⟩

end LhasaV.ExtractTree
