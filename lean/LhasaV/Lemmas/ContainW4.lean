import LhasaV.Lemmas.ContainW3
/-!
# C10 with `w=DIR` (part 4): the constructed path `DIR/…`, one archive entry

`file_full_path` with `w=d` gives `d ++ "/" ++ X`, where `X = Xof u h` is the path built from the
header alone.  For a relative, ".."-free, non-empty `d` (`WOpts`) and `ds` a prefix of the
components of `d`:

* `X` relative and ".."-free ⇒ `FnShape ds (d/X) (rest ++ comps X)`;
* `X` ending in ".." ⇒ so does `d/X`, with ".."-free components before;
* `eaf_w_main` / `eaf_w_deferred` / `eaf_w_dd`: `extract_archived_file` on a first-time or
  re-presented entry, on a deferred link, on a member whose name ends in "..".
-/
namespace LhasaV.ContainW
open LhasaV LhasaV.Header LhasaV.Extract LhasaV.GlobFs LhasaV.Contain

/-- the path `file_full_path` builds from the header alone (no `w=`) -/
def Xof (u : Bool) (h : Hdr) : Bytes := fileFullPath h { usePath := u }

theorem fileFullPath_w (h : Hdr) (o : Opts) (d : Bytes) (hx : o.extractPath = some d) :
    fileFullPath h o = d ++ 0x2f :: Xof o.usePath h := by
  unfold Xof fileFullPath
  simp [hx]

/-- what is asked of `DIR`: not empty, relative, no ".." component; `ds`: some first components -/
structure WOpts (d : Bytes) (ds : List Bytes) : Prop where
  ne : d ≠ []
  rel : RelClean d
  pre : ds <+: comps d

theorem WOpts.good {d : Bytes} {ds : List Bytes} (hw : WOpts d ds) : GoodDs ds :=
  fun x hx => comps_good d hw.rel.2 x (hw.pre.subset hx)

theorem head_append_ne (d y : Bytes) (hne : d ≠ []) : (d ++ y).head? = d.head? := by
  cases d with
  | nil => exact absurd rfl hne
  | cons b bs => rfl

theorem last_w (d X : Bytes) :
    (Fs.splitPath (d ++ 0x2f :: X)).getLast? = (Fs.splitPath X).getLast? := by
  rw [split_append, List.getLast?_append]
  cases h : (Fs.splitPath X).getLast? with
  | none => exact absurd (List.getLast?_eq_none_iff.1 h) (split_ne_nil X)
  | some l => rfl

section strings
variable {d : Bytes} {ds : List Bytes}

theorem dirsClean_w (hw : WOpts d ds) (X : Bytes) (hX : DirsClean X) : DirsClean (d ++ 0x2f :: X) := by
  refine ⟨by rw [head_append_ne d _ hw.ne]; exact hw.rel.1, ?_⟩
  intro c hc
  rw [split_append, List.dropLast_append_of_ne_nil (split_ne_nil X)] at hc
  rcases List.mem_append.1 hc with hc | hc
  · exact hw.rel.2 c hc
  · exact hX.2 c hc

theorem relClean_w (hw : WOpts d ds) (X : Bytes) (hX : RelClean X) : RelClean (d ++ 0x2f :: X) := by
  refine ⟨by rw [head_append_ne d _ hw.ne]; exact hw.rel.1, ?_⟩
  intro c hc
  rw [split_append] at hc
  rcases List.mem_append.1 hc with hc | hc
  · exact hw.rel.2 c hc
  · exact hX.2 c hc

theorem pre_w (hw : WOpts d ds) (X : Bytes) : ds <+: comps (d ++ 0x2f :: X) := by
  rw [comps_append]; exact hw.pre.trans (List.prefix_append _ _)

/-- the shape of `d/X` for a relative, ".."-free `X` -/
theorem fnShape_w (hw : WOpts d ds) (X : Bytes) (hX : RelClean X) :
    ∃ cs, FnShape ds (d ++ 0x2f :: X) cs ∧ (cs = [] ↔ comps (d ++ 0x2f :: X) = ds) := by
  obtain ⟨rest, hr⟩ := hw.pre
  refine ⟨rest ++ comps X, ⟨by rw [head_append_ne d _ hw.ne]; exact hw.rel.1, ?_, ?_⟩, ?_⟩
  · rw [comps_append, ← hr, List.append_assoc]
  · intro x hx
    rcases List.mem_append.1 hx with hx | hx
    · exact comps_no_dotdot d hw.rel.2 x (by rw [← hr]; simp [hx])
    · exact comps_no_dotdot X hX.2 x hx
  · rw [comps_append, ← hr, List.append_assoc]
    constructor
    · intro h; rw [h]; simp
    · intro h
      have := congrArg List.length h
      simp only [List.length_append] at this
      exact List.eq_nil_of_length_eq_zero (by simp only [List.length_append]; omega)

/-- the shape of `d/X` for an `X` ending in ".." -/
theorem ddShape_w (hw : WOpts d ds) (X : Bytes) (hX : DotDotLast X) :
    ∃ cs, comps (d ++ 0x2f :: X) = ds ++ (cs ++ [[0x2e, 0x2e]]) ∧ ∀ x ∈ cs, x ≠ [0x2e, 0x2e] := by
  obtain ⟨rest, hr⟩ := hw.pre
  obtain ⟨pre, hpre, hnd⟩ := comps_dd X hX
  refine ⟨rest ++ pre, by rw [comps_append, ← hr, hpre]; simp, ?_⟩
  intro x hx
  rcases List.mem_append.1 hx with hx | hx
  · exact comps_no_dotdot d hw.rel.2 x (by rw [← hr]; simp [hx])
  · exact hnd x hx

end strings

/-! ## the member part `X` of a header that satisfies the C11 invariant -/

theorem X_dirsClean (u : Bool) (h : Hdr) (hf : FnOk h) (hp : PathOk h) : DirsClean (Xof u h) :=
  full_path_dirsClean h { usePath := u } hf hp rfl

theorem X_relClean (u : Bool) (h : Hdr) (hf : FnOk h) (hp : PathOk h) (hn : NND u h) :
    RelClean (Xof u h) :=
  hdrOk_relClean { usePath := u } h rfl ⟨hf, hp, hn⟩

theorem X_dd (u : Bool) (h : Hdr) (hf : FnOk h) (hp : PathOk h) (hn : ¬ NND u h) :
    DotDotLast (Xof u h) :=
  ⟨X_dirsClean u h hf hp, Classical.not_not.1 hn⟩

/-! ## `extract_archived_file` -/

/-- `Contain.eaf_cases`, remembering that the entry is reached only after its parents were made -/
theorem eaf_cases' (s : St) (h : Hdr) :
    ((extractArchivedFile s h).fs = s.fs ∧ (extractArchivedFile s h).rd = s.rd) ∨
    ((extractArchivedFile s h).fs = (parentsOf s (fileFullPath h s.opts)).2 ∧
      (extractArchivedFile s h).rd = s.rd) ∨
    ((parentsOf s (fileFullPath h s.opts)).1 = true ∧
      (extractArchivedFile s h).fs =
        (readerExtract s.rd (parentsOf s (fileFullPath h s.opts)).2 (fileFullPath h s.opts)).2.2 ∧
      (extractArchivedFile s h).rd =
        (readerExtract s.rd (parentsOf s (fileFullPath h s.opts)).2 (fileFullPath h s.opts)).2.1) := by
  rw [eaf_eq]
  split
  · exact Or.inl ⟨rfl, rfl⟩
  · rename_i s' hp
    have := preOf_same s h _ s' hp
    exact Or.inl ⟨this.fs, this.rd⟩
  · rename_i s' hp
    have hsame := preOf_same s h _ s' hp
    split
    · exact Or.inl ⟨hsame.fs, hsame.rd⟩
    · simp only
      rw [parentsOf_same s s' _ hsame]
      split
      · exact Or.inr (Or.inl ⟨rfl, hsame.rd⟩)
      · rename_i hmp
        exact Or.inr (Or.inr ⟨by simpa using hmp, by rw [hsame.rd], by rw [hsame.rd]⟩)

section entry
variable {d : Bytes} {ds : List Bytes} {c : Fs.Path}

theorem parentsOf_w (hw : WOpts d ds) (s : St) (X : Bytes) (hi : InvW c ds s.fs) (hX : DirsClean X) :
    StepW c ds s.fs (parentsOf s (d ++ 0x2f :: X)).2 := by
  unfold parentsOf
  split
  · exact StepW.refl hi
  · exact makeParents_w hw.good hi _ (dirsClean_w hw X hX) (pre_w hw X)

/-- **a first-time entry or a re-presented directory whose name does not end in ".."** -/
theorem eaf_w_main (hw : WOpts d ds) (fs0 : Fs.St) (s : St) (c0 : Reader.HObj)
    (hx : s.opts.extractPath = some d) (hc : StepW c ds fs0 s.fs)
    (hf : FnOk c0.h) (hp : PathOk c0.h) (hn : NND s.opts.usePath c0.h)
    (hnd : s.rd.currType ≠ .deferred) (hcur : s.rd.curr = some c0)
    (hne : s.rd.currType = .normal → (parentsOf s (fileFullPath c0.h s.opts)).1 = true →
      isDirEntry c0.h = true ∨ comps (fileFullPath c0.h s.opts) ≠ ds ∨
        IsDir (parentsOf s (fileFullPath c0.h s.opts)).2 (c ++ ds)) :
    StepW c ds fs0 (extractArchivedFile s c0.h).fs := by
  have hX := X_relClean s.opts.usePath c0.h hf hp hn
  rw [fileFullPath_w c0.h s.opts d hx] at hne
  have hpar := parentsOf_w hw s (Xof s.opts.usePath c0.h) hc.inv hX.dirsClean
  obtain ⟨cs, hshape, hcs⟩ := fnShape_w hw (Xof s.opts.usePath c0.h) hX
  rcases eaf_cases' s c0.h with ⟨h1, _⟩ | ⟨h1, _⟩ | ⟨hmp, h1, _⟩
  · rw [h1]; exact hc
  · rw [h1, fileFullPath_w c0.h s.opts d hx]; exact hc.trans hpar
  · rw [h1, fileFullPath_w c0.h s.opts d hx]
    rw [fileFullPath_w c0.h s.opts d hx] at hmp
    refine hc.trans (hpar.trans (readerExtract_w hw.good s.rd _ _ cs hpar.inv hshape ?_ hnd))
    intro hty
    rcases hne hty hmp with h | h | h
    · left; intro c' hc'
      have : c' = c0 := by
        have h' : some c' = some c0 := hc'.symm.trans hcur
        injection h'
      rw [this]; exact h
    · right; left; exact fun h0 => h (hcs.1 h0)
    · right; right; exact h

/-- **a deferred link whose name does not end in ".."**: no parents are made, the link is created
at the lexical place of its name (`GlobFs.deferred_contained`), which begins with `c ++ ds` -/
theorem eaf_w_deferred (hw : WOpts d ds) (fs0 : Fs.St) (s : St) (c0 : Reader.HObj)
    (hx : s.opts.extractPath = some d) (hl : LogW c ds fs0 s.fs) (hm : DirMono fs0 s.fs)
    (hcwd : s.fs.cwd = c)
    (hf : FnOk c0.h) (hp : PathOk c0.h) (hn : NND s.opts.usePath c0.h)
    (ht : s.rd.currType = .deferred) (hcur : s.rd.curr = some c0) :
    LogW c ds fs0 (extractArchivedFile s c0.h).fs ∧ (extractArchivedFile s c0.h).fs.cwd = c ∧
      (extractArchivedFile s c0.h).rd = s.rd := by
  have hX := X_relClean s.opts.usePath c0.h hf hp hn
  have hfn := relClean_w hw _ hX
  have hpar : (parentsOf s (fileFullPath c0.h s.opts)).2 = s.fs := by
    unfold parentsOf; simp [ht]
  rcases eaf_cases s c0.h with ⟨h1, h2⟩ | ⟨h1, h2⟩ | ⟨h1, h2⟩
  · rw [h1]; exact ⟨hl, hcwd, h2⟩
  · rw [h1, hpar]; exact ⟨hl, hcwd, h2⟩
  · rw [h1, h2, hpar, fileFullPath_w c0.h s.opts d hx]
    obtain ⟨new, e, p⟩ := deferred_contained s.rd s.fs _ c0 ht hcur hfn.1 hfn.2
    refine ⟨hl.trans hm ⟨new, e, ?_⟩, by rw [readerExtract_deferred_cwd s.rd _ _ c0 ht hcur]; exact hcwd,
      readerExtract_deferred_rd s.rd _ _ c0 ht hcur⟩
    intro m hm
    left
    rw [p m hm, hcwd]
    obtain ⟨r, hr⟩ := pre_w hw (Xof s.opts.usePath c0.h)
    rw [← hr, ← List.append_assoc]
    exact List.prefix_append _ _

/-- **a member whose name ends in ".."**: parent directories at most; every creating call of
`lha_reader_extract` fails on an existing directory -/
theorem eaf_w_dd (hw : WOpts d ds) (fs0 : Fs.St) (s : St) (c0 : Reader.HObj)
    (hx : s.opts.extractPath = some d) (hc : StepW c ds fs0 s.fs)
    (hf : FnOk c0.h) (hp : PathOk c0.h) (hn : ¬ NND s.opts.usePath c0.h)
    (hty : s.rd.currType = .normal) :
    StepW c ds fs0 (extractArchivedFile s c0.h).fs ∧
      ((extractArchivedFile s c0.h).rd = s.rd ∨
       (extractArchivedFile s c0.h).rd = (Reader.extract s.rd false).2) := by
  have hX := X_dd s.opts.usePath c0.h hf hp hn
  have hpar := parentsOf_w hw s (Xof s.opts.usePath c0.h) hc.inv hX.1
  obtain ⟨cs, hcomps, hnd⟩ := ddShape_w hw _ hX
  have hrel : (d ++ 0x2f :: Xof s.opts.usePath c0.h).head? ≠ some 0x2f := by
    rw [head_append_ne d _ hw.ne]; exact hw.rel.1
  have htd := toDir_w hw.good hpar.inv _ cs hrel hcomps hnd
  have hre := readerExtract_toDir s.rd _ _ hty htd
  rcases eaf_cases s c0.h with ⟨h1, h2⟩ | ⟨h1, h2⟩ | ⟨h1, h2⟩
  · rw [h1]; exact ⟨hc, Or.inl h2⟩
  · rw [h1, fileFullPath_w c0.h s.opts d hx]; exact ⟨hc.trans hpar, Or.inl h2⟩
  · rw [h1, h2, fileFullPath_w c0.h s.opts d hx, hre.1, hre.2]
    exact ⟨hc.trans hpar, Or.inr rfl⟩

end entry

end LhasaV.ContainW
