import LhasaV.Lemmas.ExtractTree7
/-!
# C06 (part 8): the file-system invariant of the extraction loop

`FsInv fs₀ done stk fs`: `fs` is the empty extraction directory `fs₀` after the entries `done`
were extracted, the directories with paths `stk` being still open: every done entry is at its
place in its final form — an open directory in its provisional form (private mode, time `now`) —,
there is nothing else below the extraction directory, and nothing outside it has changed.
-/
namespace LhasaV.ExtractTree
open LhasaV LhasaV.Header LhasaV.Extract LhasaV.GlobFs LhasaV.Contain

/-- the user may search and write a directory created with mode 0700 or 0777 under `umask` -/
def OwnerRWX (umask : Nat) : Prop :=
  ∀ b, b = 0o700 ∨ b = 0o777 →
    (b - (b &&& umask)) / 64 % 2 = 1 ∧ (b - (b &&& umask)) / 128 % 2 = 1

/-- root, or a user whose umask leaves the owner bits alone -/
def Access (fs0 : Fs.St) : Prop := fs0.root = true ∨ OwnerRWX fs0.umask

theorem ownerRWX_022 : OwnerRWX 0o022 := by
  intro b hb
  rcases hb with rfl | rfl <;> decide

structure FsInv (fs0 : Fs.St) (done : List Entry) (stk : List Fs.Path) (fs : Fs.St) : Prop where
  params : SameParams fs0 fs
  ents : ∀ e ∈ done, Fs.lookup fs (fs0.cwd ++ e.path) =
    some (if e.path ∈ stk then e.opened fs0.now fs0.umask else e.final fs0.now fs0.umask)
  none : ∀ p, p ≠ [] → (∀ e ∈ done, e.path ≠ p) → Fs.lookup fs (fs0.cwd ++ p) = none
  cwd : ∃ m t, Fs.lookup fs fs0.cwd = some (.dir m t) ∧
    (fs0.root = true ∨ (m / 64 % 2 = 1 ∧ m / 128 % 2 = 1)) ∧ (done ≠ [] → fs0.cwd ≠ [] → t = fs0.now)
  outside : ∀ x, ¬ fs0.cwd <+: x → Fs.lookup fs x = Fs.lookup fs0 x

/-- book-keeping about the entries done and the open directories (as entries, innermost first) -/
structure DoneOk (done stk : List Entry) : Prop where
  ok : ∀ e ∈ done, EntryOk e
  nodup : (done.map Entry.path).Nodup
  sub : ∀ d ∈ stk, d ∈ done ∧ d.isDir = true
  chain : Chain (stk.map Entry.path)
  snodup : (stk.map Entry.path).Nodup

/-! ## open directories can be walked through and written -/

theorem opened_dir (d : Entry) (hd : d.isDir = true) (now umask : Nat) :
    ∃ b, (b = 0o700 ∨ b = 0o777) ∧ d.opened now umask = .dir (b - (b &&& umask)) now := by
  cases d with
  | dir p perms mtime =>
    cases perms with
    | none => exact ⟨0o777, Or.inr rfl, rfl⟩
    | some x => exact ⟨0o700, Or.inl rfl, rfl⟩
  | file _ _ _ _ => cases hd
  | link _ _ => cases hd

/-- an open directory on the stack: a directory with the time `now` that the user may search
and write -/
theorem open_lookup {fs0 fs : Fs.St} {done stk : List Entry} (hi : FsInv fs0 done (stk.map Entry.path) fs)
    (hd : DoneOk done stk) (ha : Access fs0) (p : Fs.Path) (hp : p ∈ stk.map Entry.path) :
    ∃ m, Fs.lookup fs (fs0.cwd ++ p) = some (.dir m fs0.now) ∧
      (fs0.root = true ∨ (m / 64 % 2 = 1 ∧ m / 128 % 2 = 1)) := by
  obtain ⟨d, hds, rfl⟩ := List.mem_map.1 hp
  obtain ⟨hdd, hdir⟩ := hd.sub d hds
  have hl := hi.ents d hdd
  rw [if_pos hp] at hl
  obtain ⟨b, hb, ho⟩ := opened_dir d hdir fs0.now fs0.umask
  rw [ho] at hl
  refine ⟨_, hl, ?_⟩
  rcases ha with ha | ha
  · exact Or.inl ha
  · exact Or.inr (ha b hb)

theorem pre_mem_of_parent {stkp : List Fs.Path} (hc : Chain stkp) (path : Fs.Path)
    (hpar : stkp.head?.getD [] = path.dropLast) :
    ∀ pre, pre ≠ [] → pre <+: path → pre ≠ path → pre ∈ stkp := by
  intro pre h0 hp hne
  have h1 := prefix_dropLast pre path hp hne
  rw [← hpar] at h1
  exact hc.prefix_mem _ pre h0 h1

/-- **the directories above an entry exist**: every proper, non-empty prefix of its path is an
open directory -/
theorem walk_of_inv {fs0 fs : Fs.St} {done stk : List Entry}
    (hi : FsInv fs0 done (stk.map Entry.path) fs) (hd : DoneOk done stk) (ha : Access fs0)
    (path : Fs.Path)
    (hpre : ∀ pre, pre ≠ [] → pre <+: path → pre ≠ path → pre ∈ stk.map Entry.path) :
    Walk fs fs0.cwd path := by
  intro pre hp hne
  by_cases h0 : pre = []
  · subst h0
    obtain ⟨m, t, hl, hacc, _⟩ := hi.cwd
    refine ⟨m, t, by simpa using hl, ?_⟩
    rw [hi.params.root]
    rcases hacc with h | h
    · exact Or.inl h
    · exact Or.inr h.1
  · have hm := hpre pre h0 hp hne
    obtain ⟨m, hl, hacc⟩ := open_lookup hi hd ha pre hm
    refine ⟨m, fs0.now, hl, ?_⟩
    rw [hi.params.root]
    rcases hacc with h | h
    · exact Or.inl h
    · exact Or.inr h.1

/-- the parent of a new entry is writable, and (unless it is the extraction directory) already
carries the time `now` -/
theorem parent_of_inv {fs0 fs : Fs.St} {done stk : List Entry}
    (hi : FsInv fs0 done (stk.map Entry.path) fs) (hd : DoneOk done stk) (ha : Access fs0)
    (path : Fs.Path) (hne : path ≠ []) (hpar : (stk.map Entry.path).head?.getD [] = path.dropLast) :
    Fs.canModify fs (fs0.cwd ++ path).dropLast = true ∧
    (path.dropLast ≠ [] → done ≠ [] ∧
      ∃ m, Fs.lookup fs (fs0.cwd ++ path.dropLast) = some (.dir m fs0.now)) := by
  rw [List.dropLast_append_of_ne_nil hne]
  by_cases h0 : path.dropLast = []
  · rw [h0]
    obtain ⟨m, t, hl, hacc, _⟩ := hi.cwd
    refine ⟨?_, fun h => absurd rfl h⟩
    unfold Fs.canModify
    rw [List.append_nil, hl, hi.params.root]
    rcases hacc with h | h
    · simp [h]
    · simp [h.1, h.2]
  · have hm : path.dropLast ∈ stk.map Entry.path := by
      cases hs : stk.map Entry.path with
      | nil => rw [hs] at hpar; exact absurd hpar.symm h0
      | cons t rest => rw [hs] at hpar; simp at hpar; rw [← hpar]; simp
    obtain ⟨m, hl, hacc⟩ := open_lookup hi hd ha _ hm
    refine ⟨?_, fun _ => ⟨?_, m, hl⟩⟩
    · unfold Fs.canModify
      rw [hl, hi.params.root]
      rcases hacc with h | h
      · simp [h]
      · simp [h.1, h.2]
    · obtain ⟨d, hds, _⟩ := List.mem_map.1 hm
      exact List.ne_nil_of_mem (hd.sub d hds).1

/-! ## the invariant after a creation -/

theorem append_ne_of_ne {cwd a b : Fs.Path} (h : a ≠ b) : cwd ++ a ≠ cwd ++ b :=
  fun e => h (List.append_cancel_left e)

theorem cwd_ne_append {cwd p : Fs.Path} (h : p ≠ []) : cwd ≠ cwd ++ p := by
  intro e
  have := congrArg List.length e
  rw [List.length_append] at this
  have : 0 < p.length := List.length_pos_iff.2 h
  omega

/-- **a new entry**: `fs'` is `fs` with the new object at the entry's path and the parent
stamped; the parent is the extraction directory or a directory that already carries `now` -/
theorem FsInv.create {fs0 fs fs' : Fs.St} {done : List Entry} {stk stk' : List Fs.Path} {e : Entry}
    (hi : FsInv fs0 done stk fs) (hne : e.path ≠ []) (hok : ∀ e' ∈ done, e'.path ≠ [])
    (hnew : ∀ e' ∈ done, e'.path ≠ e.path)
    (hc : Created fs fs' (fs0.cwd ++ e.path)
      (if e.path ∈ stk' then e.opened fs0.now fs0.umask else e.final fs0.now fs0.umask))
    (hstk : ∀ p, p ≠ e.path → (p ∈ stk' ↔ p ∈ stk))
    (hpar : e.path.dropLast ≠ [] → done ≠ [] ∧
      ∃ m, Fs.lookup fs (fs0.cwd ++ e.path.dropLast) = some (.dir m fs0.now)) :
    FsInv fs0 (done ++ [e]) stk' fs' := by
  have hq : (fs0.cwd ++ e.path).dropLast = fs0.cwd ++ e.path.dropLast :=
    List.dropLast_append_of_ne_nil hne
  have hnow : fs.now = fs0.now := hi.params.now
  -- every place below the extraction directory other than the new one is as before
  have hsame : ∀ p, p ≠ [] → p ≠ e.path → Fs.lookup fs' (fs0.cwd ++ p) = Fs.lookup fs (fs0.cwd ++ p) := by
    intro p hp0 hpe
    by_cases hpp : p = e.path.dropLast
    · subst hpp
      obtain ⟨_, m, hl⟩ := hpar hp0
      have := hc.parent m fs0.now (by rw [hq]; exact hl)
        (by rw [hq]; exact fun h => hp0 (List.append_eq_nil_iff.1 h).2)
      rw [hq, hnow] at this
      rw [this, hl]
    · exact hc.frame _ (append_ne_of_ne hpe) (by rw [hq]; exact append_ne_of_ne hpp)
  refine ⟨hi.params.trans hc.params, ?_, ?_, ?_, ?_⟩
  · intro e' he'
    rcases List.mem_append.1 he' with he' | he'
    · have hpe := hnew e' he'
      rw [hsame e'.path (hok e' he') hpe, hi.ents e' he']
      simp only [hstk _ hpe]
    · have : e' = e := by simpa using he'
      subst this
      exact hc.self
  · intro p hp0 hall
    have hpe : p ≠ e.path := fun h => hall e (by simp) h.symm
    rw [hsame p hp0 hpe]
    exact hi.none p hp0 (fun e' he' => hall e' (List.mem_append_left _ he'))
  · obtain ⟨m, t, hl, hacc, ht⟩ := hi.cwd
    by_cases h0 : e.path.dropLast = []
    · rw [h0, List.append_nil] at hq
      by_cases hc0 : fs0.cwd = []
      · refine ⟨m, t, ?_, hacc, fun _ h => absurd hc0 h⟩
        rw [hc0] at hl ⊢
        rw [lookup_nil] at hl ⊢
        exact hl
      · refine ⟨m, fs0.now, ?_, hacc, fun _ _ => rfl⟩
        have := hc.parent m t (by rw [hq]; exact hl) (by rw [hq]; exact hc0)
        rw [hq, hnow] at this
        exact this
    · refine ⟨m, t, ?_, hacc, fun _ h => ht (hpar h0).1 h⟩
      rw [hc.frame _ (cwd_ne_append hne) (by rw [hq]; exact cwd_ne_append h0)]
      exact hl
  · intro x hx
    rw [hc.frame x (fun h => hx (h ▸ List.prefix_append _ _))
      (fun h => hx (by rw [h, hq]; exact List.prefix_append _ _))]
    exact hi.outside x hx

/-! ## the invariant after the metadata step of the innermost open directory -/

theorem FsInv.close {fs0 fs fs' : Fs.St} {done : List Entry} {t : Fs.Path} {stk : List Fs.Path}
    {d : Entry} (hi : FsInv fs0 done (t :: stk) fs) (hd : d ∈ done) (hdt : d.path = t)
    (hne : t ≠ []) (hts : t ∉ stk) (huniq : ∀ e' ∈ done, e'.path = t → e' = d)
    (hc : Touched fs fs' (fs0.cwd ++ t) (d.final fs0.now fs0.umask)) :
    FsInv fs0 done stk fs' := by
  refine ⟨hi.params.trans hc.params, ?_, ?_, ?_, ?_⟩
  · intro e' he'
    by_cases hpe : e'.path = t
    · have := huniq e' he' hpe
      subst this
      rw [hpe, if_neg hts, hc.self]
    · rw [hc.frame _ (append_ne_of_ne hpe), hi.ents e' he']
      simp only [List.mem_cons, hpe, false_or]
  · intro p hp0 hall
    have hpt : p ≠ t := fun h => hall d hd (hdt.trans h.symm)
    rw [hc.frame _ (append_ne_of_ne hpt)]
    exact hi.none p hp0 hall
  · obtain ⟨m, t', hl, hacc, ht⟩ := hi.cwd
    refine ⟨m, t', ?_, hacc, ht⟩
    rw [hc.frame _ (cwd_ne_append hne)]
    exact hl
  · intro x hx
    rw [hc.frame x (fun h => hx (h ▸ List.prefix_append _ _))]
    exact hi.outside x hx

theorem eq_of_path_eq : ∀ (l : List Entry), (l.map Entry.path).Nodup → ∀ a ∈ l, ∀ b ∈ l,
    a.path = b.path → a = b := by
  intro l
  induction l with
  | nil => intro _ a ha; cases ha
  | cons x l ih =>
    intro hn a ha b hb hab
    rw [List.map_cons, List.nodup_cons] at hn
    rcases List.mem_cons.1 ha with h1 | h1
    · rcases List.mem_cons.1 hb with h2 | h2
      · rw [h1, h2]
      · subst h1
        exact absurd (List.mem_map.2 ⟨b, h2, hab.symm⟩) hn.1
    · rcases List.mem_cons.1 hb with h2 | h2
      · subst h2
        exact absurd (List.mem_map.2 ⟨a, h1, hab⟩) hn.1
      · exact ih hn.2 a h1 b h2 hab

end LhasaV.ExtractTree
