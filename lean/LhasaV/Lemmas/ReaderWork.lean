import LhasaV.Lemmas.ReaderLedger
import LhasaV.Lemmas.StreamProps
/-!
# C13 for the readers: one `next` does work linear in the bytes present

The ghost counters of the stream model: `reads` = requests made to the byte source,
`moved` = bytes pulled from it.  With `A = data.size − pos` (the bytes still present):

* `basicNext` (skip the rest of the member, run the start-of-stream scan if it has not run, parse
  one header) makes at most `A/32 + (A+11)/12 + 4` requests and pulls at most `A` bytes —
  whatever the header declares (`remaining` does not occur in the bound).
* `Reader.next` adds the accounting of what the open decoder consumed.

In this model the header parser works on the list `Stream.rest` and the bytes it used are charged
by `Stream.advance` with ONE source request (the C parser issues one `fread` per header part; the
number of parts is bounded by the bytes consumed, each extended header taking ≥ 3 bytes — that
refinement is below the granularity of the model).
-/
set_option linter.unusedSimpArgs false
namespace LhasaV.ReaderIndep
open LhasaV LhasaV.Reader

/-- bytes still present in the source -/
def avail (s : Stream.St) : Nat := s.data.size - s.pos

/-- the cost of a stream operation `s ↦ s'`: at most `r` requests; the bytes pulled come out of
the bytes present (`moved` grows by no more than `avail` shrinks); counters never decrease -/
structure Cost (s s' : Stream.St) (r : Nat) : Prop where
  data : s'.data = s.data
  readsLe : s.reads ≤ s'.reads
  reads : s'.reads ≤ s.reads + r
  movedLe : s.moved ≤ s'.moved
  moved : (s'.moved - s.moved) + avail s' ≤ avail s

theorem Cost.refl (s : Stream.St) : Cost s s 0 :=
  ⟨rfl, Nat.le_refl _, Nat.le_refl _, Nat.le_refl _, by omega⟩

theorem Cost.trans {a b c : Stream.St} {r1 r2 : Nat} (h1 : Cost a b r1) (h2 : Cost b c r2) :
    Cost a c (r1 + r2) := by
  obtain ⟨d1, a1, b1, c1, e1⟩ := h1
  obtain ⟨d2, a2, b2, c2, e2⟩ := h2
  exact ⟨d2.trans d1, by omega, by omega, by omega, by omega⟩

theorem Cost.mono {a b : Stream.St} {r r' : Nat} (h : Cost a b r) (hr : r ≤ r') : Cost a b r' :=
  ⟨h.data, h.readsLe, by have := h.reads; omega, h.movedLe, h.moved⟩

theorem Cost.avail_le {a b : Stream.St} {r : Nat} (h : Cost a b r) : avail b ≤ avail a := by
  have := h.moved; omega

/-- skipping `n` bytes: at most `avail/32 + 1` requests, whatever `n` is -/
theorem skip_cost (s : Stream.St) (n : Nat) : Cost s (Stream.skip s n).2 (avail s / 32 + 1) := by
  unfold Stream.skip
  cases hk : s.kind <;> simp only [] <;> (try split) <;>
    exact ⟨rfl, by simp only []; omega, by simp only [avail]; omega, by simp only []; omega,
      by simp only [avail]; omega⟩

/-- the start-of-stream scan -/
theorem start_cost (s s' : Stream.St) (hl : s.leadin.length ≤ 24) (h : Stream.start s = .ok s') :
    Cost s s' ((avail s + 11) / 12 + 2) := by
  obtain ⟨a1, _, a3, a4, a5⟩ := Stream.start_bounds s s' hl h
  have hr := Stream.start_reads s s' hl h
  obtain ⟨_, _, _, hd, _⟩ := Stream.start_ok s hl
  have hd' : s'.data = s.data := by
    obtain ⟨s1, e, _, hd1, _⟩ := Stream.start_ok s hl
    rw [h] at e; cases e; exact hd1
  exact ⟨hd', a1, by simp only [avail]; omega, a3, by simp only [avail]; rw [hd']; omega⟩

/-- charging the bytes a header parse used -/
theorem advance_cost (s : Stream.St) (k : Nat) : Cost s (Stream.advance s k) 1 := by
  unfold Stream.advance
  refine ⟨rfl, by simp only []; omega, ?_, by simp only []; omega, by simp only [avail]; omega⟩
  simp only []; split <;> omega

/-- the parse half of `basicNext` -/
theorem nextTail_cost (mk : Nat → Nat) (b b' : Basic) (led led' : Ledger)
    (hl : b.stream.leadin.length ≤ 24) (e : Stream.nextTail mk b led = .ok (b', led')) :
    Cost b.stream b'.stream ((avail b.stream + 11) / 12 + 3) := by
  unfold Stream.nextTail at e
  split at e
  · cases e; exact (Cost.refl _).mono (by omega)
  · obtain ⟨st, es, _⟩ := Stream.start_ok b.stream hl
    have hc := start_cost b.stream st hl es
    rw [es] at e
    simp only [Res.ok_bind] at e
    split at e
    · cases e; exact hc.mono (by omega)
    · split at e
      · cases e
      · cases e; exact hc.mono (by omega)
      · cases e
        exact hc.trans (advance_cost st _)

/-- **`lha_basic_reader_next_file` does work linear in the bytes present.**  With
`A = data.size − pos`: at most `A/32 + (A+11)/12 + 4` source requests, at most `A` bytes pulled
(`moved' − moved + A' ≤ A`), independent of the length the current header declares. -/
theorem basicNext_cost (mk : Nat → Nat) (b b' : Basic) (led led' : Ledger) (wf : Stream.WF b)
    (e : basicNext mk b led = .ok (b', led')) :
    Cost b.stream b'.stream (avail b.stream / 32 + (avail b.stream + 11) / 12 + 4) := by
  rw [Stream.basicNext_eq] at e
  have h1 : Cost b.stream (Stream.afterSkip b led).1.stream (avail b.stream / 32 + 1) ∧
      (Stream.afterSkip b led).1.stream.leadin.length ≤ 24 := by
    unfold Stream.afterSkip
    split
    · exact ⟨skip_cost _ _, by simp only [(Stream.skip_frame _ _).2.2.2]; exact wf.1⟩
    · exact ⟨(Cost.refl _).mono (by omega), wf.1⟩
  have h2 := nextTail_cost mk _ b' _ led' h1.2 e
  have ha := h1.1.avail_le
  refine (h1.1.trans h2).mono ?_
  have : (avail (Stream.afterSkip b led).1.stream + 11) / 12 ≤ (avail b.stream + 11) / 12 :=
    Nat.div_le_div_right (by omega)
  omega

/-- what `closeDecoder` charges: the bytes the decoder took from the member -/
def closeTake (s : St) : Nat :=
  match s.dec with
  | some o => min o.consumed.1 s.basic.remaining
  | none => 0

theorem closeTake_le (s : St) : closeTake s ≤ s.basic.remaining := by
  unfold closeTake; split <;> omega

theorem closeDecoder_stream (s : St) :
    (closeDecoder s).basic.stream.data = s.basic.stream.data ∧
    (closeDecoder s).basic.stream.reads = s.basic.stream.reads ∧
    (closeDecoder s).basic.stream.moved = s.basic.stream.moved + closeTake s ∧
    (closeDecoder s).basic.stream.pos = s.basic.stream.pos + closeTake s := by
  cases h : s.dec with
  | none => simp [closeDecoder, closeTake, h]
  | some o => simp [closeDecoder, closeTake, h]

/-- **`next_work_bounded`.**  One `lha_reader_next_file` on a reader whose lead-in invariant holds
(every state reachable from a fresh reader): with `A` = bytes present in the source,
* at most `A/32 + (A+11)/12 + 4` source requests are made — none depends on declared sizes;
* `moved` grows by at most `A` plus the bytes `closeDecoder` accounts for the decoder that was
  open (`closeTake s ≤ remaining`; `0` when no decoder is open);
* the counters never decrease and the data is untouched. -/
theorem next_work_bounded (s s' : St) (r : Option HObj) (wf : Stream.WF s.basic)
    (e : next s = .ok (r, s')) :
    s'.basic.stream.data = s.basic.stream.data ∧
    s.basic.stream.reads ≤ s'.basic.stream.reads ∧
    s'.basic.stream.reads - s.basic.stream.reads ≤
      avail s.basic.stream / 32 + (avail s.basic.stream + 11) / 12 + 4 ∧
    s.basic.stream.moved ≤ s'.basic.stream.moved ∧
    s'.basic.stream.moved - s.basic.stream.moved ≤ avail s.basic.stream + closeTake s := by
  obtain ⟨c1, c2, c3, c4⟩ := closeDecoder_stream s
  have wf0 := Stream.wf_closeDecoder s wf
  have hav : avail (closeDecoder s).basic.stream ≤ avail s.basic.stream := by
    unfold avail; rw [c1, c4]; omega
  -- cost from the closed state to the result
  have key : ∃ n, Cost (closeDecoder s).basic.stream s'.basic.stream n ∧
      n ≤ avail s.basic.stream / 32 + (avail s.basic.stream + 11) / 12 + 4 := by
    rw [next_eq] at e
    split at e
    · cases e; exact ⟨0, Cost.refl _, by omega⟩
    · cases ha : nextAdv (closeDecoder s) with
      | error w => rw [ha] at e; cases e
      | ok s1 =>
        rw [ha] at e
        simp only [bind, Except.bind, Except.ok.injEq, Prod.mk.injEq] at e
        obtain ⟨-, rfl⟩ := e
        rw [nextDeferred_basic, nextPop_basic, nextUnref_basic]
        by_cases hs : (closeDecoder s).currType = .start ∨ (closeDecoder s).currType = .normal
        · obtain ⟨x, hx, rfl⟩ := nextAdv_stream hs ha
          refine ⟨_, basicNext_cost _ _ x.1 _ x.2 wf0 hx, ?_⟩
          have : (avail (closeDecoder s).basic.stream + 11) / 12 ≤ (avail s.basic.stream + 11) / 12 :=
            Nat.div_le_div_right (by omega)
          have : avail (closeDecoder s).basic.stream / 32 ≤ avail s.basic.stream / 32 :=
            Nat.div_le_div_right hav
          omega
        · rw [nextAdv_fake hs] at ha
          cases ha
          exact ⟨0, Cost.refl _, by omega⟩
  obtain ⟨n, hc, hn⟩ := key
  obtain ⟨d1, a1, b1, m1, e1⟩ := hc
  rw [c2] at a1 b1
  rw [c3] at m1 e1
  exact ⟨d1.trans c1, a1, by omega, by omega, by omega⟩

/-- with no decoder open the bound is the bytes present -/
theorem next_work_bounded_closed (s s' : St) (r : Option HObj) (wf : Stream.WF s.basic)
    (hd : s.dec = none) (e : next s = .ok (r, s')) :
    s'.basic.stream.reads - s.basic.stream.reads ≤
      avail s.basic.stream / 32 + (avail s.basic.stream + 11) / 12 + 4 ∧
    s'.basic.stream.moved - s.basic.stream.moved ≤ avail s.basic.stream := by
  obtain ⟨_, _, h3, _, h5⟩ := next_work_bounded s s' r wf e
  have : closeTake s = 0 := by unfold closeTake; rw [hd]
  exact ⟨h3, by omega⟩

end LhasaV.ReaderIndep
