import LhasaV.Lemmas.ExtractTree8
/-!
# C06 (part 9): `extract_archived_file` on one entry of a well-formed archive
-/
namespace LhasaV.ExtractTree
open LhasaV LhasaV.Header LhasaV.Extract LhasaV.GlobFs LhasaV.Contain

/-- the options of `lha x archive`: no `w=`, paths used, no wildcard arguments -/
structure OptsOk (o : Opts) : Prop where
  xp : o.extractPath = none
  up : o.usePath = true
  nf : o.filters = []

/-! ## `extract_archived_file` when nothing is in the way -/

theorem preOf_pass (s : St) (h : Hdr)
    (hex : isDirEntry h = true ∨ Fs.existsKind s.fs (fileFullPath h s.opts) = .none) :
    preOf s h = some (false, s) := by
  unfold preOf
  split
  · rename_i hc
    rcases hex with hd | hex
    · rw [hd] at hc; simp at hc
    · rw [hex]
  · rfl

theorem eaf_run (s : St) (h : Hdr) (hu : s.opts.usePath = true)
    (hex : isDirEntry h = true ∨ Fs.existsKind s.fs (fileFullPath h s.opts) = .none)
    (hpar : parentsOf s (fileFullPath h s.opts) = (true, s.fs)) :
    extractArchivedFile s h =
      { s with rd := (readerExtract s.rd s.fs (fileFullPath h s.opts)).2.1,
               fs := (readerExtract s.rd s.fs (fileFullPath h s.opts)).2.2,
               result := s.result && (readerExtract s.rd s.fs (fileFullPath h s.opts)).1,
               out := (if (readerExtract s.rd s.fs (fileFullPath h s.opts)).1 then "ok" else "failed") :: s.out } := by
  rw [eaf_eq, preOf_pass s h hex]
  simp only [hu, Bool.not_true, Bool.false_eq_true, false_and, if_false, hpar]

/-! ## the three kinds of new entries -/

/-- what the reader keeps: policy, deferred links, kind of the current entry -/
structure RdKept (rd rd' : Reader.St) : Prop where
  policy : rd'.policy = rd.policy
  deferred : rd'.deferred = rd.deferred
  currType : rd'.currType = rd.currType
  bcurr : rd'.basic.curr = rd.basic.curr

theorem RdKept.of_frame {rd rd' : Reader.St} (f : Reader.Frame rd rd') : RdKept rd rd' :=
  ⟨f.policy, f.deferred, f.currType, f.bcurr⟩

theorem final_file_mode (h : Hdr) (perms : Option Nat) (umask : Nat) (hp : permsOf h = perms) :
    (if hasFlag h Gen.flagUnixPerms then h.unixPerms % 4096 else 0o600 - (0o600 &&& umask)) =
    fileMode umask perms := by
  unfold permsOf at hp
  by_cases hf : hasFlag h Gen.flagUnixPerms = true
  · rw [if_pos hf] at hp; subst hp; simp [hf, fileMode]
  · rw [if_neg hf] at hp; subst hp; simp [hf, fileMode]

theorem opened_dir_mode (h : Hdr) (perms : Option Nat) (umask : Nat) (hp : permsOf h = perms) :
    (if hasFlag h Gen.flagUnixPerms then 0o700 - (0o700 &&& umask) else 0o777 - (0o777 &&& umask)) =
    openMode umask perms := by
  unfold permsOf at hp
  by_cases hf : hasFlag h Gen.flagUnixPerms = true
  · rw [if_pos hf] at hp; subst hp; simp [hf, openMode]
  · rw [if_neg hf] at hp; subst hp; simp [hf, openMode]

/-- **one new entry** of any kind, at a `Target` that does not exist yet, in a writable parent:
`lha_reader_extract` succeeds, creates the entry in its provisional form (final for files and
links), and a directory is pushed on the reader's stack -/
theorem entry_created (rd : Reader.St) (fs : Fs.St) (fn : Bytes) (c : Reader.HObj) (e : Entry)
    (hty : rd.currType = .normal) (hcur : rd.curr = some c) (hpol : rd.policy = .endOfDir)
    (hh : HdrOf e c.h) (hk : EntryOk e)
    (hT : Target fs fn e.path) (hnone : Fs.lookup fs (fs.cwd ++ e.path) = none)
    (hmod : Fs.canModify fs (fs.cwd ++ e.path).dropLast = true)
    (hdec : ∀ p data perms mtime, e = .file p data perms mtime →
      (Reader.openDecoder rd).1 = true ∧ (Reader.extract rd true).1 = (true, data)) :
    (readerExtract rd fs fn).1 = true ∧
    RdKept rd (readerExtract rd fs fn).2.1 ∧
    (readerExtract rd fs fn).2.1.dirStack = (if e.isDir then c :: rd.dirStack else rd.dirStack) ∧
    Created fs (readerExtract rd fs fn).2.2 (fs.cwd ++ e.path) (e.opened fs.now fs.umask) := by
  cases e with
  | dir p perms mtime =>
    obtain ⟨_, _, hm, hs, hpm, _⟩ := hh
    obtain ⟨h1, h2, h3⟩ := extract_dir_effect rd fs fn p c hty hcur hm hs hpol hT hnone hmod
    refine ⟨h1, ?_, ?_, ?_⟩
    · rw [h2]; exact ⟨rfl, rfl, rfl, rfl⟩
    · rw [h2]; rfl
    · rw [opened_dir_mode c.h perms fs.umask hpm] at h3
      exact h3
  | file p data perms mtime =>
    obtain ⟨_, _, hm, hs, hpm, htm⟩ := hh
    obtain ⟨ho, hv⟩ := hdec p data perms mtime rfl
    have hv1 : (Reader.extract rd true).1.1 = true := by rw [hv]
    have hv2 : (Reader.extract rd true).1.2 = data := by rw [hv]
    obtain ⟨h1, h2, h3⟩ := extract_file_effect rd fs fn p c hty hcur hm ho hv1 hT hnone hmod
    refine ⟨h1, ?_, ?_, ?_⟩
    · rw [h2]; exact RdKept.of_frame (extract_file_frame rd true c hty hcur hm)
    · rw [h2]; exact (extract_file_frame rd true c hty hcur hm).dirStack
    · rw [hv2, final_file_mode c.h perms fs.umask hpm, htm] at h3
      exact h3
  | link p tg =>
    obtain ⟨_, _, hm, hs⟩ := hh
    have hsafe : Reader.isDangerous c.h = false :=
      (not_dangerous_iff c.h tg hs).2 (hk.safe p tg rfl)
    obtain ⟨h1, h2, h3⟩ := extract_link_effect rd fs fn p c hty hcur hm tg hs hsafe hT hnone hmod
    refine ⟨h1, ?_, ?_, h3⟩
    · rw [h2]; exact ⟨rfl, rfl, rfl, rfl⟩
    · rw [h2]; rfl

theorem isDirEntry_of {e : Entry} {h : Hdr} (hh : HdrOf e h) (hd : e.isDir = true) :
    isDirEntry h = true := by
  cases e with
  | dir p perms mtime =>
    obtain ⟨_, _, hm, hs, _, _⟩ := hh
    unfold isDirEntry
    rw [hm, hs]
    simp only [beq_self_eq_true, Option.isNone_none, Bool.and_self]
  | file _ _ _ _ => cases hd
  | link _ _ => cases hd

end LhasaV.ExtractTree
