import LhasaV.Lemmas.ArchiveOs2
import LhasaV.Lemmas.HeaderName
/-!
# C06, archives as bytes, any OS type (part 3): the typed fields with an OS-type parameter

`fieldsOs os pk e` are `ArchiveOf.fieldsOf pk e` with the OS-type byte `os` instead of 'U'.
What the OS type changes in `lha_file_header_read`:

* OS types 0, 'M', 'a', ' ', '2' are "MS-DOS like": `fix_msdos_allcaps` folds the WHOLE name to
  lower case when path and file name contain no lower-case letter.  `CaseStable e` (decidable) is
  the condition under which nothing is folded: the full path has a lower-case letter, or no
  upper-case letter;
* OS type ' ' with a level-1 header and method `-lh7-` is LHark: the method is renamed to `-lk7-`
  (`presented`);
* 'K' (OS-9/68k: two extra bytes, permission mapping) and 'm' (MacBinary-wrapped members) are
  excluded (`OsOk`).

Here: `post_simple` — the second half of the normalisation stage on a header without OS-9
permissions and common CRC; `fieldsOs_wf`; `encode_shapeOs`.
-/
set_option linter.unusedSimpArgs false
namespace LhasaV.ArchiveOs
open LhasaV LhasaV.Header LhasaV.Extract LhasaV.GlobFs LhasaV.Contain LhasaV.ExtractTree
open LhasaV.ExtractTree.Sample LhasaV.Spec.HeaderEnc LhasaV.ArchiveOf

abbrev lh7M : Bytes := ArchivePack.lh7M
abbrev lk7M : Bytes := ArchivePack.lk7M

theorem lh7M_eq : "-lh7-".toUTF8.toList = lh7M := by decide +kernel
theorem lk7M_eq : "-lk7-".toUTF8.toList = lk7M := by decide +kernel

/-- **the method name the parser presents**: LHark's `-lh7-` (level 1, OS type ' ') is `-lk7-` -/
def presented (level os : Nat) (m : Bytes) : Bytes :=
  if level = 1 ∧ os = 0x20 ∧ m = lh7M then lk7M else m

theorem presented_ne_lhd {level os : Nat} {m : Bytes} (h : m ≠ lhdM) : presented level os m ≠ lhdM := by
  unfold presented; split
  · decide
  · exact h

theorem presented_lhd (level os : Nat) : presented level os lhdM = lhdM := by
  unfold presented
  rw [if_neg (by rintro ⟨_, _, h⟩; revert h; decide)]

/-- the OS types the builder accepts: a byte, not 'K', not 'm' -/
def OsOk (os : Nat) : Prop := os < 256 ∧ os ≠ 0x4b ∧ os ≠ 0x6d

instance (os : Nat) : Decidable (OsOk os) := inferInstanceAs (Decidable (os < 256 ∧ os ≠ 0x4b ∧ os ≠ 0x6d))

/-- the typed header fields of an entry, OS type `os` -/
def fieldsOs (os : Nat) (pk : Packer) (e : Entry) : Fields := { fieldsOf pk e with osType := os }

/-! ## case folding -/

/-- a name `fix_msdos_allcaps` leaves alone: it has a lower-case letter, or no upper-case one -/
def StableBytes (s : Bytes) : Prop := s.any isLower = true ∨ ∀ b ∈ s, toLower b = b

instance (s : Bytes) : Decidable (StableBytes s) :=
  inferInstanceAs (Decidable (s.any isLower = true ∨ ∀ b ∈ s, toLower b = b))

/-- **the entry's full path is not folded** under an MS-DOS-like OS type -/
def CaseStable (e : Entry) : Prop := StableBytes (joinDir e.path)

instance (e : Entry) : Decidable (CaseStable e) := inferInstanceAs (Decidable (StableBytes _))

/-- the condition on an entry that the OS type adds -/
def OsEntry (os : Nat) (e : Entry) : Prop := dosLikeOs os = true → CaseStable e

instance (os : Nat) (e : Entry) : Decidable (OsEntry os e) :=
  inferInstanceAs (Decidable (dosLikeOs os = true → CaseStable e))

theorem StableBytes.of_slash {s : Bytes} (h : StableBytes (s ++ [0x2f])) : StableBytes s := by
  rcases h with h | h
  · left
    rw [List.any_append] at h
    simpa [isLower] using h
  · exact Or.inr (fun b hb => h b (List.mem_append_left _ hb))

theorem map_toLower_id (s : Bytes) (h : ∀ b ∈ s, toLower b = b) : s.map toLower = s := by
  conv => rhs; rw [← List.map_id s]
  exact List.map_congr_left (fun b hb => by simp [h b hb])

theorem fixAllCaps_id (h : Hdr) (hs : StableBytes (h.path.getD [] ++ h.filename.getD [])) : fixAllCaps h = h := by
  unfold fixAllCaps
  simp only []
  split
  · rfl
  · rename_i hn
    rcases hs with hs | hs
    · rw [List.any_append] at hs; exact absurd hs hn
    · have h1 : ∀ b ∈ h.path.getD [], toLower b = b := fun b hb => hs b (List.mem_append_left _ hb)
      have h2 : ∀ b ∈ h.filename.getD [], toLower b = b := fun b hb => hs b (List.mem_append_right _ hb)
      have e1 : h.path.map (·.map toLower) = h.path := by
        cases hp : h.path with
        | none => rfl
        | some p => rw [hp] at h1; simp [map_toLower_id p h1]
      have e2 : h.filename.map (·.map toLower) = h.filename := by
        cases hf : h.filename with
        | none => rfl
        | some p => rw [hf] at h2; simp [map_toLower_id p h2]
      rw [e1, e2]

theorem rename_eq (h : Hdr) :
    (if h.level = 1 ∧ h.osType = 0x20 ∧ methodIs h "-lh7-" = true
      then { h with method := "-lk7-".toUTF8.toList } else h) =
    { h with method := presented h.level h.osType h.method } := by
  unfold presented methodIs
  rw [lh7M_eq, lk7M_eq]
  by_cases hc : h.level = 1 ∧ h.osType = 0x20 ∧ h.method = lh7M
  · rw [if_pos hc, if_pos ⟨hc.1, hc.2.1, by simpa using hc.2.2⟩]
  · rw [if_neg hc, if_neg (by rintro ⟨a, b, c⟩; exact hc ⟨a, b, by simpa using c⟩)]

/-- **the second half of the normalisation stage** on a header with no OS-9 permissions and no
common CRC, an OS type other than 'K', a name that is not folded and a clean path: only LHark's
method is renamed -/
theorem post_simple (h : Hdr) (h9 : hasFlag h Gen.flagOs9Perms = false)
    (hcc : hasFlag h Gen.flagCommonCrc = false) (hk : h.osType ≠ 0x4b)
    (hst : dosLikeOs h.osType = true → StableBytes (h.path.getD [] ++ h.filename.getD []))
    (hcol : h.path.map PathFix.collapse = h.path) :
    post5 (post4 (post3 (post2 (post1 h)))) = .ok { h with method := presented h.level h.osType h.method } := by
  have e1 : post1 h = h := by
    unfold post1; split
    · rename_i hd; exact fixAllCaps_id h (hst hd)
    · rfl
  have e2 : post2 h = h := by
    unfold post2; rw [hcol]
  have e3 : post3 h = h := by
    unfold post3; rw [if_neg (fun hc => hk hc.1)]
  have e4 : post4 h = h := by
    unfold post4; simp [h9]
  rw [e1, e2, e3, e4]
  unfold post5
  simp only [hcc, Bool.false_eq_true, false_and, if_false]
  rw [rename_eq]

/-! ## well-formedness -/

/-- well-formedness of level-1/level-2 fields without base-header name, padding, trail or area,
any OS type but 'K' -/
theorem wf_ofOs (f : Fields) (hl : f.level = 1 ∨ f.level = 2) (hm : f.method.length = 5)
    (hc : f.clen + (if f.level = 1 then 65536 else 0) < 4294967296) (hlen : f.length < 4294967296)
    (ht : f.time < 4294967296) (ha : f.attr = 0x20) (hcrc : f.crc < 65536) (hos : f.osType < 256)
    (hk : f.osType ≠ 0x4b)
    (hex : f.exts.all Ext.wf = true) (hsz : 26 + chainLen 2 f.exts < 65536)
    (hn : f.name = []) (hp : f.pad = []) (htr : f.trail = []) (har : f.area = .none) : wf f = true := by
  have hall : f.exts.all (fun e => decide (extSize 2 e < 65536)) = true := by
    rw [List.all_eq_true]
    intro e he
    have := extSize_le_chainLen he
    exact decide_eq_true (by omega)
  unfold wf
  rcases hl with hl | hl
  · rw [hl] at hc
    simp only [if_true] at hc
    simp [hl, hm, hlen, ht, ha, hcrc, hos, hex, hn, hp, htr, har, hall]
    omega
  · rw [hl] at hc
    simp [hl, hm, hlen, ht, ha, hcrc, hos, hk, hex, hn, hp, htr, har]
    omega

/-- the size condition on a packed file: a 5-byte method string, a 32-bit compressed size (level 1:
with the extended headers) -/
def FileSize (pk : Packer) : Entry → Prop
  | .file _ data _ _ =>
    (pk.pack data).1.length = 5 ∧ (pk.pack data).2.length + (if pk.level1 then 65536 else 0) < 4294967296
  | _ => True

/-- **the fields of a member are well-formed fields of the header format**, any accepted OS type -/
theorem fieldsOs_wf (os : Nat) (pk : Packer) {e : Entry} (ho : OsOk os) (hk : EntryOk e) (he : EntryEnc e)
    (hpk : FileSize pk e) : wf (fieldsOs os pk e) = true := by
  obtain ⟨ho1, ho2, _⟩ := ho
  cases e with
  | dir p perms t =>
    obtain ⟨_, hlen, ht, hp⟩ := he
    have hne : p ≠ [] := hk.ne
    have h1 := chainLen_permExt perms
    have h2 := all_permExt hp
    have h3 := chainLen_timeExt pk t
    have h4 := all_timeExt pk ht
    have hj : 1 ≤ (sp p).length := sp_length_pos p hne
    apply wf_ofOs _ (lvl_cases pk) rfl _ (show 0 < 4294967296 by decide) (baseTime_lt pk ht) rfl
      (show 0 < 65536 by decide) ho1 ho2 _ _ rfl rfl rfl rfl
    · show 0 + (if lvl pk = 1 then 65536 else 0) < 4294967296
      split <;> decide
    · simp only [fieldsOs, fieldsOf, List.all_append, List.all_cons, List.all_nil, h2, h4, Ext.wf, hj, decide_true,
        Bool.and_self]
    · simp only [fieldsOs, fieldsOf, chainLen_append, chainLen_cons', extSize, Ext.body, sp_length]
      have h0 : chainLen 2 [] = 0 := rfl
      omega
  | file p data perms t =>
    obtain ⟨_, hlen, ht, hp, hd⟩ := he
    have hne : p ≠ [] := hk.ne
    have h1 := chainLen_permExt perms
    have h2 := all_permExt hp
    have h3 := chainLen_pathExt p.dropLast
    have h4 := all_pathExt p.dropLast
    have h5 := joinDir_split p hne
    have h6 := name_length_pos hk
    have h7 := crc_lt data
    have h8 := chainLen_timeExt pk t
    have h9 := all_timeExt pk ht
    simp only [Entry.path] at h6
    apply wf_ofOs _ (lvl_cases pk) hpk.1 _ hd (baseTime_lt pk ht) rfl h7 ho1 ho2 _ _ rfl rfl rfl rfl
    · show (pk.pack data).2.length + (if lvl pk = 1 then 65536 else 0) < 4294967296
      have := hpk.2
      simp only [lvl_one]
      exact this
    · simp only [fieldsOs, fieldsOf, List.all_append, List.all_cons, List.all_nil, h2, h4, h9, Ext.wf, h6, decide_true,
        Bool.and_self]
    · simp only [fieldsOs, fieldsOf, chainLen_append, chainLen_cons', extSize, Ext.body]
      have h0 : chainLen 2 [] = 0 := rfl
      omega
  | link p tg =>
    obtain ⟨_, hlen, _⟩ := he
    have hne : p ≠ [] := hk.ne
    have h3 := chainLen_pathExt p.dropLast
    have h4 := all_pathExt p.dropLast
    have h5 := joinDir_split p hne
    have h8 := chainLen_timeExt pk 0
    have h9 := all_timeExt pk (show 0 < 4294967296 by decide)
    apply wf_ofOs _ (lvl_cases pk) rfl _ (show 0 < 4294967296 by decide) (show 0 < 4294967296 by decide) rfl
      (show 0 < 65536 by decide) ho1 ho2 _ _ rfl rfl rfl rfl
    · show 0 + (if lvl pk = 1 then 65536 else 0) < 4294967296
      split <;> decide
    · simp only [fieldsOs, fieldsOf, List.all_append, List.all_cons, List.all_nil, h4, h9, Ext.wf, decide_true,
        Bool.and_self]
      simp
      omega
    · simp only [fieldsOs, fieldsOf, chainLen_append, chainLen_cons', extSize, Ext.body, le16, List.length_append,
        List.length_cons, List.length_nil]
      have h0 : chainLen 2 [] = 0 := rfl
      omega

/-- a header is at least 26 bytes long and carries its method at offset 2 -/
theorem encode_shapeOs (os : Nat) (pk : Packer) (e : Entry) :
    ∃ a b tl, encode (fieldsOs os pk e) = a :: b :: ((fieldsOs os pk e).method ++ tl) ∧ 17 ≤ tl.length := by
  have hl : (fieldsOs os pk e).level = lvl pk := by cases e <;> rfl
  unfold encode
  rcases lvl_cases pk with h | h
  · rw [HeaderRT.enc_l1 _ (hl.trans h)]
    refine ⟨_, _, _, by simp only [HeaderRT.body1, List.append_assoc]; rfl, ?_⟩
    simp [le16, le32]
    omega
  · rw [HeaderRT.enc_l2 _ (hl.trans h)]
    refine ⟨_, _, _, rfl, ?_⟩
    simp [le16]
    omega

end LhasaV.ArchiveOs
