import LhasaV.Lemmas.TestBytes1
/-!
# C07 on bytes (part 2): `lha_reader_next_file` and `lha_reader_check` along `flatI pk its`

`RStateI` / `next_stepI`: ArchiveOf7's `RState` / `next_step` for items.  `WalkI` / `ShownI`:
PrintList1's `Walk` / `Shown` (the reader never extracted anything: directory stack and deferred
list stay empty, so `next` presents exactly the stream's headers and then the end).
`ShownI.skip`: the member is not read (`lha tn`, a member no pattern selects);
`ShownI.checked`: `lha_reader_check` was run on it — in both cases the reader stands before the
remaining members.
-/
set_option linter.unusedSimpArgs false
namespace LhasaV.TestBytes
open LhasaV LhasaV.Header LhasaV.Extract LhasaV.GlobFs LhasaV.Contain LhasaV.ExtractTree
open LhasaV.ExtractTree.Sample LhasaV.Spec.HeaderEnc LhasaV.Reader LhasaV.ReaderIndep LhasaV.ArchiveOf
open LhasaV.PrintList

/-- the reader's position in the archive, by what it presented last -/
def RStateI (pk : Packer) (A : Array UInt8) (its : List Item) (rd : Reader.St) : Prop :=
  match rd.currType with
  | .start => rd.dec = none ∧ FreshI pk A its rd.basic
  | .normal => AtI pk A its rd.basic
  | .fakeDir => rd.dec = none ∧ GotI pk A its rd.basic
  | .deferred => rd.dec = none ∧ GotI pk A its rd.basic
  | .eof => True

/-- `next` reports the end only when the basic reader has no header -/
theorem tail_eof (u : Reader.St) (h : (nextDeferred (nextPop u)).currType = .eof) : u.basic.curr = none := by
  by_cases he : endOfTopDir u = true
  · obtain ⟨top, rest, hds⟩ := endOfTopDir_cons he
    simp [nextPop, he, hds, nextDeferred] at h
  · have he' : endOfTopDir u = false := by simpa using he
    cases hb : u.basic.curr with
    | none => rfl
    | some c => simp [nextPop, he', nextDeferred, hb] at h

/-- **`lha_reader_next_file` along the archive** -/
theorem next_stepI (pk : Packer) (A : Array UInt8) (its : List Item) (rd : Reader.St) (hok : ItemsOk pk its)
    (hg : Good rd) (hs : RStateI pk A its rd) (hne : rd.currType ≠ .eof) :
    ∃ oc rd', Reader.next rd = .ok (oc, rd') ∧ oc = rd'.curr ∧ rd'.dec = none ∧ GotI pk A its rd'.basic ∧
      ((rd'.currType = .fakeDir ∧ rd'.curr ≠ none) ∨
       (rd'.currType = .normal ∧ rd'.curr = rd'.basic.curr ∧ rd'.curr ≠ none) ∨
       (rd'.currType = .deferred ∧ rd'.curr ≠ none) ∨
       (rd'.currType = .eof ∧ rd'.curr = none)) ∧
      (rd'.currType = .eof → rd'.basic.curr = none) := by
  have hf := closeDecoder_frame rd
  have hd0 := closeDecoder_dec rd
  have h1 : ∃ s1, nextAdv (closeDecoder rd) = .ok s1 ∧ s1.dec = none ∧ GotI pk A its s1.basic := by
    cases ht : rd.currType with
    | start =>
      simp only [RStateI, ht] at hs
      obtain ⟨hdn, hfr⟩ := hs
      rw [closeDecoder_none hdn]
      obtain ⟨b', led', e, hgot⟩ := basicNext_freshI pk rd.mktime A its rd.basic rd.led hok hfr
      refine ⟨{ rd with basic := b', led := led' }, ?_, hdn, hgot⟩
      unfold nextAdv; simp [ht, e]
    | normal =>
      simp only [RStateI, ht] at hs
      have hce := eff_consEq hg.pre.decOK hg.pre.tidy
      have hat := hs.consEq hce.1
      have hwf := Stream.wf_closeDecoder rd hg.pre.wf
      obtain ⟨b', led', e, hgot⟩ := basicNext_atI pk (closeDecoder rd).mktime A its _ (closeDecoder rd).led hok hat hwf
      refine ⟨{ closeDecoder rd with basic := b', led := led' }, ?_, hd0, hgot⟩
      unfold nextAdv; simp [hf.currType, ht, e]
    | fakeDir =>
      simp only [RStateI, ht] at hs
      rw [closeDecoder_none hs.1]
      exact ⟨rd, nextAdv_fake (by rw [ht]; simp), hs.1, hs.2⟩
    | deferred =>
      simp only [RStateI, ht] at hs
      rw [closeDecoder_none hs.1]
      exact ⟨rd, nextAdv_fake (by rw [ht]; simp), hs.1, hs.2⟩
    | eof => exact absurd ht hne
  obtain ⟨s1, e1, d1, g1⟩ := h1
  have he : ((closeDecoder rd).currType == CurrType.eof) = false := by
    rw [hf.currType]; simpa using hne
  obtain ⟨t1, t2, t3⟩ := tail_shape (nextUnref s1)
  refine ⟨(nextDeferred (nextPop (nextUnref s1))).curr, nextDeferred (nextPop (nextUnref s1)), ?_, rfl, ?_, ?_, ?_, ?_⟩
  · rw [next_eq, he]
    simp only [Bool.false_eq_true, if_false, e1]
    rfl
  · rw [t1, nextUnref_dec]; exact d1
  · rw [t2, Reader.nextUnref_basic]; exact g1
  · rw [t2]
    exact t3
  · intro h
    rw [t2]
    exact tail_eof _ h

/-! ## the walk without extraction -/

/-- the reader stands before the members `its` and never extracted anything -/
structure WalkI (pk : Packer) (A : Array UInt8) (its : List Item) (rd : Reader.St) : Prop where
  good : Good rd
  rs : RStateI pk A its rd
  live : rd.currType ≠ .eof
  ds : rd.dirStack = []
  df : rd.deferred = []

/-- `lha_reader_next_file` has just presented the header of the first member `it` -/
structure ShownI (pk : Packer) (A : Array UInt8) (it : Item) (tl : List Item) (c : HObj)
    (rd : Reader.St) : Prop where
  good : Good rd
  hdr : c.h = hdrOf pk it.e
  curr : rd.curr = some c
  same : rd.curr = rd.basic.curr
  normal : rd.currType = .normal
  dec : rd.dec = none
  got : GotI pk A (it :: tl) rd.basic
  ds : rd.dirStack = []
  df : rd.deferred = []

/-- at the end of the members the walk ends -/
theorem walkI_nil {pk : Packer} {A : Array UInt8} {rd : Reader.St} (h : WalkI pk A [] rd) :
    ∃ rd', Reader.next rd = .ok (none, rd') := by
  obtain ⟨oc, rd', hn, hoc, _, hgot, _⟩ := next_stepI pk A [] rd trivial h.good h.rs h.live
  obtain ⟨_, _, p3, _⟩ := next_plain h.ds h.df h.live hn
  refine ⟨rd', ?_⟩
  rw [hn, hoc, p3, hgot.2.1]

/-- **one `lha_reader_next_file` before the members `it :: tl`** presents the header of `it`'s entry -/
theorem walkI_cons {pk : Packer} {A : Array UInt8} {it : Item} {tl : List Item} {rd : Reader.St}
    (hok : ItemsOk pk (it :: tl)) (h : WalkI pk A (it :: tl) rd) :
    ∃ c rd', Reader.next rd = .ok (some c, rd') ∧ ShownI pk A it tl c rd' := by
  obtain ⟨oc, rd', hn, hoc, hd, hgot, _⟩ := next_stepI pk A (it :: tl) rd hok h.good h.rs h.live
  obtain ⟨p1, p2, p3, p4⟩ := next_plain h.ds h.df h.live hn
  have hgot0 := hgot
  obtain ⟨_, ⟨id, hid⟩, _⟩ := hgot0
  refine ⟨⟨id, hdrOf pk it.e⟩, rd', ?_, ?_⟩
  · rw [hn, hoc, p3, hid]
  · exact ⟨next_good h.good hn, rfl, by rw [p3, hid], p3, by rw [p4, hid]; rfl, hd, hgot, p1, p2⟩

/-- **the member is not read**: the reader stands before the remaining members -/
theorem ShownI.skip {pk : Packer} {A : Array UInt8} {it : Item} {tl : List Item} {c : HObj}
    {rd : Reader.St} (h : ShownI pk A it tl c rd) (hok : ItemsOk pk (it :: tl)) : WalkI pk A tl rd := by
  refine ⟨h.good, ?_, by rw [h.normal]; decide, h.ds, h.df⟩
  simp only [RStateI, h.normal]
  exact h.got.at hok

/-- **`lha_reader_check` was run on the member**: whatever the decoder consumed, the reader stands
before the remaining members -/
theorem ShownI.checked {pk : Packer} {A : Array UInt8} {it : Item} {tl : List Item} {c : HObj}
    {rd : Reader.St} (h : ShownI pk A it tl c rd) (hok : ItemsOk pk (it :: tl)) :
    WalkI pk A tl (Reader.check rd).2 := by
  have hst := check_step honestAll h.good.pre
  have hty : (Reader.check rd).2.currType = .normal := by rw [hst.frame.currType, h.normal]
  refine ⟨step_good honestAll h.good .check, ?_, (by rw [hty]; exact fun x => (by cases x)),
    (by rw [hst.frame.dirStack, h.ds]), (by rw [hst.frame.deferred, h.df])⟩
  simp only [RStateI, hty]
  exact (h.got.at hok).consEq hst.basic

/-- the reader `lha` opens on the archive bytes stands before all the members -/
theorem walkI_init (pk : Packer) (its : List Item) :
    WalkI pk (flatI pk its).toArray its
      { basic := { stream := { kind := .seekable, data := (flatI pk its).toArray } },
        mktime := Header.dosTimeUTC } :=
  ⟨good_fresh { kind := .seekable, data := (flatI pk its).toArray } .endOfDir Header.dosTimeUTC (by simp),
    ⟨rfl, rfl, rfl, rfl, rfl, rfl, rfl, rfl⟩, (fun h => by cases h), rfl, rfl⟩

end LhasaV.TestBytes
