import LhasaV.Lemmas.LhNewRT1
/-!
Round trip of the `lh_new_decoder.c` model, part 2: `read_temp_table` and
`read_offset_table` (layers 3 and 4b).
-/
namespace LhasaV.LhNewRT
open LhasaV LhasaV.Spec LhasaV.Spec.LhNewEnc LhasaV.Spec.Lz77 LhasaV.LzRoundTrip

/-- combining "cell `i` stored, the cells after it filled by the recursive call" -/
theorem cells_cons (lens lens' : Array Nat) (i n x : Nat) (xs : List Nat) (hi : i < lens.size)
    (hin : i < n)
    (h : ∀ j, lens'[j]? = if i + 1 ≤ j ∧ j < n then some (xs.getD (j - (i + 1)) 0)
      else (lens.setIfInBounds i x)[j]?) :
    ∀ j, lens'[j]? = if i ≤ j ∧ j < n then some ((x :: xs).getD (j - i) 0) else lens[j]? := by
  intro j
  rw [h j, Array.getElem?_setIfInBounds]
  by_cases hj : i = j
  · subst hj
    have a1 : ¬ (i + 1 ≤ i ∧ i < n) := by omega
    have a2 : i ≤ i ∧ i < n := by omega
    rw [if_neg a1, if_pos a2, if_pos rfl, if_pos hi, Nat.sub_self]
    rfl
  · by_cases hr : i + 1 ≤ j ∧ j < n
    · have a2 : i ≤ j ∧ j < n := by omega
      have e : j - i = (j - (i + 1)) + 1 := by omega
      rw [if_pos hr, if_pos a2, e, List.getD_cons_succ]
    · have a2 : ¬ (i ≤ j ∧ j < n) := by omega
      rw [if_neg hr, if_neg a2, if_neg hj]

/-! ## the loop of `read_temp_table` -/

/-- one iteration at an index other than 2 -/
theorem tempLoop_step (cap n i : Nat) (lens : Array Nat) (r : Bits) (x : Nat) (rest : List Bool)
    (hlt : i < n) (hc : i < cap) (h2 : i ≠ 2) (hi : Bits.Inv r)
    (hs : Bits.stream r = lenVal x ++ rest) :
    ∃ r', Bits.Inv r' ∧ Bits.stream r' = rest ∧
      LhNew.tempLoop cap n i lens r
        = LhNew.tempLoop cap n (i + 1) (lens.setIfInBounds i (x % 256)) r' := by
  obtain ⟨r', g1, g2, g3⟩ := readLengthValue_lenVal x r rest hi hs
  refine ⟨r', g2, g3, ?_⟩
  rw [LhNew.tempLoop, dif_pos hlt]
  simp only [g1, storeLen_ok _ cap lens i x hc, Res.ok_bind, if_neg h2]

/-- the iteration at index 2: the length, then the 2-bit skip field -/
theorem tempLoop_step2 (cap n : Nat) (lens : Array Nat) (r : Bits) (x k : Nat) (rest : List Bool)
    (hlt : 2 < n) (hc : 2 < cap) (hk : k < 4) (hi : Bits.Inv r)
    (hs : Bits.stream r = lenVal x ++ (bitsN 2 k ++ rest)) :
    ∃ r', Bits.Inv r' ∧ Bits.stream r' = rest ∧
      LhNew.tempLoop cap n 2 lens r
        = ((LhNew.zeroRun cap k 2 (lens.setIfInBounds 2 (x % 256))) >>= fun lens2 =>
            LhNew.tempLoop cap n (2 + k + 1) lens2 r') := by
  obtain ⟨r1, g1, g2, g3⟩ := readLengthValue_lenVal x r _ hi hs
  obtain ⟨h1, h2, h3⟩ := readBits_bitsN r1 2 k rest g2 (by decide) (by simpa using hk) g3
  refine ⟨(r1.readBits 2).2, h2, h3, ?_⟩
  rw [LhNew.tempLoop, dif_pos hlt]
  simp only [g1, storeLen_ok _ cap lens 2 x hc, Res.ok_bind, if_true, h1]

/-- the loop over indices that never meet the skip field (`i ≥ 3`, or a table shorter than 3) -/
theorem tempLoop_plain (cap n : Nat) (hn : n ≤ cap) (xs : List Nat) (hx : ∀ l ∈ xs, l < 256)
    (i : Nat) (lens : Array Nat) (r : Bits) (rest : List Bool)
    (hin : i + xs.length = n) (h2 : 3 ≤ i ∨ n ≤ 2) (hsz : lens.size = cap) (hi : Bits.Inv r)
    (hs : Bits.stream r = xs.flatMap lenVal ++ rest) :
    ∃ lens' r', LhNew.tempLoop cap n i lens r = .ok (some lens', r') ∧ lens'.size = cap ∧
      (∀ j, lens'[j]? = if i ≤ j ∧ j < n then some (xs.getD (j - i) 0) else lens[j]?) ∧
      Bits.Inv r' ∧ Bits.stream r' = rest := by
  induction xs generalizing i lens r with
  | nil =>
    have hge : ¬ i < n := by simp at hin; omega
    refine ⟨lens, r, ?_, hsz, ?_, hi, by simpa using hs⟩
    · rw [LhNew.tempLoop, dif_neg hge]
    · intro j
      have : ¬ (i ≤ j ∧ j < n) := by omega
      rw [if_neg this]
  | cons x xs ih =>
    have hlt : i < n := by simp at hin; omega
    have hx' : ∀ l ∈ xs, l < 256 := fun l hl => hx l (List.mem_cons_of_mem _ hl)
    have hx0 : x % 256 = x := Nat.mod_eq_of_lt (hx x (List.mem_cons_self ..))
    rw [List.flatMap_cons, List.append_assoc] at hs
    obtain ⟨r1, g1, g2, g3⟩ := tempLoop_step cap n i lens r x _ hlt (by omega) (by omega) hi hs
    obtain ⟨lens', r', k1, k2, k3, k4, k5⟩ := ih hx' (i + 1) (lens.setIfInBounds i (x % 256)) r1
      (by simp at hin; omega) (by omega) (by simpa using hsz) g1 g2
    refine ⟨lens', r', by rw [g3, k1], k2, ?_, k4, k5⟩
    rw [hx0] at k3
    exact cells_cons lens lens' i n x xs (by omega) hlt k3

theorem drop_getD (l : List Nat) (k j : Nat) : (l.drop k).getD j 0 = l.getD (k + j) 0 := by
  simp [List.getD_eq_getElem?_getD, List.getElem?_drop]

theorem list_three (ls : List Nat) (h : 3 ≤ ls.length) : ∃ a b c tl, ls = a :: b :: c :: tl := by
  match ls, h with
  | a :: b :: c :: tl, _ => exact ⟨a, b, c, tl, rfl⟩
  | [], h => simp at h
  | [_], h => simp at h
  | [_, _], h => simp at h

/-- a table of at least three lengths: three values, the skip field, the remaining values -/
theorem tempLoop_spec3 (cap : Nat) (l0 l1 l2 : Nat) (tl : List Nat) (skip : Nat)
    (hn : tl.length + 3 ≤ cap)
    (hb : ∀ l ∈ l0 :: l1 :: l2 :: tl, l < 256) (hskip : skip ≤ 3)
    (hz : ∀ j, 3 ≤ j → j < 3 + skip → (l0 :: l1 :: l2 :: tl).getD j 0 = 0)
    (hfit' : skip ≤ tl.length)
    (lens : Array Nat) (hsz : lens.size = cap) (r : Bits) (rest : List Bool) (hi : Bits.Inv r)
    (hs' : Bits.stream r = lenVal l0 ++ (lenVal l1 ++ (lenVal l2 ++ (bitsN 2 skip ++
          ((tl.drop skip).flatMap lenVal ++ rest))))) :
    ∃ lens' r', LhNew.tempLoop cap (tl.length + 3) 0 lens r = .ok (some lens', r') ∧
      lens'.toList.take (tl.length + 3) = l0 :: l1 :: l2 :: tl ∧ Bits.Inv r' ∧
      Bits.stream r' = rest := by
  have hlen : (l0 :: l1 :: l2 :: tl).length = tl.length + 3 := by simp
  have e0 : l0 % 256 = l0 := Nat.mod_eq_of_lt (hb l0 (by simp))
  have e1 : l1 % 256 = l1 := Nat.mod_eq_of_lt (hb l1 (by simp))
  have e2 : l2 % 256 = l2 := Nat.mod_eq_of_lt (hb l2 (by simp))
  obtain ⟨r1, a1, a2, a3⟩ := tempLoop_step cap (tl.length + 3) 0 lens r l0 _ (by omega)
    (by omega) (by omega) hi hs'
  obtain ⟨r2, b1, b2, b3⟩ := tempLoop_step cap (tl.length + 3) 1 _ r1 l1 _ (by omega)
    (by omega) (by omega) a1 a2
  obtain ⟨r3, c1, c2, c3⟩ := tempLoop_step2 cap (tl.length + 3) _ r2 l2 skip _ (by omega)
    (by omega) (by omega) b1 b2
  obtain ⟨lz, z1, z2, z3⟩ := LhNewRT.zeroRun_spec cap skip 2
    (((lens.setIfInBounds 0 (l0 % 256)).setIfInBounds (0 + 1) (l1 % 256)).setIfInBounds 2
      (l2 % 256)) (by simpa using hsz) (by omega)
  have hbt : ∀ l ∈ tl.drop skip, l < 256 := fun l hl =>
    hb l (by simp [List.mem_of_mem_drop hl])
  obtain ⟨lens', r', k1, k2, k3, k4, k5⟩ := tempLoop_plain cap (tl.length + 3) hn
    (tl.drop skip) hbt (2 + skip + 1) lz r3 rest (by simp; omega) (by omega) z2 c1 c2
  refine ⟨lens', r', ?_, ?_, k4, k5⟩
  · rw [a3, b3, c3, z1, Res.ok_bind, k1]
  · have := take_eq_of_cells lens' (l0 :: l1 :: l2 :: tl) (tl.length + 3) (by simp) (by
      intro j hj
      rw [k3 j]
      by_cases hj3 : 2 + skip + 1 ≤ j
      · rw [if_pos ⟨hj3, hj⟩, drop_getD]
        obtain ⟨j', rfl⟩ : ∃ j', j = j' + 3 := ⟨j - 3, by omega⟩
        have : skip + (j' + 3 - (2 + skip + 1)) = j' := by omega
        rw [this]
        simp
      · have hn' : ¬ (2 + skip + 1 ≤ j ∧ j < tl.length + 3) := by omega
        rw [if_neg hn', z3 j]
        by_cases hj2 : 2 < j
        · rw [if_pos ⟨hj2, by omega⟩, hz j (by omega) (by omega)]
        · have hn2 : ¬ (2 < j ∧ j ≤ 2 + skip) := by omega
          rw [if_neg hn2, e0, e1, e2]
          simp only [Array.getElem?_setIfInBounds, Array.size_setIfInBounds]
          have hj012 : j = 0 ∨ j = 1 ∨ j = 2 := by omega
          rcases hj012 with h | h | h <;> subst h <;> simp <;>
            first | omega | (intro h; rw [h] at hsz; simp at hsz; omega))
    rw [this, ← hlen, List.take_length]

/-- the whole loop on the transmitted form of a temp table -/
theorem tempLoop_spec (cap : Nat) (ls : List Nat) (skip : Nat) (hn : ls.length ≤ cap)
    (hb : ∀ l ∈ ls, l < 256) (hskip : skip ≤ 3)
    (hz : ∀ j, 3 ≤ j → j < 3 + skip → ls.getD j 0 = 0)
    (hfit : ls.length < 3 ∨ 3 + skip ≤ ls.length)
    (lens : Array Nat) (hsz : lens.size = cap) (r : Bits) (rest : List Bool) (hi : Bits.Inv r)
    (hs : Bits.stream r = (if ls.length < 3 then ls.flatMap lenVal
       else (ls.take 3).flatMap lenVal ++ bitsN 2 skip ++ ((ls.drop 3).drop skip).flatMap lenVal)
       ++ rest) :
    ∃ lens' r', LhNew.tempLoop cap ls.length 0 lens r = .ok (some lens', r') ∧
      lens'.toList.take ls.length = ls ∧ Bits.Inv r' ∧ Bits.stream r' = rest := by
  by_cases h3 : ls.length < 3
  · rw [if_pos h3] at hs
    obtain ⟨lens', r', k1, k2, k3, k4, k5⟩ := tempLoop_plain cap ls.length hn ls hb 0 lens r rest
      (by omega) (by omega) hsz hi hs
    refine ⟨lens', r', k1, ?_, k4, k5⟩
    have := take_eq_of_cells lens' ls ls.length (Nat.le_refl _) (fun j hj => by
      rw [k3 j, if_pos ⟨Nat.zero_le _, hj⟩, Nat.sub_zero])
    rw [this, List.take_length]
  · rw [if_neg h3] at hs
    obtain ⟨l0, l1, l2, tl, rfl⟩ := list_three ls (by omega)
    have hlen : (l0 :: l1 :: l2 :: tl).length = tl.length + 3 := by simp
    rw [hlen] at hn hfit ⊢
    exact tempLoop_spec3 cap l0 l1 l2 tl skip hn hb hskip hz (by omega) lens hsz r rest hi
      (by simpa [List.append_assoc] using hs)

/-! ## Layer 3: `read_temp_table` -/

theorem tempWf_lens (f : Fmt) (ls : List Nat) (skip : Nat) (h : tempWf f (.lens ls) skip = true) :
    1 ≤ ls.length ∧ ls.length ≤ f.maxTempCodes ∧ Canon.complete ls = true ∧
    (∀ l ∈ ls, l < 256) ∧ skip ≤ 3 ∧ (∀ j, 3 ≤ j → j < 3 + skip → ls.getD j 0 = 0) ∧
    (ls.length < 3 ∨ 3 + skip ≤ ls.length) := by
  simp only [tempWf, Table.wf, Bool.and_eq_true, decide_eq_true_eq] at h
  obtain ⟨⟨⟨⟨⟨h1, h2⟩, h3⟩, h4⟩, h5⟩, h6, h7⟩ := h
  refine ⟨h1, h2, h3, all_lt_of_all ls h4, h5, ?_, h7⟩
  intro j hj3 hjs
  by_cases hjl : j < ls.length
  · have hm : ls.getD j 0 ∈ (ls.drop 3).take skip := by
      rw [List.mem_iff_getElem?]
      refine ⟨j - 3, ?_⟩
      rw [List.getElem?_take, if_pos (by omega), List.getElem?_drop,
        List.getD_eq_getElem?_getD]
      have : 3 + (j - 3) = j := by omega
      rw [this, List.getElem?_eq_getElem hjl]
      rfl
    have := List.all_eq_true.mp h6 _ hm
    simpa using this
  · rw [List.getD_eq_getElem?_getD, List.getElem?_eq_none (by omega)]
    rfl

/-- **Layer 3**: `read_temp_table` on the transmitted form of a well-formed temp table -/
theorem readTempTable_spec (p : LhNew.Params) (hp : RTParams p) (s : LhNew.St) (t : Table)
    (skip : Nat) (rest : List Bool) (hwf : tempWf (fmtOf p) t skip = true)
    (hsz : s.tempTree.size = p.tempTreeCap) (hi : Bits.Inv s.bits)
    (hs : Bits.stream s.bits = tempBits t skip ++ rest) :
    ∃ tree' r', LhNew.readTempTable p s = .ok (true, { s with bits := r', tempTree := tree' }) ∧
      tree'.size = p.tempTreeCap ∧ TreeFor p.leafBit tree' t ∧ Bits.Inv r' ∧
      Bits.stream r' = rest := by
  have hcap := hp.tempCap
  have hmax := hp.maxTemp
  have hleaf := hp.leaf
  cases t with
  | single c =>
    have hc : c < 32 := by
      have := hwf
      simp [tempWf, Table.wf] at this
      exact this.1
    simp only [tempBits, List.append_assoc] at hs
    obtain ⟨h1, h2, h3⟩ := readBits_bitsN s.bits 5 0 _ hi (by decide) (by decide) hs
    obtain ⟨g1, g2, g3⟩ := readBits_bitsN (s.bits.readBits 5).2 5 c rest h2 (by decide) hc h3
    refine ⟨Tree.setSingle p.leafBit s.tempTree (c : Int), ((s.bits.readBits 5).2.readBits 5).2,
      ?_, ?_, treeFor_single _ _ c (by omega) (by omega), g2, g3⟩
    · unfold LhNew.readTempTable
      simp only [hp.tempBits, h1, g1]
    · simpa [Tree.setSingle] using hsz
  | lens ls =>
    obtain ⟨w1, w2, w3, w4, w5, w6, w7⟩ := tempWf_lens _ ls skip hwf
    have w2' : ls.length ≤ p.maxTempCodes := w2
    simp only [tempBits] at hs
    rw [List.append_assoc] at hs
    obtain ⟨h1, h2, h3⟩ := readBits_bitsN s.bits 5 ls.length _ hi (by decide) (by omega) hs
    obtain ⟨lens', r', k1, k2, k3, k4⟩ := tempLoop_spec p.maxTempCodes ls skip w2' w4 w5 w6 w7
      (Array.replicate p.maxTempCodes 0) (by simp) (s.bits.readBits 5).2 rest h2 h3
    obtain ⟨t1, t2, t3⟩ := treeFor_lens p.leafBit s.tempTree (p.maxTempCodes * 2) ls (by omega)
      w3 w4 (by omega) (by omega)
    refine ⟨(Tree.buildTree p.leafBit s.tempTree (p.maxTempCodes * 2) ls).1, r', ?_,
      by rw [t3, hsz], t1, k3, k4⟩
    unfold LhNew.readTempTable
    simp only [hp.tempBits, h1]
    have hmin : min ls.length p.maxTempCodes = ls.length := by omega
    split
    · next h => cases h
    · next h => simp only [Option.some.injEq] at h; omega
    · next n0 _ _ h =>
      simp only [Option.some.injEq] at h
      subst h
      simp only [hmin, k1, Res.ok_bind, k2, t2]
      rfl

/-! ## Layer 4b: `read_offset_table` -/

theorem offLoop_spec (cap : Nat) (xs : List Nat) (hx : ∀ l ∈ xs, l < 256) (i : Nat)
    (lens : Array Nat) (r : Bits) (rest : List Bool) (hin : i + xs.length ≤ cap)
    (hsz : lens.size = cap) (hi : Bits.Inv r)
    (hs : Bits.stream r = xs.flatMap lenVal ++ rest) :
    ∃ lens' r', LhNew.offLoop cap xs.length i lens r = .ok (some lens', r') ∧ lens'.size = cap ∧
      (∀ j, lens'[j]? = if i ≤ j ∧ j < i + xs.length then some (xs.getD (j - i) 0)
        else lens[j]?) ∧
      Bits.Inv r' ∧ Bits.stream r' = rest := by
  induction xs generalizing i lens r with
  | nil =>
    refine ⟨lens, r, rfl, hsz, ?_, hi, by simpa using hs⟩
    intro j
    have : ¬ (i ≤ j ∧ j < i + ([] : List Nat).length) := by simp
    rw [if_neg this]
  | cons x xs ih =>
    have hx' : ∀ l ∈ xs, l < 256 := fun l hl => hx l (List.mem_cons_of_mem _ hl)
    have hx0 : x % 256 = x := Nat.mod_eq_of_lt (hx x (List.mem_cons_self ..))
    have hlen : (x :: xs).length = xs.length + 1 := rfl
    rw [hlen] at hin ⊢
    rw [List.flatMap_cons, List.append_assoc] at hs
    obtain ⟨r1, g1, g2, g3⟩ := readLengthValue_lenVal x r _ hi hs
    obtain ⟨lens', r', k1, k2, k3, k4, k5⟩ := ih hx' (i + 1) (lens.setIfInBounds i (x % 256)) r1
      (by omega) (by simpa using hsz) g2 g3
    refine ⟨lens', r', ?_, k2, ?_, k4, k5⟩
    · simp only [LhNew.offLoop, g1, storeLen_ok _ cap lens i x (by omega), Res.ok_bind]
      exact k1
    · rw [hx0] at k3
      have e : i + 1 + xs.length = i + (xs.length + 1) := by omega
      rw [e] at k3
      exact cells_cons lens lens' i _ x xs (by omega) (by omega) k3

theorem tableWf_lens (maxN fb : Nat) (ls : List Nat) (h : Table.wf maxN fb (.lens ls) = true) :
    1 ≤ ls.length ∧ ls.length ≤ maxN ∧ Canon.complete ls = true ∧ (∀ l ∈ ls, l < 256) := by
  simp only [Table.wf, Bool.and_eq_true, decide_eq_true_eq] at h
  obtain ⟨⟨⟨h1, h2⟩, h3⟩, h4⟩ := h
  exact ⟨h1, h2, h3, all_lt_of_all ls h4⟩

/-- **Layer 4b**: `read_offset_table` on the transmitted form of a well-formed offset table -/
theorem readOffsetTable_spec (p : LhNew.Params) (hp : RTParams p) (s : LhNew.St) (t : Table)
    (rest : List Bool) (hwf : t.wf (fmtOf p).maxOffsetCodes (fmtOf p).offsetBits = true)
    (hsz : s.offsetTree.size = p.offsetTreeCap) (hi : Bits.Inv s.bits)
    (hs : Bits.stream s.bits = offBits (fmtOf p) t ++ rest) :
    ∃ tree' r', LhNew.readOffsetTable p s
        = .ok (true, { s with bits := r', offsetTree := tree' }) ∧
      tree'.size = p.offsetTreeCap ∧ TreeFor p.leafBit tree' t ∧ Bits.Inv r' ∧
      Bits.stream r' = rest := by
  have hcap := hp.offCap
  have hleaf := hp.leaf
  have hob := hp.offBits
  have hoc := hp.offCodes
  have hpos := hp.offTreePos
  have hpow : 2 ^ p.offsetBits ≤ 512 := by
    have : 2 ^ p.offsetBits ≤ 2 ^ 9 := Nat.pow_le_pow_right (by decide) hob
    simpa using this
  have hf1 : (fmtOf p).offsetBits = p.offsetBits := rfl
  have hf2 : (fmtOf p).maxOffsetCodes = p.maxOffsetCodes := rfl
  rw [hf1, hf2] at hwf
  cases t with
  | single c =>
    have hc : c < 2 ^ p.offsetBits := by simpa [Table.wf] using hwf
    simp only [offBits, hf1, List.append_assoc] at hs
    obtain ⟨h1, h2, h3⟩ := readBits_bitsN s.bits p.offsetBits 0 _ hi (by omega)
      (Nat.two_pow_pos _) hs
    obtain ⟨g1, g2, g3⟩ := readBits_bitsN (s.bits.readBits p.offsetBits).2 p.offsetBits c rest h2
      (by omega) hc h3
    refine ⟨Tree.setSingle p.leafBit s.offsetTree (c : Int),
      ((s.bits.readBits p.offsetBits).2.readBits p.offsetBits).2,
      ?_, ?_, treeFor_single _ _ c (by omega) (by omega), g2, g3⟩
    · unfold LhNew.readOffsetTable
      simp only [h1, g1]
    · simpa [Tree.setSingle] using hsz
  | lens ls =>
    obtain ⟨w1, w2, w3, w4⟩ := tableWf_lens _ _ ls hwf
    simp only [offBits, hf1] at hs
    rw [List.append_assoc] at hs
    obtain ⟨h1, h2, h3⟩ := readBits_bitsN s.bits p.offsetBits ls.length _ hi (by omega)
      (by omega) hs
    obtain ⟨lens', r', k1, k2, k3, k4, k5⟩ := offLoop_spec p.maxOffsetCodes ls w4 0
      (Array.replicate p.maxOffsetCodes 0) (s.bits.readBits p.offsetBits).2 rest (by omega)
      (by simp) h2 h3
    have htake : lens'.toList.take ls.length = ls := by
      have := take_eq_of_cells lens' ls ls.length (Nat.le_refl _) (fun j hj => by
        rw [k3 j, if_pos ⟨Nat.zero_le _, by omega⟩, Nat.sub_zero])
      rw [this, List.take_length]
    obtain ⟨t1, t2, t3⟩ := treeFor_lens p.leafBit s.offsetTree (p.maxOffsetCodes * 2) ls
      (by omega) w3 w4 (by omega) (by omega)
    refine ⟨(Tree.buildTree p.leafBit s.offsetTree (p.maxOffsetCodes * 2) ls).1, r', ?_,
      by rw [t3, hsz], t1, k4, k5⟩
    unfold LhNew.readOffsetTable
    simp only [h1]
    have hmin : min ls.length p.maxOffsetCodes = ls.length := by omega
    split
    · next h => cases h
    · next h => simp only [Option.some.injEq] at h; omega
    · next n0 _ _ h =>
      simp only [Option.some.injEq] at h
      subst h
      simp only [hmin, k1, Res.ok_bind, htake, t2]
      rfl

end LhasaV.LhNewRT
