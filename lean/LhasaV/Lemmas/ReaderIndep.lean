import LhasaV.Lemmas.ReaderIndep8
import LhasaV.Lemmas.ReaderWork
import LhasaV.Lemmas.ReaderHeap
import LhasaV.Lemmas.ReaderFake
import LhasaV.Lemmas.ReaderOut
import LhasaV.Lemmas.HonestSmall
import LhasaV.Lemmas.HonestLhNew
import LhasaV.Lemmas.HonestLh1
import LhasaV.Lemmas.HonestPm
/-!
# C15 / C13 for the readers — summary file

* `basicNext_consumed_indep`, `basicNext_consumed_indep_amount`  (ReaderIndep1 / here)
* `honestAll`: every decoder of `decoderFor` is `Honest` (HonestSmall / HonestLhNew / HonestLh1 / HonestPm)
* `headers_independent`, `bytes_independent`: the conditional forms (hypothesis `HonestAll`) are in
  ReaderIndep6 / ReaderIndep8; the unconditional forms are `headers_indep`, `bytes_indep` here
* `next_never_faults`, `fake_once` (ReaderFake), `next_work_bounded` (ReaderWork), `heap_bound` (ReaderHeap),
  `read_le_asked`, `check_output_le` (ReaderOut)
-/
set_option linter.unusedSimpArgs false
namespace LhasaV.ReaderIndep
open LhasaV LhasaV.Reader

/-! ## every decoder is honest -/

theorem honestAll : HonestAll := by
  intro name d h
  unfold decoderFor at h
  split at h <;> first
    | (cases h; exact honest_null)
    | (cases h; exact honest_lz5)
    | (cases h; exact honest_lzs)
    | (cases h; exact honest_lh1)
    | (cases h; exact honest_lhnew _)
    | (cases h; exact honest_pm1)
    | (cases h; exact honest_pm2)
    | cases h

/-! ## A1, in terms of the amount consumed -/

/-- the basic reader after a decoder has consumed `t` bytes of the current member -/
def consume (a : Basic) (t : Nat) : Basic := applyC a (t, false)

/-- **`basicNext_consumed_indep`, concrete form.**  Whether a decoder consumed `t₁` or `t₂` bytes
of the current member (nothing, some, all of it — anything up to `remaining`, and beyond: the
model clamps), the next header, the END flag, the ledger and — unless END — the position where
the next member's data begins, the lead-in, the phase and `remaining` are the same. -/
theorem basicNext_consumed_indep_amount (mk : Nat → Nat) (a : Basic) (led : Ledger) (t₁ t₂ : Nat)
    (wf : Stream.WF a) (ht : Tidy a) :
    Stream.ResRel (fun r r' => Stream.ObsEq r.1 r'.1 ∧ r.2 = r'.2)
      (basicNext mk (consume a t₁) led) (basicNext mk (consume a t₂) led) := by
  have h1 := (consEq_applyC (b := a) (t₁, false) ht (fun h => by cases h)).1
  have h2 := (consEq_applyC (b := a) (t₂, false) ht (fun h => by cases h)).1
  exact basicNext_consumed_indep mk _ _ led (h1.symm.trans h2) wf wf

/-! ## A2 / A3, unconditional -/

/-- **C15 `headers_independent`** (no hypothesis on the decoders left) -/
theorem headers_indep (st : Stream.St) (pol : DirPolicy) (mk : Nat → Nat)
    (hl : st.leadin.length ≤ 24) (ops₁ ops₂ : List Op) (hsk : skeleton ops₁ = skeleton ops₂) :
    nextResults (fresh st pol mk) ops₁ = nextResults (fresh st pol mk) ops₂ :=
  (headers_independent honestAll st pol mk hl ops₁ ops₂ hsk).1

/-- **C15 `bytes_independent`** (no hypothesis on the decoders left) -/
theorem bytes_indep (st : Stream.St) (pol : DirPolicy) (mk : Nat → Nat)
    (hl : st.leadin.length ≤ 24) (ops₁ ops₂ : List Op) (hsk : skeleton ops₁ = skeleton ops₂) :
    (check (run (fresh st pol mk) (ops₁ ++ [.next]))).1 =
      (check (run (fresh st pol mk) (ops₂ ++ [.next]))).1 ∧
    (∀ b, (extract (run (fresh st pol mk) (ops₁ ++ [.next])) b).1 =
      (extract (run (fresh st pol mk) (ops₂ ++ [.next])) b).1) ∧
    (∀ fuel, (decodeLoop fuel (run (fresh st pol mk) (ops₁ ++ [.next])) []).1 =
      (decodeLoop fuel (run (fresh st pol mk) (ops₂ ++ [.next])) []).1) ∧
    (∀ k, (read (run (fresh st pol mk) (ops₁ ++ [.next])) k).1 =
      (read (run (fresh st pol mk) (ops₂ ++ [.next])) k).1) :=
  bytes_independent honestAll st pol mk hl ops₁ ops₂ hsk

theorem skeleton_idem (ops : List Op) : skeleton (skeleton ops) = skeleton ops := by
  simp [skeleton, List.filter_filter]

/-- the headers a history reports are those of its skeleton: erasing every `read` and `check`
changes nothing -/
theorem headers_only_skeleton (st : Stream.St) (pol : DirPolicy) (mk : Nat → Nat)
    (hl : st.leadin.length ≤ 24) (ops : List Op) :
    nextResults (fresh st pol mk) ops = nextResults (fresh st pol mk) (skeleton ops) :=
  headers_indep st pol mk hl ops (skeleton ops) (skeleton_idem ops).symm

/-- the bytes of the member presented after a history are those presented after its skeleton -/
theorem bytes_only_skeleton (st : Stream.St) (pol : DirPolicy) (mk : Nat → Nat)
    (hl : st.leadin.length ≤ 24) (ops : List Op) :
    (check (run (fresh st pol mk) (ops ++ [.next]))).1 =
      (check (run (fresh st pol mk) (skeleton ops ++ [.next]))).1 :=
  (bytes_indep st pol mk hl ops (skeleton ops) (skeleton_idem ops).symm).1

/-- **`next` never faults** along any history from a fresh reader -/
theorem next_never_faults (st : Stream.St) (pol : DirPolicy) (mk : Nat → Nat)
    (hl : st.leadin.length ≤ 24) (ops : List Op) :
    ∃ r, next (run (fresh st pol mk) ops) = .ok r :=
  next_ok _ (run_good honestAll (good_fresh st pol mk hl) ops).pre.wf

/-- **work of `next` along any history from a fresh reader** (B5 without the `WF` hypothesis) -/
theorem next_work_history (st : Stream.St) (pol : DirPolicy) (mk : Nat → Nat)
    (hl : st.leadin.length ≤ 24) (ops : List Op) (r : Option HObj) (s' : St)
    (e : next (run (fresh st pol mk) ops) = .ok (r, s')) :
    s'.basic.stream.reads - (run (fresh st pol mk) ops).basic.stream.reads ≤
      avail (run (fresh st pol mk) ops).basic.stream / 32 +
      (avail (run (fresh st pol mk) ops).basic.stream + 11) / 12 + 4 ∧
    s'.basic.stream.moved - (run (fresh st pol mk) ops).basic.stream.moved ≤
      avail (run (fresh st pol mk) ops).basic.stream + closeTake (run (fresh st pol mk) ops) := by
  have wf := (run_good honestAll (good_fresh st pol mk hl) ops).pre.wf
  obtain ⟨_, _, h3, _, h5⟩ := next_work_bounded _ s' r wf e
  exact ⟨h3, h5⟩

/-! ## non-vacuity and sanity checks -/

/-- two copies of the demo member (`a`, `-lh0-`, the bytes `hi`), then the end marker -/
def demo2 : Array UInt8 := (demoArchive.extract 0 27) ++ demoArchive

def demo2St : Stream.St := { kind := .pipe, data := demo2 }

def showRes (l : List (Except String (Option HObj))) : List (Option (Nat × Nat)) :=
  l.map (fun r => match r with
    | .ok (some o) => some (o.id, o.h.length)
    | _ => none)

-- the same two headers and the end, whatever is done with the members in between
#eval showRes (nextResults (fresh demo2St .endOfDir Header.dosTimeUTC) [.next, .next, .next])
#eval showRes (nextResults (fresh demo2St .endOfDir Header.dosTimeUTC)
  [.next, .read 1, .next, .check, .read 5, .next])
-- the second member decodes to `hi` whether the first was skipped, half read or checked
#eval (check (run (fresh demo2St .endOfDir Header.dosTimeUTC) ([.next] ++ [.next]))).1
#eval (check (run (fresh demo2St .endOfDir Header.dosTimeUTC) ([.next, .read 1] ++ [.next]))).1
#eval (check (run (fresh demo2St .endOfDir Header.dosTimeUTC) ([.next, .check, .check] ++ [.next]))).1
-- work and heap of the demo
#eval (let s := run (fresh demo2St .endOfDir Header.dosTimeUTC) [.next, .next, .next]
  (s.basic.stream.reads, s.basic.stream.moved, demo2.size, s.led.live))

example : skeleton [.next, .read 1, .next, .check, .read 5, .next] = skeleton [.next, .next, .next] := rfl
example : Legal [.next, .read 1, .next, .check, .next] := by decide

/-- `headers_indep` applies to a concrete pair of different histories -/
example : nextResults (fresh demo2St .endOfDir Header.dosTimeUTC) [.next, .read 1, .next, .check, .read 5, .next] =
    nextResults (fresh demo2St .endOfDir Header.dosTimeUTC) [.next, .next, .next] :=
  headers_indep demo2St _ _ (by decide) _ _ rfl

/-- `ConsEq` relates states with different positions: it is not equality in disguise -/
example : ∃ a b : Basic, ConsEq a b ∧ a.stream.pos ≠ b.stream.pos ∧ Stream.WF a ∧ Stream.WF b :=
  ⟨{ stream := { kind := .seekable, data := demo2, pos := 25 }, curr := some ⟨0, {}⟩, remaining := 2 },
   { stream := { kind := .pipe, data := demo2, pos := 27 }, curr := some ⟨0, {}⟩, remaining := 0 },
   ⟨rfl, rfl, Or.inr ⟨rfl, rfl, rfl, rfl, rfl, fun h => by cases h⟩⟩, by decide,
   ⟨by decide, fun _ => by decide⟩, ⟨by decide, fun _ => by decide⟩⟩

/-- `Honest` is not trivially true: a decoder that kills a complete source is not honest -/
example : ¬ Honest { σ := Src, init := fun s => { s with dead := true }, read := fun s => .ok ([], s), src := id } := by
  intro h
  have := h.init { data := #[] } (Or.inl rfl)
  rcases this with h | h <;> simp at h

end LhasaV.ReaderIndep
