import LhasaV.Model.HeaderAlloc
/-!
# Allocation-aware header parser, part 1: refinement

`Refines w m r` relates a step `m` of the allocation-aware parser to the step `r` of the original:
* `w = false` (exact): `m` returns what `r` returns, whatever the allocator state.  It holds
  when no allocation fails (`NoFail o`, in particular `Oracle.ofFailAt none`): `readA_refines`.
  Every theorem about `Header.read` carries over to the fault-free runs of the refined model.
* `w = true` (weak): under ANY oracle, `m` either takes an error return or returns what `r`
  returns, and `m` faults only if `r` faults: `readA_weak`.  No allocation failure is swallowed,
  so a header that is handed out under allocation failures is the header of the fault-free run,
  and (`Header.read_no_fault`) the allocation-aware parser never faults.
Both are proved at once: the rules hold for every `w`, the allocation rule needs `w = true ∨ NoFail o`.
-/
namespace LhasaV.Alloc
open LhasaV LhasaV.Header

/-- no allocation fails -/
def NoFail (o : Oracle) : Prop := ∀ i, o i = false

theorem noFail_none : NoFail (Oracle.ofFailAt none) := fun _ => rfl

/-- forget the allocator state and the header object of a failure -/
def ARes.erase {α : Type} : ARes α → Res α
  | .ok a _ => .ok a
  | .fail _ _ => .fail
  | .fault w => .fault w

/-- see the header of this file; `w` = an error return of `m` needs no counterpart -/
def Refines {α : Type} (w : Bool) (m : AM α) (r : Res α) : Prop :=
  ∀ hp, match m hp with
    | .ok a _ => r = .ok a
    | .fail _ _ => w = true ∨ r = .fail
    | .fault x => r = .fault x

theorem Refines.erase_eq {α : Type} {m : AM α} {r : Res α} (h : Refines false m r) (hp : Heap) :
    (m hp).erase = r := by
  have := h hp
  cases hm : m hp with
  | ok a hp' => rw [hm] at this; exact this.symm
  | fail x hp' => rw [hm] at this; rcases this with h | h; cases h; exact h.symm
  | fault x => rw [hm] at this; exact this.symm

theorem bind_apply {α β : Type} (m : AM α) (f : α → AM β) (hp : Heap) :
    (m >>= f) hp = match m hp with
      | .ok a hp' => f a hp'
      | .fail h hp' => .fail h hp'
      | .fault w => .fault w := rfl

theorem failH_bind {α β : Type} (h : Hdr) (f : α → AM β) : (failH h >>= f) = failH h := rfl
theorem pure_bind' {α β : Type} (a : α) (f : α → AM β) : ((pure a : AM α) >>= f) = f a := rfl
theorem liftR_fault_bind {α β : Type} (h : Hdr) (w : String) (f : α → AM β) :
    (liftR h (.fault w : Res α) >>= f) = liftR h (.fault w) := rfl

namespace Refines
variable {α β : Type} {w : Bool}

theorem pure (a : α) : Refines w (Pure.pure a : AM α) (.ok a) := fun _ => rfl
theorem liftR (h : Hdr) (r : Res α) : Refines w (Alloc.liftR h r) r := by
  intro hp; cases r with
  | ok a => rfl
  | fail => exact Or.inr rfl
  | fault x => rfl
theorem failH (h : Hdr) : Refines w (Alloc.failH h : AM α) .fail := fun _ => Or.inr rfl
/-- in the weak reading an error return refines anything -/
theorem failAny (hw : w = true) (h : Hdr) (r : Res α) : Refines w (Alloc.failH h : AM α) r :=
  fun _ => Or.inl hw

theorem bind {m : AM α} {r : Res α} {f : α → AM β} {g : α → Res β}
    (hm : Refines w m r) (hf : ∀ a, Refines w (f a) (g a)) : Refines w (m >>= f) (r >>= g) := by
  intro hp
  have := hm hp
  rw [bind_apply]
  cases hmm : m hp with
  | ok a hp' => rw [hmm] at this; subst this; exact hf a hp'
  | fail h hp' =>
    rw [hmm] at this
    rcases this with h | h
    · exact Or.inl h
    · subst h; exact Or.inr rfl
  | fault x => rw [hmm] at this; subst this; rfl

/-- a step that always succeeds with `a` and has no counterpart in the original -/
theorem bind_ok {m : AM α} {a : α} {f : α → AM β} {r : Res β}
    (hm : ∀ hp, ∃ hp', m hp = .ok a hp') (hf : Refines w (f a) r) : Refines w (m >>= f) r := by
  intro hp
  obtain ⟨hp', e⟩ := hm hp
  rw [bind_apply, e]
  exact hf hp'

/-- a step of the allocation-aware parser whose value is the value of a pure expression of the
original -/
theorem bind_val {m : AM α} {a : α} {f : α → AM β} {r : Res β}
    (hm : Refines w m (.ok a)) (hf : Refines w (f a) r) : Refines w (m >>= f) r := by
  intro hp
  have := hm hp
  rw [bind_apply]
  cases hmm : m hp with
  | ok a' hp' =>
    rw [hmm] at this; simp only [Res.ok.injEq] at this; subst this; exact hf hp'
  | fail h hp' =>
    rw [hmm] at this
    rcases this with h | h
    · exact Or.inl h
    · cases h
  | fault x => rw [hmm] at this; cases this

/-- the last step only repackages the value -/
theorem bind_pure {m : AM α} {r : Res α} {f : α → AM α}
    (hm : Refines w m r) (hf : ∀ a, Refines w (f a) (.ok a)) : Refines w (m >>= f) r := by
  have h := bind (g := fun a => Res.ok a) hm hf
  have e : (r >>= fun a => Res.ok a) = r := by cases r <;> rfl
  rw [e] at h; exact h

theorem ite {c : Prop} [Decidable c] {a b : AM α} {x y : Res α}
    (h1 : c → Refines w a x) (h2 : ¬ c → Refines w b y) :
    Refines w (if c then a else b) (if c then x else y) := by
  by_cases h : c
  · simp only [if_pos h]; exact h1 h
  · simp only [if_neg h]; exact h2 h

end Refines

section
variable {o : Oracle} {w : Bool} (hw : w = true ∨ NoFail o)
include hw

/-- `malloc` / `calloc` / `strdup`: the NULL branch exists only in the weak reading -/
theorem Refines.malloc_bind {β : Type} {site : Site} {f : Bool → AM β} {r : Res β}
    (ht : Refines w (f true) r) (hf : w = true → Refines w (f false) r) :
    Refines w (malloc o site >>= f) r := by
  intro hp
  rw [bind_apply]
  unfold malloc
  by_cases ho : o hp.n = true
  · simp only [ho, if_true]
    rcases hw with h | h
    · exact hf h _
    · rw [h hp.n] at ho; cases ho
  · simp only [ho]
    exact ht _

theorem Refines.realloc_bind {β : Type} {site : Site} {f : Bool → AM β} {r : Res β}
    (ht : Refines w (f true) r) (hf : w = true → Refines w (f false) r) :
    Refines w (realloc o site >>= f) r := by
  intro hp
  rw [bind_apply]
  unfold realloc
  by_cases ho : o hp.n = true
  · simp only [ho, if_true]
    rcases hw with h | h
    · exact hf h _
    · rw [h hp.n] at ho; cases ho
  · simp only [ho]
    exact ht _

omit hw in
theorem release_ok (k : Nat) : ∀ hp, ∃ hp', release k hp = .ok () hp' := fun _ => ⟨_, rfl⟩

omit hw in
theorem freeStr_ok (s : Option Bytes) : ∀ hp, ∃ hp', freeStr s hp = .ok () hp' := fun _ => ⟨_, rfl⟩

theorem extendA_refines (h : Hdr) (inp : Bytes) (n : Nat) :
    Refines w (extendA o h inp n) (extend h inp n) := by
  unfold extendA
  split
  · rename_i hgt
    have : extend h inp n = .fail := by unfold extend; rw [if_pos hgt]
    rw [this]; exact Refines.failH h
  · refine Refines.realloc_bind hw ?_ (fun hw' => ?_)
    · simp only [↓reduceIte]; exact Refines.liftR _ _
    · simp only [Bool.false_eq_true, ↓reduceIte]; exact Refines.failAny hw' _ _

/-! ### extended headers -/

omit hw in
theorem decodeExt_short {h : Hdr} {num off len minLen : Nat} (hl : lookupExt num = some minLen)
    (hs : len < minLen) : decodeExt h num off len = .ok h := by
  unfold decodeExt; rw [hl]; simp only [if_pos hs]

theorem decodeExtA_refines (h : Hdr) (num off len : Nat) :
    Refines w (decodeExtA o h num off len) (decodeExt h num off len) := by
  unfold decodeExtA
  split
  · rename_i minLen site hl hs
    split
    · rename_i hlt
      rw [decodeExt_short hl hlt]; exact Refines.pure h
    · refine Refines.malloc_bind hw ?_ (fun hw' => ?_)
      · simp only [↓reduceIte]
        refine Refines.bind_pure (Refines.liftR _ _) (fun h' => ?_)
        exact Refines.bind_ok (freeStr_ok _) (Refines.pure h')
      · simp only [Bool.false_eq_true, ↓reduceIte]; exact Refines.failAny hw' _ _
  · exact Refines.liftR _ _

theorem extLoopA_refines (fs : Nat) (h : Hdr) (off avail : Nat) :
    Refines w (extLoopA o fs h off avail) (extLoop fs h off avail) := by
  fun_induction extLoop fs h off avail with
  | case1 h off avail hc ih =>
    rw [extLoopA]
    simp only [if_pos hc]
    refine Refines.bind (Refines.liftR _ _) (fun len => ?_)
    refine Refines.ite (fun _ => Refines.pure h) (fun hz => ?_)
    refine Refines.ite (fun _ => Refines.failH h) (fun hb => ?_)
    refine Refines.bind (Refines.liftR _ _) (fun num => ?_)
    refine Refines.bind (decodeExtA_refines hw _ _ _ _) (fun h' => ?_)
    exact ih len hb h'
  | case2 h off avail hc =>
    rw [extLoopA]
    simp only [if_neg hc]
    exact Refines.pure h

theorem decodeExtendedHeadersA_refines (h : Hdr) (off : Nat) :
    Refines w (decodeExtendedHeadersA o h off) (decodeExtendedHeaders h off) := by
  unfold decodeExtendedHeadersA decodeExtendedHeaders
  simp only []
  refine Refines.ite (fun _ => Refines.liftR _ _) (fun _ => ?_)
  exact extLoopA_refines hw _ _ _ _

end
end LhasaV.Alloc
