import LhasaV.Lemmas.ExtractTree12
/-!
# C06 (part 13): extraction reproduces the archived tree

`extract_tree`: extracting a well-formed archive into an empty directory yields exactly the tree
the archive describes (`treeOf`): contents, modes, times, link targets — directories included,
although their children were written after them and even when their recorded permissions forbid
writing.  `dir_meta_final`: the statement about directories alone.
-/
namespace LhasaV.ExtractTree
open LhasaV LhasaV.Header LhasaV.Extract LhasaV.GlobFs LhasaV.Contain

/-- **the tree an archive describes**: at the path of an entry, the entry in its final form —
a file with its contents, recorded permission bits and time stamp, a directory with its recorded
permission bits and time stamp, a link with its target; nothing anywhere else -/
def treeOf (now umask : Nat) (es : List Entry) (p : Fs.Path) : Option Fs.Ent :=
  (es.find? (fun e => e.path == p)).map (Entry.final now umask)

/-- an empty extraction directory that the user may search and write -/
structure EmptyDir (fs0 : Fs.St) : Prop where
  dir : ∃ m t, Fs.lookup fs0 fs0.cwd = some (.dir m t) ∧
    (fs0.root = true ∨ (m / 64 % 2 = 1 ∧ m / 128 % 2 = 1))
  empty : ∀ p, p ≠ [] → Fs.lookup fs0 (fs0.cwd ++ p) = none

/-- the state in which `lha x archive` starts -/
structure Start (s : Extract.St) : Prop where
  aborted : s.aborted = false
  result : s.result = true
  opts : OptsOk s.opts
  ty : s.rd.currType = .start
  policy : s.rd.policy = .endOfDir
  stack : s.rd.dirStack = []
  deferred : s.rd.deferred = []

theorem fsInv_start (fs0 : Fs.St) (h : EmptyDir fs0) : FsInv fs0 [] [] fs0 := by
  refine ⟨SameParams.refl fs0, fun e he => (by cases he), fun p hp _ => h.empty p hp, ?_, fun _ _ => rfl⟩
  obtain ⟨m, t, hl, ha⟩ := h.dir
  exact ⟨m, t, hl, ha, fun h => absurd rfl h⟩

theorem loopInv_start (s : Extract.St) (es : List Entry) (hs : Start s) (hfs : EmptyDir s.fs)
    (hwf : WellFormed es) : LoopInv s.fs [] [] es s := by
  refine ⟨⟨hs.aborted, hs.result, hs.opts, fsInv_start s.fs hfs, ?_, hwf⟩, ?_⟩
  · exact ⟨fun e he => (by cases he), List.nodup_nil, fun d hd => (by cases hd), trivial, List.nodup_nil⟩
  · refine ⟨hs.policy, hs.deferred, by rw [hs.stack]; trivial, Or.inl hs.ty, ?_⟩
    intro h
    rw [hs.ty] at h
    cases h

/-- the final state, entry by entry -/
theorem final_of_run (fuel : Nat) (s : Extract.St) (es : List Entry)
    (hs : Start s) (hfs : EmptyDir s.fs) (ha : Access s.fs) (hwf : WellFormed es)
    (hfuel : 2 * es.length + 1 ≤ fuel) (hden : Denotes fuel s es) :
    Final s.fs es (extractLoop fuel s) := by
  have := loop_final s.fs ha fuel s [] [] es (by simpa using hfuel)
    (loopInv_start s es hs hfs hwf) hden
  simpa using this

/-- **C06, extraction reproduces the archived tree.**  `s` is the start state of `lha x` (no
`w=`, no `i`, no wildcard arguments) in an empty extraction directory that the user — root, or
anyone whose umask keeps the owner bits — may write; the archive behind the reader denotes the
well-formed entry list `es`.  Then the run succeeds, below the extraction directory the file
system is exactly the tree of `es`, the extraction directory itself carries the time `now`,
and nothing outside it has changed. -/
theorem extract_tree (fuel : Nat) (s : Extract.St) (es : List Entry)
    (hs : Start s) (hfs : EmptyDir s.fs) (ha : Access s.fs) (hwf : WellFormed es)
    (hfuel : 2 * es.length + 1 ≤ fuel) (hden : Denotes fuel s es) :
    (extractLoop fuel s).result = true ∧ (extractLoop fuel s).aborted = false ∧
    (∀ p, p ≠ [] → Fs.lookup (extractLoop fuel s).fs (s.fs.cwd ++ p) = treeOf s.fs.now s.fs.umask es p) ∧
    (es ≠ [] → s.fs.cwd ≠ [] →
      ∃ m, Fs.lookup (extractLoop fuel s).fs s.fs.cwd = some (.dir m s.fs.now)) ∧
    (∀ x, ¬ s.fs.cwd <+: x → Fs.lookup (extractLoop fuel s).fs x = Fs.lookup s.fs x) := by
  have hF := final_of_run fuel s es hs hfs ha hwf hfuel hden
  refine ⟨hF.result, hF.aborted, ?_, ?_, hF.fs.outside⟩
  · intro p hp
    unfold treeOf
    cases hf : es.find? (fun e => e.path == p) with
    | none =>
      rw [List.find?_eq_none] at hf
      rw [hF.fs.none p hp (fun e he h => hf e he (by simp [h]))]
      rfl
    | some e =>
      have hm := List.mem_of_find?_eq_some hf
      have hpe : e.path = p := by simpa using List.find?_some hf
      have := hF.fs.ents e hm
      rw [if_neg (by simp), hpe] at this
      rw [this]; rfl
  · intro hne hc
    obtain ⟨m, t, hl, _, ht⟩ := hF.fs.cwd
    exact ⟨m, by rw [hl, ht hne hc]⟩

/-- **C06, directories keep their recorded metadata** (deliverable 2).  In the run of
`extract_tree`, every directory entry `D` of the archive — created with a private provisional
mode and the time `now`, stamped again whenever one of the entries inside it was written —
ends with exactly its recorded permission bits and its recorded modification time: the metadata
step (`set_directory_metadata`, on the re-presentation that the first entry lexically outside
`D`, or the end of the archive, triggers) comes after the last entry inside `D`, and no later
entry touches `D`. -/
theorem dir_meta_final (fuel : Nat) (s : Extract.St) (es : List Entry)
    (hs : Start s) (hfs : EmptyDir s.fs) (ha : Access s.fs) (hwf : WellFormed es)
    (hfuel : 2 * es.length + 1 ≤ fuel) (hden : Denotes fuel s es)
    (path : Fs.Path) (perms mtime : Nat) (hD : Entry.dir path (some perms) mtime ∈ es)
    (hm : mtime ≠ 0) :
    Fs.lookup (extractLoop fuel s).fs (s.fs.cwd ++ path) = some (.dir (perms % 4096) mtime) := by
  have hF := final_of_run fuel s es hs hfs ha hwf hfuel hden
  have := hF.fs.ents _ hD
  rw [if_neg (by simp)] at this
  rw [show (Entry.dir path (some perms) mtime).path = path from rfl] at this
  rw [this]
  simp [Entry.final, dirMode, hm]

/-- the same for a regular file: contents, permission bits, time -/
theorem file_final (fuel : Nat) (s : Extract.St) (es : List Entry)
    (hs : Start s) (hfs : EmptyDir s.fs) (ha : Access s.fs) (hwf : WellFormed es)
    (hfuel : 2 * es.length + 1 ≤ fuel) (hden : Denotes fuel s es)
    (path : Fs.Path) (data : Bytes) (perms mtime : Nat)
    (hD : Entry.file path data (some perms) mtime ∈ es) (hm : mtime ≠ 0) :
    Fs.lookup (extractLoop fuel s).fs (s.fs.cwd ++ path) = some (.file data (perms % 4096) mtime) := by
  have hF := final_of_run fuel s es hs hfs ha hwf hfuel hden
  have := hF.fs.ents _ hD
  rw [if_neg (by simp)] at this
  rw [show (Entry.file path data (some perms) mtime).path = path from rfl] at this
  rw [this]
  simp [Entry.final, fileMode, hm]

/-- and for a (safe) symbolic link: its target -/
theorem link_final (fuel : Nat) (s : Extract.St) (es : List Entry)
    (hs : Start s) (hfs : EmptyDir s.fs) (ha : Access s.fs) (hwf : WellFormed es)
    (hfuel : 2 * es.length + 1 ≤ fuel) (hden : Denotes fuel s es)
    (path : Fs.Path) (target : Bytes) (hD : Entry.link path target ∈ es) :
    Fs.lookup (extractLoop fuel s).fs (s.fs.cwd ++ path) = some (.link target) := by
  have hF := final_of_run fuel s es hs hfs ha hwf hfuel hden
  have := hF.fs.ents _ hD
  rw [if_neg (by simp)] at this
  exact this

/-! ## the two kinds of users -/

theorem access_root (fs0 : Fs.St) (h : fs0.root = true) : Access fs0 := Or.inl h

/-- an ordinary user with the usual umask 022 -/
theorem access_user_022 (fs0 : Fs.St) (h : fs0.umask = 0o022) : Access fs0 := by
  right; rw [h]; exact ownerRWX_022

/-! ## `Extract.run` -/

theorem start_run (archive : Array UInt8) (o : Opts) (fs : Fs.St) (answers : Bytes) (ho : OptsOk o) :
    Start (runInit archive o fs answers) :=
  ⟨rfl, rfl, ho, rfl, rfl, rfl, rfl⟩

/-- **C06 for `lha x archive`**: `Extract.run` on an archive that denotes the well-formed list `es` -/
theorem run_tree (archive : Array UInt8) (o : Opts) (fs : Fs.St) (answers : Bytes) (es : List Entry)
    (ho : OptsOk o) (hfs : EmptyDir fs) (ha : Access fs) (hwf : WellFormed es)
    (hfuel : 2 * es.length + 1 ≤ runFuel archive)
    (hden : Denotes (runFuel archive) (runInit archive o fs answers) es) :
    (run archive o fs answers).result = true ∧
    (∀ p, p ≠ [] → Fs.lookup (run archive o fs answers).fs (fs.cwd ++ p) = treeOf fs.now fs.umask es p) ∧
    (es ≠ [] → fs.cwd ≠ [] → ∃ m, Fs.lookup (run archive o fs answers).fs fs.cwd = some (.dir m fs.now)) ∧
    (∀ x, ¬ fs.cwd <+: x → Fs.lookup (run archive o fs answers).fs x = Fs.lookup fs x) := by
  rw [run_eq]
  have := extract_tree (runFuel archive) (runInit archive o fs answers) es
    (start_run archive o fs answers ho) hfs ha hwf hfuel hden
  exact ⟨this.1, this.2.2.1, this.2.2.2.1, this.2.2.2.2⟩

end LhasaV.ExtractTree
