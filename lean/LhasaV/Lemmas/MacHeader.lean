import LhasaV.Model.Reader
/-!
`is_macbinary_header` (macbinary.c), characterised field by field.
-/
namespace LhasaV.MacProps
open LhasaV LhasaV.Reader LhasaV.Header

/-- bytes `[a, b)` of `d` are zero (a byte beyond the end of `d` reads as zero, as in the model) -/
def ZeroRange (d : List UInt8) (a b : Nat) : Prop := ∀ i, a ≤ i → i < b → d.getD i 0 = 0

theorem getD_of_lt (d : List UInt8) (i : Nat) (h : i < d.length) : d.getD i 0 = d[i] := by
  simp [List.getD_eq_getElem?_getD, h]

theorem getD_of_ge (d : List UInt8) (i : Nat) (h : d.length ≤ i) : d.getD i 0 = 0 := by
  simp [List.getD_eq_getElem?_getD, List.getElem?_eq_none h]

theorem allZero_iff (d : List UInt8) (a n : Nat) :
    allZero ((d.drop a).take n) = true ↔ ZeroRange d a (a + n) := by
  unfold allZero ZeroRange
  rw [List.all_eq_true]
  constructor
  · intro h i hai hin
    by_cases hi : i < d.length
    · rw [getD_of_lt d i hi]
      have hm : d[i] ∈ (d.drop a).take n := by
        rw [List.mem_iff_getElem]
        refine ⟨i - a, by simp only [List.length_take, List.length_drop]; omega, ?_⟩
        simp only [List.getElem_take, List.getElem_drop]
        congr 1; omega
      simpa using h _ hm
    · exact getD_of_ge d i (by omega)
  · intro h x hx
    obtain ⟨j, hj, rfl⟩ := List.mem_iff_getElem.1 hx
    simp only [List.length_take, List.length_drop] at hj
    have := h (a + j) (by omega) (by omega)
    rw [getD_of_lt d (a + j) (by omega)] at this
    simp only [List.getElem_take, List.getElem_drop]
    simpa using this

/-- `(x + 127) / 128 * 128` in 32-bit arithmetic, as the C computes it -/
def round128 (x : Nat) : Nat := ((x + 0x7f) % 4294967296) / 128 * 128

/-- seconds between 1904-01-01 (Mac epoch) and 1970-01-01 -/
def macEpochOffset : Nat := 2082844800

/-- the field conditions of `is_macbinary_header(d, h)` -/
structure MacHeaderOK (d : List UInt8) (h : Hdr) : Prop where
  /-- old version number -/
  version : d.getD 0 0 = 0
  zero4a : d.getD 0x4a 0 = 0
  zero52 : d.getD 0x52 0 = 0
  /-- Get Info comment length -/
  comment : ZeroRange d 0x63 0x65
  /-- MacBinary II area -/
  macBinary2 : ZeroRange d 0x65 0x80
  /-- the name length byte is the length of the header's file name, at most 63 -/
  nameLen : (d.getD 1 0).toNat = (h.filename.getD []).length
  nameShort : (h.filename.getD []).length ≤ 63
  /-- the name is the header's file name … -/
  name : (d.drop 2).take (h.filename.getD []).length = h.filename.getD []
  /-- … followed by zeros up to the end of the 63-byte name field -/
  namePad : ZeroRange d (2 + (h.filename.getD []).length) 65
  /-- the member length is header + both forks, rounded up to 128 (all in 32-bit arithmetic) -/
  length : h.length = round128 ((be32 d 0x53 + be32 d 0x57 + 128) % 4294967296)
  /-- the modification time is not before 1970 … -/
  epoch : macEpochOffset ≤ be32 d 0x5f
  /-- … and within 14 hours of the header's timestamp -/
  timeLo : h.timestamp ≤ (be32 d 0x5f - macEpochOffset) + 14 * 60 * 60
  timeHi : (be32 d 0x5f - macEpochOffset) ≤ h.timestamp + 14 * 60 * 60

/-- **`is_macbinary_header`, field by field.** -/
theorem isMacBinaryHeader_spec (d : List UInt8) (h : Hdr) :
    isMacBinaryHeader d h = true ↔ MacHeaderOK d h := by
  have z1 := allZero_iff d 0x63 2
  have z2 := allZero_iff d 0x65 (128 - 0x65)
  have z3 := allZero_iff d (2 + (d.getD 1 0).toNat) (63 - (d.getD 1 0).toNat)
  unfold isMacBinaryHeader
  constructor
  · intro hm
    split at hm
    · cases hm
    · rename_i c1
      have v0 : d.getD 0 0 = 0 := Decidable.byContradiction (fun hn => c1 (Or.inl hn))
      have v1 : d.getD 0x4a 0 = 0 := Decidable.byContradiction (fun hn => c1 (Or.inr (Or.inl hn)))
      have v2 : d.getD 0x52 0 = 0 :=
        Decidable.byContradiction (fun hn => c1 (Or.inr (Or.inr (Or.inl hn))))
      have v3 : allZero ((d.drop 0x63).take 2) = true := by
        cases hb : allZero ((d.drop 0x63).take 2) with
        | true => rfl
        | false => exact absurd (Or.inr (Or.inr (Or.inr (Or.inl (by rw [hb]; rfl))))) c1
      have v4 : allZero ((d.drop 0x65).take (128 - 0x65)) = true := by
        cases hb : allZero ((d.drop 0x65).take (128 - 0x65)) with
        | true => rfl
        | false => exact absurd (Or.inr (Or.inr (Or.inr (Or.inr (by rw [hb]; rfl))))) c1
      dsimp only at hm
      split at hm
      · cases hm
      · rename_i c2
        have n0 : (d.getD 1 0).toNat ≤ 63 :=
          Nat.not_lt.1 (fun hn => c2 (Or.inl hn))
        have n1 : (d.getD 1 0).toNat = (h.filename.getD []).length :=
          Decidable.byContradiction (fun hn => c2 (Or.inr (Or.inl hn)))
        have n2 : (d.drop 2).take (d.getD 1 0).toNat = h.filename.getD [] :=
          Decidable.byContradiction (fun hn => c2 (Or.inr (Or.inr hn)))
        split at hm
        · cases hm
        · rename_i c3
          have c3' : allZero ((d.drop (2 + (d.getD 1 0).toNat)).take (63 - (d.getD 1 0).toNat)) = true := by
            cases hb : allZero ((d.drop (2 + (d.getD 1 0).toNat)).take (63 - (d.getD 1 0).toNat)) with
            | true => rfl
            | false => exact absurd (by rw [hb]; rfl) c3
          split at hm
          · cases hm
          · rename_i c4
            have c4' := Decidable.not_not.1 c4
            split at hm
            · cases hm
            · rename_i c5
              have hd := of_decide_eq_true hm
              have pad := z3.1 c3'
              rw [n1] at pad n2
              refine ⟨v0, v1, v2, z1.1 v3, z2.1 v4, n1, by omega, n2, ?_, c4', ?_, ?_, ?_⟩
              · intro i h1 h2; exact pad i h1 (by omega)
              · unfold macEpochOffset; omega
              · unfold macEpochOffset; split at hd <;> omega
              · unfold macEpochOffset; split at hd <;> omega
  · intro ok
    obtain ⟨v0, v1, v2, cm, mb, n1, ns, nm, np, ln, ep, tl, th⟩ := ok
    unfold macEpochOffset at ep tl th
    have v3 := z1.2 cm
    have v4 := z2.2 mb
    have c3 := z3.2 (by
      rw [n1]; intro i h1 h2; exact np i h1 (by omega))
    rw [if_neg (by rw [v0, v1, v2, v3, v4]; decide)]
    dsimp only
    rw [if_neg (by
      intro hn
      rcases hn with hn | hn | hn
      · omega
      · exact hn n1
      · rw [n1] at hn; exact hn nm)]
    rw [if_neg (by rw [c3]; decide)]
    unfold round128 at ln
    rw [if_neg (Decidable.not_not.2 ln)]
    rw [if_neg (by omega)]
    apply decide_eq_true
    split <;> omega

/-- without 32-bit overflow the length condition is the plain rounding-up -/
theorem round128_plain (dl rl : Nat) (h : dl + rl + 255 < 4294967296) :
    round128 ((dl + rl + 128) % 4294967296) = (dl + rl + 128 + 127) / 128 * 128 := by
  unfold round128
  rw [Nat.mod_eq_of_lt (by omega), Nat.mod_eq_of_lt (by omega)]

/-- the fork lengths are 32-bit numbers -/
theorem be32_lt (d : List UInt8) (off : Nat) : be32 d off < 4294967296 := by
  unfold be32
  have h0 := (d.getD off 0).toNat_lt
  have h1 := (d.getD (off + 1) 0).toNat_lt
  have h2 := (d.getD (off + 2) 0).toNat_lt
  have h3 := (d.getD (off + 3) 0).toNat_lt
  omega

/-! ### sanity checks and two corner cases of the 32-bit arithmetic -/

/-- a MacBinary header for a file `a` with data fork `dl`, resource fork `rl` (big-endian bytes),
modification time 1970-01-01 00:00:00 -/
def demoHeader (dl rl : List UInt8) : List UInt8 :=
  [0, 1, 0x61] ++ List.replicate 80 0 ++ dl ++ rl ++ List.replicate 4 0 ++ [0x7c, 0x25, 0xb0, 0x80]
    ++ List.replicate 29 0

/-- the archive header of a stored member `a` of `len` bytes, timestamp `t` -/
def demoHdr (len t : Nat) : Hdr :=
  { filename := some [0x61], method := "-lh0-".toUTF8.toList, compressedLength := len,
    length := len, osType := 0x6d, timestamp := t }

/-- non-vacuity: a 5-byte data fork in a 256-byte member is accepted … -/
example : isMacBinaryHeader (demoHeader [0, 0, 0, 5] [0, 0, 0, 0]) (demoHdr 256 0) = true := by
  decide +kernel
example : MacHeaderOK (demoHeader [0, 0, 0, 5] [0, 0, 0, 0]) (demoHdr 256 0) :=
  (isMacBinaryHeader_spec _ _).1 (by decide +kernel)
/-- … up to 14 hours away, and not a second more -/
example : isMacBinaryHeader (demoHeader [0, 0, 0, 5] [0, 0, 0, 0]) (demoHdr 256 50400) = true := by
  decide +kernel
example : isMacBinaryHeader (demoHeader [0, 0, 0, 5] [0, 0, 0, 0]) (demoHdr 256 50401) = false := by
  decide +kernel
example : isMacBinaryHeader (demoHeader [0, 0, 0, 5] [0, 0, 0, 0]) (demoHdr 384 0) = false := by
  decide +kernel

/-- **The plain formula `length = (dl + rl + 128 + 127) / 128 * 128` is NOT what the model (and the
C, which computes in `uint32_t`) checks.**  Fork lengths `dl = 0xffffffff`, `rl = 0x80` are accepted
for a member of 256 bytes, although `dl + rl + 255` rounded down to 128 is 4294967552. -/
theorem length_plain_false :
    isMacBinaryHeader (demoHeader [0xff, 0xff, 0xff, 0xff] [0, 0, 0, 0x80]) (demoHdr 256 0) = true ∧
    (demoHdr 256 0).length ≠
      (be32 (demoHeader [0xff, 0xff, 0xff, 0xff] [0, 0, 0, 0x80]) 0x53
        + be32 (demoHeader [0xff, 0xff, 0xff, 0xff] [0, 0, 0, 0x80]) 0x57 + 128 + 127) / 128 * 128 := by
  decide +kernel

/-- the second wrap: `dl + rl + 128` just below 2³² rounds "up" to 0, so a header claiming a
data fork of 4294967167 bytes is accepted for a member of length 0 (harmless: such a member is
shorter than 128 bytes and `macbinary_decoder_init` never looks for a header in it) -/
theorem length_zero_accepted :
    isMacBinaryHeader (demoHeader [0xff, 0xff, 0xff, 0x7f] [0, 0, 0, 0]) (demoHdr 0 0) = true := by
  decide +kernel

end LhasaV.MacProps
