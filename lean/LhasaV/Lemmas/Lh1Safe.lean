import LhasaV.Lemmas.Lh1Init
import LhasaV.Lemmas.Lh1Swap
import LhasaV.Lemmas.Lh1Incr
import LhasaV.Lemmas.Lh1Rebuild
import LhasaV.Lemmas.Lh1Regroup
/-!
# The -lh1- decoder never faults (memory safety, property C09)

`Inv` (defined in `Lh1Defs.lean`) is the tree / frequency-group invariant of `lib/lh1_decoder.c`.
It holds after `lha_lh1_init`, is preserved by `lha_lh1_read`, and implies that no checked array
access of the model can fail, for ANY input bytes.
-/
namespace LhasaV.Lh1
open LhasaV.Res

/-! ## changing only the bit reader -/

theorem CInv.setBits {s : St} {x : Nat} (h : CInv s x) (b : Bits) (hb : b.WF) :
    CInv { s with bits := b } x :=
  ⟨⟨h.base.nodes, h.base.leafNodes, h.base.groups, h.base.groupLeader, h.base.ring, h.base.pos, hb,
    h.base.olk, h.base.oln, h.base.olk_lt, h.base.oln_le⟩, h.tree, h.grp⟩

/-! ## `read_code`: the walk down the tree -/

theorem walk_safe (k i : Nat) (s : St) (x : Nat) (h : CInv s x) (hi : i < 627) :
    Safe (walk k i s) (fun r => CInv r.2 x ∧ ∀ c, r.1 = some c → c < 314) := by
  induction k generalizing i s with
  | zero => exact safe_ok ⟨h, by intro c hc; cases hc⟩
  | succ k ih =>
    unfold walk
    rw [getNode_ok _ _ _ (by rw [h.base.nodes]; exact hi)]
    simp only [ok_bind]
    cases hl : (nd s i).leaf with
    | true =>
      simp only [if_true]
      refine safe_ok ⟨h, ?_⟩
      intro c hc
      have := (h.tree.le i hi hl).1
      simp only [Option.some.injEq] at hc
      subst hc; exact this
    | false =>
      simp only [Bool.false_eq_true, if_false]
      have hwf := Bits.readBit_wf s.bits h.base.bits
      cases hp : (s.bits.readBit).1 with
      | none =>
        simp only []
        exact safe_ok ⟨h.setBits _ hwf, by intro c hc; cases hc⟩
      | some bit =>
        simp only []
        have hb1 := Bits.readBit_le s.bits h.base.bits bit hp
        have hbr := h.tree.br i hi hl
        have hch : (nd s i).child = ch s i := rfl
        rw [hch]
        have hnot : ¬ ch s i < bit := by omega
        simp only [hnot, if_false]
        exact ih (ch s i - bit) _ (h.setBits _ hwf) (by omega)

/-! ## `read_offset` -/

theorem readOffset_safe (s : St) (x : Nat) (h : CInv s x) :
    Safe (readOffset s) (fun r => CInv r.2 x) := by
  unfold readOffset
  have hw1 := Bits.peek_wf s.bits 8 h.base.bits
  cases hp : (s.bits.peek 8).1 with
  | none => simp only [hp]; exact safe_ok (h.setBits _ hw1)
  | some future =>
    simp only [hp]
    have hf : future < 256 := by
      have := Bits.peek_lt s.bits 8 h.base.bits future hp
      omega
    rw [getA_ok _ _ _ (by rw [h.base.olk]; exact hf)]
    simp only [ok_bind]
    have ho := h.base.olk_lt future hf
    rw [getA_ok _ _ _ (by rw [h.base.oln]; exact ho)]
    simp only [ok_bind]
    have hw2 := Bits.readBits_wf _ (s.offsetLengths.getD (s.offsetLookup.getD future 0) 0) hw1
    have hw3 := Bits.readBits_wf _ 6 hw2
    split
    · exact safe_ok (h.setBits _ hw3)
    · exact safe_ok (h.setBits _ hw3)

/-! ## `++nodes[0].freq` puts the pending-increment marker on the leaf of the code -/

theorem Tree.rootIncr {lf : Nat → Bool} {ch pa fr ln : Nat → Nat} (h : Tree lf ch pa fr ln 0)
    (x : Nat) (hxl : lf x = true) (hlt : fr 0 < 32768) :
    Tree lf ch pa (upd fr 0 (fr 0 + 1)) ln x := by
  have h0 := h.ch0
  have hx0 : x ≠ 0 := by intro e; rw [e] at hxl; rw [h0.1] at hxl; cases hxl
  refine ⟨h.br, h.le, h.cd, h.pr, ?_, ?_, ?_, ?_, h.nleaf⟩
  · intro i hi
    have := h.pos i hi
    simp only [upd_apply]; split <;> omega
  · intro i hi hb
    have hs := h.sum i hi hb
    have hc := h.ch_gt hi hb
    have hix : i ≠ x := by intro e; rw [e] at hb; rw [hb] at hxl; cases hxl
    simp only [upd_apply]
    have e1 : ¬ (ch i = 0) := by omega
    have e2 : ¬ (ch i - 1 = 0) := by omega
    simp only [e1, e2, if_false]
    have e3 : ¬ (i = x ∧ x ≠ 0) := fun hh => hix hh.1
    simp only [e3, if_false]
    simp only [show ¬ (i = 0 ∧ (0:Nat) ≠ 0) from fun hh => hh.2 rfl, if_false] at hs
    by_cases hi0 : i = 0
    · subst hi0
      simp only [if_true, true_and, hx0, ne_eq, not_false_eq_true]
      omega
    · simp only [hi0, if_false, false_and]
      omega
  · have hl := h.lsum
    simp only [show ¬ ((0:Nat) ≠ 0 ∧ lf 0 = true) from fun hh => hh.1 rfl, if_false] at hl
    have : leafSum lf (upd fr 0 (fr 0 + 1)) = leafSum lf fr := by
      unfold leafSum
      apply sumTo_congr
      intro i _
      by_cases hi0 : i = 0
      · subst hi0; simp [h0.1]
      · simp [upd_apply, hi0]
    rw [this]
    simp only [upd_apply, if_true, hx0, ne_eq, not_false_eq_true, true_and, hxl]
    omega
  · simp only [upd_apply, if_true]; omega

theorem Grp.rootIncr {fr gp gl fg : Nat → Nat} {ng : Nat} (h : Grp fr gp gl fg ng)
    (hgt : ∀ i, 1 ≤ i → i < 627 → fr i < fr 0) :
    Grp (upd fr 0 (fr 0 + 1)) gp gl fg ng := by
  have hgl0 : gl (gp 0) = 0 := by
    have := (h.ldr 0 (by omega)).2 0 (by omega) rfl
    omega
  refine ⟨?_, ?_, h.rng, ?_, h.free, h.inj, ?_⟩
  · intro i hi
    have := h.sorted i hi
    simp only [upd_apply]
    by_cases hi0 : i = 0
    · subst hi0; simp at this ⊢; omega
    · simp [hi0]; exact this
  · intro i j hi hj
    have he := h.eqv i j hi hj
    simp only [upd_apply]
    by_cases hi0 : i = 0 <;> by_cases hj0 : j = 0
    · subst hi0; subst hj0; simp
    · subst hi0
      have := hgt j (by omega) hj
      simp only [if_true, hj0, if_false]
      constructor
      · intro e; have := he.1 e; omega
      · intro e; omega
    · subst hj0
      have := hgt i (by omega) hi
      simp only [if_true, hi0, if_false]
      constructor
      · intro e; have := he.1 e; omega
      · intro e; omega
    · simp only [hi0, hj0, if_false]; exact he
  · intro i hi
    have hl := h.ldr i hi
    by_cases hi0 : i = 0
    · subst hi0
      rw [hgl0]
      exact ⟨rfl, fun j _ _ => Nat.zero_le _⟩
    · have hlt := hgt i (by omega) hi
      have hm0 : gl (gp i) ≠ 0 := by
        intro e; rw [e] at hl; omega
      simp only [upd_apply, hm0, hi0, if_false]
      refine ⟨hl.1, ?_⟩
      intro j hj
      by_cases hj0 : j = 0
      · subst hj0; simp only [if_true]; intro e; omega
      · simp only [hj0, if_false]; exact hl.2 j hj
  · rw [h.cnt]
    unfold leaders
    apply cntP_congr
    intro i hi
    by_cases hi0 : i = 0
    · subst hi0; simp
    · by_cases hi1 : i = 1
      · subst hi1
        have := hgt 1 (by omega) (by omega)
        simp [upd_apply]; omega
      · have e : i - 1 ≠ 0 := by omega
        simp [upd_apply, hi0, e]

theorem rootIncr_inv (s : St) (h : CInv s 0) (hlt : fr s 0 < 32768) (c : Nat) (hc : c < 314) :
    CInv { s with nodes := s.nodes.setIfInBounds 0 { nd s 0 with freq := (fr s 0 + 1) % 65536 } }
      (ln s c) := by
  have hsz : 0 < s.nodes.size := by rw [h.base.nodes]; omega
  have hmod : (fr s 0 + 1) % 65536 = fr s 0 + 1 := Nat.mod_eq_of_lt (by omega)
  rw [hmod]
  have hnd : ∀ j, nd { s with nodes := s.nodes.setIfInBounds 0 { nd s 0 with freq := fr s 0 + 1 } } j =
      if j = 0 then { nd s 0 with freq := fr s 0 + 1 } else nd s j := fun j => nd_set s 0 j _ hsz
  have hlf : lf { s with nodes := s.nodes.setIfInBounds 0 { nd s 0 with freq := fr s 0 + 1 } } = lf s := by
    funext j; simp only [lf, hnd]; split
    · next e => rw [e]
    · rfl
  have hch : ch { s with nodes := s.nodes.setIfInBounds 0 { nd s 0 with freq := fr s 0 + 1 } } = ch s := by
    funext j; simp only [ch, hnd]; split
    · next e => rw [e]
    · rfl
  have hpa : pa { s with nodes := s.nodes.setIfInBounds 0 { nd s 0 with freq := fr s 0 + 1 } } = pa s := by
    funext j; simp only [pa, hnd]; split
    · next e => rw [e]
    · rfl
  have hgp : gp { s with nodes := s.nodes.setIfInBounds 0 { nd s 0 with freq := fr s 0 + 1 } } = gp s := by
    funext j; simp only [gp, hnd]; split
    · next e => rw [e]
    · rfl
  have hfr : fr { s with nodes := s.nodes.setIfInBounds 0 { nd s 0 with freq := fr s 0 + 1 } } =
      upd (fr s) 0 (fr s 0 + 1) := by
    funext j
    show (nd _ j).freq = _
    rw [hnd j]
    by_cases hj : j = 0
    · simp only [hj, if_true, upd_apply]
    · simp only [hj, if_false, upd_apply]; rfl
  have hcd := h.tree.cd c hc
  refine ⟨h.base.congr (by simp) rfl rfl rfl rfl rfl rfl rfl rfl, ?_, ?_⟩
  · rw [hlf, hch, hpa, hfr]
    exact h.tree.rootIncr (ln s c) hcd.2.1 hlt
  · rw [hfr, hgp]
    exact h.grp.rootIncr (fun i h1 hi => h.tree.root_gt h.grp.sorted h1 hi)

/-! ## `reconstruct_tree` -/

theorem safe_of_eq_ok {α} {r : Res α} {a : α} {P : α → Prop} (h : r = .ok a) (hp : P a) : Safe r P := by
  rw [h]; exact safe_ok hp

theorem reconstructTree_safe (s : St) (h : CInv s 0) :
    Safe (reconstructTree s) (fun s' => CInv s' 0 ∧ fr s' 0 < 32768) := by
  obtain ⟨s1, s2, h1, h2, hb2, ht2, hs2, hlt⟩ := rebuildTree_spec s h.base h.tree h.grp.sorted
  obtain ⟨s3, h3, hb3, elf, ech, epa, efr, eln, hg3⟩ := regroupAll_spec s2 hb2 hs2
  rw [reconstructTree_eq]
  refine safe_bind (P := fun t => t = s1) (safe_of_eq_ok h1 rfl) ?_
  intro t ht
  subst ht
  refine safe_bind (P := fun t => t = s2) (safe_of_eq_ok h2 rfl) ?_
  intro t ht
  subst ht
  refine safe_of_eq_ok h3 ⟨⟨hb3, ?_, hg3⟩, ?_⟩
  · rw [elf, ech, epa, efr, eln]; exact ht2
  · rw [efr]; exact hlt

/-! ## the climb of `increment_for_code` -/

theorem climb_safe (k x : Nat) (s : St) (h : CInv s x) (hx : x < 627) (hk : x < k) :
    Safe (climb k x s) (fun s' => CInv s' 0) := by
  induction k generalizing x s with
  | zero => omega
  | succ k ih =>
    unfold climb
    by_cases hx0 : x = 0
    · subst hx0; simp only [if_true]; exact safe_ok h
    · simp only [hx0, if_false]
      obtain ⟨L, s1, e1, h1, hL1, hLx, hld⟩ := makeGroupLeader_spec s x h hx0 hx
      rw [e1]
      simp only [ok_bind]
      obtain ⟨s2, e2, h2, hpa⟩ := incrementNodeFreq_spec s1 L h1 hL1 (by omega) hld
      rw [e2]
      simp only [ok_bind]
      rw [getNode_ok _ _ _ (by rw [h2.base.nodes]; omega)]
      simp only [ok_bind]
      have hp : (nd s2 L).parent = pa s1 L := hpa
      rw [hp]
      have hlt := (h1.tree.pr L hL1 (by omega)).1
      exact ih (pa s1 L) s2 h2 (by omega) (by omega)

theorem incrementForCode_safe (s : St) (h : CInv s 0) (code : Nat) (hc : code < 314) :
    Safe (incrementForCode s code) (fun s' => CInv s' 0) := by
  -- the part after the optional rebuild
  have hrest : ∀ s1 : St, CInv s1 0 → fr s1 0 < 32768 →
      Safe (do
        let root ← getNode s1 "nodes[0]" 0
        let s ← setNode s1 "++nodes[0].freq" 0 { root with freq := (root.freq + 1) % 65536 }
        let ni ← getA s.leafNodes "leaf_nodes[code]" code
        climb (numNodes + 1) ni s) (fun s' => CInv s' 0) := by
    intro s1 h1 hlt
    have hsz1 : 0 < s1.nodes.size := by rw [h1.base.nodes]; omega
    rw [getNode_ok _ _ _ hsz1]
    simp only [ok_bind]
    rw [setNode_ok _ _ _ _ hsz1]
    simp only [ok_bind]
    have h2 := rootIncr_inv s1 h1 hlt code hc
    have hfr : (nd s1 0).freq = fr s1 0 := rfl
    rw [hfr]
    rw [getA_ok _ _ _ (by show code < s1.leafNodes.size; rw [h1.base.leafNodes]; exact hc)]
    simp only [ok_bind]
    have hcd := h1.tree.cd code hc
    exact climb_safe _ _ _ h2 hcd.1
      (by show ln s1 code < numNodes + 1; simp only [numNodes, Gen.lh1NumTreeNodes]; omega)
  unfold incrementForCode
  have hsz : 0 < s.nodes.size := by rw [h.base.nodes]; omega
  rw [getNode_ok _ _ _ hsz]
  simp only [ok_bind]
  by_cases hge : (nd s 0).freq ≥ Gen.lh1TreeReorderLimit
  · simp only [hge, if_true]
    refine safe_bind (reconstructTree_safe s h) ?_
    intro s1 ⟨h1, hlt⟩
    exact hrest s1 h1 hlt
  · simp only [hge, if_false]
    have : fr s 0 < 32768 := by
      have e : fr s 0 = (nd s 0).freq := rfl
      simp only [Gen.lh1TreeReorderLimit] at hge
      omega
    exact hrest s h this

/-! ## `lha_lh1_read` -/

theorem read_safe (s : St) (h : Inv s) :
    Safe (read s) (fun r => Inv r.2 ∧ r.1.length ≤ 60) := by
  unfold read
  refine safe_bind (walk_safe _ 0 s 0 h (by omega)) ?_
  intro r ⟨hr, hcode⟩
  obtain ⟨code?, s1⟩ := r
  simp only at hr hcode ⊢
  cases code? with
  | none => exact safe_ok ⟨hr, by simp⟩
  | some code =>
    simp only []
    have hc := hcode code rfl
    refine safe_bind (incrementForCode_safe s1 hr code hc) ?_
    intro s2 h2
    by_cases h256 : code < 256
    · simp only [h256, if_true]
      have hp : s2.pos < s2.ring.size := by rw [h2.base.ring]; exact h2.base.pos
      simp only [hp, if_true]
      refine safe_ok ⟨⟨?_, h2.tree, h2.grp⟩, by simp⟩
      exact ⟨h2.base.nodes, h2.base.leafNodes, h2.base.groups, h2.base.groupLeader,
        by simp [h2.base.ring], Nat.mod_lt _ (by simp [Gen.lh1RingSize]), h2.base.bits,
        h2.base.olk, h2.base.oln, h2.base.olk_lt, h2.base.oln_le⟩
    · simp only [h256, if_false]
      refine safe_bind (readOffset_safe s2 0 h2) ?_
      intro r3 h3
      obtain ⟨off?, s3⟩ := r3
      simp only at h3 ⊢
      cases off? with
      | none => exact safe_ok ⟨h3, by simp⟩
      | some offset =>
        simp only []
        have hcl := Ring.copyLoop_safe Gen.lh1RingSize (code - 256 + Gen.lh1CopyThreshold)
          ((s3.pos + 4294967296 - offset + Gen.lh1RingSize - 1) % Gen.lh1RingSize) s3.ring s3.pos []
          h3.base.ring h3.base.pos
        refine safe_bind hcl ?_
        intro r4 ⟨hsz, hpos, hlen⟩
        refine safe_ok ⟨⟨?_, h3.tree, h3.grp⟩, ?_⟩
        · exact ⟨h3.base.nodes, h3.base.leafNodes, h3.base.groups, h3.base.groupLeader,
            hsz, hpos, h3.base.bits, h3.base.olk, h3.base.oln, h3.base.olk_lt, h3.base.oln_le⟩
        · simp only [List.length_reverse, hlen, List.length_nil, Gen.lh1CopyThreshold]
          omega

/-! ## the decoder object -/

/-- invariant of the `Dec` state (`Res St`): initialisation succeeded and `Inv` holds -/
def InvR (rs : Res St) : Prop := ∃ s, rs = .ok s ∧ Inv s

theorem init_inv (src : Src) : InvR (Lh1.dec.init src) := init_spec src

theorem dec_read_inv (rs : Res St) (h : InvR rs) (out : List UInt8) (rs' : Res St)
    (hr : Lh1.dec.read rs = .ok (out, rs')) : InvR rs' ∧ out.length ≤ 60 := by
  obtain ⟨s, rfl, hi⟩ := h
  have hs := read_safe s hi
  simp only [dec] at hr
  cases hrd : read s with
  | ok r =>
    rw [hrd] at hr
    simp only [ok_bind, Res.ok.injEq, Prod.mk.injEq] at hr
    have := hs.2 r hrd
    obtain ⟨e1, e2⟩ := hr
    subst e1; subst e2
    exact ⟨⟨r.2, rfl, this.1⟩, this.2⟩
  | fail => rw [hrd] at hr; simp at hr
  | fault w => rw [hrd] at hr; simp at hr

theorem reach_inv (src : Src) (n : Nat) (rs : Res St) (hs : Dec.Reach Lh1.dec src n rs) : InvR rs :=
  Dec.reach_inv Lh1.dec InvR init_inv (fun s h out s' hr => (dec_read_inv s h out s' hr).1) src n rs hs

/-- **Memory safety of -lh1-.** For ANY input bytes, any chunking of the callback and any number of
previous successful reads, the next `lha_lh1_read` performs no out-of-range array access
(`nodes[]`, `leaf_nodes[]`, `groups[]`, `group_leader[]`, offset tables, ring buffer), no
`num_groups` under/overflow, no `node_index - 1` / `child_index - bit` underflow, and its loops
terminate. -/
theorem run_no_fault (src : Src) (n : Nat) (s : Res St) (hs : Dec.Reach Lh1.dec src n s) :
    ∀ w, Lh1.dec.read s ≠ .fault w := by
  obtain ⟨s0, rfl, hi⟩ := reach_inv src n s hs
  have h := (read_safe s0 hi).1
  intro w hw
  simp only [dec] at hw
  cases hrd : read s0 with
  | ok r => rw [hrd] at hw; simp at hw
  | fail => rw [hrd] at hw; simp at hw
  | fault w' => exact h w' hrd

/-- one read returns at most 60 bytes, which fits the output buffer -/
theorem read_len (src : Src) (n : Nat) (s : Res St) (hs : Dec.Reach Lh1.dec src n s)
    (out : List UInt8) (s' : Res St) (hr : Lh1.dec.read s = .ok (out, s')) :
    out.length ≤ Gen.lh1MaxRead := by
  have := (dec_read_inv s (reach_inv src n s hs) out s' hr).2
  simp only [Gen.lh1MaxRead]; omega

end LhasaV.Lh1
