import LhasaV.Lemmas.Contain3
import LhasaV.Lemmas.ReaderLedger
/-!
# C10, the extraction loop (part 4)

`extract_archived_file` and the loop of `extract_archive`, relative to a predicate on the headers
the reader presents (`Presented`):

* `extractLoop_contained_main`: as long as the reader presents no deferred link, the whole loop is
  `Contained` (every mutation below the extraction directory, links stay safe).
* `extractLoop_below`: in general (deferred links included) every mutation the loop logs is below
  the extraction directory (`Below`).  This needs the repaired `extract_archived_file`, which
  creates parent directories for first-time entries only: before the repair
  `make_parent_directories` ran also for deferred links, in a state where dangerous links
  already exist, and walked through them (see `Contain.lean`, `parents_escape_after_deferred`).
-/
namespace LhasaV.Contain
open LhasaV LhasaV.Header LhasaV.Extract LhasaV.GlobFs

/-! ## `extract_archived_file` in pieces -/

/-- the overwrite check of `extract_archived_file` -/
def preOf (s : St) (h : Hdr) : Option (Bool × St) :=
  if !isDirEntry h ∧ !h.symlinkTarget.isSome then
    match Fs.existsKind s.fs (fileFullPath h s.opts) with
    | .error => none
    | .none => some (false, s)
    | _ =>
      match confirmOverwrite 64 s.opts.overwrite s.answers with
      | none => none
      | some (yes, pol, rest) =>
        some (!yes, { s with opts := { s.opts with overwrite := pol }, answers := rest })
  else some (false, s)

/-- what the overwrite check leaves alone -/
structure SameFs (s s' : St) : Prop where
  fs : s'.fs = s.fs
  rd : s'.rd = s.rd
  xp : s'.opts.extractPath = s.opts.extractPath
  up : s'.opts.usePath = s.opts.usePath

theorem preOf_same (s : St) (h : Hdr) (b : Bool) (s' : St) (hp : preOf s h = some (b, s')) :
    SameFs s s' := by
  unfold preOf at hp
  split at hp
  · split at hp
    · cases hp
    · injection hp with hp; injection hp with _ hp; subst hp; exact ⟨rfl, rfl, rfl, rfl⟩
    · split at hp
      · cases hp
      · injection hp with hp; injection hp with _ hp; subst hp; exact ⟨rfl, rfl, rfl, rfl⟩
  · injection hp with hp; injection hp with _ hp; subst hp; exact ⟨rfl, rfl, rfl, rfl⟩

/-- `make_parent_directories`, for first-time entries only (the repair of the deferred-phase
escape): a re-presented directory or a deferred link had its parents created before -/
def parentsOf (s : St) (fn : Bytes) : Bool × Fs.St :=
  if s.rd.currType == .fakeDir || s.rd.currType == .deferred then (true, s.fs)
  else makeParentDirectories s.fs fn

theorem eaf_eq (s : St) (h : Hdr) : extractArchivedFile s h =
    match preOf s h with
    | none => { s with aborted := true, result := false, out := "abort" :: s.out }
    | some (true, s) => { s with out := "skipped" :: s.out }
    | some (false, s') =>
      if !s'.opts.usePath ∧ isDirEntry h then { s' with out := "dir-ignored" :: s'.out } else
      let mp := parentsOf s' (fileFullPath h s.opts)
      if !mp.1 then { s' with fs := mp.2, result := false, out := "parent-failed" :: s'.out } else
      let r := readerExtract s'.rd mp.2 (fileFullPath h s.opts)
      { s' with rd := r.2.1, fs := r.2.2, result := s'.result && r.1, out := (if r.1 then "ok" else "failed") :: s'.out } := rfl

theorem parentsOf_same (s s' : St) (fn : Bytes) (h : SameFs s s') : parentsOf s' fn = parentsOf s fn := by
  unfold parentsOf; rw [h.fs, h.rd]

theorem eaf_cases (s : St) (h : Hdr) :
    ((extractArchivedFile s h).fs = s.fs ∧ (extractArchivedFile s h).rd = s.rd) ∨
    ((extractArchivedFile s h).fs = (parentsOf s (fileFullPath h s.opts)).2 ∧
      (extractArchivedFile s h).rd = s.rd) ∨
    ((extractArchivedFile s h).fs =
        (readerExtract s.rd (parentsOf s (fileFullPath h s.opts)).2 (fileFullPath h s.opts)).2.2 ∧
      (extractArchivedFile s h).rd =
        (readerExtract s.rd (parentsOf s (fileFullPath h s.opts)).2 (fileFullPath h s.opts)).2.1) := by
  rw [eaf_eq]
  split
  · exact Or.inl ⟨rfl, rfl⟩
  · rename_i s' hp
    have := preOf_same s h _ s' hp
    exact Or.inl ⟨this.fs, this.rd⟩
  · rename_i s' hp
    have hsame := preOf_same s h _ s' hp
    split
    · exact Or.inl ⟨hsame.fs, hsame.rd⟩
    · simp only
      rw [parentsOf_same s s' _ hsame]
      split
      · exact Or.inr (Or.inl ⟨rfl, hsame.rd⟩)
      · exact Or.inr (Or.inr ⟨by rw [hsame.rd], by rw [hsame.rd]⟩)

theorem eaf_opts (s : St) (h : Hdr) :
    (extractArchivedFile s h).opts.extractPath = s.opts.extractPath ∧
    (extractArchivedFile s h).opts.usePath = s.opts.usePath := by
  rw [eaf_eq]
  split
  · exact ⟨rfl, rfl⟩
  · rename_i s' hp
    have := preOf_same s h _ s' hp
    exact ⟨this.xp, this.up⟩
  · rename_i s' hp
    have hsame := preOf_same s h _ s' hp
    split
    · exact ⟨hsame.xp, hsame.up⟩
    · simp only
      split
      · exact ⟨hsame.xp, hsame.up⟩
      · exact ⟨hsame.xp, hsame.up⟩

/-! ## headers whose constructed path is relative and ".."-free -/

/-- the last component of the constructed path is not ".." (a member may be NAMED "..":
`GlobFs.dotdot_name_possible`; the C11 invariant does not exclude it) -/
def NotNamedDotDot (o : Opts) (h : Hdr) : Prop :=
  (Fs.splitPath (fileFullPath h o)).getLast? ≠ some [0x2e, 0x2e]

/-- the C11 invariant (proved for every parsed header) plus "not named '..'" -/
def HdrOk (o : Opts) (h : Hdr) : Prop := FnOk h ∧ PathOk h ∧ NotNamedDotDot o h

theorem stripSlashes_no_lead (s : Bytes) : (stripSlashes s).head? ≠ some 0x2f := by
  unfold stripSlashes
  induction s with
  | nil => simp
  | cons b bs ih =>
    simp only [List.dropWhile_cons]
    split
    · exact ih
    · rename_i h; simp at h; simpa using h

theorem full_path_relative (h : Hdr) (o : Opts) (hw : o.extractPath = none) :
    (fileFullPath h o).head? ≠ some 0x2f := by
  unfold fileFullPath
  simp only [hw, List.nil_append]
  by_cases hu : o.usePath = true
  · simp only [hu, if_true]
    cases hp : stripSlashes (h.path.getD []) with
    | nil => simpa using stripSlashes_no_lead (h.filename.getD [])
    | cons b bs =>
      have := stripSlashes_no_lead (h.path.getD [])
      rw [hp] at this
      simpa using this
  · simp only [hu, Bool.false_eq_true, if_false, List.nil_append]
    exact stripSlashes_no_lead (h.filename.getD [])

theorem hdrOk_relClean (o : Opts) (h : Hdr) (hw : o.extractPath = none) (hk : HdrOk o h) :
    RelClean (fileFullPath h o) :=
  ⟨full_path_relative h o hw, full_path_no_dotdot h o hk.1 hk.2.1 hw hk.2.2⟩

/-- the side conditions of `GlobFs.full_path_contained` give `HdrOk` -/
theorem hdrOk_of_dir_shaped (o : Opts) (h : Hdr) (hf : FnOk h) (hp : PathOk h)
    (hw : o.extractPath = none)
    (hdir : h.path.getD [] = [] ∨ ∃ d, h.path.getD [] = d ++ [0x2f])
    (hname : h.filename.getD [] ≠ [0x2e, 0x2e]) : HdrOk o h := by
  refine ⟨hf, hp, ?_⟩
  unfold NotNamedDotDot
  rw [full_path_last h o hf hw hdir]; simpa using hname

/-! ## main phase: one entry -/

theorem eaf_contained_main (fs0 : Fs.St) (s : St) (h : Hdr) (hx : s.opts.extractPath = none)
    (hc : Contained fs0 s.fs) (hk : HdrOk s.opts h) (hnd : s.rd.currType ≠ .deferred) :
    Contained fs0 (extractArchivedFile s h).fs := by
  have hp := hdrOk_relClean s.opts h hx hk
  have hpar : Contained s.fs (parentsOf s (fileFullPath h s.opts)).2 := by
    unfold parentsOf
    split
    · exact Contained.refl s.fs hc.safe
    · exact makeParents_contained s.fs hc.safe _ hp
  rcases eaf_cases s h with ⟨h1, _⟩ | ⟨h1, _⟩ | ⟨h1, _⟩
  · rw [h1]; exact hc
  · rw [h1]; exact hc.trans hpar
  · rw [h1]; exact hc.trans (hpar.trans (readerExtract_contained s.rd _ _ hpar.safe hp hnd))

/-! ## the loop, relative to what the reader presents -/

/-- every header that `extractLoop fuel s` receives from the reader satisfies `P` (which also sees
the state at that moment, with the reader already advanced) -/
def Presented (P : St → Reader.HObj → Prop) : Nat → St → Prop
  | 0, _ => True
  | fuel+1, s =>
    if s.aborted then True else
    match Reader.next s.rd with
    | .error _ => True
    | .ok (none, _) => True
    | .ok (some c, rd) =>
      P { s with rd := rd } c ∧
      (if !Glob.matchesFilter s.opts.filters c.h then Presented P fuel { s with rd := rd }
       else Presented P fuel (extractArchivedFile { s with rd := rd } c.h))

theorem Presented.mono {P Q : St → Reader.HObj → Prop} (hPQ : ∀ s c, P s c → Q s c) :
    ∀ fuel s, Presented P fuel s → Presented Q fuel s := by
  intro fuel
  induction fuel with
  | zero => intro s _; trivial
  | succ n ih =>
    intro s h
    rw [Presented] at h ⊢
    split
    · trivial
    · rename_i ha
      rw [if_neg ha] at h
      split
      · trivial
      · trivial
      · rename_i c rd hn
        rw [hn] at h
        simp only at h
        refine ⟨hPQ _ _ h.1, ?_⟩
        have h2 := h.2
        split
        · rename_i hf; rw [if_pos hf] at h2; exact ih _ h2
        · rename_i hf; rw [if_neg hf] at h2; exact ih _ h2

/-- **C10, the run without a deferred phase.**  If every header the reader presents has a
constructed path that is relative and ".."-free (`HdrOk`) and none is a deferred link, the whole
loop is `Contained`. -/
theorem extractLoop_contained_main (fs0 : Fs.St) :
    ∀ (fuel : Nat) (s : St), s.opts.extractPath = none → Contained fs0 s.fs →
      Presented (fun s' c => HdrOk s'.opts c.h ∧ s'.rd.currType ≠ .deferred) fuel s →
      Contained fs0 (extractLoop fuel s).fs := by
  intro fuel
  induction fuel with
  | zero => intro s _ hc _; exact hc
  | succ n ih =>
    intro s hx hc hP
    rw [extractLoop]
    rw [Presented] at hP
    split
    · exact hc
    · rename_i ha
      rw [if_neg ha] at hP
      split
      · exact hc
      · exact hc
      · rename_i c rd hn
        rw [hn] at hP
        simp only at hP
        obtain ⟨⟨hk, hnd⟩, h2⟩ := hP
        split
        · rename_i hf; rw [if_pos hf] at h2
          exact ih _ hx hc h2
        · rename_i hf; rw [if_neg hf] at h2
          refine ih _ ?_ ?_ h2
          · rw [(eaf_opts _ c.h).1]; exact hx
          · exact eaf_contained_main fs0 _ c.h hx hc hk hnd

/-! ## the deferred phase -/

/-- kept the current directory; logged only mutations below `fs.cwd` (nothing is said about the
links: after the first deferred link `SafeLinks` is gone) -/
structure Below (fs fs' : Fs.St) : Prop where
  cwd : fs'.cwd = fs.cwd
  log : ∃ new, fs'.log = new ++ fs.log ∧ ∀ m ∈ new, fs.cwd <+: m.path

theorem Below.refl (fs : Fs.St) : Below fs fs := ⟨rfl, [], by simp, by simp⟩

theorem Below.trans {a b c : Fs.St} (h1 : Below a b) (h2 : Below b c) : Below a c := by
  obtain ⟨n1, e1, p1⟩ := h1.log
  obtain ⟨n2, e2, p2⟩ := h2.log
  refine ⟨h2.cwd.trans h1.cwd, n2 ++ n1, by rw [e2, e1, List.append_assoc], ?_⟩
  intro m hm
  rcases List.mem_append.1 hm with hm | hm
  · rw [← h1.cwd]; exact p2 m hm
  · exact p1 m hm

theorem Contained.below {a b : Fs.St} (h : Contained a b) : Below a b := ⟨h.cwd, h.log⟩

theorem unlink_cwd (s : Fs.St) (path : Bytes) : (Fs.unlink s path).2.cwd = s.cwd := by
  rcases unlink_cases s path with h | ⟨q, _, h⟩
  · rw [h]
  · rw [h, logMut_cwd, stampParent_cwd, delEnt_cwd]

theorem symlink_cwd (s : Fs.St) (path target : Bytes) : (Fs.symlink s path target).2.cwd = s.cwd := by
  unfold Fs.symlink
  repeat' split
  all_goals first
    | rfl
    | rw [logMut_cwd, stampParent_cwd, setEnt_cwd]

theorem archSymlink_cwd (s : Fs.St) (path target : Bytes) :
    (Fs.archSymlink s path target).2.cwd = s.cwd := by
  unfold Fs.archSymlink
  rw [symlink_cwd, unlink_cwd]

theorem readerExtract_deferred_cwd (rd : Reader.St) (fs : Fs.St) (fn : Bytes) (c : Reader.HObj)
    (ht : rd.currType = .deferred) (hc : rd.curr = some c) :
    (readerExtract rd fs fn).2.2.cwd = fs.cwd := by
  unfold readerExtract
  rw [ht, hc]
  simp only
  split
  · rfl
  · exact archSymlink_cwd fs fn _

theorem readerExtract_deferred_rd (rd : Reader.St) (fs : Fs.St) (fn : Bytes) (c : Reader.HObj)
    (ht : rd.currType = .deferred) (hc : rd.curr = some c) :
    (readerExtract rd fs fn).2.1 = rd := by
  unfold readerExtract
  rw [ht, hc]
  simp only
  split <;> simp [Reader.extract, ht, hc]

/-- `lha_reader_extract` on a deferred link, in ANY state (`GlobFs.deferred_contained`) -/
theorem readerExtract_deferred_below (rd : Reader.St) (fs : Fs.St) (fn : Bytes) (c : Reader.HObj)
    (ht : rd.currType = .deferred) (hc : rd.curr = some c) (hp : RelClean fn) :
    Below fs (readerExtract rd fs fn).2.2 := by
  obtain ⟨new, e, p⟩ := deferred_contained rd fs fn c ht hc hp.1 hp.2
  exact ⟨readerExtract_deferred_cwd rd fs fn c ht hc, new, e,
    fun m hm => ⟨comps fn, (p m hm).symm⟩⟩

/-- the deferred phase of the reader: only deferred links are left -/
structure Phase2 (rd : Reader.St) : Prop where
  ty : rd.currType = .deferred
  bcurr : rd.basic.curr = none
  stack : rd.dirStack = []

/-- one deferred entry: `Below` (no parent directories are made), and the reader stays as it is -/
theorem eaf_below_deferred (fs0 : Fs.St) (s : St) (c : Reader.HObj) (hx : s.opts.extractPath = none)
    (hw : Below fs0 s.fs) (hk : HdrOk s.opts c.h) (ht : s.rd.currType = .deferred)
    (hc : s.rd.curr = some c) :
    Below fs0 (extractArchivedFile s c.h).fs ∧ (extractArchivedFile s c.h).rd = s.rd := by
  have hp := hdrOk_relClean s.opts c.h hx hk
  have hpar : (parentsOf s (fileFullPath c.h s.opts)).2 = s.fs := by
    unfold parentsOf; simp [ht]
  rcases eaf_cases s c.h with ⟨h1, h2⟩ | ⟨h1, h2⟩ | ⟨h1, h2⟩
  · rw [h1]; exact ⟨hw, h2⟩
  · rw [h1, hpar]; exact ⟨hw, h2⟩
  · rw [h1, h2, hpar]
    exact ⟨hw.trans (readerExtract_deferred_below s.rd _ _ c ht hc hp),
      readerExtract_deferred_rd s.rd _ _ c ht hc⟩

/-! ## what `lha_reader_next_file` hands out -/

open Reader in
theorem next_some {rd rd' : Reader.St} {c : Reader.HObj} (h : Reader.next rd = .ok (some c, rd')) :
    ∃ s1, nextAdv (closeDecoder rd) = .ok s1 ∧
      rd' = nextDeferred (nextPop (nextUnref s1)) ∧ rd'.curr = some c := by
  rw [next_eq] at h
  split at h
  · simp at h
  · cases ha : nextAdv (closeDecoder rd) with
    | error e => rw [ha] at h; cases h
    | ok s1 =>
      rw [ha] at h
      simp only [bind, Except.bind, Except.ok.injEq, Prod.mk.injEq] at h
      obtain ⟨hc, rfl⟩ := h
      exact ⟨s1, rfl, rfl, hc⟩

open Reader in
theorem nextUnref_basic (s : Reader.St) : (nextUnref s).basic = s.basic := by
  unfold nextUnref
  split
  · split <;> rfl
  · rfl

open Reader in
theorem nextUnref_dirStack (s : Reader.St) : (nextUnref s).dirStack = s.dirStack := by
  unfold nextUnref
  split
  · split <;> rfl
  · rfl

open Reader in
theorem nextUnref_deferred (s : Reader.St) : (nextUnref s).deferred = s.deferred := by
  unfold nextUnref
  split
  · split <;> rfl
  · rfl

open Reader in
theorem nextUnref_curr (s : Reader.St) : (nextUnref s).curr = s.curr := by
  unfold nextUnref
  split
  · split <;> rfl
  · rfl

open Reader in
/-- a deferred link is handed out only when the stream and the directory stack are exhausted -/
theorem nextTail_deferred (s : Reader.St)
    (ht : (nextDeferred (nextPop (nextUnref s))).currType = .deferred)
    (hc : (nextDeferred (nextPop (nextUnref s))).curr ≠ none) :
    Phase2 (nextDeferred (nextPop (nextUnref s))) := by
  generalize nextUnref s = u at *
  unfold nextPop at *
  by_cases he : endOfTopDir u = true
  · simp only [he, if_true] at ht hc ⊢
    cases hd : u.dirStack with
    | nil => unfold endOfTopDir at he; simp [hd] at he
    | cons top rest =>
      simp only [hd] at ht hc ⊢
      simp [nextDeferred] at ht
  · simp only [he, Bool.false_eq_true, if_false] at ht hc ⊢
    cases hb : u.basic.curr with
    | some b => simp [nextDeferred, hb] at ht
    | none =>
      have hds : u.dirStack = [] := by
        cases hd : u.dirStack with
        | nil => rfl
        | cons top rest => unfold endOfTopDir at he; simp [hd, hb] at he
      cases hdf : u.deferred with
      | nil => simp [nextDeferred, hb, hdf] at ht
      | cons d rest =>
        refine ⟨?_, ?_, ?_⟩ <;> simp [nextDeferred, hb, hdf, hds]

/-- whatever the reader state: a presented deferred link means the reader is in its last phase -/
theorem next_deferred_phase2 {rd rd' : Reader.St} {c : Reader.HObj}
    (h : Reader.next rd = .ok (some c, rd')) (ht : rd'.currType = .deferred) : Phase2 rd' := by
  obtain ⟨s1, _, rfl, hc⟩ := next_some h
  exact nextTail_deferred s1 ht (by rw [hc]; simp)

open Reader in
/-- in the last phase the reader hands out deferred links only -/
theorem next_of_phase2 {rd rd' : Reader.St} {c : Reader.HObj} (hp : Phase2 rd)
    (h : Reader.next rd = .ok (some c, rd')) : rd'.currType = .deferred := by
  obtain ⟨s1, ha, rfl, hc⟩ := next_some h
  have hf := closeDecoder_frame rd
  have hty : (closeDecoder rd).currType = .deferred := by rw [hf.currType]; exact hp.ty
  have hs1 : s1 = closeDecoder rd := by
    unfold nextAdv at ha
    simp [hty] at ha
    exact ha.symm
  subst hs1
  have hu1 : (nextUnref (closeDecoder rd)).basic.curr = none := by
    rw [nextUnref_basic, hf.bcurr]; exact hp.bcurr
  have hu2 : (nextUnref (closeDecoder rd)).dirStack = [] := by
    rw [nextUnref_dirStack, hf.dirStack]; exact hp.stack
  generalize nextUnref (closeDecoder rd) = u at *
  have he : endOfTopDir u = false := by unfold endOfTopDir; simp [hu2]
  unfold nextPop at hc ⊢
  simp only [he, Bool.false_eq_true, if_false] at hc ⊢
  unfold nextDeferred at hc ⊢
  simp only [hu1] at hc ⊢
  cases hdf : u.deferred with
  | nil => simp [hdf] at hc
  | cons d rest => simp

/-! ## the loop with a deferred phase -/

/-- the loop invariant: either still in the main phase (`Contained`), or in the reader's last
phase, where only `Below` is left (dangerous links exist by then) -/
def LoopInv (fs0 : Fs.St) (s : St) : Prop :=
  s.opts.extractPath = none ∧ (Contained fs0 s.fs ∨ (Below fs0 s.fs ∧ Phase2 s.rd))

theorem eaf_loopInv (fs0 : Fs.St) (s : St) (rd : Reader.St) (c : Reader.HObj)
    (hn : Reader.next s.rd = .ok (some c, rd)) (hi : LoopInv fs0 s)
    (hk : HdrOk s.opts c.h) : LoopInv fs0 (extractArchivedFile { s with rd := rd } c.h) := by
  obtain ⟨hx, hi⟩ := hi
  refine ⟨by rw [(eaf_opts _ c.h).1]; exact hx, ?_⟩
  obtain ⟨_, _, _, hcurr⟩ := next_some hn
  by_cases ht : rd.currType = .deferred
  · -- a deferred link
    have hp2 : Phase2 rd := next_deferred_phase2 hn ht
    have hw : Below fs0 s.fs := by
      rcases hi with h | h
      · exact h.below
      · exact h.1
    have := eaf_below_deferred fs0 { s with rd := rd } c hx hw hk ht hcurr
    exact Or.inr ⟨this.1, by rw [this.2]; exact hp2⟩
  · rcases hi with h | h
    · exact Or.inl (eaf_contained_main fs0 { s with rd := rd } c.h hx h hk ht)
    · exact absurd (next_of_phase2 h.2 hn) ht

theorem skip_loopInv (fs0 : Fs.St) (s : St) (rd : Reader.St) (c : Reader.HObj)
    (hn : Reader.next s.rd = .ok (some c, rd)) (hi : LoopInv fs0 s) :
    LoopInv fs0 { s with rd := rd } := by
  obtain ⟨hx, hi⟩ := hi
  refine ⟨hx, ?_⟩
  rcases hi with h | h
  · exact Or.inl h
  · exact Or.inr ⟨h.1, next_deferred_phase2 hn (next_of_phase2 h.2 hn)⟩

theorem extractLoop_inv (fs0 : Fs.St) :
    ∀ (fuel : Nat) (s : St), LoopInv fs0 s →
      Presented (fun s' c => HdrOk s'.opts c.h) fuel s →
      Below fs0 (extractLoop fuel s).fs := by
  intro fuel
  induction fuel with
  | zero =>
    intro s hi _
    rcases hi.2 with h | h
    · exact h.below
    · exact h.1
  | succ n ih =>
    intro s hi hP
    have hw : Below fs0 s.fs := by
      rcases hi.2 with h | h
      · exact h.below
      · exact h.1
    rw [extractLoop]
    rw [Presented] at hP
    split
    · exact hw
    · rename_i ha
      rw [if_neg ha] at hP
      split
      · exact hw
      · exact hw
      · rename_i c rd hn
        rw [hn] at hP
        simp only at hP
        obtain ⟨hk, h2⟩ := hP
        split
        · rename_i hf; rw [if_pos hf] at h2
          exact ih _ (skip_loopInv fs0 s rd c hn hi) h2
        · rename_i hf; rw [if_neg hf] at h2
          exact ih _ (eaf_loopInv fs0 s rd c hn hi hk) h2

/-- **C10, the whole loop.**  From a `SafeLinks` state, if every presented header has a relative,
".."-free constructed path: every mutation the loop logs — main phase, re-presented directories,
deferred links — is below the extraction directory. -/
theorem extractLoop_below (fuel : Nat) (s : St) (hx : s.opts.extractPath = none)
    (hs : SafeLinks s.fs) (hP : Presented (fun s' c => HdrOk s'.opts c.h) fuel s) :
    Below s.fs (extractLoop fuel s).fs :=
  extractLoop_inv s.fs fuel s ⟨hx, Or.inl (Contained.refl s.fs hs)⟩ hP

end LhasaV.Contain
