import LhasaV.Lemmas.ToolKinds7
/-!
# C16 at tool level, part 8: every entry `next` presents lowers the measure

**`next_phi`**: if `next` presents an entry, `phi` drops by at least 3 when it is a first-time entry (a new
header costs 24 bytes = 48; a waiting header gives back its 3) and by at least 1 when it is a re-presented
directory or a deferred link; the stacks do not grow; with empty stacks the entry is a first-time one.
-/
set_option linter.unusedSimpArgs false
namespace LhasaV.ToolKinds
open LhasaV LhasaV.Stream LhasaV.Reader LhasaV.Res

/-! ## `lha_reader_next_file` lowers the measure -/

theorem currType_beq (a b : CurrType) : (a == b) = decide (a = b) := by cases a <;> cases b <;> rfl

/-- the basic reader's part of `next` -/
theorem nextAdv_phi (s s1 : Reader.St) (h : BInv s.basic) (e : nextAdv s = .ok s1) :
    BInv s1.basic ∧ s1.currType = s.currType ∧ s1.dirStack = s.dirStack ∧ s1.deferred = s.deferred ∧
    s1.curr = s.curr ∧
    ((s.currType = .start ∨ s.currType = .normal) ∧ srcLen s1.basic ≤ srcLen s.basic ∧
        (s1.basic.curr.isSome → srcLen s1.basic + 24 ≤ srcLen s.basic) ∨
     (s.currType ≠ .start ∧ s.currType ≠ .normal) ∧ s1 = s) := by
  unfold nextAdv at e
  by_cases hc : s.currType = .start ∨ s.currType = .normal
  · have hc' : s.currType == .start ∨ s.currType == .normal := by
      simpa [currType_beq] using hc
    rw [if_pos hc'] at e
    cases hb : basicNext s.mktime s.basic s.led with
    | fail => rw [hb] at e; cases e
    | fault w => rw [hb] at e; cases e
    | ok r =>
      rw [hb] at e
      simp only [Except.ok.injEq] at e
      subst e
      obtain ⟨h1, h2, h3⟩ := basicNext_inv s.mktime s.basic s.led h r.1 r.2 hb
      exact ⟨h1, rfl, rfl, rfl, rfl, Or.inl ⟨hc, h2, h3⟩⟩
  · have hc' : ¬ (s.currType == .start ∨ s.currType == .normal) := by
      simpa [currType_beq] using hc
    rw [if_neg hc'] at e
    simp only [Except.ok.injEq] at e
    subst e
    exact ⟨h, rfl, rfl, rfl, rfl, Or.inr ⟨⟨fun h => hc (Or.inl h), fun h => hc (Or.inr h)⟩, rfl⟩⟩

theorem nextUnref_frame (s : Reader.St) :
    (nextUnref s).basic = s.basic ∧ (nextUnref s).currType = s.currType ∧ (nextUnref s).dirStack = s.dirStack ∧
    (nextUnref s).deferred = s.deferred := by
  unfold nextUnref
  split
  · split <;> exact ⟨rfl, rfl, rfl, rfl⟩
  · exact ⟨rfl, rfl, rfl, rfl⟩

theorem nextPop_cases (s : Reader.St) :
    (nextPop s).basic = s.basic ∧ (nextPop s).deferred = s.deferred ∧
    (((nextPop s).currType = .fakeDir ∧ (nextPop s).curr.isSome ∧ (nextPop s).dirStack.length + 1 = s.dirStack.length) ∨
     ((nextPop s).currType = .normal ∧ (nextPop s).curr = s.basic.curr ∧ (nextPop s).dirStack = s.dirStack)) := by
  unfold nextPop
  split
  · split
    · rename_i hd; exact ⟨rfl, rfl, Or.inl ⟨rfl, rfl, by rw [hd]; rfl⟩⟩
    · rename_i hd _ he; rw [endOfTopDir_nil s he] at hd; cases hd
  · exact ⟨rfl, rfl, Or.inr ⟨rfl, rfl, rfl⟩⟩

theorem nextDeferred_cases (s : Reader.St) :
    (nextDeferred s).basic = s.basic ∧ (nextDeferred s).dirStack = s.dirStack ∧
    ((s.curr.isSome ∧ nextDeferred s = s) ∨
     (s.curr = none ∧ (nextDeferred s).currType = .deferred ∧ (nextDeferred s).deferred.length + 1 = s.deferred.length) ∨
     (nextDeferred s).curr = none) := by
  unfold nextDeferred
  split
  · rename_i hc; exact ⟨rfl, rfl, Or.inl ⟨by rw [hc]; rfl, rfl⟩⟩
  · split
    · rename_i hc _ _ _ hd; exact ⟨rfl, rfl, Or.inr (Or.inl ⟨hc, rfl, by rw [hd]; rfl⟩)⟩
    · rename_i hc _ _; exact ⟨rfl, rfl, Or.inr (Or.inr hc)⟩


theorem closeDecoder_stacks (s : Reader.St) :
    (closeDecoder s).dirStack = s.dirStack ∧ (closeDecoder s).deferred = s.deferred := by
  rw [closeDecoder_eq]; cases s.dec <;> exact ⟨rfl, rfl⟩

theorem pend_le (s : Reader.St) : pend s ≤ 3 := by unfold pend; split <;> omega

theorem pend_of_real {s : Reader.St} (h : s.currType = .start ∨ s.currType = .normal) : pend s = 0 := by
  unfold pend; rcases h with h | h <;> simp [h]

theorem pend_of_fake {s : Reader.St} (h : s.currType = .fakeDir ∨ s.currType = .deferred) :
    pend s = if s.basic.curr.isSome then 3 else 0 := by
  unfold pend; simp [h]

/-- **every entry `next` presents lowers the measure**: by 3 for a first-time entry (whose extraction may
push one entry back), by 1 for a re-presented one -/
theorem next_phi (s : Reader.St) (h : BInv s.basic) (c : HObj) (s' : Reader.St)
    (e : Reader.next s = .ok (some c, s')) :
    BInv s'.basic ∧ phi s' + (if s'.currType = .normal then 3 else 1) ≤ phi s ∧
    s'.dirStack.length ≤ s.dirStack.length ∧ s'.deferred.length ≤ s.deferred.length ∧
    (s.dirStack = [] → s.deferred = [] → s'.currType = .normal) := by
  rw [next_eq] at e
  have f0 := closeDecoder_fr s
  have k0 := closeDecoder_stacks s
  split at e
  · cases e
  · rename_i hne
    cases ha : nextAdv (closeDecoder s) with
    | error w => rw [ha] at e; cases e
    | ok s1 =>
      rw [ha] at e
      simp only [Bind.bind, Except.bind, Except.ok.injEq] at e
      obtain ⟨i1, ct1, ds1, df1, _, hadv⟩ := nextAdv_phi _ s1 (f0.inv h) ha
      obtain ⟨b2, ct2, ds2, df2⟩ := nextUnref_frame s1
      obtain ⟨b3, df3, hpop⟩ := nextPop_cases (nextUnref s1)
      obtain ⟨b4, ds4, hdef⟩ := nextDeferred_cases (nextPop (nextUnref s1))
      have hs' : s' = nextDeferred (nextPop (nextUnref s1)) := by
        have := congrArg Prod.snd e; exact this.symm
      have hcur : (nextDeferred (nextPop (nextUnref s1))).curr = some c := by
        have := congrArg Prod.fst e; exact this
      have hb' : s'.basic = s1.basic := by rw [hs', b4, b3, b2]
      have hsrc0 := f0.src
      have hpend0 : pend (closeDecoder s) = pend s := by unfold pend; rw [f0.ct, f0.bc]
      have hphi : ∀ t : Reader.St, phi t = 2 * srcLen t.basic + t.dirStack.length + t.deferred.length + pend t :=
        fun _ => rfl
      rw [hphi s', hphi s, hb']
      have hne' : (closeDecoder s).currType ≠ .eof := by simpa [currType_beq] using hne
      -- lengths of the stacks before the pop
      have hD : (nextUnref s1).dirStack.length = s.dirStack.length := by rw [ds2, ds1, k0.1]
      have hF : (nextPop (nextUnref s1)).deferred.length = s.deferred.length := by rw [df3, df2, df1, k0.2]
      have hbc : ∀ t : Reader.St, t.basic = s1.basic → (t.currType = .fakeDir ∨ t.currType = .deferred) →
          pend t = if s1.basic.curr.isSome then 3 else 0 := by
        intro t ht hf; rw [pend_of_fake hf, ht]
      -- what the basic reader's step gives
      have hstep : srcLen s1.basic ≤ srcLen s.basic ∧
          ((pend s = 0 ∧ (s1.basic.curr.isSome → srcLen s1.basic + 24 ≤ srcLen s.basic)) ∨
           (pend s = if s1.basic.curr.isSome then 3 else 0)) := by
        rcases hadv with ⟨hr, hl, h24⟩ | ⟨hf, rfl⟩
        · refine ⟨by omega, Or.inl ⟨by rw [← hpend0]; exact pend_of_real hr, fun x => by have := h24 x; omega⟩⟩
        · refine ⟨hsrc0, Or.inr ?_⟩
          rw [← hpend0]
          apply pend_of_fake
          cases hct : (closeDecoder s).currType <;> simp_all
      subst hs'
      rcases hdef with ⟨hsome, heq⟩ | ⟨hnone, hdt, hdl⟩ | hnone
      · rw [heq] at hcur ⊢
        rcases hpop with ⟨hpt, _, hpl⟩ | ⟨hpt, hpc, hpd⟩
        · -- a directory is popped
          have hp := hbc _ (by rw [b3, b2]) (Or.inl hpt)
          have hk : (if (nextPop (nextUnref s1)).currType = .normal then 3 else 1) = 1 := by rw [hpt]; rfl
          refine ⟨i1, ?_, by omega, by omega,
            fun hd _ => by have : s.dirStack.length = 0 := by rw [hd]; rfl
                           omega⟩
          rw [hp, hk]
          rcases hstep with ⟨h1, ⟨h2, h3⟩ | h2⟩
          · by_cases hs : s1.basic.curr.isSome = true
            · rw [if_pos hs]; have := h3 hs; omega
            · rw [if_neg hs]; omega
          · rw [h2]; omega
        · -- the basic reader's member is presented
          have hcs : s1.basic.curr.isSome = true := by rw [← b2, ← hpc, hcur]; rfl
          have hp : pend (nextPop (nextUnref s1)) = 0 := pend_of_real (Or.inr hpt)
          have hk : (if (nextPop (nextUnref s1)).currType = .normal then 3 else 1) = 3 := by rw [hpt]; rfl
          refine ⟨i1, ?_, by rw [hpd]; omega, by omega, fun _ _ => hpt⟩
          rw [hp, hk, hpd]
          rcases hstep with ⟨h1, ⟨h2, h3⟩ | h2⟩
          · have := h3 hcs; omega
          · rw [h2, if_pos hcs]; omega
      · rcases hpop with ⟨_, hps, _⟩ | ⟨hpt, hpc, hpd⟩
        · rw [hnone] at hps; cases hps
        · -- a deferred link is taken
          have hcn : s1.basic.curr.isSome = false := by rw [← b2, ← hpc, hnone]; rfl
          have hp := hbc _ (by rw [b4, b3, b2]) (Or.inr hdt)
          have hk : (if (nextDeferred (nextPop (nextUnref s1))).currType = .normal then 3 else 1) = 1 := by
            rw [hdt]; rfl
          refine ⟨i1, ?_, by rw [ds4, hpd]; omega, by omega,
            fun _ hf => by have : s.deferred.length = 0 := by rw [hf]; rfl
                           omega⟩
          rw [hp, hcn, hk, ds4, hpd]
          simp only [Bool.false_eq_true, if_false]
          have := hstep.1
          omega
      · rw [hnone] at hcur; cases hcur

end LhasaV.ToolKinds
