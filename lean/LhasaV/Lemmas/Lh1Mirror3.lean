import LhasaV.Lemmas.Lh1Mirror2
/-!
# C02, layer 3: `make_group_leader` and `increment_node_freq` with their full effect on the
views (the existing safety lemmas only keep the invariant), the state-level mirror relation,
and the climb of `increment_for_code` against `updateLoop`.
-/
namespace LhasaV.Lh1Mirror
open LhasaV LhasaV.Lh1 LhasaV.Spec.Lzhuf LhasaV.Res

/-! ## `make_group_leader`, full effect -/

theorem mgl_full (s : St) (x : Nat) (h : CInv s x) (hx0 : x ≠ 0) (hx : x < 627) :
    ∃ L s', makeGroupLeader s x = .ok (L, s') ∧ CInv s' L ∧ 1 ≤ L ∧ L ≤ x ∧
      fr s' (L - 1) ≠ fr s' L ∧ fr s' = fr s ∧ fr s L = fr s x ∧
      (∀ j, j < 627 → fr s j = fr s x → L ≤ j) ∧
      ((L = x ∧ s' = s) ∨ (L < x ∧
        (∀ j, lf s' j = if j = L then lf s x else if j = x then lf s L else lf s j) ∧
        (∀ j, ch s' j = if j = L then ch s x else if j = x then ch s L else ch s j) ∧
        (∀ j, pa s' j = if lf s x = false ∧ (j = ch s x ∨ j + 1 = ch s x) then L
                        else if lf s L = false ∧ (j = ch s L ∨ j + 1 = ch s L) then x else pa s j) ∧
        (∀ c, ln s' c = if lf s x = true ∧ c = ch s x then L
                        else if lf s L = true ∧ c = ch s L then x else ln s c))) := by
  have hb := h.base
  have ht := h.tree
  have hg := h.grp
  have hgx : gp s x < 627 := hg.rng x hx
  obtain ⟨hfrL, hmin⟩ := hg.ldr x hx
  have hLx : gl s (gp s x) ≤ x := hmin x hx rfl
  have hL : gl s (gp s x) < 627 := by omega
  have hL1 : 1 ≤ gl s (gp s x) := by
    rcases Nat.eq_zero_or_pos (gl s (gp s x)) with h0 | h0
    · rw [h0] at hfrL
      have := ht.root_gt hg.sorted (i := x) (by omega) hx
      omega
    · exact h0
  have hne : fr s (gl s (gp s x) - 1) ≠ fr s (gl s (gp s x)) := by
    intro e
    have := hmin (gl s (gp s x) - 1) (by omega) (by rw [e, hfrL])
    omega
  by_cases hLe : gl s (gp s x) = x
  · refine ⟨x, s, ?_, h, by omega, by omega, ?_, rfl, rfl, ?_, Or.inl ⟨rfl, rfl⟩⟩
    · unfold makeGroupLeader
      rw [getNode_ok _ _ _ (by rw [hb.nodes]; exact hx)]
      simp only [ok_bind]
      have e1 : (nd s x).group = gp s x := rfl
      rw [e1, getA_ok _ _ _ (by rw [hb.groupLeader]; exact hgx)]
      simp only [ok_bind]
      have e2 : s.groupLeader.getD (gp s x) 0 = gl s (gp s x) := rfl
      rw [e2, if_pos hLe]
      rfl
    · rw [hLe] at hne; exact hne
    · intro j hj e; rw [← hLe]; exact hmin j hj e
  · rw [swap_exec s x hb.nodes hb.groupLeader hx hgx hL hLe]
    generalize gl s (gp s x) = L at *
    have hLltx : L < x := by omega
    obtain ⟨sm, hlf1, hch1, hpa1, hln1⟩ := swap_nodes_spec s x L hb.nodes hx hL hLe
    have hxL : x ≠ L := fun e => hLe e.symm
    have hlf1x : lf (swap_nodes s x L) x = lf s L := by rw [hlf1, if_neg hxL, if_pos rfl]
    have hch1x : ch (swap_nodes s x L) x = ch s L := by rw [hch1, if_neg hxL, if_pos rfl]
    have hlf1L : lf (swap_nodes s x L) L = lf s x := by rw [hlf1, if_pos rfl]
    have hch1L : ch (swap_nodes s x L) L = ch s x := by rw [hch1, if_pos rfl]
    obtain ⟨s2, hs2, sm2, hlf2, hch2, hpa2, hln2⟩ :=
      swap_fixLinks (swap_nodes s x L) x (by rw [sm.nsz]; exact hb.nodes) (by rw [sm.lsz]; exact hb.leafNodes) hx
        (by rw [hlf1x, hch1x]; intro hl; exact (ht.le L hL hl).1)
        (by rw [hlf1x, hch1x]; intro hl; have := ht.br L hL hl; omega)
    rw [hs2]
    simp only [ok_bind]
    obtain ⟨s3, hs3, sm3, hlf3, hch3, hpa3, hln3⟩ :=
      swap_fixLinks s2 L (by rw [sm2.nsz, sm.nsz]; exact hb.nodes) (by rw [sm2.lsz, sm.lsz]; exact hb.leafNodes) hL
        (by rw [hlf2, hch2, hlf1L, hch1L]; intro hl; exact (ht.le x hx hl).1)
        (by rw [hlf2, hch2, hlf1L, hch1L]; intro hl; have := ht.br x hx hl; omega)
    rw [hs3]
    simp only [ok_bind]
    have smA : swap_Same s s3 := (sm.trans sm2).trans sm3
    have hfr3 : fr s3 = fr s := funext smA.fr
    have e_lf : ∀ j, lf s3 j = if j = L then lf s x else if j = x then lf s L else lf s j := by
      intro j; rw [hlf3, hlf2, hlf1]
    have e_ch : ∀ j, ch s3 j = if j = L then ch s x else if j = x then ch s L else ch s j := by
      intro j; rw [hch3, hch2, hch1]
    have e_pa : ∀ j, pa s3 j = if lf s x = false ∧ (j = ch s x ∨ j + 1 = ch s x) then L
                        else if lf s L = false ∧ (j = ch s L ∨ j + 1 = ch s L) then x else pa s j := by
      intro j; rw [hpa3, hpa2, hpa1, hlf2, hch2, hlf1L, hch1L, hlf1x, hch1x]
    have e_ln : ∀ c, ln s3 c = if lf s x = true ∧ c = ch s x then L
                        else if lf s L = true ∧ c = ch s L then x else ln s c := by
      intro c; rw [hln3, hln2, hln1, hlf2, hch2, hlf1L, hch1L, hlf1x, hch1x]
    refine ⟨L, s3, rfl, ⟨swap_Same_base smA hb, ?_, swap_Same_grp smA hg⟩, hL1, by omega, ?_, hfr3,
      hfrL, hmin, Or.inr ⟨hLltx, e_lf, e_ch, e_pa, e_ln⟩⟩
    · rw [hfr3]
      exact swap_tree ht hg.sorted hx hLltx hfrL e_lf e_ch e_pa e_ln
    · rw [smA.fr, smA.fr]; exact hne

/-! ## `increment_node_freq`, full effect -/

theorem inf_full (s : St) (L : Nat) (h : CInv s L) (hL1 : 1 ≤ L) (hL : L < 627)
    (hld : fr s (L - 1) ≠ fr s L) :
    ∃ s', incrementNodeFreq s L = .ok s' ∧ CInv s' (pa s L) ∧ lf s' = lf s ∧ ch s' = ch s ∧
      pa s' = pa s ∧ ln s' = ln s ∧ fr s' = upd (fr s) L (fr s L + 1) := by
  have hg := h.grp
  have ht := h.tree
  have hb := h.base
  have hroot := ht.root_gt hg.sorted hL1 hL
  have htop := ht.top
  have hmod : (fr s L + 1) % 65536 = fr s L + 1 := Nat.mod_eq_of_lt (by omega)
  have hgl := incr_gl hg hL1 hL hld
  have hgr := hg.rng L hL
  have hT := incr_tree ht hL1 hL
  have hngp := incr_ng_pos hg hL1 hL hld
  by_cases hA : L < 626 ∧ gp s L = gp s (L + 1) <;> by_cases hJ : fr s L + 1 = fr s (L - 1)
  · obtain ⟨s', he, hnd, hgl', hfg', hng', hln', hb'⟩ :=
      incr_exec_AJ s L hb hL1 hL hmod hgl hgr hA hJ
    obtain ⟨v1, v2, v3, v4, v5⟩ := incr_views s s' L _ hnd rfl rfl rfl
    refine ⟨s', he, ⟨hb', ?_, ?_⟩, v1, v2, v3, hln', v4⟩
    · rw [v1, v2, v3, v4, hln']; exact hT
    · rw [v4, v5, hgl', hfg', hng']; exact incr_grp_AJ hg hL1 hL hld hA hJ
  · have hng := incr_ng_lt hg hL1 hL hld hA
    have hfg := (hg.free s.numGroups (Nat.le_refl _) hng).1
    obtain ⟨s', he, hnd, hgl', hfg', hng', hln', hb'⟩ :=
      incr_exec_AnJ s L hb hL1 hL hmod hgl hgr hng hfg hA hJ
    obtain ⟨v1, v2, v3, v4, v5⟩ := incr_views s s' L _ hnd rfl rfl rfl
    refine ⟨s', he, ⟨hb', ?_, ?_⟩, v1, v2, v3, hln', v4⟩
    · rw [v1, v2, v3, v4, hln']; exact hT
    · rw [v4, v5, hgl', hfg', hng']; exact incr_grp_AnJ hg hL1 hL hld hA hJ
  · obtain ⟨s', he, hnd, hgl', hfg', hng', hln', hb'⟩ :=
      incr_exec_nAJ s L hb hL1 hL hmod (by omega) hngp.2 hA hJ
    obtain ⟨v1, v2, v3, v4, v5⟩ := incr_views s s' L _ hnd rfl rfl rfl
    refine ⟨s', he, ⟨hb', ?_, ?_⟩, v1, v2, v3, hln', v4⟩
    · rw [v1, v2, v3, v4, hln']; exact hT
    · rw [v4, v5, hgl', hfg', hng']; exact incr_grp_nAJ hg hL1 hL hld hA hJ
  · obtain ⟨s', he, hnd, hgl', hfg', hng', hln', hb'⟩ :=
      incr_exec_nAnJ s L hb hL1 hL hmod hA hJ
    obtain ⟨v1, v2, v3, v4, v5⟩ := incr_views s s' L _ hnd rfl rfl rfl
    refine ⟨s', he, ⟨hb', ?_, ?_⟩, v1, v2, v3, hln', v4⟩
    · rw [v1, v2, v3, v4, hln']; exact hT
    · rw [v4, v5, hgl', hfg', hng']
      have := incr_grp_nAnJ hg hL1 hL hld hA hJ
      rw [← incr_upd_self (gp s) L] at this
      exact this

/-! ## the mirror relation on states -/

/-- mirror relation with root excess `r` -/
def MirS (d : St) (z : TreeState) (r : Nat) : Prop :=
  ZWf z ∧ MirF (lf d) (ch d) (pa d) (fr d) (ln d) (zf z) (zp z) (zs z) r

/-- **The mirror map** between the decoder's tree and the LZHUF arrays: node `j` of the decoder is
node `626 − j = R − j` of LZHUF; equal frequencies; a decoder leaf with code `c` has `son = c + T`,
a decoder branch with `child_index = k` (children `k`, `k − 1`) has `son = 626 − k` (children
`son`, `son + 1`); parents correspond; `leaf_nodes[c]` is `prnt[c + T]`; the LZHUF arrays have
their C sizes, the sentinel `freq[T] = 0xffff` and `prnt[R] = 0`. -/
def Mirror (d : St) (z : TreeState) : Prop := MirS d z 0

end LhasaV.Lh1Mirror
