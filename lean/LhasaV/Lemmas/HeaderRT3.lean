import LhasaV.Lemmas.HeaderRT2
/-!
Round trip, layer 3: the level-2 and level-3 decoders on an encoded header.
-/
namespace LhasaV.HeaderRT
open LhasaV LhasaV.Header LhasaV.Spec.HeaderEnc

/-! ### levels 2 and 3: shared reads, level 2 -/

theorem base_reads {full w method rest : Bytes} {c l t : Nat} {a lv : Byte}
    (hfull : full = w ++ (method ++ (le32 c ++ (le32 l ++ (le32 t ++ (a :: lv :: rest))))))
    (hw : w.length = 2) (hm : method.length = 5) (hc : c < 4294967296) (hl : l < 4294967296)
    (ht : t < 4294967296) :
    (∀ s, rdSlice s full 2 5 = .ok method) ∧ (∀ s, rdU32 s full 7 = .ok c) ∧
    (∀ s, rdU32 s full 11 = .ok l) ∧ (∀ s, rdU32 s full 15 = .ok t) ∧
    (∀ s, rdU8 s full 20 = .ok lv.toNat) ∧ full.drop 21 = rest ∧ 21 + rest.length = full.length := by
  have d0 := drop_zero_eq hfull
  have d2 := drop_app (m := 2) d0 (by omega)
  have d7 := drop_app (m := 7) d2 (by omega)
  have d11 := drop_app (m := 11) d7 rfl
  have d15 := drop_app (m := 15) d11 rfl
  have d19 := drop_app (m := 19) d15 rfl
  have d20 := drop_cons (m := 20) d19 rfl
  have d21 := drop_cons (m := 21) d20 rfl
  have hlen : 21 + rest.length = full.length := by
    rw [hfull]; simp only [List.length_append, List.length_cons, le32_length, hw, hm]; omega
  exact ⟨fun s => rdSlice_drop d2 hm (by omega), fun s => rdU32_drop d7 hc, fun s => rdU32_drop d11 hl,
    fun s => rdU32_drop d15 ht, fun s => rdU8_drop_byte d20, d21, hlen⟩

theorem enc_l2 (c : Nat) {f : Fields} (hl : f.level = 2) :
    encodeWith c f = le16 (if f.osType = 0x4b then 26 + chainLen 2 f.exts + f.trail.length - 2 else 26 + chainLen 2 f.exts + f.trail.length) ++
      (f.method ++ (le32 f.clen ++ (le32 f.length ++ (le32 f.time ++ (UInt8.ofNat f.attr :: 2 ::
        (le16 f.crc ++ (UInt8.ofNat f.osType :: (le16 (firstSize 2 f.exts) ++ (chain 2 c f.exts ++ f.trail))))))))) := by
  simp [encodeWith, hl, List.append_assoc]


def pre2 (f : Fields) : Bytes :=
  le16 (if f.osType = 0x4b then 26 + chainLen 2 f.exts + f.trail.length - 2 else 26 + chainLen 2 f.exts + f.trail.length) ++
      (f.method ++ (le32 f.clen ++ (le32 f.length ++ (le32 f.time ++ (UInt8.ofNat f.attr :: 2 ::
        (le16 f.crc ++ [UInt8.ofNat f.osType]))))))

theorem enc_l2' (c : Nat) {f : Fields} (hl : f.level = 2) :
    encodeWith c f = pre2 f ++ (leN 2 (firstSize 2 f.exts) ++ (chain 2 c f.exts ++ f.trail)) := by
  rw [enc_l2 c hl]
  simp [pre2, leN, List.append_assoc]

theorem pre2_length {f : Fields} (hm : f.method.length = 5) : (pre2 f).length = 24 := by
  simp only [pre2, List.length_append, List.length_cons, le32_length, le16_length, hm, List.length_nil]

theorem foldl_raw_irrel (crc : Nat) (es : List Ext) {h1 h2 : Hdr} (R : Bytes)
    (h : setRaw h1 [] = setRaw h2 []) :
    setRaw (es.foldl (applyExt crc) h1) R = setRaw (es.foldl (applyExt crc) h2) R := by
  have e1 : setRaw (es.foldl (applyExt crc) h1) R = setRaw (es.foldl (applyExt crc) (setRaw h1 [])) R := by
    rw [foldl_setRaw, setRaw_setRaw]
  have e2 : setRaw (es.foldl (applyExt crc) h2) R = setRaw (es.foldl (applyExt crc) (setRaw h2 [])) R := by
    rw [foldl_setRaw, setRaw_setRaw]
  rw [e1, e2, h]

theorem typed_l23 (mk : Nat → Nat) {f : Fields} (hl : ¬ f.level ≤ 1) {crc : Nat}
    (hc : (Crc.buf 0 (rawOf f)).toNat = crc) :
    typed mk f = setRaw (f.exts.foldl (applyExt crc)
      { method := f.method, compressedLength := f.clen, length := f.length, level := f.level,
        osType := f.osType, crc := f.crc, timestamp := f.time }) (rawOf f) := by
  unfold typed
  simp only [if_neg hl, hc]
  rw [← foldl_setRaw]
  rfl

theorem wf_common {f : Fields} (hwf : wf f = true) :
    f.level ≤ 3 ∧ f.method.length = 5 ∧ f.clen < 4294967296 ∧ f.length < 4294967296 ∧
    f.time < 4294967296 ∧ f.attr < 256 ∧ f.crc < 65536 ∧ f.osType < 256 ∧
    (∀ e ∈ f.exts, e.wf = true) := by
  simp only [wf, Bool.and_eq_true, decide_eq_true_eq, List.all_eq_true] at hwf
  obtain ⟨⟨⟨⟨⟨⟨⟨⟨⟨h1, h2⟩, h3⟩, h4⟩, h5⟩, h6⟩, h7⟩, h8⟩, h9⟩, -⟩ := hwf
  exact ⟨h1, h2, h3, h4, h5, h6, h7, h8, h9⟩

theorem wf_l2 {f : Fields} (hwf : wf f = true) (hl : f.level = 2) :
    26 + chainLen 2 f.exts + f.trail.length < 65536 ∧ (f.osType = 0x4b → 28 ≤ 26 + chainLen 2 f.exts + f.trail.length) := by
  simp only [wf, Bool.and_eq_true, decide_eq_true_eq, List.all_eq_true, hl] at hwf
  obtain ⟨-, hx⟩ := hwf
  simp at hx
  exact ⟨hx.1.1.1.1, fun h => hx.1.1.1.2.resolve_left (fun n => n h)⟩

theorem crc_lt (raw : Bytes) : (Crc.buf 0 raw).toNat < 65536 := (Crc.buf 0 raw).isLt

theorem level2_rt (mk : Nat → Nat) (f : Fields) (hwf : wf f = true) (hl : f.level = 2) (data full : Bytes)
    (hfull : full = encode f ++ data) :
    decodeLevel2 { raw := full.take 22, level := 2 } (full.drop 22) = .ok (typed mk f, data) := by
  obtain ⟨-, hm, hclen, hlen, htime, hattr, hfcrc, hos, hexts⟩ := wf_common hwf
  obtain ⟨htot, h4b⟩ := wf_l2 hwf hl
  have hcrc := crc_lt (rawOf f)
  generalize hc : (Crc.buf 0 (rawOf f)).toNat = crc at hcrc
  have hE : encode f = encodeWith crc f := by rw [← hc]; rfl
  have hElen : (encode f).length = 26 + chainLen 2 f.exts + f.trail.length := by
    rw [hE, enc_l2 crc hl]
    simp only [List.length_append, List.length_cons, le32_length, le16_length, hm,
      chain_length (Or.inl rfl)]
    omega
  have hfl : full.length = 26 + chainLen 2 f.exts + f.trail.length + data.length := by
    rw [hfull, List.length_append, hElen]
  have hfullE := hfull
  rw [hE, enc_l2 crc hl] at hfull
  simp only [List.append_assoc, List.cons_append] at hfull
  obtain ⟨rM, rC, rL, rT, -, d21, -⟩ := base_reads hfull rfl hm hclen hlen htime
  have d0 := drop_zero_eq hfull
  have d23 := drop_app (m := 23) d21 rfl
  have d24 := drop_cons (m := 24) d23 rfl
  generalize hHL : (if f.osType = 75 then 26 + chainLen 2 f.exts + f.trail.length - 2 else 26 + chainLen 2 f.exts + f.trail.length) = HL at d0
  have hHL1 : 26 ≤ HL ∧ HL ≤ 26 + chainLen 2 f.exts + f.trail.length := by
    rw [← hHL]; split
    · have := h4b ‹_›; omega
    · omega
  have r0 : ∀ s, rdU16 s (full.take 22) 0 = .ok HL := fun s =>
    rdU16_take_of (by omega) (rdU16_drop d0 (by omega))
  have rCrc : ∀ s, rdU16 s full 21 = .ok f.crc := fun s => rdU16_drop d21 hfcrc
  have rOs : ∀ s, rdU8 s full 23 = .ok f.osType := fun s => rdU8_drop d23 hos
  unfold decodeLevel2
  simp only [r0, Res.ok_bind, Gen.level2HeaderLen, List.length_take]
  rw [if_neg (by omega), if_neg (by omega), Nat.min_eq_left (by omega),
    extend_take (k := HL) rfl (by omega) (by omega) (by omega)]
  simp only [Res.ok_bind]
  simp only [rdSlice_take_of (n := HL) (by omega) (by omega) (rM _), rdU32_take_of (n := HL) (by omega) (rC _),
    rdU32_take_of (n := HL) (by omega) (rL _), rdU32_take_of (n := HL) (by omega) (rT _),
    rdU16_take_of (n := HL) (by omega) (rCrc _), rdU8_take_of (n := HL) (by omega) (rOs _), Res.ok_bind]
  have hfinal : ∀ r, decodeExtendedHeaders
      { method := f.method, compressedLength := f.clen, length := f.length, level := 2, osType := f.osType,
        crc := f.crc, timestamp := f.time, raw := List.take (26 + chainLen 2 f.exts + f.trail.length) full } 24 >>=
        (fun h => (pure (h, r) : Res (Hdr × Bytes))) = .ok (typed mk f, r) := by
    intro r
    rw [hfullE, take_enc hElen.symm, hE,
      decodeExtendedHeaders_chain_trail (fs := 2) (Or.inl rfl) hcrc f.exts f.trail _ (pre2 f) (pre2_length hm).symm rfl hexts
        (fun e he => by have := extSize_le_chainLen 2 f.exts e he; omega) (enc_l2' crc hl)]
    simp only [Res.ok_bind, Res.pure_eq]
    rw [typed_l23 mk (by omega) hc, ← enc_l2' 0 hl, hl]
    exact congrArg (fun x => Res.ok (x, r)) (foldl_raw_irrel crc f.exts _ rfl)
  have hdrop : full.drop (26 + chainLen 2 f.exts + f.trail.length) = data := by rw [hfullE]; exact drop_enc hElen.symm
  by_cases h75 : f.osType = 75
  · rw [if_pos h75] at hHL ⊢
    have := h4b h75
    rw [extend_take (k := 26 + chainLen 2 f.exts + f.trail.length) rfl (by omega) (by omega) (by omega)]
    simp only [Res.ok_bind, hdrop]
    exact hfinal data
  · rw [if_neg h75] at hHL ⊢
    subst hHL
    simp only [Res.ok_bind, Res.pure_eq, hdrop]
    exact hfinal data

/-! ### level 3 -/

theorem enc_l3 (c : Nat) {f : Fields} (h0 : ¬ f.level = 0) (h1 : ¬ f.level = 1) (h2 : ¬ f.level = 2) :
    encodeWith c f = le16 4 ++
      (f.method ++ (le32 f.clen ++ (le32 f.length ++ (le32 f.time ++ (UInt8.ofNat f.attr :: 3 ::
        (le16 f.crc ++ (UInt8.ofNat f.osType :: (le32 (32 + chainLen 4 f.exts + f.trail.length) ++
          (le32 (firstSize 4 f.exts) ++ (chain 4 c f.exts ++ f.trail)))))))))) := by
  simp [encodeWith, h0, h1, h2, List.append_assoc]

def pre3 (f : Fields) : Bytes :=
  le16 4 ++ (f.method ++ (le32 f.clen ++ (le32 f.length ++ (le32 f.time ++ (UInt8.ofNat f.attr :: 3 ::
        (le16 f.crc ++ (UInt8.ofNat f.osType :: le32 (32 + chainLen 4 f.exts + f.trail.length))))))))

theorem enc_l3' (c : Nat) {f : Fields} (h0 : ¬ f.level = 0) (h1 : ¬ f.level = 1) (h2 : ¬ f.level = 2) :
    encodeWith c f = pre3 f ++ (leN 4 (firstSize 4 f.exts) ++ (chain 4 c f.exts ++ f.trail)) := by
  rw [enc_l3 c h0 h1 h2]
  simp [pre3, leN, List.append_assoc]

theorem pre3_length {f : Fields} (hm : f.method.length = 5) : (pre3 f).length = 28 := by
  simp only [pre3, List.length_append, List.length_cons, le32_length, le16_length, hm]

theorem wf_l3 {f : Fields} (hwf : wf f = true) (hl : f.level = 3) :
    32 + chainLen 4 f.exts + f.trail.length ≤ 1048576 := by
  simp only [wf, Bool.and_eq_true, decide_eq_true_eq, List.all_eq_true, hl] at hwf
  obtain ⟨-, hx⟩ := hwf
  simp at hx
  exact hx.1.1.1

theorem level3_rt (mk : Nat → Nat) (f : Fields) (hwf : wf f = true) (hl : f.level = 3) (data full : Bytes)
    (hfull : full = encode f ++ data) :
    decodeLevel3 { raw := full.take 22, level := 3 } (full.drop 22) = .ok (typed mk f, data) := by
  obtain ⟨-, hm, hclen, hlen, htime, hattr, hfcrc, hos, hexts⟩ := wf_common hwf
  have htot := wf_l3 hwf hl
  have hcrc := crc_lt (rawOf f)
  generalize hc : (Crc.buf 0 (rawOf f)).toNat = crc at hcrc
  have hE : encode f = encodeWith crc f := by rw [← hc]; rfl
  have l0 : ¬ f.level = 0 := by omega
  have l1 : ¬ f.level = 1 := by omega
  have l2 : ¬ f.level = 2 := by omega
  have hElen : (encode f).length = 32 + chainLen 4 f.exts + f.trail.length := by
    rw [hE, enc_l3 crc l0 l1 l2]
    simp only [List.length_append, List.length_cons, le32_length, le16_length, hm,
      chain_length (Or.inr rfl)]
    omega
  have hfl : full.length = 32 + chainLen 4 f.exts + f.trail.length + data.length := by
    rw [hfull, List.length_append, hElen]
  have hfullE := hfull
  rw [hE, enc_l3 crc l0 l1 l2] at hfull
  simp only [List.append_assoc, List.cons_append] at hfull
  obtain ⟨rM, rC, rL, rT, -, d21, -⟩ := base_reads hfull rfl hm hclen hlen htime
  have d0 := drop_zero_eq hfull
  have d23 := drop_app (m := 23) d21 rfl
  have d24 := drop_cons (m := 24) d23 rfl
  have r0 : ∀ s, rdU16 s (full.take 22) 0 = .ok 4 := fun s =>
    rdU16_take_of (by omega) (rdU16_drop d0 (by omega))
  have rHL : ∀ s, rdU32 s full 24 = .ok (32 + chainLen 4 f.exts + f.trail.length) := fun s => rdU32_drop d24 (by omega)
  have rCrc : ∀ s, rdU16 s full 21 = .ok f.crc := fun s => rdU16_drop d21 hfcrc
  have rOs : ∀ s, rdU8 s full 23 = .ok f.osType := fun s => rdU8_drop d23 hos
  unfold decodeLevel3
  simp only [r0, Res.ok_bind, Gen.level3HeaderLen, Gen.level3MaxHeaderLen, List.length_take]
  rw [if_neg (by omega), if_neg (by omega), Nat.min_eq_left (by omega),
    extend_take (k := 32) rfl (by omega) (by omega) (by omega)]
  simp only [Res.ok_bind, rdU32_take_of (n := 32) (by omega) (rHL _), List.length_take]
  rw [if_neg (by omega), Nat.min_eq_left (by omega),
    extend_take (k := 32 + chainLen 4 f.exts + f.trail.length) rfl (by omega) (by omega) (by omega)]
  simp only [Res.ok_bind]
  simp only [rdSlice_take_of (n := 32 + chainLen 4 f.exts + f.trail.length) (by omega) (by omega) (rM _),
    rdU32_take_of (n := 32 + chainLen 4 f.exts + f.trail.length) (by omega) (rC _),
    rdU32_take_of (n := 32 + chainLen 4 f.exts + f.trail.length) (by omega) (rL _),
    rdU32_take_of (n := 32 + chainLen 4 f.exts + f.trail.length) (by omega) (rT _),
    rdU16_take_of (n := 32 + chainLen 4 f.exts + f.trail.length) (by omega) (rCrc _),
    rdU8_take_of (n := 32 + chainLen 4 f.exts + f.trail.length) (by omega) (rOs _), Res.ok_bind]
  have hdrop : full.drop (32 + chainLen 4 f.exts + f.trail.length) = data := by rw [hfullE]; exact drop_enc hElen.symm
  rw [hdrop, hfullE, take_enc hElen.symm, hE,
      decodeExtendedHeaders_chain_trail (fs := 4) (Or.inr rfl) hcrc f.exts f.trail _ (pre3 f) (pre3_length hm).symm rfl hexts
        (fun e he => by have := extSize_le_chainLen 4 f.exts e he; omega) (enc_l3' crc l0 l1 l2)]
  simp only [Res.ok_bind, Res.pure_eq]
  rw [typed_l23 mk (by omega) hc, ← enc_l3' 0 l0 l1 l2, hl]
  exact congrArg (fun x => Res.ok (x, data)) (foldl_raw_irrel crc f.exts _ rfl)

end LhasaV.HeaderRT
