import LhasaV.Lemmas.ExtractTreeOpt9
/-!
# C06 with options (part 10): option `i` — one step of the flattening loop

With `i` (`usePath = false`) `file_full_path` ignores the stored directory: a file or a link
lands at `cwd[/DIR]/name`, and a directory entry is ignored before the reader is asked to
extract it (so it is never pushed, never re-presented).  `Entry.flat` is the entry moved to the
top level; `step_flat`: a selected file or link is created there; `eaf_dir_ignored`.
-/
namespace LhasaV.ExtractTree
open LhasaV LhasaV.Header LhasaV.Extract LhasaV.GlobFs LhasaV.Contain

/-- the entry at the top level, under its own name -/
def Entry.flat : Entry → Entry
  | .dir p perms t => .dir [p.getLast?.getD []] perms t
  | .file p data perms t => .file [p.getLast?.getD []] data perms t
  | .link p tg => .link [p.getLast?.getD []] tg

theorem flat_isDir (e : Entry) : e.flat.isDir = e.isDir := by cases e <;> rfl

theorem flat_path (e : Entry) (hd : e.isDir = false) : e.flat.path = [e.namePart] := by
  cases e with
  | dir _ _ _ => cases hd
  | file _ _ _ _ => rfl
  | link _ _ => rfl

theorem flat_final (e : Entry) (now umask : Nat) : e.flat.final now umask = e.final now umask := by
  cases e <;> rfl

theorem entryOk_flat {e : Entry} (hk : EntryOk e) (hd : e.isDir = false) : EntryOk e.flat := by
  have hp := flat_path e hd
  refine ⟨by rw [hp]; simp, ?_, by rw [hp]; simp, ?_⟩
  · intro c hc
    rw [hp] at hc
    have : c = e.namePart := by simpa using hc
    rw [this]; exact namePart_name hk hd
  · intro p t he
    cases e with
    | dir _ _ _ => cases hd
    | file _ _ _ _ => cases he
    | link p' t' =>
      simp only [Entry.flat, Entry.link.injEq] at he
      obtain ⟨_, rfl⟩ := he
      exact hk.safe p' t' rfl

/-- option `i`, relocation to the directory with the clean components `ds` -/
structure OptsFlat (o : Opts) (ds : List Bytes) : Prop where
  up : o.usePath = false
  xp : pfx o = joinDir ds
  names : ∀ c ∈ ds, Name c
  depth : ds.length < 63

/-- **the string `file_full_path` builds** under `i`: the relocation prefix and the file name -/
theorem fullPath_flat {e : Entry} {h : Hdr} (hh : HdrOf e h) (hk : EntryOk e) (hd : e.isDir = false)
    (o : Opts) (ds : List Bytes) (ho : OptsFlat o ds) : fileFullPath h o = fullOf (e.flat.reloc ds) := by
  rw [fullPath_pfx, ho.xp, fullOf_reloc ds e.flat (entryOk_flat hk hd).ne]
  congr 1
  unfold fileFullPath fullOf
  rw [flat_isDir, hd, flat_path e hd, hh.2.1]
  simp only [ho.up, Bool.false_eq_true, if_false, List.append_nil, List.nil_append]
  exact strip_rel _ (name_head _ (namePart_name hk hd))

/-- **a directory entry is ignored** under `i`: nothing happens, the reader is not asked -/
theorem eaf_dir_ignored (s : St) (h : Hdr) (hu : s.opts.usePath = false) (hd : isDirEntry h = true) :
    extractArchivedFile s h = { s with out := "dir-ignored" :: s.out } := by
  rw [eaf_eq, preOf_pass s h (Or.inl hd)]
  simp [hu, hd]

/-- the part of the flattening loop's invariant that does not concern the reader: `doneF` are
the flattened entries extracted so far -/
structure FlatCore (fs0 : Fs.St) (ds : List Bytes) (sel : Entry → Bool) (doneF rest : List Entry)
    (s : Extract.St) : Prop where
  aborted : s.aborted = false
  result : s.result = true
  opts : OptsFlat s.opts ds
  filt : ∀ e, selected s.opts.filters e = sel e
  fs : FsPh fs0 ds doneF [] s.fs
  ok : DoneOk doneF []
  entries : ∀ e ∈ rest, EntryOk e
  fresh : (doneF.map Entry.path ++
    (rest.filter (fun e => sel e && !e.isDir)).map (fun e => [e.namePart])).Nodup

theorem FlatCore.with_rd {fs0 : Fs.St} {ds : List Bytes} {sel : Entry → Bool} {doneF rest : List Entry}
    {s : Extract.St} (h : FlatCore fs0 ds sel doneF rest s) (rd : Reader.St) :
    FlatCore fs0 ds sel doneF rest { s with rd := rd } :=
  ⟨h.aborted, h.result, h.opts, h.filt, h.fs, h.ok, h.entries, h.fresh⟩

/-- **a selected file or link** under `i`: created at `cwd[/DIR]/name` -/
theorem step_flat {fs0 : Fs.St} {ds : List Bytes} {sel : Entry → Bool} {doneF rest : List Entry}
    {e : Entry} (s : Extract.St) (c : Reader.HObj)
    (hi : FlatCore fs0 ds sel doneF (e :: rest) s) (hb : BaseRef fs0 ds)
    (hsel : sel e = true) (hd : e.isDir = false)
    (hpol : s.rd.policy = .endOfDir)
    (hty : s.rd.currType = .normal) (hcur : s.rd.curr = some c) (hh : HdrOf e c.h)
    (hdec : ∀ p data perms mtime, e = .file p data perms mtime →
      (Reader.openDecoder s.rd).1 = true ∧ (Reader.extract s.rd true).1 = (true, data)) :
    FlatCore fs0 ds sel (doneF ++ [e.flat]) rest (extractArchivedFile s c.h) ∧
    RdKept s.rd (extractArchivedFile s c.h).rd ∧
    (extractArchivedFile s c.h).rd.dirStack = s.rd.dirStack := by
  have hk : EntryOk e := hi.entries e (by simp)
  have hkf : EntryOk e.flat := entryOk_flat hk hd
  have hfp := flat_path e hd
  have hdep : ds.length + e.flat.path.length < 64 := by rw [hfp]; have := hi.opts.depth; simp; omega
  have hp1 := hb.params
  have hfn : fileFullPath c.h s.opts = fullOf (e.flat.reloc ds) := fullPath_flat hh hk hd s.opts ds hi.opts
  have hkr := entryOk_reloc hkf hi.opts.names hdep
  have hfresh := hi.fresh
  simp only [List.filter_cons, hsel, hd, Bool.not_false, Bool.and_self, if_true, List.map_cons] at hfresh
  have hnew : e.flat.path ∉ doneF.map Entry.path := by
    rw [hfp]
    intro hm
    have := (List.nodup_append.1 hfresh).2.2 _ hm _ (List.mem_cons_self)
    exact this rfl
  have hpar : (([] : List Entry).map Entry.path).head?.getD [] = e.flat.path.dropLast := by
    rw [hfp]; rfl
  have hpo : parentsOf s (fileFullPath c.h s.opts) = makeParentDirectories s.fs (fullOf (e.flat.reloc ds)) := by
    unfold parentsOf; simp [hty, hfn]
  obtain ⟨fsY, hparents, hex, hfsY⟩ : ∃ fsY, parentsOf s (fileFullPath c.h s.opts) = (true, fsY) ∧
      Fs.existsKind s.fs (fileFullPath c.h s.opts) = .none ∧
      FsInvB (mkBase fs0 ds) (fs0.cwd ++ ds) doneF (([] : List Entry).map Entry.path) fsY := by
    rcases hi.fs with ⟨hd0, _, hf0⟩ | ⟨_, hfs⟩
    · obtain ⟨k, hbk, hf⟩ := hb.facts
      refine ⟨mkBase fs0 ds, ?_, ?_, ?_⟩
      · rw [hpo, hf0, parents_top fs0 ds e.flat hkr (by rw [hfp]; rfl) hkf.ne]; exact hf.run
      · rw [hfn, hf0]; exact existsKind_phase0 hbk e.flat hkr hkf.ne
      · rw [hd0]; exact hf.inv
    · obtain ⟨hT, hnone, _, _⟩ := new_target hb hfs hi.ok hkf hi.opts.names hdep hnew hpar
      refine ⟨s.fs, ?_, ?_, hfs⟩
      · rw [hpo]
        have pf := pathFacts_rel hkf hi.opts.names hdep
        exact makeParents_noop s.fs _ (ds ++ e.flat.path) pf.split pf.trel hT.good hT.len hT.walk
      · rw [hfn]; exact existsKind_none hT hnone
  obtain ⟨hT, hnone, hmod, hparent⟩ := new_target hb hfsY hi.ok hkf hi.opts.names hdep hnew hpar
  have hcwd : fsY.cwd = fs0.cwd := hfsY.params.cwd.trans hp1.cwd
  -- `extract_archived_file`
  have hrun : extractArchivedFile s c.h =
      { s with rd := (readerExtract s.rd fsY (fileFullPath c.h s.opts)).2.1,
               fs := (readerExtract s.rd fsY (fileFullPath c.h s.opts)).2.2,
               result := s.result && (readerExtract s.rd fsY (fileFullPath c.h s.opts)).1,
               out := (if (readerExtract s.rd fsY (fileFullPath c.h s.opts)).1 then "ok" else "failed") :: s.out } := by
    have hnd : isDirEntry c.h = false := by
      cases e with
      | dir _ _ _ => cases hd
      | file _ _ _ _ =>
        obtain ⟨_, _, hm, _⟩ := hh
        have : (c.h.method == lhd) = false := by simpa using hm
        show (c.h.method == lhd && c.h.symlinkTarget.isNone) = false
        rw [this]; rfl
      | link _ t =>
        obtain ⟨_, _, _, hs⟩ := hh
        unfold isDirEntry; simp [hs]
    rw [eaf_eq, preOf_pass { s with } c.h (Or.inr hex)]
    simp only [hi.opts.up, hnd, Bool.not_false, Bool.false_eq_true, and_false, if_false, hparents,
      Bool.not_true]
  rw [hfn] at hrun
  obtain ⟨r1, rk, rstack, rc⟩ := entry_created_at s.rd fsY (fullOf (e.flat.reloc ds)) c e (ds ++ e.flat.path)
    hty hcur hpol hh hk hT hnone hmod hdec
  rw [hcwd, hfsY.params.now, hfsY.params.umask, ← List.append_assoc, opened_eq_final e hd,
    ← flat_final] at rc
  rw [hd] at rstack
  rw [hrun]
  have hnew' : ∀ e' ∈ doneF, e'.path ≠ e.flat.path := fun e' he' h => hnew (List.mem_map.2 ⟨e', he', h⟩)
  refine ⟨⟨hi.aborted, ?_, hi.opts, hi.filt, ?_, ?_, fun x hx => hi.entries x (List.mem_cons_of_mem _ hx), ?_⟩,
    rk, rstack⟩
  · show (s.result && _) = true
    rw [hi.result, r1]; rfl
  · show FsPh fs0 ds (doneF ++ [e.flat]) _ (readerExtract s.rd fsY _).2.2
    refine Or.inr ⟨by simp, ?_⟩
    apply hfsY.create hkf.ne (fun e' he' => (hi.ok.ok e' he').ne) hnew'
    · simpa using rc
    · intro p _; exact Iff.rfl
    · exact hparent
  · have := doneOk_push hi.ok hkf hnew hpar
    rw [flat_isDir, hd] at this
    exact this
  · rw [List.map_append, List.map_singleton, hfp, List.append_assoc]
    exact hfresh

end LhasaV.ExtractTree
