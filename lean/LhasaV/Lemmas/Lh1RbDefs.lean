import LhasaV.Lemmas.Lh1Defs
/-! interface between the two halves of the `reconstruct_tree` proof -/
namespace LhasaV.Lh1

/-- the state after the first loop of `reconstruct_tree`: the 314 leaves sit in slots `0 .. 313`,
in non-increasing frequency order, frequencies halved (rounded up, so still ≥ 1), every code
exactly once, and the frequencies sum to at most (32768 + 314) / 2. -/
structure Gathered (s : St) : Prop where
  base : Base s
  leaf : ∀ k, k < 314 → lf s k = true ∧ ch s k < 314 ∧ 1 ≤ fr s k
  sorted : ∀ k, k + 1 < 314 → fr s (k + 1) ≤ fr s k
  inj : ∀ j k, j < 314 → k < 314 → ch s j = ch s k → j = k
  surj : ∀ c, c < 314 → ∃ k, k < 314 ∧ ch s k = c
  total : sumTo (fr s) 314 ≤ 16541

end LhasaV.Lh1
