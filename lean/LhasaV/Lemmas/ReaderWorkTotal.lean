import LhasaV.Lemmas.ReaderWorkTotal3
import LhasaV.Lemmas.ReaderHeap
/-!
# C13 for whole histories — summary file

`ReaderWork.next_work_bounded` bounds ONE `lha_reader_next_file` by the bytes still present; it does
not exclude a quadratic listing (every `next` re-reading the rest of the archive satisfies it).
Here the bound is for the WHOLE history, from a fresh reader on any stream `st` (any bytes, any of
the four kinds), any directory policy, any `mktime`.  `A₀ = avail st` = bytes present at the start.

* `avail_nonincreasing` — **the stream never goes backwards**: between any two points of any history
  the source data is the same and the bytes still present have not increased.  (`step_avail_le`:
  the same for one operation on any well-formed reader state.)
* `listing_work_linear` — `n` calls of `next` (any `n`): bytes moved `+ avail` at the end `≤ A₀`;
  source requests `≤ A₀/32 + (A₀+11)/12 + 2·n + 2`.
* `history_work_linear` — EVERY history (legal or not): bytes moved `+ avail` at the end
  `≤ A₀ + decodedDeclared`, source requests `≤ A₀/32 + (A₀+11)/12 + 2·(number of next) + 2`;
  for legal histories the bytes handed to the caller are `≤ decodedLength`.
  `decodedDeclared` / `decodedLength` = the compressed / uncompressed lengths declared by the headers
  of the members the history DECODES (first `read`/`check`/`extract` on a member whose method has a
  decoder), each once; a member that is only listed or skipped contributes nothing.
* `next_at_end_free` — after the end has been reported a further `next` does not touch the stream.
* `run_bounded` — work and heap in one statement.

The potential argument is `Track` (part 2): every stream operation is charged to the bytes it makes
disappear from the source (`Amort`, part 1), the start-of-stream scan to a one-off budget.
-/
set_option linter.unusedSimpArgs false
namespace LhasaV.ReaderIndep
open LhasaV LhasaV.Reader

/-- compressed lengths declared by the members a history (from a fresh reader) decodes -/
def decodedDeclared (st : Stream.St) (pol : DirPolicy) (mk : Nat → Nat) (ops : List Op) : Nat :=
  decodedDeclaredFrom (fresh st pol mk) false ops

/-- uncompressed lengths declared by the members a history (from a fresh reader) decodes -/
def decodedLength (st : Stream.St) (pol : DirPolicy) (mk : Nat → Nat) (ops : List Op) : Nat :=
  decodedLengthFrom (fresh st pol mk) false ops

/-- bytes a history (from a fresh reader) hands to the caller -/
def outputBytes (st : Stream.St) (pol : DirPolicy) (mk : Nat → Nat) (ops : List Op) : Nat :=
  outTotal (fresh st pol mk) ops

/-- **The stream never goes backwards.**  Along any history from a fresh reader, after any further
operations `more` (next / read / check / extract, legal or not) the source data is unchanged and
the bytes still present have not increased.  Nothing that was consumed is ever present again — which
is what excludes re-reading. -/
theorem avail_nonincreasing (st : Stream.St) (pol : DirPolicy) (mk : Nat → Nat)
    (hl : st.leadin.length ≤ 24) (ops more : List Op) :
    (run (fresh st pol mk) (ops ++ more)).basic.stream.data = (run (fresh st pol mk) ops).basic.stream.data ∧
    avail (run (fresh st pol mk) (ops ++ more)).basic.stream ≤ avail (run (fresh st pol mk) ops).basic.stream := by
  obtain ⟨ch, h⟩ := track_run ops (track_fresh st pol mk hl)
  rw [run_append]
  exact track_avail more h

/-- the same against the start: the data is the stream's, and never more bytes are present than at
the start -/
theorem avail_le_start (st : Stream.St) (pol : DirPolicy) (mk : Nat → Nat)
    (hl : st.leadin.length ≤ 24) (ops : List Op) :
    (run (fresh st pol mk) ops).basic.stream.data = st.data ∧
    avail (run (fresh st pol mk) ops).basic.stream ≤ avail st :=
  avail_nonincreasing st pol mk hl [] ops

/-- reading the two bounds off the potential -/
theorem track_bounds {st0 : Stream.St} {s : St} {ch : Bool} {n D : Nat} (h : Track st0 s ch n D) :
    st0.moved ≤ s.basic.stream.moved ∧
    (s.basic.stream.moved - st0.moved) + avail s.basic.stream ≤ avail st0 + D ∧
    st0.reads ≤ s.basic.stream.reads ∧
    s.basic.stream.reads - st0.reads ≤ avail st0 / 32 + (avail st0 + 11) / 12 + 2 * n + 2 := by
  have h1 := h.moved
  have h2 := h.reads
  have h3 := h.movedLe
  have h4 := h.readsLe
  have h5 : 0 ≤ (if ch then s.basic.remaining else 0) := Nat.zero_le _
  refine ⟨h3, by omega, h4, ?_⟩
  unfold scanBudget at h2
  generalize (if s.basic.stream.phase = Stream.Phase.init then (avail st0 + 11) / 12 + 2 else 0) = z at h2
  omega

/-- **`history_work_linear`.**  EVERY history `ops` (next / read k / check / extract, legal or not)
from a fresh reader on any stream: with `A₀` the bytes present at the start,
* the bytes pulled from the source, plus the bytes still present at the end, are at most
  `A₀ + decodedDeclared` — the declared (compressed) sizes enter only for members that are decoded,
  once each, never for members merely listed or skipped;
* the source requests are at most `A₀/32 + (A₀+11)/12 + 2·(number of next) + 2`;
* if the history is legal, the bytes handed to the caller are at most `decodedLength`. -/
theorem history_work_linear (st : Stream.St) (pol : DirPolicy) (mk : Nat → Nat)
    (hl : st.leadin.length ≤ 24) (ops : List Op) :
    st.moved ≤ (run (fresh st pol mk) ops).basic.stream.moved ∧
    ((run (fresh st pol mk) ops).basic.stream.moved - st.moved) +
        avail (run (fresh st pol mk) ops).basic.stream ≤ avail st + decodedDeclared st pol mk ops ∧
    st.reads ≤ (run (fresh st pol mk) ops).basic.stream.reads ∧
    (run (fresh st pol mk) ops).basic.stream.reads - st.reads ≤
        avail st / 32 + (avail st + 11) / 12 + 2 * nexts ops + 2 ∧
    (Legal ops → outputBytes st pol mk ops ≤ decodedLength st pol mk ops) := by
  obtain ⟨ch, h⟩ := track_run ops (track_fresh st pol mk hl)
  obtain ⟨h1, h2, h3, h4⟩ := track_bounds h
  simp only [Nat.zero_add] at h2 h4
  refine ⟨h1, h2, h3, h4, fun hleg => ?_⟩
  have := outTotal_le ops .fresh (fresh st pol mk) false hleg ⟨hl, fun h => (by cases h)⟩ rfl
  have hz : slackP .fresh (fresh st pol mk) false = 0 := by
    show slack _ _ = 0
    unfold slack; simp [fresh]
  unfold outputBytes decodedLength
  omega

theorem nexts_replicate (n : Nat) : nexts (List.replicate n Op.next) = n := by
  induction n with
  | zero => rfl
  | succ n ih => simp only [List.replicate_succ, nexts, Op.nextCount, ih]; omega

theorem decodedDeclaredFrom_replicate (n : Nat) : ∀ (s : St) (ch : Bool),
    decodedDeclaredFrom s ch (List.replicate n Op.next) = 0 := by
  induction n with
  | zero => intro s ch; rfl
  | succ n ih => intro s ch; simp only [List.replicate_succ, decodedDeclaredFrom, charge, ih]

/-- **`listing_work_linear`.**  A listing — `n` calls of `lha_reader_next_file` and nothing else,
for ANY `n` (also far beyond the end of the archive) — on any stream: with `A₀` the bytes present at
the start, the bytes pulled from the source plus the bytes still present at the end are at most `A₀`,
and at most `A₀/32 + (A₀+11)/12 + 2·n + 2` source requests are made.  No declared size occurs. -/
theorem listing_work_linear (st : Stream.St) (pol : DirPolicy) (mk : Nat → Nat)
    (hl : st.leadin.length ≤ 24) (n : Nat) :
    st.moved ≤ (run (fresh st pol mk) (List.replicate n .next)).basic.stream.moved ∧
    ((run (fresh st pol mk) (List.replicate n .next)).basic.stream.moved - st.moved) +
        avail (run (fresh st pol mk) (List.replicate n .next)).basic.stream ≤ avail st ∧
    st.reads ≤ (run (fresh st pol mk) (List.replicate n .next)).basic.stream.reads ∧
    (run (fresh st pol mk) (List.replicate n .next)).basic.stream.reads - st.reads ≤
        avail st / 32 + (avail st + 11) / 12 + 2 * n + 2 := by
  obtain ⟨h1, h2, h3, h4, _⟩ := history_work_linear st pol mk hl (List.replicate n .next)
  rw [nexts_replicate] at h4
  unfold decodedDeclared at h2
  rw [decodedDeclaredFrom_replicate] at h2
  exact ⟨h1, h2, h3, h4⟩

/-- after the end of the archive has been reported, a further `next` does not touch the stream:
no request, no byte -/
theorem next_at_end_free (s : St) (h : s.currType = .eof) (hd : s.dec = none) :
    (step s .next).basic.stream = s.basic.stream := by
  simp only [step, next_of_eof s h, closeDecoder_none hd]

/-- **C13 in one statement (`run_bounded`).**  Every history from a fresh reader on any stream:
the whole run's work is linear in the bytes present at the start plus the declared sizes of the
members it decodes plus its own length, and what it holds on the heap is bounded by its number of
successful extracts — neither depends on sizes declared by members that are not decoded. -/
theorem run_bounded (st : Stream.St) (pol : DirPolicy) (mk : Nat → Nat)
    (hl : st.leadin.length ≤ 24) (ops : List Op) :
    -- work: bytes pulled from the source
    ((run (fresh st pol mk) ops).basic.stream.moved - st.moved) +
        avail (run (fresh st pol mk) ops).basic.stream ≤ avail st + decodedDeclared st pol mk ops ∧
    -- work: source requests
    (run (fresh st pol mk) ops).basic.stream.reads - st.reads ≤
        avail st / 32 + (avail st + 11) / 12 + 2 * nexts ops + 2 ∧
    -- heap: live header objects and their blocks
    (run (fresh st pol mk) ops).led.hdrs.length ≤ 2 + extractsOk ops ∧
    hdrBlocks (run (fresh st pol mk) ops).led ≤ 6 * (2 + extractsOk ops) ∧
    -- legal histories: bytes decoded for the caller, and everything held on the heap
    (Legal ops → outputBytes st pol mk ops ≤ decodedLength st pol mk ops ∧
      (run (fresh st pol mk) ops).led.live ≤ 6 * (2 + extractsOk ops) + 4) := by
  obtain ⟨_, h2, _, h4, h5⟩ := history_work_linear st pol mk hl ops
  obtain ⟨h6, h7⟩ := heap_bound_headers st pol mk ops
  exact ⟨h2, h4, h6, h7, fun hleg => ⟨h5 hleg, heap_bound st pol mk ops hleg⟩⟩

/-! ## non-vacuity: a three-member archive -/

/-- three copies of the demo member (`a`, `-lh0-`, the bytes `hi`: 25-byte header + 2 bytes of
data each), then the end marker: 82 bytes -/
def demo3 : Array UInt8 := (demoArchive.extract 0 27) ++ (demoArchive.extract 0 27) ++ demoArchive

def demo3St (k : Stream.Kind) : Stream.St := { kind := k, data := demo3 }

/-- (requests, bytes moved, bytes still present) after a history -/
def demo3Row (k : Stream.Kind) (ops : List Op) : Nat × Nat × Nat :=
  let s := run (fresh (demo3St k) .endOfDir Header.dosTimeUTC) ops
  (s.basic.stream.reads, s.basic.stream.moved, avail s.basic.stream)

#guard demo3.size = 82
-- the three headers and the end are presented
#guard (nextResults (fresh (demo3St .pipe) .endOfDir Header.dosTimeUTC) [.next, .next, .next, .next]).map
    (fun r => match r with | .ok (some o) => some o.h.length | _ => none) = [some 2, some 2, some 2, none]
-- a listing on a pipe: no byte pulled twice (81 moved + 1 still present = 82 = A₀), 7 requests;
-- the bound of `listing_work_linear` for n = 4 is 82/32 + 93/12 + 2·4 + 2 = 19
#guard demo3Row .pipe [.next] = (2, 25, 57)
#guard demo3Row .pipe [.next, .next] = (4, 52, 30)
#guard demo3Row .pipe [.next, .next, .next] = (6, 79, 3)
#guard demo3Row .pipe [.next, .next, .next, .next] = (7, 81, 1)
#guard 82/32 + (82+11)/12 + 2*4 + 2 = 19
-- twenty more `next`s after the end cost nothing
#guard demo3Row .pipe (List.replicate 24 .next) = (7, 81, 1)
#guard demo3Row .seekable (List.replicate 24 .next) = (4, 75, 1)
#guard demo3Row .cbSkip (List.replicate 24 .next) = (4, 75, 1)
#guard demo3Row .cbNoSkip (List.replicate 4 .next) = (7, 81, 1)
-- the per-call bound of `next_work_bounded` summed over the same four calls (A = 82, 57, 30, 3)
-- allows 35 requests and 172 bytes; a reader re-reading the rest on every `next` would meet it
#guard (82/32 + (82+11)/12 + 4) + (57/32 + (57+11)/12 + 4) + (30/32 + (30+11)/12 + 4) + (3/32 + (3+11)/12 + 4) = 35
-- decoding the first and the third member, skipping the second: 2 + 2 declared bytes are charged,
-- the bytes moved stay 81 (what a decoder consumed is not skipped again)
#guard decodedDeclared (demo3St .pipe) .endOfDir Header.dosTimeUTC
    [.next, .check, .next, .next, .read 1, .read 5, .next] = 4
#guard decodedLength (demo3St .pipe) .endOfDir Header.dosTimeUTC
    [.next, .check, .next, .next, .read 1, .read 5, .next] = 4
#guard outputBytes (demo3St .pipe) .endOfDir Header.dosTimeUTC
    [.next, .check, .next, .next, .read 1, .read 5, .next] = 4
#guard demo3Row .pipe [.next, .check, .next, .next, .read 1, .read 5, .next] = (5, 81, 1)
-- a listing charges nothing
#guard decodedDeclared (demo3St .pipe) .endOfDir Header.dosTimeUTC [.next, .next, .next, .next] = 0
example : Legal [.next, .check, .next, .next, .read 1, .read 5, .next] := by decide
example : nexts [.next, .check, .next, .next, .read 1, .read 5, .next] = 4 := by decide

-- the listing counters again, by kernel evaluation
example : demo3Row .pipe [.next, .next, .next, .next] = (7, 81, 1) := by decide +kernel
example : demo3Row .pipe (List.replicate 24 .next) = (7, 81, 1) := by decide +kernel
example : demo3Row .seekable (List.replicate 24 .next) = (4, 75, 1) := by decide +kernel
-- (histories that decode are evaluated by `#guard` above: the kernel does not unfold the decoders'
-- well-founded recursion)

/-- `listing_work_linear` / `history_work_linear` instantiated: the hypothesis is met by a concrete stream -/
example := listing_work_linear (demo3St .pipe) .endOfDir Header.dosTimeUTC (Nat.zero_le 24) 24
example := history_work_linear (demo3St .pipe) .endOfDir Header.dosTimeUTC (Nat.zero_le 24)
  [.next, .check, .next, .next, .read 1, .read 5, .next]

/-- `Amort` is not trivially true: an operation that gave bytes back to the source (a rewind) is
not `Amort` for any `k` -/
example (k : Nat) : ¬ Amort { kind := .seekable, data := demo3, pos := 27 } { kind := .seekable, data := demo3, pos := 0 } k := by
  intro h
  have := h.avail_le
  simp only [avail] at this
  have hs : demo3.size = 82 := by decide
  omega

end LhasaV.ReaderIndep
