import LhasaV.Lemmas.ExtractTreeAll12
/-!
# C06, all deviations together (part 13): executable checks (not proofs)

`hypsU`: every hypothesis of `extract_archiveOf_unified`, evaluated.  `agreesU`: the model run on
the bytes agrees with `uniTree … (uniPlan …)` at every probe (all prefixes of entry paths, the old
files, a few foreign paths), sets the abort flag and the result as the plan says, creates nothing
else below the base, and leaves everything outside the base as `mkBase` has it (untouched when
nothing is written).  `#guard`ed over the combinations; then the model OUTSIDE the hypotheses.
-/
namespace LhasaV.ArchiveOf.UniCheck
open LhasaV LhasaV.Header LhasaV.Extract LhasaV.GlobFs LhasaV.Contain LhasaV.ExtractTree
open LhasaV.ExtractTree.Sample LhasaV.ArchiveOf

/-- the hypotheses of `extract_archiveOf_unified`, for `DIR` = `ds` of which `k` components exist -/
def hypsU (o : Opts) (fs : Fs.St) (ds : List Bytes) (k : Nat) (es : List Entry) (answers : Bytes) : Bool :=
  decide (WFU (selected o.filters) [] [] es) && decide (Encodable es) &&
  o.usePath && (pfx o == joinDir ds) && baseUB fs ds k &&
  (fs.root || fs.umask == 0o022) &&
  decide (∀ e ∈ es, selected o.filters e = true → PreAtU fs ds e) &&
  decide (∀ e ∈ es, ds.length + e.path.length < 64) &&
  (!decide (Asked fs ds (selected o.filters) es) || o.overwrite != .prompt || decide (OwAnswers answers))

def probesU (es : List Entry) (extra : List Fs.Path) : List Fs.Path :=
  (es.flatMap (fun e => (List.range (e.path.length + 1)).map (fun j => e.path.take j))).filter (· ≠ []) ++
    extra ++ [[[0x71]], [[0x61], [0x71]], [[0x78], [0x71]]]

def agreesU (o : Opts) (fs : Fs.St) (ds : List Bytes) (es : List Entry) (answers : Bytes)
    (extra : List Fs.Path := []) : Bool :=
  let r := run (archiveOf es) o fs answers
  let pl := uniPlan fs ds o answers es
  let tree := uniTree fs.now fs.umask (oldB fs ds) pl.1
  let B := fs.cwd ++ ds
  r.aborted == pl.2 && r.result == !pl.2 &&
  (probesU es extra).all (fun p => Fs.lookup r.fs (B ++ p) == tree p) &&
  r.fs.ents.all (fun x => !(B.isPrefixOf x.1) || x.1 == B ||
    (probesU es extra).any (fun p => B ++ p == x.1 && (tree p).isSome)) &&
  (if pl.1.isEmpty then r.fs.ents == fs.ents
   else r.fs.ents.all (fun x => (B.isPrefixOf x.1 && x.1 != B) ||
          (if x.1 == B then (match Fs.lookup (mkBase fs ds) B, x.2 with
                             | some (.dir m _), .dir m' t' => m == m' && (B.isEmpty || t' == fs.now)
                             | _, _ => false)
           else Fs.lookup (mkBase fs ds) x.1 == some x.2)))

def wOut : Option Bytes := some [0x6f, 0x75, 0x74]
/-- `w=o/p` -/
def wOP : Option Bytes := some [0x6f, 0x2f, 0x70]
def dsOP : List Bytes := [[0x6f], [0x70]]
/-- `r/o` exists (0711), `r/o/p` does not -/
def fsO : Fs.St :=
  { root := false, cwd := [[0x72]], ents := [([[0x72]], .dir 0o755 1000), ([[0x72], [0x6f]], .dir 0o711 9)] }

/-! ## inside the hypotheses -/

-- (a) wildcards ∘ implicit parents
#guard hypsU { filters := patY } sampleFs [] 0 sampleTree [] && agreesU { filters := patY } sampleFs [] sampleTree []
#guard hypsU { filters := patYB } sampleFs [] 0 sampleTree [] && agreesU { filters := patYB } sampleFs [] sampleTree []
#guard hypsU { filters := patA } sampleFs [] 0 sampleTree [] && agreesU { filters := patA } sampleFs [] sampleTree []
#guard hypsU { filters := [[0x7a]] } sampleFs [] 0 sampleTree [] && agreesU { filters := [[0x7a]] } sampleFs [] sampleTree []
#guard hypsU { filters := patYs } sampleFs [] 0 mixedSample [] && agreesU { filters := patYs } sampleFs [] mixedSample []
#guard hypsU { filters := patY } rootFs [] 0 sampleTree [] && agreesU { filters := patY } rootFs [] sampleTree []
-- `*l` selects the link `a/b/l` alone; `?` is one byte
#guard hypsU { filters := [[0x2a, 0x6c]] } sampleFs [] 0 sampleTree [] && agreesU { filters := [[0x2a, 0x6c]] } sampleFs [] sampleTree []
#guard hypsU { filters := [[0x61, 0x2f, 0x3f]] } sampleFs [] 0 sampleTree [] && agreesU { filters := [[0x61, 0x2f, 0x3f]] } sampleFs [] sampleTree []
-- (b) … ∘ `w=DIR`
#guard hypsU { extractPath := wOut, filters := patY } sampleFs outDir 0 sampleTree [] &&
  agreesU { extractPath := wOut, filters := patY } sampleFs outDir sampleTree []
#guard hypsU { extractPath := wOut, filters := patA } sampleFs outDir 0 impSample [] &&
  agreesU { extractPath := wOut, filters := patA } sampleFs outDir impSample []
#guard hypsU { extractPath := wOut } sampleFs outDir 0 impSample [] && agreesU { extractPath := wOut } sampleFs outDir impSample []
#guard hypsU { extractPath := wOut, filters := patYs } fsOut outDir 1 mixedSample [] &&
  agreesU { extractPath := wOut, filters := patYs } fsOut outDir mixedSample []
#guard hypsU { extractPath := wOP, filters := patY } sampleFs dsOP 0 sampleTree [] &&
  agreesU { extractPath := wOP, filters := patY } sampleFs dsOP sampleTree []
#guard hypsU { extractPath := wOP, filters := patY } fsO dsOP 1 sampleTree [] &&
  agreesU { extractPath := wOP, filters := patY } fsO dsOP sampleTree []
-- nothing selected: nothing is touched, `DIR` is NOT created
#guard hypsU { extractPath := wOut, filters := [[0x51]] } sampleFs outDir 0 sampleTree [] &&
  agreesU { extractPath := wOut, filters := [[0x51]] } sampleFs outDir sampleTree [] &&
  (run (archiveOf sampleTree) { extractPath := wOut, filters := [[0x51]] } sampleFs []).fs.ents == sampleFs.ents
-- (c) … ∘ overwrite policy
#guard hypsU (optsOutBE .prompt) fsOutE outDir 1 impSample [0x6e, 0x0a] && agreesU (optsOutBE .prompt) fsOutE outDir impSample [0x6e, 0x0a] [[[0x65]]]
#guard hypsU (optsOutBE .prompt) fsOutE outDir 1 impSample [0x79, 0x0a] && agreesU (optsOutBE .prompt) fsOutE outDir impSample [0x79, 0x0a] [[[0x65]]]
#guard hypsU (optsOutBE .prompt) fsOutE outDir 1 impSample [] && agreesU (optsOutBE .prompt) fsOutE outDir impSample [] [[[0x65]]]
#guard hypsU (optsOutBE .prompt) fsOutE outDir 1 impSample [0x7a, 0x0a, 0x41, 0x0a] && agreesU (optsOutBE .prompt) fsOutE outDir impSample [0x7a, 0x0a, 0x41, 0x0a]
#guard hypsU (optsOutBE .all) fsOutE outDir 1 impSample [] && agreesU (optsOutBE .all) fsOutE outDir impSample []
#guard hypsU (optsOutBE .skip) fsOutE outDir 1 impSample [] && agreesU (optsOutBE .skip) fsOutE outDir impSample []
-- the whole archive (no wildcard) over the old `e`, "s"
#guard hypsU { extractPath := wOut } fsOutE outDir 1 impSample [0x73, 0x0a] && agreesU { extractPath := wOut } fsOutE outDir impSample [0x73, 0x0a]
-- overwrite ∘ wildcards without `w=`: `OwSample.exFs` (holds `a`, `c`, `q`), pattern `?` selects `a`, `c` (and not `d/`, `d/x`)
#guard hypsU { filters := [[0x3f]] } OwSample.exFs [] 0 OwSample.exTree OwSample.ansNY &&
  agreesU { filters := [[0x3f]] } OwSample.exFs [] OwSample.exTree OwSample.ansNY
-- `d/x` alone: `d` implicit (0755 / now), no prompt at all — the answers are never read
#guard hypsU { filters := [[0x64, 0x2f, 0x78]] } OwSample.exFs [] 0 OwSample.exTree [0x79] &&
  agreesU { filters := [[0x64, 0x2f, 0x78]] } OwSample.exFs [] OwSample.exTree [0x79]

/-! ## a selected late directory entry (in the domain; the recorded metadata is dropped) -/

#guard hypsU { filters := [[0x61, 0x2a]] } sampleFs [] 0 ImpCheck.lateSample [] && agreesU { filters := [[0x61, 0x2a]] } sampleFs [] ImpCheck.lateSample []
#guard (let r := run (archiveOf ImpCheck.lateSample) { filters := [[0x61, 0x2a]], extractPath := wOut } sampleFs []
        r.result && Fs.lookup r.fs [[0x72], [0x6f, 0x75, 0x74], [0x61]] == some (.dir 0o755 sampleFs.now))

/-! ## outside the hypotheses -/

/- (1) an entry that is NOT selected but lies outside an open selected directory closes it: `d/`
(0555), `z`, `d/x` with the pattern `d*` — `z` is passed over, yet `d` gets its final mode when `z` is
read; `d/x` then fails for an ordinary user; root succeeds, `d` keeps 0555 but is stamped now. -/
def closedSel : List Entry :=
  [.dir [[0x64]] (some 0o40555) 111, .file [[0x7a]] [] none 0, .file [[0x64], [0x78]] [] none 0]
#guard !hypsU { filters := [[0x64, 0x2a]] } sampleFs [] 0 closedSel []
#guard !(run (archiveOf closedSel) { filters := [[0x64, 0x2a]] } sampleFs []).result
#guard (let r := run (archiveOf closedSel) { filters := [[0x64, 0x2a]] } rootFs []
        r.result && Fs.lookup r.fs [[0x72], [0x64]] == some (.dir 0o555 rootFs.now))

/- (2) an old FILE where an implicit directory is needed (`r/a` is a file, the archive has `a/b/c`):
the overwrite check `stat("a/b/c")` fails with ENOTDIR, `lha_arch_exists` says LHA_FILE_ERROR and
`file_exists` calls `exit(-1)` — the WHOLE RUN is aborted at the first file member below `a` (model and
src/extract.c alike): `e`, which has nothing to do with `a`, is never extracted.  A link or directory
member at such a place only fails (`make_parent_directories`), and the run goes on: `a/l`, `e`.
Excluded by `PreAtU`. -/
def fsFileA : Fs.St := { sampleFs with ents := sampleFs.ents ++ [([[0x72], [0x61]], oldQ)] }
#guard !hypsU {} fsFileA [] 0 impSample []
#guard (let r := run (archiveOf impSample) {} fsFileA []
        r.aborted && !r.result && r.fs.ents == fsFileA.ents)
#guard (let r := run (archiveOf impSample.reverse) {} fsFileA []   -- `a/l`, `e`, `a/d`, `a/b/c`
        r.aborted && Fs.lookup r.fs [[0x72], [0x61]] == some oldQ &&
        Fs.lookup r.fs [[0x72], [0x65]] == some (.file [5] 0o600 444))

/- (3) `w=out` where `out` is a regular FILE: the same `exit(-1)` at the first file member.  Excluded by
`BaseU`. -/
def fsFileOut : Fs.St := { sampleFs with ents := sampleFs.ents ++ [([[0x72], [0x6f, 0x75, 0x74]], oldQ)] }
#guard !hypsU { extractPath := wOut } fsFileOut outDir 1 impSample [] && !hypsU { extractPath := wOut } fsFileOut outDir 0 impSample []
#guard (let r := run (archiveOf impSample) { extractPath := wOut } fsFileOut []
        r.aborted && !r.result && r.fs.ents == fsFileOut.ents)

/- (4) a pre-existing DIRECTORY below the base (`r/a`, 0700, time 5) with implicit parents: the run
succeeds, `a` keeps its mode and is stamped now.  Outside `BaseU` (regular files only): with an
explicit entry `a/` its recorded metadata would be ignored (`extract_dir_existing`). -/
def fsDirA : Fs.St := { sampleFs with ents := sampleFs.ents ++ [([[0x72], [0x61]], .dir 0o700 5)] }
#guard !hypsU {} fsDirA [] 0 impSample []
#guard (let r := run (archiveOf impSample) {} fsDirA []
        r.result && Fs.lookup r.fs [[0x72], [0x61]] == some (.dir 0o700 fsDirA.now))

end LhasaV.ArchiveOf.UniCheck
